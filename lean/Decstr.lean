import Decstr.Spec.Basic
import Decstr.Spec.Judge
import Decstr.Model.Api
import Decstr.Driver
import Decstr.Proofs.All
import Decstr.Props
