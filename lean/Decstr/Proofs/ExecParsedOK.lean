import Decstr.Proofs.ExecParsed
import Decstr.Proofs.Stream
import Decstr.Proofs.ParserMain
/-!
# Proofs.ExecParsedOK — the parsers deliver what `decimal_from_parsed` needs (`ParsedOK`): ranges inside the text
(from the buffer invariants `InvD`, which hold for the borrowed-string, array and vector buffers alike) over non-empty
runs of ASCII digits (from the fields the parse denotes).
-/
namespace Decstr.Proofs.Exec
open Decstr.Model Decstr.Model.Exec Decstr.Spec Decstr.Proofs

/-- the digit strings of the fields are what a numeral has: non-empty ASCII digit runs (a NaN payload may be empty) -/
def FieldsGood : Fields → Prop
  | .finite _ int frac exp => AsciiDigits int ∧ int ≠ [] ∧ (∀ fr, frac = some fr → AsciiDigits fr ∧ fr ≠ []) ∧
      (∀ e, exp = some e → AsciiDigits e.2 ∧ e.2 ≠ [])
  | .inf _ => True
  | .nan _ _ pl => ∀ x, pl = some x → AsciiDigits x.2

theorem slice_ne_lt (l : List Nat) (r : Range) (h : slice l r ≠ []) : r.start < r.stop := by
  rcases Nat.lt_or_ge r.start r.stop with h1 | h1
  · exact h1
  · exfalso; apply h
    have : r.stop - r.start = 0 := by omega
    simp [slice, this]

theorem fieldsGood_of_fieldsOK (txt : List Nat) (p : Parsed) (h : FieldsOK txt p) : FieldsGood (asciiFields p) := by
  cases p with
  | infinity neg => trivial
  | nan n =>
    obtain ⟨tb, sg, ng, pl⟩ := n
    obtain ⟨h1, h2⟩ := h
    simp only at h1 h2
    simp only [asciiFields, FieldsGood]
    intro x hx
    cases pl with
    | none => cases hx
    | some s =>
      simp only [Option.map_some, Option.some.injEq] at hx
      subst hx
      simp only
      rw [h1]; exact h2 s rfl
  | finite f =>
    obtain ⟨tb, sig, ex⟩ := f
    obtain ⟨h1, h2, h3⟩ := h
    simp only at h1 h2 h3
    simp only [asciiFields, FieldsGood, sigInt, sigFrac]
    rw [h1]
    cases hp : sig.point with
    | none =>
      rw [hp] at h2
      simp only at h2
      refine ⟨h2.1, h2.2, ?_, ?_⟩
      · intro fr hfr; cases hfr
      intro e he
      cases ex with
      | none => cases he
      | some e' =>
        simp only [Option.map_some, Option.some.injEq] at he
        subst he
        exact h3 e' rfl
    | some pt =>
      rw [hp] at h2
      simp only at h2
      refine ⟨h2.1, h2.2.1, ?_, ?_⟩
      · intro fr hfr
        simp only [Option.map_some, Option.some.injEq] at hfr
        subst hfr
        exact ⟨h2.2.2.1, h2.2.2.2⟩
      · intro e he
        cases ex with
        | none => cases he
        | some e' =>
          simp only [Option.map_some, Option.some.injEq] at he
          subst he
          exact h3 e' rfl

theorem pos_le_of_tracks (b : TextBuf) (h : Tracks b []) : b.pos ≤ b.ascii.length := by
  obtain ⟨k, t, i⟩ := b
  cases k
  · obtain ⟨pre, h1, h2⟩ := h rfl
    simp only at h1 h2
    subst h1 h2
    simp [TextBuf.pos, TextBuf.ascii]
  · simp [TextBuf.pos, TextBuf.ascii]
  · simp [TextBuf.pos, TextBuf.ascii]

/-- a parser state that is in step with its buffer and whose fields are digit runs finishes into a `ParsedOK` result -/
theorem parsedOK_of_inv (dp : DecimalParser) (p : Parsed) (hfin : dp.finish = .ok p) (hI : InvD dp [])
    (hG : FieldsGood (asciiFields p)) : ParsedOK p := by
  cases dp with
  | failed e => exact hI.elim
  | atStart b neg => cases hfin
  | infinity q =>
    simp only [DecimalParser.finish] at hfin
    cases hq : q.finish with
    | error e => rw [hq] at hfin; cases hfin
    | ok b => rw [hq] at hfin; injection hfin with hfin; subst hfin; trivial
  | nan n =>
    obtain ⟨hN, hT⟩ := hI
    have hpos := pos_le_of_tracks n.buf hT
    simp only [DecimalParser.finish, NanParser.finish] at hfin
    split at hfin
    · split at hfin
      · injection hfin with hfin; subst hfin
        rename_i s _ heq _
        intro s' hs' hgt
        simp only at hs' hgt ⊢
        injection hs' with hs'; subst hs'
        obtain ⟨_, _, hle, hb⟩ := hN.pay s heq
        have hstop : s.range.stop ≤ n.buf.pos := by
          rcases hb with ⟨_, hb⟩ | ⟨_, hb⟩ <;> omega
        refine ⟨hgt, by omega, ?_⟩
        have := hG (decide (s.range.stop > s.range.start), slice n.buf.ascii s.range) rfl
        exact this
      · cases hfin
    · injection hfin with hfin; subst hfin
      intro s hs; cases hs
    · cases hfin
  | finite f =>
    obtain ⟨hF, hT⟩ := hI
    have hpos := pos_le_of_tracks f.buf hT
    simp only [DecimalParser.finish, FiniteParser.finish] at hfin
    cases hd : f.hasDigits with
    | false => rw [hd] at hfin; cases hfin
    | true =>
      rw [hd] at hfin
      injection hfin with hfin; subst hfin
      obtain ⟨gi, gine, gfr, gex⟩ := hG
      simp only [sigInt, sigFrac] at gi gine gfr gex
      have hstop : f.sig.range.stop ≤ f.buf.pos := by
        have := hF.ph
        cases he : f.exp with
        | none => rw [he] at this; omega
        | some e => rw [he] at this; omega
      refine ⟨?_, ?_⟩
      · simp only
        cases hp : f.sig.point with
        | none =>
          rw [hp] at gi gine
          simp only at gi gine ⊢
          exact ⟨slice_ne_lt _ _ gine, by omega, gi⟩
        | some pt =>
          rw [hp] at gi gine gfr
          simp only at gi gine ⊢
          obtain ⟨p1, p2, p3⟩ := hF.pt pt hp
          obtain ⟨f1, f2⟩ := gfr _ rfl
          refine ⟨⟨slice_ne_lt _ _ gine, by simp only; omega, gi⟩, ⟨slice_ne_lt _ _ f2, by simp only; omega, f1⟩⟩
      · intro e he
        simp only at he
        have hph := hF.ph
        rw [he] at hph gex
        obtain ⟨e1, e2⟩ := gex (e.neg, slice f.buf.ascii e.range) rfl
        simp only at e1 e2 hph
        show DigitsNE f.buf.ascii e.range
        exact ⟨slice_ne_lt _ _ e2, by omega, e1⟩

/-- **`DecimalParser::parse_str`** delivers `ParsedOK` results -/
theorem parseStr_parsedOK (txt : List Nat) (p : Parsed) (h : parseStr txt = .ok p) : ParsedOK p := by
  have hF := fieldsGood_of_fieldsOK txt p (parseStr_fields_ascii txt p h)
  rw [parseStr_eq_runD] at h
  unfold runD at h
  cases hs : stepsD (DecimalParser.begin (TextBuf.new .str txt)) txt with
  | error e => rw [hs] at h; cases h
  | ok dp =>
    rw [hs] at h
    have hI := (stepsD_view _ txt [] (by simpa using invD_begin_str txt)).2 dp hs
    exact parsedOK_of_inv dp p h hI hF

/-- `tryParseStr`: whatever `parse_str` accepts, `decimal_from_parsed` converts without reaching a panic site -/
theorem fromParsedC_of_parseStr (T : Ty) (c : Bool) (txt : List Nat) (p : Parsed) (h : parseStr txt = .ok p) :
    fromParsedC T c p = .ok (fromParsed T p) := fromParsedC_eq T c p (parseStr_parsedOK txt p h)

end Decstr.Proofs.Exec

#print axioms Decstr.Proofs.Exec.parseStr_parsedOK
