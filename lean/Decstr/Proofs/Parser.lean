import Decstr.Proofs.ParserMain
import Decstr.Proofs.ParserErr
import Decstr.Proofs.ParserFiniteStr
/-!
# Proofs.Parser — work package PARSER (property C06, part of C17): summary, instances, axiom audit

* `ParserSem`       — the semantic automaton `Sem` (digit lists instead of ranges) and `semParse` / `semParseE`
* `ParserSpec`      — `semParse_eq_parse : semParse txt = Spec.parse txt`
* `ParserRefine`    — `numeralOf`, the invariants of the three sub-parsers over a `.str` buffer, one-byte simulation
* `ParserMain`      — `parseStr_refines`, and C06: `parseStr_ok_iff`, `parseStr_numeral`, `parseStr_fields_ascii`,
                      `parseStr_error_kind`
* `ParserErr`       — C17: `viable_iff_runs`, `parseStr_err_char`, `parseStr_err_end`
* `ParserFiniteStr` — `parseFiniteStr_eq_parseStr`, `parseFiniteStr_eq`

All theorems hold for every byte list `txt : List Nat`, with no bound on length or on the byte values.
-/
namespace Decstr.Proofs
open Decstr.Model Decstr.Spec

/-! ## the main statements, restated -/

example (txt : List Nat) : (∃ p, parseStr txt = .ok p) ↔ (Spec.parse txt).isSome := parseStr_ok_iff txt
example (txt : List Nat) (p : Parsed) (h : parseStr txt = .ok p) : Spec.parse txt = some (numeralOf p) :=
  parseStr_numeral txt p h
example (txt : List Nat) (p : Parsed) (h : parseStr txt = .ok p) : FieldsOK txt p := parseStr_fields_ascii txt p h
example (txt : List Nat) (e : ParseErr) (h : parseStr txt = .error e) : (∃ c, e = .char c) ∨ e = .endOfInput :=
  parseStr_error_kind txt e h
example (txt : List Nat) (c : Nat) :
    parseStr txt = .error (.char c) ↔ ∃ i, firstBad txt = some i ∧ txt[i]? = some c := parseStr_err_char txt c
example (txt : List Nat) :
    parseStr txt = .error .endOfInput ↔ (firstBad txt = none ∧ (Spec.parse txt).isNone) := parseStr_err_end txt
example (txt : List Nat) (h : startsWithDigitOrMinusDigit txt = true) :
    (parseFiniteStr txt).map numeralOf = (parseStr txt).map numeralOf := parseFiniteStr_eq txt h

/-! ## concrete instances (the hypotheses are met by real inputs) -/

/-- `-1.5e+3` -/
def exFinite : List Nat := [45, 49, 46, 53, 101, 43, 51]
/-- `+sNaN(042)` -/
def exNan : List Nat := [43, 115, 78, 97, 78, 40, 48, 52, 50, 41]
/-- `-Infinity` -/
def exInf : List Nat := [45, 73, 110, 102, 105, 110, 105, 116, 121]

theorem exFinite_ok : parseStr exFinite =
    .ok (.finite ⟨⟨.str, exFinite, 7⟩, ⟨true, ⟨1, 4⟩, some ⟨2, 3⟩⟩, some ⟨false, ⟨6, 7⟩⟩⟩) := by
  rw [parseStr_eq_dsteps]; rfl
theorem exNan_ok : parseStr exNan = .ok (.nan ⟨⟨.str, exNan, 10⟩, true, false, some ⟨false, ⟨6, 9⟩, none⟩⟩) := by
  rw [parseStr_eq_dsteps]; rfl
theorem exInf_ok : parseStr exInf = .ok (.infinity true) := by
  rw [parseStr_eq_dsteps]; rfl

-- `parseStr_numeral`: the ranges denote the grammar's fields
example : Spec.parse exFinite = some (.finite true [1] [5] (some (false, [3]))) := by
  rw [parseStr_numeral _ _ exFinite_ok]; decide
example : Spec.parse exNan = some (.nan false true (some [0, 4, 2])) := by
  rw [parseStr_numeral _ _ exNan_ok]; decide
example : Spec.parse exInf = some (.inf true) := parseStr_numeral _ _ exInf_ok
-- `parseStr_ok_iff`, right to left: acceptance follows from the grammar alone
example : ∃ p, parseStr exFinite = .ok p := (parseStr_ok_iff exFinite).2 (by decide)
-- `parseStr_fields_ascii`
example : AsciiDigits (slice exFinite ⟨1, 2⟩) ∧ AsciiDigits (slice exFinite ⟨3, 4⟩) ∧ slice exFinite ⟨6, 7⟩ ≠ [] := by
  have h := parseStr_fields_ascii _ _ exFinite_ok
  exact ⟨h.2.1.1, h.2.1.2.2.1, (h.2.2 _ rfl).2⟩
example : AsciiDigits (slice exNan ⟨6, 9⟩) := (parseStr_fields_ascii _ _ exNan_ok).2 _ rfl
-- `parseStr_err_char`: `1x`, `1.5e+-3`, `nan(1a)`
example : parseStr [49, 120] = .error (.char 120) := (parseStr_err_char _ _).2 ⟨1, by decide, rfl⟩
example : parseStr [49, 46, 53, 101, 43, 45, 51] = .error (.char 45) := (parseStr_err_char _ _).2 ⟨5, by decide, rfl⟩
example : parseStr [110, 97, 110, 40, 49, 97, 41] = .error (.char 97) := (parseStr_err_char _ _).2 ⟨5, by decide, rfl⟩
example : ∃ i, firstBad [49, 120] = some i ∧ [49, 120][i]? = some 120 :=
  (parseStr_err_char _ _).1 (by rw [parseStr_eq_dsteps]; rfl)
-- `parseStr_err_end`: `1e`, `-`, `nan(`, `infin`
example : parseStr [49, 101] = .error .endOfInput := (parseStr_err_end _).2 (by decide)
example : parseStr [45] = .error .endOfInput := (parseStr_err_end _).2 (by decide)
example : parseStr [110, 97, 110, 40] = .error .endOfInput := (parseStr_err_end _).2 (by decide)
example : parseStr [105, 110, 102, 105, 110] = .error .endOfInput := (parseStr_err_end _).2 (by decide)
example : parseStr [] = .error .endOfInput := (parseStr_err_end _).2 (by decide)
-- `parseStr_error_kind`
example : (∃ c, ParseErr.char 120 = .char c) ∨ ParseErr.char 120 = .endOfInput :=
  parseStr_error_kind [49, 120] _ ((parseStr_err_char _ _).2 ⟨1, by decide, rfl⟩)
-- `parseFiniteStr_eq`: `-12e3`, `7`
example : parseFiniteStr [45, 49, 50, 101, 51] = parseStr [45, 49, 50, 101, 51] := parseFiniteStr_eq_parseStr _ (by decide)
example : (parseFiniteStr [55]).map numeralOf = (parseStr [55]).map numeralOf := parseFiniteStr_eq _ (by decide)

end Decstr.Proofs

#print axioms Decstr.Proofs.semParse_eq_parse
#print axioms Decstr.Proofs.parseStr_refines
#print axioms Decstr.Proofs.parseStr_ok_iff
#print axioms Decstr.Proofs.parseStr_numeral
#print axioms Decstr.Proofs.parseStr_fields_ascii
#print axioms Decstr.Proofs.parseStr_error_kind
#print axioms Decstr.Proofs.viable_iff_runs
#print axioms Decstr.Proofs.parseStr_err_char
#print axioms Decstr.Proofs.parseStr_err_end
#print axioms Decstr.Proofs.parseFiniteStr_eq_parseStr
#print axioms Decstr.Proofs.parseFiniteStr_eq
