import Decstr.Proofs.ParserRefine
/-!
# Proofs.ParserMain — C06 for the string entry point `Model.parseStr`: refinement of the semantic parser, and its consequences
-/
set_option linter.unusedSimpArgs false
namespace Decstr.Proofs
open Decstr.Model Decstr.Spec

/-! ## DecimalParser, one byte at a time -/

/-- one byte of `DecimalParser::parse_ascii` -/
def dstep : DecimalParser → Nat → Except ParseErr DecimalParser
  | .atStart b neg, c => DecimalParser.startStep b neg c
  | .finite f, c => (f.step c).map .finite
  | .infinity p, c => (p.step c).map .infinity
  | .nan n, c => (n.step c).map .nan
  | .failed e, _ => .error e

def dsteps (p : DecimalParser) : List Nat → Except ParseErr DecimalParser
  | [] => .ok p
  | c :: cs => match dstep p c with
    | .ok p' => dsteps p' cs
    | .error e => .error e

/-- the parser works on a `.str` buffer -/
def StrKind : DecimalParser → Prop
  | .atStart b _ => b.kind = .str
  | .finite f => f.buf.kind = .str
  | .infinity p => p.buf.kind = .str
  | .nan n => n.buf.kind = .str
  | .failed _ => False

theorem put_kind (b : TextBuf) (c : Nat) : (b.put c).kind = b.kind := by
  unfold TextBuf.put; split <;> rfl

theorem fin_steps_eq (f : FiniteParser) (cs : List Nat) :
    (f.steps cs).map DecimalParser.finite = dsteps (.finite f) cs := by
  induction cs generalizing f with
  | nil => rfl
  | cons c cs ih =>
    simp only [FiniteParser.steps, dsteps, dstep]
    cases f.step c with
    | error e => rfl
    | ok f' => exact ih f'

theorem inf_steps_eq (f : InfinityParser) (cs : List Nat) :
    (f.steps cs).map DecimalParser.infinity = dsteps (.infinity f) cs := by
  induction cs generalizing f with
  | nil => rfl
  | cons c cs ih =>
    simp only [InfinityParser.steps, dsteps, dstep]
    cases f.step c with
    | error e => rfl
    | ok f' => exact ih f'

theorem nan_steps_eq (f : NanParser) (cs : List Nat) :
    (f.steps cs).map DecimalParser.nan = dsteps (.nan f) cs := by
  induction cs generalizing f with
  | nil => rfl
  | cons c cs ih =>
    simp only [NanParser.steps, dsteps, dstep]
    cases f.step c with
    | error e => rfl
    | ok f' => exact ih f'

theorem remaining_str (b : TextBuf) (h : b.kind = .str) : b.remaining = none := by
  simp [TextBuf.remaining, h]


def absD : DecimalParser → Sem
  | .atStart _ neg => .start neg
  | .finite f => .fin (absFin f)
  | .infinity p => .inf (absInf p)
  | .nan n => .nan (absNan n)
  | .failed _ => .start none

/-- the invariant of `DecimalParser` after consuming `i` bytes of `txt` -/
def DInv (txt : List Nat) (i : Nat) : DecimalParser → Prop
  | .atStart b neg => b = ⟨.str, txt, 0⟩ ∧ i = (if neg.isSome then 1 else 0)
  | .finite f => FinInv txt f ∧ f.buf.idx = i
  | .infinity p => InfInv p
  | .nan n => NanInv txt n ∧ n.buf.idx = i
  | .failed _ => False

/-- the `FiniteParser` just after its first digit, at index `a` -/
theorem fin_init (txt : List Nat) (a c : Nat) (neg hs : Bool) (hc : txt[a]? = some c) (hd : isDigit c = true) :
    FinInv txt ⟨⟨.str, txt, a + 1⟩, ⟨neg, ⟨a, a + 1⟩, none⟩, none, hs, false, true⟩ ∧
    absFin ⟨⟨.str, txt, a + 1⟩, ⟨neg, ⟨a, a + 1⟩, none⟩, none, hs, false, true⟩ =
      { neg := neg, int := [c - 48], hasSign := hs, hasDigits := true } := by
  constructor
  · constructor
    case ascii_int =>
      simp only [intR]
      exact ascii_snoc _ _ _ _ (Nat.le_refl _) hc (ascii_self _ _) hd
    case ascii_frac => simp only [fracR]; exact ascii_self _ _
    case idx_le => exact lt_of_getElem? _ _ _ hc
    all_goals simp
  · simp [absFin, intR, fracR, dvr_snoc _ _ _ _ (Nat.le_refl _) hc, dvr_self]

theorem start_step (txt : List Nat) (i : Nat) (neg : Option Bool) (c : Nat)
    (hi : i = (if neg.isSome then 1 else 0)) (hc : txt[i]? = some c) :
    match DecimalParser.startStep ⟨.str, txt, 0⟩ neg c with
    | .ok dp' => DInv txt (i + 1) dp' ∧ (Sem.start neg).step c = some (absD dp')
    | .error e => e = .char c ∧ (Sem.start neg).step c = none := by
  simp only [DecimalParser.startStep]
  by_cases hd : isDigit c = true
  · simp only [hd, if_true]
    rcases neg with _ | _ | _
    · simp only [Option.isSome_none, Bool.false_eq_true, if_false] at hi; subst hi
      simp only [FiniteParser.begin, TextBuf.beginSignificand, TextBuf.pos, FiniteParser.pushSignificandDigit,
        TextBuf.pushSignificandDigit, TextBuf.put]
      obtain ⟨h1, h2⟩ := fin_init txt 0 c false false hc hd
      exact ⟨⟨h1, rfl⟩, by simp [Sem.step, hd, absD, h2]⟩
    · simp only [Option.isSome_some, if_true] at hi; subst hi
      simp only [FiniteParser.begin, TextBuf.beginSignificand, TextBuf.pos, FiniteParser.pushSignificandDigit,
        TextBuf.pushSignificandDigit, TextBuf.put, FiniteParser.significandPositive, TextBuf.significandPositive]
      obtain ⟨h1, h2⟩ := fin_init txt 1 c false true hc hd
      exact ⟨⟨h1, rfl⟩, by simp [Sem.step, hd, absD, h2]⟩
    · simp only [Option.isSome_some, if_true] at hi; subst hi
      simp only [FiniteParser.begin, TextBuf.beginSignificand, TextBuf.pos, FiniteParser.pushSignificandDigit,
        TextBuf.pushSignificandDigit, TextBuf.put, FiniteParser.significandNegative, TextBuf.significandNegative]
      obtain ⟨h1, h2⟩ := fin_init txt 1 c true true hc hd
      exact ⟨⟨h1, rfl⟩, by simp [Sem.step, hd, absD, h2]⟩
  · simp only [hd, Bool.false_eq_true, if_false]
    by_cases h45 : (decide (c = 45) && neg.isNone) = true
    · simp only [h45, if_true]
      simp only [Bool.and_eq_true, decide_eq_true_eq, Option.isNone_iff_eq_none] at h45
      obtain ⟨rfl, rfl⟩ := h45
      simp only [Option.isSome_none, Bool.false_eq_true, if_false] at hi; subst hi
      exact ⟨⟨rfl, rfl⟩, by simp [Sem.step, isDigit, absD]⟩
    · simp only [h45, Bool.false_eq_true, if_false]
      by_cases h43 : (decide (c = 43) && neg.isNone) = true
      · simp only [h43, if_true]
        simp only [Bool.and_eq_true, decide_eq_true_eq, Option.isNone_iff_eq_none] at h43
        obtain ⟨rfl, rfl⟩ := h43
        simp only [Option.isSome_none, Bool.false_eq_true, if_false] at hi; subst hi
        exact ⟨⟨rfl, rfl⟩, by simp [Sem.step, isDigit, absD]⟩
      · simp only [h43, Bool.false_eq_true, if_false]
        have hsem45 : (decide (c = 45) && neg.isNone) = false := by simpa only [Bool.not_eq_true] using h45
        have hsem43 : (decide (c = 43) && neg.isNone) = false := by simpa only [Bool.not_eq_true] using h43
        have hnd : isDigit c = false := by simpa using hd
        by_cases hS : (decide (c = 115) || decide (c = 83)) = true
        · simp only [hS, if_true]
          rcases neg with _ | _ | _ <;>
            simp only [Option.isSome_none, Option.isSome_some, Bool.false_eq_true, if_false, if_true] at hi <;>
            subst hi <;>
            (refine ⟨⟨⟨rfl, rfl, by simp [NanParser.nanSignaling, NanParser.nanPositive, NanParser.nanNegative, kwSnan, ps_NanSuffix],
                by simp [NanParser.nanSignaling, NanParser.nanPositive, NanParser.nanNegative]⟩, rfl⟩, ?_⟩
             clear hc; simp_all [Sem.step, absD, absNan, NanParser.nanSignaling, NanParser.nanPositive, NanParser.nanNegative])
        · simp only [hS, Bool.false_eq_true, if_false]
          by_cases hN : (decide (c = 110) || decide (c = 78)) = true
          · simp only [hN, if_true]
            rcases neg with _ | _ | _ <;>
              simp only [Option.isSome_none, Option.isSome_some, Bool.false_eq_true, if_false, if_true] at hi <;>
              subst hi <;>
              (refine ⟨⟨⟨rfl, rfl, by simp [NanParser.nanQuiet, NanParser.nanPositive, NanParser.nanNegative, kwSnan, ps_NanSuffix],
                  by simp [NanParser.nanQuiet, NanParser.nanPositive, NanParser.nanNegative]⟩, rfl⟩, ?_⟩
               clear hc; simp_all [Sem.step, absD, absNan, NanParser.nanQuiet, NanParser.nanPositive, NanParser.nanNegative])
          · simp only [hN, Bool.false_eq_true, if_false]
            by_cases hI : (decide (c = 105) || decide (c = 73)) = true
            · simp only [hI, if_true]
              rcases neg with _ | _ | _ <;>
                (refine ⟨⟨by simp [InfinityParser.advance, TextBuf.advanceSignificand, TextBuf.put],
                    by simp [InfinityParser.advance, kwInfinity]⟩, ?_⟩
                 clear hc hi; simp_all [Sem.step, absD, absInf, InfinityParser.advance])
            · simp only [hI, Bool.false_eq_true, if_false]
              refine ⟨trivial, ?_⟩
              simp [Sem.step, hnd, hsem45, hsem43, hS, hN, hI]

/-- one byte: the invariant moves one position on, and the model and the semantic automaton agree -/
theorem d_step (txt : List Nat) (i : Nat) (dp : DecimalParser) (c : Nat) (hI : DInv txt i dp)
    (hc : txt[i]? = some c) :
    match dstep dp c with
    | .ok dp' => DInv txt (i + 1) dp' ∧ (absD dp).step c = some (absD dp')
    | .error e => e = .char c ∧ (absD dp).step c = none := by
  cases dp with
  | failed e => exact hI.elim
  | atStart b neg =>
    obtain ⟨rfl, hi⟩ := hI
    exact start_step txt i neg c hi hc
  | finite f =>
    obtain ⟨hf, rfl⟩ := hI
    have := fin_step txt f c hf hc
    simp only [dstep, absD, Sem.step]
    cases h : f.step c with
    | ok f' => rw [h] at this; obtain ⟨h1, h2, h3⟩ := this; exact ⟨⟨h1, h2⟩, by simp [h3]⟩
    | error e => rw [h] at this; obtain ⟨h1, h2⟩ := this; exact ⟨h1, by simp [h2]⟩
  | infinity p =>
    have := inf_step p c hI
    simp only [dstep, absD, Sem.step]
    cases h : p.step c with
    | ok f' => rw [h] at this; obtain ⟨h1, h3⟩ := this; exact ⟨h1, by simp [h3]⟩
    | error e => rw [h] at this; obtain ⟨h1, h2⟩ := this; exact ⟨h1, by simp [h2]⟩
  | nan n =>
    obtain ⟨hf, rfl⟩ := hI
    have := nan_step txt n c hf hc
    simp only [dstep, absD, Sem.step]
    cases h : n.step c with
    | ok f' => rw [h] at this; obtain ⟨h1, h2, h3⟩ := this; exact ⟨⟨h1, h2⟩, by simp [h3]⟩
    | error e => rw [h] at this; obtain ⟨h1, h2⟩ := this; exact ⟨h1, by simp [h2]⟩

theorem drop_cons_get {α : Type} (l : List α) (i : Nat) (c : α) (cs : List α) (h : l.drop i = c :: cs) :
    l[i]? = some c ∧ l.drop (i + 1) = cs := by
  constructor
  · have := congrArg (fun l => l[0]?) h
    simpa using this
  · have := congrArg (fun l => l.drop 1) h
    simpa [List.drop_drop, Nat.add_comm] using this

/-- the whole run -/
theorem dsteps_sim (txt : List Nat) (rest : List Nat) (i : Nat) (dp : DecimalParser) (hI : DInv txt i dp)
    (hr : txt.drop i = rest) :
    match dsteps dp rest with
    | .ok dp' => (∃ j, DInv txt j dp') ∧ (absD dp).run rest = .ok (absD dp')
    | .error e => (absD dp).run rest = .error e := by
  induction rest generalizing i dp with
  | nil => exact ⟨⟨i, hI⟩, rfl⟩
  | cons c cs ih =>
    obtain ⟨hc, hcs⟩ := drop_cons_get txt i c cs hr
    have := d_step txt i dp c hI hc
    simp only [dsteps, Sem.run]
    cases h : dstep dp c with
    | ok dp' =>
      rw [h] at this
      obtain ⟨h1, h2⟩ := this
      rw [h2]
      exact ih (i + 1) dp' h1 hcs
    | error e =>
      rw [h] at this
      obtain ⟨rfl, h2⟩ := this
      rw [h2]

/-- `parse_ascii` on the whole text is the byte-wise run -/
theorem parseAscii_eq_dsteps (txt : List Nat) (rest : List Nat) (i : Nat) (dp : DecimalParser) (hI : DInv txt i dp)
    (hr : txt.drop i = rest) : dp.parseAscii rest = dsteps dp rest := by
  induction rest generalizing i dp with
  | nil =>
    cases dp with
    | failed e => exact hI.elim
    | _ => rw [DecimalParser.parseAscii.eq_2 _ (by intro e h; cases h)]; rfl
  | cons c cs ih =>
    cases dp with
    | failed e => exact hI.elim
    | atStart b neg =>
      obtain ⟨hc, hcs⟩ := drop_cons_get txt i c cs hr
      have := d_step txt i _ c hI hc
      rw [DecimalParser.parseAscii.eq_6]
      simp only [dsteps, dstep] at this ⊢
      cases h : DecimalParser.startStep b neg c with
      | ok dp' => rw [h] at this; exact ih (i + 1) dp' this.1 hcs
      | error e => rfl
    | finite f =>
      rw [DecimalParser.parseAscii.eq_3 _ _ (by intro h; cases h), ← fin_steps_eq]
      simp [FiniteParser.parseAscii, remaining_str _ hI.1.kind]
    | infinity f =>
      rw [DecimalParser.parseAscii.eq_4 _ _ (by intro h; cases h), ← inf_steps_eq]
      simp [InfinityParser.parseAscii, remaining_str _ hI.kind]
    | nan f =>
      rw [DecimalParser.parseAscii.eq_5 _ _ (by intro h; cases h), ← nan_steps_eq]
      simp [NanParser.parseAscii, remaining_str _ hI.1.kind]

/-- `parse_str` is the byte-wise run followed by `end()` (the well-founded recursion of `parseAscii` removed) -/
theorem parseStr_eq_dsteps (txt : List Nat) :
    parseStr txt = match dsteps (.atStart ⟨.str, txt, 0⟩ none) txt with
      | .ok p => p.finish
      | .error e => .error e := by
  have hI : DInv txt 0 (DecimalParser.begin (TextBuf.new .str txt)) := ⟨rfl, rfl⟩
  unfold parseStr
  rw [parseAscii_eq_dsteps txt txt 0 _ hI rfl]
  rfl

/-- the semantic verdict as the model reports it -/
def finishE (s : Sem) : Except ParseErr Numeral :=
  match s.finish with
  | some n => .ok n
  | none => .error .endOfInput

theorem numeralOfFinite_abs (f : FiniteParser) :
    numeralOfFinite ⟨f.buf, f.sig, f.exp⟩ = .finite (absFin f).neg (absFin f).int (absFin f).frac (absFin f).exp := by
  obtain ⟨⟨k, t, i⟩, ⟨sneg, ⟨a, b⟩, point⟩, exp, hs, hdec, hdig⟩ := f
  rcases point with _ | ⟨ps, pe⟩ <;> simp [numeralOfFinite, absFin, intR, fracR, dvr, TextBuf.ascii, dvr_self] <;> rfl

/-- `end()` agrees with the semantic verdict -/
theorem finish_sim (txt : List Nat) (j : Nat) (dp : DecimalParser) (hI : DInv txt j dp) :
    dp.finish.map numeralOf = finishE (absD dp) := by
  cases dp with
  | failed e => exact hI.elim
  | atStart b neg => rfl
  | finite f =>
    simp only [DecimalParser.finish, FiniteParser.finish, absD, finishE, Sem.finish, SFin.finish]
    have : (absFin f).hasDigits = f.hasDigits := rfl
    rw [this]
    cases h : f.hasDigits
    · rfl
    · simp [Except.map, numeralOf, numeralOfFinite_abs]
  | infinity p =>
    simp only [DecimalParser.finish, InfinityParser.finish, absD, finishE, Sem.finish, SInf.finish, absInf]
    by_cases h : (decide (p.expecting = []) || decide (p.expecting = List.drop 3 kwInfinity)) = true
    · simp [h, Except.map, numeralOf]
    · simp [h, Except.map]
  | nan n =>
    obtain ⟨⟨kind, text, suffix, pl⟩, _⟩ := hI
    obtain ⟨⟨k, t, i⟩, expecting, sig, neg, payload⟩ := n
    simp only at kind text suffix pl
    simp only [DecimalParser.finish, NanParser.finish, absD, finishE, Sem.finish, SNan.finish, absNan]
    rcases payload with _ | s
    · rcases suffix with h | h | h | h | h | h <;> subst h <;> simp [Except.map, numeralOf]
    · obtain ⟨h1, h2, -, -, h5⟩ := pl _ rfl
      rcases h5 with ⟨h5, -⟩ | h5 <;> subst h5 <;> simp [Except.map, numeralOf, h1, h2, dvr, TextBuf.ascii]

/-- **Refinement.** The string entry point, with every recorded range read back as digits, is the
    semantic parser — results and errors alike. -/
theorem parseStr_refines (txt : List Nat) : (parseStr txt).map numeralOf = semParseE txt := by
  have hI : DInv txt 0 (DecimalParser.begin (TextBuf.new .str txt)) := ⟨rfl, rfl⟩
  have h1 := parseAscii_eq_dsteps txt txt 0 _ hI rfl
  have h2 := dsteps_sim txt txt 0 _ hI rfl
  unfold parseStr semParseE
  rw [h1]
  have e : absD (DecimalParser.begin (TextBuf.new .str txt)) = Sem.start none := rfl
  rw [e] at h2
  cases h : dsteps (DecimalParser.begin (TextBuf.new .str txt)) txt with
  | ok dp' =>
    rw [h] at h2
    obtain ⟨⟨j, hj⟩, h3⟩ := h2
    rw [h3]
    exact finish_sim txt j dp' hj
  | error e =>
    rw [h] at h2
    rw [h2]; rfl

/-! ## C06 -/

theorem semParse_of_parseStr (txt : List Nat) (p : Parsed) (h : parseStr txt = .ok p) :
    semParse txt = some (numeralOf p) := by
  have := parseStr_refines txt
  rw [h] at this
  exact (semParseE_ok_iff txt _).1 this.symm

/-- **C06**: an accepted string is never mis-tokenised: every byte lands in the field the grammar assigns it -/
theorem parseStr_numeral (txt : List Nat) (p : Parsed) (h : parseStr txt = .ok p) :
    Spec.parse txt = some (numeralOf p) := by
  rw [← semParse_eq_parse]; exact semParse_of_parseStr txt p h

/-- **C06**: the parser accepts exactly the grammar -/
theorem parseStr_ok_iff (txt : List Nat) : (∃ p, parseStr txt = .ok p) ↔ (Spec.parse txt).isSome := by
  constructor
  · rintro ⟨p, h⟩
    rw [parseStr_numeral txt p h]; rfl
  · intro h
    obtain ⟨n, hn⟩ := Option.isSome_iff_exists.1 h
    rw [← semParse_eq_parse] at hn
    have h2 := (semParseE_ok_iff txt n).2 hn
    rw [← parseStr_refines] at h2
    cases hp : parseStr txt with
    | ok p => exact ⟨p, rfl⟩
    | error e => rw [hp] at h2; cases h2

theorem Sem.run_error (s : Sem) (cs : List Nat) (e : ParseErr) (h : s.run cs = .error e) : ∃ c, e = .char c := by
  induction cs generalizing s with
  | nil => cases h
  | cons c cs ih =>
    simp only [Sem.run] at h
    cases hs : s.step c with
    | none => rw [hs] at h; injection h with h; exact ⟨c, h.symm⟩
    | some s' => rw [hs] at h; exact ih s' h

theorem semParseE_error (txt : List Nat) (e : ParseErr) (h : semParseE txt = .error e) :
    (∃ c, e = .char c) ∨ e = .endOfInput := by
  unfold semParseE at h
  cases hr : (Sem.start none).run txt with
  | error e' =>
    rw [hr] at h; injection h with h; subst h
    exact Or.inl (Sem.run_error _ _ _ hr)
  | ok s =>
    rw [hr] at h
    simp only at h
    cases hf : s.finish with
    | none => rw [hf] at h; injection h with h; exact Or.inr h.symm
    | some n => rw [hf] at h; cases h

theorem parseStr_error_iff (txt : List Nat) (e : ParseErr) : parseStr txt = .error e ↔ semParseE txt = .error e := by
  rw [← parseStr_refines]
  cases parseStr txt with
  | ok p => constructor <;> intro h <;> cases h
  | error e' =>
    constructor
    · intro h; injection h with h; subst h; rfl
    · intro h; injection h with h; subst h; rfl

/-- only syntax errors come out of the string entry point -/
theorem parseStr_error_kind (txt : List Nat) (e : ParseErr) (h : parseStr txt = .error e) :
    (∃ c, e = .char c) ∨ e = .endOfInput :=
  semParseE_error txt e ((parseStr_error_iff txt e).1 h)

/-- the parser state `end()` was called on -/
theorem parseStr_inv (txt : List Nat) (p : Parsed) (h : parseStr txt = .ok p) :
    ∃ dp j, DInv txt j dp ∧ dp.finish = .ok p := by
  have hI : DInv txt 0 (DecimalParser.begin (TextBuf.new .str txt)) := ⟨rfl, rfl⟩
  have h1 := parseAscii_eq_dsteps txt txt 0 _ hI rfl
  have h2 := dsteps_sim txt txt 0 _ hI rfl
  unfold parseStr at h
  rw [h1] at h
  cases hd : dsteps (DecimalParser.begin (TextBuf.new .str txt)) txt with
  | ok dp' =>
    rw [hd] at h h2
    obtain ⟨⟨j, hj⟩, -⟩ := h2
    exact ⟨dp', j, hj, h⟩
  | error e => rw [hd] at h; cases h

theorem slice_ne_nil (txt : List Nat) (a b : Nat) (h1 : a < b) (h2 : b ≤ txt.length) : slice txt ⟨a, b⟩ ≠ [] := by
  intro h
  have := congrArg List.length h
  simp [slice] at this
  omega

/-- what is known about the fields of an accepted parse -/
def FieldsOK (txt : List Nat) : Parsed → Prop
  | .finite f => f.buf.ascii = txt ∧
      (match f.sig.point with
       | some pt =>
          AsciiDigits (slice txt ⟨f.sig.range.start, pt.start⟩) ∧ slice txt ⟨f.sig.range.start, pt.start⟩ ≠ [] ∧
          AsciiDigits (slice txt ⟨pt.stop, f.sig.range.stop⟩) ∧ slice txt ⟨pt.stop, f.sig.range.stop⟩ ≠ []
       | none => AsciiDigits (slice txt f.sig.range) ∧ slice txt f.sig.range ≠ []) ∧
      (∀ e, f.exp = some e → AsciiDigits (slice txt e.range) ∧ slice txt e.range ≠ [])
  | .infinity _ => True
  | .nan n => n.buf.ascii = txt ∧ ∀ s, n.payload = some s → AsciiDigits (slice txt s.range)

/-- the sliced fields really are digit strings: every sliced range of an accepted parse is made of ASCII digits,
    the integer part and (if a point was seen) the fractional part are non-empty, the exponent digits (if any)
    are non-empty -/
theorem parseStr_fields_ascii (txt : List Nat) (p : Parsed) (h : parseStr txt = .ok p) : FieldsOK txt p := by
  obtain ⟨dp, j, hI, hf⟩ := parseStr_inv txt p h
  cases dp with
  | failed e => exact hI.elim
  | atStart b neg => cases hf
  | infinity q =>
    simp only [DecimalParser.finish] at hf
    cases hq : q.finish with
    | error e => rw [hq] at hf; cases hf
    | ok b => rw [hq] at hf; injection hf with hf; subst hf; trivial
  | nan n =>
    obtain ⟨⟨kind, text, suffix, pl⟩, -⟩ := hI
    simp only [DecimalParser.finish, NanParser.finish] at hf
    split at hf
    · split at hf
      · injection hf with hf; subst hf
        rename_i s _ heq _
        refine ⟨text, ?_⟩
        intro s' hs'
        simp only at hs'
        exact (pl s' (by rw [← hs']; exact heq)).2.2.2.1
      · cases hf
    · injection hf with hf; subst hf
      exact ⟨text, by intro s hs; cases hs⟩
    · cases hf
  | finite f =>
    obtain ⟨hF, -⟩ := hI
    simp only [DecimalParser.finish, FiniteParser.finish] at hf
    cases hd : f.hasDigits with
    | false => rw [hd] at hf; cases hf
    | true =>
      rw [hd] at hf
      injection hf with hf; subst hf
      obtain ⟨⟨k, t, i⟩, ⟨sneg, ⟨a, b⟩, point⟩, exp, hs, hdec, hdig⟩ := f
      obtain ⟨kind, text, idx_le, stop_le, stop_eq, dec, int_ne, pt, started, frac_ne, hexp, ascii_int, ascii_frac, ascii_exp⟩ := hF
      simp only at kind text idx_le stop_le stop_eq dec int_ne pt started frac_ne hexp ascii_int ascii_frac ascii_exp hd
      subst kind text hd
      refine ⟨rfl, ?_, ?_⟩
      · rcases point with _ | ⟨ps, pe⟩
        · exact ⟨ascii_int, slice_ne_nil _ _ _ (int_ne rfl) (by omega)⟩
        · obtain ⟨p1, p2, p3⟩ := pt _ rfl
          have p4 := frac_ne _ rfl (Or.inl rfl)
          simp only at p1 p2 p3 p4
          exact ⟨ascii_int, slice_ne_nil _ _ _ p1 (by simp only; omega), ascii_frac,
            slice_ne_nil _ _ _ p4 (by simp only; omega)⟩
      · intro e he
        obtain ⟨e1, e2, e3, e4⟩ := hexp e he
        obtain ⟨en, ⟨es, ee⟩⟩ := e
        simp only at e1 e2 e3 e4
        exact ⟨ascii_exp _ he, slice_ne_nil _ _ _ (e4 trivial) (by omega)⟩

end Decstr.Proofs

#print axioms Decstr.Proofs.parseStr_ok_iff
#print axioms Decstr.Proofs.parseStr_numeral
#print axioms Decstr.Proofs.parseStr_fields_ascii
#print axioms Decstr.Proofs.parseStr_error_kind
