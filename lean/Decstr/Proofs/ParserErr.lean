import Decstr.Proofs.ParserMain
import Decstr.Spec.Judge
/-!
# Proofs.ParserErr — C17 for the string entry point: which syntax error is reported

A prefix is viable (has a grammatical completion) exactly when the semantic automaton is still
running after it; hence `parseStr` names the first byte after which no completion exists, and
reports an unexpected end exactly for the proper prefixes of numerals.
-/
set_option linter.unusedSimpArgs false
namespace Decstr.Proofs
open Decstr.Model Decstr.Spec

/-! ## runs and prefixes -/

theorem Sem.run_append (s : Sem) (a b : List Nat) :
    s.run (a ++ b) = match s.run a with | .ok s' => s'.run b | .error e => .error e := by
  induction a generalizing s with
  | nil => rfl
  | cons c cs ih =>
    simp only [List.cons_append, Sem.run]
    cases s.step c with
    | none => rfl
    | some s' => exact ih s'

def Sem.runs (s : Sem) (cs : List Nat) : Prop := ∃ s', s.run cs = .ok s'

theorem Sem.runs_of_append (s : Sem) (a b : List Nat) (h : s.runs (a ++ b)) : s.runs a := by
  obtain ⟨s', h⟩ := h
  rw [Sem.run_append] at h
  cases ha : s.run a with
  | ok s1 => exact ⟨s1, ha⟩
  | error e => rw [ha] at h; cases h

theorem Sem.runs_take (s : Sem) (txt : List Nat) (i : Nat) (h : s.runs txt) : s.runs (txt.take i) := by
  rw [← List.take_append_drop i txt] at h
  exact Sem.runs_of_append _ _ _ h

theorem take_succ_of_get (txt : List Nat) (i c : Nat) (hc : txt[i]? = some c) : txt.take (i + 1) = txt.take i ++ [c] := by
  rw [List.take_add_one, hc]; rfl

/-- the run fails with byte `c` exactly when some position holds `c`, the run reaches it, and `c` is rejected there -/
theorem Sem.run_error_iff (s : Sem) (txt : List Nat) (c : Nat) :
    s.run txt = .error (.char c) ↔
      ∃ i s', txt[i]? = some c ∧ s.run (txt.take i) = .ok s' ∧ s'.step c = none := by
  induction txt generalizing s with
  | nil =>
    constructor
    · intro h; cases h
    · rintro ⟨i, s', h, -⟩; simp at h
  | cons d ds ih =>
    simp only [Sem.run]
    cases hs : s.step d with
    | none =>
      constructor
      · intro h; injection h with h; injection h with h; subst h
        exact ⟨0, s, rfl, rfl, hs⟩
      · rintro ⟨i, s', h1, h2, h3⟩
        cases i with
        | zero =>
          simp at h1; subst h1; rfl
        | succ i =>
          simp only [List.take_succ_cons, Sem.run, hs] at h2
          cases h2
    | some s1 =>
      simp only []
      rw [ih s1]
      constructor
      · rintro ⟨i, s', h1, h2, h3⟩
        refine ⟨i + 1, s', by simpa using h1, ?_, h3⟩
        simp only [List.take_succ_cons, Sem.run, hs]; exact h2
      · rintro ⟨i, s', h1, h2, h3⟩
        cases i with
        | zero =>
          simp only [List.take_zero, Sem.run] at h2
          injection h2 with h2; subst h2
          simp at h1; subst h1
          rw [hs] at h3; cases h3
        | succ i =>
          simp only [List.take_succ_cons, Sem.run, hs] at h2
          exact ⟨i, s', by simpa using h1, h2, h3⟩

/-! ## reachable states -/

/-- the proper suffixes of `infinity` -/
def InfSuffix (l : List Nat) : Prop :=
  l = [110, 102, 105, 110, 105, 116, 121] ∨ l = [102, 105, 110, 105, 116, 121] ∨ l = [105, 110, 105, 116, 121] ∨
  l = [110, 105, 116, 121] ∨ l = [105, 116, 121] ∨ l = [116, 121] ∨ l = [121] ∨ l = []

theorem InfSuffix.tail {e : Nat} {es : List Nat} (h : InfSuffix (e :: es)) : InfSuffix es := by
  rcases h with h | h | h | h | h | h | h | h <;> cases h <;> simp [InfSuffix]

/-- the states the automaton can be in: the keyword being matched is a proper suffix, and a NaN payload
    exists exactly once the parenthesis is open -/
def SemOK : Sem → Prop
  | .start _ => True
  | .fin _ => True
  | .inf s => InfSuffix s.expecting
  | .nan s =>
      (s.expecting = [110, 97, 110, 40, 41] ∧ s.payload = none) ∨ (s.expecting = [97, 110, 40, 41] ∧ s.payload = none) ∨
      (s.expecting = [110, 40, 41] ∧ s.payload = none) ∨ (s.expecting = [40, 41] ∧ s.payload = none) ∨
      (s.expecting = [41] ∧ s.payload.isSome = true) ∨ (s.expecting = [] ∧ s.payload.isSome = true)

theorem SemOK.step (s s' : Sem) (c : Nat) (h : SemOK s) (hs : s.step c = some s') : SemOK s' := by
  cases s with
  | start neg =>
    simp only [Sem.step] at hs
    repeat' split at hs
    all_goals first
      | (injection hs with hs; subst hs; simp [SemOK, kwSnan, kwInfinity, InfSuffix])
      | cases hs
  | fin f =>
    simp only [Sem.step] at hs
    cases hf : f.step c with
    | none => rw [hf] at hs; cases hs
    | some f' => rw [hf] at hs; injection hs with hs; subst hs; trivial
  | inf f =>
    simp only [Sem.step] at hs
    cases hf : f.step c with
    | none => rw [hf] at hs; cases hs
    | some f' =>
      rw [hf] at hs; injection hs with hs; subst hs
      obtain ⟨ex, neg⟩ := f
      simp only [SemOK] at h ⊢
      rcases ex with _ | ⟨e, es⟩
      · simp [SInf.step] at hf
      · simp only [SInf.step] at hf
        split at hf
        · injection hf with hf; subst hf; exact h.tail
        · cases hf
  | nan f =>
    simp only [Sem.step] at hs
    cases hf : f.step c with
    | none => rw [hf] at hs; cases hs
    | some f' =>
      rw [hf] at hs; injection hs with hs; subst hs
      obtain ⟨ex, sig, neg, pl⟩ := f
      simp only [SemOK] at h ⊢
      rcases h with ⟨rfl, rfl⟩ | ⟨rfl, rfl⟩ | ⟨rfl, rfl⟩ | ⟨rfl, rfl⟩ | ⟨rfl, h2⟩ | ⟨rfl, h2⟩
      · rw [SNan.step_letter _ _ _ _ _ (by decide) (by decide)] at hf
        split at hf
        · injection hf with hf; subst hf; simp
        · cases hf
      · rw [SNan.step_letter _ _ _ _ _ (by decide) (by decide)] at hf
        split at hf
        · injection hf with hf; subst hf; simp
        · cases hf
      · rw [SNan.step_letter _ _ _ _ _ (by decide) (by decide)] at hf
        split at hf
        · injection hf with hf; subst hf; simp
        · cases hf
      · rw [SNan.step_open] at hf
        split at hf
        · injection hf with hf; subst hf; simp
        · cases hf
      · obtain ⟨ds, rfl⟩ := Option.isSome_iff_exists.1 h2
        cases hd : isDigit c
        · rw [SNan.step_close_nondigit _ _ _ _ hd] at hf
          split at hf
          · injection hf with hf; subst hf; simp
          · cases hf
        · rw [SNan.step_close_digit _ _ _ _ hd] at hf
          injection hf with hf; subst hf; simp
      · rw [SNan.step_nil] at hf; cases hf

theorem SemOK.run (s s' : Sem) (cs : List Nat) (h : SemOK s) (hs : s.run cs = .ok s') : SemOK s' := by
  induction cs generalizing s with
  | nil => injection hs with hs; subst hs; exact h
  | cons c cs ih =>
    simp only [Sem.run] at hs
    cases h1 : s.step c with
    | none => rw [h1] at hs; cases hs
    | some s1 => rw [h1] at hs; exact ih s1 (h.step _ _ _ h1) hs

/-! ## viable prefixes -/

theorem completions_eq : completions =
    [[], [48], [41], [105, 110, 102], [110, 102], [102], [110, 105, 116, 121], [105, 116, 121], [116, 121], [121],
     [110, 97, 110], [97, 110], [110], [115, 110, 97, 110]] := by decide

theorem SFin.step_zero (f : SFin) : ∃ f', f.step 48 = some f' ∧ f'.hasDigits = true := by
  obtain ⟨neg, int, frac, exp, hs, hdec, hdig⟩ := f
  rcases exp with _ | ⟨en, ed⟩
  · cases hdec <;> simp [SFin.step, isDigit]
  · simp [SFin.step, isDigit]

/-- every reachable state has a completion in the list -/
theorem SemOK.completion (s : Sem) (h : SemOK s) : ∃ c ∈ completions, (s.accept c).isSome = true := by
  rw [completions_eq]
  cases s with
  | start neg => exact ⟨[48], by simp, rfl⟩
  | fin f =>
    cases hd : f.hasDigits
    · obtain ⟨f', h1, h2⟩ := f.step_zero
      refine ⟨[48], by simp, ?_⟩
      simp [Sem.accept, Sem.step, h1, Sem.finish, SFin.finish, h2]
    · exact ⟨[], by simp, by simp [Sem.accept, Sem.finish, SFin.finish, hd]⟩
  | inf f =>
    obtain ⟨ex, neg⟩ := f
    simp only [SemOK] at h
    rcases h with rfl | rfl | rfl | rfl | rfl | rfl | rfl | rfl
    · exact ⟨[110, 102], by simp, rfl⟩
    · exact ⟨[102], by simp, rfl⟩
    · exact ⟨[], by simp, rfl⟩
    · exact ⟨[110, 105, 116, 121], by simp, rfl⟩
    · exact ⟨[105, 116, 121], by simp, rfl⟩
    · exact ⟨[116, 121], by simp, rfl⟩
    · exact ⟨[121], by simp, rfl⟩
    · exact ⟨[], by simp, rfl⟩
  | nan f =>
    obtain ⟨ex, sig, neg, pl⟩ := f
    simp only [SemOK] at h
    rcases h with ⟨rfl, rfl⟩ | ⟨rfl, rfl⟩ | ⟨rfl, rfl⟩ | ⟨rfl, rfl⟩ | ⟨rfl, h2⟩ | ⟨rfl, h2⟩
    · exact ⟨[110, 97, 110], by simp, rfl⟩
    · exact ⟨[97, 110], by simp, rfl⟩
    · exact ⟨[110], by simp, rfl⟩
    · exact ⟨[], by simp, rfl⟩
    · obtain ⟨ds, rfl⟩ := Option.isSome_iff_exists.1 h2
      exact ⟨[41], by simp, rfl⟩
    · obtain ⟨ds, rfl⟩ := Option.isSome_iff_exists.1 h2
      exact ⟨[], by simp, rfl⟩

/-- **A prefix is viable exactly when the automaton is still running after it.** -/
theorem viable_iff_runs (p : List Nat) : viable p = true ↔ (Sem.start none).runs p := by
  unfold viable
  rw [List.any_eq_true]
  constructor
  · rintro ⟨c, -, hc⟩
    rw [← semParse_eq_parse, semParse, Sem.accept_eq_run] at hc
    cases hr : (Sem.start none).run (p ++ c) with
    | error e => rw [hr] at hc; cases hc
    | ok s' => exact Sem.runs_of_append _ p c ⟨s', hr⟩
  · rintro ⟨s, hs⟩
    obtain ⟨c, hc1, hc2⟩ := (SemOK.run (Sem.start none) s p trivial hs).completion
    refine ⟨c, hc1, ?_⟩
    rw [← semParse_eq_parse, semParse, Sem.accept_eq_run, Sem.run_append, hs]
    rw [Sem.accept_eq_run] at hc2
    exact hc2

/-! ## `firstBad` -/

theorem firstBadFrom_some (txt : List Nat) (fuel i k : Nat) (h : firstBadFrom txt fuel i = some k) :
    i ≤ k ∧ k < txt.length ∧ viable (txt.take (k + 1)) = false ∧
      ∀ j, i ≤ j → j < k → viable (txt.take (j + 1)) = true := by
  induction fuel generalizing i with
  | zero => cases h
  | succ fuel ih =>
    simp only [firstBadFrom] at h
    split at h
    · rename_i hlt
      split at h
      · rename_i hv
        obtain ⟨h1, h2, h3, h4⟩ := ih (i + 1) h
        refine ⟨by omega, h2, h3, ?_⟩
        intro j hj1 hj2
        rcases Nat.eq_or_lt_of_le hj1 with rfl | hj
        · exact hv
        · exact h4 j hj hj2
      · rename_i hv
        injection h with h; subst h
        exact ⟨Nat.le_refl _, hlt, by simpa using hv, by intro j h1 h2; omega⟩
    · cases h

theorem firstBadFrom_none (txt : List Nat) (fuel i : Nat) (hf : txt.length < fuel + i)
    (h : firstBadFrom txt fuel i = none) : ∀ j, i ≤ j → j < txt.length → viable (txt.take (j + 1)) = true := by
  induction fuel generalizing i with
  | zero => intro j h1 h2; omega
  | succ fuel ih =>
    simp only [firstBadFrom] at h
    split at h
    · split at h
      · rename_i hv
        intro j hj1 hj2
        rcases Nat.eq_or_lt_of_le hj1 with rfl | hj
        · exact hv
        · exact ih (i + 1) (by omega) h j hj hj2
      · cases h
    · intro j h1 h2; omega

theorem firstBad_some (txt : List Nat) (k : Nat) (h : firstBad txt = some k) :
    k < txt.length ∧ viable (txt.take (k + 1)) = false ∧ ∀ j, j < k → viable (txt.take (j + 1)) = true := by
  obtain ⟨-, h2, h3, h4⟩ := firstBadFrom_some txt _ 0 k h
  exact ⟨h2, h3, fun j hj => h4 j (Nat.zero_le _) hj⟩

theorem firstBad_none (txt : List Nat) (h : firstBad txt = none) :
    ∀ j, j < txt.length → viable (txt.take (j + 1)) = true :=
  fun j hj => firstBadFrom_none txt _ 0 (by omega) h j (Nat.zero_le _) hj

theorem not_viable_iff (p : List Nat) : viable p = false ↔ ¬ (Sem.start none).runs p := by
  rw [← viable_iff_runs]; simp

/-- all shorter prefixes viable: the automaton reaches position `i` -/
theorem runs_take_of_viable (txt : List Nat) (i : Nat) (hi : i ≤ txt.length)
    (h : ∀ j, j < i → viable (txt.take (j + 1)) = true) : (Sem.start none).runs (txt.take i) := by
  cases i with
  | zero => exact ⟨_, rfl⟩
  | succ i => exact (viable_iff_runs _).1 (h i (Nat.lt_succ_self _))

/-! ## C17 -/

theorem run_error_firstBad (txt : List Nat) (c : Nat) :
    (Sem.start none).run txt = .error (.char c) ↔ ∃ i, firstBad txt = some i ∧ txt[i]? = some c := by
  rw [Sem.run_error_iff]
  constructor
  · rintro ⟨i, s', h1, h2, h3⟩
    refine ⟨i, ?_, h1⟩
    have hil := lt_of_getElem? _ _ _ h1
    have hbad : ¬ (Sem.start none).runs (txt.take (i + 1)) := by
      rintro ⟨s2, hs2⟩
      rw [take_succ_of_get txt i c h1, Sem.run_append, h2] at hs2
      simp [Sem.run, h3] at hs2
    cases hfb : firstBad txt with
    | none => exact absurd ((viable_iff_runs _).1 (firstBad_none txt hfb i hil)) hbad
    | some k =>
      obtain ⟨k1, k2, k3⟩ := firstBad_some txt k hfb
      rcases Nat.lt_trichotomy k i with hk | hk | hk
      · exfalso
        have : (Sem.start none).runs (txt.take (k + 1)) := by
          have := Sem.runs_take _ (txt.take i) (k + 1) ⟨s', h2⟩
          rwa [List.take_take, Nat.min_eq_left (by omega)] at this
        exact ((not_viable_iff _).1 k2) this
      · rw [hk]
      · exact absurd ((viable_iff_runs _).1 (k3 i hk)) hbad
  · rintro ⟨i, hfb, hc⟩
    obtain ⟨k1, k2, k3⟩ := firstBad_some txt i hfb
    obtain ⟨s', hs'⟩ := runs_take_of_viable txt i (by omega) k3
    refine ⟨i, s', hc, hs', ?_⟩
    have hbad := (not_viable_iff _).1 k2
    cases hst : s'.step c with
    | none => rfl
    | some s2 =>
      exfalso; apply hbad
      rw [take_succ_of_get txt i c hc]
      exact ⟨s2, by rw [Sem.run_append, hs']; simp [Sem.run, hst]⟩

/-- **C17**: a syntax error names the first byte after which no grammatical completion exists -/
theorem parseStr_err_char (txt : List Nat) (c : Nat) :
    parseStr txt = .error (.char c) ↔ ∃ i, firstBad txt = some i ∧ txt[i]? = some c := by
  rw [parseStr_error_iff, ← run_error_firstBad]
  unfold semParseE
  cases hr : (Sem.start none).run txt with
  | error e => simp
  | ok s =>
    simp only []
    cases s.finish <;> simp

/-- **C17**: unexpected end is reported exactly when the text is a proper prefix of a numeral -/
theorem parseStr_err_end (txt : List Nat) :
    parseStr txt = .error .endOfInput ↔ (firstBad txt = none ∧ (Spec.parse txt).isNone) := by
  rw [parseStr_error_iff, ← semParse_eq_parse, semParse, Sem.accept_eq_run]
  unfold semParseE
  cases hr : (Sem.start none).run txt with
  | error e =>
    obtain ⟨c, rfl⟩ := Sem.run_error _ _ _ hr
    obtain ⟨i, hi, -⟩ := (run_error_firstBad txt c).1 hr
    simp [hi]
  | ok s =>
    have hfb : firstBad txt = none := by
      cases hfb : firstBad txt with
      | none => rfl
      | some k =>
        obtain ⟨k1, k2, -⟩ := firstBad_some txt k hfb
        exact absurd (Sem.runs_take _ txt (k + 1) ⟨s, hr⟩) ((not_viable_iff _).1 k2)
    simp only [hfb, true_and]
    cases s.finish <;> simp

end Decstr.Proofs

#print axioms Decstr.Proofs.parseStr_err_char
#print axioms Decstr.Proofs.parseStr_err_end
