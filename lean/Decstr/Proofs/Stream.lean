import Decstr.Proofs.StreamBuf
import Decstr.Proofs.Numeral
/-!
# Proofs.Stream — property C14: streaming (`parseFmt`) versus string (`parseStr`) parsing

`parseFmt kind frags fault` feeds the fragments a `Display` writes into a `DecimalParser` over a text buffer
of the given kind; `parseStr` runs the same parser over a borrowed string.  We show that for an honest
`Display` (`Fault.none`) the two agree on everything the encoder reads (`asciiFields`), for every fragmentation:

* unbounded buffer (`.vec`): always (`C14_vec_fields`, `C14_vec`, `C14_tryParse_vec`);
* fixed buffer (`.array cap`): unless the streaming parse reports `bufferTooSmall`, which it never does when the
  whole text fits (`C14_array_fields`, `C14_array`, `C14_array_fits`, `C14_tryParse_array`);

and that a failing / error-swallowing `Display` cannot produce a value the honest one would not
(`C14_fail`, `C14_swallow`).
-/
namespace Decstr.Proofs
open Decstr.Model Decstr.Spec
set_option linter.unusedSimpArgs false

/-! ## what the encoder reads -/

/-- outcome of a parse up to what the encoder looks at -/
def outcome (r : Except ParseErr Parsed) : Except ParseErr Numeral := r.map numeralOf

/-- exactly what `fromParsed` reads of a parse result, as ASCII byte lists: sign, integer digits, fractional
    digits (if there is a point), exponent sign and digits; or the infinity sign; or NaN sign, kind, and the
    payload digits together with the "range is non-empty" test `fromParsed` applies to them. -/
inductive Fields where
  | finite (neg : Bool) (int : List Nat) (frac : Option (List Nat)) (exp : Option (Bool × List Nat))
  | inf (neg : Bool)
  | nan (neg signaling : Bool) (payload : Option (Bool × List Nat))
deriving Repr, DecidableEq

def asciiFields : Parsed → Fields
  | .finite f => .finite f.sig.neg (sigInt f.buf.ascii f.sig) (sigFrac f.buf.ascii f.sig)
      (f.exp.map fun e => (e.neg, slice f.buf.ascii e.range))
  | .infinity neg => .inf neg
  | .nan n => .nan n.neg n.signaling
      (n.payload.map fun s => (decide (s.range.stop > s.range.start), slice n.buf.ascii s.range))

/-- the numeral denoted by the fields -/
def Fields.numeral : Fields → Numeral
  | .finite neg i fr ex => .finite neg (digitVals i) (digitVals (fr.getD [])) (ex.map fun e => (e.1, digitVals e.2))
  | .inf neg => .inf neg
  | .nan neg sg pl => .nan neg sg (pl.map fun x => digitVals x.2)

theorem numeralOf_eq (p : Parsed) : numeralOf p = (asciiFields p).numeral := by
  cases p with
  | finite f =>
    obtain ⟨b, ⟨sn, r, pt⟩, ex⟩ := f
    cases pt <;> cases ex <;> rfl
  | infinity neg => rfl
  | nan n =>
    obtain ⟨b, sg, ng, pl⟩ := n
    cases pl <;> rfl

theorem outcome_eq (r : Except ParseErr Parsed) : outcome r = (r.map asciiFields).map Fields.numeral := by
  cases r with
  | error e => rfl
  | ok p => simp only [outcome, except_map_ok, numeralOf_eq]

/-- the encoder only looks at the fields: equal fields give equal bytes / equal errors -/
theorem fromParsed_congr (T : Ty) (p q : Parsed) (h : asciiFields p = asciiFields q) :
    fromParsed T p = fromParsed T q := by
  cases p with
  | finite f =>
    cases q with
    | finite g =>
      obtain ⟨b, ⟨sn, r, pt⟩, ex⟩ := f
      obtain ⟨b', ⟨sn', r', pt'⟩, ex'⟩ := g
      simp only [asciiFields, Fields.finite.injEq] at h
      obtain ⟨h1, h2, h3, h4⟩ := h
      subst h1
      cases ex <;> cases ex' <;>
        simp only [Option.map_some, Option.map_none, Option.some.injEq, Prod.mk.injEq, reduceCtorEq] at h4 <;>
        cases pt <;> cases pt' <;>
        simp only [sigFrac, sigInt, Option.map_some, Option.map_none, Option.some.injEq, reduceCtorEq] at h2 h3 <;>
        simp only [fromParsed]
      · rw [h2]
      · rw [h2, h3]
      · rw [h2, h4.1, h4.2]
      · rw [h2, h3, h4.1, h4.2]
    | infinity _ => cases h
    | nan _ => cases h
  | infinity neg =>
    cases q with
    | finite _ => cases h
    | infinity neg' => simp only [asciiFields, Fields.inf.injEq] at h; rw [h]
    | nan _ => cases h
  | nan n =>
    cases q with
    | finite _ => cases h
    | infinity _ => cases h
    | nan m =>
      obtain ⟨b, sg, ng, pl⟩ := n
      obtain ⟨b', sg', ng', pl'⟩ := m
      simp only [asciiFields, Fields.nan.injEq] at h
      obtain ⟨h1, h2, h3⟩ := h
      subst h1 h2
      simp only [fromParsed]
      cases pl <;> cases pl' <;> simp only [Option.map_some, Option.map_none, Option.some.injEq, Prod.mk.injEq,
          reduceCtorEq] at h3
      · rfl
      · obtain ⟨h3, h4⟩ := h3
        rename_i s s'
        simp only [Option.filter]
        by_cases hd : s.range.stop > s.range.start
        · have hd' : s'.range.stop > s'.range.start := by
            rw [decide_eq_true hd] at h3; exact of_decide_eq_true h3.symm
          simp only [decide_eq_true hd, decide_eq_true hd', if_true, h4]
        · have hd' : ¬ s'.range.stop > s'.range.start := by
            rw [decide_eq_false hd] at h3; exact of_decide_eq_false h3.symm
          simp only [decide_eq_false hd, decide_eq_false hd', Bool.false_eq_true, if_false]

theorem except_map_map {ε α β γ} (f : α → β) (g : β → γ) (x : Except ε α) :
    (x.map f).map g = x.map (g ∘ f) := by cases x <;> rfl

/-! ## the byte-level `DecimalParser` -/

/-- one byte of `DecimalParser::parse_ascii` (no capacity test) -/
def stepD : DecimalParser → Nat → Except ParseErr DecimalParser
  | .failed e, _ => .error e
  | .finite f, c => (f.step c).map .finite
  | .infinity i, c => (i.step c).map .infinity
  | .nan n, c => (n.step c).map .nan
  | .atStart b neg, c => DecimalParser.startStep b neg c

def stepsD (p : DecimalParser) : List Nat → Except ParseErr DecimalParser
  | [] => .ok p
  | c :: cs => match stepD p c with
    | .ok p' => stepsD p' cs
    | .error e => .error e

/-- which arm of `AtStart` a byte takes -/
inductive StartCase where
  | digit | neg | pos | nan | inf | bad
deriving DecidableEq, Repr

def startCase (neg : Option Bool) (c : Nat) : StartCase :=
  if isDigit c then .digit
  else if c = 45 && neg.isNone then .neg
  else if c = 43 && neg.isNone then .pos
  else if c = 115 || c = 83 then .nan
  else if c = 110 || c = 78 then .nan
  else if c = 105 || c = 73 then .inf
  else .bad

def startBranch (b : TextBuf) (neg : Option Bool) (c : Nat) : StartCase → Except ParseErr DecimalParser
  | .digit => ((FiniteParser.begin b).steps (signByte neg ++ [c])).map .finite
  | .neg => .ok (.atStart b (some true))
  | .pos => .ok (.atStart b (some false))
  | .nan => (({ buf := b } : NanParser).steps (signByte neg ++ [c])).map .nan
  | .inf => .ok (.infinity (({ buf := b, neg := neg.getD false } : InfinityParser).advance c))
  | .bad => .error (.char c)

theorem startStep_eq (b : TextBuf) (neg : Option Bool) (c : Nat) :
    DecimalParser.startStep b neg c = startBranch b neg c (startCase neg c) := by
  by_cases h1 : isDigit c = true
  · rw [startStep_digit b neg c h1]; simp only [startCase, h1, if_true, startBranch]
  by_cases h45 : c = 45
  · subst h45; rcases neg with _ | _ | _ <;> rfl
  by_cases h43 : c = 43
  · subst h43; rcases neg with _ | _ | _ <;> rfl
  by_cases h115 : c = 115
  · subst h115; rcases neg with _ | _ | _ <;> rfl
  by_cases h83 : c = 83
  · subst h83; rcases neg with _ | _ | _ <;> rfl
  by_cases h110 : c = 110
  · subst h110; rcases neg with _ | _ | _ <;> rfl
  by_cases h78 : c = 78
  · subst h78; rcases neg with _ | _ | _ <;> rfl
  by_cases h105 : c = 105
  · subst h105; rcases neg with _ | _ | _ <;> rfl
  by_cases h73 : c = 73
  · subst h73; rcases neg with _ | _ | _ <;> rfl
  simp [DecimalParser.startStep, startCase, startBranch, h1, h45, h43, h115, h83, h110, h78, h105, h73]

theorem startCase_neg (neg : Option Bool) (c : Nat) (h : startCase neg c = .neg) : c = 45 ∧ neg = none := by
  unfold startCase at h
  repeat' split at h
  all_goals first | cases h | skip
  rename_i h2
  simp only [Bool.and_eq_true, decide_eq_true_eq, Option.isNone_iff_eq_none] at h2
  exact h2

theorem startCase_pos (neg : Option Bool) (c : Nat) (h : startCase neg c = .pos) : c = 43 ∧ neg = none := by
  unfold startCase at h
  repeat' split at h
  all_goals first | cases h | skip
  rename_i h2
  simp only [Bool.and_eq_true, decide_eq_true_eq, Option.isNone_iff_eq_none] at h2
  exact h2

/-! ## the abstract `DecimalParser` -/

inductive ADec where
  | atStart (neg : Option Bool)
  | finite (a : AFin)
  | infinity (a : AInf)
  | nan (a : ANan)
deriving Repr, DecidableEq

namespace ADec
def step : ADec → Nat → Except ParseErr ADec
  | .finite a, c => (a.step c).map .finite
  | .infinity a, c => (a.step c).map .infinity
  | .nan a, c => (a.step c).map .nan
  | .atStart neg, c =>
    match startCase neg c with
    | .digit => ((({} : AFin).steps (signByte neg ++ [c]))).map .finite
    | .neg => .ok (.atStart (some true))
    | .pos => .ok (.atStart (some false))
    | .nan => ((({} : ANan).steps (signByte neg ++ [c]))).map .nan
    | .inf => .ok (.infinity ⟨kwInfinity.drop 1, neg.getD false⟩)
    | .bad => .error (.char c)

def steps (a : ADec) : List Nat → Except ParseErr ADec
  | [] => .ok a
  | c :: cs => match a.step c with
    | .ok a' => a'.steps cs
    | .error e => .error e
end ADec

def AFin.finish (a : AFin) : Except ParseErr Fields :=
  if !a.hasDigits then .error .endOfInput else .ok (.finite a.neg a.int a.frac a.exp)
def AInf.finish (a : AInf) : Except ParseErr Fields :=
  if a.expecting = [] || a.expecting = kwInfinity.drop 3 then .ok (.inf a.neg) else .error .endOfInput
def ANan.finish (a : ANan) : Except ParseErr Fields :=
  match a.expecting, a.payload with
  | [], some bs => .ok (.nan a.neg a.signaling (some (!bs.isEmpty, bs)))
  | [40, 41], none => .ok (.nan a.neg a.signaling none)
  | _, _ => .error .endOfInput
def ADec.finish : ADec → Except ParseErr Fields
  | .finite a => a.finish
  | .infinity a => a.finish
  | .nan a => a.finish
  | .atStart _ => .error .endOfInput

/-- the abstract parse of a whole text: what every buffer kind computes (up to capacity) -/
def ADec.run (cs : List Nat) : Except ParseErr Fields :=
  match (ADec.atStart none).steps cs with
  | .ok a => a.finish
  | .error e => .error e

def viewD : DecimalParser → ADec
  | .atStart _ neg => .atStart neg
  | .finite f => .finite (viewF f)
  | .infinity i => .infinity (viewI i)
  | .nan n => .nan (viewN n)
  | .failed _ => .atStart none

/-- the parser's ranges are in step with its buffer, and a borrowed string is positioned before `rest` -/
def InvD : DecimalParser → List Nat → Prop
  | .atStart b neg, rest => Tracks b (signByte neg ++ rest)
  | .finite f, rest => InvF f ∧ Tracks f.buf rest
  | .infinity _, _ => True
  | .nan n, rest => InvN n ∧ Tracks n.buf rest
  | .failed _, _ => False

theorem stepD_view (p : DecimalParser) (c : Nat) (rest : List Nat) (hI : InvD p (c :: rest)) :
    (stepD p c).map viewD = (viewD p).step c ∧ ∀ p', stepD p c = .ok p' → InvD p' rest := by
  cases p with
  | failed e => exact hI.elim
  | finite f =>
    obtain ⟨h1, h2⟩ := finite_step_view f c rest hI.1 hI.2
    simp only [stepD, viewD, ADec.step, ← h1, except_map_map]
    refine ⟨rfl, fun p' h => ?_⟩
    cases hs : f.step c with
    | error e => rw [hs] at h; cases h
    | ok f' => rw [hs] at h; cases h; exact h2 f' hs
  | infinity i =>
    have h1 := infinity_step_view i c
    simp only [stepD, viewD, ADec.step, ← h1, except_map_map]
    refine ⟨rfl, fun p' h => ?_⟩
    cases hs : i.step c with
    | error e => rw [hs] at h; cases h
    | ok f' => rw [hs] at h; cases h; trivial
  | nan n =>
    obtain ⟨h1, h2⟩ := nan_step_view n c rest hI.1 hI.2
    simp only [stepD, viewD, ADec.step, ← h1, except_map_map]
    refine ⟨rfl, fun p' h => ?_⟩
    cases hs : n.step c with
    | error e => rw [hs] at h; cases h
    | ok f' => rw [hs] at h; cases h; exact h2 f' hs
  | atStart b neg =>
    simp only [InvD] at hI
    simp only [stepD, viewD, ADec.step, startStep_eq]
    cases hc : startCase neg c with
    | digit =>
      have hT : Tracks (FiniteParser.begin b).buf ((signByte neg ++ [c]) ++ rest) := by
        simpa [FiniteParser.begin] using hI
      obtain ⟨h1, h2⟩ := finite_steps_view (FiniteParser.begin b) (signByte neg ++ [c]) rest (invF_begin b) hT
      rw [viewF_begin] at h1
      simp only [startBranch, ← h1, except_map_map]
      refine ⟨rfl, fun p' h => ?_⟩
      cases hs : (FiniteParser.begin b).steps (signByte neg ++ [c]) with
      | error e => rw [hs] at h; cases h
      | ok f' => rw [hs] at h; cases h; exact h2 f' hs
    | neg =>
      obtain ⟨rfl, rfl⟩ := startCase_neg neg c hc
      simp only [startBranch, except_map_ok, viewD]
      exact ⟨trivial, fun p' h => by cases h; exact hI⟩
    | pos =>
      obtain ⟨rfl, rfl⟩ := startCase_pos neg c hc
      simp only [startBranch, except_map_ok, viewD]
      exact ⟨trivial, fun p' h => by cases h; exact hI⟩
    | nan =>
      have hT : Tracks ({ buf := b } : NanParser).buf ((signByte neg ++ [c]) ++ rest) := by
        simpa using hI
      obtain ⟨h1, h2⟩ := nan_steps_view { buf := b } (signByte neg ++ [c]) rest (invN_new b) hT
      have hv : viewN { buf := b } = {} := rfl
      rw [hv] at h1
      simp only [startBranch, ← h1, except_map_map]
      refine ⟨rfl, fun p' h => ?_⟩
      cases hs : ({ buf := b } : NanParser).steps (signByte neg ++ [c]) with
      | error e => rw [hs] at h; cases h
      | ok f' => rw [hs] at h; cases h; exact h2 f' hs
    | inf =>
      simp only [startBranch, except_map_ok, viewD]
      exact ⟨rfl, fun p' h => by cases h; trivial⟩
    | bad =>
      simp only [startBranch, except_map_error]
      exact ⟨trivial, fun p' h => by cases h⟩

theorem stepsD_view (p : DecimalParser) (cs rest : List Nat) (hI : InvD p (cs ++ rest)) :
    (stepsD p cs).map viewD = (viewD p).steps cs ∧ ∀ p', stepsD p cs = .ok p' → InvD p' rest := by
  induction cs generalizing p with
  | nil => exact ⟨rfl, fun p' h => by cases h; exact hI⟩
  | cons c cs ih =>
    obtain ⟨h1, h2⟩ := stepD_view p c (cs ++ rest) hI
    cases hs : stepD p c with
    | error e =>
      rw [hs, except_map_error] at h1
      simp only [stepsD, ADec.steps, hs, ← h1, except_map_error]
      exact ⟨trivial, fun p' h => by cases h⟩
    | ok p1 =>
      rw [hs, except_map_ok] at h1
      simp only [stepsD, ADec.steps, hs, ← h1]
      exact ih p1 (h2 p1 hs)

/-! ## `end()` reads the same fields -/

theorem sigInt_text_eq_seen (b : TextBuf) (sig : PSignificand) (h : sig.range.stop ≤ b.pos)
    (hpt : ∀ pt, sig.point = some pt → pt.start ≤ sig.range.stop) :
    sigInt b.text sig = sigInt (seen b) sig := by
  obtain ⟨n, r, pt⟩ := sig
  cases pt with
  | none => exact slice_text_eq_seen b r h
  | some pt =>
    have := hpt pt rfl
    exact slice_text_eq_seen b _ (by simp only at *; omega)

theorem sigFrac_text_eq_seen (b : TextBuf) (sig : PSignificand) (h : sig.range.stop ≤ b.pos) :
    sigFrac b.text sig = sigFrac (seen b) sig := by
  obtain ⟨n, r, pt⟩ := sig
  cases pt with
  | none => rfl
  | some pt => simp only [sigFrac, Option.map_some]; rw [slice_text_eq_seen b ⟨pt.stop, r.stop⟩ h]

theorem finite_finish_view (f : FiniteParser) (hI : InvF f) :
    (f.finish.map Parsed.finite).map asciiFields = (viewF f).finish := by
  obtain ⟨hdec, hle, hpt, hph⟩ := hI
  have hstop : f.sig.range.stop ≤ f.buf.pos := by
    cases he : f.exp with
    | none => rw [he] at hph; exact Nat.le_of_eq hph.1
    | some e => rw [he] at hph; exact hph.1
  have hexp : (f.exp.map fun e => (e.neg, slice f.buf.text e.range)) =
      f.exp.map fun e => (e.neg, slice (seen f.buf) e.range) := by
    cases he : f.exp with
    | none => rfl
    | some e =>
      rw [he] at hph
      simp only [Option.map_some]
      rw [slice_text_eq_seen f.buf e.range (Nat.le_of_eq hph.2.2.1)]
  unfold FiniteParser.finish AFin.finish
  have hd : (viewF f).hasDigits = f.hasDigits := rfl
  rw [hd]
  cases f.hasDigits with
  | false => rfl
  | true =>
    simp only [Bool.not_true, Bool.false_eq_true, if_false, except_map_ok, asciiFields, TextBuf.ascii, viewF]
    rw [sigInt_text_eq_seen _ _ hstop (fun pt h => by have := hpt pt h; omega),
      sigFrac_text_eq_seen _ _ hstop, hexp]

theorem infinity_finish_view (i : InfinityParser) :
    (i.finish.map Parsed.infinity).map asciiFields = (viewI i).finish := by
  obtain ⟨b, ex, n⟩ := i
  show ((if (ex = [] || ex = kwInfinity.drop 3) = true then Except.ok n else .error .endOfInput :
      Except ParseErr Bool).map Parsed.infinity).map asciiFields =
    if (ex = [] || ex = kwInfinity.drop 3) = true then .ok (.inf n) else .error .endOfInput
  by_cases h : (decide (ex = []) || decide (ex = kwInfinity.drop 3)) = true
  · simp only [h, if_true]; rfl
  · simp only [h, if_false]; rfl

theorem nan_finish_view (n : NanParser) (hI : InvN n) (hT : Tracks n.buf []) :
    (n.finish.map Parsed.nan).map asciiFields = (viewN n).finish := by
  obtain ⟨b, ex, sg, ng, pl⟩ := n
  obtain ⟨hsuf, hpay⟩ := hI
  simp only at hsuf hpay hT
  have hn := pos_eq_seen_length b _ hT
  cases pl with
  | none =>
    rcases hsuf with h | h | h | h | h | h | h <;> subst h <;> rfl
  | some s =>
    obtain ⟨h1, h2, h3, h4⟩ := hpay s rfl
    rcases h4 with ⟨h4, h5⟩ | ⟨h4, h5⟩
    · subst h4; rfl
    · subst h4
      have hsl : slice b.text s.range = slice (seen b) s.range := slice_text_eq_seen b s.range h5
      have hlen := slice_length (seen b) s.range (by omega)
      have hflag : decide (s.range.stop > s.range.start) = !(slice (seen b) s.range).isEmpty := by
        cases hs : slice (seen b) s.range with
        | nil =>
          rw [hs] at hlen
          have : ¬ s.range.stop > s.range.start := by simp only [List.length_nil] at hlen; omega
          rw [decide_eq_false this]; rfl
        | cons x xs =>
          rw [hs] at hlen
          have : s.range.stop > s.range.start := by simp only [List.length_cons] at hlen; omega
          rw [decide_eq_true this]; rfl
      simp only [NanParser.finish, ANan.finish, viewN, h1, h2, Option.map_some, Bool.not_false, Option.isNone_none,
        Bool.and_self, if_true, except_map_ok, asciiFields, TextBuf.ascii, hsl, hflag]

theorem finish_view (p : DecimalParser) (hI : InvD p []) : p.finish.map asciiFields = (viewD p).finish := by
  cases p with
  | failed e => exact hI.elim
  | atStart b neg => rfl
  | finite f => exact finite_finish_view f hI.1
  | infinity i => exact infinity_finish_view i
  | nan n => exact nan_finish_view n hI.1 hI.2

/-- run to the end of the text and finish -/
def thenFinish : Except ParseErr DecimalParser → Except ParseErr Parsed
  | .ok p => p.finish
  | .error e => .error e

def runD (p : DecimalParser) (cs : List Nat) : Except ParseErr Parsed := thenFinish (stepsD p cs)

def ADec.runFrom (a : ADec) (cs : List Nat) : Except ParseErr Fields :=
  match a.steps cs with
  | .ok a' => a'.finish
  | .error e => .error e

theorem runD_view (p : DecimalParser) (cs : List Nat) (hI : InvD p cs) :
    (runD p cs).map asciiFields = (viewD p).runFrom cs := by
  obtain ⟨h1, h2⟩ := stepsD_view p cs [] (by simpa using hI)
  unfold runD ADec.runFrom
  cases hs : stepsD p cs with
  | error e => rw [hs, except_map_error] at h1; rw [← h1]; rfl
  | ok p' =>
    rw [hs, except_map_ok] at h1
    rw [← h1]
    exact finish_view p' (h2 p' hs)

/-! ## appending inputs -/

theorem FiniteParser.steps_append (p : FiniteParser) (a b : List Nat) :
    p.steps (a ++ b) = match p.steps a with
      | .ok p' => p'.steps b
      | .error e => .error e := by
  induction a generalizing p with
  | nil => rfl
  | cons c cs ih =>
    simp only [List.cons_append, FiniteParser.steps]
    cases p.step c with
    | error e => rfl
    | ok p' => exact ih p'

theorem InfinityParser.steps_append (p : InfinityParser) (a b : List Nat) :
    p.steps (a ++ b) = match p.steps a with
      | .ok p' => p'.steps b
      | .error e => .error e := by
  induction a generalizing p with
  | nil => rfl
  | cons c cs ih =>
    simp only [List.cons_append, InfinityParser.steps]
    cases p.step c with
    | error e => rfl
    | ok p' => exact ih p'

theorem NanParser.steps_append (p : NanParser) (a b : List Nat) :
    p.steps (a ++ b) = match p.steps a with
      | .ok p' => p'.steps b
      | .error e => .error e := by
  induction a generalizing p with
  | nil => rfl
  | cons c cs ih =>
    simp only [List.cons_append, NanParser.steps]
    cases p.step c with
    | error e => rfl
    | ok p' => exact ih p'

/-- byte-level core: feeding `a ++ b` equals feeding `a` then `b` -/
theorem stepsD_append (p : DecimalParser) (a b : List Nat) :
    stepsD p (a ++ b) = match stepsD p a with
      | .ok p' => stepsD p' b
      | .error e => .error e := by
  induction a generalizing p with
  | nil => rfl
  | cons c cs ih =>
    simp only [List.cons_append, stepsD]
    cases stepD p c with
    | error e => rfl
    | ok p' => exact ih p'

theorem stepsD_finite (f : FiniteParser) (cs : List Nat) : stepsD (.finite f) cs = (f.steps cs).map .finite := by
  induction cs generalizing f with
  | nil => rfl
  | cons c cs ih =>
    simp only [stepsD, stepD, FiniteParser.steps]
    cases f.step c with
    | error e => rfl
    | ok f' => exact ih f'

theorem stepsD_infinity (f : InfinityParser) (cs : List Nat) :
    stepsD (.infinity f) cs = (f.steps cs).map .infinity := by
  induction cs generalizing f with
  | nil => rfl
  | cons c cs ih =>
    simp only [stepsD, stepD, InfinityParser.steps]
    cases f.step c with
    | error e => rfl
    | ok f' => exact ih f'

theorem stepsD_nan (f : NanParser) (cs : List Nat) : stepsD (.nan f) cs = (f.steps cs).map .nan := by
  induction cs generalizing f with
  | nil => rfl
  | cons c cs ih =>
    simp only [stepsD, stepD, NanParser.steps]
    cases f.step c with
    | error e => rfl
    | ok f' => exact ih f'

/-! ## capacity -/

def isFailed : DecimalParser → Bool
  | .failed _ => true
  | _ => false

def bufOf : DecimalParser → TextBuf
  | .atStart b _ => b
  | .finite f => f.buf
  | .infinity i => i.buf
  | .nan n => n.buf
  | .failed _ => default

/-- how many bytes the parser has accounted for at most: the stored text, plus a sign held back by `AtStart` -/
def storedD : DecimalParser → Nat
  | .atStart b neg => b.text.length + (signByte neg).length
  | .finite f => f.buf.text.length
  | .infinity i => i.buf.text.length
  | .nan n => n.buf.text.length
  | .failed _ => 0

theorem finite_steps_grow (p p' : FiniteParser) (cs : List Nat) (h : p.steps cs = .ok p') :
    p'.buf.kind = p.buf.kind ∧ p'.buf.text.length ≤ p.buf.text.length + cs.length := by
  induction cs generalizing p with
  | nil => cases h; exact ⟨rfl, Nat.le_refl _⟩
  | cons c cs ih =>
    simp only [FiniteParser.steps] at h
    cases hs : p.step c with
    | error e => rw [hs] at h; cases h
    | ok p1 =>
      rw [hs] at h
      obtain ⟨g1, g2⟩ := finite_step_grow p p1 c hs
      obtain ⟨i1, i2⟩ := ih p1 h
      exact ⟨i1.trans g1, by simp only [List.length_cons]; omega⟩

theorem nan_steps_grow (p p' : NanParser) (cs : List Nat) (h : p.steps cs = .ok p') :
    p'.buf.kind = p.buf.kind ∧ p'.buf.text.length ≤ p.buf.text.length + cs.length := by
  induction cs generalizing p with
  | nil => cases h; exact ⟨rfl, Nat.le_refl _⟩
  | cons c cs ih =>
    simp only [NanParser.steps] at h
    cases hs : p.step c with
    | error e => rw [hs] at h; cases h
    | ok p1 =>
      rw [hs] at h
      obtain ⟨g1, g2⟩ := nan_step_grow p p1 c hs
      obtain ⟨i1, i2⟩ := ih p1 h
      exact ⟨i1.trans g1, by simp only [List.length_cons]; omega⟩

theorem signByte_length_le (neg : Option Bool) : (signByte neg).length ≤ 1 := by
  rcases neg with _ | _ | _ <;> simp [signByte]

/-- one byte: the result is a live parser over the same kind of buffer, with at most one more byte stored -/
theorem stepD_grow (p p' : DecimalParser) (c : Nat) (h : stepD p c = .ok p') :
    isFailed p' = false ∧ (bufOf p').kind = (bufOf p).kind ∧ storedD p' ≤ storedD p + 1 := by
  cases p with
  | failed e => cases h
  | finite f =>
    simp only [stepD] at h
    cases hs : f.step c with
    | error e => rw [hs] at h; cases h
    | ok f' =>
      rw [hs] at h; cases h
      obtain ⟨g1, g2⟩ := finite_step_grow f f' c hs
      exact ⟨rfl, g1, g2⟩
  | infinity f =>
    simp only [stepD] at h
    cases hs : f.step c with
    | error e => rw [hs] at h; cases h
    | ok f' =>
      rw [hs] at h; cases h
      obtain ⟨g1, g2⟩ := infinity_step_grow f f' c hs
      exact ⟨rfl, g1, g2⟩
  | nan f =>
    simp only [stepD] at h
    cases hs : f.step c with
    | error e => rw [hs] at h; cases h
    | ok f' =>
      rw [hs] at h; cases h
      obtain ⟨g1, g2⟩ := nan_step_grow f f' c hs
      exact ⟨rfl, g1, g2⟩
  | atStart b neg =>
    simp only [stepD, startStep_eq] at h
    cases hc : startCase neg c with
    | digit =>
      rw [hc] at h; simp only [startBranch] at h
      cases hs : (FiniteParser.begin b).steps (signByte neg ++ [c]) with
      | error e => rw [hs] at h; cases h
      | ok f' =>
        rw [hs] at h; cases h
        obtain ⟨g1, g2⟩ := finite_steps_grow _ f' _ hs
        refine ⟨rfl, g1, ?_⟩
        simp only [storedD, List.length_append, List.length_singleton] at g2 ⊢
        exact g2
    | neg =>
      obtain ⟨rfl, rfl⟩ := startCase_neg neg c hc
      rw [hc] at h; cases h
      exact ⟨rfl, rfl, Nat.le_refl _⟩
    | pos =>
      obtain ⟨rfl, rfl⟩ := startCase_pos neg c hc
      rw [hc] at h; cases h
      exact ⟨rfl, rfl, Nat.le_refl _⟩
    | nan =>
      rw [hc] at h; simp only [startBranch] at h
      cases hs : ({ buf := b } : NanParser).steps (signByte neg ++ [c]) with
      | error e => rw [hs] at h; cases h
      | ok f' =>
        rw [hs] at h; cases h
        obtain ⟨g1, g2⟩ := nan_steps_grow _ f' _ hs
        refine ⟨rfl, g1, ?_⟩
        simp only [storedD, List.length_append, List.length_singleton] at g2 ⊢
        exact g2
    | inf =>
      rw [hc] at h; cases h
      refine ⟨rfl, kind_put b c, ?_⟩
      have := text_length_put b c
      simp only [storedD, InfinityParser.advance, TextBuf.advanceSignificand]
      omega
    | bad => rw [hc] at h; cases h

theorem stepsD_grow (p p' : DecimalParser) (cs : List Nat) (hf : isFailed p = false) (h : stepsD p cs = .ok p') :
    isFailed p' = false ∧ (bufOf p').kind = (bufOf p).kind ∧ storedD p' ≤ storedD p + cs.length := by
  induction cs generalizing p with
  | nil => cases h; exact ⟨hf, rfl, Nat.le_refl _⟩
  | cons c cs ih =>
    simp only [stepsD] at h
    cases hs : stepD p c with
    | error e => rw [hs] at h; cases h
    | ok p1 =>
      rw [hs] at h
      obtain ⟨g0, g1, g2⟩ := stepD_grow p p1 c hs
      obtain ⟨i0, i1, i2⟩ := ih p1 g0 h
      exact ⟨i0, i1.trans g1, by simp only [List.length_cons]; omega⟩

/-- the per-fragment capacity test passes -/
def capOk (b : TextBuf) (n : Nat) : Bool :=
  match b.remaining with
  | some r => !decide (r < n)
  | none => true

theorem finite_parseAscii_eq (p : FiniteParser) (frag : List Nat) :
    p.parseAscii frag = if capOk p.buf frag.length then p.steps frag else .error .bufferTooSmall := by
  unfold FiniteParser.parseAscii capOk
  cases p.buf.remaining with
  | none => rfl
  | some r => by_cases h : r < frag.length <;> simp [h]

theorem infinity_parseAscii_eq (p : InfinityParser) (frag : List Nat) :
    p.parseAscii frag = if capOk p.buf frag.length then p.steps frag else .error .bufferTooSmall := by
  unfold InfinityParser.parseAscii capOk
  cases p.buf.remaining with
  | none => rfl
  | some r => by_cases h : r < frag.length <;> simp [h]

theorem nan_parseAscii_eq (p : NanParser) (frag : List Nat) :
    p.parseAscii frag = if capOk p.buf frag.length then p.steps frag else .error .bufferTooSmall := by
  unfold NanParser.parseAscii capOk
  cases p.buf.remaining with
  | none => rfl
  | some r => by_cases h : r < frag.length <;> simp [h]

/-- there is room for `n` more bytes (only a fixed array can run out) -/
def Roomy (p : DecimalParser) (n : Nat) : Prop := ∀ cap, (bufOf p).kind = .array cap → storedD p + n ≤ cap

theorem capOk_of_room (b : TextBuf) (n : Nat) (h : ∀ cap, b.kind = .array cap → b.text.length + n ≤ cap) :
    capOk b n = true := by
  obtain ⟨k, t, i⟩ := b
  cases k with
  | str => rfl
  | vec => rfl
  | array cap =>
    have := h cap rfl
    simp only [capOk, TextBuf.remaining, Bool.not_eq_true', decide_eq_false_iff_not] at this ⊢
    omega

theorem parseAscii_nil (p : DecimalParser) (hf : isFailed p = false) : p.parseAscii [] = .ok p := by
  cases p with
  | failed e => simp [isFailed] at hf
  | _ => simp [DecimalParser.parseAscii]

theorem parseAscii_finite (f : FiniteParser) (c : Nat) (cs : List Nat) :
    (DecimalParser.finite f).parseAscii (c :: cs) = (f.parseAscii (c :: cs)).map .finite := by
  simp [DecimalParser.parseAscii]
theorem parseAscii_infinity (f : InfinityParser) (c : Nat) (cs : List Nat) :
    (DecimalParser.infinity f).parseAscii (c :: cs) = (f.parseAscii (c :: cs)).map .infinity := by
  simp [DecimalParser.parseAscii]
theorem parseAscii_nan (f : NanParser) (c : Nat) (cs : List Nat) :
    (DecimalParser.nan f).parseAscii (c :: cs) = (f.parseAscii (c :: cs)).map .nan := by
  simp [DecimalParser.parseAscii]
theorem parseAscii_atStart (b : TextBuf) (neg : Option Bool) (c : Nat) (cs : List Nat) :
    (DecimalParser.atStart b neg).parseAscii (c :: cs) =
      match DecimalParser.startStep b neg c with
      | .ok p' => p'.parseAscii cs
      | .error e => .error e := by
  cases h : DecimalParser.startStep b neg c <;> simp [DecimalParser.parseAscii, h]

/-- a fragment either trips the capacity test or is consumed byte by byte -/
theorem parseAscii_cases (p : DecimalParser) (cs : List Nat) (hf : isFailed p = false) :
    p.parseAscii cs = .error .bufferTooSmall ∨ p.parseAscii cs = stepsD p cs := by
  induction cs generalizing p with
  | nil => right; rw [parseAscii_nil p hf]; rfl
  | cons c cs ih =>
    cases p with
    | failed e => simp [isFailed] at hf
    | finite f =>
      rw [parseAscii_finite, finite_parseAscii_eq, stepsD_finite]
      cases capOk f.buf (c :: cs).length
      · left; rfl
      · right; rfl
    | infinity f =>
      rw [parseAscii_infinity, infinity_parseAscii_eq, stepsD_infinity]
      cases capOk f.buf (c :: cs).length
      · left; rfl
      · right; rfl
    | nan f =>
      rw [parseAscii_nan, nan_parseAscii_eq, stepsD_nan]
      cases capOk f.buf (c :: cs).length
      · left; rfl
      · right; rfl
    | atStart b neg =>
      rw [parseAscii_atStart]
      simp only [stepsD, stepD]
      cases hs : DecimalParser.startStep b neg c with
      | error e => right; rfl
      | ok p' =>
        have := stepD_grow (.atStart b neg) p' c hs
        exact ih p' this.1

/-- with room for the whole fragment the capacity test passes -/
theorem parseAscii_roomy (p : DecimalParser) (cs : List Nat) (hf : isFailed p = false)
    (hr : Roomy p cs.length) : p.parseAscii cs = stepsD p cs := by
  induction cs generalizing p with
  | nil => rw [parseAscii_nil p hf]; rfl
  | cons c cs ih =>
    cases p with
    | failed e => simp [isFailed] at hf
    | finite f =>
      rw [parseAscii_finite, finite_parseAscii_eq, stepsD_finite, capOk_of_room f.buf _ hr]; rfl
    | infinity f =>
      rw [parseAscii_infinity, infinity_parseAscii_eq, stepsD_infinity, capOk_of_room f.buf _ hr]; rfl
    | nan f =>
      rw [parseAscii_nan, nan_parseAscii_eq, stepsD_nan, capOk_of_room f.buf _ hr]; rfl
    | atStart b neg =>
      rw [parseAscii_atStart]
      simp only [stepsD, stepD]
      cases hs : DecimalParser.startStep b neg c with
      | error e => rfl
      | ok p' =>
        obtain ⟨g0, g1, g2⟩ := stepD_grow (.atStart b neg) p' c hs
        refine ih p' g0 ?_
        intro cap hk
        have := hr cap (g1 ▸ hk)
        simp only [List.length_cons] at this
        omega

/-! ## fragments -/

/-- an honest `Display`: fragments are written until one is refused -/
def feedM (p : DecimalParser) : List (List Nat) → Except ParseErr DecimalParser
  | [] => .ok p
  | f :: rest => match p.parseAscii f with
    | .ok p' => feedM p' rest
    | .error e => .error e

theorem parseAscii_failed (e : ParseErr) (cs : List Nat) : (DecimalParser.failed e).parseAscii cs = .error e := by
  simp [DecimalParser.parseAscii]

theorem parseAscii_ok_live (p p' : DecimalParser) (cs : List Nat) (h : p.parseAscii cs = .ok p') :
    isFailed p' = false := by
  cases hf : isFailed p with
  | true =>
    cases p with
    | failed e => rw [parseAscii_failed] at h; cases h
    | _ => simp [isFailed] at hf
  | false =>
    rcases parseAscii_cases p cs hf with h' | h'
    · rw [h'] at h; cases h
    · rw [h'] at h; exact (stepsD_grow p p' cs hf h).1

theorem feed_cons_live (p : DecimalParser) (f : List Nat) (rest : List (List Nat)) (fault : Fault) (i : Nat)
    (hf : isFailed p = false) :
    feed p (f :: rest) fault i =
      if fault == .failAt i then (p, true)
      else match p.parseAscii f with
        | .ok p' => feed p' rest fault (i + 1)
        | .error e => if fault == .swallow then feed (.failed e) rest fault (i + 1) else (.failed e, true) := by
  cases p with
  | failed e => simp [isFailed] at hf
  | _ =>
    simp only [feed]
    split
    · rfl
    · split <;> rename_i h <;> rw [h]

theorem feed_cons_failed (e : ParseErr) (f : List Nat) (rest : List (List Nat)) (fault : Fault) (i : Nat) :
    feed (.failed e) (f :: rest) fault i =
      if fault == .failAt i then (.failed e, true)
      else if fault == .swallow then feed (.failed e) rest fault (i + 1) else (.failed e, true) := by
  simp only [feed]

theorem feed_nil (p : DecimalParser) (fault : Fault) (i : Nat) : feed p [] fault i = (p, fault == .failAt i) := by
  simp only [feed]

theorem feed_none (p : DecimalParser) (frs : List (List Nat)) (i : Nat) (hf : isFailed p = false) :
    feed p frs .none i = match feedM p frs with
      | .ok p' => (p', false)
      | .error e => (.failed e, true) := by
  induction frs generalizing p i with
  | nil => simp [feed_nil, feedM]
  | cons f rest ih =>
    have hne : (Fault.none == Fault.failAt i) = false := by simp
    have hsw : (Fault.none == Fault.swallow) = false := by decide
    rw [feed_cons_live p f rest _ i hf]
    simp only [feedM, hne, hsw, Bool.false_eq_true, if_false]
    cases hp : p.parseAscii f with
    | ok p' => exact ih p' (i + 1) (parseAscii_ok_live _ p' f hp)
    | error e => rfl

theorem feed_swallow_failed (e : ParseErr) (frs : List (List Nat)) (i : Nat) :
    feed (.failed e) frs .swallow i = (.failed e, false) := by
  induction frs generalizing i with
  | nil => simp [feed_nil]
  | cons f rest ih =>
    have hne : (Fault.swallow == Fault.failAt i) = false := by simp
    rw [feed_cons_failed]
    simp only [hne, Bool.false_eq_true, if_false, BEq.rfl, if_true]
    exact ih (i + 1)

theorem feed_swallow (p : DecimalParser) (frs : List (List Nat)) (i : Nat) (hf : isFailed p = false) :
    feed p frs .swallow i = match feedM p frs with
      | .ok p' => (p', false)
      | .error e => (.failed e, false) := by
  induction frs generalizing p i with
  | nil => simp [feed_nil, feedM]
  | cons f rest ih =>
    have hne : (Fault.swallow == Fault.failAt i) = false := by simp
    rw [feed_cons_live p f rest _ i hf]
    simp only [feedM, hne, Bool.false_eq_true, if_false, BEq.rfl, if_true]
    cases hp : p.parseAscii f with
    | ok p' => exact ih p' (i + 1) (parseAscii_ok_live _ p' f hp)
    | error e => exact feed_swallow_failed _ rest (i + 1)

theorem feed_failAt (p : DecimalParser) (frs : List (List Nat)) (k i : Nat) (h1 : i ≤ k)
    (h2 : k ≤ i + frs.length) : (feed p frs (.failAt k) i).2 = true := by
  induction frs generalizing p i with
  | nil =>
    have : k = i := by simp only [List.length_nil] at h2; omega
    subst this; simp [feed_nil]
  | cons f rest ih =>
    by_cases hk : k = i
    · subst hk
      cases hf : isFailed p with
      | false => rw [feed_cons_live p f rest _ _ hf]; simp
      | true =>
        cases p with
        | failed e => rw [feed_cons_failed]; simp
        | _ => simp [isFailed] at hf
    · have hne : (Fault.failAt k == Fault.failAt i) = false := by simp [hk]
      have hsw : (Fault.failAt k == Fault.swallow) = false := by simp
      have hlen : k ≤ (i + 1) + rest.length := by simp only [List.length_cons] at h2; omega
      cases hf : isFailed p with
      | false =>
        rw [feed_cons_live p f rest _ _ hf]
        simp only [hne, hsw, Bool.false_eq_true, if_false]
        cases hp : p.parseAscii f with
        | ok p' => exact ih p' (i + 1) (by omega) hlen
        | error e => rfl
      | true =>
        cases p with
        | failed e => rw [feed_cons_failed]; simp [hne, hsw]
        | _ => simp [isFailed] at hf

theorem roomy_mono (p : DecimalParser) (m n : Nat) (h : m ≤ n) (hr : Roomy p n) : Roomy p m :=
  fun cap hk => by have := hr cap hk; omega

theorem feedM_cases (p : DecimalParser) (frs : List (List Nat)) (hf : isFailed p = false) :
    feedM p frs = .error .bufferTooSmall ∨ feedM p frs = stepsD p frs.flatten := by
  induction frs generalizing p with
  | nil => right; rfl
  | cons f rest ih =>
    simp only [feedM, List.flatten_cons, stepsD_append]
    rcases parseAscii_cases p f hf with h | h
    · left; rw [h]
    · rw [h]
      cases hs : stepsD p f with
      | error e => right; rfl
      | ok p' => exact ih p' (stepsD_grow p p' f hf hs).1

theorem feedM_roomy (p : DecimalParser) (frs : List (List Nat)) (hf : isFailed p = false)
    (hr : Roomy p frs.flatten.length) : feedM p frs = stepsD p frs.flatten := by
  induction frs generalizing p with
  | nil => rfl
  | cons f rest ih =>
    simp only [List.flatten_cons, List.length_append] at hr
    simp only [feedM, List.flatten_cons, stepsD_append]
    rw [parseAscii_roomy p f hf (roomy_mono p _ _ (Nat.le_add_right _ _) hr)]
    cases hs : stepsD p f with
    | error e => rfl
    | ok p' =>
      obtain ⟨g0, g1, g2⟩ := stepsD_grow p p' f hf hs
      refine ih p' g0 ?_
      intro cap hk
      have := hr cap (g1 ▸ hk)
      omega

/-- `parse_fmt` of an honest `Display`, through `feedM` -/
theorem parseFmt_none (kind : BufKind) (frs : List (List Nat)) :
    parseFmt kind frs .none = thenFinish (feedM (DecimalParser.begin (TextBuf.new kind [])) frs) := by
  unfold parseFmt
  rw [feed_none _ frs 0 rfl]
  cases feedM (DecimalParser.begin (TextBuf.new kind [])) frs with
  | ok p => cases p <;> rfl
  | error e => rfl

/-- a `Display` that swallows errors gets exactly what the honest one gets -/
theorem parseFmt_swallow (kind : BufKind) (frs : List (List Nat)) :
    parseFmt kind frs .swallow = parseFmt kind frs .none := by
  rw [parseFmt_none]
  unfold parseFmt
  rw [feed_swallow _ frs 0 rfl]
  cases feedM (DecimalParser.begin (TextBuf.new kind [])) frs with
  | ok p => cases p <;> rfl
  | error e => rfl

theorem parseStr_eq_runD (input : List Nat) :
    parseStr input = runD (DecimalParser.begin (TextBuf.new .str input)) input := by
  unfold parseStr runD
  rw [parseAscii_roomy _ input rfl (fun cap hk => by cases hk)]
  cases stepsD (DecimalParser.begin (TextBuf.new .str input)) input <;> rfl

theorem invD_begin_str (input : List Nat) : InvD (DecimalParser.begin (TextBuf.new .str input)) input := by
  intro _
  exact ⟨[], rfl, rfl⟩

theorem invD_begin_copy (kind : BufKind) (hk : kind ≠ .str) (rest : List Nat) :
    InvD (DecimalParser.begin (TextBuf.new kind [])) rest := by
  cases kind with
  | str => exact absurd rfl hk
  | array cap => exact tracks_of_ne_str _ _ (by simp [TextBuf.new])
  | vec => exact tracks_of_ne_str _ _ (by simp [TextBuf.new])

/-- the string parser computes the abstract parse -/
theorem parseStr_fields (input : List Nat) : (parseStr input).map asciiFields = ADec.run input := by
  rw [parseStr_eq_runD, runD_view _ _ (invD_begin_str input)]
  rfl

/-- the streaming parser over a copying buffer computes the abstract parse of the concatenation, unless it
    reports that the buffer is too small -/
theorem parseFmt_fields_cases (kind : BufKind) (hk : kind ≠ .str) (frs : List (List Nat)) :
    parseFmt kind frs .none = .error .bufferTooSmall ∨
    (parseFmt kind frs .none).map asciiFields = ADec.run frs.flatten := by
  rw [parseFmt_none]
  rcases feedM_cases (DecimalParser.begin (TextBuf.new kind [])) frs rfl with h | h
  · left; rw [h]; rfl
  · right
    rw [h]
    have := runD_view _ frs.flatten (invD_begin_copy kind hk frs.flatten)
    unfold runD at this
    rw [this]
    cases kind <;> first | exact absurd rfl hk | rfl

theorem parseFmt_fields_roomy (kind : BufKind) (hk : kind ≠ .str) (frs : List (List Nat))
    (hr : ∀ cap, kind = .array cap → frs.flatten.length ≤ cap) :
    (parseFmt kind frs .none).map asciiFields = ADec.run frs.flatten := by
  rw [parseFmt_none, feedM_roomy _ frs rfl]
  · have := runD_view _ frs.flatten (invD_begin_copy kind hk frs.flatten)
    unfold runD at this
    rw [this]
    cases kind <;> first | exact absurd rfl hk | rfl
  · intro cap hc
    have : kind = .array cap := by
      cases kind with
      | str => exact absurd rfl hk
      | array c => simpa [bufOf, DecimalParser.begin, TextBuf.new] using hc
      | vec => simp [bufOf, DecimalParser.begin, TextBuf.new] at hc
    have := hr cap this
    subst kind
    simp only [storedD, DecimalParser.begin, TextBuf.new, signByte, List.length_nil]
    omega

/-! ## errors other than `bufferTooSmall` -/

theorem stepD_err (p : DecimalParser) (c : Nat) (e : ParseErr) (hf : isFailed p = false)
    (h : stepD p c = .error e) : e = .char c := by
  cases p with
  | failed e' => simp [isFailed] at hf
  | finite f =>
    simp only [stepD] at h
    cases hs : f.step c with
    | ok f' => rw [hs] at h; cases h
    | error e' => rw [hs] at h; cases h; exact finite_step_err f c _ hs
  | infinity f =>
    simp only [stepD] at h
    cases hs : f.step c with
    | ok f' => rw [hs] at h; cases h
    | error e' => rw [hs] at h; cases h; exact infinity_step_err f c _ hs
  | nan f =>
    simp only [stepD] at h
    cases hs : f.step c with
    | ok f' => rw [hs] at h; cases h
    | error e' => rw [hs] at h; cases h; exact nan_step_err f c _ hs
  | atStart b neg => exact startStep_err b neg c e h

theorem stepsD_err (p : DecimalParser) (cs : List Nat) (e : ParseErr) (hf : isFailed p = false)
    (h : stepsD p cs = .error e) : ∃ c, e = .char c := by
  induction cs generalizing p with
  | nil => cases h
  | cons c cs ih =>
    simp only [stepsD] at h
    cases hs : stepD p c with
    | error e' => rw [hs] at h; cases h; exact ⟨c, stepD_err p c _ hf hs⟩
    | ok p' => rw [hs] at h; exact ih p' (stepD_grow p p' c hs).1 h

theorem finish_err (p : DecimalParser) (e : ParseErr) (hf : isFailed p = false) (h : p.finish = .error e) :
    e = .endOfInput := by
  cases p with
  | failed e' => simp [isFailed] at hf
  | atStart b neg => cases h; rfl
  | finite f =>
    simp only [DecimalParser.finish, FiniteParser.finish] at h
    split at h <;> cases h; rfl
  | infinity f =>
    simp only [DecimalParser.finish, InfinityParser.finish] at h
    split at h <;> cases h; rfl
  | nan f =>
    simp only [DecimalParser.finish, NanParser.finish] at h
    split at h
    · split at h <;> cases h; rfl
    · cases h
    · cases h; rfl

theorem runD_ne_bufferTooSmall (p : DecimalParser) (cs : List Nat) (hf : isFailed p = false) :
    runD p cs ≠ .error .bufferTooSmall := by
  intro h
  unfold runD at h
  cases hs : stepsD p cs with
  | error e =>
    rw [hs] at h
    obtain ⟨c, hc⟩ := stepsD_err p cs e hf hs
    subst hc; cases h
  | ok p' =>
    rw [hs] at h
    have := finish_err p' _ (stepsD_grow p p' cs hf hs).1 h
    cases this

/-! ## C14 -/

/-- byte-level core (sub-parsers: `FiniteParser.steps_append`, `InfinityParser.steps_append`,
    `NanParser.steps_append`; `DecimalParser`: `stepsD_append`): on a buffer without a capacity, feeding the
    fragment `a ++ b` equals feeding `a` and then `b`. -/
theorem steps_append (p : DecimalParser) (a b : List Nat) (hf : isFailed p = false)
    (hk : ∀ cap, (bufOf p).kind ≠ .array cap) :
    p.parseAscii (a ++ b) = match p.parseAscii a with
      | .ok p' => p'.parseAscii b
      | .error e => .error e := by
  have room : ∀ (q : DecimalParser) n, (bufOf q).kind = (bufOf p).kind → Roomy q n :=
    fun q n hq cap hc => absurd (hq ▸ hc) (hk cap)
  rw [parseAscii_roomy p (a ++ b) hf (room p _ rfl), parseAscii_roomy p a hf (room p _ rfl), stepsD_append]
  cases hs : stepsD p a with
  | error e => rfl
  | ok p' =>
    obtain ⟨g0, g1, -⟩ := stepsD_grow p p' a hf hs
    exact (parseAscii_roomy p' b g0 (room p' _ g1)).symm

/-! ### the same for the sub-parsers' own `parse_ascii` -/

theorem remaining_none_of_kind (b b' : TextBuf) (hk : b'.kind = b.kind) (h : b.remaining = none) :
    b'.remaining = none := by
  obtain ⟨k, t, i⟩ := b
  obtain ⟨k', t', i'⟩ := b'
  simp only at hk
  subst hk
  cases k' with
  | array cap => simp [TextBuf.remaining] at h
  | str => rfl
  | vec => rfl

theorem infinity_steps_grow (p p' : InfinityParser) (cs : List Nat) (h : p.steps cs = .ok p') :
    p'.buf.kind = p.buf.kind ∧ p'.buf.text.length ≤ p.buf.text.length + cs.length := by
  induction cs generalizing p with
  | nil => cases h; exact ⟨rfl, Nat.le_refl _⟩
  | cons c cs ih =>
    simp only [InfinityParser.steps] at h
    cases hs : p.step c with
    | error e => rw [hs] at h; cases h
    | ok p1 =>
      rw [hs] at h
      obtain ⟨g1, g2⟩ := infinity_step_grow p p1 c hs
      obtain ⟨i1, i2⟩ := ih p1 h
      exact ⟨i1.trans g1, by simp only [List.length_cons]; omega⟩

theorem FiniteParser.parseAscii_append (p : FiniteParser) (a b : List Nat) (h : p.buf.remaining = none) :
    p.parseAscii (a ++ b) = match p.parseAscii a with
      | .ok p' => p'.parseAscii b
      | .error e => .error e := by
  have e : ∀ (q : FiniteParser) cs, q.buf.remaining = none → q.parseAscii cs = q.steps cs := by
    intro q cs hq; simp only [FiniteParser.parseAscii, hq]
  rw [e p _ h, e p _ h, FiniteParser.steps_append]
  cases hs : p.steps a with
  | error e' => rfl
  | ok p' => exact (e p' b (remaining_none_of_kind _ _ (finite_steps_grow p p' a hs).1 h)).symm

theorem InfinityParser.parseAscii_append (p : InfinityParser) (a b : List Nat) (h : p.buf.remaining = none) :
    p.parseAscii (a ++ b) = match p.parseAscii a with
      | .ok p' => p'.parseAscii b
      | .error e => .error e := by
  have e : ∀ (q : InfinityParser) cs, q.buf.remaining = none → q.parseAscii cs = q.steps cs := by
    intro q cs hq; simp only [InfinityParser.parseAscii, hq]
  rw [e p _ h, e p _ h, InfinityParser.steps_append]
  cases hs : p.steps a with
  | error e' => rfl
  | ok p' => exact (e p' b (remaining_none_of_kind _ _ (infinity_steps_grow p p' a hs).1 h)).symm

theorem NanParser.parseAscii_append (p : NanParser) (a b : List Nat) (h : p.buf.remaining = none) :
    p.parseAscii (a ++ b) = match p.parseAscii a with
      | .ok p' => p'.parseAscii b
      | .error e => .error e := by
  have e : ∀ (q : NanParser) cs, q.buf.remaining = none → q.parseAscii cs = q.steps cs := by
    intro q cs hq; simp only [NanParser.parseAscii, hq]
  rw [e p _ h, e p _ h, NanParser.steps_append]
  cases hs : p.steps a with
  | error e' => rfl
  | ok p' => exact (e p' b (remaining_none_of_kind _ _ (nan_steps_grow p p' a hs).1 h)).symm

/-- **C14, unbounded buffer, on the fields the encoder reads** (stronger than `C14_vec`). -/
theorem C14_vec_fields (frs : List (List Nat)) :
    (parseFmt .vec frs .none).map asciiFields = (parseStr frs.flatten).map asciiFields := by
  rw [parseFmt_fields_roomy .vec (by decide) frs (fun cap h => by cases h), parseStr_fields]

/-- **C14 for the unbounded buffer**: streaming = string parse of the concatenation, including which error -/
theorem C14_vec (frs : List (List Nat)) : outcome (parseFmt .vec frs .none) = outcome (parseStr frs.flatten) := by
  rw [outcome_eq, outcome_eq, C14_vec_fields]

/-- **C14, fixed buffer, on the fields the encoder reads** (stronger than `C14_array`). -/
theorem C14_array_fields (cap : Nat) (frs : List (List Nat)) :
    parseFmt (.array cap) frs .none = .error .bufferTooSmall ∨
    (parseFmt (.array cap) frs .none).map asciiFields = (parseStr frs.flatten).map asciiFields := by
  rcases parseFmt_fields_cases (.array cap) (by simp) frs with h | h
  · left; exact h
  · right; rw [h, parseStr_fields]

/-- **C14 for a fixed text buffer**: the only permitted difference is "buffer too small" … -/
theorem C14_array (cap : Nat) (frs : List (List Nat)) :
    parseFmt (.array cap) frs .none = .error .bufferTooSmall ∨
    outcome (parseFmt (.array cap) frs .none) = outcome (parseStr frs.flatten) := by
  rcases C14_array_fields cap frs with h | h
  · left; exact h
  · right; rw [outcome_eq, outcome_eq, h]

/-- … and only when the text is longer than the buffer -/
theorem C14_array_fits (cap : Nat) (frs : List (List Nat)) (h : frs.flatten.length ≤ cap) :
    parseFmt (.array cap) frs .none ≠ .error .bufferTooSmall := by
  rw [parseFmt_none, feedM_roomy _ frs rfl]
  · exact runD_ne_bufferTooSmall _ _ rfl
  · intro c hc
    simp only [bufOf, DecimalParser.begin, TextBuf.new, BufKind.array.injEq] at hc
    subst hc
    simp only [storedD, DecimalParser.begin, TextBuf.new, signByte, List.length_nil]
    omega

/-- when the text fits, the fixed buffer gives exactly the string parse (fields) -/
theorem C14_array_fits_fields (cap : Nat) (frs : List (List Nat)) (h : frs.flatten.length ≤ cap) :
    (parseFmt (.array cap) frs .none).map asciiFields = (parseStr frs.flatten).map asciiFields := by
  rcases C14_array_fields cap frs with h' | h'
  · exact absurd h' (C14_array_fits cap frs h)
  · exact h'

/-- a `Display` that reports failure yields an error, never a value -/
theorem C14_fail (kind : BufKind) (frs : List (List Nat)) (k : Nat) (hk : k ≤ frs.length) :
    ∃ e, parseFmt kind frs (.failAt k) = .error e := by
  have h := feed_failAt (DecimalParser.begin (TextBuf.new kind [])) frs k 0 (Nat.zero_le _) (by omega)
  unfold parseFmt
  generalize feed (DecimalParser.begin (TextBuf.new kind [])) frs (.failAt k) 0 = r at h
  obtain ⟨p, b⟩ := r
  simp only at h
  subst h
  cases p with
  | failed e => exact ⟨e, rfl⟩
  | _ => exact ⟨.source, rfl⟩

/-- a `Display` that ignores the errors it is handed cannot turn a rejected text into a value -/
theorem C14_swallow (kind : BufKind) (frs : List (List Nat)) (p : Parsed)
    (h : parseFmt kind frs .swallow = .ok p) : parseFmt kind frs .none = .ok p := by
  rw [← parseFmt_swallow]; exact h

/-- `decimal_from_parsed` after a parse, with the two error types merged -/
def encodeResult (T : Ty) : Except ParseErr Parsed → Except Err Buf
  | .ok p => liftOverflow (fromParsed T p)
  | .error e => .error (.parse e)

theorem tryParse_eq (T : Ty) (frs : List (List Nat)) (fault : Fault) :
    tryParse T frs fault = encodeResult T (parseFmt T.textKind frs fault) := by
  unfold tryParse
  cases parseFmt T.textKind frs fault <;> rfl

theorem tryParseStr_eq (T : Ty) (input : List Nat) : tryParseStr T input = encodeResult T (parseStr input) := by
  unfold tryParseStr
  cases parseStr input <;> rfl

theorem encodeResult_congr (T : Ty) (r s : Except ParseErr Parsed)
    (h : r.map asciiFields = s.map asciiFields) : encodeResult T r = encodeResult T s := by
  cases r with
  | error e =>
    cases s with
    | error e' => simp only [except_map_error, Except.error.injEq] at h; rw [h]
    | ok q => cases h
  | ok p =>
    cases s with
    | error e' => cases h
    | ok q =>
      simp only [except_map_ok, Except.ok.injEq] at h
      simp only [encodeResult, fromParsed_congr T p q h]

/-- `try_parse` on the arbitrary-precision type = `try_parse_str` of the concatenation -/
theorem C14_tryParse_vec (frs : List (List Nat)) : tryParse .big frs .none = tryParseStr .big frs.flatten := by
  rw [tryParse_eq, tryParseStr_eq]
  exact encodeResult_congr .big _ _ (C14_vec_fields frs)

/-- `try_parse` on the fixed-buffer types: `bufferTooSmall`, or exactly `try_parse_str` of the concatenation -/
theorem C14_tryParse_array (T : Ty) (hT : T ≠ .big) (frs : List (List Nat)) :
    tryParse T frs .none = .error (.parse .bufferTooSmall) ∨ tryParse T frs .none = tryParseStr T frs.flatten := by
  obtain ⟨cap, hc⟩ : ∃ cap, T.textKind = .array cap := by
    cases T <;> first | exact absurd rfl hT | exact ⟨_, rfl⟩
  rw [tryParse_eq, tryParseStr_eq, hc]
  rcases C14_array_fields cap frs with h | h
  · left; rw [h]; rfl
  · right; exact encodeResult_congr T _ _ h

/-- … and when the text fits the type's text buffer, exactly `try_parse_str` -/
theorem C14_tryParse_array_fits (T : Ty) (cap : Nat) (hc : T.textKind = .array cap) (frs : List (List Nat))
    (h : frs.flatten.length ≤ cap) : tryParse T frs .none = tryParseStr T frs.flatten := by
  rw [tryParse_eq, tryParseStr_eq, hc]
  exact encodeResult_congr T _ _ (C14_array_fits_fields cap frs h)

/-! ### the hypotheses are met by real inputs -/

section Examples
/-- decidable equality of parse results, for the closed examples below only -/
@[instance_reducible] def exceptDecEq : DecidableEq (Except ParseErr Parsed) := fun a b =>
  match a, b with
  | .ok x, .ok y => if h : x = y then isTrue (by rw [h]) else isFalse (fun h' => by cases h'; exact h rfl)
  | .error x, .error y => if h : x = y then isTrue (by rw [h]) else isFalse (fun h' => by cases h'; exact h rfl)
  | .ok _, .error _ => isFalse (fun h => by cases h)
  | .error _, .ok _ => isFalse (fun h => by cases h)
attribute [local instance] exceptDecEq

/-- `"+1e+2"` parsed from a string: ranges into the borrowed text -/
def exStr : Parsed :=
  .finite ⟨⟨.str, [43, 49, 101, 43, 50], 5⟩, ⟨false, ⟨1, 2⟩, none⟩, some ⟨false, ⟨4, 5⟩⟩⟩
/-- `"+1" "e+2"` streamed into a `Vec`: ranges into the stored text, which has no `+` -/
def exVec : Parsed :=
  .finite ⟨⟨.vec, [49, 101, 50], 3⟩, ⟨false, ⟨0, 1⟩, none⟩, some ⟨false, ⟨2, 3⟩⟩⟩

example : parseStr [43, 49, 101, 43, 50] = .ok exStr := by decide +kernel
example : parseFmt .vec [[43, 49], [101, 43, 50]] .none = .ok exVec := by decide +kernel
-- `fromParsed_congr`: different parse results with the same fields
example : exStr ≠ exVec ∧ asciiFields exStr = asciiFields exVec := by decide +kernel
-- `C14_array_fits`: "12" ".5" fits in 4 bytes and parses; in 3 bytes the permitted difference does occur
example : ([[49, 50], [46, 53]] : List (List Nat)).flatten.length ≤ 4 := by decide
example : parseFmt (.array 4) [[49, 50], [46, 53]] .none =
    .ok (.finite ⟨⟨.array 4, [49, 50, 46, 53], 4⟩, ⟨false, ⟨0, 4⟩, some ⟨2, 3⟩⟩, none⟩) := by decide +kernel
example : parseFmt (.array 3) [[49, 50], [46, 53]] .none = .error .bufferTooSmall := by decide +kernel
-- `C14_fail`: a Display failing before its second fragment
example : (1 : Nat) ≤ ([[49, 50], [46, 53]] : List (List Nat)).length := by decide
example : parseFmt .vec [[49, 50], [46, 53]] (.failAt 1) = .error .source := by decide +kernel
-- `C14_swallow`: a swallowing Display that yields a value; one whose text is rejected stays rejected ("1x" "2")
example : parseFmt .vec [[49, 50], [46, 53]] .swallow =
    .ok (.finite ⟨⟨.vec, [49, 50, 46, 53], 4⟩, ⟨false, ⟨0, 4⟩, some ⟨2, 3⟩⟩, none⟩) := by decide +kernel
example : parseFmt .vec [[49, 120], [50]] .swallow = .error (.char 120) := by decide +kernel
-- `C14_tryParse_array`
example : Ty.b64 ≠ Ty.big := by decide
example : Ty.b64.textKind = .array 64 := rfl

end Examples

/-! ## audit -/
#print axioms FiniteParser.steps_append
#print axioms InfinityParser.steps_append
#print axioms NanParser.steps_append
#print axioms stepsD_append
#print axioms steps_append
#print axioms FiniteParser.parseAscii_append
#print axioms InfinityParser.parseAscii_append
#print axioms NanParser.parseAscii_append
#print axioms parseStr_fields
#print axioms C14_vec_fields
#print axioms C14_vec
#print axioms C14_array_fields
#print axioms C14_array
#print axioms C14_array_fits
#print axioms C14_array_fits_fields
#print axioms C14_fail
#print axioms parseFmt_swallow
#print axioms C14_swallow
#print axioms fromParsed_congr
#print axioms C14_tryParse_vec
#print axioms C14_tryParse_array
#print axioms C14_tryParse_array_fits

end Decstr.Proofs
