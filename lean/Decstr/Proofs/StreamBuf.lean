import Decstr.Proofs.Basic
/-!
# Proofs.StreamBuf — buffer-independent ("abstract") view of the three text parsers

Every `TextBuf` kind records *ranges* into a stored text.  Here we define what those ranges denote
(`seen`, the bytes the buffer has accounted for so far), abstract parser states that carry the denoted
byte lists instead of ranges (`AFin`, `AInf`, `ANan`), and prove for every buffer kind that one byte of
the concrete parser is one byte of the abstract parser (`*_step_view`).
-/
namespace Decstr.Proofs
open Decstr.Model Decstr.Spec

/-! ## slices -/

theorem slice_empty (l : List Nat) (n : Nat) : slice l ⟨n, n⟩ = [] := by
  simp [slice]

theorem slice_append_of_le (l m : List Nat) (r : Range) (h : r.stop ≤ l.length) :
    slice (l ++ m) r = slice l r := by
  obtain ⟨s, e⟩ := r
  simp only [slice] at *
  by_cases hs : s ≤ l.length
  · rw [List.drop_append_of_le_length hs, List.take_append_of_le_length]
    simp; omega
  · have : e - s = 0 := by omega
    simp [this]

theorem slice_snoc (l : List Nat) (c s : Nat) (hs : s ≤ l.length) :
    slice (l ++ [c]) ⟨s, l.length + 1⟩ = slice l ⟨s, l.length⟩ ++ [c] := by
  simp only [slice]
  rw [List.drop_append_of_le_length hs]
  rw [List.take_of_length_le (by simp; omega), List.take_of_length_le (by simp)]

theorem slice_length (l : List Nat) (r : Range) (h : r.stop ≤ l.length) :
    (slice l r).length = r.stop - r.start := by
  simp [slice]; omega

theorem slice_take (l : List Nat) (n : Nat) (r : Range) (h : r.stop ≤ n) :
    slice (l.take n) r = slice l r := by
  obtain ⟨s, e⟩ := r
  simp only [slice] at *
  rw [List.drop_take, List.take_take]
  congr 1; omega

/-! ## what a buffer has accounted for -/

/-- the bytes the buffer has accounted for: the consumed prefix of a borrowed string, or the stored text -/
def seen (b : TextBuf) : List Nat :=
  match b.kind with
  | .str => b.text.take b.idx
  | _ => b.text

/-- a borrowed string buffer is positioned so that `rest` is what is still to come (nothing is asked of the
    copying buffers) -/
def Tracks (b : TextBuf) (rest : List Nat) : Prop :=
  b.kind = .str → ∃ pre, b.text = pre ++ rest ∧ b.idx = pre.length

theorem tracks_of_ne_str (b : TextBuf) (rest : List Nat) (h : b.kind ≠ .str) : Tracks b rest :=
  fun h' => absurd h' h

theorem kind_put (b : TextBuf) (c : Nat) : (b.put c).kind = b.kind := by
  obtain ⟨k, t, i⟩ := b
  cases k <;> rfl

theorem pos_put (b : TextBuf) (c : Nat) : (b.put c).pos = b.pos + 1 := by
  obtain ⟨k, t, i⟩ := b
  cases k <;> simp [TextBuf.put, TextBuf.pos]

theorem pos_eq_seen_length (b : TextBuf) (rest : List Nat) (h : Tracks b rest) : b.pos = (seen b).length := by
  obtain ⟨k, t, i⟩ := b
  cases k
  · obtain ⟨pre, h1, h2⟩ := h rfl
    simp only at h1 h2
    subst h1 h2
    simp [TextBuf.pos, seen]
  · simp [TextBuf.pos, seen]
  · simp [TextBuf.pos, seen]

/-- for a borrowed string the byte written is irrelevant: only the index moves -/
theorem tracks_put_any (b : TextBuf) (c c' : Nat) (rest : List Nat) (h : Tracks b (c :: rest)) :
    Tracks (b.put c') rest := by
  obtain ⟨k, t, i⟩ := b
  cases k
  · obtain ⟨pre, h1, h2⟩ := h rfl
    simp only at h1 h2
    subst h1 h2
    intro _
    exact ⟨pre ++ [c], by simp [TextBuf.put], by simp [TextBuf.put]⟩
  · intro h'; simp [TextBuf.put] at h'
  · intro h'; simp [TextBuf.put] at h'

theorem seen_put_any (b : TextBuf) (c c' : Nat) (rest : List Nat) (h : Tracks b (c :: rest)) :
    ∃ x, seen (b.put c') = seen b ++ [x] := by
  obtain ⟨k, t, i⟩ := b
  cases k
  · obtain ⟨pre, h1, h2⟩ := h rfl
    simp only at h1 h2
    subst h1 h2
    exact ⟨c, by simp [TextBuf.put, seen, List.take_append, List.take_of_length_le]⟩
  · exact ⟨c', by simp [TextBuf.put, seen]⟩
  · exact ⟨c', by simp [TextBuf.put, seen]⟩

theorem seen_put (b : TextBuf) (c : Nat) (rest : List Nat) (h : Tracks b (c :: rest)) :
    seen (b.put c) = seen b ++ [c] := by
  obtain ⟨k, t, i⟩ := b
  cases k
  · obtain ⟨pre, h1, h2⟩ := h rfl
    simp only at h1 h2
    subst h1 h2
    simp [TextBuf.put, seen, List.take_append, List.take_of_length_le]
  · simp [TextBuf.put, seen]
  · simp [TextBuf.put, seen]

theorem tracks_put (b : TextBuf) (c : Nat) (rest : List Nat) (h : Tracks b (c :: rest)) :
    Tracks (b.put c) rest := by
  obtain ⟨k, t, i⟩ := b
  cases k
  · obtain ⟨pre, h1, h2⟩ := h rfl
    simp only at h1 h2
    subst h1 h2
    intro _
    exact ⟨pre ++ [c], by simp [TextBuf.put], by simp [TextBuf.put]⟩
  · intro h'; simp [TextBuf.put] at h'
  · intro h'; simp [TextBuf.put] at h'

theorem slice_text_eq_seen (b : TextBuf) (r : Range) (h : r.stop ≤ b.pos) :
    slice b.text r = slice (seen b) r := by
  obtain ⟨k, t, i⟩ := b
  cases k
  · simp only [TextBuf.pos] at h
    simp only [seen]
    rw [slice_take _ _ _ h]
  · rfl
  · rfl

/-- `text.len()` grows by at most one per stored byte -/
theorem text_length_put (b : TextBuf) (c : Nat) : (b.put c).text.length ≤ b.text.length + 1 := by
  obtain ⟨k, t, i⟩ := b
  cases k <;> simp [TextBuf.put]

/-! ### the range-recording operations, normalised -/

theorem pushSigDigit_eq (b : TextBuf) (s : PSignificand) (d : Nat) (h : s.range.stop = b.pos) :
    b.pushSignificandDigit s d = (b.put d, { s with range := ⟨s.range.start, s.range.stop + 1⟩ }) := by
  obtain ⟨k, t, i⟩ := b
  cases k <;> simp_all [TextBuf.pushSignificandDigit, TextBuf.put, TextBuf.pos]

theorem pushPoint_eq (b : TextBuf) (s : PSignificand) (h : s.range.stop = b.pos) :
    b.pushDecimalPoint s =
      (b.put 46, { s with point := some ⟨b.pos, b.pos + 1⟩, range := ⟨s.range.start, s.range.stop + 1⟩ }) := by
  obtain ⟨k, t, i⟩ := b
  cases k <;> simp_all [TextBuf.pushDecimalPoint, TextBuf.put, TextBuf.pos]

theorem pushExpDigit_eq (b : TextBuf) (e : PExponent) (d : Nat) (h : e.range.stop = b.pos) :
    b.pushExponentDigit e d = (b.put d, { e with range := ⟨e.range.start, e.range.stop + 1⟩ }) := by
  obtain ⟨k, t, i⟩ := b
  cases k <;> simp_all [TextBuf.pushExponentDigit, TextBuf.put, TextBuf.pos]

theorem sigPos_cases (b : TextBuf) (s : PSignificand) :
    (b.kind = .str ∧ b.significandPositive s =
        (b.put 43, { s with neg := false, range := ⟨s.range.start + 1, s.range.stop + 1⟩ })) ∨
    (b.kind ≠ .str ∧ b.significandPositive s = (b, { s with neg := false })) := by
  obtain ⟨k, t, i⟩ := b
  cases k <;> simp [TextBuf.significandPositive]

theorem expPos_cases (b : TextBuf) (e : PExponent) :
    (b.kind = .str ∧ b.exponentPositive e =
        (b.put 43, { e with neg := false, range := ⟨e.range.start + 1, e.range.stop + 1⟩ })) ∨
    (b.kind ≠ .str ∧ b.exponentPositive e = (b, { e with neg := false })) := by
  obtain ⟨k, t, i⟩ := b
  cases k <;> simp [TextBuf.exponentPositive]

/-! ## FiniteParser, abstractly -/

/-- `FiniteParser` with the recorded ranges replaced by the bytes they denote (`hasDecimal` is `frac.isSome`) -/
structure AFin where
  neg : Bool := false
  int : List Nat := []
  frac : Option (List Nat) := none
  exp : Option (Bool × List Nat) := none
  hasSign : Bool := false
  hasDigits : Bool := false
deriving Repr, DecidableEq

namespace AFin

def pushDigit (a : AFin) (c : Nat) : AFin :=
  match a.frac with
  | none => { a with int := a.int ++ [c], hasDigits := true }
  | some f => { a with frac := some (f ++ [c]), hasDigits := true }

def step (a : AFin) (c : Nat) : Except ParseErr AFin :=
  match a.exp with
  | none =>
    if isDigit c then .ok (a.pushDigit c)
    else if c = 45 && !a.hasSign && !a.hasDigits && !a.frac.isSome then .ok { a with neg := true, hasSign := true }
    else if c = 46 && !a.frac.isSome then .ok { a with frac := some [], hasDigits := false }
    else if (c = 101 || c = 69) && a.hasDigits then
      .ok { a with exp := some (false, []), hasSign := false, hasDigits := false }
    else if c = 43 && !a.hasSign && !a.hasDigits && !a.frac.isSome then .ok { a with neg := false, hasSign := true }
    else .error (.char c)
  | some (en, ds) =>
    if isDigit c then .ok { a with exp := some (en, ds ++ [c]), hasDigits := true }
    else if c = 45 && !a.hasSign && !a.hasDigits then .ok { a with exp := some (true, ds), hasSign := true }
    else if c = 43 && !a.hasSign && !a.hasDigits then .ok { a with exp := some (false, ds), hasSign := true }
    else .error (.char c)

def steps (a : AFin) : List Nat → Except ParseErr AFin
  | [] => .ok a
  | c :: cs => match a.step c with
    | .ok a' => a'.steps cs
    | .error e => .error e

end AFin

/-- the integer digits a significand record denotes in `L` -/
def sigInt (L : List Nat) (sig : PSignificand) : List Nat :=
  match sig.point with
  | some pt => slice L ⟨sig.range.start, pt.start⟩
  | none => slice L sig.range

/-- the fractional digits a significand record denotes in `L` -/
def sigFrac (L : List Nat) (sig : PSignificand) : Option (List Nat) :=
  sig.point.map fun pt => slice L ⟨pt.stop, sig.range.stop⟩

theorem sigInt_append (L m : List Nat) (sig : PSignificand) (h : sig.range.stop ≤ L.length)
    (hpt : ∀ pt, sig.point = some pt → pt.start ≤ sig.range.stop) : sigInt (L ++ m) sig = sigInt L sig := by
  obtain ⟨n, r, pt⟩ := sig
  cases pt with
  | none => exact slice_append_of_le _ _ _ h
  | some pt =>
    have := hpt pt rfl
    exact slice_append_of_le _ _ _ (by simp only at *; omega)

theorem sigFrac_append (L m : List Nat) (sig : PSignificand) (h : sig.range.stop ≤ L.length) :
    sigFrac (L ++ m) sig = sigFrac L sig := by
  obtain ⟨n, r, pt⟩ := sig
  cases pt with
  | none => rfl
  | some pt => simp only [sigFrac, Option.map_some]; rw [slice_append_of_le L m ⟨pt.stop, r.stop⟩ h]

/-- what the ranges of a `FiniteParser` denote -/
def viewF (p : FiniteParser) : AFin :=
  { neg := p.sig.neg
    int := sigInt (seen p.buf) p.sig
    frac := sigFrac (seen p.buf) p.sig
    exp := p.exp.map fun e => (e.neg, slice (seen p.buf) e.range)
    hasSign := p.hasSign
    hasDigits := p.hasDigits }

/-- the ranges of a `FiniteParser` are in step with its buffer -/
structure InvF (p : FiniteParser) : Prop where
  dec : p.hasDecimal = p.sig.point.isSome
  le : p.sig.range.start ≤ p.sig.range.stop
  pt : ∀ pt, p.sig.point = some pt →
    p.sig.range.start ≤ pt.start ∧ pt.stop = pt.start + 1 ∧ pt.stop ≤ p.sig.range.stop
  ph : match p.exp with
    | none => p.sig.range.stop = p.buf.pos ∧
        (p.hasDigits = false → p.hasDecimal = false → p.sig.range.start = p.sig.range.stop)
    | some e => p.sig.range.stop ≤ p.buf.pos ∧ e.range.start ≤ e.range.stop ∧ e.range.stop = p.buf.pos ∧
        (p.hasDigits = false → e.range.start = e.range.stop)

theorem invF_begin (b : TextBuf) : InvF (FiniteParser.begin b) := by
  refine ⟨rfl, Nat.le_refl _, ?_, ?_⟩
  · intro pt h; cases h
  · exact ⟨rfl, fun _ _ => rfl⟩

theorem viewF_begin (b : TextBuf) : viewF (FiniteParser.begin b) = {} := by
  simp [viewF, sigInt, sigFrac, FiniteParser.begin, TextBuf.beginSignificand, slice_empty]

/-! ### the significand actions -/

theorem pushSigDigit_view (p : FiniteParser) (c : Nat) (rest : List Nat) (hI : InvF p) (he : p.exp = none)
    (hT : Tracks p.buf (c :: rest)) :
    viewF (p.pushSignificandDigit c) = (viewF p).pushDigit c ∧ InvF (p.pushSignificandDigit c) ∧
      Tracks (p.pushSignificandDigit c).buf rest := by
  obtain ⟨b, ⟨sneg, ⟨ss, se⟩, point⟩, exp, hs, hd, hg⟩ := p
  simp only at he; subst he
  obtain ⟨hdec, hle, hpt, hph⟩ := hI
  simp only at hdec hle hpt hph hT
  obtain ⟨hstop, -⟩ := hph
  have hn := pos_eq_seen_length b _ hT
  have hsn := seen_put b c rest hT
  have htr := tracks_put b c rest hT
  have hpp := pos_put b c
  have e := pushSigDigit_eq b ⟨sneg, ⟨ss, se⟩, point⟩ c hstop
  simp only [FiniteParser.pushSignificandDigit, e]
  refine ⟨?_, ?_, htr⟩
  · simp only [viewF, sigInt, sigFrac, AFin.pushDigit, hsn]
    cases point with
    | none =>
      simp only [Option.map_none]
      rw [hstop, hn, slice_snoc _ _ _ (by omega)]
    | some pt =>
      obtain ⟨h1, h2, h3⟩ := hpt pt rfl
      simp only [Option.map_some]
      rw [slice_append_of_le _ _ _ (by simp only; omega), hstop, hn, slice_snoc _ _ _ (by omega)]
      simp only [Option.map_none]
  · refine ⟨hdec, by simp only; omega, ?_, ?_⟩
    · intro pt h
      obtain ⟨h1, h2, h3⟩ := hpt pt h
      exact ⟨h1, h2, by simp only; omega⟩
    · simp only [hpp, hstop, true_and]
      intro h; cases h

theorem sigNegative_view (p : FiniteParser) (c : Nat) (rest : List Nat) (hI : InvF p) (he : p.exp = none)
    (hg : p.hasDigits = false) (hd : p.hasDecimal = false) (hT : Tracks p.buf (c :: rest)) :
    viewF p.significandNegative = { viewF p with neg := true, hasSign := true } ∧ InvF p.significandNegative ∧
      Tracks p.significandNegative.buf rest := by
  obtain ⟨b, ⟨sneg, ⟨ss, se⟩, point⟩, exp, hs, hd', hg'⟩ := p
  simp only at he hg hd; subst he hg hd
  obtain ⟨hdec, hle, hpt, hph⟩ := hI
  simp only at hdec hle hpt hph hT
  obtain ⟨hstop, heq⟩ := hph
  have heq := heq (by simp) (by simp)
  have hpn : point = none := by cases point <;> simp_all
  subst hpn heq
  have htr := tracks_put_any b c 45 rest hT
  have hpp := pos_put b 45
  simp only [FiniteParser.significandNegative, TextBuf.significandNegative]
  refine ⟨?_, ?_, htr⟩
  · simp only [viewF, sigInt, sigFrac, slice_empty, Option.map_none]
  · refine ⟨rfl, Nat.le_refl _, ?_, ?_⟩
    · intro pt h; cases h
    · simp only [hpp, hstop, true_and]; intros; trivial

theorem sigPositive_view (p : FiniteParser) (c : Nat) (rest : List Nat) (hI : InvF p) (he : p.exp = none)
    (hg : p.hasDigits = false) (hd : p.hasDecimal = false) (hT : Tracks p.buf (c :: rest)) :
    viewF p.significandPositive = { viewF p with neg := false, hasSign := true } ∧ InvF p.significandPositive ∧
      Tracks p.significandPositive.buf rest := by
  obtain ⟨b, ⟨sneg, ⟨ss, se⟩, point⟩, exp, hs, hd', hg'⟩ := p
  simp only at he hg hd; subst he hg hd
  obtain ⟨hdec, hle, hpt, hph⟩ := hI
  simp only at hdec hle hpt hph hT
  obtain ⟨hstop, heq⟩ := hph
  have heq := heq (by simp) (by simp)
  have hpn : point = none := by cases point <;> simp_all
  subst hpn heq
  rcases sigPos_cases b ⟨sneg, ⟨ss, ss⟩, none⟩ with ⟨hk, e⟩ | ⟨hk, e⟩
  · have htr := tracks_put_any b c 43 rest hT
    have hpp := pos_put b 43
    simp only [FiniteParser.significandPositive, e]
    refine ⟨?_, ?_, htr⟩
    · simp only [viewF, sigInt, sigFrac, slice_empty, Option.map_none]
    · refine ⟨rfl, Nat.le_refl _, ?_, ?_⟩
      · intro pt h; cases h
      · simp only [hpp, hstop, true_and]; intros; trivial
  · simp only [FiniteParser.significandPositive, e]
    refine ⟨?_, ?_, tracks_of_ne_str _ _ hk⟩
    · simp only [viewF, sigInt, sigFrac, slice_empty, Option.map_none]
    · refine ⟨rfl, Nat.le_refl _, ?_, ?_⟩
      · intro pt h; cases h
      · simp only [hstop, true_and]; intros; trivial

theorem pushPoint_view (p : FiniteParser) (c : Nat) (rest : List Nat) (hI : InvF p) (he : p.exp = none)
    (hd : p.hasDecimal = false) (hT : Tracks p.buf (c :: rest)) :
    viewF p.pushDecimalPoint = { viewF p with frac := some [], hasDigits := false } ∧ InvF p.pushDecimalPoint ∧
      Tracks p.pushDecimalPoint.buf rest := by
  obtain ⟨b, ⟨sneg, ⟨ss, se⟩, point⟩, exp, hs, hd', hg'⟩ := p
  simp only at he hd; subst he hd
  obtain ⟨hdec, hle, hpt, hph⟩ := hI
  simp only at hdec hle hpt hph hT
  obtain ⟨hstop, -⟩ := hph
  have hpn : point = none := by cases point <;> simp_all
  subst hpn
  have hn := pos_eq_seen_length b _ hT
  obtain ⟨x, hsn⟩ := seen_put_any b c 46 rest hT
  have htr := tracks_put_any b c 46 rest hT
  have hpp := pos_put b 46
  have e := pushPoint_eq b ⟨sneg, ⟨ss, se⟩, none⟩ hstop
  simp only [FiniteParser.pushDecimalPoint, e]
  refine ⟨?_, ?_, htr⟩
  · simp only [viewF, sigInt, sigFrac, hsn, Option.map_some, Option.map_none]
    rw [slice_append_of_le _ _ _ (by simp only; omega), ← hstop, slice_empty]
  · refine ⟨rfl, by simp only; omega, ?_, ?_⟩
    · intro pt h
      simp only [Option.some.injEq] at h; subst h
      simp only; exact ⟨by omega, trivial, by omega⟩
    · simp only [hpp, hstop, true_and]
      intro _ h; cases h

theorem beginExponent_view (p : FiniteParser) (c : Nat) (rest : List Nat) (hI : InvF p) (he : p.exp = none)
    (hT : Tracks p.buf (c :: rest)) :
    viewF p.beginExponent = { viewF p with exp := some (false, []), hasSign := false, hasDigits := false } ∧
      InvF p.beginExponent ∧ Tracks p.beginExponent.buf rest := by
  obtain ⟨b, sig, exp, hs, hd', hg'⟩ := p
  simp only at he; subst he
  obtain ⟨hdec, hle, hpt, hph⟩ := hI
  simp only at hdec hle hpt hph hT
  obtain ⟨hstop, -⟩ := hph
  have hn := pos_eq_seen_length b _ hT
  obtain ⟨x, hsn⟩ := seen_put_any b c 101 rest hT
  have htr := tracks_put_any b c 101 rest hT
  have hpp := pos_put b 101
  simp only [FiniteParser.beginExponent, TextBuf.beginExponent]
  refine ⟨?_, ?_, htr⟩
  · simp only [viewF, hsn, Option.map_some, slice_empty]
    rw [sigInt_append _ _ _ (by omega) (fun pt h => (hpt pt h).2.2 |> fun h' => by have := (hpt pt h).2.1; omega),
      sigFrac_append _ _ _ (by omega)]
  · refine ⟨hdec, hle, hpt, ?_⟩
    simp only [hpp]
    exact ⟨by omega, Nat.le_refl _, trivial, fun _ => trivial⟩
/-! ### the exponent actions -/

theorem expDigit_view (p : FiniteParser) (e : PExponent) (c : Nat) (rest : List Nat) (hI : InvF p)
    (he : p.exp = some e) (hT : Tracks p.buf (c :: rest)) :
    let p' : FiniteParser := { p with buf := (p.buf.pushExponentDigit e c).1,
                                      exp := some (p.buf.pushExponentDigit e c).2, hasDigits := true }
    viewF p' = { viewF p with exp := some (e.neg, slice (seen p.buf) e.range ++ [c]), hasDigits := true } ∧
      InvF p' ∧ Tracks p'.buf rest := by
  obtain ⟨b, sig, exp, hs, hd', hg'⟩ := p
  obtain ⟨en, ⟨es, ee⟩⟩ := e
  simp only at he; subst he
  obtain ⟨hdec, hle, hpt, hph⟩ := hI
  simp only at hdec hle hpt hph hT
  obtain ⟨hstop, hle2, hee, -⟩ := hph
  have hn := pos_eq_seen_length b _ hT
  have hsn := seen_put b c rest hT
  have htr := tracks_put b c rest hT
  have hpp := pos_put b c
  have e := pushExpDigit_eq b ⟨en, ⟨es, ee⟩⟩ c hee
  simp only [e]
  refine ⟨?_, ?_, htr⟩
  · simp only [viewF, hsn, Option.map_some]
    rw [sigInt_append _ _ _ (by omega) (fun pt h => by have := hpt pt h; omega),
      sigFrac_append _ _ _ (by omega), hee, hn, slice_snoc _ _ _ (by omega)]
  · refine ⟨hdec, hle, hpt, ?_⟩
    simp only [hpp]
    exact ⟨by omega, by omega, by omega, fun h => by cases h⟩

theorem expNegative_view (p : FiniteParser) (e : PExponent) (c : Nat) (rest : List Nat) (hI : InvF p)
    (he : p.exp = some e) (hg : p.hasDigits = false) (hT : Tracks p.buf (c :: rest)) :
    let p' : FiniteParser := { p with buf := (p.buf.exponentNegative e).1,
                                      exp := some (p.buf.exponentNegative e).2, hasSign := true }
    viewF p' = { viewF p with exp := some (true, slice (seen p.buf) e.range), hasSign := true } ∧
      InvF p' ∧ Tracks p'.buf rest := by
  obtain ⟨b, sig, exp, hs, hd', hg'⟩ := p
  obtain ⟨en, ⟨es, ee⟩⟩ := e
  simp only at he hg; subst he hg
  obtain ⟨hdec, hle, hpt, hph⟩ := hI
  simp only at hdec hle hpt hph hT
  obtain ⟨hstop, hle2, hee, heq⟩ := hph
  have heq := heq (by simp)
  subst heq
  have hn := pos_eq_seen_length b _ hT
  obtain ⟨x, hsn⟩ := seen_put_any b c 45 rest hT
  have htr := tracks_put_any b c 45 rest hT
  have hpp := pos_put b 45
  simp only [TextBuf.exponentNegative]
  refine ⟨?_, ?_, htr⟩
  · simp only [viewF, hsn, Option.map_some, slice_empty]
    rw [sigInt_append _ _ _ (by omega) (fun pt h => by have := hpt pt h; omega),
      sigFrac_append _ _ _ (by omega)]
  · refine ⟨hdec, hle, hpt, ?_⟩
    simp only [hpp]
    exact ⟨by omega, by omega, by omega, fun _ => trivial⟩

theorem expPositive_view (p : FiniteParser) (e : PExponent) (c : Nat) (rest : List Nat) (hI : InvF p)
    (he : p.exp = some e) (hg : p.hasDigits = false) (hT : Tracks p.buf (c :: rest)) :
    let p' : FiniteParser := { p with buf := (p.buf.exponentPositive e).1,
                                      exp := some (p.buf.exponentPositive e).2, hasSign := true }
    viewF p' = { viewF p with exp := some (false, slice (seen p.buf) e.range), hasSign := true } ∧
      InvF p' ∧ Tracks p'.buf rest := by
  obtain ⟨b, sig, exp, hs, hd', hg'⟩ := p
  obtain ⟨en, ⟨es, ee⟩⟩ := e
  simp only at he hg; subst he hg
  obtain ⟨hdec, hle, hpt, hph⟩ := hI
  simp only at hdec hle hpt hph hT
  obtain ⟨hstop, hle2, hee, heq⟩ := hph
  have heq := heq (by simp)
  subst heq
  have hn := pos_eq_seen_length b _ hT
  rcases expPos_cases b ⟨en, ⟨es, es⟩⟩ with ⟨hk, e⟩ | ⟨hk, e⟩
  · obtain ⟨x, hsn⟩ := seen_put_any b c 43 rest hT
    have htr := tracks_put_any b c 43 rest hT
    have hpp := pos_put b 43
    simp only [e]
    refine ⟨?_, ?_, htr⟩
    · simp only [viewF, hsn, Option.map_some, slice_empty]
      rw [sigInt_append _ _ _ (by omega) (fun pt h => by have := hpt pt h; omega),
        sigFrac_append _ _ _ (by omega)]
    · refine ⟨hdec, hle, hpt, ?_⟩
      simp only [hpp]
      exact ⟨by omega, by omega, by omega, fun _ => trivial⟩
  · simp only [e]
    refine ⟨?_, ?_, tracks_of_ne_str _ _ hk⟩
    · simp only [viewF, Option.map_some, slice_empty]
    · refine ⟨hdec, hle, hpt, ?_⟩
      exact ⟨by omega, by omega, by omega, fun _ => rfl⟩

set_option linter.unusedSimpArgs false

theorem except_map_ok {ε α β} (f : α → β) (a : α) : (Except.ok a : Except ε α).map f = .ok (f a) := rfl
theorem except_map_error {ε α β} (f : α → β) (e : ε) : (Except.error e : Except ε α).map f = .error e := rfl

/-- one byte of the concrete finite parser is one byte of the abstract one, whatever the buffer kind -/
theorem finite_step_view (p : FiniteParser) (c : Nat) (rest : List Nat) (hI : InvF p)
    (hT : Tracks p.buf (c :: rest)) :
    (p.step c).map viewF = (viewF p).step c ∧ ∀ p', p.step c = .ok p' → InvF p' ∧ Tracks p'.buf rest := by
  have hfrac : (viewF p).frac.isSome = p.hasDecimal := by
    simp only [viewF, sigFrac, hI.dec, Option.isSome_map]
  have hsgn : (viewF p).hasSign = p.hasSign := rfl
  have hdig : (viewF p).hasDigits = p.hasDigits := rfl
  cases he : p.exp with
  | none =>
    have hv : (viewF p).exp = none := by simp only [viewF, he, Option.map_none]
    unfold FiniteParser.step AFin.step
    simp only [he, hv, hfrac, hsgn, hdig]
    by_cases h1 : isDigit c = true
    · simp only [h1, if_true, except_map_ok]
      obtain ⟨a, b, d⟩ := pushSigDigit_view p c rest hI he hT
      exact ⟨by simp only [a, hv, hsgn, hdig], fun p' h => by cases h; exact ⟨b, d⟩⟩
    simp only [h1, if_false, Bool.false_eq_true]
    by_cases h2 : (decide (c = 45) && !p.hasSign && !p.hasDigits && !p.hasDecimal) = true
    · simp only [h2, if_true, except_map_ok]
      simp only [Bool.and_eq_true, Bool.not_eq_true', decide_eq_true_eq] at h2
      obtain ⟨a, b, d⟩ := sigNegative_view p c rest hI he h2.1.2 h2.2 hT
      exact ⟨by simp only [a, hv, hsgn, hdig], fun p' h => by cases h; exact ⟨b, d⟩⟩
    simp only [h2, if_false, Bool.false_eq_true]
    by_cases h3 : (decide (c = 46) && !p.hasDecimal) = true
    · simp only [h3, if_true, except_map_ok]
      simp only [Bool.and_eq_true, Bool.not_eq_true', decide_eq_true_eq] at h3
      obtain ⟨a, b, d⟩ := pushPoint_view p c rest hI he h3.2 hT
      exact ⟨by simp only [a, hv, hsgn, hdig], fun p' h => by cases h; exact ⟨b, d⟩⟩
    simp only [h3, if_false, Bool.false_eq_true]
    by_cases h4 : ((decide (c = 101) || decide (c = 69)) && p.hasDigits) = true
    · simp only [h4, if_true, except_map_ok]
      obtain ⟨a, b, d⟩ := beginExponent_view p c rest hI he hT
      exact ⟨by simp only [a, hv, hsgn, hdig], fun p' h => by cases h; exact ⟨b, d⟩⟩
    simp only [h4, if_false, Bool.false_eq_true]
    by_cases h5 : (decide (c = 43) && !p.hasSign && !p.hasDigits && !p.hasDecimal) = true
    · simp only [h5, if_true, except_map_ok]
      simp only [Bool.and_eq_true, Bool.not_eq_true', decide_eq_true_eq] at h5
      obtain ⟨a, b, d⟩ := sigPositive_view p c rest hI he h5.1.2 h5.2 hT
      exact ⟨by simp only [a, hv, hsgn, hdig], fun p' h => by cases h; exact ⟨b, d⟩⟩
    simp only [h5, if_false, Bool.false_eq_true, except_map_error]
    exact ⟨trivial, fun p' h => by cases h⟩
  | some e =>
    have hv : (viewF p).exp = some (e.neg, slice (seen p.buf) e.range) := by
      simp only [viewF, he, Option.map_some]
    unfold FiniteParser.step AFin.step
    simp only [he, hv, hsgn, hdig]
    by_cases h1 : isDigit c = true
    · simp only [h1, if_true, except_map_ok]
      obtain ⟨a, b, d⟩ := expDigit_view p e c rest hI he hT
      exact ⟨by simp only [a, hv, hsgn, hdig], fun p' h => by cases h; exact ⟨b, d⟩⟩
    simp only [h1, if_false, Bool.false_eq_true]
    by_cases h2 : (decide (c = 45) && !p.hasSign && !p.hasDigits) = true
    · simp only [h2, if_true, except_map_ok]
      simp only [Bool.and_eq_true, Bool.not_eq_true', decide_eq_true_eq] at h2
      obtain ⟨a, b, d⟩ := expNegative_view p e c rest hI he h2.2 hT
      exact ⟨by simp only [a, hv, hsgn, hdig], fun p' h => by cases h; exact ⟨b, d⟩⟩
    simp only [h2, if_false, Bool.false_eq_true]
    by_cases h3 : (decide (c = 43) && !p.hasSign && !p.hasDigits) = true
    · simp only [h3, if_true, except_map_ok]
      simp only [Bool.and_eq_true, Bool.not_eq_true', decide_eq_true_eq] at h3
      obtain ⟨a, b, d⟩ := expPositive_view p e c rest hI he h3.2 hT
      exact ⟨by simp only [a, hv, hsgn, hdig], fun p' h => by cases h; exact ⟨b, d⟩⟩
    simp only [h3, if_false, Bool.false_eq_true, except_map_error]
    exact ⟨trivial, fun p' h => by cases h⟩

theorem finite_steps_view (p : FiniteParser) (cs rest : List Nat) (hI : InvF p)
    (hT : Tracks p.buf (cs ++ rest)) :
    (p.steps cs).map viewF = (viewF p).steps cs ∧ ∀ p', p.steps cs = .ok p' → InvF p' ∧ Tracks p'.buf rest := by
  induction cs generalizing p with
  | nil => exact ⟨rfl, fun p' h => by cases h; exact ⟨hI, hT⟩⟩
  | cons c cs ih =>
    obtain ⟨h1, h2⟩ := finite_step_view p c (cs ++ rest) hI hT
    cases hs : p.step c with
    | error e =>
      rw [hs, except_map_error] at h1
      simp only [FiniteParser.steps, AFin.steps, hs, ← h1, except_map_error]
      exact ⟨trivial, fun p' h => by cases h⟩
    | ok p1 =>
      rw [hs, except_map_ok] at h1
      obtain ⟨hI1, hT1⟩ := h2 p1 hs
      simp only [FiniteParser.steps, AFin.steps, hs, ← h1]
      exact ih p1 hI1 hT1

/-! ## InfinityParser, abstractly (the buffer plays no part) -/

structure AInf where
  expecting : List Nat := kwInfinity
  neg : Bool := false
deriving Repr, DecidableEq

namespace AInf
def atStart (a : AInf) : Bool := a.expecting.length == kwInfinity.length
def step (a : AInf) (c : Nat) : Except ParseErr AInf :=
  if c = 45 && a.atStart then .ok { a with neg := true }
  else if c = 43 && a.atStart then .ok { a with neg := false }
  else match a.expecting with
    | e :: _ => if eqIgnoreCase e c then .ok { a with expecting := a.expecting.drop 1 } else .error (.char c)
    | [] => .error (.char c)
def steps (a : AInf) : List Nat → Except ParseErr AInf
  | [] => .ok a
  | c :: cs => match a.step c with
    | .ok a' => a'.steps cs
    | .error e => .error e
end AInf

def viewI (p : InfinityParser) : AInf := ⟨p.expecting, p.neg⟩

theorem infinity_step_view (p : InfinityParser) (c : Nat) : (p.step c).map viewI = (viewI p).step c := by
  obtain ⟨b, ex, n⟩ := p
  unfold InfinityParser.step AInf.step
  simp only [viewI, InfinityParser.atStart, AInf.atStart]
  by_cases h1 : (decide (c = 45) && ex.length == kwInfinity.length) = true
  · simp only [h1, if_true]; rfl
  simp only [h1, if_false, Bool.false_eq_true]
  by_cases h2 : (decide (c = 43) && ex.length == kwInfinity.length) = true
  · simp only [h2, if_true]; rfl
  simp only [h2, if_false, Bool.false_eq_true]
  cases ex with
  | nil => rfl
  | cons e es =>
    simp only
    by_cases h3 : eqIgnoreCase e c = true
    · simp only [h3, if_true]; rfl
    · simp only [h3, if_false, Bool.false_eq_true]; rfl

theorem infinity_steps_view (p : InfinityParser) (cs : List Nat) :
    (p.steps cs).map viewI = (viewI p).steps cs := by
  induction cs generalizing p with
  | nil => rfl
  | cons c cs ih =>
    have h1 := infinity_step_view p c
    cases hs : p.step c with
    | error e =>
      rw [hs, except_map_error] at h1
      simp only [InfinityParser.steps, AInf.steps, hs, ← h1, except_map_error]
    | ok p1 =>
      rw [hs, except_map_ok] at h1
      simp only [InfinityParser.steps, AInf.steps, hs, ← h1]
      exact ih p1

/-! ## NanParser, abstractly -/

structure ANan where
  expecting : List Nat := kwSnan
  signaling : Bool := false
  neg : Bool := false
  payload : Option (List Nat) := none
deriving Repr, DecidableEq

namespace ANan
def atStart (a : ANan) : Bool := a.expecting.length == kwSnan.length
def isExpecting (a : ANan) (c : Nat) : Bool :=
  match a.expecting with
  | e :: _ => eqIgnoreCase e c
  | [] => false
def step (a : ANan) (c : Nat) : Except ParseErr ANan :=
  if isDigit c && a.payload.isSome && a.isExpecting 41 then .ok { a with payload := a.payload.map (· ++ [c]) }
  else if c = 45 && a.atStart then .ok { a with neg := true }
  else if c = 43 && a.atStart then .ok { a with neg := false }
  else if (c = 110 || c = 78) && a.atStart then .ok { a with signaling := false, expecting := a.expecting.drop 2 }
  else if (c = 115 || c = 83) && a.atStart then .ok { a with signaling := true, expecting := a.expecting.drop 1 }
  else if c = 40 && a.isExpecting 40 then .ok { a with expecting := a.expecting.drop 1, payload := some [] }
  else if c = 41 && a.isExpecting 41 then .ok { a with expecting := a.expecting.drop 1 }
  else if a.isExpecting c then .ok { a with expecting := a.expecting.drop 1 }
  else .error (.char c)
def steps (a : ANan) : List Nat → Except ParseErr ANan
  | [] => .ok a
  | c :: cs => match a.step c with
    | .ok a' => a'.steps cs
    | .error e => .error e
end ANan

def viewN (p : NanParser) : ANan :=
  ⟨p.expecting, p.signaling, p.neg, p.payload.map fun s => slice (seen p.buf) s.range⟩

/-- the suffixes of `snan()` -/
def NanSuffix (l : List Nat) : Prop :=
  l = kwSnan ∨ l = [110, 97, 110, 40, 41] ∨ l = [97, 110, 40, 41] ∨ l = [110, 40, 41] ∨ l = [40, 41] ∨
    l = [41] ∨ l = []

structure InvN (p : NanParser) : Prop where
  suf : NanSuffix p.expecting
  pay : ∀ s, p.payload = some s → s.neg = false ∧ s.point = none ∧ s.range.start ≤ s.range.stop ∧
      ((p.expecting = [41] ∧ s.range.stop = p.buf.pos) ∨ (p.expecting = [] ∧ s.range.stop ≤ p.buf.pos))

theorem nanSuffix_drop1 (l : List Nat) (h : NanSuffix l) : NanSuffix (l.drop 1) := by
  rcases h with h | h | h | h | h | h | h <;> subst h <;> simp [NanSuffix, kwSnan]

theorem nanSuffix_drop2 (l : List Nat) (h : NanSuffix l) : NanSuffix (l.drop 2) := by
  rcases h with h | h | h | h | h | h | h <;> subst h <;> simp [NanSuffix, kwSnan]

theorem nanSuffix_atStart (l : List Nat) (h : NanSuffix l) (h6 : (l.length == kwSnan.length) = true) :
    l = kwSnan := by
  rcases h with h | h | h | h | h | h | h <;> subst h <;> simp [kwSnan] at h6 ⊢

theorem nanSuffix_head40 (l : List Nat) (e : Nat) (es : List Nat) (h : NanSuffix l) (hl : l = e :: es)
    (h40 : eqIgnoreCase e 40 = true) : l = [40, 41] := by
  rcases h with h | h | h | h | h | h | h <;> subst h <;>
    simp [kwSnan] at hl <;> obtain ⟨rfl, rfl⟩ := hl <;> revert h40 <;> decide

theorem nanSuffix_head41 (l : List Nat) (e : Nat) (es : List Nat) (h : NanSuffix l) (hl : l = e :: es)
    (h41 : eqIgnoreCase e 41 = true) : l = [41] := by
  rcases h with h | h | h | h | h | h | h <;> subst h <;>
    simp [kwSnan] at hl <;> obtain ⟨rfl, rfl⟩ := hl <;> revert h41 <;> decide

theorem nan_advance_view (p : NanParser) (c c' : Nat) (rest ex' : List Nat) (sg ng : Bool) (hI : InvN p)
    (hT : Tracks p.buf (c :: rest)) (hs : NanSuffix ex') (hp : p.payload.isSome = true → ex' = []) :
    let p' : NanParser := { p with expecting := ex', signaling := sg, neg := ng, buf := p.buf.put c' }
    viewN p' = { viewN p with expecting := ex', signaling := sg, neg := ng } ∧ InvN p' ∧ Tracks p'.buf rest := by
  obtain ⟨b, ex, sg0, ng0, pl⟩ := p
  obtain ⟨hsuf, hpay⟩ := hI
  simp only at hsuf hpay hT hp
  have hn := pos_eq_seen_length b _ hT
  obtain ⟨x, hsn⟩ := seen_put_any b c c' rest hT
  have htr := tracks_put_any b c c' rest hT
  have hpp := pos_put b c'
  refine ⟨?_, ?_, htr⟩
  · simp only [viewN, hsn, ANan.mk.injEq, true_and]
    cases pl with
    | none => rfl
    | some s =>
      obtain ⟨-, -, h3, h4⟩ := hpay s rfl
      simp only [Option.map_some, Option.some.injEq]
      exact slice_append_of_le _ _ _ (by rcases h4 with h4 | h4 <;> omega)
  · refine ⟨hs, ?_⟩
    intro s h
    simp only at h
    subst h
    obtain ⟨h1, h2, h3, h4⟩ := hpay s rfl
    refine ⟨h1, h2, h3, Or.inr ⟨hp rfl, ?_⟩⟩
    simp only [hpp]
    rcases h4 with h4 | h4 <;> omega

theorem nan_isExpecting41 (p : NanParser) (hI : InvN p) (h : p.isExpecting 41 = true) : p.expecting = [41] := by
  cases hx : p.expecting with
  | nil => simp [NanParser.isExpecting, hx] at h
  | cons e es =>
    simp only [NanParser.isExpecting, hx] at h
    rw [← hx]; exact nanSuffix_head41 _ e es hI.suf hx h

theorem nan_isExpecting40 (p : NanParser) (hI : InvN p) (h : p.isExpecting 40 = true) : p.expecting = [40, 41] := by
  cases hx : p.expecting with
  | nil => simp [NanParser.isExpecting, hx] at h
  | cons e es =>
    simp only [NanParser.isExpecting, hx] at h
    rw [← hx]; exact nanSuffix_head40 _ e es hI.suf hx h

theorem nan_payload_none_of (p : NanParser) (hI : InvN p) (h1 : p.expecting ≠ [41]) (h2 : p.expecting ≠ []) :
    p.payload = none := by
  cases hp : p.payload with
  | none => rfl
  | some s =>
    obtain ⟨-, -, -, h4⟩ := hI.pay s hp
    rcases h4 with h4 | h4
    · exact absurd h4.1 h1
    · exact absurd h4.1 h2

theorem nan_digit_view (p : NanParser) (s : PSignificand) (c : Nat) (rest : List Nat) (hI : InvN p)
    (hT : Tracks p.buf (c :: rest)) (hp : p.payload = some s) (h41 : p.isExpecting 41 = true) :
    let p' : NanParser := { p with buf := (p.buf.pushSignificandDigit s c).1,
                                   payload := some (p.buf.pushSignificandDigit s c).2 }
    viewN p' = { viewN p with payload := (viewN p).payload.map (· ++ [c]) } ∧ InvN p' ∧ Tracks p'.buf rest := by
  have hex := nan_isExpecting41 p hI h41
  obtain ⟨b, ex, sg0, ng0, pl⟩ := p
  obtain ⟨hsuf, hpay⟩ := hI
  simp only at hsuf hpay hT hp hex
  subst hp hex
  obtain ⟨h1, h2, h3, h4⟩ := hpay s rfl
  have hstop : s.range.stop = b.pos := by
    rcases h4 with h4 | h4
    · exact h4.2
    · exact absurd h4.1 (by simp)
  have hn := pos_eq_seen_length b _ hT
  have hsn := seen_put b c rest hT
  have htr := tracks_put b c rest hT
  have hpp := pos_put b c
  have e := pushSigDigit_eq b s c hstop
  simp only [e]
  refine ⟨?_, ?_, htr⟩
  · simp only [viewN, hsn, Option.map_some, ANan.mk.injEq, true_and, Option.some.injEq]
    rw [hstop, hn, slice_snoc _ _ _ (by omega)]
    obtain ⟨sn, ⟨ss, se⟩, spt⟩ := s
    simp only at hstop
    rw [hstop, hn]
  · refine ⟨hsuf, ?_⟩
    intro s' h
    simp only [Option.some.injEq] at h
    subst h
    exact ⟨h1, h2, by simp only; omega, Or.inl ⟨rfl, by simp only [hpp]; omega⟩⟩

theorem nan_open_view (p : NanParser) (c : Nat) (rest : List Nat) (hI : InvN p)
    (hT : Tracks p.buf (c :: rest)) (h40 : p.isExpecting 40 = true) :
    let p' : NanParser := { p with expecting := p.expecting.drop 1, buf := p.buf.advanceSignificand c,
                                   payload := some (p.buf.advanceSignificand c).beginSignificand }
    viewN p' = { viewN p with expecting := (viewN p).expecting.drop 1, payload := some [] } ∧ InvN p' ∧
      Tracks p'.buf rest := by
  have hex := nan_isExpecting40 p hI h40
  obtain ⟨b, ex, sg0, ng0, pl⟩ := p
  simp only at hex hT
  subst hex
  have htr := tracks_put b c rest hT
  refine ⟨?_, ?_, htr⟩
  · simp only [viewN, TextBuf.advanceSignificand, TextBuf.beginSignificand, Option.map_some, slice_empty]
  · refine ⟨by simp [NanSuffix], ?_⟩
    intro s h
    simp only [Option.some.injEq] at h
    subst h
    simp only [TextBuf.beginSignificand, TextBuf.advanceSignificand]
    exact ⟨trivial, trivial, Nat.le_refl _, Or.inl ⟨by simp, trivial⟩⟩

theorem nan_atStart (p : NanParser) (hI : InvN p) (h : p.atStart = true) :
    p.expecting = kwSnan ∧ p.payload = none := by
  have h1 := nanSuffix_atStart _ hI.suf h
  refine ⟨h1, nan_payload_none_of p hI ?_ ?_⟩ <;> rw [h1] <;> simp [kwSnan]

theorem nan_step_view (p : NanParser) (c : Nat) (rest : List Nat) (hI : InvN p)
    (hT : Tracks p.buf (c :: rest)) :
    (p.step c).map viewN = (viewN p).step c ∧ ∀ p', p.step c = .ok p' → InvN p' ∧ Tracks p'.buf rest := by
  have hAt : (viewN p).atStart = p.atStart := rfl
  have hEx : ∀ x, (viewN p).isExpecting x = p.isExpecting x := fun _ => rfl
  have hPs : (viewN p).payload.isSome = p.payload.isSome := by simp only [viewN, Option.isSome_map]
  have hExp : (viewN p).expecting = p.expecting := rfl
  -- the generic "advance" branches
  have adv : ∀ (ex' : List Nat) (sg ng : Bool), NanSuffix ex' → (p.payload.isSome = true → ex' = []) →
      ((Except.ok { p with expecting := ex', signaling := sg, neg := ng, buf := p.buf.put c } :
          Except ParseErr NanParser).map viewN =
        .ok { viewN p with expecting := ex', signaling := sg, neg := ng }) ∧
      ∀ p', (Except.ok { p with expecting := ex', signaling := sg, neg := ng, buf := p.buf.put c } :
          Except ParseErr NanParser) = .ok p' → InvN p' ∧ Tracks p'.buf rest := by
    intro ex' sg ng hs hp
    obtain ⟨a, b, d⟩ := nan_advance_view p c c rest ex' sg ng hI hT hs hp
    exact ⟨by rw [except_map_ok, a], fun p' h => by cases h; exact ⟨b, d⟩⟩
  unfold NanParser.step ANan.step
  simp only [hAt, hEx, hPs]
  by_cases h1 : (isDigit c && p.payload.isSome && p.isExpecting 41) = true
  · simp only [h1, if_true]
    simp only [Bool.and_eq_true] at h1
    cases hp : p.payload with
    | none => simp [hp] at h1
    | some s =>
      simp only [except_map_ok]
      obtain ⟨a, b, d⟩ := nan_digit_view p s c rest hI hT hp h1.2
      exact ⟨by rw [a], fun p' h => by cases h; exact ⟨b, d⟩⟩
  simp only [h1, if_false, Bool.false_eq_true]
  by_cases h2 : (decide (c = 45) && p.atStart) = true
  · simp only [h2, if_true]
    simp only [Bool.and_eq_true] at h2
    obtain ⟨e1, e2⟩ := nan_atStart p hI h2.2
    exact adv p.expecting p.signaling true hI.suf (by simp [e2])
  simp only [h2, if_false, Bool.false_eq_true]
  by_cases h3 : (decide (c = 43) && p.atStart) = true
  · simp only [h3, if_true]
    simp only [Bool.and_eq_true] at h3
    obtain ⟨e1, e2⟩ := nan_atStart p hI h3.2
    exact adv p.expecting p.signaling false hI.suf (by simp [e2])
  simp only [h3, if_false, Bool.false_eq_true]
  by_cases h4 : ((decide (c = 110) || decide (c = 78)) && p.atStart) = true
  · simp only [h4, if_true]
    simp only [Bool.and_eq_true] at h4
    obtain ⟨e1, e2⟩ := nan_atStart p hI h4.2
    exact adv (p.expecting.drop 2) false p.neg (nanSuffix_drop2 _ hI.suf) (by simp [e2])
  simp only [h4, if_false, Bool.false_eq_true]
  by_cases h5 : ((decide (c = 115) || decide (c = 83)) && p.atStart) = true
  · simp only [h5, if_true]
    simp only [Bool.and_eq_true] at h5
    obtain ⟨e1, e2⟩ := nan_atStart p hI h5.2
    exact adv (p.expecting.drop 1) true p.neg (nanSuffix_drop1 _ hI.suf) (by simp [e2])
  simp only [h5, if_false, Bool.false_eq_true]
  by_cases h6 : (decide (c = 40) && p.isExpecting 40) = true
  · simp only [h6, if_true, except_map_ok]
    simp only [Bool.and_eq_true] at h6
    obtain ⟨a, b, d⟩ := nan_open_view p c rest hI hT h6.2
    exact ⟨by rw [a], fun p' h => by cases h; exact ⟨b, d⟩⟩
  simp only [h6, if_false, Bool.false_eq_true]
  by_cases h7 : (decide (c = 41) && p.isExpecting 41) = true
  · simp only [h7, if_true]
    simp only [Bool.and_eq_true] at h7
    have e1 := nan_isExpecting41 p hI h7.2
    exact adv (p.expecting.drop 1) p.signaling p.neg (nanSuffix_drop1 _ hI.suf) (by simp [e1])
  simp only [h7, if_false, Bool.false_eq_true]
  by_cases h8 : p.isExpecting c = true
  · simp only [h8, if_true]
    refine adv (p.expecting.drop 1) p.signaling p.neg (nanSuffix_drop1 _ hI.suf) ?_
    intro hps
    cases hp : p.payload with
    | none => simp [hp] at hps
    | some s =>
      obtain ⟨-, -, -, h4⟩ := hI.pay s hp
      rcases h4 with h4 | h4
      · simp [h4.1]
      · simp [NanParser.isExpecting, h4.1] at h8
  simp only [h8, if_false, Bool.false_eq_true, except_map_error]
  exact ⟨trivial, fun p' h => by cases h⟩

theorem nan_steps_view (p : NanParser) (cs rest : List Nat) (hI : InvN p)
    (hT : Tracks p.buf (cs ++ rest)) :
    (p.steps cs).map viewN = (viewN p).steps cs ∧ ∀ p', p.steps cs = .ok p' → InvN p' ∧ Tracks p'.buf rest := by
  induction cs generalizing p with
  | nil => exact ⟨rfl, fun p' h => by cases h; exact ⟨hI, hT⟩⟩
  | cons c cs ih =>
    obtain ⟨h1, h2⟩ := nan_step_view p c (cs ++ rest) hI hT
    cases hs : p.step c with
    | error e =>
      rw [hs, except_map_error] at h1
      simp only [NanParser.steps, ANan.steps, hs, ← h1, except_map_error]
      exact ⟨trivial, fun p' h => by cases h⟩
    | ok p1 =>
      rw [hs, except_map_ok] at h1
      obtain ⟨hI1, hT1⟩ := h2 p1 hs
      simp only [NanParser.steps, ANan.steps, hs, ← h1]
      exact ih p1 hI1 hT1

theorem invN_new (b : TextBuf) : InvN { buf := b } :=
  ⟨Or.inl rfl, fun s h => by cases h⟩

/-! ## the `AtStart` arm creates a sub-parser and replays the sign into it -/

def signByte : Option Bool → List Nat
  | none => []
  | some true => [45]
  | some false => [43]

theorem finite_exp_sigPositive (p : FiniteParser) : p.significandPositive.exp = p.exp := rfl
theorem finite_exp_sigNegative (p : FiniteParser) : p.significandNegative.exp = p.exp := rfl

theorem startStep_digit (b : TextBuf) (neg : Option Bool) (c : Nat) (h : isDigit c = true) :
    DecimalParser.startStep b neg c = ((FiniteParser.begin b).steps (signByte neg ++ [c])).map .finite := by
  have e0 : (FiniteParser.begin b).exp = none := rfl
  rcases neg with _ | _ | _
  · simp only [DecimalParser.startStep, h, if_true, signByte, List.nil_append, FiniteParser.steps,
      FiniteParser.step, e0, except_map_ok]
  · have e1 : (FiniteParser.begin b).step 43 = .ok (FiniteParser.begin b).significandPositive := rfl
    simp only [DecimalParser.startStep, h, if_true, signByte, List.cons_append, List.nil_append,
      FiniteParser.steps, e1]
    simp only [FiniteParser.step, finite_exp_sigPositive, e0, h, if_true, except_map_ok]
  · have e1 : (FiniteParser.begin b).step 45 = .ok (FiniteParser.begin b).significandNegative := rfl
    simp only [DecimalParser.startStep, h, if_true, signByte, List.cons_append, List.nil_append,
      FiniteParser.steps, e1]
    simp only [FiniteParser.step, finite_exp_sigNegative, e0, h, if_true, except_map_ok]

theorem startStep_nan (b : TextBuf) (neg : Option Bool) (c : Nat)
    (h : c = 115 ∨ c = 83 ∨ c = 110 ∨ c = 78) :
    DecimalParser.startStep b neg c = (({ buf := b } : NanParser).steps (signByte neg ++ [c])).map .nan := by
  rcases h with rfl | rfl | rfl | rfl <;> rcases neg with _ | _ | _ <;> rfl

theorem startStep_inf (b : TextBuf) (neg : Option Bool) (c : Nat) (h : c = 105 ∨ c = 73) :
    ∃ i, DecimalParser.startStep b neg c = .ok (.infinity i) ∧ viewI i = ⟨kwInfinity.drop 1, neg.getD false⟩ ∧
      i.buf = b.put c := by
  rcases h with rfl | rfl <;> rcases neg with _ | _ | _ <;> exact ⟨_, rfl, rfl, rfl⟩

/-! ## every step keeps the buffer kind and stores at most one byte -/

/-- same buffer kind, at most one more byte stored -/
def Grow (b b' : TextBuf) : Prop := b'.kind = b.kind ∧ b'.text.length ≤ b.text.length + 1

theorem grow_refl (b : TextBuf) : Grow b b := ⟨rfl, Nat.le_succ _⟩
theorem grow_put (b : TextBuf) (c : Nat) : Grow b (b.put c) := ⟨kind_put b c, text_length_put b c⟩

theorem grow_pushSigDigit (b : TextBuf) (s : PSignificand) (d : Nat) : Grow b (b.pushSignificandDigit s d).1 := by
  obtain ⟨k, t, i⟩ := b; cases k <;> exact grow_put ⟨_, t, i⟩ d
theorem grow_pushPoint (b : TextBuf) (s : PSignificand) : Grow b (b.pushDecimalPoint s).1 := by
  obtain ⟨k, t, i⟩ := b; cases k <;> exact grow_put ⟨_, t, i⟩ 46
theorem grow_sigNeg (b : TextBuf) (s : PSignificand) : Grow b (b.significandNegative s).1 := grow_put b 45
theorem grow_sigPos (b : TextBuf) (s : PSignificand) : Grow b (b.significandPositive s).1 := by
  obtain ⟨k, t, i⟩ := b; cases k
  · exact grow_put ⟨_, t, i⟩ 43
  · exact grow_refl _
  · exact grow_refl _
theorem grow_beginExp (b : TextBuf) : Grow b b.beginExponent.1 := grow_put b 101
theorem grow_pushExpDigit (b : TextBuf) (e : PExponent) (d : Nat) : Grow b (b.pushExponentDigit e d).1 := by
  obtain ⟨k, t, i⟩ := b; cases k <;> exact grow_put ⟨_, t, i⟩ d
theorem grow_expNeg (b : TextBuf) (e : PExponent) : Grow b (b.exponentNegative e).1 := grow_put b 45
theorem grow_expPos (b : TextBuf) (e : PExponent) : Grow b (b.exponentPositive e).1 := by
  obtain ⟨k, t, i⟩ := b; cases k
  · exact grow_put ⟨_, t, i⟩ 43
  · exact grow_refl _
  · exact grow_refl _

theorem finite_step_grow (p p' : FiniteParser) (c : Nat) (h : p.step c = .ok p') : Grow p.buf p'.buf := by
  unfold FiniteParser.step at h
  split at h
  · split at h
    · cases h; exact grow_pushSigDigit p.buf _ c
    split at h
    · cases h; exact grow_sigNeg p.buf p.sig
    split at h
    · cases h; exact grow_pushPoint p.buf p.sig
    split at h
    · cases h; exact grow_beginExp p.buf
    split at h
    · cases h; exact grow_sigPos p.buf p.sig
    · cases h
  · split at h
    · cases h; exact grow_pushExpDigit p.buf ‹PExponent› c
    split at h
    · cases h; exact grow_expNeg p.buf ‹PExponent›
    split at h
    · cases h; exact grow_expPos p.buf ‹PExponent›
    · cases h

theorem infinity_step_grow (p p' : InfinityParser) (c : Nat) (h : p.step c = .ok p') : Grow p.buf p'.buf := by
  unfold InfinityParser.step at h
  split at h
  · cases h; exact grow_put p.buf c
  split at h
  · cases h; exact grow_put p.buf c
  split at h
  · split at h
    · cases h; exact grow_put p.buf c
    · cases h
  · cases h

theorem nan_step_grow (p p' : NanParser) (c : Nat) (h : p.step c = .ok p') : Grow p.buf p'.buf := by
  unfold NanParser.step at h
  split at h
  · split at h
    · cases h; exact grow_pushSigDigit p.buf _ c
    · cases h; exact grow_refl _
  split at h
  · cases h; exact grow_put p.buf c
  split at h
  · cases h; exact grow_put p.buf c
  split at h
  · cases h; exact grow_put p.buf c
  split at h
  · cases h; exact grow_put p.buf c
  split at h
  · cases h; exact grow_put p.buf c
  split at h
  · cases h; exact grow_put p.buf c
  split at h
  · cases h; exact grow_put p.buf c
  · cases h

/-! ## a byte is refused only as an unexpected character -/

theorem finite_step_err (p : FiniteParser) (c : Nat) (e : ParseErr) (h : p.step c = .error e) : e = .char c := by
  unfold FiniteParser.step at h
  repeat' split at h
  all_goals first | (cases h; rfl) | cases h

theorem infinity_step_err (p : InfinityParser) (c : Nat) (e : ParseErr) (h : p.step c = .error e) : e = .char c := by
  unfold InfinityParser.step at h
  repeat' split at h
  all_goals first | (cases h; rfl) | cases h

theorem nan_step_err (p : NanParser) (c : Nat) (e : ParseErr) (h : p.step c = .error e) : e = .char c := by
  unfold NanParser.step at h
  repeat' split at h
  all_goals first | (cases h; rfl) | cases h

theorem startStep_err (b : TextBuf) (neg : Option Bool) (c : Nat) (e : ParseErr)
    (h : DecimalParser.startStep b neg c = .error e) : e = .char c := by
  unfold DecimalParser.startStep at h
  repeat' split at h
  all_goals first | (cases h; rfl) | cases h

end Decstr.Proofs
