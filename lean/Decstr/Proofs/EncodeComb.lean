import Decstr.Proofs.EncodeBits
import Mathlib.Tactic.Ring
/-!
# Proofs.EncodeComb — `encode_combination_finite`, for every width

The exponent loops (aligned: `n % 4 = 3`; shifted otherwise) have a closed form for any trip count;
the combination byte is a table; the final result is the arithmetic layout of IEEE 754-2019 §3.5.2.
-/
namespace Decstr.Proofs
open Decstr.Model Decstr.Spec

namespace EncodeAux

/-! ## the exponent loops -/

/-- bytes `ei .. ei+c` of `E` as a number -/
def expChunk (E ei c : Nat) : Nat := (E >>> (8 * ei)) % 2 ^ (8 * c)

theorem pow8_succ (c : Nat) : 2 ^ (8 * (c + 1)) = 256 * 2 ^ (8 * c) := by
  rw [Nat.mul_add, Nat.pow_add]; simp [Nat.mul_comm]

theorem expByte_lt (e i : Nat) : expByte e i < 256 := Nat.mod_lt _ (by decide)

theorem expChunk_succ (E ei c : Nat) :
    expChunk E ei (c + 1) = expByte E ei + 256 * expChunk E (ei + 1) c := by
  unfold expChunk expByte
  have h1 : E >>> (8 * (ei + 1)) = (E >>> (8 * ei)) / 256 := by
    rw [Nat.mul_add, Nat.shiftRight_add]; simp [Nat.shiftRight_eq_div_pow]
  rw [h1]
  generalize E >>> (8 * ei) = M
  rw [pow8_succ, Nat.mod_mul]

theorem expChunk_zero (E c : Nat) : expChunk E 0 c = E % 2 ^ (8 * c) := by
  simp [expChunk]

/-- closed form of the shifted loop, any trip count -/
theorem writeExpShifted_eq (e s : Nat) (hs : s < 8) (c di ei : Nat) (b : Buf) :
    writeExpShifted e s c di ei b =
      (⟨b.len, b.bits ||| (expChunk e ei c <<< (8 * di + s))⟩, di + c, ei + c) := by
  induction c generalizing di ei b with
  | zero => simp [writeExpShifted, expChunk, Nat.mod_one]
  | succ c ih =>
    simp only [writeExpShifted]
    rw [writeByteShifted_eq _ _ _ _ (expByte_lt _ _) hs, ih]
    refine Prod.ext ?_ (Prod.ext ?_ ?_) <;> simp only
    · congr 1
      rw [Nat.or_assoc, expChunk_succ]
      congr 1
      have : 8 * (di + 1) + s = 8 + (8 * di + s) := by omega
      rw [this, Nat.shiftLeft_add _ 8, ← Nat.shiftLeft_or_distrib]
      congr 1
      rw [add_eq_or_of_lt _ _ (expByte_lt _ _)]
    · omega
    · omega

/-- closed form of the aligned loop, any trip count, on bytes that are still zero -/
theorem writeExpAligned_eq (e : Nat) (c di ei : Nat) (b : Buf) (hb : b.bits < 2 ^ (8 * di)) :
    writeExpAligned e c di ei b =
      (⟨b.len, b.bits + expChunk e ei c * 2 ^ (8 * di)⟩, di + c, ei + c) := by
  induction c generalizing di ei b with
  | zero => simp [writeExpAligned, expChunk, Nat.mod_one]
  | succ c ih =>
    simp only [writeExpAligned]
    have hx := expByte_lt e ei
    rw [setAt_fresh _ _ _ hb, Nat.mod_eq_of_lt hx]
    have hlt : b.bits + expByte e ei * 2 ^ (8 * di) < 2 ^ (8 * (di + 1)) := by
      rw [pow8_succ]
      have : expByte e ei * 2 ^ (8 * di) ≤ 255 * 2 ^ (8 * di) := Nat.mul_le_mul_right _ (by omega)
      omega
    rw [ih _ _ _ hlt]
    refine Prod.ext ?_ (Prod.ext ?_ ?_) <;> simp only
    · congr 1
      rw [expChunk_succ, pow8_succ]
      ring
    · omega
    · omega

/-! ## format arithmetic -/

theorem trailingBits_mk (n Tr : Nat) : (Buf.mk (4 * n) Tr).trailingBits = 30 * n - 10 := by
  simp only [Buf.trailingBits, Buf.widthBits]; omega

theorem exponentBits_mk (n N : Nat) : (Buf.mk (4 * n) N).exponentBits = 2 * n + 6 := by
  simp only [Buf.exponentBits, Buf.combinationBits, Buf.widthBits]; omega

/-- the two most significant exponent bits, as the code extracts them -/
theorem mse_eq (n E : Nat) (hE : E < 2 ^ (2 * n + 6)) :
    expByte E (msExponentOffset (2 * n + 6)).2 >>> ((msExponentOffset (2 * n + 6)).1 - 2) = E / 2 ^ (2 * n + 4) := by
  obtain ⟨off, idx, hmo, h1, h2⟩ : ∃ off idx, msExponentOffset (2 * n + 6) = (off, idx) ∧
      8 * idx + off = 2 * n + 6 ∧ 2 ≤ off ∧ off ≤ 8 := by
    unfold msExponentOffset
    split
    · exact ⟨_, _, rfl, by omega, by omega⟩
    · exact ⟨_, _, rfl, by omega, by omega⟩
  rw [hmo]
  simp only
  unfold expByte
  rw [Nat.shiftRight_eq_div_pow, Nat.shiftRight_eq_div_pow]
  have hlt : E / 2 ^ (8 * idx) < 256 := by
    rw [Nat.div_lt_iff_lt_mul (Nat.two_pow_pos _)]
    calc E < 2 ^ (2 * n + 6) := hE
      _ ≤ 2 ^ (8 + 8 * idx) := Nat.pow_le_pow_right (by decide) (by omega)
      _ = 256 * 2 ^ (8 * idx) := by rw [Nat.pow_add]
  rw [Nat.mod_eq_of_lt hlt, Nat.div_div_eq_div_mul, ← Nat.pow_add]
  congr 2
  omega

/-- the aligned branch of `encode_combination_finite` is taken exactly for widths `32n` with `n % 4 = 3` -/
theorem aligned_iff (n Tr : Nat) (hn : 0 < n) : (Buf.mk (4 * n) Tr).trailingBits % 8 = 0 ↔ n % 4 = 3 := by
  rw [trailingBits_mk]; omega

/-! ## byte tables for the combination byte -/

/-- the combination byte built from the two exponent bits and the leading digit is `g5·4` -/
theorem comb_table : ∀ mse < 3, ∀ msd < 10,
    (if msd &&& 8 = 0 then
      ((mse &&& 2) <<< 5) ||| ((mse &&& 1) <<< 5) ||| ((msd &&& 4) <<< 2) ||| ((msd &&& 2) <<< 2) ||| ((msd &&& 1) <<< 2)
    else
      64 ||| 32 ||| ((mse &&& 2) <<< 3) ||| ((mse &&& 1) <<< 3) ||| ((msd &&& 1) <<< 2))
    = 4 * (if msd < 8 then mse * 8 + msd else 24 + mse * 2 + (msd - 8)) := by
  decide +kernel

theorem g5_lt (mse msd : Nat) (h1 : mse < 3) (h2 : msd < 10) :
    (if msd < 8 then mse * 8 + msd else 24 + mse * 2 + (msd - 8)) < 30 := by
  split <;> omega

/-- masking the last byte with `0x83` and OR-ing the combination in -/
theorem mask_table : ∀ y < 16, ∀ g < 32, ((y &&& 0x83) ||| (4 * g)) % 256 = y % 4 + 4 * g := by
  decide +kernel

/-! ## arithmetic of the final layout -/

theorem layout_arith (P W L Tr E g : Nat) (hL : L * 4 = W * P) (hT : Tr < P) (hW : 0 < W) :
    (Tr + E * P) % L + ((Tr + E * P) / L % 4 + 4 * g) * L = (g * W + E % W) * P + Tr := by
  have hm : (Tr + E * P) % (L * 4) = (Tr + E * P) % L + L * ((Tr + E * P) / L % 4) := Nat.mod_mul
  have hWP : (Tr + E * P) % (W * P) = Tr + (E % W) * P := by
    have hE : Tr + E * P = (Tr + (E % W) * P) + (E / W) * (W * P) := by
      have := Nat.div_add_mod E W
      calc Tr + E * P = Tr + (W * (E / W) + E % W) * P := by rw [this]
        _ = _ := by ring
    rw [hE, Nat.add_mul_mod_self_right]
    apply Nat.mod_eq_of_lt
    have h1 : E % W + 1 ≤ W := Nat.mod_lt _ hW
    have h2 : (E % W + 1) * P ≤ W * P := Nat.mul_le_mul_right _ h1
    have h3 : (E % W + 1) * P = E % W * P + P := by ring
    omega
  rw [hL, hWP] at hm
  have e : ((Tr + E * P) / L % 4 + 4 * g) * L = L * ((Tr + E * P) / L % 4) + g * (L * 4) := by ring
  rw [e, hL]
  have e2 : (g * W + E % W) * P + Tr = Tr + E % W * P + g * (W * P) := by ring
  rw [e2]
  omega

/-! ## `encodeCombinationFinite` split into its loops and its tail -/

/-- the exponent loops -/
def combLoops (b : Buf) (e : Nat) : Buf × Nat × Nat :=
  if b.trailingBits % 8 = 0 then writeExpAligned e (b.len - 1 - b.trailingBits / 8) (b.trailingBits / 8) 0 b
  else writeExpShifted e (b.trailingBits % 8) (b.len - 1 - b.trailingBits / 8) (b.trailingBits / 8) 0 b

/-- everything after the loops -/
def combTail (shift : Nat) (b : Buf) (di ei : Nat) (neg : Bool) (e msd : Nat) : Buf :=
  let b := b.orAt di (expByte e ei <<< shift)
  let mse := expByte e (msExponentOffset b.exponentBits).2 >>> ((msExponentOffset b.exponentBits).1 - 2)
  let combination :=
    if msd &&& 8 = 0 then
      ((mse &&& 2) <<< 5) ||| ((mse &&& 1) <<< 5) ||| ((msd &&& 4) <<< 2) ||| ((msd &&& 2) <<< 2) ||| ((msd &&& 1) <<< 2)
    else
      64 ||| 32 ||| ((mse &&& 2) <<< 3) ||| ((mse &&& 1) <<< 3) ||| ((msd &&& 1) <<< 2)
  let b := b.setAt di ((b.get di &&& 0x83) ||| combination)
  if neg then b.orAt di SIGN_NEGATIVE else b

/-- the model's definition is the composition (by unfolding) -/
theorem encodeCombinationFinite_split (b : Buf) (neg : Bool) (e msd : Nat) :
    encodeCombinationFinite b neg e msd =
      combTail (b.trailingBits % 8) (combLoops b e).1 (combLoops b e).2.1 (combLoops b e).2.2 neg e msd := rfl

/-! ## the loops on a buffer that holds only a trailing significand -/

theorem combLoops_eq (n : Nat) (hn : 0 < n) (Tr : Nat) (hT : Tr < 2 ^ (30 * n - 10)) (E : Nat) :
    combLoops ⟨4 * n, Tr⟩ E =
      (⟨4 * n, Tr + (E % 2 ^ (8 * (4 * n - 1 - (30 * n - 10) / 8))) * 2 ^ (30 * n - 10)⟩,
        4 * n - 1, 4 * n - 1 - (30 * n - 10) / 8) := by
  unfold combLoops
  rw [trailingBits_mk]
  simp only
  split
  · next h =>
    have e8 : 8 * ((30 * n - 10) / 8) = 30 * n - 10 := by omega
    rw [writeExpAligned_eq _ _ _ _ _ (by simpa only [e8] using hT)]
    refine Prod.ext ?_ (Prod.ext ?_ ?_) <;> simp only
    · rw [expChunk_zero, e8]
    · omega
    · omega
  · next h =>
    rw [writeExpShifted_eq _ _ (by omega)]
    have e8 : 8 * ((30 * n - 10) / 8) + (30 * n - 10) % 8 = 30 * n - 10 := by omega
    refine Prod.ext ?_ (Prod.ext ?_ ?_) <;> simp only
    · rw [expChunk_zero, e8, or_shift_eq_add _ _ _ hT]
    · omega
    · omega

/-- the write after the loops completes the exponent: the buffer now holds `Tr + E·2^t` -/
theorem comb_final_or (n : Nat) (hn : 0 < n) (Tr : Nat) (hT : Tr < 2 ^ (30 * n - 10)) (E : Nat)
    (hE : E < 2 ^ (2 * n + 6)) :
    (Buf.mk (4 * n) (Tr + (E % 2 ^ (8 * (4 * n - 1 - (30 * n - 10) / 8))) * 2 ^ (30 * n - 10))).orAt (4 * n - 1)
        (expByte E (4 * n - 1 - (30 * n - 10) / 8) <<< ((30 * n - 10) % 8))
      = ⟨4 * n, Tr + E * 2 ^ (30 * n - 10)⟩ := by
  generalize hc : 4 * n - 1 - (30 * n - 10) / 8 = c
  generalize hs : (30 * n - 10) % 8 = s
  have hcs : 8 * c = 2 * n + 2 + s := by omega
  have hs8 : s < 8 := by omega
  unfold Buf.orAt
  simp only
  congr 1
  -- the byte read from the exponent is the quotient
  have hB : expByte E c = E / 2 ^ (8 * c) := by
    unfold expByte
    rw [Nat.shiftRight_eq_div_pow]
    apply Nat.mod_eq_of_lt
    rw [Nat.div_lt_iff_lt_mul (Nat.two_pow_pos _)]
    calc E < 2 ^ (2 * n + 6) := hE
      _ ≤ 2 ^ (8 + 8 * c) := Nat.pow_le_pow_right (by decide) (by omega)
      _ = 256 * 2 ^ (8 * c) := by rw [Nat.pow_add]
  rw [hB]
  generalize hBv : E / 2 ^ (8 * c) = B
  have hEdecomp : E = E % 2 ^ (8 * c) + B * 2 ^ (8 * c) := by
    rw [← hBv]; exact (Nat.mod_add_div' _ _).symm
  have hA : E % 2 ^ (8 * c) < 2 ^ (8 * c) := Nat.mod_lt _ (Nat.two_pow_pos _)
  generalize E % 2 ^ (8 * c) = A at hEdecomp hA
  -- it fits the last byte
  have hBs : B * 2 ^ s < 16 := by
    have h1 : B * 2 ^ (8 * c) ≤ E := by omega
    have h2 : 2 ^ (2 * n + 6) * 2 ^ s = 16 * 2 ^ (8 * c) := by
      rw [← Nat.pow_add, show 2 * n + 6 + s = 4 + 8 * c by omega, Nat.pow_add]
    have h3 : B * 2 ^ s * 2 ^ (8 * c) < 16 * 2 ^ (8 * c) := by
      calc B * 2 ^ s * 2 ^ (8 * c) = B * 2 ^ (8 * c) * 2 ^ s := by ring
        _ ≤ E * 2 ^ s := Nat.mul_le_mul_right _ h1
        _ < 2 ^ (2 * n + 6) * 2 ^ s := Nat.mul_lt_mul_of_pos_right hE (Nat.two_pow_pos _)
        _ = _ := h2
    exact Nat.lt_of_mul_lt_mul_right h3
  have hsh : ((B <<< s) % 256) <<< (8 * (4 * n - 1)) = B <<< ((30 * n - 10) + 8 * c) := by
    rw [Nat.mod_eq_of_lt (by rw [Nat.shiftLeft_eq]; omega), ← Nat.shiftLeft_add]
    congr 1; omega
  rw [hsh]
  have hN : Tr + A * 2 ^ (30 * n - 10) < 2 ^ ((30 * n - 10) + 8 * c) := by
    rw [Nat.pow_add]
    have : (A + 1) * 2 ^ (30 * n - 10) ≤ 2 ^ (8 * c) * 2 ^ (30 * n - 10) := Nat.mul_le_mul_right _ hA
    have e : (A + 1) * 2 ^ (30 * n - 10) = A * 2 ^ (30 * n - 10) + 2 ^ (30 * n - 10) := by ring
    rw [Nat.mul_comm (2 ^ (30 * n - 10))]
    omega
  rw [or_shift_eq_add _ _ _ hN, hEdecomp, Nat.pow_add]
  ring

/-! ## the tail: combination byte, mask, sign -/

theorem pow_split (a b c : Nat) (h : a = b + c) : 2 ^ a = 2 ^ b * 2 ^ c := by rw [h, Nat.pow_add]

end EncodeAux
open EncodeAux

/-- combination field + exponent continuation + sign, on top of any trailing significand -/
theorem encodeCombinationFinite_spec (n : Nat) (hn : 0 < n) (Tr : Nat) (hT : Tr < 2 ^ (30 * n - 10)) (neg : Bool)
    (E : Nat) (hE : E < 3 * 2 ^ (2 * n + 4)) (msd : Nat) (hmsd : msd < 10) :
    encodeCombinationFinite ⟨4 * n, Tr⟩ neg E msd =
      ⟨4 * n, signBit ⟨n⟩ neg +
        ((if msd < 8 then E / 2 ^ (2 * n + 4) * 8 + msd else 24 + E / 2 ^ (2 * n + 4) * 2 + (msd - 8)) * 2 ^ (2 * n + 4)
          + E % 2 ^ (2 * n + 4)) * 2 ^ (30 * n - 10) + Tr⟩ := by
  have hE' : E < 2 ^ (2 * n + 6) := by
    have : 2 ^ (2 * n + 6) = 4 * 2 ^ (2 * n + 4) := by rw [pow_split _ 2 (2 * n + 4) (by omega)]; rfl
    omega
  have hmse : E / 2 ^ (2 * n + 4) < 3 := by
    rw [Nat.div_lt_iff_lt_mul (Nat.two_pow_pos _)]; exact hE
  rw [encodeCombinationFinite_split, combLoops_eq n hn Tr hT E, trailingBits_mk]
  unfold combTail
  simp only
  rw [comb_final_or n hn Tr hT E hE', exponentBits_mk, mse_eq n E hE', comb_table _ hmse _ hmsd]
  generalize hg : (if msd < 8 then E / 2 ^ (2 * n + 4) * 8 + msd else 24 + E / 2 ^ (2 * n + 4) * 2 + (msd - 8)) = g
  have hg30 : g < 30 := by rw [← hg]; exact g5_lt _ _ hmse hmsd
  -- names for the powers
  have hL4 : 2 ^ (8 * (4 * n - 1)) * 4 = 2 ^ (2 * n + 4) * 2 ^ (30 * n - 10) := by
    rw [← Nat.pow_add, show (4 : Nat) = 2 ^ 2 from rfl, ← Nat.pow_add]
    congr 1; omega
  have hWpos : 0 < 2 ^ (2 * n + 4) := Nat.two_pow_pos _
  have hEW : E % 2 ^ (2 * n + 4) < 2 ^ (2 * n + 4) := Nat.mod_lt _ hWpos
  -- size of what the loops wrote
  have hN1 : Tr + E * 2 ^ (30 * n - 10) < 16 * 2 ^ (8 * (4 * n - 1)) := by
    have h1 : (E + 1) * 2 ^ (30 * n - 10) ≤ 2 ^ (2 * n + 6) * 2 ^ (30 * n - 10) := Nat.mul_le_mul_right _ hE'
    have h2 : 2 ^ (2 * n + 6) * 2 ^ (30 * n - 10) = 16 * 2 ^ (8 * (4 * n - 1)) := by
      rw [← Nat.pow_add, show (16 : Nat) = 2 ^ 4 from rfl, ← Nat.pow_add]
      congr 1; omega
    have h3 : (E + 1) * 2 ^ (30 * n - 10) = E * 2 ^ (30 * n - 10) + 2 ^ (30 * n - 10) := by ring
    omega
  have hN1' : (Buf.mk (4 * n) (Tr + E * 2 ^ (30 * n - 10))).bits < 2 ^ (8 * (4 * n - 1 + 1)) := by
    simp only
    rw [pow8_succ]; omega
  have hget : (Buf.mk (4 * n) (Tr + E * 2 ^ (30 * n - 10))).get (4 * n - 1)
      = (Tr + E * 2 ^ (30 * n - 10)) / 2 ^ (8 * (4 * n - 1)) := get_eq_div _ _ hN1'
  have hy : (Tr + E * 2 ^ (30 * n - 10)) / 2 ^ (8 * (4 * n - 1)) < 16 := by
    rw [Nat.div_lt_iff_lt_mul (Nat.two_pow_pos _)]; exact hN1
  rw [setAt_top _ _ _ hN1', hget, mask_table _ hy _ (by omega)]
  simp only
  rw [layout_arith _ _ _ Tr E g hL4 hT hWpos]
  -- the result so far is below the sign bit
  have hN2 : (g * 2 ^ (2 * n + 4) + E % 2 ^ (2 * n + 4)) * 2 ^ (30 * n - 10) + Tr < 2 ^ (32 * n - 1) := by
    have h1 : (g * 2 ^ (2 * n + 4) + E % 2 ^ (2 * n + 4) + 1) * 2 ^ (30 * n - 10)
        ≤ (30 * 2 ^ (2 * n + 4)) * 2 ^ (30 * n - 10) := by
      apply Nat.mul_le_mul_right
      have : g * 2 ^ (2 * n + 4) ≤ 29 * 2 ^ (2 * n + 4) := Nat.mul_le_mul_right _ (by omega)
      omega
    have h2 : 2 ^ (32 * n - 1) = 32 * (2 ^ (2 * n + 4) * 2 ^ (30 * n - 10)) := by
      rw [← Nat.pow_add, show (32 : Nat) = 2 ^ 5 from rfl, ← Nat.pow_add]
      congr 1; omega
    have h3 : (g * 2 ^ (2 * n + 4) + E % 2 ^ (2 * n + 4) + 1) * 2 ^ (30 * n - 10)
        = (g * 2 ^ (2 * n + 4) + E % 2 ^ (2 * n + 4)) * 2 ^ (30 * n - 10) + 2 ^ (30 * n - 10) := by ring
    have h4 : (30 * 2 ^ (2 * n + 4)) * 2 ^ (30 * n - 10) = 30 * (2 ^ (2 * n + 4) * 2 ^ (30 * n - 10)) := by ring
    omega
  cases neg
  · simp [signBit]
  · simp only [if_true, signBit, Fmt.k]
    unfold Buf.orAt
    simp only
    congr 1
    have hsh : (SIGN_NEGATIVE % 256) <<< (8 * (4 * n - 1)) = 1 <<< (32 * n - 1) := by
      rw [show SIGN_NEGATIVE % 256 = 1 <<< 7 from rfl, ← Nat.shiftLeft_add]
      congr 1; omega
    rw [hsh, or_shift_eq_add _ _ _ hN2]
    omega

end Decstr.Proofs

#print axioms Decstr.Proofs.encodeCombinationFinite_spec
