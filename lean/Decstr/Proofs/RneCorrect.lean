import Decstr.Proofs.RneBounds
import Decstr.Proofs.ToInt
import Mathlib.Tactic.Ring
import Mathlib.Tactic.Linarith
/-!
# Proofs.RneCorrect — the specification's binary rounding `Spec.rneRat` really is round-to-nearest-even

`Spec.rneRat B num den` is the oracle for C12/C13.  Here it is proved correct against IEEE 754-2019 §3.4/§4.3.1:

* `fieldOf/fracOf/mantOf/qexpOf` : value of a finite non-negative pattern = `mantOf · 2^qexpOf` (§3.4);
* `err B num den bits`          : `|num/den − value bits| · den · 2^shiftOf B`, an exact natural number
                                   (cross-multiplied distance between rationals, common shift `shiftOf B`);
* `rneRat_finite`, `rneRat_nearest`, `rneRat_tie_even`, `rneRat_overflow`, `rneRat_monotone`;
* `rneDec_*` corollaries for `c·10^e`, and `rneDecSafe_eq_rneDec` (the shortcuts of `Judge.rneDecSafe` are sound
  for binary32 and binary64).
-/
namespace Decstr.Proofs.Rne
open Decstr.Spec Decstr.Proofs

/-! ## Value of a finite non-negative bit pattern (IEEE 754-2019 §3.4) -/

/-- biased exponent field -/
def fieldOf (B : BinFmt) (bits : Nat) : Nat := bits / 2 ^ (B.prec - 1)
/-- trailing significand field -/
def fracOf  (B : BinFmt) (bits : Nat) : Nat := bits % 2 ^ (B.prec - 1)
/-- integer significand: hidden bit for normals (field ≠ 0) -/
def mantOf  (B : BinFmt) (bits : Nat) : Nat :=
  if fieldOf B bits = 0 then fracOf B bits else 2 ^ (B.prec - 1) + fracOf B bits
/-- unbiased quantum exponent: value = `mantOf · 2^qexpOf`; subnormals (field 0) have the exponent of field 1 -/
def qexpOf  (B : BinFmt) (bits : Nat) : Int :=
  (if fieldOf B bits = 0 then 1 else (fieldOf B bits : Int)) - (2 ^ (B.ebits - 1) - 1 : Nat) - (B.prec - 1 : Nat)

/-- binary32: `0x3f800000` is `2^23 · 2^-23 = 1.0` -/
example : mantOf binary32 0x3f800000 = 2 ^ 23 ∧ qexpOf binary32 0x3f800000 = -23 := by decide
/-- binary32: `0x00000001` is `1 · 2^-149` (smallest subnormal) -/
example : mantOf binary32 0x00000001 = 1 ∧ qexpOf binary32 0x00000001 = -149 := by decide
/-- binary32: `0x7f7fffff` is `(2^24 − 1) · 2^104` (largest finite) -/
example : mantOf binary32 0x7f7fffff = 2 ^ 24 - 1 ∧ qexpOf binary32 0x7f7fffff = 104 := by decide
/-- binary32: `0x00800000` is `2^23 · 2^-149 = 2^-126` (smallest normal) -/
example : mantOf binary32 0x00800000 = 2 ^ 23 ∧ qexpOf binary32 0x00800000 = -149 := by decide
/-- binary64: `0x3ff0000000000000` is `2^52 · 2^-52 = 1.0` -/
example : mantOf binary64 0x3ff0000000000000 = 2 ^ 52 ∧ qexpOf binary64 0x3ff0000000000000 = -52 := by decide

/-- common shift: `−(emin − (prec − 1))`, minus the quantum exponent of the subnormals; `qexpOf + shiftOf ≥ 0` -/
def shiftOf (B : BinFmt) : Nat := 2 ^ (B.ebits - 1) - 2 + (B.prec - 1)

/-- `value bits · 2^s`, a natural number as soon as `qexpOf B bits + s ≥ 0` -/
def scaledAt (B : BinFmt) (s : Nat) (bits : Nat) : Nat := mantOf B bits * 2 ^ (qexpOf B bits + s).toNat

/-- `|num/den − value bits| · den · 2^s` (exact, for `qexpOf B bits + s ≥ 0`): numerator of the distance between the
    rationals `num/den` and `mantOf·2^qexpOf` over the common denominator `den·2^s` -/
def errAt (B : BinFmt) (s : Nat) (num den bits : Nat) : Nat :=
  Int.natAbs (((num * 2 ^ s : Nat) : Int) - ((scaledAt B s bits * den : Nat) : Int))

/-- the distance `|num/den − value bits|` times `den · 2^shiftOf B` -/
def err (B : BinFmt) (num den bits : Nat) : Nat := errAt B (shiftOf B) num den bits

/-- value in units of the smallest subnormal: `value bits = valN bits · 2^(−shiftOf B)` -/
def valN (B : BinFmt) (bits : Nat) : Nat := mantOf B bits * 2 ^ (fieldOf B bits - 1)

theorem two_le_half (B : BinFmt) (hb : 2 ≤ B.ebits) : 2 ≤ 2 ^ (B.ebits - 1) :=
  calc 2 = 2 ^ 1 := rfl
    _ ≤ 2 ^ (B.ebits - 1) := Nat.pow_le_pow_right (by decide) (by omega)

theorem qexp_shift (B : BinFmt) (hb : 2 ≤ B.ebits) (bits : Nat) :
    qexpOf B bits + shiftOf B = ((fieldOf B bits - 1 : Nat) : Int) := by
  have ht := two_le_half B hb
  unfold qexpOf shiftOf
  generalize 2 ^ (B.ebits - 1) = t at ht ⊢
  split <;> omega

theorem scaledAt_shift (B : BinFmt) (hb : 2 ≤ B.ebits) (bits : Nat) : scaledAt B (shiftOf B) bits = valN B bits := by
  unfold scaledAt valN
  rw [qexp_shift B hb]; rfl

/-- any larger shift only multiplies the distance by a power of two: the comparison of distances does not depend on
    the shift -/
theorem errAt_add (B : BinFmt) (s k num den bits : Nat) (hs : 0 ≤ qexpOf B bits + s) :
    errAt B (s + k) num den bits = errAt B s num den bits * 2 ^ k := by
  unfold errAt scaledAt
  have h1 : (qexpOf B bits + ((s + k : Nat) : Int)).toNat = (qexpOf B bits + s).toNat + k := by omega
  rw [h1, Nat.pow_add, Nat.pow_add]
  have : (((num * (2 ^ s * 2 ^ k) : Nat) : Int) - ((mantOf B bits * (2 ^ (qexpOf B bits + s).toNat * 2 ^ k) * den : Nat) : Int))
      = (((num * 2 ^ s : Nat) : Int) - ((mantOf B bits * 2 ^ (qexpOf B bits + s).toNat * den : Nat) : Int)) * ((2 ^ k : Nat) : Int) := by
    push_cast; ring
  rw [this, Int.natAbs_mul, Int.natAbs_natCast]

theorem err_eq (B : BinFmt) (hb : 2 ≤ B.ebits) (num den bits : Nat) :
    err B num den bits = Int.natAbs (((num * 2 ^ shiftOf B : Nat) : Int) - ((valN B bits * den : Nat) : Int)) := by
  unfold err errAt
  rw [scaledAt_shift B hb]

/-- sanity: `1/1` is at distance 0 from `0x3f800000` (1.0) and at distance `2^-23` from its successor -/
example : err binary32 1 1 0x3f800000 = 0 ∧ err binary32 1 1 0x3f800001 = 2 ^ (shiftOf binary32 - 23) := by
  rw [err_eq _ (by decide), err_eq _ (by decide)]; decide +kernel
/-- sanity: `3/2 · 2^-149` is equally far (half a quantum) from the patterns 1 and 2, and farther from 0 and 3 -/
example : err binary32 3 (2 ^ 150) 1 = 2 ^ 149 ∧ err binary32 3 (2 ^ 150) 2 = 2 ^ 149 ∧
    err binary32 3 (2 ^ 150) 0 = 3 * 2 ^ 149 ∧ err binary32 3 (2 ^ 150) 3 = 3 * 2 ^ 149 := by
  simp only [err_eq _ (show 2 ≤ binary32.ebits by decide)]; decide +kernel

/-! ## The value as a function of (field, fraction); the order isomorphism -/

theorem W_pos (B : BinFmt) : 0 < 2 ^ (B.prec - 1) := Nat.pow_pos (by decide)

theorem fieldOf_mk (B : BinFmt) (f r : Nat) (hr : r < 2 ^ (B.prec - 1)) : fieldOf B (f * 2 ^ (B.prec - 1) + r) = f := by
  unfold fieldOf
  rw [Nat.mul_comm, Nat.mul_add_div (W_pos B), Nat.div_eq_of_lt hr, Nat.add_zero]

theorem fracOf_mk (B : BinFmt) (f r : Nat) (hr : r < 2 ^ (B.prec - 1)) : fracOf B (f * 2 ^ (B.prec - 1) + r) = r := by
  unfold fracOf
  rw [Nat.mul_comm, Nat.mul_add_mod, Nat.mod_eq_of_lt hr]

theorem bits_eq (B : BinFmt) (bits : Nat) : bits = fieldOf B bits * 2 ^ (B.prec - 1) + fracOf B bits := by
  unfold fieldOf fracOf
  rw [Nat.mul_comm]; exact (Nat.div_add_mod _ _).symm

theorem fracOf_lt (B : BinFmt) (bits : Nat) : fracOf B bits < 2 ^ (B.prec - 1) := Nat.mod_lt _ (W_pos B)

theorem valN_mk (B : BinFmt) (f r : Nat) (hr : r < 2 ^ (B.prec - 1)) :
    valN B (f * 2 ^ (B.prec - 1) + r) = (if f = 0 then r else 2 ^ (B.prec - 1) + r) * 2 ^ (f - 1) := by
  unfold valN mantOf
  rw [fieldOf_mk B f r hr, fracOf_mk B f r hr]

/-- the next pattern is one quantum of the current binade further -/
theorem valN_succ (B : BinFmt) (bits : Nat) : valN B (bits + 1) = valN B bits + 2 ^ (fieldOf B bits - 1) := by
  have hb := bits_eq B bits
  have hr := fracOf_lt B bits
  generalize fieldOf B bits = f at hb ⊢
  generalize fracOf B bits = r at hb hr
  subst hb
  by_cases h : r + 1 < 2 ^ (B.prec - 1)
  · rw [Nat.add_assoc, valN_mk B f (r + 1) h, valN_mk B f r hr]
    split <;> ring
  · have hW : 2 ^ (B.prec - 1) = r + 1 := by omega
    have h0 : f * 2 ^ (B.prec - 1) + r + 1 = (f + 1) * 2 ^ (B.prec - 1) + 0 := by rw [hW]; ring
    rw [h0, valN_mk B (f + 1) 0 (W_pos B), valN_mk B f r hr, if_neg (by omega), hW]
    by_cases hf : f = 0
    · subst hf; simp
    · obtain ⟨g, rfl⟩ : ∃ g, f = g + 1 := ⟨f - 1, by omega⟩
      rw [if_neg (by omega)]
      simp only [Nat.add_sub_cancel]
      ring

theorem valN_lt_succ (B : BinFmt) (bits : Nat) : valN B bits < valN B (bits + 1) := by
  rw [valN_succ]
  have : 0 < 2 ^ (fieldOf B bits - 1) := Nat.pow_pos (by decide)
  omega

/-- `bits ↦ value` is strictly increasing on non-negative patterns -/
theorem val_strictMono (B : BinFmt) {b1 b2 : Nat} (h : b1 < b2) : valN B b1 < valN B b2 := by
  induction b2 with
  | zero => omega
  | succ n ih =>
    by_cases h1 : b1 = n
    · subst h1; exact valN_lt_succ B b1
    · exact Nat.lt_trans (ih (by omega)) (valN_lt_succ B n)

theorem val_mono (B : BinFmt) {b1 b2 : Nat} (h : b1 ≤ b2) : valN B b1 ≤ valN B b2 := by
  by_cases h1 : b1 = b2
  · subst h1; exact Nat.le_refl _
  · exact Nat.le_of_lt (val_strictMono B (by omega))

theorem val_lt_iff (B : BinFmt) {b1 b2 : Nat} : valN B b1 < valN B b2 ↔ b1 < b2 := by
  constructor
  · intro h
    apply Nat.lt_of_not_le
    intro h2
    exact Nat.lt_irrefl _ (Nat.lt_of_lt_of_le h (val_mono B h2))
  · exact val_strictMono B

/-- the pattern `fld·W + m` that `rneRat` assembles has the value `m · 2^fld` quanta: in the subnormal binade
    (`fld = 0`, `m ≤ W`, the carry into the first normal included) and in the normal binades (`W ≤ m ≤ 2W`, the carry
    into the next binade included) -/
theorem valN_assemble (B : BinFmt) (fld m : Nat)
    (h : (fld = 0 ∧ m ≤ 2 ^ (B.prec - 1)) ∨ (2 ^ (B.prec - 1) ≤ m ∧ m ≤ 2 * 2 ^ (B.prec - 1))) :
    valN B (fld * 2 ^ (B.prec - 1) + m) = m * 2 ^ fld := by
  have hW := W_pos B
  rcases h with ⟨rfl, hm⟩ | ⟨h1, h2⟩
  · by_cases hm' : m < 2 ^ (B.prec - 1)
    · rw [valN_mk B 0 m hm']; simp
    · have : m = 2 ^ (B.prec - 1) := by omega
      subst this
      have h0 : 0 * 2 ^ (B.prec - 1) + 2 ^ (B.prec - 1) = 1 * 2 ^ (B.prec - 1) + 0 := by ring
      rw [h0, valN_mk B 1 0 hW]; simp
  · by_cases hm' : m < 2 * 2 ^ (B.prec - 1)
    · obtain ⟨r, rfl⟩ : ∃ r, m = 2 ^ (B.prec - 1) + r := ⟨m - 2 ^ (B.prec - 1), by omega⟩
      have h0 : fld * 2 ^ (B.prec - 1) + (2 ^ (B.prec - 1) + r) = (fld + 1) * 2 ^ (B.prec - 1) + r := by ring
      rw [h0, valN_mk B (fld + 1) r (by omega), if_neg (by omega)]
      simp
    · have : m = 2 * 2 ^ (B.prec - 1) := by omega
      subst this
      have h0 : fld * 2 ^ (B.prec - 1) + 2 * 2 ^ (B.prec - 1) = (fld + 2) * 2 ^ (B.prec - 1) + 0 := by ring
      rw [h0, valN_mk B (fld + 2) 0 hW, if_neg (by omega)]
      have : fld + 2 - 1 = fld + 1 := by omega
      rw [this, Nat.pow_succ]; ring

/-! ## The rounding step of `rneRat`: nearest integer, ties to even -/

/-- `a/d` rounded to the nearest integer, ties to even (the rounding step of `Spec.rneRat`) -/
def rnd (a d : Nat) : Nat :=
  let m := a / d; let r := a % d
  if 2 * r > d || (2 * r = d && m % 2 = 1) then m + 1 else m

theorem rneStep_eq (B : BinFmt) (emin q : Int) (a d' : Nat) :
    rneStep B emin q a d' =
      if (q + ((B.prec : Int) - 1) - emin).toNat * 2 ^ (B.prec - 1) + rnd a d' ≥ B.infBits then none
      else some ((q + ((B.prec : Int) - 1) - emin).toNat * 2 ^ (B.prec - 1) + rnd a d') := rfl

theorem rnd_cases (a d : Nat) :
    (rnd a d = a / d ∧ (2 * (a % d) < d ∨ (2 * (a % d) = d ∧ (a / d) % 2 = 0))) ∨
    (rnd a d = a / d + 1 ∧ (2 * (a % d) > d ∨ (2 * (a % d) = d ∧ (a / d) % 2 = 1))) := by
  unfold rnd
  simp only
  split
  · rename_i h
    simp at h
    right; refine ⟨rfl, ?_⟩; omega
  · rename_i h
    simp at h
    left; refine ⟨rfl, ?_⟩; omega

/-- the rounding depends on the ratio only -/
theorem rnd_scale (a d k : Nat) (hk : 0 < k) : rnd (a * k) (d * k) = rnd a d := by
  unfold rnd
  simp only
  rw [Nat.mul_div_mul_right _ _ hk, Nat.mul_mod_mul_right]
  have h1 : (2 * (a % d * k) > d * k) = (2 * (a % d) > d) := by
    rw [← Nat.mul_assoc]; exact propext (Nat.mul_lt_mul_right hk)
  have h2 : (2 * (a % d * k) = d * k) = (2 * (a % d) = d) := by
    rw [← Nat.mul_assoc]; exact propext (Nat.mul_left_inj (by omega))
  simp only [h1, h2]

/-- `rnd a d = m` is within half a unit of `a/d`, and a tie is only ever resolved to an even `m` -/
theorem rnd_spec (a d : Nat) (hd : 0 < d) :
    2 * (rnd a d * d) ≤ 2 * a + d ∧ 2 * a ≤ 2 * (rnd a d * d) + d ∧
    (2 * (rnd a d * d) = 2 * a + d → rnd a d % 2 = 0) ∧ (2 * a = 2 * (rnd a d * d) + d → rnd a d % 2 = 0) ∧
    a / d ≤ rnd a d ∧ rnd a d ≤ a / d + 1 := by
  have h0 : a = a / d * d + a % d := by rw [Nat.mul_comm]; exact (Nat.div_add_mod a d).symm
  have hr : a % d < d := Nat.mod_lt _ hd
  have hc := rnd_cases a d
  generalize rnd a d = m at hc ⊢
  generalize a / d = m0 at h0 hc ⊢
  generalize a % d = r at h0 hr hc
  rcases hc with ⟨rfl, hc⟩ | ⟨rfl, hc⟩
  · generalize m * d = X at h0 ⊢
    omega
  · have : (m0 + 1) * d = m0 * d + d := by ring
    rw [this]
    generalize m0 * d = X at h0 ⊢
    omega

/-! ## A closed form of `rneRat` in units of the smallest subnormal -/

/-- exponent of the smallest normal, as `rneRat` computes it -/
def eminOf (B : BinFmt) : Int := 1 - (2 ^ (B.ebits - 1) - 1)

/-- the binade `rneRat` rounds in: 0 for the subnormal and the first normal binade (`e2 ≤ emin`), else `e2 − emin` -/
def fldOf (B : BinFmt) (n d : Nat) : Nat := (max (e2Of n d) (eminOf B) - eminOf B).toNat

theorem eminOf_eq (B : BinFmt) :
    eminOf B = 2 - ((2 ^ (B.ebits - 1) : Nat) : Int) := by
  unfold eminOf; push_cast; omega

/-- `rneRat` rounds `num·2^shift / (den·2^fld)` to an integer `m` and answers `fld·2^(prec−1) + m` -/
theorem rneRat_closed (B : BinFmt) (hp : 1 ≤ B.prec) (hb : 2 ≤ B.ebits) (n d : Nat) :
    rneRat B n d =
      if fldOf B n d * 2 ^ (B.prec - 1) + rnd (n * 2 ^ shiftOf B) (d * 2 ^ fldOf B n d) ≥ B.infBits then none
      else some (fldOf B n d * 2 ^ (B.prec - 1) + rnd (n * 2 ^ shiftOf B) (d * 2 ^ fldOf B n d)) := by
  have ht := two_le_half B hb
  rw [rneRat_eq]
  unfold rneFrom
  simp only
  have hem : (1 : Int) - (2 ^ (B.ebits - 1) - 1) = eminOf B := rfl
  rw [hem]
  have he := eminOf_eq B
  unfold fldOf
  generalize e2Of n d = e2
  unfold shiftOf
  generalize 2 ^ (B.ebits - 1) = t at ht he
  generalize eminOf B = emin at he ⊢
  obtain ⟨E, hE⟩ : ∃ E : Int, E = max e2 emin := ⟨_, rfl⟩
  rw [← hE]
  have hE1 : emin ≤ E := by omega
  by_cases hq : E - ((B.prec : Int) - 1) ≥ 0
  · rw [if_pos hq, rneStep_eq]
    have h1 : (E - ((B.prec : Int) - 1) + ((B.prec : Int) - 1) - emin).toNat = (E - emin).toNat := by omega
    have h2 : (E - emin).toNat = (E - ((B.prec : Int) - 1)).toNat + (t - 2 + (B.prec - 1)) := by omega
    rw [h1]
    have h3 : rnd n (d * 2 ^ (E - ((B.prec : Int) - 1)).toNat) =
        rnd (n * 2 ^ (t - 2 + (B.prec - 1))) (d * 2 ^ (E - emin).toNat) := by
      have e : d * 2 ^ (E - emin).toNat =
          d * 2 ^ (E - ((B.prec : Int) - 1)).toNat * 2 ^ (t - 2 + (B.prec - 1)) := by
        rw [h2, Nat.pow_add, Nat.mul_assoc]
      rw [e]
      exact (rnd_scale _ _ _ (Nat.two_pow_pos _)).symm
    rw [h3]
  · rw [if_neg hq, rneStep_eq]
    have h1 : (E - ((B.prec : Int) - 1) + ((B.prec : Int) - 1) - emin).toNat = (E - emin).toNat := by omega
    have h2 : t - 2 + (B.prec - 1) = (-(E - ((B.prec : Int) - 1))).toNat + (E - emin).toNat := by omega
    rw [h1]
    have h3 : rnd (n * 2 ^ (-(E - ((B.prec : Int) - 1))).toNat) d =
        rnd (n * 2 ^ (t - 2 + (B.prec - 1))) (d * 2 ^ (E - emin).toNat) := by
      have e : n * 2 ^ (t - 2 + (B.prec - 1)) =
          n * 2 ^ (-(E - ((B.prec : Int) - 1))).toNat * 2 ^ (E - emin).toNat := by
        rw [h2, Nat.pow_add, Nat.mul_assoc]
      rw [e]
      exact (rnd_scale _ _ _ (Nat.two_pow_pos _)).symm
    rw [h3]

/-- where `num·2^shift / (den·2^fld)` lies: below `W = 2^(prec−1)` in the subnormal binade, in `[W, 2W)` otherwise -/
theorem binade (B : BinFmt) (hb : 2 ≤ B.ebits) (n d : Nat) (hn : 0 < n) (hd : 0 < d) :
    (fldOf B n d = 0 ∧ n * 2 ^ shiftOf B < 2 ^ (B.prec - 1) * (d * 2 ^ fldOf B n d)) ∨
    (2 ^ (B.prec - 1) * (d * 2 ^ fldOf B n d) ≤ n * 2 ^ shiftOf B ∧
      n * 2 ^ shiftOf B < 2 * 2 ^ (B.prec - 1) * (d * 2 ^ fldOf B n d)) := by
  have ht := two_le_half B hb
  obtain ⟨h1, h2⟩ := e2Of_spec n d hn hd
  have he := eminOf_eq B
  unfold fldOf shiftOf
  generalize e2Of n d = e2 at h1 h2 ⊢
  generalize 2 ^ (B.ebits - 1) = t at ht he ⊢
  generalize eminOf B = emin at he ⊢
  by_cases hlt : e2 < emin
  · left
    have h0 : (max e2 emin - emin).toNat = 0 := by omega
    rw [h0]
    refine ⟨rfl, ?_⟩
    have h3 := ltPow_mono h2 (show e2 + 1 ≤ emin by omega)
    rw [ltPow_iff (t - 2 + (B.prec - 1)) (B.prec - 1) (by omega)] at h3
    rw [Nat.pow_zero, Nat.mul_one, Nat.mul_comm (2 ^ (B.prec - 1))]
    exact h3
  · right
    obtain ⟨f, hf⟩ : ∃ f : Nat, (f : Int) = e2 - emin := ⟨(e2 - emin).toNat, by omega⟩
    have h0 : (max e2 emin - emin).toNat = f := by omega
    rw [h0]
    rw [ltPow_iff (t - 2 + (B.prec - 1)) (f + (B.prec - 1)) (by omega)] at h1
    rw [ltPow_iff (t - 2 + (B.prec - 1)) (f + (B.prec - 1) + 1) (by omega)] at h2
    have e1 : 2 ^ (f + (B.prec - 1)) = 2 ^ f * 2 ^ (B.prec - 1) := Nat.pow_add _ _ _
    have e2' : 2 ^ (f + (B.prec - 1) + 1) = 2 ^ f * 2 ^ (B.prec - 1) * 2 := by rw [Nat.pow_succ, e1]
    rw [e1] at h1
    rw [e2'] at h2
    constructor
    · have : 2 ^ (B.prec - 1) * (d * 2 ^ f) = d * (2 ^ f * 2 ^ (B.prec - 1)) := by ring
      rw [this]; omega
    · have : 2 * 2 ^ (B.prec - 1) * (d * 2 ^ f) = d * (2 ^ f * 2 ^ (B.prec - 1) * 2) := by ring
      rw [this]; exact h2

/-- the integer `rneRat` rounds to -/
def mOf (B : BinFmt) (n d : Nat) : Nat := rnd (n * 2 ^ shiftOf B) (d * 2 ^ fldOf B n d)

/-- the pattern `rneRat` assembles, before the overflow test -/
def bitsOf (B : BinFmt) (n d : Nat) : Nat := fldOf B n d * 2 ^ (B.prec - 1) + mOf B n d

theorem rneRat_bitsOf (B : BinFmt) (hp : 1 ≤ B.prec) (hb : 2 ≤ B.ebits) (n d : Nat) :
    rneRat B n d = if bitsOf B n d ≥ B.infBits then none else some (bitsOf B n d) :=
  rneRat_closed B hp hb n d

theorem rneRat_some_iff (B : BinFmt) (hp : 1 ≤ B.prec) (hb : 2 ≤ B.ebits) (n d bits : Nat) :
    rneRat B n d = some bits ↔ bitsOf B n d = bits ∧ bits < B.infBits := by
  rw [rneRat_bitsOf B hp hb]
  by_cases h : bitsOf B n d ≥ B.infBits
  · rw [if_pos h]
    constructor
    · intro h'; cases h'
    · rintro ⟨rfl, h2⟩; omega
  · rw [if_neg h]
    constructor
    · intro h'; injection h' with h'; exact ⟨h', by omega⟩
    · rintro ⟨rfl, _⟩; rfl

theorem rneRat_none_iff (B : BinFmt) (hp : 1 ≤ B.prec) (hb : 2 ≤ B.ebits) (n d : Nat) :
    rneRat B n d = none ↔ B.infBits ≤ bitsOf B n d := by
  rw [rneRat_bitsOf B hp hb]
  by_cases h : bitsOf B n d ≥ B.infBits
  · rw [if_pos h]; exact ⟨fun _ => h, fun _ => rfl⟩
  · rw [if_neg h]; exact ⟨fun h' => (by cases h'), fun h' => absurd h' h⟩

/-- everything the correctness proofs need to know about `(fldOf, mOf)`; `u = 2^fld` is the quantum of the binade in
    units of the smallest subnormal, `N/D = num·2^shift/den` the exact value in the same units -/
theorem core (B : BinFmt) (hb : 2 ≤ B.ebits) (n d : Nat) (hn : 0 < n) (hd : 0 < d) :
    ((fldOf B n d = 0 ∧ mOf B n d ≤ 2 ^ (B.prec - 1) ∧ n * 2 ^ shiftOf B < 2 ^ (B.prec - 1) * d) ∨
      (2 ^ (B.prec - 1) ≤ mOf B n d ∧ mOf B n d ≤ 2 * 2 ^ (B.prec - 1) ∧
        2 ^ (B.prec - 1) * 2 ^ fldOf B n d * d ≤ n * 2 ^ shiftOf B ∧
        n * 2 ^ shiftOf B < 2 * 2 ^ (B.prec - 1) * 2 ^ fldOf B n d * d)) ∧
    2 * (mOf B n d * 2 ^ fldOf B n d * d) ≤ 2 * (n * 2 ^ shiftOf B) + 2 ^ fldOf B n d * d ∧
    2 * (n * 2 ^ shiftOf B) ≤ 2 * (mOf B n d * 2 ^ fldOf B n d * d) + 2 ^ fldOf B n d * d ∧
    (2 * (mOf B n d * 2 ^ fldOf B n d * d) = 2 * (n * 2 ^ shiftOf B) + 2 ^ fldOf B n d * d → mOf B n d % 2 = 0) ∧
    (2 * (n * 2 ^ shiftOf B) = 2 * (mOf B n d * 2 ^ fldOf B n d * d) + 2 ^ fldOf B n d * d → mOf B n d % 2 = 0) := by
  have hbin := binade B hb n d hn hd
  have hbin0 : fldOf B n d = 0 → 2 ^ (B.prec - 1) * (d * 2 ^ fldOf B n d) = 2 ^ (B.prec - 1) * d := fun h => by
    rw [h, Nat.pow_zero, Nat.mul_one]
  have hDd : 0 < d * 2 ^ fldOf B n d := Nat.mul_pos hd (Nat.two_pow_pos _)
  have hs := rnd_spec (n * 2 ^ shiftOf B) (d * 2 ^ fldOf B n d) hDd
  unfold mOf
  generalize n * 2 ^ shiftOf B = N at hbin hs ⊢
  generalize hu : 2 ^ fldOf B n d = u at hbin hbin0 hs hDd ⊢
  have e1 : ∀ x : Nat, x * u * d = x * (d * u) := fun x => by ring
  have e2 : u * d = d * u := Nat.mul_comm _ _
  rw [e1, e1, e1, e2]
  generalize d * u = Dd at hbin hbin0 hs hDd ⊢
  obtain ⟨s1, s2, s3, s4, s5, s6⟩ := hs
  refine ⟨?_, s1, s2, s3, s4⟩
  rcases hbin with ⟨h0, h1⟩ | ⟨h1, h2⟩
  · left
    have : N / Dd < 2 ^ (B.prec - 1) := Nat.div_lt_of_lt_mul (by rw [Nat.mul_comm]; exact h1)
    refine ⟨h0, by omega, ?_⟩
    rw [← hbin0 h0]; exact h1
  · right
    have h3 : 2 ^ (B.prec - 1) ≤ N / Dd := (Nat.le_div_iff_mul_le hDd).mpr h1
    have h4 : N / Dd < 2 * 2 ^ (B.prec - 1) := Nat.div_lt_of_lt_mul (by rw [Nat.mul_comm]; exact h2)
    exact ⟨by omega, by omega, h1, h2⟩

/-! ## Distances: pure arithmetic -/

theorem near_up (N D u V V' : Nat) (h1 : 2 * (V * D) ≤ 2 * N + u * D) (h2 : 2 * N ≤ 2 * (V * D) + u * D)
    (hv : V + u ≤ V') :
    Int.natAbs ((N : Int) - ((V * D : Nat) : Int)) ≤ Int.natAbs ((N : Int) - ((V' * D : Nat) : Int)) ∧
    (Int.natAbs ((N : Int) - ((V' * D : Nat) : Int)) = Int.natAbs ((N : Int) - ((V * D : Nat) : Int)) →
      2 * N = 2 * (V * D) + u * D) := by
  have := Nat.mul_le_mul_right D hv
  rw [Nat.add_mul] at this
  generalize V * D = X at *
  generalize V' * D = Y at *
  generalize u * D = Z at *
  omega

theorem near_down (N D u V V' : Nat) (h1 : 2 * (V * D) ≤ 2 * N + u * D) (h2 : 2 * N ≤ 2 * (V * D) + u * D)
    (hv : V' + u ≤ V) :
    Int.natAbs ((N : Int) - ((V * D : Nat) : Int)) ≤ Int.natAbs ((N : Int) - ((V' * D : Nat) : Int)) ∧
    (Int.natAbs ((N : Int) - ((V' * D : Nat) : Int)) = Int.natAbs ((N : Int) - ((V * D : Nat) : Int)) →
      2 * (V * D) = 2 * N + u * D) := by
  have := Nat.mul_le_mul_right D hv
  rw [Nat.add_mul] at this
  generalize V * D = X at *
  generalize V' * D = Y at *
  generalize u * D = Z at *
  omega

theorem near_down' (N D V V' : Nat) (hD : 0 < D) (h1 : V * D ≤ N) (hv : V' < V) :
    Int.natAbs ((N : Int) - ((V * D : Nat) : Int)) < Int.natAbs ((N : Int) - ((V' * D : Nat) : Int)) := by
  have := Nat.mul_lt_mul_of_pos_right hv hD
  generalize V * D = X at *
  generalize V' * D = Y at *
  omega

/-! ## The answer and its neighbours -/

theorem val_bitsOf (B : BinFmt) (hb : 2 ≤ B.ebits) (n d : Nat) (hn : 0 < n) (hd : 0 < d) :
    valN B (bitsOf B n d) = mOf B n d * 2 ^ fldOf B n d := by
  obtain ⟨hsh, -⟩ := core B hb n d hn hd
  unfold bitsOf
  apply valN_assemble
  rcases hsh with ⟨h0, h1, -⟩ | ⟨h1, h2, -⟩
  · exact Or.inl ⟨h0, h1⟩
  · exact Or.inr ⟨h1, h2⟩

/-- every pattern above the answer is at least one quantum (of the binade rounded in) above it -/
theorem up_neighbour (B : BinFmt) (hb : 2 ≤ B.ebits) (n d : Nat) (hn : 0 < n) (hd : 0 < d) (b' : Nat)
    (h : bitsOf B n d < b') : mOf B n d * 2 ^ fldOf B n d + 2 ^ fldOf B n d ≤ valN B b' := by
  have h1 : valN B (bitsOf B n d + 1) ≤ valN B b' := val_mono B h
  rw [valN_succ, val_bitsOf B hb n d hn hd] at h1
  have h2 : fldOf B n d ≤ fieldOf B (bitsOf B n d) - 1 := by
    obtain ⟨hsh, -⟩ := core B hb n d hn hd
    rcases hsh with ⟨h0, -⟩ | ⟨h3, -⟩
    · omega
    · have : fldOf B n d + 1 ≤ fieldOf B (bitsOf B n d) := by
        unfold fieldOf bitsOf
        rw [Nat.le_div_iff_mul_le (W_pos B), Nat.add_mul]
        omega
      omega
  have h3 : 2 ^ fldOf B n d ≤ 2 ^ (fieldOf B (bitsOf B n d) - 1) := Nat.pow_le_pow_right (by decide) h2
  omega

/-- every pattern below the answer is at least one quantum below it, except when the answer is the bottom of a normal
    binade (`m = W`): then the quantum below is half as large, but the exact value is not below the answer -/
theorem down_neighbour (B : BinFmt) (hb : 2 ≤ B.ebits) (n d : Nat) (hn : 0 < n) (hd : 0 < d) (b' : Nat)
    (h : b' < bitsOf B n d) :
    valN B b' + 2 ^ fldOf B n d ≤ mOf B n d * 2 ^ fldOf B n d ∨
    (valN B b' < mOf B n d * 2 ^ fldOf B n d ∧ mOf B n d * 2 ^ fldOf B n d * d ≤ n * 2 ^ shiftOf B) := by
  obtain ⟨hsh, -⟩ := core B hb n d hn hd
  have hW := W_pos B
  have key : (fldOf B n d = 0 ∧ mOf B n d - 1 ≤ 2 ^ (B.prec - 1)) ∨
      (2 ^ (B.prec - 1) ≤ mOf B n d - 1 ∧ mOf B n d - 1 ≤ 2 * 2 ^ (B.prec - 1)) →
      1 ≤ mOf B n d → valN B b' + 2 ^ fldOf B n d ≤ mOf B n d * 2 ^ fldOf B n d := by
    intro hk h1
    have h2 : valN B b' ≤ valN B (fldOf B n d * 2 ^ (B.prec - 1) + (mOf B n d - 1)) :=
      val_mono B (by unfold bitsOf at h; omega)
    rw [valN_assemble B _ _ hk, Nat.sub_mul, Nat.one_mul] at h2
    have h3 : 1 * 2 ^ fldOf B n d ≤ mOf B n d * 2 ^ fldOf B n d := Nat.mul_le_mul_right _ h1
    omega
  rcases hsh with ⟨h0, h1, -⟩ | ⟨h1, h2, h3, -⟩
  · left
    refine key (Or.inl ⟨h0, by omega⟩) ?_
    unfold bitsOf at h
    rw [h0] at h
    omega
  · by_cases hm : mOf B n d = 2 ^ (B.prec - 1)
    · right
      refine ⟨?_, ?_⟩
      · rw [← val_bitsOf B hb n d hn hd]; exact val_strictMono B h
      · rw [hm]; exact h3
    · left
      exact key (Or.inr ⟨by omega, by omega⟩) (by omega)

/-! ## Main theorems -/

/-- 1. a `some` answer is a finite pattern -/
theorem rneRat_finite (B : BinFmt) (num den bits : Nat) (h : rneRat B num den = some bits) : bits < B.infBits :=
  rneRat_lt B num den bits h

/-- 2 and 3 together, against every pattern `b'` (finite or not, with the value formula of §3.4 extended): the answer
    is at least as near, and (for `prec ≥ 2`) another pattern can be equally near only if the answer is even -/
theorem rneRat_nearest_all (B : BinFmt) (hp : 1 ≤ B.prec) (hb : 2 ≤ B.ebits) (num den : Nat) (hn : 0 < num)
    (hd : 0 < den) (bits : Nat) (h : rneRat B num den = some bits) (b' : Nat) :
    err B num den bits ≤ err B num den b' ∧
    (2 ≤ B.prec → b' ≠ bits → err B num den b' = err B num den bits → bits % 2 = 0) := by
  obtain ⟨hbits, -⟩ := (rneRat_some_iff B hp hb num den bits).mp h
  subst hbits
  obtain ⟨-, c1, c2, c3, c4⟩ := core B hb num den hn hd
  have heven : 2 ≤ B.prec → mOf B num den % 2 = 0 → bitsOf B num den % 2 = 0 := by
    intro hp2 hm
    unfold bitsOf
    have : 2 ^ (B.prec - 1) = 2 * 2 ^ (B.prec - 1 - 1) := two_pow_pred _ (by omega)
    rw [this, Nat.mul_left_comm]
    omega
  rw [err_eq B hb, err_eq B hb, val_bitsOf B hb num den hn hd]
  rcases Nat.lt_trichotomy b' (bitsOf B num den) with hlt | heq | hgt
  · rcases down_neighbour B hb num den hn hd b' hlt with hv | ⟨hv, hle⟩
    · obtain ⟨r1, r2⟩ := near_down _ den _ _ (valN B b') c1 c2 hv
      exact ⟨r1, fun hp2 _ he => heven hp2 (c3 (r2 he))⟩
    · have r1 := near_down' _ den _ (valN B b') hd hle hv
      exact ⟨Nat.le_of_lt r1, fun _ _ he => by omega⟩
  · subst heq
    rw [val_bitsOf B hb num den hn hd]
    exact ⟨Nat.le_refl _, fun _ hne => absurd rfl hne⟩
  · have hv := up_neighbour B hb num den hn hd b' hgt
    obtain ⟨r1, r2⟩ := near_up _ den _ _ (valN B b') c1 c2 hv
    exact ⟨r1, fun hp2 _ he => heven hp2 (c4 (r2 he))⟩

/-- 2. the answer is a nearest finite pattern: `|num/den − value bits| ≤ |num/den − value b'|` (needs `prec ≥ 1` only) -/
theorem rneRat_nearest (B : BinFmt) (hp : 1 ≤ B.prec) (hb : 2 ≤ B.ebits) (num den : Nat) (hn : 0 < num)
    (hd : 0 < den) (bits : Nat) (h : rneRat B num den = some bits) (b' : Nat) (_hb' : b' < B.infBits) :
    err B num den bits ≤ err B num den b' :=
  (rneRat_nearest_all B hp hb num den hn hd bits h b').1

/-- 3. ties go to even: if another finite pattern is equally near, the answer has its last bit clear (needs `prec ≥ 2`:
    with `prec = 1` there is no trailing significand bit, see the counterexample below) -/
theorem rneRat_tie_even (B : BinFmt) (hp : 2 ≤ B.prec) (hb : 2 ≤ B.ebits) (num den : Nat) (hn : 0 < num)
    (hd : 0 < den) (bits : Nat) (h : rneRat B num den = some bits) (b' : Nat) (_hb' : b' < B.infBits)
    (hne : b' ≠ bits) (he : err B num den b' = err B num den bits) : bits % 2 = 0 :=
  (rneRat_nearest_all B (by omega) hb num den hn hd bits h b').2 hp hne he

/-- `prec = 1` (no trailing significand field): `3 = (2 + 4)/2` rounds to the pattern 5 (value 4, significand `1·2^2`,
    "even" in the sense of the rounding step) although pattern 4 (value 2) is equally near: the parity of the *pattern*
    is then the parity of the exponent field, so statement 3 needs `2 ≤ prec` -/
example : rneRat ⟨1, 3⟩ 3 1 = some 5 ∧ (4 : Nat) < BinFmt.infBits ⟨1, 3⟩ ∧
    err ⟨1, 3⟩ 3 1 4 = err ⟨1, 3⟩ 3 1 5 ∧ 5 % 2 ≠ 0 := by decide +kernel

/-- instance of 2: `1/3` rounds to `0x3eaaaaab` in binary32, nearer than every other finite pattern -/
example : ∀ b' < binary32.infBits, err binary32 1 3 0x3eaaaaab ≤ err binary32 1 3 b' :=
  fun b' h => rneRat_nearest binary32 (by decide) (by decide) 1 3 (by decide) (by decide) _ (by decide +kernel) b' h

/-- instance of 3: `2^24 + 1` is half-way between `0x4b800000` (`2^24`) and `0x4b800001` (`2^24 + 2`); the answer is the
    even one -/
example : rneRat binary32 (2 ^ 24 + 1) 1 = some 0x4b800000 ∧
    err binary32 (2 ^ 24 + 1) 1 0x4b800001 = err binary32 (2 ^ 24 + 1) 1 0x4b800000 := by
  rw [err_eq _ (by decide), err_eq _ (by decide)]; decide +kernel
example : 0x4b800000 % 2 = 0 :=
  rneRat_tie_even binary32 (by decide) (by decide) (2 ^ 24 + 1) 1 (by decide) (by decide) 0x4b800000
    (by decide +kernel) 0x4b800001 (by decide) (by decide)
    (by rw [err_eq _ (by decide), err_eq _ (by decide)]; decide +kernel)

/-! ## Overflow -/

/-- in the top binade the rounding reaches `2W` exactly from `2W − 1/2` on (the midpoint included: `2W − 1` is odd) -/
theorem crit (W m X N : Nat) (hX : 0 < X) (c1 : 2 * (m * X) ≤ 2 * N + X) (c2 : 2 * N ≤ 2 * (m * X) + X)
    (c4 : 2 * N = 2 * (m * X) + X → m % 2 = 0) : 2 * W ≤ m ↔ 4 * W * X ≤ 2 * N + X := by
  constructor
  · intro h
    have := Nat.mul_le_mul_right X h
    have e : 4 * W * X = 2 * (2 * W * X) := by ring
    rw [e]
    omega
  · intro h
    apply Nat.le_of_not_lt
    intro hlt
    have h1 := Nat.mul_le_mul_right X (show m + 1 ≤ 2 * W by omega)
    have e : 4 * W * X = 2 * (2 * W * X) := by ring
    rw [e] at h
    rw [Nat.add_mul, Nat.one_mul] at h1
    have h2 : 2 * N = 2 * (m * X) + X := by omega
    have h3 : m * X + X = 2 * W * X := by omega
    have h4 : (m + 1) * X = 2 * W * X := by rw [Nat.add_mul, Nat.one_mul]; exact h3
    have h5 : m + 1 = 2 * W := Nat.eq_of_mul_eq_mul_right hX h4
    have := c4 h2
    omega

theorem infBits_eq (B : BinFmt) (hb : 2 ≤ B.ebits) :
    B.infBits = (2 * 2 ^ (B.ebits - 1) - 1) * 2 ^ (B.prec - 1) := by
  unfold BinFmt.infBits
  rw [two_pow_pred B.ebits (by omega)]

/-- overflow in units of the smallest subnormal: `K·d` is half a quantum of the top binade times `den` -/
theorem overflow_units (B : BinFmt) (hb : 2 ≤ B.ebits) (n d : Nat) (hn : 0 < n) (hd : 0 < d) :
    B.infBits ≤ bitsOf B n d ↔
      4 * 2 ^ (B.prec - 1) * (2 ^ (2 * 2 ^ (B.ebits - 1) - 3) * d) ≤
        2 * (n * 2 ^ shiftOf B) + 2 ^ (2 * 2 ^ (B.ebits - 1) - 3) * d := by
  have ht := two_le_half B hb
  have hW := W_pos B
  obtain ⟨-, c1, c2, -, c4⟩ := core B hb n d hn hd
  obtain ⟨hsh, -⟩ := core B hb n d hn hd
  rw [infBits_eq B hb]
  unfold bitsOf
  generalize 2 ^ (B.ebits - 1) = t at *
  have hK : 2 ≤ 2 ^ (2 * t - 3) :=
    calc 2 = 2 ^ 1 := rfl
      _ ≤ 2 ^ (2 * t - 3) := Nat.pow_le_pow_right (by decide) (by omega)
  have hu1 : 2 * t - 2 ≤ fldOf B n d → 2 * 2 ^ (2 * t - 3) ≤ 2 ^ fldOf B n d := fun h => by
    have : 2 * 2 ^ (2 * t - 3) = 2 ^ (2 * t - 3 + 1) := by rw [Nat.pow_succ, Nat.mul_comm]
    rw [this]; exact Nat.pow_le_pow_right (by decide) (by omega)
  have hu2 : fldOf B n d + 1 ≤ 2 * t - 3 → 2 * 2 ^ fldOf B n d ≤ 2 ^ (2 * t - 3) := fun h => by
    have : 2 * 2 ^ fldOf B n d = 2 ^ (fldOf B n d + 1) := by rw [Nat.pow_succ, Nat.mul_comm]
    rw [this]; exact Nat.pow_le_pow_right (by decide) h
  have hu3 : fldOf B n d = 2 * t - 3 → 2 ^ fldOf B n d = 2 ^ (2 * t - 3) := fun h => by rw [h]
  generalize n * 2 ^ shiftOf B = N at *
  generalize mOf B n d = m at *
  generalize 2 ^ (2 * t - 3) = K at *
  generalize 2 ^ (B.prec - 1) = W at *
  generalize hfu : 2 ^ fldOf B n d = u at *
  generalize fldOf B n d = fld at *
  rcases hsh with ⟨h0, h1, hb1⟩ | ⟨h1, h2, h3, h4⟩
  · -- subnormal binade: never overflows, and the value is below the threshold
    subst h0
    rw [Nat.zero_mul, Nat.zero_add]
    have e1 : (2 * t - 1) * W ≥ 3 * W := Nat.mul_le_mul_right W (by omega)
    constructor
    · intro h; omega
    · intro h
      exfalso
      have f1 : 2 * d ≤ K * d := Nat.mul_le_mul_right d hK
      have f2 : W * (2 * d) ≤ W * (K * d) := Nat.mul_le_mul_left W f1
      have f3 : 1 * (K * d) ≤ W * (K * d) := Nat.mul_le_mul_right _ hW
      have f4 : 4 * W * (K * d) = 4 * (W * (K * d)) := by ring
      have f5 : W * (2 * d) = 2 * (W * d) := by ring
      rw [f4] at h
      rw [f5] at f2
      omega
  · rcases Nat.lt_trichotomy fld (2 * t - 3) with hlt | heq | hgt
    · have hu := hu2 (by omega)
      have e1 : fld * W + 2 * W ≤ (2 * t - 2) * W := by
        have := Nat.mul_le_mul_right W (show fld + 2 ≤ 2 * t - 2 by omega)
        rw [Nat.add_mul] at this; exact this
      have e2 : (2 * t - 1) * W = (2 * t - 2) * W + W := by
        have : 2 * t - 1 = (2 * t - 2) + 1 := by omega
        rw [this, Nat.add_mul, Nat.one_mul]
      constructor
      · intro h; omega
      · intro h
        exfalso
        have hWd : 0 < W * d := Nat.mul_pos hW hd
        nlinarith [Nat.mul_le_mul_right (W * d) hu]
    · have hu := hu3 heq
      subst hu
      subst heq
      have e2 : (2 * t - 1) * W = (2 * t - 3) * W + 2 * W := by
        have : 2 * t - 1 = (2 * t - 3) + 2 := by omega
        rw [this, Nat.add_mul]
      rw [e2, Nat.add_le_add_iff_left]
      have e3 : m * u * d = m * (u * d) := Nat.mul_assoc _ _ _
      rw [e3] at c1 c2 c4
      exact crit W m (u * d) N (Nat.mul_pos (by omega) hd) c1 c2 c4
    · have hu := hu1 (by omega)
      have e1 : (2 * t - 1) * W ≤ fld * W + W := by
        have := Nat.mul_le_mul_right W (show 2 * t - 1 ≤ fld + 1 by omega)
        rw [Nat.add_mul, Nat.one_mul] at this; exact this
      constructor
      · intro _
        have hWd : 0 < W * d := Nat.mul_pos hW hd
        nlinarith [Nat.mul_le_mul_right (W * d) hu]
      · intro _; omega

/-- 4. overflow exactly from half a quantum above the largest finite number on:
    `rneRat = none ↔ num/den ≥ (2^prec − 1/2)·2^(emax − prec + 1) = (2^(prec+1) − 1)·2^(emax − prec)`,
    `emax = 2^(ebits−1) − 1`, cross-multiplied -/
theorem rneRat_overflow (B : BinFmt) (hp : 1 ≤ B.prec) (hb : 2 ≤ B.ebits) (num den : Nat) (hn : 0 < num)
    (hd : 0 < den) :
    rneRat B num den = none ↔
      den * ((2 ^ (B.prec + 1) - 1) * 2 ^ (2 ^ (B.ebits - 1) - 1)) ≤ num * 2 ^ B.prec := by
  rw [rneRat_none_iff B hp hb, overflow_units B hb num den hn hd]
  have ht := two_le_half B hb
  unfold shiftOf
  have e1 : 2 ^ (B.prec + 1) = 4 * 2 ^ (B.prec - 1) := by
    have : B.prec + 1 = (B.prec - 1) + 2 := by omega
    rw [this, Nat.pow_add]; ring
  have e2 : 2 ^ B.prec = 2 * 2 ^ (B.prec - 1) := two_pow_pred _ hp
  rw [e1, e2]
  generalize 2 ^ (B.ebits - 1) = t at ht ⊢
  have e3 : 2 ^ (2 * t - 3) = 2 * 2 ^ (t - 2) * 2 ^ (t - 2) := by
    have : 2 * t - 3 = 1 + (t - 2) + (t - 2) := by omega
    rw [this, Nat.pow_add, Nat.pow_add]
  have e4 : 2 ^ (t - 1) = 2 * 2 ^ (t - 2) := by
    have : t - 1 = 1 + (t - 2) := by omega
    rw [this, Nat.pow_add]
  have e5 : 2 ^ (t - 2 + (B.prec - 1)) = 2 ^ (t - 2) * 2 ^ (B.prec - 1) := Nat.pow_add _ _ _
  rw [e3, e4, e5]
  have hJ : 0 < 2 ^ (t - 2) := Nat.two_pow_pos _
  have hW := W_pos B
  generalize 2 ^ (t - 2) = J at hJ ⊢
  generalize 2 ^ (B.prec - 1) = W at hW ⊢
  obtain ⟨c, hc⟩ : ∃ c, 4 * W = c + 1 := ⟨4 * W - 1, by omega⟩
  rw [hc, Nat.add_sub_cancel]
  have f1 : (c + 1) * (2 * J * J * den) = den * (c * (2 * J)) * J + 2 * J * J * den := by ring
  have f2 : 2 * (num * (J * W)) = num * (2 * W) * J := by ring
  rw [f1, f2, Nat.add_le_add_iff_right, Nat.mul_le_mul_right_iff hJ]

/-- instance of 4 (binary32): `(2^25 − 1)·2^103 = f32::MAX + ulp/2` overflows, anything below rounds to `f32::MAX` -/
example : rneRat binary32 ((2 ^ 25 - 1) * 2 ^ 103) 1 = none ∧
    rneRat binary32 ((2 ^ 25 - 1) * 2 ^ 103 - 1) 1 = some 0x7f7fffff ∧
    rneRat binary32 ((2 ^ 25 - 1) * 2 ^ 104 - 1) 2 = some 0x7f7fffff := by decide +kernel
example : rneRat binary32 ((2 ^ 25 - 1) * 2 ^ 103) 1 = none :=
  (rneRat_overflow binary32 (by decide) (by decide) _ 1 (by decide) (by decide)).mpr (by decide +kernel)

/-! ## Monotonicity -/

/-- order on answers: `none` (overflow to infinity) is the top element -/
def optLe : Option Nat → Option Nat → Prop
  | _, none => True
  | none, some _ => False
  | some x, some y => x ≤ y

/-- two different nearest patterns on either side: pure arithmetic used by `rneRat_monotone` -/
theorem mid_arith (A C b d X Y X' Y' : Nat) (hb : 0 < b) (hd : 0 < d) (hXY : Y < X)
    (k3 : (X + Y) * d = (X' + Y') * b) (hAC : A * d ≤ C * b)
    (n1 : Int.natAbs ((A : Int) - (X : Int)) ≤ Int.natAbs ((A : Int) - (Y : Int)))
    (n2 : Int.natAbs ((C : Int) - (Y' : Int)) ≤ Int.natAbs ((C : Int) - (X' : Int)))
    (hXY' : Y' < X') : 2 * A = X + Y ∧ 2 * C = X' + Y' := by
  have hA : X + Y ≤ 2 * A := by omega
  have hC : 2 * C ≤ X' + Y' := by omega
  have k1 := Nat.mul_le_mul_right d hA
  have k2 := Nat.mul_le_mul_right b hC
  have k4 : 2 * A * d = 2 * (A * d) := by ring
  have k5 : 2 * C * b = 2 * (C * b) := by ring
  have k6 : (X + Y) * d = 2 * A * d := by omega
  have k7 : 2 * C * b = (X' + Y') * b := by omega
  exact ⟨(Nat.eq_of_mul_eq_mul_right hd k6).symm, Nat.eq_of_mul_eq_mul_right hb k7⟩

/-- 5. the rounding is monotone: `a/b ≤ c/d` implies pattern of `a/b` ≤ pattern of `c/d` (overflow = top) -/
theorem rneRat_monotone (B : BinFmt) (hp : 2 ≤ B.prec) (hb : 2 ≤ B.ebits) (a b c d : Nat) (ha : 0 < a) (hb0 : 0 < b)
    (hc : 0 < c) (hd : 0 < d) (h : a * d ≤ c * b) : optLe (rneRat B a b) (rneRat B c d) := by
  cases hy : rneRat B c d with
  | none => cases rneRat B a b <;> trivial
  | some y =>
    cases hx : rneRat B a b with
    | none =>
      exfalso
      rw [rneRat_overflow B (by omega) hb a b ha hb0] at hx
      have hy' : ¬ rneRat B c d = none := by rw [hy]; exact fun h => by cases h
      rw [rneRat_overflow B (by omega) hb c d hc hd] at hy'
      apply hy'
      generalize (2 ^ (B.prec + 1) - 1) * 2 ^ (2 ^ (B.ebits - 1) - 1) = T at hx ⊢
      have h1 := Nat.mul_le_mul_left d hx
      have h2 := Nat.mul_le_mul_right (2 ^ B.prec) h
      apply Nat.le_of_mul_le_mul_left _ hb0
      calc b * (d * T) = d * (b * T) := by ring
        _ ≤ d * (a * 2 ^ B.prec) := h1
        _ = a * d * 2 ^ B.prec := by ring
        _ ≤ c * b * 2 ^ B.prec := h2
        _ = b * (c * 2 ^ B.prec) := by ring
    | some x =>
      show x ≤ y
      apply Nat.le_of_not_lt
      intro hlt
      obtain ⟨n1, t1⟩ := rneRat_nearest_all B (by omega) hb a b ha hb0 x hx y
      obtain ⟨n2, t2⟩ := rneRat_nearest_all B (by omega) hb c d hc hd y hy x
      obtain ⟨n3, -⟩ := rneRat_nearest_all B (by omega) hb a b ha hb0 x hx (y + 1)
      have hv : valN B y < valN B x := val_strictMono B hlt
      have hv1 : valN B y < valN B (y + 1) := valN_lt_succ B y
      rw [err_eq B hb, err_eq B hb] at n1 t1 n2 t2 n3
      have hXY := Nat.mul_lt_mul_of_pos_right hv hb0
      have hXY' := Nat.mul_lt_mul_of_pos_right hv hd
      have hYZ := Nat.mul_lt_mul_of_pos_right hv1 hb0
      have hAC : a * 2 ^ shiftOf B * d ≤ c * 2 ^ shiftOf B * b := by
        have := Nat.mul_le_mul_right (2 ^ shiftOf B) h
        calc a * 2 ^ shiftOf B * d = a * d * 2 ^ shiftOf B := by ring
          _ ≤ c * b * 2 ^ shiftOf B := this
          _ = c * 2 ^ shiftOf B * b := by ring
      have k3 : (valN B x * b + valN B y * b) * d = (valN B x * d + valN B y * d) * b := by ring
      obtain ⟨m1, m2⟩ := mid_arith _ _ b d _ _ _ _ hb0 hd hXY k3 hAC n1 n2 hXY'
      have ex : x % 2 = 0 := t1 hp (by omega) (by omega)
      have ey : y % 2 = 0 := t2 hp (by omega) (by omega)
      have hZX : valN B (y + 1) * b < valN B x * b :=
        Nat.mul_lt_mul_of_pos_right (val_strictMono B (by omega)) hb0
      omega

/-- instance of 5: `1/3 ≤ 1/2 ≤ 2^128` in binary32 -/
example : optLe (rneRat binary32 1 3) (rneRat binary32 1 2) ∧ optLe (rneRat binary32 1 2) (rneRat binary32 (2 ^ 128) 1) :=
  ⟨rneRat_monotone binary32 (by decide) (by decide) 1 3 1 2 (by decide) (by decide) (by decide) (by decide) (by decide),
   rneRat_monotone binary32 (by decide) (by decide) 1 2 (2 ^ 128) 1 (by decide) (by decide) (by decide) (by decide)
     (by decide)⟩
example : rneRat binary32 1 3 = some 0x3eaaaaab ∧ rneRat binary32 1 2 = some 0x3f000000 ∧
    rneRat binary32 (2 ^ 128) 1 = none := by decide +kernel

/-! ## Decimals: `rneDec B c e` rounds `c·10^e` -/

/-- numerator of `c·10^e` -/
def decNum (c : Nat) (e : Int) : Nat := if e ≥ 0 then c * 10 ^ e.toNat else c
/-- denominator of `c·10^e` -/
def decDen (e : Int) : Nat := if e ≥ 0 then 1 else 10 ^ (-e).toNat

theorem rneDec_eq (B : BinFmt) (c : Nat) (e : Int) : rneDec B c e = rneRat B (decNum c e) (decDen e) := by
  unfold rneDec decNum decDen
  split <;> rfl

theorem decNum_pos (c : Nat) (e : Int) (hc : 0 < c) : 0 < decNum c e := by
  unfold decNum
  split
  · exact Nat.mul_pos hc (Nat.pow_pos (by decide))
  · exact hc

theorem decDen_pos (e : Int) : 0 < decDen e := by
  unfold decDen
  split
  · decide
  · exact Nat.pow_pos (by decide)

/-- `decNum c e / decDen e` is `c·10^e`: cross-multiplied, for either sign of `e` -/
theorem dec_value (c : Nat) (e : Int) : decNum c e * 10 ^ (-e).toNat = c * 10 ^ e.toNat * decDen e := by
  unfold decNum decDen
  by_cases h : e ≥ 0
  · have : (-e).toNat = 0 := by omega
    rw [if_pos h, if_pos h, this, Nat.pow_zero]
  · have : e.toNat = 0 := by omega
    rw [if_neg h, if_neg h, this]; simp

/-- 6. `rneDec B c e` is a finite pattern nearest to `c·10^e`, ties to even -/
theorem rneDec_nearest (B : BinFmt) (hp : 2 ≤ B.prec) (hb : 2 ≤ B.ebits) (c : Nat) (hc : 0 < c) (e : Int)
    (bits : Nat) (h : rneDec B c e = some bits) :
    bits < B.infBits ∧
    (∀ b', b' < B.infBits → err B (decNum c e) (decDen e) bits ≤ err B (decNum c e) (decDen e) b') ∧
    (∀ b', b' < B.infBits → b' ≠ bits →
      err B (decNum c e) (decDen e) b' = err B (decNum c e) (decDen e) bits → bits % 2 = 0) := by
  rw [rneDec_eq] at h
  exact ⟨rneRat_finite B _ _ _ h,
    fun b' hb' => rneRat_nearest B (by omega) hb _ _ (decNum_pos c e hc) (decDen_pos e) bits h b' hb',
    fun b' hb' => rneRat_tie_even B hp hb _ _ (decNum_pos c e hc) (decDen_pos e) bits h b' hb'⟩

/-- `rneDec B c e` overflows exactly when `c·10^e ≥ (2^prec − 1/2)·2^(emax − prec + 1)` -/
theorem rneDec_overflow (B : BinFmt) (hp : 1 ≤ B.prec) (hb : 2 ≤ B.ebits) (c : Nat) (hc : 0 < c) (e : Int) :
    rneDec B c e = none ↔
      decDen e * ((2 ^ (B.prec + 1) - 1) * 2 ^ (2 ^ (B.ebits - 1) - 1)) ≤ decNum c e * 2 ^ B.prec := by
  rw [rneDec_eq]
  exact rneRat_overflow B hp hb _ _ (decNum_pos c e hc) (decDen_pos e)

/-- `c·10^e ≤ c'·10^e'` (cross-multiplied) implies `rneDec B c e ≤ rneDec B c' e'` -/
theorem rneDec_monotone (B : BinFmt) (hp : 2 ≤ B.prec) (hb : 2 ≤ B.ebits) (c c' : Nat) (hc : 0 < c) (hc' : 0 < c')
    (e e' : Int) (h : decNum c e * decDen e' ≤ decNum c' e' * decDen e) :
    optLe (rneDec B c e) (rneDec B c' e') := by
  rw [rneDec_eq, rneDec_eq]
  exact rneRat_monotone B hp hb _ _ _ _ (decNum_pos c e hc) (decDen_pos e) (decNum_pos c' e' hc') (decDen_pos e') h

/-! ## The shortcuts of `Judge.rneDecSafe` -/

/-- values of at most half the smallest subnormal round to zero (the midpoint included: 0 is even) -/
theorem rneRat_zero (B : BinFmt) (hp : 1 ≤ B.prec) (hb : 2 ≤ B.ebits) (n d : Nat) (hn : 0 < n)
    (h : n * 2 ^ (shiftOf B + 1) ≤ d) : rneRat B n d = some 0 := by
  have hd : 0 < d := Nat.lt_of_lt_of_le (Nat.mul_pos hn (Nat.two_pow_pos _)) h
  rw [rneRat_some_iff B hp hb]
  refine ⟨?_, infBits_pos B (by omega)⟩
  obtain ⟨hsh, c1, -, c3, -⟩ := core B hb n d hn hd
  unfold bitsOf
  rw [Nat.pow_succ, ← Nat.mul_assoc] at h
  have hW := W_pos B
  have hu : 0 < 2 ^ fldOf B n d := Nat.two_pow_pos _
  generalize n * 2 ^ shiftOf B = N at *
  generalize mOf B n d = m at *
  generalize 2 ^ (B.prec - 1) = W at *
  rcases hsh with ⟨h0, -, -⟩ | ⟨-, -, h3, -⟩
  · rw [h0, Nat.pow_zero, Nat.mul_one, Nat.one_mul] at c1 c3
    rw [h0, Nat.zero_mul, Nat.zero_add]
    rcases Nat.lt_trichotomy m 1 with h1 | h1 | h1
    · omega
    · subst h1
      rw [Nat.one_mul] at c1 c3
      have := c3 (by omega)
      omega
    · exfalso
      have := Nat.mul_le_mul_right d (show 2 ≤ m by omega)
      omega
  · exfalso
    have := Nat.mul_le_mul_right d (Nat.mul_pos hW hu)
    omega

/-- values of at least `2^(emax+1)` overflow -/
theorem rneRat_huge (B : BinFmt) (hp : 1 ≤ B.prec) (hb : 2 ≤ B.ebits) (n d : Nat) (hn : 0 < n) (hd : 0 < d)
    (h : d * 2 ^ (2 ^ (B.ebits - 1)) ≤ n) : rneRat B n d = none := by
  rw [rneRat_overflow B hp hb n d hn hd]
  have ht := two_le_half B hb
  generalize 2 ^ (B.ebits - 1) = t at *
  have e1 : 2 ^ t = 2 * 2 ^ (t - 1) := two_pow_pred _ (by omega)
  have e2 : 2 ^ (B.prec + 1) = 2 * 2 ^ B.prec := by rw [Nat.pow_succ, Nat.mul_comm]
  rw [e1] at h
  have h1 : 2 ^ (B.prec + 1) - 1 ≤ 2 * 2 ^ B.prec := by omega
  calc d * ((2 ^ (B.prec + 1) - 1) * 2 ^ (t - 1)) ≤ d * (2 * 2 ^ B.prec * 2 ^ (t - 1)) :=
        Nat.mul_le_mul_left d (Nat.mul_le_mul_right _ h1)
    _ = d * (2 * 2 ^ (t - 1)) * 2 ^ B.prec := by ring
    _ ≤ n * 2 ^ B.prec := Nat.mul_le_mul_right _ h

/-- formats whose range fits the cut-offs of `rneDecSafe`: `2^(emax+1) ≤ 10^401` and
    `10^-401 ≤` half the smallest subnormal -/
def SafeFmt (B : BinFmt) : Prop :=
  1 ≤ B.prec ∧ 2 ≤ B.ebits ∧ 2 ^ (2 ^ (B.ebits - 1)) ≤ 10 ^ 401 ∧ 2 ^ (shiftOf B + 1) ≤ 10 ^ 401

set_option exponentiation.threshold 2000 in
theorem safe32 : SafeFmt binary32 := by
  refine ⟨by decide, by decide, ?_, ?_⟩ <;> decide +kernel

set_option exponentiation.threshold 2000 in
theorem safe64 : SafeFmt binary64 := by
  refine ⟨by decide, by decide, ?_, ?_⟩ <;> decide +kernel

set_option exponentiation.threshold 500 in
/-- whenever `rneDecSafe` takes a shortcut (exponent above 400: overflow; value below `10^-400`: zero) it answers what
    `rneDec` would -/
theorem rneDecSafe_eq_rneDec (B : BinFmt) (hB : SafeFmt B) (c : Nat) (hc : 0 < c) (e : Int) :
    rneDecSafe B c e = rneDec B c e := by
  have k0 : ¬ c = 0 := by omega
  have k1 : e > 400 → 401 ≤ e.toNat ∧ e ≥ 0 := fun h => by omega
  have k2 : e + (digits10 c : Int) < -400 → digits10 c + 401 ≤ (-e).toNat ∧ ¬ e ≥ 0 := fun h => by omega
  obtain ⟨hp, hb, hbig, hsmall⟩ := hB
  unfold rneDecSafe
  rw [if_neg k0]
  by_cases h1 : e > 400
  · rw [if_pos h1]
    unfold rneDec
    rw [if_pos (k1 h1).2]
    symm
    apply rneRat_huge B hp hb _ _ (Nat.mul_pos hc (Nat.pow_pos (by decide))) (by decide)
    rw [Nat.one_mul]
    have h2 : 10 ^ 401 ≤ 10 ^ e.toNat := Nat.pow_le_pow_right (by decide) (k1 h1).1
    have h3 : 1 * 10 ^ e.toNat ≤ c * 10 ^ e.toNat := Nat.mul_le_mul_right _ hc
    rw [Nat.one_mul] at h3
    exact Nat.le_trans hbig (Nat.le_trans h2 h3)
  · rw [if_neg h1]
    by_cases h2 : e + (digits10 c : Int) < -400
    · rw [if_pos h2]
      unfold rneDec
      rw [if_neg (k2 h2).2]
      symm
      apply rneRat_zero B hp hb _ _ hc
      have h3 : 10 ^ (digits10 c + 401) ≤ 10 ^ (-e).toNat := Nat.pow_le_pow_right (by decide) (k2 h2).1
      rw [Nat.pow_add] at h3
      have h4 := lt_pow_digits10 c
      calc c * 2 ^ (shiftOf B + 1) ≤ 10 ^ digits10 c * 10 ^ 401 := Nat.mul_le_mul (Nat.le_of_lt h4) hsmall
        _ ≤ 10 ^ (-e).toNat := h3
    · rw [if_neg h2]

/-- the run-time oracle `rneDecSafe` (binary32, binary64) answers a finite pattern nearest to `c·10^e`, ties to
    even, and `none` exactly on overflow -/
theorem rneDecSafe_correct (B : BinFmt) (hB : SafeFmt B) (hp : 2 ≤ B.prec) (c : Nat) (hc : 0 < c) (e : Int) :
    (∀ bits, rneDecSafe B c e = some bits →
      bits < B.infBits ∧
      (∀ b', b' < B.infBits → err B (decNum c e) (decDen e) bits ≤ err B (decNum c e) (decDen e) b') ∧
      (∀ b', b' < B.infBits → b' ≠ bits →
        err B (decNum c e) (decDen e) b' = err B (decNum c e) (decDen e) bits → bits % 2 = 0)) ∧
    (rneDecSafe B c e = none ↔
      decDen e * ((2 ^ (B.prec + 1) - 1) * 2 ^ (2 ^ (B.ebits - 1) - 1)) ≤ decNum c e * 2 ^ B.prec) := by
  rw [rneDecSafe_eq_rneDec B hB c hc e]
  exact ⟨fun bits h => rneDec_nearest B hp hB.2.1 c hc e bits h, rneDec_overflow B hB.1 hB.2.1 c hc e⟩

/-- instances: `0.1` in binary32 and binary64; `1e401` and `1e-402` take the shortcuts -/
example : rneDec binary32 1 (-1) = some 0x3dcccccd ∧ rneDec binary64 1 (-1) = some 0x3fb999999999999a := by
  decide +kernel
example : ∀ b' < binary64.infBits,
    err binary64 (decNum 1 (-1)) (decDen (-1)) 0x3fb999999999999a ≤ err binary64 (decNum 1 (-1)) (decDen (-1)) b' :=
  (rneDec_nearest binary64 (by decide) (by decide) 1 (by decide) (-1) _ (by decide +kernel)).2.1
example : rneDecSafe binary64 1 401 = rneDec binary64 1 401 ∧ rneDecSafe binary64 1 (-402) = rneDec binary64 1 (-402) :=
  ⟨rneDecSafe_eq_rneDec _ safe64 1 (by decide) 401, rneDecSafe_eq_rneDec _ safe64 1 (by decide) (-402)⟩

end Decstr.Proofs.Rne

#print axioms Decstr.Proofs.Rne.val_strictMono
#print axioms Decstr.Proofs.Rne.errAt_add
#print axioms Decstr.Proofs.Rne.rneRat_closed
#print axioms Decstr.Proofs.Rne.rneRat_finite
#print axioms Decstr.Proofs.Rne.rneRat_nearest_all
#print axioms Decstr.Proofs.Rne.rneRat_nearest
#print axioms Decstr.Proofs.Rne.rneRat_tie_even
#print axioms Decstr.Proofs.Rne.rneRat_overflow
#print axioms Decstr.Proofs.Rne.rneRat_monotone
#print axioms Decstr.Proofs.Rne.rneDec_nearest
#print axioms Decstr.Proofs.Rne.rneDec_overflow
#print axioms Decstr.Proofs.Rne.rneDec_monotone
#print axioms Decstr.Proofs.Rne.rneRat_zero
#print axioms Decstr.Proofs.Rne.rneRat_huge
#print axioms Decstr.Proofs.Rne.safe32
#print axioms Decstr.Proofs.Rne.safe64
#print axioms Decstr.Proofs.Rne.rneDecSafe_eq_rneDec
#print axioms Decstr.Proofs.Rne.rneDecSafe_correct
