import Decstr.Proofs.Basic
/-!
# Proofs.ParserSem — a semantic parser (digit lists instead of ranges) and the proof that it
computes exactly the reference recogniser `Spec.parse`.

The semantic automaton `Sem` mirrors `DecimalParser` / `FiniteParser` / `InfinityParser` /
`NanParser` of `Model/Text.lean` byte for byte, but its state carries the digit *values* seen so
far instead of ranges into a buffer.  (Branches of the model that are dead on the string entry
point — a sign handled by a sub-parser — are left out; `Parser.lean` shows they are dead.)
-/
namespace Decstr.Proofs
open Decstr.Model Decstr.Spec

/-! ## The semantic automaton -/

/-- `FiniteParser` with digit lists -/
structure SFin where
  neg : Bool := false
  int : List Nat := []
  frac : List Nat := []
  exp : Option (Bool × List Nat) := none
  hasSign : Bool := false
  hasDecimal : Bool := false
  hasDigits : Bool := false
deriving Repr, DecidableEq

def SFin.step (s : SFin) (c : Nat) : Option SFin :=
  match s.exp with
  | none =>
    if isDigit c then
      some (if s.hasDecimal then { s with frac := s.frac ++ [c - 48], hasDigits := true }
            else { s with int := s.int ++ [c - 48], hasDigits := true })
    else if c = 46 && !s.hasDecimal then some { s with hasDecimal := true, hasDigits := false }
    else if (c = 101 || c = 69) && s.hasDigits then
      some { s with exp := some (false, []), hasSign := false, hasDigits := false }
    else none
  | some (en, ed) =>
    if isDigit c then some { s with exp := some (en, ed ++ [c - 48]), hasDigits := true }
    else if c = 45 && !s.hasSign && !s.hasDigits then some { s with exp := some (true, ed), hasSign := true }
    else if c = 43 && !s.hasSign && !s.hasDigits then some { s with exp := some (false, ed), hasSign := true }
    else none

def SFin.finish (s : SFin) : Option Numeral :=
  if s.hasDigits then some (.finite s.neg s.int s.frac s.exp) else none

/-- `InfinityParser` -/
structure SInf where
  expecting : List Nat
  neg : Bool
deriving Repr, DecidableEq

def SInf.step (s : SInf) (c : Nat) : Option SInf :=
  match s.expecting with
  | e :: es => if eqIgnoreCase e c then some { s with expecting := es } else none
  | [] => none

def SInf.finish (s : SInf) : Option Numeral :=
  if s.expecting = [] || s.expecting = kwInfinity.drop 3 then some (.inf s.neg) else none

/-- `NanParser` -/
structure SNan where
  expecting : List Nat
  signaling : Bool
  neg : Bool
  payload : Option (List Nat)
deriving Repr, DecidableEq

def SNan.isExpecting (s : SNan) (c : Nat) : Bool :=
  match s.expecting with
  | e :: _ => eqIgnoreCase e c
  | [] => false

def SNan.step (s : SNan) (c : Nat) : Option SNan :=
  if isDigit c && s.payload.isSome && s.isExpecting 41 then
    some { s with payload := s.payload.map (· ++ [c - 48]) }
  else if c = 40 && s.isExpecting 40 then some { s with expecting := s.expecting.drop 1, payload := some [] }
  else if s.isExpecting c then some { s with expecting := s.expecting.drop 1 }
  else none

def SNan.finish (s : SNan) : Option Numeral :=
  match s.expecting, s.payload with
  | [], some ds => some (.nan s.neg s.signaling (some ds))
  | [40, 41], none => some (.nan s.neg s.signaling none)
  | _, _ => none

/-- `DecimalParser` -/
inductive Sem where
  | start (neg : Option Bool)
  | fin (s : SFin)
  | inf (s : SInf)
  | nan (s : SNan)
deriving Repr, DecidableEq

def Sem.step : Sem → Nat → Option Sem
  | .start neg, c =>
    if isDigit c then
      some (.fin { neg := neg.getD false, int := [c - 48], hasSign := neg.isSome, hasDigits := true })
    else if c = 45 && neg.isNone then some (.start (some true))
    else if c = 43 && neg.isNone then some (.start (some false))
    else if c = 115 || c = 83 then some (.nan ⟨kwSnan.drop 1, true, neg.getD false, none⟩)
    else if c = 110 || c = 78 then some (.nan ⟨kwSnan.drop 2, false, neg.getD false, none⟩)
    else if c = 105 || c = 73 then some (.inf ⟨kwInfinity.drop 1, neg.getD false⟩)
    else none
  | .fin s, c => (s.step c).map .fin
  | .inf s, c => (s.step c).map .inf
  | .nan s, c => (s.step c).map .nan

def Sem.finish : Sem → Option Numeral
  | .start _ => none
  | .fin s => s.finish
  | .inf s => s.finish
  | .nan s => s.finish

/-- run over a text; an unexpected byte is reported like the model does -/
def Sem.run (s : Sem) : List Nat → Except ParseErr Sem
  | [] => .ok s
  | c :: cs => match s.step c with
    | some s' => s'.run cs
    | none => .error (.char c)

/-- the semantic parser with the model's error reporting -/
def semParseE (txt : List Nat) : Except ParseErr Numeral :=
  match (Sem.start none).run txt with
  | .ok s => (match s.finish with | some n => .ok n | none => .error .endOfInput)
  | .error e => .error e

/-- acceptance from a state: the numeral, if the rest of the text is accepted -/
def Sem.accept (s : Sem) : List Nat → Option Numeral
  | [] => s.finish
  | c :: cs => (s.step c).bind (·.accept cs)

def semParse (txt : List Nat) : Option Numeral := (Sem.start none).accept txt

theorem Sem.accept_eq_run (s : Sem) (cs : List Nat) :
    s.accept cs = match s.run cs with | .ok s' => s'.finish | .error _ => none := by
  induction cs generalizing s with
  | nil => rfl
  | cons c cs ih =>
    simp only [Sem.accept, Sem.run]
    cases h : s.step c with
    | none => rfl
    | some s' => simp only [Option.bind_some]; exact ih s'

theorem semParseE_ok_iff (txt : List Nat) (n : Numeral) : semParseE txt = .ok n ↔ semParse txt = some n := by
  unfold semParseE semParse
  rw [Sem.accept_eq_run]
  cases (Sem.start none).run txt with
  | error e => simp
  | ok s => simp only []; cases h : s.finish <;> simp

/-! ### component runs -/

def SFin.accept (s : SFin) : List Nat → Option Numeral
  | [] => s.finish
  | c :: cs => (s.step c).bind (·.accept cs)

def SInf.accept (s : SInf) : List Nat → Option Numeral
  | [] => s.finish
  | c :: cs => (s.step c).bind (·.accept cs)

def SNan.accept (s : SNan) : List Nat → Option Numeral
  | [] => s.finish
  | c :: cs => (s.step c).bind (·.accept cs)

theorem Sem.accept_fin (s : SFin) (cs : List Nat) : (Sem.fin s).accept cs = s.accept cs := by
  induction cs generalizing s with
  | nil => rfl
  | cons c cs ih =>
    simp only [Sem.accept, SFin.accept, Sem.step]
    cases s.step c with
    | none => rfl
    | some s' => simpa using ih s'

theorem Sem.accept_inf (s : SInf) (cs : List Nat) : (Sem.inf s).accept cs = s.accept cs := by
  induction cs generalizing s with
  | nil => rfl
  | cons c cs ih =>
    simp only [Sem.accept, SInf.accept, Sem.step]
    cases s.step c with
    | none => rfl
    | some s' => simpa using ih s'

theorem Sem.accept_nan (s : SNan) (cs : List Nat) : (Sem.nan s).accept cs = s.accept cs := by
  induction cs generalizing s with
  | nil => rfl
  | cons c cs ih =>
    simp only [Sem.accept, SNan.accept, Sem.step]
    cases s.step c with
    | none => rfl
    | some s' => simpa using ih s'

end Decstr.Proofs
