import Decstr.Model.Convert
/-!
# Proofs.Basic — vocabulary shared by the proof files
-/
namespace Decstr.Proofs
open Decstr.Model Decstr.Spec

/-- every element is an ASCII digit `'0'..'9'` -/
def AsciiDigits (ds : List Nat) : Prop := ∀ d ∈ ds, 48 ≤ d ∧ d ≤ 57

/-- the digit values of an ASCII digit string -/
def digitVals (ds : List Nat) : List Nat := ds.map (· - 48)

/-- the number an ASCII digit string denotes -/
def valOf (ds : List Nat) : Nat := ofDigits (digitVals ds)

/-- a well-formed buffer of `4n` bytes: `n ≥ 1` and the bits fit -/
structure WF (b : Buf) (n : Nat) : Prop where
  pos : 0 < n
  len : b.len = 4 * n
  lt : b.bits < 2 ^ (32 * n)

theorem WF.ofBytes (l : List Nat) (n : Nat) (hn : 0 < n) (hl : l.length = 4 * n) (hb : ∀ x ∈ l, x < 256) :
    WF (Buf.ofBytes l) n := by
  refine ⟨hn, hl, ?_⟩
  have key : ∀ l : List Nat, (∀ x ∈ l, x < 256) → ofLeBytes l < 2 ^ (8 * l.length) := by
    intro l
    induction l with
    | nil => intro _; simp [ofLeBytes]
    | cons x xs ih =>
      intro h
      have hx : x < 256 := h x (by simp)
      have := ih (fun y hy => h y (by simp [hy]))
      simp only [ofLeBytes, List.length_cons]
      have e : 2 ^ (8 * (xs.length + 1)) = 256 * 2 ^ (8 * xs.length) := by
        rw [Nat.mul_add, Nat.pow_add]; simp [Nat.mul_comm]
      rw [e]; omega
  have := key l hb
  simp only [Buf.ofBytes]
  rw [hl] at this
  have e : 8 * (4 * n) = 32 * n := by omega
  rwa [e] at this

end Decstr.Proofs
