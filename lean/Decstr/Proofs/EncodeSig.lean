import Decstr.Proofs.EncodeBits
import Mathlib.Tactic.Ring
/-!
# Proofs.EncodeSig — the trailing significand encoder, for every width

`encodeDeclets` (the loop of `encode_significand_trailing_digits`) writes exactly `Spec.trailingEncode`
of the digit string's value, and the digit it reports as most significant is the quotient.
-/
namespace Decstr.Proofs
open Decstr.Model Decstr.Spec

namespace EncodeAux

/-! ## digit strings as numbers -/

theorem ofDigits_foldl (l : List Nat) (a : Nat) :
    l.foldl (fun a d => 10 * a + d) a = a * 10 ^ l.length + ofDigits l := by
  induction l generalizing a with
  | nil => simp [ofDigits]
  | cons d l ih =>
    simp only [List.foldl_cons, List.length_cons, ofDigits]
    rw [ih (10 * a + d), ih (10 * 0 + d)]
    simp only [ofDigits]
    ring

theorem ofDigits_append (l1 l2 : List Nat) :
    ofDigits (l1 ++ l2) = ofDigits l1 * 10 ^ l2.length + ofDigits l2 := by
  unfold ofDigits
  rw [List.foldl_append, ofDigits_foldl]
  rfl

theorem ofDigits_cons (d : Nat) (l : List Nat) : ofDigits (d :: l) = d * 10 ^ l.length + ofDigits l := by
  have := ofDigits_append [d] l
  simpa [ofDigits] using this

theorem ofDigits_lt (l : List Nat) (h : ∀ d ∈ l, d < 10) : ofDigits l < 10 ^ l.length := by
  induction l with
  | nil => simp [ofDigits]
  | cons d l ih =>
    rw [ofDigits_cons]
    have hd := h d (by simp)
    have := ih (fun x hx => h x (by simp [hx]))
    simp only [List.length_cons, Nat.pow_succ]
    have : d * 10 ^ l.length ≤ 9 * 10 ^ l.length := Nat.mul_le_mul_right _ (by omega)
    omega

theorem valOf_nil : valOf [] = 0 := rfl

theorem valOf_append (l1 l2 : List Nat) : valOf (l1 ++ l2) = valOf l1 * 10 ^ l2.length + valOf l2 := by
  unfold valOf digitVals
  rw [List.map_append, ofDigits_append, List.length_map]

theorem valOf_cons (d : Nat) (l : List Nat) : valOf (d :: l) = (d - 48) * 10 ^ l.length + valOf l := by
  unfold valOf digitVals
  rw [List.map_cons, ofDigits_cons, List.length_map]

theorem valOf_lt (l : List Nat) (h : AsciiDigits l) : valOf l < 10 ^ l.length := by
  unfold valOf digitVals
  have := ofDigits_lt (l.map (· - 48)) (by
    intro d hd
    rw [List.mem_map] at hd
    obtain ⟨x, hx, rfl⟩ := hd
    have := h x hx
    omega)
  rwa [List.length_map] at this

theorem asciiDigits_append_left {l1 l2 : List Nat} (h : AsciiDigits (l1 ++ l2)) : AsciiDigits l1 :=
  fun d hd => h d (by simp [hd])

theorem asciiDigits_append_right {l1 l2 : List Nat} (h : AsciiDigits (l1 ++ l2)) : AsciiDigits l2 :=
  fun d hd => h d (by simp [hd])

theorem asciiDigits_take {l : List Nat} (h : AsciiDigits l) (k : Nat) : AsciiDigits (l.take k) :=
  fun d hd => h d (List.mem_of_mem_take hd)

/-! ## one declet -/

/-- what `nextDeclet` returns on a non-empty ASCII digit string: the three digits are those of
    `valOf ds % 1000`, the rest denotes `valOf ds / 1000` -/
theorem nextDeclet_spec (ds : List Nat) (hds : AsciiDigits ds) (hne : ds ≠ []) :
    ∃ x y z, x < 10 ∧ y < 10 ∧ z < 10 ∧
      (nextDeclet ds).1 = (z + 48, y + 48, x + 48) ∧
      100 * x + 10 * y + z = valOf ds % 1000 ∧
      (nextDeclet ds).2 = ds.take (ds.length - 3) ∧
      valOf (nextDeclet ds).2 = valOf ds / 1000 := by
  rcases Nat.lt_or_ge ds.length 3 with hlt | hge
  · -- one or two digits
    match ds, hne, hlt, hds with
    | [c0], _, _, hds =>
      have h0 := hds c0 (by simp)
      refine ⟨0, 0, c0 - 48, by omega, by omega, by omega, ?_, ?_, ?_, ?_⟩
      · simp [nextDeclet]; omega
      · simp [valOf_cons, valOf_nil]; omega
      · simp [nextDeclet]
      · simp [nextDeclet, valOf_cons, valOf_nil]; omega
    | [c1, c0], _, _, hds =>
      have h0 := hds c0 (by simp)
      have h1 := hds c1 (by simp)
      refine ⟨0, c1 - 48, c0 - 48, by omega, by omega, by omega, ?_, ?_, ?_, ?_⟩
      · simp [nextDeclet]; omega
      · simp [valOf_cons, valOf_nil]; omega
      · simp [nextDeclet]
      · simp [nextDeclet, valOf_cons, valOf_nil]; omega
  · -- at least three digits: `ds = pre ++ [c2, c1, c0]`
    obtain ⟨pre, c2, c1, c0, rfl⟩ : ∃ pre c2 c1 c0, ds = pre ++ [c2, c1, c0] := by
      refine ⟨ds.take (ds.length - 3), ?_⟩
      have hl : (ds.drop (ds.length - 3)).length = 3 := by rw [List.length_drop]; omega
      match hd : ds.drop (ds.length - 3), hl with
      | [c2, c1, c0], _ => exact ⟨c2, c1, c0, by rw [← hd, List.take_append_drop]⟩
    have h0 := hds c0 (by simp)
    have h1 := hds c1 (by simp)
    have h2 := hds c2 (by simp)
    have hpre : AsciiDigits pre := asciiDigits_append_left hds
    have hnd : nextDeclet (pre ++ [c2, c1, c0]) = ((c0, c1, c2), pre) := by
      simp [nextDeclet, List.getD_eq_getElem?_getD]
    have hv : valOf (pre ++ [c2, c1, c0]) = valOf pre * 1000 + (100 * (c2 - 48) + 10 * (c1 - 48) + (c0 - 48)) := by
      rw [valOf_append]; simp [valOf_cons, valOf_nil]; omega
    refine ⟨c2 - 48, c1 - 48, c0 - 48, by omega, by omega, by omega, ?_, ?_, ?_, ?_⟩
    · rw [hnd]; simp; omega
    · rw [hv]; omega
    · rw [hnd]; simp
    · rw [hnd, hv]; simp only; omega

/-- the declet written for the next three digits is Table 3.4 of `valOf ds % 1000` -/
theorem nextDeclet_dpd (ds : List Nat) (hds : AsciiDigits ds) (hne : ds ≠ []) :
    dpdOfBcd (bcdOfAscii (nextDeclet ds).1.1 (nextDeclet ds).1.2.1 (nextDeclet ds).1.2.2)
      = dpdEncode (valOf ds % 1000) := by
  obtain ⟨x, y, z, hx, hy, hz, h1, h2, _, _⟩ := nextDeclet_spec ds hds hne
  rw [h1, ← h2]
  exact dpdOfBcd_spec x hx y hy z hz

/-! ## `trailingEncode` -/

theorem trailingEncode_lt (j c : Nat) : trailingEncode j c < 1024 ^ j := by
  induction j generalizing c with
  | zero => simp [trailingEncode]
  | succ j ih =>
    simp only [trailingEncode, Nat.pow_succ]
    have := dpdEncode_lt (c % 1000) (Nat.mod_lt _ (by decide))
    have := ih (c / 1000)
    omega

theorem trailingEncode_zero (j : Nat) : trailingEncode j 0 = 0 := by
  induction j with
  | zero => rfl
  | succ j ih => simp [trailingEncode, dpdEncode_zero, ih]

/-- one step of `trailingEncode` on a value reduced modulo `1000^(j+1)` -/
theorem trailingEncode_succ_mod (j v : Nat) :
    trailingEncode (j + 1) (v % 1000 ^ (j + 1)) =
      dpdEncode (v % 1000) + 1024 * trailingEncode j (v / 1000 % 1000 ^ j) := by
  simp only [trailingEncode]
  have e : 1000 ^ (j + 1) = 1000 * 1000 ^ j := by rw [Nat.pow_succ, Nat.mul_comm]
  rw [e, Nat.mod_mul_right_mod, Nat.mod_mul_right_div_self]

/-! ## the loop -/

/-- the digits the loop leaves unread -/
theorem encodeDeclets_rest (k : Nat) (ds : List Nat) (bit : Nat) (b : Buf) :
    (encodeDeclets k ds bit b).2 = ds.take (ds.length - 3 * k) := by
  induction k generalizing ds bit b with
  | zero => simp [encodeDeclets]
  | succ k ih =>
    unfold encodeDeclets
    by_cases he : ds = []
    · subst he; simp
    · have hne : ds.isEmpty = false := by simpa using he
      simp only [hne, Bool.false_eq_true, if_false]
      rw [ih]
      have hr : (nextDeclet ds).2 = ds.take (ds.length - 3) := by
        unfold nextDeclet
        simp only
        split
        · rfl
        · split
          · simp; omega
          · simp; omega
      rw [hr, List.take_take, List.length_take]
      congr 1
      omega

/-- the buffer the loop produces: each declet OR-ed at its bit offset -/
theorem encodeDeclets_bits (k : Nat) (ds : List Nat) (hds : AsciiDigits ds) (bit : Nat) (hbit : bit % 2 = 0) (b : Buf) :
    (encodeDeclets k ds bit b).1 = ⟨b.len, b.bits ||| (trailingEncode k (valOf ds % 1000 ^ k) <<< bit)⟩ := by
  induction k generalizing ds bit b with
  | zero => simp [encodeDeclets, trailingEncode]
  | succ k ih =>
    unfold encodeDeclets
    by_cases he : ds = []
    · subst he
      simp [valOf_nil, trailingEncode_zero]
    · have hne : ds.isEmpty = false := by simpa using he
      simp only [hne, Bool.false_eq_true, if_false]
      obtain ⟨x, y, z, _, _, _, _, _, hrest, hval⟩ := nextDeclet_spec ds hds he
      have hr : AsciiDigits (nextDeclet ds).2 := by rw [hrest]; exact asciiDigits_take hds _
      rw [ih _ hr (bit + 10) (by omega), nextDeclet_dpd ds hds he, hval,
        writeDpd_eq _ _ _ (dpdEncode_lt _ (Nat.mod_lt _ (by decide))) hbit, trailingEncode_succ_mod]
      simp only
      congr 1
      rw [Nat.or_assoc]
      congr 1
      have hx := dpdEncode_lt (valOf ds % 1000) (Nat.mod_lt _ (by decide))
      generalize dpdEncode (valOf ds % 1000) = x at hx
      generalize trailingEncode k (valOf ds / 1000 % 1000 ^ k) = T
      have h10 : bit + 10 = 10 + bit := by omega
      rw [h10, Nat.shiftLeft_add, ← Nat.shiftLeft_or_distrib]
      congr 1
      have : x + 1024 * T = 2 ^ 10 * T + x := by omega
      rw [this, Nat.two_pow_add_eq_or_of_lt (by simpa using hx), Nat.or_comm, Nat.shiftLeft_eq, Nat.mul_comm]

/-! ## `encodeSignificand` -/

theorem trailingDigits_zero (n : Nat) (hn : 0 < n) : (Buf.zero (4 * n)).trailingDigits / 3 = 3 * n - 1 := by
  simp only [Buf.zero, Buf.trailingDigits, Buf.precision, Buf.widthBits]
  omega

theorem pow1000 (j : Nat) : 1000 ^ j = 10 ^ (3 * j) := by
  rw [Nat.pow_mul]

end EncodeAux
open EncodeAux

/-- trailing significand: all declets of any non-empty ASCII digit string of at most p digits, and the most significant digit -/
theorem encodeSignificand_spec (n : Nat) (hn : 0 < n) (ds : List Nat) (hds : AsciiDigits ds) (hne : ds ≠ [])
    (hlen : ds.length ≤ 9 * n - 2) :
    (encodeSignificand (Buf.zero (4 * n)) ds).1 = ⟨4 * n, trailingEncode (3 * n - 1) (valOf ds % 1000 ^ (3 * n - 1))⟩ ∧
    (encodeSignificand (Buf.zero (4 * n)) ds).2 = valOf ds / 1000 ^ (3 * n - 1) := by
  unfold encodeSignificand
  rw [trailingDigits_zero n hn]
  constructor
  · show (encodeDeclets (3 * n - 1) ds 0 (Buf.zero (4 * n))).1 = _
    rw [encodeDeclets_bits _ _ hds 0 (by decide)]
    simp [Buf.zero]
  · show (if (encodeDeclets (3 * n - 1) ds 0 (Buf.zero (4 * n))).2.isEmpty then 0 else ds.getD 0 48 - 48) = _
    rw [encodeDeclets_rest, pow1000]
    by_cases hl : ds.length ≤ 3 * (3 * n - 1)
    · have h0 : ds.length - 3 * (3 * n - 1) = 0 := by omega
      rw [h0]
      simp only [List.take_zero, List.isEmpty_nil, if_true]
      symm
      apply Nat.div_eq_of_lt
      exact Nat.lt_of_lt_of_le (valOf_lt ds hds) (Nat.pow_le_pow_right (by decide) hl)
    · have h1 : ds.length - 3 * (3 * n - 1) = 1 := by omega
      rw [h1]
      match ds, hne, hds with
      | d :: tl, _, hds =>
        have hd := hds d (by simp)
        have htl : tl.length = 3 * (3 * n - 1) := by simp at h1 hl hlen; omega
        have hv := valOf_lt tl (fun x hx => hds x (by simp [hx]))
        simp only [List.take_succ_cons, List.take_zero, List.isEmpty_cons, Bool.false_eq_true, if_false,
          List.getD_cons_zero]
        rw [valOf_cons, htl] at *
        rw [Nat.mul_comm, Nat.mul_add_div (Nat.pow_pos (by decide)), Nat.div_eq_of_lt hv]
        rfl

end Decstr.Proofs

#print axioms Decstr.Proofs.encodeSignificand_spec
