import Decstr.Model.Chunks
namespace Decstr.Proofs.Chunks
open Decstr.Model

/-! ## unfolding lemmas for the slow path -/

theorem slowLoop_none (fuel : Nat) (cs : List (List Nat)) (out : Declet) (oi : Nat) :
    slowLoop (fuel + 1) cs none out oi = some (out, cs, none) := by
  simp [slowLoop]

theorem slowLoop_three (fuel : Nat) (cs : List (List Nat)) (c : Nat) (out : Declet) :
    slowLoop (fuel + 1) cs (some c) out 3 = some (out, cs, some c) := by
  simp [slowLoop]

theorem slowLoop_empty (fuel : Nat) (cs : List (List Nat)) (c : Nat) (out : Declet) (oi : Nat)
    (h3 : oi ≠ 3) (hget : cs[c]? = some []) :
    slowLoop (fuel + 1) cs (some c) out oi = slowLoop fuel cs (checkedSub1 c) out oi := by
  simp [slowLoop, h3, hget]

theorem slowLoop_one (fuel : Nat) (cs : List (List Nat)) (c : Nat) (out out' : Declet) (oi x : Nat)
    (h3 : oi ≠ 3) (hget : cs[c]? = some [x]) (hs : setOut out oi x = some out') :
    slowLoop (fuel + 1) cs (some c) out oi = slowLoop fuel cs (checkedSub1 c) out' (oi + 1) := by
  simp [slowLoop, h3, hget, hs]

theorem slowLoop_many (fuel : Nat) (cs : List (List Nat)) (c : Nat) (out out' : Declet) (oi x : Nat) (pre : List Nat)
    (h3 : oi ≠ 3) (hpre : pre ≠ []) (hget : cs[c]? = some (pre ++ [x])) (hs : setOut out oi x = some out') :
    slowLoop (fuel + 1) cs (some c) out oi = slowLoop fuel (cs.set c pre) (some c) out' (oi + 1) := by
  obtain ⟨p, ps, rfl⟩ := List.exists_cons_of_ne_nil hpre
  simp [slowLoop, h3, hget, hs]

/-! ## unfolding lemmas for `nextAsciiDecletRev` -/

theorem next_none (cs : List (List Nat)) : nextAsciiDecletRev cs none = some (none, cs, none) := rfl

/-- `chunks[c]` out of bounds: panic -/
theorem next_oob (cs : List (List Nat)) (c : Nat) (hget : cs[c]? = none) : nextAsciiDecletRev cs (some c) = none := by
  simp [nextAsciiDecletRev, hget]

/-- **An empty chunk at the cursor on entry is a panic** (the `_` arm of the first `match chunk.len()`). -/
theorem next_empty (cs : List (List Nat)) (c : Nat) (hget : cs[c]? = some []) : nextAsciiDecletRev cs (some c) = none := by
  simp [nextAsciiDecletRev, hget]

theorem next_one (cs : List (List Nat)) (c x : Nat) (hget : cs[c]? = some [x]) :
    nextAsciiDecletRev cs (some c) =
      (slowLoop (cs.length + 3) cs (checkedSub1 c) (x, 48, 48) 1).map fun r => (some r.1, r.2.1, r.2.2) := by
  simp [nextAsciiDecletRev, hget]
  cases slowLoop (cs.length + 3) cs (checkedSub1 c) (x, 48, 48) 1 <;> rfl

theorem next_two (cs : List (List Nat)) (c x y : Nat) (hget : cs[c]? = some [x, y]) :
    nextAsciiDecletRev cs (some c) =
      (slowLoop (cs.length + 3) cs (checkedSub1 c) (y, x, 48) 2).map fun r => (some r.1, r.2.1, r.2.2) := by
  simp [nextAsciiDecletRev, hget]
  cases slowLoop (cs.length + 3) cs (checkedSub1 c) (y, x, 48) 2 <;> rfl

theorem next_three (cs : List (List Nat)) (c x y z : Nat) (hget : cs[c]? = some [x, y, z]) :
    nextAsciiDecletRev cs (some c) = some (some (z, y, x), cs, checkedSub1 c) := by
  simp [nextAsciiDecletRev, hget]

theorem next_many (cs : List (List Nat)) (c x y z : Nat) (pre : List Nat) (hpre : pre ≠ [])
    (hget : cs[c]? = some (pre ++ [x, y, z])) :
    nextAsciiDecletRev cs (some c) = some (some (z, y, x), cs.set c pre, some c) := by
  obtain ⟨p, ps, rfl⟩ := List.exists_cons_of_ne_nil hpre
  simp [nextAsciiDecletRev, hget]

/-! ## the abstraction: digits not yet read -/

/-- number of chunks not yet finished: `chunk_index + 1`, or `0` for `None` -/
def cnt : Option Nat → Nat
  | none => 0
  | some c => c + 1

/-- the digits not yet read: the concatenation of the (shrunk) chunks `0 ..= chunk_index` -/
def rem (cs : List (List Nat)) (idx : Option Nat) : List Nat := (cs.take (cnt idx)).flatten

/-- no unfinished chunk is empty -/
def NE (cs : List (List Nat)) (idx : Option Nat) : Prop := ∀ ch ∈ cs.take (cnt idx), ch ≠ []

@[simp] theorem cnt_none : cnt none = 0 := rfl
@[simp] theorem cnt_some (c : Nat) : cnt (some c) = c + 1 := rfl

@[simp] theorem cnt_checkedSub1 (c : Nat) : cnt (checkedSub1 c) = c := by
  unfold checkedSub1
  split
  · simp; omega
  · simp; omega

theorem take_succ_of_get {cs : List (List Nat)} {c : Nat} {chunk : List Nat} (h : cs[c]? = some chunk) :
    cs.take (c + 1) = cs.take c ++ [chunk] := by
  rw [List.take_add_one, h]; rfl

theorem rem_none (cs : List (List Nat)) : rem cs none = [] := by simp [rem]

theorem rem_some {cs : List (List Nat)} {c : Nat} {chunk : List Nat} (h : cs[c]? = some chunk) :
    rem cs (some c) = rem cs (checkedSub1 c) ++ chunk := by
  simp only [rem, cnt_checkedSub1, cnt_some, take_succ_of_get h, List.flatten_append, List.flatten_cons,
    List.flatten_nil, List.append_nil]

theorem get_lt {cs : List (List Nat)} {c : Nat} {chunk : List Nat} (h : cs[c]? = some chunk) : c < cs.length := by
  rcases Nat.lt_or_ge c cs.length with h' | h'
  · exact h'
  · rw [List.getElem?_eq_none h'] at h; cases h

theorem rem_set {cs : List (List Nat)} {c : Nat} (x : List Nat) (hc : c < cs.length) :
    rem (cs.set c x) (some c) = rem cs (checkedSub1 c) ++ x := by
  rw [rem_some (List.getElem?_set_self hc)]
  simp only [rem, cnt_checkedSub1, List.take_set_of_le (Nat.le_refl c)]

theorem NE_checkedSub1 {cs : List (List Nat)} {c : Nat} (h : NE cs (some c)) : NE cs (checkedSub1 c) := by
  intro ch hch
  rw [cnt_checkedSub1] at hch
  apply h ch
  rw [cnt_some, List.take_add_one]
  exact List.mem_append_left _ hch

theorem NE_set {cs : List (List Nat)} {c : Nat} {x : List Nat} (hc : c < cs.length) (hx : x ≠ [])
    (h : NE cs (some c)) : NE (cs.set c x) (some c) := by
  intro ch hch
  rw [cnt_some, take_succ_of_get (List.getElem?_set_self hc), List.take_set_of_le (Nat.le_refl c)] at hch
  rcases List.mem_append.1 hch with h1 | h1
  · exact NE_checkedSub1 h ch (by rw [cnt_checkedSub1]; exact h1)
  · rw [List.mem_singleton] at h1; rw [h1]; exact hx

/-! ## the slow path, on the concatenation -/

/-- what the slow path does to `out`, as a function of the unread digits `R`: fill `n` more slots from the
    back of `R`, stopping early when `R` runs out (the remaining slots keep their `'0'`). -/
def fill : Nat → Declet → Nat → List Nat → Option (Declet × List Nat)
  | 0, out, _, R => some (out, R)
  | n + 1, out, oi, R =>
    match R.getLast? with
    | none => some (out, [])
    | some d =>
      match setOut out oi d with
      | none => none
      | some out' => fill n out' (oi + 1) R.dropLast

theorem fill_nil (n : Nat) (out : Declet) (oi : Nat) : fill n out oi [] = some (out, []) := by
  cases n <;> simp [fill]

theorem fill_concat (n : Nat) (out out' : Declet) (oi x : Nat) (P : List Nat) (hs : setOut out oi x = some out') :
    fill (n + 1) out oi (P ++ [x]) = fill n out' (oi + 1) P := by
  simp [fill, hs]

theorem setOut_some (out : Declet) (oi d : Nat) (h : oi < 3) : ∃ out', setOut out oi d = some out' := by
  have : oi = 0 ∨ oi = 1 ∨ oi = 2 := by omega
  rcases this with rfl | rfl | rfl <;> simp [setOut]

/-- **The slow path never panics and never runs out of fuel**, whatever the chunks (empty ones included), and
    computes `fill` on the unread digits.  `n = 3 - out_index` is the number of free slots. -/
theorem slowLoop_spec : ∀ (fuel n : Nat) (cs : List (List Nat)) (idx : Option Nat) (out : Declet) (oi : Nat),
    oi + n = 3 → cnt idx ≤ cs.length → cnt idx + n + 1 ≤ fuel →
    ∃ out' cs' idx', slowLoop fuel cs idx out oi = some (out', cs', idx') ∧
      fill n out oi (rem cs idx) = some (out', rem cs' idx') ∧
      cs'.length = cs.length ∧ cnt idx' ≤ cs'.length ∧ (NE cs idx → NE cs' idx') := by
  intro fuel
  induction fuel with
  | zero => intro n cs idx out oi _ _ h; omega
  | succ fuel ih =>
    intro n cs idx out oi hn hW hf
    cases idx with
    | none =>
      exact ⟨out, cs, none, slowLoop_none .., by rw [rem_none, fill_nil], rfl, hW, fun h => h⟩
    | some c =>
      rw [cnt_some] at hW hf
      by_cases h3 : oi = 3
      · have h0 : n = 0 := by omega
        subst h0; subst h3
        exact ⟨out, cs, some c, slowLoop_three .., rfl, rfl, hW, fun h => h⟩
      · obtain ⟨m, rfl⟩ : ∃ m, n = m + 1 := ⟨n - 1, by omega⟩
        have hc : c < cs.length := by omega
        obtain ⟨chunk, hget⟩ : ∃ chunk, cs[c]? = some chunk := ⟨cs[c], List.getElem?_eq_getElem hc⟩
        have hrem := rem_some hget
        rcases List.eq_nil_or_concat chunk with rfl | ⟨pre, x, rfl⟩
        · -- l.199: empty chunk, move on
          obtain ⟨out', cs', idx', h1, h2, h3', h4, h5⟩ :=
            ih (m + 1) cs (checkedSub1 c) out oi hn (by rw [cnt_checkedSub1]; omega) (by rw [cnt_checkedSub1]; omega)
          refine ⟨out', cs', idx', ?_, ?_, h3', h4, fun hNE => h5 (NE_checkedSub1 hNE)⟩
          · rw [slowLoop_empty _ _ _ _ _ h3 hget]; exact h1
          · rw [hrem, List.append_nil]; exact h2
        · rw [List.concat_eq_append] at hget hrem
          obtain ⟨o1, ho1⟩ := setOut_some out oi x (by omega)
          rw [← List.append_assoc] at hrem
          by_cases hpre : pre = []
          · -- l.201: last byte of the chunk
            subst hpre
            obtain ⟨out', cs', idx', h1, h2, h3', h4, h5⟩ :=
              ih m cs (checkedSub1 c) o1 (oi + 1) (by omega) (by rw [cnt_checkedSub1]; omega)
                (by rw [cnt_checkedSub1]; omega)
            refine ⟨out', cs', idx', ?_, ?_, h3', h4, fun hNE => h5 (NE_checkedSub1 hNE)⟩
            · rw [slowLoop_one _ _ _ _ _ _ _ h3 hget ho1]; exact h1
            · rw [hrem, List.append_nil, fill_concat _ _ _ _ _ _ ho1]; exact h2
          · -- l.208: more than one byte left
            obtain ⟨out', cs', idx', h1, h2, h3', h4, h5⟩ :=
              ih m (cs.set c pre) (some c) o1 (oi + 1) (by omega) (by rw [cnt_some, List.length_set]; omega)
                (by rw [cnt_some]; omega)
            refine ⟨out', cs', idx', ?_, ?_, by rw [h3', List.length_set], h4, fun hNE => h5 (NE_set hc hpre hNE)⟩
            · rw [slowLoop_many _ _ _ _ _ _ _ _ h3 hpre hget ho1]; exact h1
            · rw [hrem, fill_concat _ _ _ _ _ _ ho1, ← rem_set pre hc]; exact h2

/-! ## `nextDeclet` (the concatenation model) from the back -/

theorem nextDeclet_append3 (P : List Nat) (a b c : Nat) : nextDeclet (P ++ [a, b, c]) = ((c, b, a), P) := by
  have hl : (P ++ [a, b, c]).length = P.length + 3 := by simp
  unfold nextDeclet
  simp only [hl, ge_iff_le, Nat.le_add_left, if_true, List.getD_eq_getElem?_getD]
  have e1 : P.length + 3 - 1 = P.length + 2 := by omega
  have e2 : P.length + 3 - 2 = P.length + 1 := by omega
  have e3 : P.length + 3 - 3 = P.length := by omega
  rw [e1, e2, e3, List.getElem?_append_right (by omega), List.getElem?_append_right (by omega),
    List.getElem?_append_right (by omega), List.take_left' rfl]
  have f1 : P.length + 2 - P.length = 2 := by omega
  have f2 : P.length + 1 - P.length = 1 := by omega
  have f3 : P.length - P.length = 0 := by omega
  rw [f1, f2, f3]
  rfl

theorem nextDeclet_two (a b : Nat) : nextDeclet [a, b] = ((b, a, 48), []) := rfl
theorem nextDeclet_one (a : Nat) : nextDeclet [a] = ((a, 48, 48), []) := rfl

/-- chunk of length 1 followed by the slow path = `nextDeclet` on the concatenation -/
theorem fill_one (x : Nat) (P : List Nat) : fill 2 (x, 48, 48) 1 P = some (nextDeclet (P ++ [x])) := by
  rcases List.eq_nil_or_concat P with rfl | ⟨P1, d, rfl⟩
  · rfl
  · rw [List.concat_eq_append, fill_concat 1 (x, 48, 48) (x, d, 48) 1 d P1 rfl]
    rcases List.eq_nil_or_concat P1 with rfl | ⟨P2, e, rfl⟩
    · rfl
    · rw [List.concat_eq_append, fill_concat 0 (x, d, 48) (x, d, e) 2 e P2 rfl]
      have : P2 ++ [e] ++ [d] ++ [x] = P2 ++ [e, d, x] := by simp
      rw [this, nextDeclet_append3]; rfl

/-- chunk of length 2 followed by the slow path = `nextDeclet` on the concatenation -/
theorem fill_two (x y : Nat) (P : List Nat) : fill 1 (y, x, 48) 2 P = some (nextDeclet (P ++ [x, y])) := by
  rcases List.eq_nil_or_concat P with rfl | ⟨P1, d, rfl⟩
  · rfl
  · rw [List.concat_eq_append, fill_concat 0 (y, x, 48) (y, x, d) 2 d P1 rfl]
    have : P1 ++ [d] ++ [x, y] = P1 ++ [d, x, y] := by simp
    rw [this, nextDeclet_append3]; rfl

/-! ## one call of `next_ascii_declet_rev` -/

/-- a non-empty list seen from the back: one, two, three, or more than three elements -/
theorem back_cases (l : List Nat) (h : l ≠ []) :
    (∃ x, l = [x]) ∨ (∃ x y, l = [x, y]) ∨ (∃ x y z, l = [x, y, z]) ∨
    (∃ pre x y z, pre ≠ [] ∧ l = pre ++ [x, y, z]) := by
  rcases List.eq_nil_or_concat l with rfl | ⟨l1, z, rfl⟩
  · exact absurd rfl h
  rcases List.eq_nil_or_concat l1 with rfl | ⟨l2, y, rfl⟩
  · exact Or.inl ⟨z, rfl⟩
  rcases List.eq_nil_or_concat l2 with rfl | ⟨l3, x, rfl⟩
  · exact Or.inr (Or.inl ⟨y, z, rfl⟩)
  by_cases h3 : l3 = []
  · subst h3; exact Or.inr (Or.inr (Or.inl ⟨x, y, z, rfl⟩))
  · exact Or.inr (Or.inr (Or.inr ⟨l3, x, y, z, h3, by simp⟩))

/-- **One call, cursor on a non-empty chunk**: no panic, `Some(declet)` is returned, and declet and
    leftover digits are exactly those of `nextDeclet` on the concatenation of the unfinished chunks. -/
theorem next_spec (cs : List (List Nat)) (c : Nat) (chunk : List Nat) (hget : cs[c]? = some chunk) (hne : chunk ≠ []) :
    ∃ out cs' idx', nextAsciiDecletRev cs (some c) = some (some out, cs', idx') ∧
      nextDeclet (rem cs (some c)) = (out, rem cs' idx') ∧
      cs'.length = cs.length ∧ cnt idx' ≤ cs'.length ∧ (NE cs (some c) → NE cs' idx') := by
  have hc := get_lt hget
  have hrem := rem_some hget
  rcases back_cases chunk hne with ⟨x, rfl⟩ | ⟨x, y, rfl⟩ | ⟨x, y, z, rfl⟩ | ⟨pre, x, y, z, hpre, rfl⟩
  · obtain ⟨out', cs', idx', h1, h2, h3, h4, h5⟩ :=
      slowLoop_spec (cs.length + 3) 2 cs (checkedSub1 c) (x, 48, 48) 1 rfl (by rw [cnt_checkedSub1]; omega)
        (by rw [cnt_checkedSub1]; omega)
    refine ⟨out', cs', idx', ?_, ?_, h3, h4, fun hNE => h5 (NE_checkedSub1 hNE)⟩
    · rw [next_one _ _ _ hget, h1]; rfl
    · rw [fill_one] at h2; rw [hrem]; exact Option.some.inj h2
  · obtain ⟨out', cs', idx', h1, h2, h3, h4, h5⟩ :=
      slowLoop_spec (cs.length + 3) 1 cs (checkedSub1 c) (y, x, 48) 2 rfl (by rw [cnt_checkedSub1]; omega)
        (by rw [cnt_checkedSub1]; omega)
    refine ⟨out', cs', idx', ?_, ?_, h3, h4, fun hNE => h5 (NE_checkedSub1 hNE)⟩
    · rw [next_two _ _ _ _ hget, h1]; rfl
    · rw [fill_two] at h2; rw [hrem]; exact Option.some.inj h2
  · refine ⟨(z, y, x), cs, checkedSub1 c, next_three _ _ _ _ _ hget, ?_, rfl, by rw [cnt_checkedSub1]; omega,
      NE_checkedSub1⟩
    rw [hrem, nextDeclet_append3]
  · refine ⟨(z, y, x), cs.set c pre, some c, next_many _ _ _ _ _ _ hpre hget, ?_, List.length_set, ?_, NE_set hc hpre⟩
    · rw [hrem, ← List.append_assoc, nextDeclet_append3, rem_set pre hc]
    · rw [cnt_some, List.length_set]; omega

/-! ## the loop of `encode_significand_trailing_digits` -/

theorem loop_succ_none (k : Nat) (cs : List (List Nat)) (bit : Nat) (b : Buf) :
    encodeLoopChunks (k + 1) cs none bit b = some (b, cs, none) := by
  simp [encodeLoopChunks, next_none]

theorem loop_succ_panic (k : Nat) (cs : List (List Nat)) (idx : Option Nat) (bit : Nat) (b : Buf)
    (h : nextAsciiDecletRev cs idx = none) : encodeLoopChunks (k + 1) cs idx bit b = none := by
  simp [encodeLoopChunks, h]

theorem loop_succ_some (k : Nat) (cs cs' : List (List Nat)) (idx idx' : Option Nat) (bit : Nat) (b : Buf) (a0 a1 a2 : Nat)
    (h : nextAsciiDecletRev cs idx = some (some (a0, a1, a2), cs', idx')) :
    encodeLoopChunks (k + 1) cs idx bit b =
      encodeLoopChunks k cs' idx' (bit + 10) (writeDpd b (dpdOfBcd (bcdOfAscii a0 a1 a2)) bit) := by
  simp [encodeLoopChunks, h]

theorem encodeDeclets_succ (k : Nat) (R R' : List Nat) (bit : Nat) (b : Buf) (a0 a1 a2 : Nat) (hR : R ≠ [])
    (h : nextDeclet R = ((a0, a1, a2), R')) :
    encodeDeclets (k + 1) R bit b = encodeDeclets k R' (bit + 10) (writeDpd b (dpdOfBcd (bcdOfAscii a0 a1 a2)) bit) := by
  have : R.isEmpty = false := by simpa using hR
  simp [encodeDeclets, this, h]

theorem mem_take_of_get {cs : List (List Nat)} {c : Nat} {chunk : List Nat} (h : cs[c]? = some chunk) :
    chunk ∈ cs.take (c + 1) := by
  rw [take_succ_of_get h]; simp

/-- **The loop.** Partial correctness for arbitrary chunks (if the Rust loop does not panic, buffer and leftover
    digits are those of `encodeDeclets` on the concatenation), and no panic when no unfinished chunk is empty. -/
theorem loop_spec : ∀ (k : Nat) (cs : List (List Nat)) (idx : Option Nat) (bit : Nat) (b : Buf), cnt idx ≤ cs.length →
    (∀ b' cs' idx', encodeLoopChunks k cs idx bit b = some (b', cs', idx') →
      encodeDeclets k (rem cs idx) bit b = (b', rem cs' idx') ∧ cnt idx' ≤ cs'.length ∧ (NE cs idx → NE cs' idx')) ∧
    (NE cs idx → encodeLoopChunks k cs idx bit b ≠ none) := by
  intro k
  induction k with
  | zero =>
    intro cs idx bit b hW
    constructor
    · intro b' cs' idx' h
      simp only [encodeLoopChunks, Option.some.injEq, Prod.mk.injEq] at h
      obtain ⟨rfl, rfl, rfl⟩ := h
      exact ⟨rfl, hW, fun h => h⟩
    · intro _; simp [encodeLoopChunks]
  | succ k ih =>
    intro cs idx bit b hW
    cases idx with
    | none =>
      rw [loop_succ_none]
      constructor
      · intro b' cs' idx' h
        simp only [Option.some.injEq, Prod.mk.injEq] at h
        obtain ⟨rfl, rfl, rfl⟩ := h
        exact ⟨by simp [rem_none, encodeDeclets], hW, fun h => h⟩
      · intro _; simp
    | some c =>
      rw [cnt_some] at hW
      have hc : c < cs.length := by omega
      obtain ⟨chunk, hget⟩ : ∃ chunk, cs[c]? = some chunk := ⟨cs[c], List.getElem?_eq_getElem hc⟩
      by_cases hne : chunk = []
      · -- empty chunk at the cursor: panic
        subst hne
        rw [loop_succ_panic _ _ _ _ _ (next_empty cs c hget)]
        constructor
        · intro b' cs' idx' h; cases h
        · intro hNE; exact absurd rfl (hNE [] (mem_take_of_get hget))
      · obtain ⟨⟨a0, a1, a2⟩, cs1, idx1, h1, h2, h3, h4, h5⟩ := next_spec cs c chunk hget hne
        have hR : rem cs (some c) ≠ [] := by
          rw [rem_some hget]; intro h; exact hne (List.append_eq_nil_iff.1 h).2
        rw [loop_succ_some _ _ _ _ _ _ _ _ _ _ h1, encodeDeclets_succ _ _ _ _ _ _ _ _ hR h2]
        obtain ⟨ih1, ih2⟩ := ih cs1 idx1 (bit + 10) (writeDpd b (dpdOfBcd (bcdOfAscii a0 a1 a2)) bit) h4
        constructor
        · intro b' cs' idx' h
          obtain ⟨e1, e2, e3⟩ := ih1 b' cs' idx' h
          exact ⟨e1, e2, fun hNE => e3 (h5 hNE)⟩
        · intro hNE; exact ih2 (h5 hNE)

/-! ## the most significant digit -/

theorem nextDeclet_rest_prefix (ds : List Nat) : (nextDeclet ds).2 <+: ds := by
  unfold nextDeclet
  simp only
  split
  · exact List.take_prefix _ _
  · split <;> exact List.nil_prefix

/-- the digits the pure loop leaves unread are a prefix of its input -/
theorem encodeDeclets_rest_prefix : ∀ (k : Nat) (ds : List Nat) (bit : Nat) (b : Buf),
    (encodeDeclets k ds bit b).2 <+: ds := by
  intro k
  induction k with
  | zero => intro ds bit b; exact List.prefix_refl _
  | succ k ih =>
    intro ds bit b
    unfold encodeDeclets
    split
    · exact List.prefix_refl _
    · exact List.IsPrefix.trans (ih _ _ _) (nextDeclet_rest_prefix ds)

theorem rem_head {cs : List (List Nat)} {c x : Nat} {t : List Nat} (h : cs[0]? = some (x :: t)) :
    ∃ t', rem cs (some c) = x :: t' := by
  cases cs with
  | nil => simp at h
  | cons c0 tl =>
    simp only [List.getElem?_cons_zero, Option.some.injEq] at h
    subst h
    exact ⟨t ++ (tl.take c).flatten, by simp [rem]⟩

/-- l.64–73 against the last line of `encodeSignificand`: `chunks[0][0]` panics iff the shrunk first chunk is
    empty while `chunk_index` is `Some`; otherwise it is the first digit of the whole concatenation. -/
theorem msd_spec (cs : List (List Nat)) (idx : Option Nat) (digits : List Nat) (hW : cnt idx ≤ cs.length)
    (hpre : rem cs idx <+: digits) :
    (∀ m, msdChunks cs idx = some m → m = if (rem cs idx).isEmpty then 0 else digits.getD 0 48 - 48) ∧
    (NE cs idx → msdChunks cs idx ≠ none) := by
  cases idx with
  | none => simp [msdChunks, rem_none]
  | some c =>
    rw [cnt_some] at hW
    obtain ⟨c0, hget⟩ : ∃ c0, cs[0]? = some c0 := ⟨cs[0], List.getElem?_eq_getElem (by omega)⟩
    cases c0 with
    | nil =>
      constructor
      · intro m hm; simp [msdChunks, hget] at hm
      · intro hNE
        have : ([] : List Nat) ∈ cs.take (cnt (some c)) := by
          rw [cnt_some]
          cases cs with
          | nil => simp at hget
          | cons c0 tl =>
            simp only [List.getElem?_cons_zero, Option.some.injEq] at hget
            subst hget; simp
        exact absurd rfl (hNE [] this)
    | cons x t =>
      obtain ⟨t', ht'⟩ := rem_head (c := c) hget
      obtain ⟨suf, hsuf⟩ := hpre
      constructor
      · intro m hm
        simp only [msdChunks, Option.isSome_some, if_true, hget, Option.bind_eq_bind, Option.bind_some,
          List.getElem?_cons_zero, Option.some.injEq] at hm
        rw [← hm, ht', ← hsuf, ht']
        simp
      · intro _; simp [msdChunks, hget]

/-! ## `encode_significand_trailing_digits` -/

theorem cnt_init (chunks : List (List Nat)) (hne : chunks ≠ []) : cnt (some (chunks.length - 1)) = chunks.length := by
  have : 0 < chunks.length := List.length_pos_iff.2 hne
  rw [cnt_some]; omega

theorem rem_init (chunks : List (List Nat)) (hne : chunks ≠ []) :
    rem chunks (some (chunks.length - 1)) = chunks.flatten := by
  rw [rem, cnt_init chunks hne, List.take_length]

theorem NE_init (chunks : List (List Nat)) (h : ∀ c ∈ chunks, c ≠ []) :
    NE chunks (some (chunks.length - 1)) := by
  intro ch hch; exact h ch (List.mem_of_mem_take hch)

theorem encodeSignificandChunks?_unfold (b : Buf) (chunks : List (List Nat)) (hne : chunks ≠ []) :
    encodeSignificandChunks? b chunks =
      (encodeLoopChunks (b.trailingDigits / 3) chunks (some (chunks.length - 1)) 0 b).bind fun r =>
        (msdChunks r.2.1 r.2.2).bind fun m => some (r.1, m) := by
  have : chunks.length ≠ 0 := fun h => hne (List.length_eq_zero_iff.1 h)
  simp only [encodeSignificandChunks?, this, if_false, Option.bind_eq_bind]

/-- **Partial correctness for ANY chunks, empty ones included**: if the Rust function does not panic, its result is
    that of the concatenation model. -/
theorem encodeSignificandChunks?_sound (b : Buf) (chunks : List (List Nat)) (r : Buf × Nat)
    (h : encodeSignificandChunks? b chunks = some r) : r = encodeSignificand b chunks.flatten := by
  by_cases hne : chunks = []
  · subst hne; simp [encodeSignificandChunks?] at h
  rw [encodeSignificandChunks?_unfold b chunks hne] at h
  cases hl : encodeLoopChunks (b.trailingDigits / 3) chunks (some (chunks.length - 1)) 0 b with
  | none => rw [hl] at h; cases h
  | some st =>
    obtain ⟨b', cs', idx'⟩ := st
    rw [hl] at h
    simp only [Option.bind_some] at h
    obtain ⟨e1, e2, -⟩ := (loop_spec _ chunks _ 0 b (Nat.le_of_eq (cnt_init chunks hne))).1 b' cs' idx' hl
    rw [rem_init chunks hne] at e1
    cases hm : msdChunks cs' idx' with
    | none => rw [hm] at h; cases h
    | some m =>
      rw [hm] at h
      simp only [Option.bind_some, Option.some.injEq] at h
      have hpre : rem cs' idx' <+: chunks.flatten := by
        have := encodeDeclets_rest_prefix (b.trailingDigits / 3) chunks.flatten 0 b
        rw [e1] at this; exact this
      have := (msd_spec cs' idx' chunks.flatten e2 hpre).1 m hm
      rw [← h, this]
      simp only [encodeSignificand, e1]

/-- **Main theorem, panic-tracking form**: with at least one chunk and no empty chunk, the Rust function does not
    panic and computes exactly what the concatenation model computes. -/
theorem encodeSignificandChunks?_eq (b : Buf) (chunks : List (List Nat)) (hne : chunks ≠ [])
    (h : ∀ c ∈ chunks, c ≠ []) :
    encodeSignificandChunks? b chunks = some (encodeSignificand b chunks.flatten) := by
  cases hr : encodeSignificandChunks? b chunks with
  | some r => rw [encodeSignificandChunks?_sound b chunks r hr]
  | none =>
    exfalso
    rw [encodeSignificandChunks?_unfold b chunks hne] at hr
    have hW := Nat.le_of_eq (cnt_init chunks hne)
    have hNE := NE_init chunks h
    obtain ⟨l1, l2⟩ := loop_spec (b.trailingDigits / 3) chunks _ 0 b hW
    cases hl : encodeLoopChunks (b.trailingDigits / 3) chunks (some (chunks.length - 1)) 0 b with
    | none => exact l2 hNE hl
    | some st =>
      obtain ⟨b', cs', idx'⟩ := st
      obtain ⟨e1, e2, e3⟩ := l1 b' cs' idx' hl
      rw [hl] at hr
      simp only [Option.bind_some] at hr
      have hpre : rem cs' idx' <+: chunks.flatten := by
        have := encodeDeclets_rest_prefix (b.trailingDigits / 3) chunks.flatten 0 b
        rw [rem_init chunks hne] at e1
        rw [e1] at this; exact this
      cases hm : msdChunks cs' idx' with
      | none => exact (msd_spec cs' idx' chunks.flatten e2 hpre).2 (e3 hNE) hm
      | some m => rw [hm] at hr; cases hr

/-- **Main theorem.** -/
theorem encodeSignificandChunks_eq (b : Buf) (chunks : List (List Nat)) (hne : chunks ≠ []) (h : ∀ c ∈ chunks, c ≠ []) :
    encodeSignificandChunks b chunks = encodeSignificand b chunks.flatten := by
  rw [encodeSignificandChunks, encodeSignificandChunks?_eq b chunks hne h]; rfl

/-- For ANY chunks: the Rust function either panics or agrees with the concatenation model — it never silently
    computes something else. -/
theorem encodeSignificandChunks?_panic_or_eq (b : Buf) (chunks : List (List Nat)) :
    encodeSignificandChunks? b chunks = none ∨
    encodeSignificandChunks? b chunks = some (encodeSignificand b chunks.flatten) := by
  cases hr : encodeSignificandChunks? b chunks with
  | none => exact Or.inl rfl
  | some r => exact Or.inr (by rw [encodeSignificandChunks?_sound b chunks r hr])

/-! ## corollaries for the two shapes the callers use (`convert.rs` l.113, l.139, l.186; `binary.rs` l.42) -/

/-- `encode_significand_trailing_digits(buf, [integer_digits])` -/
theorem encodeSignificandChunks_one (b : Buf) (ds : List Nat) (h : ds ≠ []) :
    encodeSignificandChunks b [ds] = encodeSignificand b ds := by
  rw [encodeSignificandChunks_eq b [ds] (by simp) (by simpa using h)]; simp

/-- `encode_significand_trailing_digits(buf, [integer_digits, fractional_digits])` -/
theorem encodeSignificandChunks_two (b : Buf) (i f : List Nat) (hi : i ≠ []) (hf : f ≠ []) :
    encodeSignificandChunks b [i, f] = encodeSignificand b (i ++ f) := by
  rw [encodeSignificandChunks_eq b [i, f] (by simp) (by simp [hi, hf])]; simp

/-! ## empty chunks -/

/-- If the LAST chunk is empty the very first call panics (any buffer with at least one declet). -/
theorem last_chunk_empty_panics (b : Buf) (pre : List (List Nat)) (hk : 0 < b.trailingDigits / 3) :
    encodeSignificandChunks? b (pre ++ [[]]) = none := by
  obtain ⟨k, hk'⟩ : ∃ k, b.trailingDigits / 3 = k + 1 := ⟨b.trailingDigits / 3 - 1, by omega⟩
  rw [encodeSignificandChunks?_unfold b _ (by simp), hk']
  have hget : (pre ++ [[]])[(pre ++ [[]]).length - 1]? = some [] := by simp
  rw [loop_succ_panic _ _ _ _ _ (next_empty _ _ hget)]
  rfl

/-- After the loop, `chunk_index = Some(_)` with an empty (shrunk) first chunk: `chunks[0][0]` panics.
    (Happens e.g. for `["", "1234567"]` into decimal32.) -/
theorem msd_empty_panics (cs : List (List Nat)) (c : Nat) (h : cs[0]? = some []) : msdChunks cs (some c) = none := by
  simp [msdChunks, h]

/-- No chunks at all (`N = 0`): `Some(N - 1)` underflows. -/
theorem no_chunks_panics (b : Buf) : encodeSignificandChunks? b [] = none := rfl

/-! ## the literal loop counters -/

theorem encodeLoopChunksDI_eq : ∀ (fuel di maxDigits : Nat) (cs : List (List Nat)) (idx : Option Nat) (bit : Nat) (b : Buf),
    (maxDigits - di + 2) / 3 < fuel →
    encodeLoopChunksDI fuel di maxDigits cs idx bit b = encodeLoopChunks ((maxDigits - di + 2) / 3) cs idx bit b := by
  intro fuel
  induction fuel with
  | zero => intro di maxDigits cs idx bit b h; omega
  | succ fuel ih =>
    intro di maxDigits cs idx bit b h
    by_cases hlt : di < maxDigits
    · have hk : (maxDigits - di + 2) / 3 = (maxDigits - (di + 3) + 2) / 3 + 1 := by omega
      rw [hk]
      simp only [encodeLoopChunksDI, hlt, if_true, encodeLoopChunks]
      cases hn : nextAsciiDecletRev cs idx with
      | none => rfl
      | some r =>
        obtain ⟨r, cs', idx'⟩ := r
        cases r with
        | none => rfl
        | some d =>
          obtain ⟨a0, a1, a2⟩ := d
          simp only [Option.bind_eq_bind, Option.bind_some]
          exact ih (di + 3) maxDigits cs' idx' _ _ (by omega)
    · have hk : (maxDigits - di + 2) / 3 = 0 := by omega
      rw [hk]
      simp [encodeLoopChunksDI, hlt, encodeLoopChunks]

/-- `max_digits % 3 = 0` (the `debug_assert` of l.37) for every buffer of `4n` bytes -/
theorem trailingDigits_mod3 (b : Buf) (h : b.len % 4 = 0) : b.trailingDigits % 3 = 0 := by
  simp only [Buf.trailingDigits, Buf.precision, Buf.widthBits]
  omega

/-- for every width `32n` the literal `while digit_index < max_digits` loop is the `max_digits / 3`-fold loop used in
    `encodeSignificandChunks?` (and in `Model.Binary.encodeDeclets`) -/
theorem encodeLoopChunksDI_trailing (b : Buf) (h : b.len % 4 = 0) (cs : List (List Nat)) (idx : Option Nat) :
    encodeLoopChunksDI (b.trailingDigits + 1) 0 b.trailingDigits cs idx 0 b =
      encodeLoopChunks (b.trailingDigits / 3) cs idx 0 b := by
  have h3 := trailingDigits_mod3 b h
  have e : (b.trailingDigits - 0 + 2) / 3 = b.trailingDigits / 3 := by omega
  rw [encodeLoopChunksDI_eq _ _ _ _ _ _ _ (by omega), e]

/-! ## TEST (not a proof): differential self-test of the transcription against the concatenation model

Kernel evaluation of both functions on every split position of `"1234567"` and of a 16-digit string, into two
chunks (and every split into three chunks for the 7-digit string), for decimal32/64/96 buffers — so that digits are
left over (MSD from `chunks[0][0]`), run out exactly, and run out early (zero padding).  This is a sanity check of
`Model/Chunks.lean` in addition to `encodeSignificandChunks_eq`; the same functions were also compared with the
compiled Rust code (see NOTES.md). -/
section Test

def s7 : List Nat := [49, 50, 51, 52, 53, 54, 55]                                  -- "1234567"
def s16 : List Nat := [57, 56, 55, 54, 53, 52, 51, 50, 49, 48, 49, 50, 51, 52, 53, 54]  -- "9876543210123456"

/-- the test: both models agree on `l` cut at position `i` -/
def agree2 (nbytes : Nat) (l : List Nat) (i : Nat) : Bool :=
  encodeSignificandChunks? (Buf.zero nbytes) [l.take i, l.drop i] == some (encodeSignificand (Buf.zero nbytes) l)

def agree3 (nbytes : Nat) (l : List Nat) (i j : Nat) : Bool :=
  encodeSignificandChunks? (Buf.zero nbytes) [l.take i, (l.drop i).take j, (l.drop i).drop j]
    == some (encodeSignificand (Buf.zero nbytes) l)

-- one chunk
example : encodeSignificandChunks (Buf.zero 4) [s7] = encodeSignificand (Buf.zero 4) s7 := by decide +kernel
example : encodeSignificandChunks (Buf.zero 8) [s16] = encodeSignificand (Buf.zero 8) s16 := by decide +kernel
-- "1234567": split positions 1..6, decimal32 (one digit left over) and decimal64 (zero padding)
example : ∀ i ∈ [1, 2, 3, 4, 5, 6], agree2 4 s7 i = true := by decide +kernel
example : ∀ i ∈ [1, 2, 3, 4, 5, 6], agree2 8 s7 i = true := by decide +kernel
-- the value both compute for decimal32: declets 567, 234 and most significant digit 1
example : encodeSignificandChunks (Buf.zero 4) [[49, 50, 51], [52, 53, 54, 55]] = (⟨4, 316135⟩, 1) := by decide +kernel
-- 16 digits: split positions 1..15, decimal32 (ten digits left over), decimal64 (exact fit), decimal96 (padding)
example : ∀ i ∈ List.range' 1 15, agree2 4 s16 i = true := by decide +kernel
example : ∀ i ∈ List.range' 1 15, agree2 8 s16 i = true := by decide +kernel
example : ∀ i ∈ List.range' 1 15, agree2 12 s16 i = true := by decide +kernel
-- "1234567" into three non-empty chunks, all 15 ways
example : ∀ i ∈ List.range' 1 5, ∀ j ∈ List.range' 1 (6 - i), agree3 4 s7 i j = true := by decide +kernel
example : ∀ i ∈ List.range' 1 5, ∀ j ∈ List.range' 1 (6 - i), agree3 8 s7 i j = true := by decide +kernel

/-! ### TEST: empty chunks (inputs the callers never produce) -/

-- `["", "123"]`: first call finishes chunk 1 by the `3 =>` arm, second call finds the empty chunk 0: panic
example : encodeSignificandChunks? (Buf.zero 4) [[], [49, 50, 51]] = none := by decide +kernel
-- `["123", ""]`: the cursor starts on the empty chunk: panic at once
example : encodeSignificandChunks? (Buf.zero 4) [[49, 50, 51], []] = none := by decide +kernel
-- `["", "1234567"]` (decimal32): both declets come from chunk 1, then `chunks[0][0]` panics
example : encodeSignificandChunks? (Buf.zero 4) [[], s7] = none := by decide +kernel
-- `["", "12345"]`: chunk 1 ends in the `2 =>` arm, the slow path skips the empty chunk (l.199): no panic, right answer
example : encodeSignificandChunks? (Buf.zero 4) [[], [49, 50, 51, 52, 53]]
    = some (encodeSignificand (Buf.zero 4) [49, 50, 51, 52, 53]) := by decide +kernel
-- `["12", "", "34"]`: the empty chunk is met inside the slow path and skipped
example : encodeSignificandChunks? (Buf.zero 4) [[49, 50], [], [51, 52]]
    = some (encodeSignificand (Buf.zero 4) [49, 50, 51, 52]) := by decide +kernel
-- `["1", "", "234567"]` (decimal32): the loop stops before it reaches the empty chunk: no panic, right answer
example : encodeSignificandChunks? (Buf.zero 4) [[49], [], [50, 51, 52, 53, 54, 55]] = some (encodeSignificand (Buf.zero 4) s7) := by
  decide +kernel
-- `["1234", "", "567"]`: the empty chunk is met at the start of a call: panic
example : encodeSignificandChunks? (Buf.zero 4) [[49, 50, 51, 52], [], [53, 54, 55]] = none := by decide +kernel
-- the total wrapper returns its junk default `(b, 0)` exactly there
example : encodeSignificandChunks (Buf.zero 4) [[49, 50, 51, 52], [], [53, 54, 55]] = (Buf.zero 4, 0) := by decide +kernel

end Test

/-! ## the hypotheses of the main theorems are satisfiable (non-trivial instances) -/

example : encodeSignificandChunks (Buf.zero 8) [[49, 50], [51, 52, 53, 54, 55]] = encodeSignificand (Buf.zero 8) s7 :=
  encodeSignificandChunks_eq (Buf.zero 8) [[49, 50], [51, 52, 53, 54, 55]] (by decide) (by decide)

example : encodeSignificandChunks? (Buf.zero 4) [[49], [50, 51, 52], [53, 54, 55]] = some (encodeSignificand (Buf.zero 4) s7) :=
  encodeSignificandChunks?_eq (Buf.zero 4) [[49], [50, 51, 52], [53, 54, 55]] (by decide) (by decide)

example : (Buf.zero 8).len % 4 = 0 := by decide

#print axioms encodeSignificandChunks_eq
#print axioms encodeSignificandChunks?_eq
#print axioms encodeSignificandChunks?_sound
#print axioms encodeSignificandChunks?_panic_or_eq
#print axioms slowLoop_spec
#print axioms next_spec
#print axioms loop_spec
#print axioms last_chunk_empty_panics
#print axioms encodeLoopChunksDI_trailing

end Decstr.Proofs.Chunks
