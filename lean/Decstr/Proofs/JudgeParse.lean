import Decstr.Proofs.JudgeLemmas
import Decstr.Proofs.Grammar
import Decstr.Props.C06
import Decstr.Props.C02
import Decstr.Props.C03
/-!
# Proofs.JudgeParse — the oracle's judgement of a `parse_str` answer, case by case

`judgeParse` (Spec/Judge.lean) distinguishes by `Spec.parse txt`.  For each of the four cases this file shows that the
outcome the property theorems give (`C06.FiniteOutcome`, `C06.NanOutcome`, `C09_tryParseStr_inf`, `C06_reject`) is one
the oracle accepts; plus two facts about what the string entry point returns (capacity, decoded datum).
-/
namespace Decstr.Proofs.Judge
open Decstr.Model Decstr.Spec Decstr.Proofs Decstr.Props

theorem parse_finite_int_ne (txt : List Nat) (s : Bool) (i fr : List Nat) (ex : Option (Bool × List Nat))
    (h : parse txt = some (.finite s i fr ex)) : i ≠ [] := by
  have hm := Grammar.parse_sound h
  cases hm with
  | finite sg i' fr' ex' s' f e hs hi hf he =>
    intro h0
    exact hi.1 (List.map_eq_nil_iff.1 h0)

theorem need_gt_of_not_inI32 (d : Nat) (x : Int) (k : Nat) (hk : k ≤ d) (hx : inI32 x = false) :
    5 < need d (some (x - k)) := by
  apply Nat.lt_of_not_le
  intro hle
  rw [need_le_iff _ _ 5 (by decide), fitsB_some] at hle
  have := pw_5
  simp only [inI32, Bool.and_eq_false_iff, decide_eq_false_iff_not] at hx
  omega

theorem judge_finite (T : Ty) (txt : List Nat) (s : Bool) (i fr : List Nat) (ex : Option (Bool × List Nat))
    (hp : parse txt = some (.finite s i fr ex)) (r : Except Err Buf)
    (h : C06.FiniteOutcome T s (ofDigits (i ++ fr)) (i.length + fr.length) (expValue ex) (expValue ex - fr.length) r) :
    judgeParse T txt (pans r) = [] := by
  have hi := parse_finite_int_ne txt s i fr ex hp
  unfold C06.FiniteOutcome at h
  by_cases hx : (T.expIsI32 && !inI32 (expValue ex)) = true
  · rw [if_pos hx] at h; subst h
    obtain ⟨hi32, hnot⟩ : T.expIsI32 = true ∧ inI32 (expValue ex) = false := by simpa using hx
    obtain ⟨cap, hcap, hc5⟩ : ∃ cap, T.capN = some cap ∧ cap ≤ 5 := by
      cases T <;> simp [Ty.expIsI32, Ty.capN] at hi32 ⊢
    have hneed := need_gt_of_not_inI32 (i ++ fr).length (expValue ex) fr.length (by simp) hnot
    simp only [judgeParse, pans, errFacts, hp, hcap, judgeOverflowErr, hnot]
    have hgt : need (i ++ fr).length (some (expValue ex - ↑fr.length)) > cap := by omega
    rw [chk_decide _ _ _ hgt, if_pos hgt]
    rfl
  · have hx' : (T.expIsI32 && !inI32 (expValue ex)) = false := by simpa using hx
    rw [if_neg hx] at h
    have hd1 : max 1 (stripZeros (i ++ fr)).length ≤ (i ++ fr).length := by
      have h1 := stripZeros_length_le (i ++ fr)
      have h2 : 0 < (i ++ fr).length := by
        cases i with
        | nil => exact absurd rfl hi
        | cons a l => simp
      omega
    have hlen : i.length + fr.length = (i ++ fr).length := by simp
    rw [hlen] at h
    have hmono := need_mono_digits _ _ (some (expValue ex - ↑fr.length)) hd1
    cases r with
    | ok b =>
      obtain ⟨n, hn, hb, hfit, hlt, hc, hcapn, hw⟩ := h
      subst hb
      simp only at hlt
      have hneedn := (need_le_iff _ _ n hn).2 hfit
      have hfit' := fitsB_mono_digits n _ _ _ hd1 hfit
      have hjb := judgeBytes_mk "C01" n _ hlt
      have hl4 : (Buf.toBytes ⟨4 * n, encodeFin ⟨n⟩ s (ofDigits (i ++ fr)) (expValue ex - ↑fr.length)⟩).length / 4 = n := by
        rw [toBytes_mk_length]; omega
      cases hcap : T.capN with
      | some cap =>
        have hncap := hcapn cap hcap
        cases hfix : T.fixedN with
        | some w =>
          rw [hfix] at hw; subst hw
          simp only [judgeParse, pans, hp, hcap, hfix, hjb]
          rw [chk_decide _ _ _ (by omega)]; rfl
        | none =>
          rw [hfix] at hw
          simp only [judgeParse, pans, hp, hcap, hfix, hl4, hjb]
          simp only at hw
          obtain ⟨hw1, hw2, hw3⟩ := hw
          have hc5 := C01.capN_le_five T cap hcap
          have hnn := hw3 (by omega)
          rw [chk_decide _ _ _ (by omega),
            chk_of _ _ _ (by simp only [Bool.and_eq_true, decide_eq_true_eq]; omega)]
          rfl
      | none =>
        have hfix : T.fixedN = none := by cases T <;> simp [Ty.capN] at hcap; rfl
        rw [hfix] at hw
        simp only at hw
        obtain ⟨hw1, hw2, hw3⟩ := hw
        simp only [judgeParse, pans, hp, hcap, hl4, hjb, hfit']
        rw [chk_of _ _ _ (by simp only [Bool.and_eq_true, decide_eq_true_eq]; omega)]
        rfl
    | error e =>
      cases e with
      | parse pe => exact h.elim
      | overflow oe =>
        cases oe with
        | wouldOverflow mx rq =>
          obtain ⟨cap, n, hcap, hlt, hmx, hrq, hcn, hfit⟩ := h
          subst hmx hrq
          have hin : inI32 (expValue ex) = true := by
            have := C01.expIsI32_of_cap T cap hcap
            simpa [this] using hx'
          have e4 : 4 * n / 4 = n := by omega
          simp only [judgeParse, pans, errFacts, hp, hcap, judgeOverflowErr, hin, e4, hfit]
          rw [chk_decide _ _ _ hlt, if_pos hlt]
          have h1 : 4 * n > 4 * cap := by omega
          have h2 : (4 * n % 4 == 0) = true := by simp
          rw [chk_decide _ _ _ h1, chk_of _ _ _ h2]
          simp [chk]
        | exponentOutOfRange m => exact h.elim
        | sizeMismatch g r => exact h.elim

theorem encodeDeclets_len (k : Nat) (ds : List Nat) (bit : Nat) (b : Buf) : (encodeDeclets k ds bit b).1.len = b.len := by
  induction k generalizing ds bit b with
  | zero => rfl
  | succ k ih =>
    unfold encodeDeclets
    split
    · rfl
    · simp only
      rw [ih]; rfl

theorem encodeSignificand_len (b : Buf) (ds : List Nat) : (encodeSignificand b ds).1.len = b.len := by
  unfold encodeSignificand
  exact encodeDeclets_len _ _ _ _

theorem alloc_len_cap (T : Ty) (k : Nat) (b : Buf) (h : T.withAtLeastBytes k = .ok b) (cap : Nat) (hc : T.capN = some cap) :
    b.len ≤ 4 * cap := by
  cases T <;> simp only [Ty.withAtLeastBytes, Ty.capN] at h hc <;>
    first
      | (split at h
         · cases h
         · injection h with h; injection hc with hc; subst h hc; simp only [Buf.zero]; omega)
      | cases hc

/-- a NaN given a buffer by a bounded type lies within that type's capacity -/
theorem fromParsed_nan_len (T : Ty) (pn : NanParser.ParsedNan) (b : Buf) (h : fromParsed T (.nan pn) = .ok b)
    (cap : Nat) (hc : T.capN = some cap) : b.len ≤ 4 * cap := by
  obtain ⟨tb, sg, neg, payload⟩ := pn
  simp only [fromParsed] at h
  split at h
  · split at h
    · cases h
    · rename_i buf hbuf
      injection h with h; subst h
      have := alloc_len_cap T _ buf hbuf cap hc
      show (encodeSignificand buf _).1.len ≤ _
      rw [encodeSignificand_len]; exact this
  · split at h
    · rename_i buf hbuf
      injection h with h; subst h
      exact alloc_len_cap T _ buf hbuf cap hc
    · cases h

theorem tryParseStr_nan_len (T : Ty) (txt : List Nat) (s g : Bool) (pl : Option (List Nat))
    (hp : parse txt = some (.nan s g pl)) (b : Buf) (h : tryParseStr T txt = .ok b)
    (cap : Nat) (hc : T.capN = some cap) : b.len ≤ 4 * cap := by
  unfold tryParseStr at h
  cases hps : parseStr txt with
  | error e => rw [hps] at h; cases h
  | ok p =>
    rw [hps] at h
    have hnum := parseStr_numeral txt p hps
    rw [hp] at hnum
    injection hnum with hnum
    cases p with
    | finite f => simp only [numeralOf, numeralOfFinite] at hnum; split at hnum <;> cases hnum
    | infinity neg => simp [numeralOf] at hnum
    | nan pn =>
      simp only at h
      cases hf : fromParsed T (.nan pn) with
      | error e => rw [hf] at h; cases h
      | ok b' =>
        rw [hf] at h
        injection h with h; subst h
        exact fromParsed_nan_len T pn b' hf cap hc

theorem fixed_cap (T : Ty) (w : Nat) (h : T.fixedN = some w) : T.capN = some w := by
  cases T <;> simp [Ty.fixedN] at h <;> subst h <;> rfl

theorem cap_pos (T : Ty) (cap : Nat) (h : T.capN = some cap) : 0 < cap := by
  cases T <;> simp [Ty.capN] at h <;> omega

theorem judge_nan (T : Ty) (txt : List Nat) (s g : Bool) (pl : Option (List Nat))
    (hp : parse txt = some (.nan s g pl)) (r : Except Err Buf)
    (hlen : ∀ b, r = .ok b → ∀ cap, T.capN = some cap → b.len ≤ 4 * cap)
    (h : C06.NanOutcome T s g (pl.getD []) r) :
    judgeParse T txt (pans r) = [] := by
  unfold C06.NanOutcome at h
  have hsd : (stripZeros (pl.getD [])).length + 1 ≤ (pl.getD []).length + 1 := by
    have := stripZeros_length_le (pl.getD []); omega
  have hmono := need_mono_digits _ _ none hsd
  cases r with
  | ok b =>
    obtain ⟨n, hn, hb, hpay, h0, h1⟩ := h
    have hlt := (decode_encodeNan n hn s g _ hpay).2
    have hlen' := hlen b rfl
    subst hb
    have hjb := judgeBytes_mk "C09" n _ hlt
    have hl4 : (Buf.toBytes ⟨4 * n, Spec.encodeNan ⟨n⟩ s g (ofDigits (pl.getD []))⟩).length / 4 = n := by
      rw [toBytes_mk_length]; omega
    -- the width facts, uniformly for an empty and a non-empty payload
    have hneedn : need ((pl.getD []).length + 1) none ≤ n := by
      by_cases he : pl.getD [] = []
      · rw [he, need_none_eq]; simp; omega
      · rw [need_le_iff _ _ n hn, fitsB_none]
        have := (h1 he).1
        simpa [Fmt.p] using this
    have hw : match T.fixedN with
        | some w => n = w
        | none => n ≤ need ((pl.getD []).length + 1) none + 1 ∧
                  (need ((pl.getD []).length + 1) none ≤ 5 → n = need ((pl.getD []).length + 1) none) := by
      by_cases he : pl.getD [] = []
      · have hn0 := h0 he
        cases hfix : T.fixedN with
        | some w => simp [hn0, C09.baseN, hfix]
        | none =>
          have : n = 1 := by simp [hn0, C09.baseN, hfix]
          subst this
          simp only
          have := need_pos ((pl.getD []).length + 1) none
          refine ⟨by omega, fun _ => by omega⟩
      · have := (h1 he).2
        cases hfix : T.fixedN with
        | some w => rw [hfix] at this; exact this
        | none => rw [hfix] at this; exact ⟨this.2.1, this.2.2⟩
    cases hcap : T.capN with
    | some cap =>
      have hncap : n ≤ cap := by have := hlen' cap hcap; simp only at this; omega
      cases hfix : T.fixedN with
      | some w =>
        rw [hfix] at hw; subst hw
        simp only [judgeParse, pans, hp, hcap, hfix, hjb]
        rw [chk_decide _ _ _ (by omega)]; rfl
      | none =>
        rw [hfix] at hw
        simp only at hw
        obtain ⟨hw2, hw3⟩ := hw
        have hc5 := C01.capN_le_five T cap hcap
        have hnn := hw3 (by omega)
        simp only [judgeParse, pans, hp, hcap, hfix, hl4, hjb]
        rw [chk_decide _ _ _ (by omega),
          chk_of _ _ _ (by simp only [Bool.and_eq_true, decide_eq_true_eq]; omega)]
        rfl
    | none =>
      have hfix : T.fixedN = none := by cases T <;> simp [Ty.capN] at hcap; rfl
      rw [hfix] at hw
      simp only at hw
      obtain ⟨hw2, hw3⟩ := hw
      simp only [judgeParse, pans, hp, hcap, hl4, hjb]
      rw [chk_of _ _ _ (by simp only [Bool.and_eq_true, decide_eq_true_eq]; omega)]
      rfl
  | error e =>
    cases e with
    | parse pe => exact h.elim
    | overflow oe =>
      cases oe with
      | wouldOverflow mx rq =>
        obtain ⟨hne, cap, n, hcap, hlt, hmx, hrq, hcn, hfit⟩ := h
        subst hmx hrq
        have e4 : 4 * n / 4 = n := by omega
        simp only [judgeParse, pans, errFacts, hp, hcap, judgeOverflowErr, e4, hfit]
        rw [chk_decide _ _ _ hlt, if_pos hlt]
        have h1 : 4 * n > 4 * cap := by omega
        have h2 : (4 * n % 4 == 0) = true := by simp
        rw [chk_decide _ _ _ h1, chk_of _ _ _ h2]
        simp [chk]
      | exponentOutOfRange m => exact h.elim
      | sizeMismatch g r => exact h.elim

theorem judge_inf (T : Ty) (txt : List Nat) (s : Bool) (hp : parse txt = some (.inf s)) :
    judgeParse T txt (pans (.ok ⟨4 * C09.baseN T, encodeInf ⟨C09.baseN T⟩ s⟩)) = [] := by
  have hlt := (decode_encodeInf (C09.baseN T) (C09.baseN_pos T) s).2
  have hjb := judgeBytes_mk "C09" (C09.baseN T) _ hlt
  simp only [judgeParse, pans, hp]
  exact hjb

theorem judge_reject (T : Ty) (txt : List Nat) (hp : parse txt = none) :
    judgeParse T txt (pans (tryParseStr T txt)) = [] := by
  rcases C06.C06_reject txt hp with ⟨i, c, hfb, hget, hps⟩ | ⟨hfb, hps⟩
  · have : tryParseStr T txt = .error (.parse (.char c)) := by simp [tryParseStr, hps]
    rw [this]
    have hg : txt.getD i 0 = c := by simp [List.getD, hget]
    simp only [judgeParse, pans, errFacts, hp, judgeSyntaxErr, hfb, hg]
    simp [chk]
  · have : tryParseStr T txt = .error (.parse .endOfInput) := by simp [tryParseStr, hps]
    rw [this]
    simp only [judgeParse, pans, errFacts, hp, judgeSyntaxErr, hfb]
    simp [chk]

theorem tryParseStr_parse_err (T : Ty) (txt : List Nat) (e : ParseErr) (h : tryParseStr T txt = .error (.parse e)) :
    (∃ c, e = .char c) ∨ e = .endOfInput := by
  unfold tryParseStr at h
  cases hp : parseStr txt with
  | ok p =>
    rw [hp] at h
    simp only at h
    cases hf : fromParsed T p with
    | ok b => rw [hf] at h; cases h
    | error oe => rw [hf] at h; cases h
  | error pe =>
    rw [hp] at h
    injection h with h; injection h with h; subst h
    rcases parseStr_error_kind txt pe hp with ⟨c, rfl⟩ | rfl
    · exact Or.inl ⟨c, rfl⟩
    · exact Or.inr rfl

/-- whatever a bounded type returns from the string entry point lies within its capacity -/
theorem tryParseStr_len_cap (T : Ty) (txt : List Nat) (b : Buf) (h : tryParseStr T txt = .ok b)
    (cap : Nat) (hc : T.capN = some cap) : b.len ≤ 4 * cap := by
  cases hp : parse txt with
  | none =>
    obtain ⟨e, he, _⟩ := C06.C06_tryParseStr_reject T txt hp
    rw [he] at h; cases h
  | some num =>
    cases num with
    | finite s i fr ex =>
      have hout := C06.C01_tryParseStr_finite T txt s i fr ex hp
      unfold C06.FiniteOutcome at hout
      rw [h] at hout
      split at hout
      · cases hout
      · obtain ⟨n, _, hb, _, _, _, hcapn, _⟩ := hout
        have := hcapn cap hc
        rw [hb]; simp only; omega
    | inf s =>
      rw [C06.C09_tryParseStr_inf T txt s hp] at h
      injection h with h; subst h
      simp only
      have : C09.baseN T ≤ cap := by cases T <;> simp [Ty.capN] at hc <;> subst hc <;> decide
      omega
    | nan s g pl => exact tryParseStr_nan_len T txt s g pl hp b h cap hc

/-- what the string entry point returns decodes to the datum of the numeral it was given -/
theorem tryParseStr_decode (T : Ty) (txt : List Nat) (num : Numeral) (hp : parse txt = some num) (b : Buf)
    (h : tryParseStr T txt = .ok b) : ∃ n, WF b n ∧ C02.Holds T n ∧ decode ⟨n⟩ b.bits = num.datum := by
  have hholds : ∀ n, b.len = 4 * n → C02.Holds T n := by
    intro n hl hi
    obtain ⟨cap, hcap, hc5⟩ : ∃ cap, T.capN = some cap ∧ cap ≤ 5 := by
      cases T <;> simp [Ty.expIsI32, Ty.capN] at hi ⊢
    have := tryParseStr_len_cap T txt b h cap hcap
    omega
  cases num with
  | finite s i fr ex =>
    have hout := C06.C01_tryParseStr_finite T txt s i fr ex hp
    unfold C06.FiniteOutcome at hout
    rw [h] at hout
    split at hout
    · cases hout
    · obtain ⟨n, hn, hb, hfit, hlt, hc, _, _⟩ := hout
      have hfit' := hfit
      simp only [Fmt.fitsB, Bool.and_eq_true, decide_eq_true_eq] at hfit'
      refine ⟨n, ⟨hn, by rw [hb], hlt⟩, hholds n (by rw [hb]), ?_⟩
      rw [hb, C03.datum_finite]
      exact (decode_encodeFin n hn s _ _ hc ⟨hfit'.2.1, hfit'.2.2⟩).1
  | inf s =>
    rw [C06.C09_tryParseStr_inf T txt s hp] at h
    injection h with h; subst h
    obtain ⟨hdec, hlt⟩ := decode_encodeInf (C09.baseN T) (C09.baseN_pos T) s
    exact ⟨C09.baseN T, ⟨C09.baseN_pos T, rfl, hlt⟩, hholds _ rfl, hdec⟩
  | nan s g pl =>
    have hout := C06.C09_tryParseStr_nan T txt s g pl hp
    unfold C06.NanOutcome at hout
    rw [h] at hout
    obtain ⟨n, hn, hb, hpay, _, _⟩ := hout
    obtain ⟨hdec, hlt⟩ := decode_encodeNan n hn s g _ hpay
    refine ⟨n, ⟨hn, by rw [hb], by rw [hb]; exact hlt⟩, hholds n (by rw [hb]), ?_⟩
    rw [hb]; exact hdec

end Decstr.Proofs.Judge

#print axioms Decstr.Proofs.Judge.judge_finite
#print axioms Decstr.Proofs.Judge.judge_nan
#print axioms Decstr.Proofs.Judge.judge_inf
#print axioms Decstr.Proofs.Judge.judge_reject
#print axioms Decstr.Proofs.Judge.tryParseStr_len_cap
#print axioms Decstr.Proofs.Judge.tryParseStr_decode
