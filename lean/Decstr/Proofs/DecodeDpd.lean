import Decstr.Proofs.Basic
/-!
# Proofs.DecodeDpd — the DPD declet decoder and the trailing significand
-/
namespace Decstr.Proofs.DecodeAux
open Decstr.Model Decstr.Spec

instance (ds : List Nat) : Decidable (AsciiDigits ds) := by unfold AsciiDigits; infer_instance

/-- the eight arms of the DPD decoder = IEEE Table 3.3 on all 1024 code points -/
theorem _root_.Decstr.Proofs.bcdOfDpd_spec : ∀ x < 1024, AsciiDigits (asciiOfBcd (bcdOfDpd x)) ∧ valOf (asciiOfBcd (bcdOfDpd x)) = dpdDecode x := by
  decide +kernel

theorem and_low (y m : Nat) (hm : m < 1024) : y &&& m = (y % 1024) &&& m := by
  have h1 : y &&& m < 1024 := Nat.lt_of_le_of_lt Nat.and_le_right hm
  have h2 := Nat.and_mod_two_pow (a := y) (b := m) (n := 10)
  rw [show (2:Nat)^10 = 1024 from rfl, Nat.mod_eq_of_lt h1, Nat.mod_eq_of_lt hm] at h2
  exact h2

theorem _root_.Decstr.Proofs.bcdOfDpd_low (y : Nat) : bcdOfDpd y = bcdOfDpd (y % 1024) := by
  unfold bcdOfDpd
  simp only [and_low y 1 (by decide), and_low y 2 (by decide), and_low y 4 (by decide), and_low y 8 (by decide),
    and_low y 16 (by decide), and_low y 32 (by decide), and_low y 64 (by decide), and_low y 128 (by decide),
    and_low y 256 (by decide), and_low y 512 (by decide), and_low y (2 ||| 4 ||| 8) (by decide),
    and_low y (2 ||| 4 ||| 8 ||| 32 ||| 64) (by decide)]

theorem or_shift_add (a c k : Nat) (ha : a < 2 ^ k) : a ||| (c <<< k) = a + c * 2 ^ k := by
  rw [Nat.shiftLeft_eq, Nat.mul_comm c, Nat.or_comm, ← Nat.two_pow_add_eq_or_of_lt ha]
  omega

/-- two adjacent bytes of `M`, read at an offset `s ≤ 7` -/
theorem window (M s : Nat) (hs : s < 8) :
    ((M % 256) >>> s) ||| ((M / 256 % 256) <<< (8 - s)) = M / 2 ^ s % 2 ^ (16 - s) := by
  have ha : (M % 256) >>> s < 2 ^ (8 - s) := by
    rw [Nat.shiftRight_eq_div_pow, Nat.div_lt_iff_lt_mul (Nat.two_pow_pos _), ← Nat.pow_add]
    have : 8 - s + s = 8 := by omega
    rw [this]; omega
  rw [or_shift_add _ _ _ ha, Nat.shiftRight_eq_div_pow]
  have : s = 0 ∨ s = 1 ∨ s = 2 ∨ s = 3 ∨ s = 4 ∨ s = 5 ∨ s = 6 ∨ s = 7 := by omega
  rcases this with rfl | rfl | rfl | rfl | rfl | rfl | rfl | rfl <;> simp <;> omega

theorem get_eq (b : Buf) (i : Nat) : b.get i = b.bits / 2 ^ (8 * i) % 256 := by
  simp [Buf.get, Nat.shiftRight_eq_div_pow]

theorem get_succ (b : Buf) (i : Nat) : b.get (i + 1) = b.bits / 2 ^ (8 * i) / 256 % 256 := by
  rw [get_eq, Nat.div_div_eq_div_mul, Nat.mul_add, Nat.pow_add]

theorem div_pow_add (a x y : Nat) : a / 2 ^ (x + y) = a / 2 ^ x / 2 ^ y := by
  rw [Nat.div_div_eq_div_mul, ← Nat.pow_add]

theorem readDpd_eq (b : Buf) (bit : Nat) :
    readDpd b bit = b.bits / 2 ^ bit % 2 ^ (16 - bit % 8) := by
  unfold readDpd
  have hs : bit % 8 < 8 := Nat.mod_lt _ (by decide)
  rw [get_succ, get_eq, window _ _ hs, ← div_pow_add]
  have : 8 * (bit / 8) + bit % 8 = bit := by omega
  rw [this]
  apply Nat.mod_eq_of_lt
  calc _ < 2 ^ (16 - bit % 8) := Nat.mod_lt _ (Nat.two_pow_pos _)
    _ ≤ 2 ^ 16 := Nat.pow_le_pow_right (by decide) (by omega)

theorem _root_.Decstr.Proofs.readDpd_spec (b : Buf) (bit : Nat) (he : bit % 2 = 0) : readDpd b bit % 1024 = b.bits / 2 ^ bit % 1024 := by
  rw [readDpd_eq]
  have : 16 - bit % 8 = 10 + (6 - bit % 8) := by omega
  rw [this, Nat.pow_add]
  exact Nat.mod_mul_right_mod _ _ _

theorem ofDigits_foldl (ds : List Nat) (a : Nat) :
    ds.foldl (fun a d => 10 * a + d) a = a * 10 ^ ds.length + ofDigits ds := by
  induction ds generalizing a with
  | nil => simp [ofDigits]
  | cons d ds ih =>
    simp only [List.foldl_cons, List.length_cons, ofDigits]
    rw [ih, ih (10 * 0 + d), Nat.pow_succ]
    rw [Nat.add_mul, Nat.mul_zero, Nat.zero_add, Nat.add_assoc]
    congr 1
    rw [Nat.mul_comm 10 a, Nat.mul_assoc, Nat.mul_comm 10]

theorem ofDigits_append (xs ys : List Nat) : ofDigits (xs ++ ys) = ofDigits xs * 10 ^ ys.length + ofDigits ys := by
  unfold ofDigits
  rw [List.foldl_append, ofDigits_foldl]
  rfl

theorem valOf_append (xs ys : List Nat) : valOf (xs ++ ys) = valOf xs * 10 ^ ys.length + valOf ys := by
  simp [valOf, digitVals, ofDigits_append]

theorem valOf_cons (a : Nat) (ds : List Nat) : valOf (a :: ds) = (a - 48) * 10 ^ ds.length + valOf ds := by
  have := valOf_append [a] ds
  simpa [valOf, digitVals, ofDigits] using this

theorem trailingDecode_top (k T : Nat) :
    trailingDecode (k + 1) T = trailingDecode k (T % 2 ^ (10 * k)) + 1000 ^ k * dpdDecode (T / 2 ^ (10 * k) % 1024) := by
  induction k generalizing T with
  | zero => simp [trailingDecode]
  | succ k ih =>
    rw [trailingDecode, ih (T / 1024)]
    conv => rhs; rw [trailingDecode]
    have e : 2 ^ (10 * (k + 1)) = 1024 * 2 ^ (10 * k) := by rw [Nat.mul_add, Nat.pow_add]; simp [Nat.mul_comm]
    rw [e, Nat.mod_mul_right_div_self, Nat.mod_mul_right_mod, Nat.div_div_eq_div_mul, Nat.pow_succ]
    generalize dpdDecode (T / (1024 * 2 ^ (10 * k)) % 1024) = X
    generalize trailingDecode k (T / 1024 % 2 ^ (10 * k)) = Y
    rw [Nat.mul_add, Nat.add_assoc]
    congr 2
    rw [Nat.mul_comm (1000 ^ k) 1000, Nat.mul_assoc]


/-- one declet read from the buffer at an even bit offset -/
theorem declet_spec (b : Buf) (bit : Nat) (he : bit % 2 = 0) :
    (asciiOfBcd (bcdOfDpd (readDpd b bit))).length = 3 ∧ AsciiDigits (asciiOfBcd (bcdOfDpd (readDpd b bit))) ∧
    valOf (asciiOfBcd (bcdOfDpd (readDpd b bit))) = dpdDecode (b.bits / 2 ^ bit % 1024) := by
  rw [bcdOfDpd_low, readDpd_spec b bit he]
  have h := bcdOfDpd_spec (b.bits / 2 ^ bit % 1024) (Nat.mod_lt _ (by decide))
  exact ⟨rfl, h.1, h.2⟩

theorem go_spec (b : Buf) (k : Nat) :
    (decodeDeclets.go b k (10 * k)).length = k ∧
    (∀ d ∈ decodeDeclets.go b k (10 * k), d.length = 3 ∧ AsciiDigits d) ∧
    (decodeDeclets.go b k (10 * k)).flatten.length = 3 * k ∧
    valOf (decodeDeclets.go b k (10 * k)).flatten = trailingDecode k (b.bits % 2 ^ (10 * k)) := by
  induction k with
  | zero => simp [decodeDeclets.go, trailingDecode, valOf, digitVals, ofDigits]
  | succ k ih =>
    obtain ⟨ih1, ih2, ih3, ih4⟩ := ih
    have e : 10 * (k + 1) - 10 = 10 * k := by omega
    obtain ⟨d1, d2, d3⟩ := declet_spec b (10 * k) (by omega)
    simp only [decodeDeclets.go, e]
    refine ⟨by simp [ih1], ?_, ?_, ?_⟩
    · intro d hd
      rcases List.mem_cons.1 hd with rfl | hd
      · exact ⟨d1, d2⟩
      · exact ih2 d hd
    · rw [List.flatten_cons, List.length_append, ih3, d1]; omega
    · rw [List.flatten_cons, valOf_append, ih3, d3, ih4, trailingDecode_top]
      have e2 : 2 ^ (10 * (k + 1)) = 2 ^ (10 * k) * 1024 := by rw [Nat.mul_add, Nat.pow_add]
      rw [e2, Nat.mod_mul_right_div_self, Nat.mod_mul_right_mod]
      have : (10:Nat) ^ (3 * k) = 1000 ^ k := by rw [Nat.pow_mul]
      rw [this, Nat.add_comm, Nat.mod_mod, Nat.mul_comm (1000 ^ k)]

theorem trailingBits_eq (b : Buf) (n : Nat) (h : WF b n) : b.trailingBits = 10 * (3 * n - 1) := by
  have := h.pos
  simp only [Buf.trailingBits, Buf.widthBits, h.len]; omega

/-- trailing significand -/
theorem _root_.Decstr.Proofs.decodeDeclets_spec (b : Buf) (n : Nat) (h : WF b n) :
    (decodeDeclets b).length = 3 * n - 1 ∧ (∀ d ∈ decodeDeclets b, d.length = 3 ∧ AsciiDigits d) ∧
    valOf (decodeDeclets b).flatten = trailingDecode (3 * n - 1) (b.bits % 2 ^ (30 * n - 10)) := by
  have hp := h.pos
  unfold decodeDeclets
  rw [trailingBits_eq b n h]
  have e : 10 * (3 * n - 1) / 10 = 3 * n - 1 := by omega
  have e2 : 30 * n - 10 = 10 * (3 * n - 1) := by omega
  rw [e, e2]
  obtain ⟨g1, g2, _, g4⟩ := go_spec b (3 * n - 1)
  exact ⟨g1, g2, g4⟩

theorem decodeDeclets_flatten_length (b : Buf) (n : Nat) (h : WF b n) :
    (decodeDeclets b).flatten.length = 3 * (3 * n - 1) := by
  unfold decodeDeclets
  rw [trailingBits_eq b n h]
  have e : 10 * (3 * n - 1) / 10 = 3 * n - 1 := by omega
  rw [e]
  exact (go_spec b (3 * n - 1)).2.2.1

theorem decodeDeclets_flatten_ascii (b : Buf) (n : Nat) (h : WF b n) : AsciiDigits (decodeDeclets b).flatten := by
  intro d hd
  obtain ⟨l, hl, hdl⟩ := List.mem_flatten.1 hd
  exact ((decodeDeclets_spec b n h).2.1 l hl).2 d hdl


end Decstr.Proofs.DecodeAux

#print axioms Decstr.Proofs.bcdOfDpd_spec
#print axioms Decstr.Proofs.bcdOfDpd_low
#print axioms Decstr.Proofs.readDpd_spec
#print axioms Decstr.Proofs.decodeDeclets_spec
