import Decstr.Proofs.ParserSpec
import Decstr.Proofs.Numeral
/-!
# Proofs.ParserRefine — `Model.parseStr` on the `.str` buffer refines the semantic parser

The model records *ranges* into the stored text; sliced out of the text they are exactly the
digit lists the semantic automaton accumulates (invariant: the range being extended ends at the
current index).
-/
set_option linter.unusedSimpArgs false
namespace Decstr.Proofs
open Decstr.Model Decstr.Spec


/-! ## slices -/

theorem slice_self (txt : List Nat) (a : Nat) : slice txt ⟨a, a⟩ = [] := by
  simp [slice]

theorem ps_slice_snoc (txt : List Nat) (a i c : Nat) (h : a ≤ i) (hc : txt[i]? = some c) :
    slice txt ⟨a, i + 1⟩ = slice txt ⟨a, i⟩ ++ [c] := by
  simp only [slice]
  have e : i + 1 - a = (i - a) + 1 := by omega
  rw [e, List.take_add_one]
  have : (List.drop a txt)[i - a]? = some c := by
    rw [List.getElem?_drop]
    have : a + (i - a) = i := by omega
    rw [this]; exact hc
  rw [this]; rfl

theorem AsciiDigits.nil : AsciiDigits [] := by intro d hd; cases hd

theorem AsciiDigits.snoc (l : List Nat) (c : Nat) (hl : AsciiDigits l) (hc : isDigit c = true) :
    AsciiDigits (l ++ [c]) := by
  intro d hd
  rcases List.mem_append.1 hd with h | h
  · exact hl d h
  · simp only [List.mem_singleton] at h; subst h
    simpa [isDigit] using hc

theorem digitVals_snoc (l : List Nat) (c : Nat) : digitVals (l ++ [c]) = digitVals l ++ [c - 48] := by
  simp [digitVals]

/-- digit values of a range of the text -/
def dvr (txt : List Nat) (r : Range) : List Nat := digitVals (slice txt r)

theorem dvr_self (txt : List Nat) (a : Nat) : dvr txt ⟨a, a⟩ = [] := by
  simp [dvr, slice_self, digitVals]

theorem dvr_snoc (txt : List Nat) (a i c : Nat) (h : a ≤ i) (hc : txt[i]? = some c) :
    dvr txt ⟨a, i + 1⟩ = dvr txt ⟨a, i⟩ ++ [c - 48] := by
  simp only [dvr, ps_slice_snoc txt a i c h hc, digitVals_snoc]

theorem ascii_snoc (txt : List Nat) (a i c : Nat) (h : a ≤ i) (hc : txt[i]? = some c)
    (hl : AsciiDigits (slice txt ⟨a, i⟩)) (hd : isDigit c = true) : AsciiDigits (slice txt ⟨a, i + 1⟩) := by
  rw [ps_slice_snoc txt a i c h hc]; exact AsciiDigits.snoc _ _ hl hd

theorem ascii_self (txt : List Nat) (a : Nat) : AsciiDigits (slice txt ⟨a, a⟩) := by
  rw [slice_self]; exact AsciiDigits.nil

theorem lt_of_getElem? {α : Type} (l : List α) (i : Nat) (c : α) (hc : l[i]? = some c) : i < l.length := by
  rcases Nat.lt_or_ge i l.length with h | h
  · exact h
  · rw [List.getElem?_eq_none h] at hc; cases hc

/-! ## FiniteParser -/

/-- the range of the integer digits -/
def intR (s : PSignificand) : Range :=
  match s.point with
  | some pt => ⟨s.range.start, pt.start⟩
  | none => s.range

/-- the range of the fractional digits -/
def fracR (s : PSignificand) : Range :=
  match s.point with
  | some pt => ⟨pt.stop, s.range.stop⟩
  | none => ⟨0, 0⟩

/-- what the ranges of a `FiniteParser` over the `.str` buffer denote -/
def absFin (f : FiniteParser) : SFin :=
  { neg := f.sig.neg
    int := dvr f.buf.text (intR f.sig)
    frac := dvr f.buf.text (fracR f.sig)
    exp := f.exp.map fun e => (e.neg, dvr f.buf.text e.range)
    hasSign := f.hasSign, hasDecimal := f.hasDecimal, hasDigits := f.hasDigits }

/-- the invariant of a `FiniteParser` created by `DecimalParser` on a `.str` buffer holding `txt` -/
structure FinInv (txt : List Nat) (f : FiniteParser) : Prop where
  kind : f.buf.kind = .str
  text : f.buf.text = txt
  idx_le : f.buf.idx ≤ txt.length
  stop_le : f.sig.range.stop ≤ f.buf.idx
  stop_eq : f.exp = none → f.sig.range.stop = f.buf.idx
  dec : f.hasDecimal = f.sig.point.isSome
  int_ne : f.sig.point = none → f.sig.range.start < f.sig.range.stop
  pt : ∀ pt, f.sig.point = some pt → f.sig.range.start < pt.start ∧ pt.stop = pt.start + 1 ∧ pt.stop ≤ f.sig.range.stop
  started : f.exp = none → f.hasDecimal = false → f.hasDigits = true
  frac_ne : ∀ pt, f.sig.point = some pt → (f.hasDigits = true ∨ f.exp.isSome = true) → pt.stop < f.sig.range.stop
  exp : ∀ e, f.exp = some e → e.range.start ≤ e.range.stop ∧ e.range.stop = f.buf.idx ∧
      (f.hasDigits = false → e.range.start = e.range.stop) ∧ (f.hasDigits = true → e.range.start < e.range.stop)
  ascii_int : AsciiDigits (slice txt (intR f.sig))
  ascii_frac : AsciiDigits (slice txt (fracR f.sig))
  ascii_exp : ∀ e, f.exp = some e → AsciiDigits (slice txt e.range)

/-- one byte through `FiniteParser::parse_ascii`: the invariant is kept, the index advances, the ranges
    denote what the semantic automaton accumulates; a rejected byte is rejected by both -/
theorem fin_step (txt : List Nat) (f : FiniteParser) (c : Nat) (hI : FinInv txt f)
    (hc : txt[f.buf.idx]? = some c) :
    match f.step c with
    | .ok f' => FinInv txt f' ∧ f'.buf.idx = f.buf.idx + 1 ∧ (absFin f).step c = some (absFin f')
    | .error e => e = .char c ∧ (absFin f).step c = none := by
  obtain ⟨⟨k, t, i⟩, ⟨sneg, ⟨a, b⟩, point⟩, exp, hs, hdec, hdig⟩ := f
  obtain ⟨kind, text, idx_le, stop_le, stop_eq, dec, int_ne, pt, started, frac_ne, hexp, ascii_int, ascii_frac, ascii_exp⟩ := hI
  simp only at kind text idx_le stop_le stop_eq dec int_ne pt started frac_ne hexp ascii_int ascii_frac ascii_exp hc
  subst kind text
  have hlt : i < t.length := by
    rcases Nat.lt_or_ge i t.length with h | h
    · exact h
    · rw [List.getElem?_eq_none h] at hc; cases hc
  clear idx_le
  rcases exp with _ | ⟨en, ⟨es, ee⟩⟩
  · simp only [forall_const] at stop_eq started
    subst stop_eq
    simp only [FiniteParser.step]
    by_cases hd : isDigit c = true
    · simp only [hd, if_true, FiniteParser.pushSignificandDigit, TextBuf.pushSignificandDigit, TextBuf.put]
      rcases point with _ | ⟨ps, pe⟩
      · have hab := int_ne rfl
        subst dec
        simp only [intR, fracR] at *
        refine ⟨?_, trivial, ?_⟩
        · constructor
          case ascii_int => simp only [intR]; exact ascii_snoc _ _ _ _ (by omega) hc ascii_int hd
          all_goals (clear hc)
          all_goals simp_all [intR, fracR] <;> try omega
        · simp [absFin, SFin.step, hd, intR, fracR, dvr_snoc _ _ _ _ (Nat.le_of_lt hab) hc]
      · obtain ⟨h1, h2, h3⟩ := pt _ rfl
        subst dec
        simp only [intR, fracR] at *
        refine ⟨?_, trivial, ?_⟩
        · constructor
          case ascii_frac => simp only [fracR]; exact ascii_snoc _ _ _ _ (by omega) hc ascii_frac hd
          all_goals (clear hc)
          all_goals simp_all [intR, fracR] <;> try omega
        · simp [absFin, SFin.step, hd, intR, fracR, dvr_snoc _ _ _ _ h3 hc]
    · have hdead : (!hdig && !hdec) = false := by
        cases hdec <;> cases hdig <;> simp_all
      have hdead45 : (decide (c = 45) && !hs && !hdig && !hdec) = false := by
        cases hdec <;> cases hdig <;> simp_all
      have hdead43 : (decide (c = 43) && !hs && !hdig && !hdec) = false := by
        cases hdec <;> cases hdig <;> simp_all
      simp only [hd, hdead45, hdead43, Bool.false_eq_true, if_false]
      by_cases hpt : (decide (c = 46) && !hdec) = true
      · simp only [hpt, if_true, FiniteParser.pushDecimalPoint, TextBuf.pushDecimalPoint, TextBuf.put, TextBuf.pos]
        simp only [Bool.and_eq_true, decide_eq_true_eq, Bool.not_eq_true'] at hpt
        obtain ⟨rfl, rfl⟩ := hpt
        clear hdead hdead45 hdead43 hd
        have hpn : point = none := by
          cases point with
          | none => rfl
          | some _ => simp at dec
        subst hpn
        have hab := int_ne rfl
        simp only [intR, fracR] at *
        refine ⟨?_, trivial, ?_⟩
        · constructor
          case ascii_frac => simp only [fracR]; exact ascii_self _ _
          case ascii_int => simpa only [intR] using ascii_int
          all_goals (clear hc dec pt frac_ne hexp ascii_exp stop_le int_ne; simp only [forall_const] at started)
          all_goals simp_all [intR, fracR] <;> try omega
        · simp [absFin, SFin.step, isDigit, intR, fracR, dvr_self]
      · simp only [hpt, Bool.false_eq_true, if_false]
        by_cases hee : ((decide (c = 101) || decide (c = 69)) && hdig) = true
        · simp only [hee, if_true, FiniteParser.beginExponent, TextBuf.beginExponent, TextBuf.put, TextBuf.pos]
          simp only [Bool.and_eq_true, Bool.or_eq_true, decide_eq_true_eq] at hee
          obtain ⟨hce, rfl⟩ := hee
          clear hdead hdead45 hdead43 hpt ascii_exp hexp
          have hsem : (absFin ⟨⟨.str, t, b⟩, ⟨sneg, ⟨a, b⟩, point⟩, none, hs, hdec, true⟩).step c
              = some (absFin ⟨⟨.str, t, b + 1⟩, ⟨sneg, ⟨a, b⟩, point⟩, some ⟨false, ⟨b + 1, b + 1⟩⟩, false, hdec, false⟩) := by
            rcases hce with rfl | rfl <;> simp [absFin, SFin.step, isDigit, dvr_self]
          refine ⟨?_, trivial, hsem⟩
          clear hsem
          rcases point with _ | ⟨ps, pe⟩
          · constructor
            case ascii_frac => exact ascii_frac
            case ascii_int => exact ascii_int
            case ascii_exp => intro e he; injection he with he; subst he; exact ascii_self _ _
            all_goals (clear hc)
            all_goals simp_all <;> try omega
          · constructor
            case ascii_frac => exact ascii_frac
            case ascii_int => exact ascii_int
            case ascii_exp => intro e he; injection he with he; subst he; exact ascii_self _ _
            all_goals (clear hc)
            all_goals simp_all <;> try omega
        · simp only [hee, Bool.false_eq_true, if_false]
          refine ⟨trivial, ?_⟩
          simp only [absFin, SFin.step, hd, Bool.false_eq_true, if_false, Option.map_none, hpt, hee]
  · obtain ⟨he1, he2, he3, he4⟩ := hexp _ rfl
    have aexp := ascii_exp _ rfl
    simp only at he1 he2 he3 he4 aexp
    subst he2
    clear hexp ascii_exp stop_eq started
    simp only [FiniteParser.step]
    by_cases hd : isDigit c = true
    · simp only [hd, if_true, TextBuf.pushExponentDigit, TextBuf.put]
      refine ⟨?_, trivial, ?_⟩
      · constructor
        case ascii_frac => exact ascii_frac
        case ascii_int => exact ascii_int
        case pt => exact pt
        case ascii_exp =>
          intro e he; injection he with he; subst he
          exact ascii_snoc _ _ _ _ he1 hc aexp hd
        all_goals (clear hc)
        all_goals simp_all <;> try omega
      · simp [absFin, SFin.step, hd, dvr_snoc _ _ _ _ he1 hc]
    · simp only [hd, Bool.false_eq_true, if_false]
      by_cases h45 : (decide (c = 45) && !hs && !hdig) = true
      · simp only [h45, if_true, TextBuf.exponentNegative, TextBuf.put]
        simp only [Bool.and_eq_true, decide_eq_true_eq, Bool.not_eq_true'] at h45
        obtain ⟨⟨rfl, rfl⟩, rfl⟩ := h45
        have := he3 rfl
        subst this
        refine ⟨?_, trivial, ?_⟩
        · constructor
          case ascii_frac => exact ascii_frac
          case ascii_int => exact ascii_int
          case pt => exact pt
          case ascii_exp => intro e he; injection he with he; subst he; exact ascii_self _ _
          all_goals (clear hc hd)
          all_goals simp_all <;> try omega
        · simp [absFin, SFin.step, isDigit, dvr_self]
      · simp only [h45, Bool.false_eq_true, if_false]
        by_cases h43 : (decide (c = 43) && !hs && !hdig) = true
        · simp only [h43, if_true, TextBuf.exponentPositive, TextBuf.put]
          simp only [Bool.and_eq_true, decide_eq_true_eq, Bool.not_eq_true'] at h43
          obtain ⟨⟨rfl, rfl⟩, rfl⟩ := h43
          have := he3 rfl
          subst this
          refine ⟨?_, trivial, ?_⟩
          · constructor
            case ascii_frac => exact ascii_frac
            case ascii_int => exact ascii_int
            case pt => exact pt
            case ascii_exp => intro e he; injection he with he; subst he; exact ascii_self _ _
            all_goals (clear hc hd h45)
            all_goals simp_all <;> try omega
          · simp [absFin, SFin.step, isDigit, dvr_self]
        · simp only [h43, Bool.false_eq_true, if_false]
          refine ⟨trivial, ?_⟩
          simp only [absFin, SFin.step, hd, Bool.false_eq_true, if_false, Option.map_some, h45, h43]

/-! ## InfinityParser -/

def absInf (p : InfinityParser) : SInf := ⟨p.expecting, p.neg⟩

structure InfInv (p : InfinityParser) : Prop where
  kind : p.buf.kind = .str
  notStart : p.expecting.length < 8

theorem inf_step (p : InfinityParser) (c : Nat) (hI : InfInv p) :
    match p.step c with
    | .ok p' => InfInv p' ∧ (absInf p).step c = some (absInf p')
    | .error e => e = .char c ∧ (absInf p).step c = none := by
  obtain ⟨⟨k, t, i⟩, expecting, neg⟩ := p
  obtain ⟨kind, notStart⟩ := hI
  simp only at kind notStart
  subst kind
  have hs : InfinityParser.atStart ⟨⟨.str, t, i⟩, expecting, neg⟩ = false := by
    simp only [InfinityParser.atStart, kwInfinity, List.length_cons, List.length_nil]
    simp; omega
  simp only [InfinityParser.step, hs, Bool.and_false, Bool.false_eq_true, if_false]
  rcases expecting with _ | ⟨e, es⟩
  · simp [absInf, SInf.step]
  · by_cases h : eqIgnoreCase e c = true
    · simp only [h, if_true, InfinityParser.advance, TextBuf.advanceSignificand, TextBuf.put, List.drop_one, List.tail_cons]
      refine ⟨⟨rfl, ?_⟩, ?_⟩
      · simp only [List.length_cons] at notStart ⊢; omega
      · simp [absInf, SInf.step, h]
    · simp [h, absInf, SInf.step]

/-! ## NanParser -/

def absNan (n : NanParser) : SNan :=
  ⟨n.expecting, n.signaling, n.neg, n.payload.map fun s => dvr n.buf.text s.range⟩

/-- the proper suffixes of `snan()` -/
def ps_NanSuffix (l : List Nat) : Prop :=
  l = [110, 97, 110, 40, 41] ∨ l = [97, 110, 40, 41] ∨ l = [110, 40, 41] ∨ l = [40, 41] ∨ l = [41] ∨ l = []

theorem ps_NanSuffix.tail {e : Nat} {es : List Nat} (h : ps_NanSuffix (e :: es)) : ps_NanSuffix es := by
  rcases h with h | h | h | h | h | h <;> cases h <;> simp [ps_NanSuffix]

structure NanInv (txt : List Nat) (n : NanParser) : Prop where
  kind : n.buf.kind = .str
  text : n.buf.text = txt
  suffix : ps_NanSuffix n.expecting
  pl : ∀ s, n.payload = some s → s.neg = false ∧ s.point = none ∧ s.range.start ≤ s.range.stop ∧
      AsciiDigits (slice txt s.range) ∧ ((n.expecting = [41] ∧ s.range.stop = n.buf.idx) ∨ n.expecting = [])

theorem nan_step_letter (t : List Nat) (i e : Nat) (es : List Nat) (sig neg : Bool) (c : Nat)
    (he : lower e = e) (h40 : e ≠ 40) (h41 : e ≠ 41) (hsuf' : ps_NanSuffix (e :: es)) :
    match (⟨⟨.str, t, i⟩, e :: es, sig, neg, none⟩ : NanParser).step c with
    | .ok n' => NanInv t n' ∧ n'.buf.idx = i + 1 ∧
        (absNan ⟨⟨.str, t, i⟩, e :: es, sig, neg, none⟩).step c = some (absNan n')
    | .error e' => e' = .char c ∧ (absNan ⟨⟨.str, t, i⟩, e :: es, sig, neg, none⟩).step c = none := by
  have hs : NanParser.atStart ⟨⟨.str, t, i⟩, e :: es, sig, neg, none⟩ = false := by
    simp only [NanParser.atStart, kwSnan]
    rcases hsuf' with h | h | h | h | h | h <;> rw [h] <;> rfl
  have hsuf := hsuf'.tail
  have l40 : lower 40 = 40 := by decide
  have l41 : lower 41 = 41 := by decide
  simp only [NanParser.step, hs, Bool.and_false, Bool.false_eq_true, if_false,
    Option.isSome_none, Bool.false_and, NanParser.isExpecting, eqIgnoreCase, he, l40, l41]
  have e40 : (e == 40) = false := by simpa using h40
  have e41 : (e == 41) = false := by simpa using h41
  simp only [e40, e41, Bool.and_false, Bool.false_eq_true, if_false]
  by_cases h : (e == lower c) = true
  · simp only [h, if_true, TextBuf.advanceSignificand, TextBuf.put, List.drop_one, List.tail_cons]
    refine ⟨⟨rfl, rfl, hsuf, by simp⟩, trivial, ?_⟩
    have h' : e = lower c := by simpa using h
    have c40 : c ≠ 40 := by rintro rfl; exact h40 (by rw [h', l40])
    simp [absNan, SNan.step, SNan.isExpecting, eqIgnoreCase, he, h, l41, e41, c40]
  · simp only [h, Bool.false_eq_true, if_false]
    refine ⟨trivial, ?_⟩
    simp [absNan, SNan.step, SNan.isExpecting, eqIgnoreCase, he, h, l40, l41, e40, e41]

theorem nan_step (txt : List Nat) (n : NanParser) (c : Nat) (hI : NanInv txt n) (hc : txt[n.buf.idx]? = some c) :
    match n.step c with
    | .ok n' => NanInv txt n' ∧ n'.buf.idx = n.buf.idx + 1 ∧ (absNan n).step c = some (absNan n')
    | .error e => e = .char c ∧ (absNan n).step c = none := by
  obtain ⟨⟨k, t, i⟩, expecting, sig, neg, payload⟩ := n
  obtain ⟨kind, text, suffix, pl⟩ := hI
  simp only at kind text suffix pl hc
  subst kind text
  have l40 : lower 40 = 40 := by decide
  have l41 : lower 41 = 41 := by decide
  have atS : ∀ (l : List Nat) (pl' : Option PSignificand), l.length < 6 →
      NanParser.atStart ⟨⟨.str, t, i⟩, l, sig, neg, pl'⟩ = false := by
    intro l pl' h
    simp only [NanParser.atStart, kwSnan, List.length_cons, List.length_nil]
    simp; omega
  rcases payload with _ | ⟨⟨pneg, ⟨ps, pe⟩, ppt⟩⟩
  · -- no payload yet
    rcases suffix with h | h | h | h | h | h <;> subst h
    · exact nan_step_letter t i 110 _ sig neg c (by decide) (by decide) (by decide) (by simp [ps_NanSuffix])
    · exact nan_step_letter t i 97 _ sig neg c (by decide) (by decide) (by decide) (by simp [ps_NanSuffix])
    · exact nan_step_letter t i 110 _ sig neg c (by decide) (by decide) (by decide) (by simp [ps_NanSuffix])
    · simp only [NanParser.step, atS [40, 41] none (by decide), Bool.and_false, Bool.false_eq_true, if_false,
        Option.isSome_none, Bool.false_and, NanParser.isExpecting, eqIgnoreCase, l40, l41]
      by_cases h : c = 40
      · subst h
        simp only [decide_true, beq_self_eq_true, Bool.and_self, if_true, TextBuf.advanceSignificand, TextBuf.put,
          TextBuf.beginSignificand, TextBuf.pos, List.drop_one, List.tail_cons]
        refine ⟨⟨rfl, rfl, by simp [ps_NanSuffix], ?_⟩, by simp, ?_⟩
        · intro s hs; injection hs with hs; subst hs
          exact ⟨rfl, rfl, Nat.le_refl _, ascii_self _ _, Or.inl ⟨rfl, rfl⟩⟩
        · simp [absNan, SNan.step, SNan.isExpecting, eqIgnoreCase, isDigit, dvr_self]
      · have h' : (40 == lower c) = false := by
          have : ¬ 40 = lower c := fun h' => h ((lower_eq_40 c).1 h'.symm)
          simpa using this
        simp only [h, decide_false, Bool.false_and, h', Bool.false_eq_true, if_false, Bool.and_false,
          show ((40 : Nat) == 41) = false by decide]
        refine ⟨trivial, ?_⟩
        simp [absNan, SNan.step, SNan.isExpecting, eqIgnoreCase, h, h', l40, l41]
    · simp only [NanParser.step, atS [41] none (by decide), Bool.and_false, Bool.false_eq_true, if_false,
        Option.isSome_none, Bool.false_and, NanParser.isExpecting, eqIgnoreCase, l40, l41,
        show ((41 : Nat) == 40) = false by decide, beq_self_eq_true, Bool.and_true]
      by_cases h : c = 41
      · subst h
        simp only [decide_true, if_true, TextBuf.advanceSignificand, TextBuf.put, List.drop_one, List.tail_cons]
        refine ⟨⟨rfl, rfl, by simp [ps_NanSuffix], by simp⟩, by simp, ?_⟩
        simp [absNan, SNan.step, SNan.isExpecting, eqIgnoreCase]
      · have h' : (41 == lower c) = false := by
          have : ¬ 41 = lower c := fun h' => h ((lower_eq_41 c).1 h'.symm)
          simpa using this
        simp only [h, decide_false, h', Bool.false_eq_true, if_false]
        refine ⟨trivial, ?_⟩
        simp [absNan, SNan.step, SNan.isExpecting, eqIgnoreCase, h, h', l40, l41]
    · simp only [NanParser.step, atS [] none (by decide), Bool.and_false, Bool.false_eq_true, if_false,
        Option.isSome_none, Bool.false_and, NanParser.isExpecting]
      refine ⟨trivial, ?_⟩
      simp [absNan, SNan.step, SNan.isExpecting]
  · obtain ⟨h1, h2, h3, h4, h5⟩ := pl _ rfl
    simp only at h1 h2 h3 h4 h5
    subst h1 h2
    clear pl suffix
    rcases h5 with ⟨rfl, rfl⟩ | rfl
    · simp only [NanParser.step, atS [41] _ (by decide), Bool.and_false, Bool.false_eq_true, if_false,
        Option.isSome_some, Bool.and_true, NanParser.isExpecting, eqIgnoreCase, l40, l41,
        show ((41 : Nat) == 40) = false by decide, beq_self_eq_true]
      by_cases hd : isDigit c = true
      · simp only [hd, if_true, TextBuf.pushSignificandDigit, TextBuf.put]
        refine ⟨⟨rfl, rfl, by simp [ps_NanSuffix], ?_⟩, by simp, ?_⟩
        · intro s hs; injection hs with hs; subst hs
          exact ⟨rfl, rfl, by simp only; omega, ascii_snoc _ _ _ _ h3 hc h4 hd, Or.inl ⟨rfl, rfl⟩⟩
        · simp [absNan, SNan.step, SNan.isExpecting, eqIgnoreCase, hd, dvr_snoc _ _ _ _ h3 hc]
      · simp only [hd, Bool.false_eq_true, if_false]
        by_cases h : c = 41
        · subst h
          simp only [decide_true, if_true, TextBuf.advanceSignificand, TextBuf.put, List.drop_one, List.tail_cons]
          refine ⟨⟨rfl, rfl, by simp [ps_NanSuffix], ?_⟩, by simp, ?_⟩
          · intro s hs; injection hs with hs; subst hs
            exact ⟨rfl, rfl, h3, h4, Or.inr rfl⟩
          · simp [absNan, SNan.step, SNan.isExpecting, eqIgnoreCase, isDigit]
        · have h' : (41 == lower c) = false := by
            have : ¬ 41 = lower c := fun h' => h ((lower_eq_41 c).1 h'.symm)
            simpa using this
          simp only [h, decide_false, h', Bool.false_eq_true, if_false]
          refine ⟨trivial, ?_⟩
          simp [absNan, SNan.step, SNan.isExpecting, eqIgnoreCase, h, h', hd, l40, l41]
    · simp only [NanParser.step, atS [] _ (by decide), Bool.and_false, Bool.false_eq_true, if_false,
        NanParser.isExpecting]
      refine ⟨trivial, ?_⟩
      simp [absNan, SNan.step, SNan.isExpecting]

end Decstr.Proofs
