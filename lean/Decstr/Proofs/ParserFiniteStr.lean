import Decstr.Proofs.ParserMain
/-!
# Proofs.ParserFiniteStr — `parseFiniteStr` (the entry used for itoa / ryu text) agrees with `parseStr`
on every text that starts with a digit, or with `-` followed by a digit.  (The two parsers are in fact in
the very same `FiniteParser` state after that first digit, so the results are equal, not just equal as
numerals.)
-/
set_option linter.unusedSimpArgs false
namespace Decstr.Proofs
open Decstr.Model Decstr.Spec

/-- the text starts with a digit, or with `-` followed by a digit -/
def startsWithDigitOrMinusDigit : List Nat → Bool
  | c :: rest => isDigit c || (c == 45 && (match rest with | d :: _ => isDigit d | [] => false))
  | [] => false

/-- on a `.str` buffer, a `DecimalParser` that already is a `FiniteParser` just forwards -/
theorem parseAscii_finite_str (f : FiniteParser) (cs : List Nat) (hk : f.buf.kind = .str) :
    (DecimalParser.finite f).parseAscii cs = (f.steps cs).map .finite := by
  cases cs with
  | nil => rw [DecimalParser.parseAscii.eq_2 _ (by intro e h; cases h)]; rfl
  | cons c cs =>
    rw [DecimalParser.parseAscii.eq_3 _ _ (by intro h; cases h)]
    simp [FiniteParser.parseAscii, remaining_str _ hk]

theorem parseFiniteStr_eq_parseStr (txt : List Nat) (h : startsWithDigitOrMinusDigit txt = true) :
    parseFiniteStr txt = parseStr txt := by
  unfold parseFiniteStr parseStr
  rcases txt with _ | ⟨c, rest⟩
  · cases h
  · simp only [startsWithDigitOrMinusDigit, Bool.or_eq_true, Bool.and_eq_true, beq_iff_eq] at h
    have hb : (TextBuf.new .str (c :: rest)) = ⟨.str, c :: rest, 0⟩ := rfl
    rw [hb]
    simp only [FiniteParser.parseAscii, TextBuf.remaining, FiniteParser.begin, DecimalParser.begin]
    rcases h with hd | ⟨rfl, h2⟩
    · -- a digit first
      have h1 : DecimalParser.startStep ⟨.str, c :: rest, 0⟩ none c =
          .ok (.finite ((FiniteParser.begin ⟨.str, c :: rest, 0⟩).pushSignificandDigit c)) := by
        simp [DecimalParser.startStep, hd]
      have h2 : (FiniteParser.begin ⟨.str, c :: rest, 0⟩).step c =
          .ok ((FiniteParser.begin ⟨.str, c :: rest, 0⟩).pushSignificandDigit c) := by
        simp [FiniteParser.step, FiniteParser.begin, hd]
      rw [DecimalParser.parseAscii.eq_6, h1]
      simp only []
      rw [parseAscii_finite_str _ _ (by simp [FiniteParser.pushSignificandDigit, TextBuf.pushSignificandDigit, FiniteParser.begin, TextBuf.put])]
      simp only [FiniteParser.begin] at h2
      simp only [FiniteParser.steps, h2, FiniteParser.begin]
      generalize FiniteParser.steps _ rest = r
      cases r <;> rfl
    · -- a minus sign, then a digit
      rcases rest with _ | ⟨d, rest⟩
      · cases h2
      · simp only at h2
        have h1 : DecimalParser.startStep ⟨.str, 45 :: d :: rest, 0⟩ none 45 =
            .ok (.atStart ⟨.str, 45 :: d :: rest, 0⟩ (some true)) := by
          simp [DecimalParser.startStep, isDigit]
        have h1' : DecimalParser.startStep ⟨.str, 45 :: d :: rest, 0⟩ (some true) d =
            .ok (.finite ((FiniteParser.begin ⟨.str, 45 :: d :: rest, 0⟩).significandNegative.pushSignificandDigit d)) := by
          simp [DecimalParser.startStep, h2]
        have h3 : (FiniteParser.begin ⟨.str, 45 :: d :: rest, 0⟩).step 45 =
            .ok (FiniteParser.begin ⟨.str, 45 :: d :: rest, 0⟩).significandNegative := by
          simp [FiniteParser.step, FiniteParser.begin, isDigit]
        have h4 : (FiniteParser.begin ⟨.str, 45 :: d :: rest, 0⟩).significandNegative.step d =
            .ok ((FiniteParser.begin ⟨.str, 45 :: d :: rest, 0⟩).significandNegative.pushSignificandDigit d) := by
          simp [FiniteParser.step, FiniteParser.begin, FiniteParser.significandNegative, TextBuf.significandNegative, h2]
        rw [DecimalParser.parseAscii.eq_6, h1]
        simp only []
        rw [DecimalParser.parseAscii.eq_6, h1']
        simp only []
        rw [parseAscii_finite_str _ _ (by simp [FiniteParser.pushSignificandDigit, TextBuf.pushSignificandDigit,
          FiniteParser.significandNegative, TextBuf.significandNegative, FiniteParser.begin, TextBuf.put])]
        simp only [FiniteParser.begin] at h3 h4
        simp only [FiniteParser.steps, h3, h4, FiniteParser.begin]
        generalize FiniteParser.steps _ rest = r
        cases r <;> rfl

/-- third priority, as stated -/
theorem parseFiniteStr_eq (txt : List Nat) (h : startsWithDigitOrMinusDigit txt = true) :
    (parseFiniteStr txt).map numeralOf = (parseStr txt).map numeralOf := by
  rw [parseFiniteStr_eq_parseStr txt h]

example : startsWithDigitOrMinusDigit [45, 49, 50, 101, 51] = true := by decide
example : parseFiniteStr [45, 49, 50, 101, 51] = parseStr [45, 49, 50, 101, 51] := parseFiniteStr_eq_parseStr _ (by decide)

end Decstr.Proofs

#print axioms Decstr.Proofs.parseFiniteStr_eq_parseStr
#print axioms Decstr.Proofs.parseFiniteStr_eq
