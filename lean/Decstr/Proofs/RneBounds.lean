import Decstr.Proofs.ToFloat
/-!
# Proofs.RneBounds — the rounding oracle answers `some` below the overflow threshold

`Spec.rneRat B n d` is `some _` whenever `n/d < 2^emax` (`emax = 2^(ebits-1) - 1`), hence `rneDecSafe B c e` is `some _`
whenever `c < 10^k` and `10^(k+e) ≤ 2^emax`.  With `ToFloat.toFloatFinite_some_strong` this gives unconditional
`Some` results of `to_f32` / `to_f64` for decimals that are small enough (in particular every finite 32-bit decimal
converts to `f64`).  Core Lean only.
-/
namespace Decstr.Proofs
open Decstr.Model Decstr.Spec

/-- `⌊log2 (n/d)⌋` as `rneRat` computes it -/
def e2Of (n d : Nat) : Int :=
  let e0 : Int := (ilog2 n : Int) - ilog2 d
  let ge (e : Int) : Bool := if e ≥ 0 then n ≥ d * 2 ^ e.toNat else n * 2 ^ (-e).toNat ≥ d
  if ge e0 then e0 else e0 - 1

/-- rounding step -/
def rneStep (B : BinFmt) (emin q : Int) (a d' : Nat) : Option Nat :=
  let m := a / d'; let r := a % d'
  let m := if 2 * r > d' || (2 * r = d' && m % 2 = 1) then m + 1 else m
  let field : Int := (q + (B.prec - 1)) - emin
  let bits := field.toNat * 2 ^ (B.prec - 1) + m
  if bits ≥ (2 ^ B.ebits - 1) * 2 ^ (B.prec - 1) then none else some bits

def rneTail (B : BinFmt) (num den : Nat) (e2 : Int) : Option Nat :=
  let ebias := 2 ^ (B.ebits - 1) - 1
  let emin : Int := 1 - ebias
  let q : Int := (max e2 emin) - (B.prec - 1)
  let (a, d) := if q ≥ 0 then (num, den * 2 ^ q.toNat) else (num * 2 ^ (-q).toNat, den)
  let m := a / d; let r := a % d
  let m := if 2 * r > d || (2 * r = d && m % 2 = 1) then m + 1 else m
  let field : Int := (q + (B.prec - 1)) - emin
  let bits := field.toNat * 2 ^ (B.prec - 1) + m
  if bits ≥ (2 ^ B.ebits - 1) * 2 ^ (B.prec - 1) then none else some bits

/-- the rest of `rneRat`, given `e2` -/
def rneFrom (B : BinFmt) (n d : Nat) (e2 : Int) : Option Nat :=
  let emin : Int := 1 - (2 ^ (B.ebits - 1) - 1)
  let q : Int := (max e2 emin) - (B.prec - 1)
  if q ≥ 0 then rneStep B emin q n (d * 2 ^ q.toNat) else rneStep B emin q (n * 2 ^ (-q).toNat) d

theorem rneRat_eq_tail (B : BinFmt) (n d : Nat) : rneRat B n d = rneTail B n d (e2Of n d) := rfl

theorem rneTail_eq (B : BinFmt) (n d : Nat) (e2 : Int) : rneTail B n d e2 = rneFrom B n d e2 := by
  unfold rneTail rneFrom rneStep
  simp only
  by_cases hq : max e2 (1 - (2 ^ (B.ebits - 1) - 1)) - ((B.prec : Int) - 1) ≥ 0
  · simp only [if_pos hq]
  · simp only [if_neg hq]

theorem rneRat_eq (B : BinFmt) (n d : Nat) : rneRat B n d = rneFrom B n d (e2Of n d) := by
  rw [rneRat_eq_tail, rneTail_eq]

/-! ## Comparing `n/d` with `2^k`, `k` an integer, without fractions -/

theorem lt_shift (n d x y s : Nat) : n * 2 ^ (x + s) < d * 2 ^ (y + s) ↔ n * 2 ^ x < d * 2 ^ y := by
  rw [Nat.pow_add, Nat.pow_add, ← Nat.mul_assoc, ← Nat.mul_assoc]
  exact Nat.mul_lt_mul_right (Nat.pow_pos (by decide))

theorem lt_rel {n d x y x' y' : Nat} (hk : (y : Int) - x = (y' : Int) - x') :
    n * 2 ^ x < d * 2 ^ y ↔ n * 2 ^ x' < d * 2 ^ y' := by
  by_cases h : x ≤ x'
  · obtain ⟨s, rfl⟩ := Nat.exists_eq_add_of_le h
    have : y' = y + s := by omega
    subst this
    exact (lt_shift n d x y s).symm
  · obtain ⟨s, rfl⟩ := Nat.exists_eq_add_of_le (Nat.le_of_not_le h)
    have : y = y' + s := by omega
    subst this
    exact lt_shift n d x' y' s

/-- `n/d < 2^k` -/
def LtPow (n d : Nat) (k : Int) : Prop := n * 2 ^ (-k).toNat < d * 2 ^ k.toNat

theorem ltPow_iff {n d : Nat} {k : Int} (x y : Nat) (h : (y : Int) - x = k) :
    LtPow n d k ↔ n * 2 ^ x < d * 2 ^ y :=
  lt_rel (by omega)

theorem ltPow_mono {n d : Nat} {k k' : Int} (h : LtPow n d k) (hk : k ≤ k') : LtPow n d k' := by
  obtain ⟨x, hx⟩ : ∃ x : Nat, x = (-k).toNat + (-k').toNat := ⟨_, rfl⟩
  obtain ⟨y, hy⟩ : ∃ y : Nat, y = (x + k).toNat := ⟨_, rfl⟩
  obtain ⟨y', hy'⟩ : ∃ y : Nat, y = (x + k').toNat := ⟨_, rfl⟩
  rw [ltPow_iff x y (by omega)] at h
  rw [ltPow_iff x y' (by omega)]
  have : 2 ^ y ≤ 2 ^ y' := Nat.pow_le_pow_right (by decide) (by omega)
  exact Nat.lt_of_lt_of_le h (Nat.mul_le_mul_left d this)

theorem lt_of_not_ltPow_of_ltPow {n d : Nat} {k1 k2 : Int} (h1 : ¬ LtPow n d k1) (h2 : LtPow n d k2) : k1 < k2 := by
  apply Int.lt_of_not_ge
  intro h
  exact h1 (ltPow_mono h2 h)

/-! ## `e2Of` is `⌊log2 (n/d)⌋` -/

theorem geB_iff (n d : Nat) (e : Int) :
    (if e ≥ 0 then decide (n ≥ d * 2 ^ e.toNat) else decide (n * 2 ^ (-e).toNat ≥ d)) = true ↔ ¬ LtPow n d e := by
  by_cases h : e ≥ 0
  · have h0 : (-e).toNat = 0 := by omega
    simp [LtPow, h, h0]
  · have h0 : e.toNat = 0 := by omega
    simp [LtPow, h, h0]

theorem e2Of_spec (n d : Nat) (hn : 0 < n) (hd : 0 < d) : ¬ LtPow n d (e2Of n d) ∧ LtPow n d (e2Of n d + 1) := by
  have hn1 : 2 ^ n.log2 ≤ n := Nat.log2_self_le (by omega)
  have hn2 : n < 2 ^ (n.log2 + 1) := Nat.lt_log2_self
  have hd1 : 2 ^ d.log2 ≤ d := Nat.log2_self_le (by omega)
  have hd2 : d < 2 ^ (d.log2 + 1) := Nat.lt_log2_self
  have f1 : LtPow n d ((n.log2 : Int) - d.log2 + 1) := by
    rw [ltPow_iff d.log2 (n.log2 + 1) (by omega)]
    have := Nat.mul_lt_mul_of_lt_of_le hn2 hd1 hd
    rwa [Nat.mul_comm (2 ^ (n.log2 + 1))] at this
  have f2 : ¬ LtPow n d ((n.log2 : Int) - d.log2 - 1) := by
    rw [ltPow_iff (d.log2 + 1) n.log2 (by omega)]
    have := Nat.mul_le_mul (Nat.le_of_lt hd2) hn1
    rw [Nat.mul_comm (2 ^ (d.log2 + 1))] at this
    omega
  unfold e2Of ilog2
  simp only
  by_cases hg : (if (n.log2 : Int) - d.log2 ≥ 0 then decide (n ≥ d * 2 ^ ((n.log2 : Int) - d.log2).toNat)
      else decide (n * 2 ^ (-((n.log2 : Int) - d.log2)).toNat ≥ d)) = true
  · rw [if_pos hg]
    exact ⟨(geB_iff _ _ _).mp hg, f1⟩
  · rw [if_neg hg]
    refine ⟨f2, ?_⟩
    rw [geB_iff] at hg
    have : (n.log2 : Int) - d.log2 - 1 + 1 = (n.log2 : Int) - d.log2 := by omega
    rw [this]
    exact Classical.not_not.mp hg

/-! ## The rounding step stays below the infinity pattern -/

theorem two_pow_pred (k : Nat) (h : 1 ≤ k) : 2 ^ k = 2 * 2 ^ (k - 1) := by
  obtain ⟨j, rfl⟩ : ∃ j, k = j + 1 := ⟨k - 1, by omega⟩
  rw [Nat.pow_succ, Nat.add_sub_cancel, Nat.mul_comm]

theorem rneStep_some (B : BinFmt) (hp : 1 ≤ B.prec) (emin q : Int) (a d' F : Nat)
    (hfield : (q + ((B.prec : Int) - 1) - emin).toNat ≤ F) (ha : a < d' * 2 ^ B.prec) (hF : F + 4 ≤ 2 ^ B.ebits) :
    ∃ m, rneStep B emin q a d' = some m := by
  unfold rneStep
  simp only
  refine ⟨_, if_neg ?_⟩
  have hm0 : a / d' < 2 ^ B.prec := Nat.div_lt_of_lt_mul ha
  have hW : 2 ^ B.prec = 2 * 2 ^ (B.prec - 1) := two_pow_pred _ hp
  have hWpos : 0 < 2 ^ (B.prec - 1) := Nat.pow_pos (by decide)
  generalize (q + ((B.prec : Int) - 1) - emin).toNat = f at hfield ⊢
  generalize 2 ^ (B.prec - 1) = W at hW hWpos ⊢
  have h1 : f * W ≤ F * W := Nat.mul_le_mul_right W hfield
  have h2 : (F + 3) * W ≤ (2 ^ B.ebits - 1) * W := Nat.mul_le_mul_right W (by omega)
  rw [Nat.add_mul] at h2
  generalize (2 ^ B.ebits - 1) * W = K at h2 ⊢
  generalize f * W = X at h1 ⊢
  generalize F * W = Y at h1 h2
  split <;> omega

theorem rneFrom_some (B : BinFmt) (hp : 1 ≤ B.prec) (hb : 2 ≤ B.ebits) (n d : Nat) (e2 : Int)
    (hlt : LtPow n d (e2 + 1)) (he2 : e2 + 1 ≤ ((2 ^ (B.ebits - 1) - 1 : Nat) : Int)) :
    ∃ m, rneFrom B n d e2 = some m := by
  obtain ⟨t, ht⟩ : ∃ t : Nat, t = 2 ^ (B.ebits - 1) := ⟨_, rfl⟩
  have ht2 : 2 ≤ t := by
    rw [ht]
    calc 2 = 2 ^ 1 := rfl
      _ ≤ 2 ^ (B.ebits - 1) := Nat.pow_le_pow_right (by decide) (by omega)
  have hte : 2 ^ B.ebits = 2 * t := by rw [ht]; exact two_pow_pred _ (by omega)
  have hcast : (2 : Int) ^ (B.ebits - 1) = (t : Int) := by rw [ht]; simp
  rw [← ht] at he2
  unfold rneFrom
  simp only [hcast]
  obtain ⟨E, hE⟩ : ∃ E : Int, E = max e2 (1 - ((t : Int) - 1)) := ⟨_, rfl⟩
  rw [← hE]
  have hE1 : E ≤ (t : Int) - 2 := by omega
  have hE2 : e2 ≤ E := by omega
  have hE3 : 1 - ((t : Int) - 1) ≤ E := by omega
  have hltE : LtPow n d (E + 1) := ltPow_mono hlt (by omega)
  by_cases hq : E - ((B.prec : Int) - 1) ≥ 0
  · rw [if_pos hq]
    refine rneStep_some B hp _ _ _ _ (2 * t - 4) (by omega) ?_ (by omega)
    rw [ltPow_iff 0 ((E - ((B.prec : Int) - 1)).toNat + B.prec) (by omega)] at hltE
    rw [Nat.mul_assoc, ← Nat.pow_add]
    simpa using hltE
  · rw [if_neg hq]
    refine rneStep_some B hp _ _ _ _ (2 * t - 4) (by omega) ?_ (by omega)
    rw [ltPow_iff (-(E - ((B.prec : Int) - 1))).toNat B.prec (by omega)] at hltE
    exact hltE

/-- the oracle answers `some` for every positive rational below `2^emax` -/
theorem rneRat_some (B : BinFmt) (hp : 1 ≤ B.prec) (hb : 2 ≤ B.ebits) (n d : Nat) (hn : 0 < n) (hd : 0 < d)
    (h : n < d * 2 ^ (2 ^ (B.ebits - 1) - 1)) : ∃ m, rneRat B n d = some m := by
  rw [rneRat_eq]
  obtain ⟨h1, h2⟩ := e2Of_spec n d hn hd
  have h3 : LtPow n d ((2 ^ (B.ebits - 1) - 1 : Nat) : Int) := by
    rw [ltPow_iff 0 (2 ^ (B.ebits - 1) - 1) (by omega)]
    simpa using h
  have := lt_of_not_ltPow_of_ltPow h1 h3
  exact rneFrom_some B hp hb n d _ h2 (by omega)

/-- `c·10^e` with `c < 10^k`, `k + e ≤ N` and `10^N ≤ 2^emax` rounds to a finite float -/
theorem rneDecSafe_some (B : BinFmt) (hp : 1 ≤ B.prec) (hb : 2 ≤ B.ebits) (N : Nat) (hN : N ≤ 400)
    (hpow : 10 ^ N ≤ 2 ^ (2 ^ (B.ebits - 1) - 1)) (c k : Nat) (e : Int) (hc : c < 10 ^ k) (hke : (k : Int) + e ≤ N) :
    ∃ m, rneDecSafe B c e = some m := by
  unfold rneDecSafe
  by_cases h0 : c = 0
  · rw [if_pos h0]; exact ⟨_, rfl⟩
  rw [if_neg h0]
  have hk : 1 ≤ k := by
    cases k with
    | zero => simp at hc; omega
    | succ k => omega
  rw [if_neg (by omega)]
  split
  · exact ⟨_, rfl⟩
  unfold rneDec
  by_cases he : e ≥ 0
  · rw [if_pos he]
    refine rneRat_some B hp hb _ 1 (Nat.mul_pos (by omega) (Nat.pow_pos (by decide))) (by decide) ?_
    rw [Nat.one_mul]
    have h1 : c * 10 ^ e.toNat < 10 ^ k * 10 ^ e.toNat := (Nat.mul_lt_mul_right (Nat.pow_pos (by decide))).mpr hc
    rw [← Nat.pow_add] at h1
    have h2 : 10 ^ (k + e.toNat) ≤ 10 ^ N := Nat.pow_le_pow_right (by decide) (by omega)
    omega
  · rw [if_neg he]
    refine rneRat_some B hp hb _ _ (by omega) (Nat.pow_pos (by decide)) ?_
    have h1 : 10 ^ k ≤ 10 ^ ((-e).toNat + N) := Nat.pow_le_pow_right (by decide) (by omega)
    rw [Nat.pow_add] at h1
    have h2 := Nat.mul_le_mul_left (10 ^ (-e).toNat) hpow
    omega

set_option exponentiation.threshold 2000 in
theorem pow_bound64 : 10 ^ 307 ≤ 2 ^ (2 ^ (binary64.ebits - 1) - 1) := by decide +kernel
theorem pow_bound32 : 10 ^ 38 ≤ 2 ^ (2 ^ (binary32.ebits - 1) - 1) := by decide

theorem rneDecSafe_some64 (c k : Nat) (e : Int) (hc : c < 10 ^ k) (hke : (k : Int) + e ≤ 307) :
    ∃ m, rneDecSafe binary64 c e = some m :=
  rneDecSafe_some binary64 (by decide) (by decide) 307 (by decide) pow_bound64 c k e hc hke

theorem rneDecSafe_some32 (c k : Nat) (e : Int) (hc : c < 10 ^ k) (hke : (k : Int) + e ≤ 38) :
    ∃ m, rneDecSafe binary32 c e = some m :=
  rneDecSafe_some binary32 (by decide) (by decide) 38 (by decide) pow_bound32 c k e hc hke

/-! ## Unconditional `Some` results of `to_f64` / `to_f32` -/

theorem valOf_lt_sig {digits : List Nat} (hds : AsciiDigits digits) :
    valOf digits < 10 ^ (digits.dropWhile (· == 48)).length := by
  rw [← valOf_dropWhile_zero]
  exact valOf_lt (hds.dropWhile _)

/-- `to_f64` answers `Some` for at most 17 significant digits `c` and an exponent `e ≥ -99999` with
    `digits(c) + e ≤ 307` (so `c·10^e < 10^307 < f64::MAX`) -/
theorem toFloatFinite_total64 (neg : Bool) (digits : List Nat) (hds : AsciiDigits digits) (e : Int)
    (hsig : (digits.dropWhile (· == 48)).length ≤ 17) (he : -99999 ≤ e)
    (hv : ((digits.dropWhile (· == 48)).length : Int) + e ≤ 307) :
    ∃ m, rneDecSafe binary64 (valOf digits) e = some m ∧
      toFloatFinite binary64 neg digits e = some ((if neg then binary64.signMask else 0) + m) := by
  obtain ⟨m, hm⟩ := rneDecSafe_some64 (valOf digits) _ e (valOf_lt_sig hds) hv
  exact ⟨m, hm, toFloatFinite_some_strong binary64 (Or.inr rfl) neg digits hds e hsig ⟨he, by omega⟩ m hm⟩

/-- `to_f32` answers `Some` for at most 17 significant digits `c` and an exponent `e ≥ -99999` with
    `digits(c) + e ≤ 38` (so `c·10^e < 10^38 < f32::MAX`) -/
theorem toFloatFinite_total32 (neg : Bool) (digits : List Nat) (hds : AsciiDigits digits) (e : Int)
    (hsig : (digits.dropWhile (· == 48)).length ≤ 17) (he : -99999 ≤ e)
    (hv : ((digits.dropWhile (· == 48)).length : Int) + e ≤ 38) :
    ∃ m, rneDecSafe binary32 (valOf digits) e = some m ∧
      toFloatFinite binary32 neg digits e = some ((if neg then binary32.signMask else 0) + m) := by
  obtain ⟨m, hm⟩ := rneDecSafe_some32 (valOf digits) _ e (valOf_lt_sig hds) hv
  exact ⟨m, hm, toFloatFinite_some_strong binary32 (Or.inl rfl) neg digits hds e hsig ⟨he, by omega⟩ m hm⟩

/-- the digit-level core of `C13_b32_total`: every finite 32-bit decimal (7 digits, exponent −101 … 90) converts
    to `f64` -/
theorem toFloatFinite_b32_f64 (neg : Bool) (digits : List Nat) (hds : AsciiDigits digits) (hlen : digits.length = 7)
    (e : Int) (he : -101 ≤ e ∧ e ≤ 90) :
    ∃ bits, toFloatFinite binary64 neg digits e = some bits := by
  have hl : (digits.dropWhile (· == 48)).length ≤ 7 := by
    rw [← hlen]; exact (List.dropWhile_sublist _).length_le
  obtain ⟨m, _, h⟩ := toFloatFinite_total64 neg digits hds e (by omega) (by omega) (by omega)
  exact ⟨_, h⟩

/-- instance: the largest 32-bit decimal `9999999e90` -/
example : ∃ bits, toFloatFinite binary64 false [57, 57, 57, 57, 57, 57, 57] 90 = some bits :=
  toFloatFinite_b32_f64 false _ (by intro d hd; simp at hd; omega) rfl 90 (by decide)

end Decstr.Proofs

#print axioms Decstr.Proofs.rneRat_eq
#print axioms Decstr.Proofs.rneRat_some
#print axioms Decstr.Proofs.rneDecSafe_some
#print axioms Decstr.Proofs.toFloatFinite_total64
#print axioms Decstr.Proofs.toFloatFinite_total32
#print axioms Decstr.Proofs.toFloatFinite_b32_f64
