import Decstr.Proofs.Basic
/-!
# Proofs.SpecLemmas — facts about the specification itself

The IEEE 754 encoder and decoder of `Decstr.Spec.Basic` are inverse on canonical data, every pattern decodes to a
coefficient below `10^p` and an exponent inside the format's range, and canonicalisation is idempotent.
These are statements about the *oracle*; they are what makes "bytes = Spec.encodeFin …" a meaningful claim.
-/
namespace Decstr.Proofs
open Decstr.Spec

/-! ## DPD tables (IEEE 754-2019 Tables 3.3, 3.4) -/

theorem dpd_roundtrip : ∀ v < 1000, dpdDecode (dpdEncode v) = v := by decide +kernel
theorem dpdEncode_lt : ∀ v < 1000, dpdEncode v < 1024 := by decide +kernel
theorem dpdDecode_lt : ∀ x < 1024, dpdDecode x < 1000 := by decide +kernel

/-! ## trailing significand -/

theorem trailingEncode_lt (j c : Nat) : trailingEncode j c < 1024 ^ j := by
  induction j generalizing c with
  | zero => simp [trailingEncode]
  | succ j ih =>
    simp only [trailingEncode]
    have h1 := dpdEncode_lt (c % 1000) (Nat.mod_lt _ (by decide))
    have h2 := ih (c / 1000)
    rw [Nat.pow_succ]; omega

theorem trailingDecode_lt (j T : Nat) : trailingDecode j T < 1000 ^ j := by
  induction j generalizing T with
  | zero => simp [trailingDecode]
  | succ j ih =>
    simp only [trailingDecode]
    have h1 := dpdDecode_lt (T % 1024) (Nat.mod_lt _ (by decide))
    have h2 := ih (T / 1024)
    rw [Nat.pow_succ]; omega

theorem trailing_roundtrip (j c : Nat) : trailingDecode j (trailingEncode j c) = c % 1000 ^ j := by
  induction j generalizing c with
  | zero => simp [trailingDecode, Nat.mod_one]
  | succ j ih =>
    simp only [trailingEncode, trailingDecode]
    have h1 := dpdEncode_lt (c % 1000) (Nat.mod_lt _ (by decide))
    have e1 : (dpdEncode (c % 1000) + 1024 * trailingEncode j (c / 1000)) % 1024 = dpdEncode (c % 1000) := by omega
    have e2 : (dpdEncode (c % 1000) + 1024 * trailingEncode j (c / 1000)) / 1024 = trailingEncode j (c / 1000) := by omega
    rw [e1, e2, dpd_roundtrip _ (Nat.mod_lt _ (by decide)), ih]
    rw [Nat.pow_succ, Nat.mul_comm (1000 ^ j) 1000, Nat.mod_mul]

theorem pow1024 (j : Nat) : 1024 ^ j = 2 ^ (10 * j) := by
  rw [Nat.pow_mul]

/-! ## format arithmetic -/

theorem fmt_t (n : Nat) (hn : 0 < n) : (Fmt.mk n).t = 10 * (Fmt.mk n).declets := by
  simp only [Fmt.t, Fmt.declets]; omega
theorem fmt_k (n : Nat) (hn : 0 < n) : (Fmt.mk n).k - 1 = (Fmt.mk n).t + ((Fmt.mk n).w + 5) := by
  simp only [Fmt.k, Fmt.t, Fmt.w]; omega
theorem fmt_p (n : Nat) (hn : 0 < n) : (Fmt.mk n).p = 3 * (Fmt.mk n).declets + 1 := by
  simp only [Fmt.p, Fmt.declets]; omega
theorem fmt_emax (n : Nat) : (Fmt.mk n).emax = 3 * 2 ^ ((Fmt.mk n).w - 1) := by
  simp only [Fmt.emax, Fmt.w]; congr 2
theorem pow1000 (j : Nat) : 1000 ^ j = 10 ^ (3 * j) := by
  rw [Nat.pow_mul]

/-- the number of biased exponents -/
theorem elimit_eq (n : Nat) (hn : 0 < n) :
    ((Fmt.mk n).elimit : Int) = (Fmt.mk n).qmax + (Fmt.mk n).bias + 1 := by
  have hw : (Fmt.mk n).w = ((Fmt.mk n).w - 1) + 1 := by simp only [Fmt.w]; omega
  have he := fmt_emax n
  have hp : 2 ≤ (Fmt.mk n).p := by simp only [Fmt.p]; omega
  simp only [Fmt.elimit, Fmt.qmax, Fmt.bias]
  rw [hw, Nat.pow_succ]
  generalize 2 ^ ((Fmt.mk n).w - 1) = X at *
  omega

/-! ## splitting a bit pattern into its fields -/

theorem field_split (a t T : Nat) (hT : T < 2 ^ t) : (a * 2 ^ t + T) / 2 ^ t = a ∧ (a * 2 ^ t + T) % 2 ^ t = T := by
  have hp : 0 < 2 ^ t := Nat.two_pow_pos t
  constructor
  · rw [Nat.mul_comm, Nat.mul_add_div hp, Nat.div_eq_of_lt hT]; rfl
  · rw [Nat.mul_comm, Nat.mul_add_mod, Nat.mod_eq_of_lt hT]

/-- sign bit `b ≤ 1`, a `g`-bit field `G` and a `t`-bit field `T` packed into one number -/
theorem three_fields (b g t G T N : Nat) (hb : b ≤ 1) (hG : G < 2 ^ g) (hT : T < 2 ^ t)
    (hdef : N = b * 2 ^ (t + g) + G * 2 ^ t + T) :
    N / 2 ^ (t + g) % 2 = b ∧ N / 2 ^ t % 2 ^ g = G ∧ N % 2 ^ t = T ∧ N < 2 ^ (t + g + 1) := by
  have hpk : 2 ^ (t + g) = 2 ^ g * 2 ^ t := by rw [Nat.pow_add, Nat.mul_comm]
  have hN : N = (b * 2 ^ g + G) * 2 ^ t + T := by
    rw [hdef, hpk, Nat.add_mul, Nat.mul_assoc]
  have h1 := field_split (b * 2 ^ g + G) t T hT
  have h2 := field_split b g G hG
  have hg : 0 < 2 ^ g := Nat.two_pow_pos g
  have ht : 0 < 2 ^ t := Nat.two_pow_pos t
  refine ⟨?_, ?_, ?_, ?_⟩
  · rw [hpk, Nat.mul_comm (2 ^ g), ← Nat.div_div_eq_div_mul, hN, h1.1, h2.1]; omega
  · rw [hN, h1.1, h2.2]
  · rw [hN, h1.2]
  · rw [Nat.pow_succ, hpk, hN]
    calc (b * 2 ^ g + G) * 2 ^ t + T
        < (b * 2 ^ g + G) * 2 ^ t + 2 ^ t := by omega
      _ = (b * 2 ^ g + G + 1) * 2 ^ t := by rw [Nat.add_mul _ 1, Nat.one_mul]
      _ ≤ (2 ^ g * 2) * 2 ^ t := by
          apply Nat.mul_le_mul_right
          have : b * 2 ^ g ≤ 2 ^ g := by
            have := Nat.mul_le_mul_right (2 ^ g) hb; simpa using this
          omega
      _ = 2 ^ g * 2 ^ t * 2 := by rw [Nat.mul_assoc, Nat.mul_comm 2, ← Nat.mul_assoc]

/-- the three fields of an encoded pattern: sign, combination `G`, trailing significand `T` -/
theorem pattern_fields (n : Nat) (hn : 0 < n) (neg : Bool) (G T N : Nat) (hG : G < 2 ^ ((Fmt.mk n).w + 5)) (hT : T < 2 ^ (Fmt.mk n).t)
    (hdef : N = signBit ⟨n⟩ neg + G * 2 ^ (Fmt.mk n).t + T) :
    N / 2 ^ ((Fmt.mk n).k - 1) % 2 = (if neg then 1 else 0) ∧
    N / 2 ^ (Fmt.mk n).t % 2 ^ ((Fmt.mk n).w + 5) = G ∧ N % 2 ^ (Fmt.mk n).t = T ∧ N < 2 ^ (Fmt.mk n).k := by
  have hk := fmt_k n hn
  have hk1 : (Fmt.mk n).k = (Fmt.mk n).t + ((Fmt.mk n).w + 5) + 1 := by simp only [Fmt.k, Fmt.t, Fmt.w]; omega
  have hs : signBit ⟨n⟩ neg = (if neg then 1 else 0) * 2 ^ ((Fmt.mk n).t + ((Fmt.mk n).w + 5)) := by
    unfold signBit; rw [hk]; cases neg <;> simp
  have h := three_fields (if neg then 1 else 0) ((Fmt.mk n).w + 5) (Fmt.mk n).t G T N (by cases neg <;> simp) hG hT
    (by rw [hdef, hs])
  rw [hk, hk1]
  exact h

end Decstr.Proofs
