import Decstr.Proofs.Basic
/-!
# Proofs.SpecLemmas — facts about the specification itself

The IEEE 754 encoder and decoder of `Decstr.Spec.Basic` are inverse on canonical data, every pattern decodes to a
coefficient below `10^p` and an exponent inside the format's range, and canonicalisation is idempotent.
These are statements about the *oracle*; they are what makes "bytes = Spec.encodeFin …" a meaningful claim.
-/
namespace Decstr.Proofs
open Decstr.Spec

/-! ## DPD tables (IEEE 754-2019 Tables 3.3, 3.4) -/

theorem dpd_roundtrip : ∀ v < 1000, dpdDecode (dpdEncode v) = v := by decide +kernel
theorem dpdEncode_lt : ∀ v < 1000, dpdEncode v < 1024 := by decide +kernel
theorem dpdDecode_lt : ∀ x < 1024, dpdDecode x < 1000 := by decide +kernel

/-! ## trailing significand -/

theorem trailingEncode_lt (j c : Nat) : trailingEncode j c < 1024 ^ j := by
  induction j generalizing c with
  | zero => simp [trailingEncode]
  | succ j ih =>
    simp only [trailingEncode]
    have h1 := dpdEncode_lt (c % 1000) (Nat.mod_lt _ (by decide))
    have h2 := ih (c / 1000)
    rw [Nat.pow_succ]; omega

theorem trailingDecode_lt (j T : Nat) : trailingDecode j T < 1000 ^ j := by
  induction j generalizing T with
  | zero => simp [trailingDecode]
  | succ j ih =>
    simp only [trailingDecode]
    have h1 := dpdDecode_lt (T % 1024) (Nat.mod_lt _ (by decide))
    have h2 := ih (T / 1024)
    rw [Nat.pow_succ]; omega

theorem trailing_roundtrip (j c : Nat) : trailingDecode j (trailingEncode j c) = c % 1000 ^ j := by
  induction j generalizing c with
  | zero => simp [trailingDecode, Nat.mod_one]
  | succ j ih =>
    simp only [trailingEncode, trailingDecode]
    have h1 := dpdEncode_lt (c % 1000) (Nat.mod_lt _ (by decide))
    have e1 : (dpdEncode (c % 1000) + 1024 * trailingEncode j (c / 1000)) % 1024 = dpdEncode (c % 1000) := by omega
    have e2 : (dpdEncode (c % 1000) + 1024 * trailingEncode j (c / 1000)) / 1024 = trailingEncode j (c / 1000) := by omega
    rw [e1, e2, dpd_roundtrip _ (Nat.mod_lt _ (by decide)), ih]
    rw [Nat.pow_succ, Nat.mul_comm (1000 ^ j) 1000, Nat.mod_mul]

theorem pow1024 (j : Nat) : 1024 ^ j = 2 ^ (10 * j) := by
  rw [Nat.pow_mul]

/-! ## format arithmetic -/

theorem fmt_t (n : Nat) (hn : 0 < n) : (Fmt.mk n).t = 10 * (Fmt.mk n).declets := by
  simp only [Fmt.t, Fmt.declets]; omega
theorem fmt_k (n : Nat) (hn : 0 < n) : (Fmt.mk n).k - 1 = (Fmt.mk n).t + ((Fmt.mk n).w + 5) := by
  simp only [Fmt.k, Fmt.t, Fmt.w]; omega
theorem fmt_p (n : Nat) (hn : 0 < n) : (Fmt.mk n).p = 3 * (Fmt.mk n).declets + 1 := by
  simp only [Fmt.p, Fmt.declets]; omega
theorem fmt_emax (n : Nat) : (Fmt.mk n).emax = 3 * 2 ^ ((Fmt.mk n).w - 1) := by
  simp only [Fmt.emax, Fmt.w]; congr 2
theorem pow1000 (j : Nat) : 1000 ^ j = 10 ^ (3 * j) := by
  rw [Nat.pow_mul]

/-- the number of biased exponents -/
theorem elimit_eq (n : Nat) (hn : 0 < n) :
    ((Fmt.mk n).elimit : Int) = (Fmt.mk n).qmax + (Fmt.mk n).bias + 1 := by
  have hw : (Fmt.mk n).w = ((Fmt.mk n).w - 1) + 1 := by simp only [Fmt.w]; omega
  have he := fmt_emax n
  have hp : 2 ≤ (Fmt.mk n).p := by simp only [Fmt.p]; omega
  simp only [Fmt.elimit, Fmt.qmax, Fmt.bias]
  rw [hw, Nat.pow_succ]
  generalize 2 ^ ((Fmt.mk n).w - 1) = X at *
  omega

/-! ## splitting a bit pattern into its fields -/

theorem field_split (a t T : Nat) (hT : T < 2 ^ t) : (a * 2 ^ t + T) / 2 ^ t = a ∧ (a * 2 ^ t + T) % 2 ^ t = T := by
  have hp : 0 < 2 ^ t := Nat.two_pow_pos t
  constructor
  · rw [Nat.mul_comm, Nat.mul_add_div hp, Nat.div_eq_of_lt hT]; rfl
  · rw [Nat.mul_comm, Nat.mul_add_mod, Nat.mod_eq_of_lt hT]

/-- sign bit `b ≤ 1`, a `g`-bit field `G` and a `t`-bit field `T` packed into one number -/
theorem three_fields (b g t G T N : Nat) (hb : b ≤ 1) (hG : G < 2 ^ g) (hT : T < 2 ^ t)
    (hdef : N = b * 2 ^ (t + g) + G * 2 ^ t + T) :
    N / 2 ^ (t + g) % 2 = b ∧ N / 2 ^ t % 2 ^ g = G ∧ N % 2 ^ t = T ∧ N < 2 ^ (t + g + 1) := by
  have hpk : 2 ^ (t + g) = 2 ^ g * 2 ^ t := by rw [Nat.pow_add, Nat.mul_comm]
  have hN : N = (b * 2 ^ g + G) * 2 ^ t + T := by
    rw [hdef, hpk, Nat.add_mul, Nat.mul_assoc]
  have h1 := field_split (b * 2 ^ g + G) t T hT
  have h2 := field_split b g G hG
  have hg : 0 < 2 ^ g := Nat.two_pow_pos g
  have ht : 0 < 2 ^ t := Nat.two_pow_pos t
  refine ⟨?_, ?_, ?_, ?_⟩
  · rw [hpk, Nat.mul_comm (2 ^ g), ← Nat.div_div_eq_div_mul, hN, h1.1, h2.1]; omega
  · rw [hN, h1.1, h2.2]
  · rw [hN, h1.2]
  · rw [Nat.pow_succ, hpk, hN]
    calc (b * 2 ^ g + G) * 2 ^ t + T
        < (b * 2 ^ g + G) * 2 ^ t + 2 ^ t := by omega
      _ = (b * 2 ^ g + G + 1) * 2 ^ t := by rw [Nat.add_mul _ 1, Nat.one_mul]
      _ ≤ (2 ^ g * 2) * 2 ^ t := by
          apply Nat.mul_le_mul_right
          have : b * 2 ^ g ≤ 2 ^ g := by
            have := Nat.mul_le_mul_right (2 ^ g) hb; simpa using this
          omega
      _ = 2 ^ g * 2 ^ t * 2 := by rw [Nat.mul_assoc, Nat.mul_comm 2, ← Nat.mul_assoc]

/-- the three fields of an encoded pattern: sign, combination `G`, trailing significand `T` -/
theorem pattern_fields (n : Nat) (hn : 0 < n) (neg : Bool) (G T N : Nat) (hG : G < 2 ^ ((Fmt.mk n).w + 5)) (hT : T < 2 ^ (Fmt.mk n).t)
    (hdef : N = signBit ⟨n⟩ neg + G * 2 ^ (Fmt.mk n).t + T) :
    N / 2 ^ ((Fmt.mk n).k - 1) % 2 = (if neg then 1 else 0) ∧
    N / 2 ^ (Fmt.mk n).t % 2 ^ ((Fmt.mk n).w + 5) = G ∧ N % 2 ^ (Fmt.mk n).t = T ∧ N < 2 ^ (Fmt.mk n).k := by
  have hk := fmt_k n hn
  have hk1 : (Fmt.mk n).k = (Fmt.mk n).t + ((Fmt.mk n).w + 5) + 1 := by simp only [Fmt.k, Fmt.t, Fmt.w]; omega
  have hs : signBit ⟨n⟩ neg = (if neg then 1 else 0) * 2 ^ ((Fmt.mk n).t + ((Fmt.mk n).w + 5)) := by
    unfold signBit; rw [hk]; cases neg <;> simp
  have h := three_fields (if neg then 1 else 0) ((Fmt.mk n).w + 5) (Fmt.mk n).t G T N (by cases neg <;> simp) hG hT
    (by rw [hdef, hs])
  rw [hk, hk1]
  exact h

/-! ## the decoder inverts the encoder; every pattern decodes inside the format -/

theorem pow_t (n : Nat) (hn : 0 < n) : 2 ^ (Fmt.mk n).t = 1024 ^ (Fmt.mk n).declets := by
  rw [fmt_t n hn, pow1024]

theorem ten_pow_p (n : Nat) (hn : 0 < n) : 10 ^ (Fmt.mk n).p = 10 * 1000 ^ (Fmt.mk n).declets := by
  rw [fmt_p n hn, Nat.pow_succ, pow1000, Nat.mul_comm]

theorem w_pos (n : Nat) : (Fmt.mk n).w = ((Fmt.mk n).w - 1) + 1 := by simp only [Fmt.w]; omega

/-- decoding the five leading combination bits built by the encoder -/
theorem g5_roundtrip (etop msd : Nat) (he : etop ≤ 2) (hm : msd < 10) :
    let g5 := if msd < 8 then etop * 8 + msd else 24 + etop * 2 + (msd - 8)
    g5 < 30 ∧ (if g5 / 8 < 3 then (g5 / 8, g5 % 8) else (g5 / 2 % 4, 8 + g5 % 2)) = (etop, msd) := by
  intro g5
  have : ∀ e ≤ 2, ∀ m < 10,
      (if m < 8 then e * 8 + m else 24 + e * 2 + (m - 8)) < 30 ∧
      (if (if m < 8 then e * 8 + m else 24 + e * 2 + (m - 8)) / 8 < 3
        then ((if m < 8 then e * 8 + m else 24 + e * 2 + (m - 8)) / 8, (if m < 8 then e * 8 + m else 24 + e * 2 + (m - 8)) % 8)
        else ((if m < 8 then e * 8 + m else 24 + e * 2 + (m - 8)) / 2 % 4, 8 + (if m < 8 then e * 8 + m else 24 + e * 2 + (m - 8)) % 2)) = (e, m) := by
    decide
  exact this etop he msd hm

/-- **Spec round trip (finite).** Decoding the canonical encoding of `(s, c, e)` gives `(s, c, e)` back,
    for every width, every coefficient below `10^p` and every exponent of the format. -/
theorem decode_encodeFin (n : Nat) (hn : 0 < n) (neg : Bool) (c : Nat) (e : Int)
    (hc : c < 10 ^ (Fmt.mk n).p) (he : (Fmt.mk n).qmin ≤ e ∧ e ≤ (Fmt.mk n).qmax) :
    decode ⟨n⟩ (encodeFin ⟨n⟩ neg c e) = .fin neg c e ∧ encodeFin ⟨n⟩ neg c e < 2 ^ (32 * n) := by
  have hlim := elimit_eq n hn
  have hE0 : 0 ≤ e + (Fmt.mk n).bias := by simp only [Fmt.qmin] at he; omega
  generalize hEdef : (e + (Fmt.mk n).bias).toNat = E
  have hEe : (E : Int) = e + (Fmt.mk n).bias := by rw [← hEdef]; omega
  have hElt : E < 3 * 2 ^ (Fmt.mk n).w := by
    have : ((Fmt.mk n).elimit : Int) = ((3 * 2 ^ (Fmt.mk n).w : Nat) : Int) := rfl
    have h2 : (E : Int) < ((3 * 2 ^ (Fmt.mk n).w : Nat) : Int) := by rw [← this, hlim]; omega
    exact_mod_cast h2
  have hw : 0 < 2 ^ (Fmt.mk n).w := Nat.two_pow_pos _
  have hetop : E / 2 ^ (Fmt.mk n).w ≤ 2 := by
    have : E / 2 ^ (Fmt.mk n).w < 3 := by rw [Nat.div_lt_iff_lt_mul hw]; omega
    omega
  have hp10 := ten_pow_p n hn
  have hd : 0 < 1000 ^ (Fmt.mk n).declets := Nat.pow_pos (by decide)
  have hmsd : c / 1000 ^ (Fmt.mk n).declets < 10 := by rw [Nat.div_lt_iff_lt_mul hd]; omega
  obtain ⟨hg5lt, hg5⟩ := g5_roundtrip (E / 2 ^ (Fmt.mk n).w) (c / 1000 ^ (Fmt.mk n).declets) hetop hmsd
  generalize hg5def : (if c / 1000 ^ (Fmt.mk n).declets < 8 then E / 2 ^ (Fmt.mk n).w * 8 + c / 1000 ^ (Fmt.mk n).declets
      else 24 + E / 2 ^ (Fmt.mk n).w * 2 + (c / 1000 ^ (Fmt.mk n).declets - 8)) = g5 at hg5lt hg5
  have hTlt : trailingEncode (Fmt.mk n).declets (c % 1000 ^ (Fmt.mk n).declets) < 2 ^ (Fmt.mk n).t := by
    rw [pow_t n hn]; exact trailingEncode_lt _ _
  have hGsplit := field_split g5 (Fmt.mk n).w (E % 2 ^ (Fmt.mk n).w) (Nat.mod_lt _ hw)
  have hGlt : g5 * 2 ^ (Fmt.mk n).w + E % 2 ^ (Fmt.mk n).w < 2 ^ ((Fmt.mk n).w + 5) := by
    have := Nat.mod_lt E hw
    rw [Nat.pow_add]
    calc g5 * 2 ^ (Fmt.mk n).w + E % 2 ^ (Fmt.mk n).w < g5 * 2 ^ (Fmt.mk n).w + 2 ^ (Fmt.mk n).w := by omega
      _ = (g5 + 1) * 2 ^ (Fmt.mk n).w := by rw [Nat.add_mul, Nat.one_mul]
      _ ≤ 32 * 2 ^ (Fmt.mk n).w := Nat.mul_le_mul_right _ (by omega)
      _ = 2 ^ (Fmt.mk n).w * 2 ^ 5 := by rw [Nat.mul_comm]
  have hN : encodeFin ⟨n⟩ neg c e = signBit ⟨n⟩ neg + (g5 * 2 ^ (Fmt.mk n).w + E % 2 ^ (Fmt.mk n).w) * 2 ^ (Fmt.mk n).t
      + trailingEncode (Fmt.mk n).declets (c % 1000 ^ (Fmt.mk n).declets) := by
    simp only [encodeFin, hEdef, hg5def]
  obtain ⟨f1, f2, f3, f4⟩ := pattern_fields n hn neg _ _ _ hGlt hTlt hN
  refine ⟨?_, by simpa [Fmt.k] using f4⟩
  unfold decode
  simp only [f1, f2, f3, hGsplit.1, hGsplit.2]
  have h30 : g5 ≠ 30 := by omega
  have h31 : g5 ≠ 31 := by omega
  simp only [h30, h31, if_false]
  rw [trailing_roundtrip, Nat.mod_mod, hg5]
  have h1 : c / 1000 ^ (Fmt.mk n).declets * 1000 ^ (Fmt.mk n).declets + c % 1000 ^ (Fmt.mk n).declets = c :=
    Nat.div_add_mod' c _
  have h2 : E / 2 ^ (Fmt.mk n).w * 2 ^ (Fmt.mk n).w + E % 2 ^ (Fmt.mk n).w = E := Nat.div_add_mod' E _
  simp only [h1, h2, hEe]
  congr 1
  · cases neg <;> simp
  · omega

/-- exponent top bits and most significant digit from the five leading combination bits -/
def decodePair (g5 : Nat) : Nat × Nat := if g5 / 8 < 3 then (g5 / 8, g5 % 8) else (g5 / 2 % 4, 8 + g5 % 2)

/-- `Spec.decode` with the pattern match written as projections -/
theorem decode_eq (f : Fmt) (N : Nat) :
    decode f N =
      if N / 2 ^ f.t % 2 ^ (f.w + 5) / 2 ^ f.w = 30 then .inf (decide (N / 2 ^ (f.k - 1) % 2 = 1))
      else if N / 2 ^ f.t % 2 ^ (f.w + 5) / 2 ^ f.w = 31 then
        .nan (decide (N / 2 ^ (f.k - 1) % 2 = 1)) (decide (N / 2 ^ f.t % 2 ^ (f.w + 5) / 2 ^ (f.w - 1) % 2 = 1))
          (trailingDecode f.declets (N % 2 ^ f.t))
      else .fin (decide (N / 2 ^ (f.k - 1) % 2 = 1))
        ((decodePair (N / 2 ^ f.t % 2 ^ (f.w + 5) / 2 ^ f.w)).2 * 1000 ^ f.declets + trailingDecode f.declets (N % 2 ^ f.t))
        (((decodePair (N / 2 ^ f.t % 2 ^ (f.w + 5) / 2 ^ f.w)).1 * 2 ^ f.w + N / 2 ^ f.t % 2 ^ (f.w + 5) % 2 ^ f.w : Nat) - f.bias) := by
  unfold decode decodePair
  simp only

theorem decodePair_bounds : ∀ g < 32, g ≠ 30 → g ≠ 31 → (decodePair g).1 ≤ 2 ∧ (decodePair g).2 ≤ 9 := by
  decide

/-- **Every pattern decodes inside the format**: a finite datum has a coefficient below `10^p` and an exponent in
    `[qmin, qmax]`, canonical or not (non-canonical declets, large-digit combination). -/
theorem decode_fin_bounds (n : Nat) (hn : 0 < n) (N : Nat) (s : Bool) (c : Nat) (e : Int)
    (h : decode ⟨n⟩ N = .fin s c e) :
    c < 10 ^ (Fmt.mk n).p ∧ (Fmt.mk n).qmin ≤ e ∧ e ≤ (Fmt.mk n).qmax := by
  have hlim := elimit_eq n hn
  have hp10 := ten_pow_p n hn
  rw [decode_eq] at h
  have hGlt : N / 2 ^ (Fmt.mk n).t % 2 ^ ((Fmt.mk n).w + 5) < 2 ^ ((Fmt.mk n).w + 5) := Nat.mod_lt _ (Nat.two_pow_pos _)
  generalize N / 2 ^ (Fmt.mk n).t % 2 ^ ((Fmt.mk n).w + 5) = G at h hGlt
  have hT := trailingDecode_lt (Fmt.mk n).declets (N % 2 ^ (Fmt.mk n).t)
  generalize trailingDecode (Fmt.mk n).declets (N % 2 ^ (Fmt.mk n).t) = TT at h hT
  have hw : 0 < 2 ^ (Fmt.mk n).w := Nat.two_pow_pos _
  have hg5 : G / 2 ^ (Fmt.mk n).w < 32 := by
    rw [Nat.div_lt_iff_lt_mul hw, Nat.mul_comm]; rw [Nat.pow_add] at hGlt; exact hGlt
  have hlow : G % 2 ^ (Fmt.mk n).w < 2 ^ (Fmt.mk n).w := Nat.mod_lt _ hw
  generalize G % 2 ^ (Fmt.mk n).w = lo at h hlow
  generalize G / 2 ^ (Fmt.mk n).w = g5 at h hg5
  have hel : ((Fmt.mk n).elimit : Int) = ((3 * 2 ^ (Fmt.mk n).w : Nat) : Int) := rfl
  generalize 2 ^ (Fmt.mk n).w = W at *
  generalize 1000 ^ (Fmt.mk n).declets = X at *
  split at h
  · cases h
  · split at h
    · cases h
    · rename_i h30 h31
      obtain ⟨k1, k2⟩ := decodePair_bounds g5 hg5 h30 h31
      generalize (decodePair g5).1 = etop at h k1
      generalize (decodePair g5).2 = msd at h k2
      injection h with _ hc he
      subst hc he
      have m1 : msd * X ≤ 9 * X := Nat.mul_le_mul_right _ k2
      have m2 : etop * W ≤ 2 * W := Nat.mul_le_mul_right _ k1
      refine ⟨by omega, by simp only [Fmt.qmin]; omega, ?_⟩
      have h2 : ((etop * W + lo : Nat) : Int) < ((3 * W : Nat) : Int) := by
        exact_mod_cast (by omega : etop * W + lo < 3 * W)
      rw [← hel, hlim] at h2
      omega

theorem decode_nan_payload_lt (n : Nat) (N : Nat) (s g : Bool) (p : Nat) (h : decode ⟨n⟩ N = .nan s g p) :
    p < 1000 ^ (Fmt.mk n).declets := by
  rw [decode_eq] at h
  split at h
  · cases h
  · split at h
    · injection h with _ _ hp; rw [← hp]; exact trailingDecode_lt _ _
    · cases h

/-- **Spec round trip (infinity).** -/
theorem decode_encodeInf (n : Nat) (hn : 0 < n) (neg : Bool) :
    decode ⟨n⟩ (encodeInf ⟨n⟩ neg) = .inf neg ∧ encodeInf ⟨n⟩ neg < 2 ^ (32 * n) := by
  have hw : 0 < 2 ^ (Fmt.mk n).w := Nat.two_pow_pos _
  have hGlt : 30 * 2 ^ (Fmt.mk n).w < 2 ^ ((Fmt.mk n).w + 5) := by rw [Nat.pow_add]; omega
  have hN : encodeInf ⟨n⟩ neg = signBit ⟨n⟩ neg + (30 * 2 ^ (Fmt.mk n).w) * 2 ^ (Fmt.mk n).t + 0 := rfl
  obtain ⟨f1, f2, f3, f4⟩ := pattern_fields n hn neg _ _ _ hGlt (Nat.two_pow_pos _) hN
  refine ⟨?_, by simpa [Fmt.k] using f4⟩
  unfold decode
  simp only [f1, f2, f3]
  have : 30 * 2 ^ (Fmt.mk n).w / 2 ^ (Fmt.mk n).w = 30 := Nat.mul_div_cancel _ hw
  simp only [this, if_true]
  cases neg <;> simp

/-- **Spec round trip (NaN).** sign, signaling bit and any payload that fits the trailing significand -/
theorem decode_encodeNan (n : Nat) (hn : 0 < n) (neg sig : Bool) (payload : Nat) (hp : payload < 1000 ^ (Fmt.mk n).declets) :
    decode ⟨n⟩ (encodeNan ⟨n⟩ neg sig payload) = .nan neg sig payload ∧ encodeNan ⟨n⟩ neg sig payload < 2 ^ (32 * n) := by
  have hw1 := w_pos n
  have hw : 0 < 2 ^ ((Fmt.mk n).w - 1) := Nat.two_pow_pos _
  have hpw : 2 ^ (Fmt.mk n).w = 2 * 2 ^ ((Fmt.mk n).w - 1) := by
    conv => lhs; rw [hw1, Nat.pow_succ, Nat.mul_comm]
  have hb : (62 + if sig then 1 else 0) ≤ 63 := by cases sig <;> simp
  have hGlt : (62 + if sig then 1 else 0) * 2 ^ ((Fmt.mk n).w - 1) < 2 ^ ((Fmt.mk n).w + 5) := by
    rw [Nat.pow_add, hpw]
    have := Nat.mul_le_mul_right (2 ^ ((Fmt.mk n).w - 1)) hb
    omega
  have hTlt : trailingEncode (Fmt.mk n).declets payload < 2 ^ (Fmt.mk n).t := by
    rw [pow_t n hn]; exact trailingEncode_lt _ _
  have hN : encodeNan ⟨n⟩ neg sig payload = signBit ⟨n⟩ neg + ((62 + if sig then 1 else 0) * 2 ^ ((Fmt.mk n).w - 1)) * 2 ^ (Fmt.mk n).t
      + trailingEncode (Fmt.mk n).declets payload := rfl
  obtain ⟨f1, f2, f3, f4⟩ := pattern_fields n hn neg _ _ _ hGlt hTlt hN
  refine ⟨?_, by simpa [Fmt.k] using f4⟩
  unfold decode
  simp only [f1, f2, f3]
  have hg5 : (62 + if sig then 1 else 0) * 2 ^ ((Fmt.mk n).w - 1) / 2 ^ (Fmt.mk n).w = 31 := by
    rw [hpw, Nat.mul_comm 2, ← Nat.div_div_eq_div_mul, Nat.mul_div_cancel _ hw]
    cases sig <;> simp
  have hsg : (62 + if sig then 1 else 0) * 2 ^ ((Fmt.mk n).w - 1) / 2 ^ ((Fmt.mk n).w - 1) % 2 = (if sig then 1 else 0) := by
    rw [Nat.mul_div_cancel _ hw]; cases sig <;> simp
  simp only [hg5, hsg, trailing_roundtrip, Nat.mod_eq_of_lt hp]
  cases neg <;> cases sig <;> simp

/-- decoding is unchanged by canonicalisation, and canonicalisation is idempotent -/
theorem decode_canon (n : Nat) (hn : 0 < n) (N : Nat) : decode ⟨n⟩ (canon ⟨n⟩ N) = decode ⟨n⟩ N := by
  unfold canon
  cases h : decode ⟨n⟩ N with
  | fin s c e =>
    obtain ⟨h1, h2, h3⟩ := decode_fin_bounds n hn N s c e h
    exact (decode_encodeFin n hn s c e h1 ⟨h2, h3⟩).1
  | inf s => exact (decode_encodeInf n hn s).1
  | nan s g p => exact (decode_encodeNan n hn s g p (decode_nan_payload_lt n N s g p h)).1

theorem canon_idem (n : Nat) (hn : 0 < n) (N : Nat) : canon ⟨n⟩ (canon ⟨n⟩ N) = canon ⟨n⟩ N := by
  show encode ⟨n⟩ (decode ⟨n⟩ (canon ⟨n⟩ N)) = encode ⟨n⟩ (decode ⟨n⟩ N)
  rw [decode_canon n hn N]

theorem canon_lt (n : Nat) (hn : 0 < n) (N : Nat) : canon ⟨n⟩ N < 2 ^ (32 * n) := by
  unfold canon
  cases h : decode ⟨n⟩ N with
  | fin s c e =>
    obtain ⟨h1, h2, h3⟩ := decode_fin_bounds n hn N s c e h
    exact (decode_encodeFin n hn s c e h1 ⟨h2, h3⟩).2
  | inf s => exact (decode_encodeInf n hn s).2
  | nan s g p => exact (decode_encodeNan n hn s g p (decode_nan_payload_lt n N s g p h)).2

end Decstr.Proofs
