import Decstr.Proofs.EncodeSig
import Decstr.Proofs.EncodeComb
/-!
# Proofs.Encode — the encoder of the model is the IEEE 754-2019 §3.5.2 encoding, for every width `32n`

Main results (all for every `n ≥ 1`, by induction on the loop counters):
* `dpdOfBcd_spec` (EncodeBits), `encodeSignificand_spec` (EncodeSig), `encodeCombinationFinite_spec` (EncodeComb)
* `encode_finite_bits` — C01 core: digits + exponent in range ⇒ exactly `Spec.encodeFin`
* `encodeInfinity_spec`, `encodeNan_spec`, `encodeNan_nopayload` — C09 encoders
* `encodeMax_spec`, `encodeMin_spec` — C18 limit encoders
-/
namespace Decstr.Proofs
open Decstr.Model Decstr.Spec

/-! ## format arithmetic -/

namespace EncodeAux

theorem widthBits_mk (n N : Nat) : (Buf.mk (4 * n) N).widthBits = 32 * n := by
  simp only [Buf.widthBits]; omega

theorem precision_mk (n N : Nat) : (Buf.mk (4 * n) N).precision = 9 * n - 2 := by
  simp only [Buf.precision, Buf.widthBits]; omega

theorem pow1024 (j : Nat) : 1024 ^ j = 2 ^ (10 * j) := by
  rw [Nat.pow_mul]

theorem trailingEncode_lt_pow (n : Nat) (hn : 0 < n) (c : Nat) : trailingEncode (3 * n - 1) c < 2 ^ (30 * n - 10) := by
  have := trailingEncode_lt (3 * n - 1) c
  rwa [pow1024, show 10 * (3 * n - 1) = 30 * n - 10 by omega] at this

theorem pow10_p (n : Nat) (hn : 0 < n) : 10 ^ (9 * n - 2) = 10 * 1000 ^ (3 * n - 1) := by
  rw [pow1000, show 9 * n - 2 = 1 + 3 * (3 * n - 1) by omega, Nat.pow_add]

/-- the model's bias is the specification's -/
theorem biasOf_eq (n : Nat) (hn : 0 < n) : biasOf (32 * n) (9 * n - 2) = ((Fmt.mk n).bias : Int) := by
  unfold biasOf emaxOf Fmt.bias Fmt.emax Fmt.p
  simp only
  rw [show 32 * n / 16 = 2 * n by omega]
  have hc : ((2 : Int) ^ (2 * n + 3)) = ((2 ^ (2 * n + 3) : Nat) : Int) := by norm_cast
  rw [hc]
  generalize 2 ^ (2 * n + 3) = X
  omega

theorem emaxOf_eq (n : Nat) : emaxOf (32 * n) = ((Fmt.mk n).emax : Int) := by
  unfold emaxOf Fmt.emax
  simp only
  rw [show 32 * n / 16 = 2 * n by omega]
  norm_cast

/-- biased exponents of representable `q` are below `3·2^w` -/
theorem biased_lt (n : Nat) (hn : 0 < n) (q : Int) (hq : (Fmt.mk n).qmin ≤ q ∧ q ≤ (Fmt.mk n).qmax) :
    (q + ((Fmt.mk n).bias : Int)).toNat < 3 * 2 ^ (2 * n + 4) := by
  obtain ⟨h1, h2⟩ := hq
  unfold Fmt.qmin at h1
  unfold Fmt.qmax at h2
  unfold Fmt.bias at *
  unfold Fmt.emax Fmt.p at *
  simp only at *
  have : 2 ^ (2 * n + 4) = 2 * 2 ^ (2 * n + 3) := by rw [Nat.pow_succ]; omega
  rw [this]
  generalize 2 ^ (2 * n + 3) = X at *
  omega

end EncodeAux
open EncodeAux

/-! ## C01 core -/

/-- the combination encoder on top of the canonical trailing significand of `c` is `Spec.encodeFin` -/
theorem combination_encodeFin (n : Nat) (hn : 0 < n) (neg : Bool) (c : Nat) (hc : c < 10 ^ (9 * n - 2))
    (q : Int) (hq : (Fmt.mk n).qmin ≤ q ∧ q ≤ (Fmt.mk n).qmax) :
    encodeCombinationFinite ⟨4 * n, trailingEncode (3 * n - 1) (c % 1000 ^ (3 * n - 1))⟩ neg
        (biasOf (32 * n) (9 * n - 2) + q).toNat (c / 1000 ^ (3 * n - 1))
      = ⟨4 * n, encodeFin ⟨n⟩ neg c q⟩ := by
  have hmsd : c / 1000 ^ (3 * n - 1) < 10 := by
    rw [Nat.div_lt_iff_lt_mul (Nat.pow_pos (by decide))]
    rw [pow10_p n hn] at hc
    omega
  have hE : (biasOf (32 * n) (9 * n - 2) + q).toNat = (q + ((Fmt.mk n).bias : Int)).toNat := by
    rw [biasOf_eq n hn, Int.add_comm]
  rw [hE]
  rw [encodeCombinationFinite_spec n hn _ (trailingEncode_lt_pow n hn _) neg _ (biased_lt n hn q hq) _ hmsd]
  rfl

/-- C01 core: digits + exponent in range ⇒ exactly the canonical IEEE encoding -/
theorem encode_finite_bits (n : Nat) (hn : 0 < n) (neg : Bool) (ds : List Nat) (hds : AsciiDigits ds) (hne : ds ≠ [])
    (hlen : ds.length ≤ (Fmt.mk n).p) (q : Int) (hq : (Fmt.mk n).qmin ≤ q ∧ q ≤ (Fmt.mk n).qmax) :
    encodeCombinationFinite (encodeSignificand (Buf.zero (4 * n)) ds).1 neg
        (biasOf (32 * n) (9 * n - 2) + q).toNat (encodeSignificand (Buf.zero (4 * n)) ds).2
      = ⟨4 * n, encodeFin ⟨n⟩ neg (valOf ds) q⟩ := by
  obtain ⟨h1, h2⟩ := encodeSignificand_spec n hn ds hds hne hlen
  rw [h1, h2]
  apply combination_encodeFin n hn neg _ _ q hq
  exact Nat.lt_of_lt_of_le (valOf_lt ds hds) (Nat.pow_le_pow_right (by decide) hlen)

/-- the canonical finite encoding fits the width (so the encoder's result is a well-formed buffer) -/
theorem encodeFin_lt (n : Nat) (hn : 0 < n) (neg : Bool) (c : Nat) (hc : c < 10 ^ (9 * n - 2))
    (q : Int) (hq : (Fmt.mk n).qmin ≤ q ∧ q ≤ (Fmt.mk n).qmax) : encodeFin ⟨n⟩ neg c q < 2 ^ (32 * n) := by
  have hmsd : c / 1000 ^ (3 * n - 1) < 10 := by
    rw [Nat.div_lt_iff_lt_mul (Nat.pow_pos (by decide))]
    rw [pow10_p n hn] at hc
    omega
  have hE := biased_lt n hn q hq
  have hT := trailingEncode_lt_pow n hn (c % 1000 ^ (3 * n - 1))
  simp only [encodeFin, Fmt.w, Fmt.t, Fmt.declets, signBit, Fmt.k]
  generalize (q + ((Fmt.mk n).bias : Int)).toNat = E at hE
  generalize trailingEncode (3 * n - 1) (c % 1000 ^ (3 * n - 1)) = T at hT
  have hmse : E / 2 ^ (2 * n + 4) < 3 := by
    rw [Nat.div_lt_iff_lt_mul (Nat.two_pow_pos _)]; exact hE
  have key : ∀ g, g < 30 → (if neg = true then 2 ^ (32 * n - 1) else 0)
      + (g * 2 ^ (2 * n + 4) + E % 2 ^ (2 * n + 4)) * 2 ^ (30 * n - 10) + T < 2 ^ (32 * n) := by
    intro g hg
    have hEW : E % 2 ^ (2 * n + 4) < 2 ^ (2 * n + 4) := Nat.mod_lt _ (Nat.two_pow_pos _)
    have h1 : (g * 2 ^ (2 * n + 4) + E % 2 ^ (2 * n + 4) + 1) * 2 ^ (30 * n - 10)
        ≤ (30 * 2 ^ (2 * n + 4)) * 2 ^ (30 * n - 10) := by
      apply Nat.mul_le_mul_right
      have : g * 2 ^ (2 * n + 4) ≤ 29 * 2 ^ (2 * n + 4) := Nat.mul_le_mul_right _ (by omega)
      omega
    have h2 : 2 ^ (32 * n - 1) = 32 * (2 ^ (2 * n + 4) * 2 ^ (30 * n - 10)) := by
      rw [← Nat.pow_add, show (32 : Nat) = 2 ^ 5 from rfl, ← Nat.pow_add]
      congr 1; omega
    have h3 : (g * 2 ^ (2 * n + 4) + E % 2 ^ (2 * n + 4) + 1) * 2 ^ (30 * n - 10)
        = (g * 2 ^ (2 * n + 4) + E % 2 ^ (2 * n + 4)) * 2 ^ (30 * n - 10) + 2 ^ (30 * n - 10) := by ring
    have h4 : (30 * 2 ^ (2 * n + 4)) * 2 ^ (30 * n - 10) = 30 * (2 ^ (2 * n + 4) * 2 ^ (30 * n - 10)) := by ring
    have h5 : 2 ^ (32 * n) = 2 * 2 ^ (32 * n - 1) := by
      rw [pow_split (32 * n) 1 (32 * n - 1) (by omega), Nat.pow_one]
    split <;> omega
  show (if neg = true then 2 ^ (32 * n - 1) else 0) +
      ((if c / 1000 ^ (3 * n - 1) < 8 then E / 2 ^ (2 * n + 4) * 8 + c / 1000 ^ (3 * n - 1)
        else 24 + E / 2 ^ (2 * n + 4) * 2 + (c / 1000 ^ (3 * n - 1) - 8)) * 2 ^ (2 * n + 4) +
        E % 2 ^ (2 * n + 4)) * 2 ^ (30 * n - 10) + T < 2 ^ (32 * n)
  by_cases h8 : c / 1000 ^ (3 * n - 1) < 8
  · rw [if_pos h8]; exact key _ (by omega)
  · rw [if_neg h8]; exact key _ (by omega)

/-- the C01 result is a well-formed `4n`-byte buffer -/
theorem encode_finite_WF (n : Nat) (hn : 0 < n) (neg : Bool) (ds : List Nat) (hds : AsciiDigits ds) (hne : ds ≠ [])
    (hlen : ds.length ≤ (Fmt.mk n).p) (q : Int) (hq : (Fmt.mk n).qmin ≤ q ∧ q ≤ (Fmt.mk n).qmax) :
    WF (encodeCombinationFinite (encodeSignificand (Buf.zero (4 * n)) ds).1 neg
        (biasOf (32 * n) (9 * n - 2) + q).toNat (encodeSignificand (Buf.zero (4 * n)) ds).2) n := by
  rw [encode_finite_bits n hn neg ds hds hne hlen q hq]
  exact ⟨hn, rfl, encodeFin_lt n hn neg _
    (Nat.lt_of_lt_of_le (valOf_lt ds hds) (Nat.pow_le_pow_right (by decide) hlen)) q hq⟩

/-! ## C09 encoders -/

namespace EncodeAux

/-- the powers of two that meet in the last byte, in units of `L = 2^(32n−8)` -/
theorem last_byte_pows (n : Nat) (hn : 0 < n) :
    2 ^ (2 * n + 4) * 2 ^ (30 * n - 10) = 4 * 2 ^ (8 * (4 * n - 1)) ∧
    2 ^ (2 * n + 3) * 2 ^ (30 * n - 10) = 2 * 2 ^ (8 * (4 * n - 1)) ∧
    2 ^ (32 * n - 1) = 128 * 2 ^ (8 * (4 * n - 1)) ∧
    2 ^ (30 * n - 10) ≤ 2 ^ (8 * (4 * n - 1)) := by
  refine ⟨?_, ?_, ?_, Nat.pow_le_pow_right (by decide) (by omega)⟩
  · rw [← Nat.pow_add, show (4 : Nat) = 2 ^ 2 from rfl, ← Nat.pow_add]; congr 1; omega
  · rw [← Nat.pow_add, show (2 : Nat) * 2 ^ (8 * (4 * n - 1)) = 2 ^ 1 * 2 ^ (8 * (4 * n - 1)) from rfl, ← Nat.pow_add]
    congr 1; omega
  · rw [show (128 : Nat) = 2 ^ 7 from rfl, ← Nat.pow_add]; congr 1; omega

end EncodeAux

theorem encodeInfinity_spec (n : Nat) (hn : 0 < n) (neg : Bool) :
    encodeInfinity (Buf.zero (4 * n)) neg = ⟨4 * n, encodeInf ⟨n⟩ neg⟩ := by
  obtain ⟨p4, _, p128, _⟩ := last_byte_pows n hn
  unfold encodeInfinity Buf.zero
  rw [setAt_fresh _ _ _ (Nat.two_pow_pos _)]
  simp only [encodeInf, signBit, Fmt.k, Fmt.w, Fmt.t]
  congr 1
  rw [Nat.mul_assoc, p4, p128]
  cases neg
  · simp [INFINITY]; omega
  · simp [INFINITY, SIGN_NEGATIVE]; omega

/-- `encode_nan` on top of any trailing significand: the payload is kept, the last byte set -/
theorem encodeNan_bits (n : Nat) (hn : 0 < n) (neg sig : Bool) (T : Nat) (hT : T < 2 ^ (30 * n - 10)) :
    encodeNan ⟨4 * n, T⟩ neg sig =
      ⟨4 * n, signBit ⟨n⟩ neg + ((62 + if sig then 1 else 0) * 2 ^ (2 * n + 3)) * 2 ^ (30 * n - 10) + T⟩ := by
  obtain ⟨_, p2, p128, ple⟩ := last_byte_pows n hn
  unfold Model.encodeNan
  rw [setAt_fresh _ _ _ (Nat.lt_of_lt_of_le hT ple)]
  simp only [signBit, Fmt.k]
  congr 1
  rw [Nat.mul_assoc, p2, p128]
  cases neg <;> cases sig <;> simp [NAN, SIGN_NEGATIVE, SIGNALING] <;> omega

theorem encodeNan_spec (n : Nat) (hn : 0 < n) (neg sig : Bool) (ds : List Nat) (hds : AsciiDigits ds) (hne : ds ≠ [])
    (hlen : ds.length + 1 ≤ 9 * n - 2) :
    encodeNan (encodeSignificand (Buf.zero (4 * n)) ds).1 neg sig = ⟨4 * n, Spec.encodeNan ⟨n⟩ neg sig (valOf ds)⟩ := by
  obtain ⟨h1, _⟩ := encodeSignificand_spec n hn ds hds hne (by omega)
  have hv : valOf ds % 1000 ^ (3 * n - 1) = valOf ds := by
    apply Nat.mod_eq_of_lt
    rw [pow1000]
    exact Nat.lt_of_lt_of_le (valOf_lt ds hds) (Nat.pow_le_pow_right (by decide) (by omega))
  rw [h1, hv, encodeNan_bits n hn neg sig _ (trailingEncode_lt_pow n hn _)]
  simp only [Spec.encodeNan, Fmt.w, Fmt.t, Fmt.declets]
  rw [show 2 * n + 4 - 1 = 2 * n + 3 by omega]

theorem encodeNan_nopayload (n : Nat) (hn : 0 < n) (neg sig : Bool) :
    encodeNan (Buf.zero (4 * n)) neg sig = ⟨4 * n, Spec.encodeNan ⟨n⟩ neg sig 0⟩ := by
  unfold Buf.zero
  rw [encodeNan_bits n hn neg sig 0 (Nat.two_pow_pos _)]
  simp only [Spec.encodeNan, Fmt.w, Fmt.t, Fmt.declets, trailingEncode_zero]
  rw [show 2 * n + 4 - 1 = 2 * n + 3 by omega]

/-! ## C18: the two limit encoders -/

namespace EncodeAux

/-- all-nines trailing significand -/
theorem trailingEncode_nines (k : Nat) :
    trailingEncode (k + 1) (1000 ^ (k + 1) - 1) = dpdEncode 999 + 1024 * trailingEncode k (1000 ^ k - 1) := by
  simp only [trailingEncode]
  have hp : 0 < 1000 ^ k := Nat.pow_pos (by decide)
  have e : 1000 ^ (k + 1) = 1000 * 1000 ^ k := by rw [Nat.pow_succ, Nat.mul_comm]
  rw [e]
  generalize 1000 ^ k = X at hp
  have h1 : (1000 * X - 1) % 1000 = 999 := by omega
  have h2 : (1000 * X - 1) / 1000 = X - 1 := by omega
  rw [h1, h2]

theorem repeat_go_eq (k bit : Nat) (hbit : bit % 2 = 0) (b : Buf) :
    encodeSignificandRepeat.go 57 k bit b = ⟨b.len, b.bits ||| (trailingEncode k (1000 ^ k - 1) <<< bit)⟩ := by
  induction k generalizing bit b with
  | zero => simp [encodeSignificandRepeat.go, trailingEncode]
  | succ k ih =>
    unfold encodeSignificandRepeat.go
    have hd : dpdOfBcd (bcdOfAscii 57 57 57) = dpdEncode 999 := dpdOfBcd_spec 9 (by decide) 9 (by decide) 9 (by decide)
    have hx : dpdEncode 999 < 1024 := dpdEncode_lt 999 (by decide)
    rw [hd, writeDpd_eq _ _ _ hx hbit, ih (bit + 10) (by omega), trailingEncode_nines]
    simp only
    congr 1
    rw [Nat.or_assoc]
    congr 1
    generalize dpdEncode 999 = x at hx
    generalize trailingEncode k (1000 ^ k - 1) = T
    have h10 : bit + 10 = 10 + bit := by omega
    rw [h10, Nat.shiftLeft_add, ← Nat.shiftLeft_or_distrib]
    congr 1
    have : x + 1024 * T = 2 ^ 10 * T + x := by omega
    rw [this, Nat.two_pow_add_eq_or_of_lt (by simpa using hx), Nat.or_comm, Nat.shiftLeft_eq, Nat.mul_comm]

theorem encodeSignificandRepeat_nines (n : Nat) (hn : 0 < n) :
    encodeSignificandRepeat (Buf.zero (4 * n)) 57 =
      (⟨4 * n, trailingEncode (3 * n - 1) (1000 ^ (3 * n - 1) - 1)⟩, 9) := by
  unfold encodeSignificandRepeat
  rw [trailingDigits_zero n hn, repeat_go_eq _ 0 (by decide)]
  simp [Buf.zero]

end EncodeAux

theorem encodeMax_spec (n : Nat) (hn : 0 < n) (neg : Bool) :
    encodeMax (4 * n) neg = ⟨4 * n, encodeFin ⟨n⟩ neg (10 ^ (9 * n - 2) - 1) (Fmt.mk n).qmax⟩ := by
  have hp : 0 < 1000 ^ (3 * n - 1) := Nat.pow_pos (by decide)
  have hc : 10 ^ (9 * n - 2) - 1 < 10 ^ (9 * n - 2) := by
    have : 0 < 10 ^ (9 * n - 2) := Nat.pow_pos (by decide)
    omega
  have hq : (Fmt.mk n).qmin ≤ (Fmt.mk n).qmax ∧ (Fmt.mk n).qmax ≤ (Fmt.mk n).qmax := by
    refine ⟨?_, Int.le_refl _⟩
    simp only [Fmt.qmin, Fmt.qmax, Fmt.bias, Fmt.emax, Fmt.p]
    have hX : 0 < 2 ^ (2 * n + 3) := Nat.two_pow_pos _
    generalize 2 ^ (2 * n + 3) = X at hX
    omega
  have key := combination_encodeFin n hn neg (10 ^ (9 * n - 2) - 1) hc _ hq
  have hdiv : (10 ^ (9 * n - 2) - 1) / 1000 ^ (3 * n - 1) = 9 := by
    rw [pow10_p n hn]
    generalize 1000 ^ (3 * n - 1) = X at hp
    rw [show 10 * X - 1 = (X - 1) + X * 9 by omega, Nat.add_mul_div_left _ _ hp, Nat.div_eq_of_lt (by omega)]
  have hmod : (10 ^ (9 * n - 2) - 1) % 1000 ^ (3 * n - 1) = 1000 ^ (3 * n - 1) - 1 := by
    rw [pow10_p n hn]
    generalize 1000 ^ (3 * n - 1) = X at hp
    rw [show 10 * X - 1 = (X - 1) + X * 9 by omega, Nat.add_mul_mod_self_left, Nat.mod_eq_of_lt (by omega)]
  rw [hdiv, hmod] at key
  rw [← key]
  unfold encodeMax
  simp only [encodeSignificandRepeat_nines n hn]
  simp only [Buf.zero, widthBits_mk, precision_mk]
  congr 2
  rw [emaxOf_eq]
  simp only [Fmt.qmax, Fmt.p]
  omega

theorem encodeMin_spec (n : Nat) (hn : 0 < n) (neg : Bool) :
    encodeMin (4 * n) neg = ⟨4 * n, encodeFin ⟨n⟩ neg 1 (Fmt.mk n).qmin⟩ := by
  have hds : AsciiDigits [49] := by unfold AsciiDigits; decide
  have hq : (Fmt.mk n).qmin ≤ (Fmt.mk n).qmin ∧ (Fmt.mk n).qmin ≤ (Fmt.mk n).qmax := by
    refine ⟨Int.le_refl _, ?_⟩
    simp only [Fmt.qmin, Fmt.qmax, Fmt.bias, Fmt.emax, Fmt.p]
    have hX : 0 < 2 ^ (2 * n + 3) := Nat.two_pow_pos _
    generalize 2 ^ (2 * n + 3) = X at hX
    omega
  have key := encode_finite_bits n hn neg [49] hds (by simp) (by simp [Fmt.p]; omega) _ hq
  rw [show valOf [49] = 1 from rfl] at key
  rw [← key]
  obtain ⟨h1, h2⟩ := encodeSignificand_spec n hn [49] hds (by simp) (by simp; omega)
  have hsig : encodeSignificand (Buf.zero (4 * n)) [49] =
      (⟨4 * n, trailingEncode (3 * n - 1) (valOf [49] % 1000 ^ (3 * n - 1))⟩, valOf [49] / 1000 ^ (3 * n - 1)) :=
    Prod.ext h1 h2
  unfold encodeMin
  simp only [hsig]
  simp only [Buf.zero, widthBits_mk, precision_mk]
  congr 2
  rw [emaxOf_eq, biasOf_eq n hn]
  simp only [Fmt.qmin, Fmt.bias, Fmt.p]
  generalize (Fmt.mk n).emax = X
  omega

/-! ## non-vacuity: concrete instances meet the hypotheses (and give the familiar bit patterns) -/

section Examples

private theorem digits123 : AsciiDigits [49, 50, 51] := by unfold AsciiDigits; decide

/-- Table 3.4 row: digits 9,8,7 (read least significant first) -/
example : dpdOfBcd (bcdOfAscii (7 + 48) (8 + 48) (9 + 48)) = dpdEncode 987 :=
  dpdOfBcd_spec 9 (by decide) 8 (by decide) 7 (by decide)

/-- decimal64 (`n = 2`), the 16-digit string "1234567890123456": 5 declets and the leading digit 1 -/
example :
    (encodeSignificand (Buf.zero 8) [49,50,51,52,53,54,55,56,57,48,49,50,51,52,53,54]).2
      = valOf [49,50,51,52,53,54,55,56,57,48,49,50,51,52,53,54] / 1000 ^ 5 :=
  (encodeSignificand_spec 2 (by decide) _ (by unfold AsciiDigits; decide) (by simp) (by decide)).2

/-- decimal96 (`n = 3`, the aligned branch): any trailing significand, biased exponent 3000, leading digit 9 -/
example : encodeCombinationFinite ⟨12, 12345⟩ true 3000 9 =
    ⟨12, signBit ⟨3⟩ true + ((24 + 3000 / 2 ^ 10 * 2 + 1) * 2 ^ 10 + 3000 % 2 ^ 10) * 2 ^ 80 + 12345⟩ :=
  encodeCombinationFinite_spec 3 (by decide) 12345 (by decide) true 3000 (by decide) 9 (by decide)

/-- decimal32 (`n = 1`): "123" with exponent −2 is `1.23` -/
example : encodeCombinationFinite (encodeSignificand (Buf.zero 4) [49, 50, 51]).1 false
      (biasOf 32 7 + (-2)).toNat (encodeSignificand (Buf.zero 4) [49, 50, 51]).2
    = ⟨4, encodeFin ⟨1⟩ false 123 (-2)⟩ :=
  encode_finite_bits 1 (by decide) false [49, 50, 51] digits123 (by simp) (by decide) (-2) (by decide)

example : encodeFin ⟨1⟩ false 123 (-2) = 0x223000A3 := by decide +kernel

example : encodeInfinity (Buf.zero 4) true = ⟨4, 0xF8000000⟩ := by
  rw [encodeInfinity_spec 1 (by decide) true]; decide +kernel

/-- decimal32 NaN payloads have at most 6 digits -/
example : Model.encodeNan (encodeSignificand (Buf.zero 4) [49, 50, 51]).1 false true = ⟨4, Spec.encodeNan ⟨1⟩ false true 123⟩ :=
  encodeNan_spec 1 (by decide) false true [49, 50, 51] digits123 (by simp) (by decide)

example : Spec.encodeNan ⟨1⟩ false true 123 = 0x7E0000A3 := by decide +kernel

example : Model.encodeNan (Buf.zero 8) true false = ⟨8, 0xFC00000000000000⟩ := by
  rw [encodeNan_nopayload 2 (by decide) true false]; decide +kernel

example : encodeMax 4 false = ⟨4, 0x77F3FCFF⟩ := by
  rw [encodeMax_spec 1 (by decide) false]; decide +kernel

example : encodeMin 4 true = ⟨4, 0x80000001⟩ := by
  rw [encodeMin_spec 1 (by decide) true]; decide +kernel

end Examples

end Decstr.Proofs

#print axioms Decstr.Proofs.dpdOfBcd_spec
#print axioms Decstr.Proofs.encodeSignificand_spec
#print axioms Decstr.Proofs.encodeCombinationFinite_spec
#print axioms Decstr.Proofs.encode_finite_bits
#print axioms Decstr.Proofs.encodeInfinity_spec
#print axioms Decstr.Proofs.encodeNan_spec
#print axioms Decstr.Proofs.encodeNan_nopayload
#print axioms Decstr.Proofs.encodeMax_spec
#print axioms Decstr.Proofs.encodeMin_spec
#print axioms Decstr.Proofs.encodeFin_lt
#print axioms Decstr.Proofs.encode_finite_WF
