import Decstr.Proofs.Basic
/-!
# Proofs.ParseLemmas — the reference recogniser `Spec.parse` on constructed texts

A small library used by the formatter proofs (C02/C03) and by the integer / float conversion proofs:

* `ofDigits` / `valOf` arithmetic (`append`, leading zeros, bounds);
* `AsciiDigits` closure properties;
* `takeDigits` on `ASCII digits ++ rest` where `rest` does not start with a digit;
* `toDecimal` of an `Int` is an optional `-` followed by a non-empty ASCII digit string with value `|x|`;
* `parse` of `sign ++ digits [. digits] [e sign digits]` (`parse_finiteText` and corollaries);
* `parse` of `inf`, `nan`, `snan`, `nan(ddd)`, `snan(ddd)`.

Core Lean only.
-/
set_option linter.unusedSimpArgs false
namespace Decstr.Proofs
open Decstr.Model Decstr.Spec

/-! ## `ofDigits` -/

theorem foldl_ofDigits (ds : List Nat) (a : Nat) :
    ds.foldl (fun a d => 10 * a + d) a = a * 10 ^ ds.length + ofDigits ds := by
  induction ds generalizing a with
  | nil => simp [ofDigits]
  | cons d ds ih =>
    simp only [ofDigits, List.foldl_cons, List.length_cons]
    rw [ih (10 * a + d), ih (10 * 0 + d)]
    simp only [Nat.mul_zero, Nat.zero_add, Nat.pow_succ]
    rw [Nat.add_mul, Nat.add_assoc]
    congr 1
    rw [Nat.mul_comm 10 a, Nat.mul_assoc, Nat.mul_comm 10]

@[simp] theorem ofDigits_nil : ofDigits [] = 0 := rfl

theorem ofDigits_cons (d : Nat) (ds : List Nat) : ofDigits (d :: ds) = d * 10 ^ ds.length + ofDigits ds := by
  have := foldl_ofDigits ds (10 * 0 + d)
  simp only [Nat.mul_zero, Nat.zero_add] at this
  simpa [ofDigits] using this

theorem ofDigits_append (a b : List Nat) : ofDigits (a ++ b) = ofDigits a * 10 ^ b.length + ofDigits b := by
  unfold ofDigits
  rw [List.foldl_append, foldl_ofDigits]
  rfl

@[simp] theorem ofDigits_singleton (d : Nat) : ofDigits [d] = d := by simp [ofDigits]

theorem ofDigits_replicate_zero (k : Nat) : ofDigits (List.replicate k 0) = 0 := by
  induction k with
  | zero => rfl
  | succ k ih => rw [List.replicate_succ, ofDigits_cons, ih]; simp

theorem ofDigits_replicate_zero_append (k : Nat) (ds : List Nat) :
    ofDigits (List.replicate k 0 ++ ds) = ofDigits ds := by
  rw [ofDigits_append, ofDigits_replicate_zero]; simp

theorem ofDigits_zero_cons (ds : List Nat) : ofDigits (0 :: ds) = ofDigits ds := by
  rw [ofDigits_cons]; simp

/-- digits `≤ 9` give a value below `10^length` -/
theorem ofDigits_lt (ds : List Nat) (h : ∀ d ∈ ds, d ≤ 9) : ofDigits ds < 10 ^ ds.length := by
  induction ds with
  | nil => simp
  | cons d ds ih =>
    have hd : d ≤ 9 := h d (by simp)
    have := ih (fun x hx => h x (by simp [hx]))
    rw [ofDigits_cons, List.length_cons, Nat.pow_succ]
    have : d * 10 ^ ds.length ≤ 9 * 10 ^ ds.length := Nat.mul_le_mul_right _ hd
    omega

/-! ## `AsciiDigits`, `digitVals`, `valOf` -/

@[simp] theorem asciiDigits_nil : AsciiDigits [] := by intro d h; cases h

theorem asciiDigits_cons {d : Nat} {ds : List Nat} : AsciiDigits (d :: ds) ↔ (48 ≤ d ∧ d ≤ 57) ∧ AsciiDigits ds := by
  simp [AsciiDigits]

theorem asciiDigits_append {a b : List Nat} : AsciiDigits (a ++ b) ↔ AsciiDigits a ∧ AsciiDigits b := by
  simp only [AsciiDigits, List.mem_append]
  constructor
  · intro h; exact ⟨fun d hd => h d (Or.inl hd), fun d hd => h d (Or.inr hd)⟩
  · rintro ⟨h1, h2⟩ d (hd | hd)
    · exact h1 d hd
    · exact h2 d hd

theorem asciiDigits_replicate_zero (k : Nat) : AsciiDigits (List.replicate k 48) := by
  intro d hd; rw [List.mem_replicate] at hd; omega

theorem AsciiDigits.sublist {a b : List Nat} (h : AsciiDigits b) (hs : a.Sublist b) : AsciiDigits a :=
  fun d hd => h d (hs.subset hd)

theorem AsciiDigits.take {ds : List Nat} (h : AsciiDigits ds) (k : Nat) : AsciiDigits (ds.take k) :=
  h.sublist (List.take_sublist k ds)

theorem AsciiDigits.drop {ds : List Nat} (h : AsciiDigits ds) (k : Nat) : AsciiDigits (ds.drop k) :=
  h.sublist (List.drop_sublist k ds)

theorem AsciiDigits.dropWhile {ds : List Nat} (h : AsciiDigits ds) (p : Nat → Bool) : AsciiDigits (ds.dropWhile p) :=
  h.sublist (List.dropWhile_sublist p)

theorem asciiDigits_flatten {dss : List (List Nat)} (h : ∀ d ∈ dss, AsciiDigits d) : AsciiDigits dss.flatten := by
  intro x hx
  rw [List.mem_flatten] at hx
  obtain ⟨l, hl, hxl⟩ := hx
  exact h l hl x hxl

@[simp] theorem digitVals_nil : digitVals [] = [] := rfl
@[simp] theorem digitVals_cons (d : Nat) (ds : List Nat) : digitVals (d :: ds) = (d - 48) :: digitVals ds := rfl
@[simp] theorem digitVals_append (a b : List Nat) : digitVals (a ++ b) = digitVals a ++ digitVals b := by
  simp [digitVals]
@[simp] theorem digitVals_length (a : List Nat) : (digitVals a).length = a.length := by simp [digitVals]
theorem digitVals_replicate_zero (k : Nat) : digitVals (List.replicate k 48) = List.replicate k 0 := by
  simp [digitVals]
theorem digitVals_eq_nil {a : List Nat} : digitVals a = [] ↔ a = [] := by simp [digitVals]
theorem digitVals_take (a : List Nat) (k : Nat) : digitVals (a.take k) = (digitVals a).take k := by
  simp [digitVals, List.map_take]
theorem digitVals_drop (a : List Nat) (k : Nat) : digitVals (a.drop k) = (digitVals a).drop k := by
  simp [digitVals, List.map_drop]

theorem digitVals_le {ds : List Nat} (h : AsciiDigits ds) : ∀ d ∈ digitVals ds, d ≤ 9 := by
  intro d hd
  simp only [digitVals, List.mem_map] at hd
  obtain ⟨c, hc, rfl⟩ := hd
  have := h c hc
  omega

@[simp] theorem valOf_nil : valOf [] = 0 := rfl

theorem valOf_append (a b : List Nat) : valOf (a ++ b) = valOf a * 10 ^ b.length + valOf b := by
  simp [valOf, ofDigits_append]

theorem valOf_cons (d : Nat) (ds : List Nat) : valOf (d :: ds) = (d - 48) * 10 ^ ds.length + valOf ds := by
  simp [valOf, ofDigits_cons]

theorem valOf_zero_cons (ds : List Nat) : valOf (48 :: ds) = valOf ds := by
  simp [valOf_cons]

theorem valOf_replicate_zero (k : Nat) : valOf (List.replicate k 48) = 0 := by
  simp [valOf, digitVals_replicate_zero, ofDigits_replicate_zero]

theorem valOf_replicate_zero_append (k : Nat) (ds : List Nat) : valOf (List.replicate k 48 ++ ds) = valOf ds := by
  simp [valOf, digitVals_replicate_zero, ofDigits_replicate_zero_append]

/-- leading `'0'`s do not change the value -/
theorem valOf_dropWhile_zero (ds : List Nat) : valOf (ds.dropWhile (· == 48)) = valOf ds := by
  induction ds with
  | nil => rfl
  | cons d ds ih =>
    by_cases h : d = 48
    · subst h; simp only [List.dropWhile_cons, beq_self_eq_true, if_true]; rw [ih, valOf_zero_cons]
    · have : (d == 48) = false := by simp [h]
      simp [this]

theorem valOf_lt {ds : List Nat} (h : AsciiDigits ds) : valOf ds < 10 ^ ds.length := by
  have := ofDigits_lt (digitVals ds) (digitVals_le h)
  simpa [valOf] using this

/-- a digit string that is all `'0'` after stripping leading zeros is empty, and has value 0 -/
theorem valOf_eq_zero_of_dropWhile_nil (ds : List Nat) (h : ds.dropWhile (· == 48) = []) : valOf ds = 0 := by
  rw [← valOf_dropWhile_zero, h]; rfl

/-! ## `takeDigits` -/

/-- the text does not start with a digit (it is empty or starts with another byte) -/
def NoDigitHead (rest : List Nat) : Prop := ∀ c cs, rest = c :: cs → isDigit c = false

@[simp] theorem noDigitHead_nil : NoDigitHead [] := by intro c cs h; cases h

theorem noDigitHead_cons {c : Nat} {cs : List Nat} (h : isDigit c = false) : NoDigitHead (c :: cs) := by
  intro c' cs' e; cases e; exact h

theorem isDigit_of_ascii {c : Nat} (h : 48 ≤ c ∧ c ≤ 57) : isDigit c = true := by
  simp [isDigit, h.1, h.2]

theorem takeDigits_noDigitHead {rest : List Nat} (h : NoDigitHead rest) : takeDigits rest = ([], rest) := by
  cases rest with
  | nil => rfl
  | cons c cs => simp [takeDigits, h c cs rfl]

/-- `takeDigits` of ASCII digits followed by something that does not start with a digit -/
theorem takeDigits_append {ds rest : List Nat} (hd : AsciiDigits ds) (hr : NoDigitHead rest) :
    takeDigits (ds ++ rest) = (digitVals ds, rest) := by
  induction ds with
  | nil => simpa using takeDigits_noDigitHead hr
  | cons d ds ih =>
    rw [asciiDigits_cons] at hd
    simp only [List.cons_append, takeDigits, isDigit_of_ascii hd.1, if_true, ih hd.2, digitVals_cons]

theorem takeDigits_all {ds : List Nat} (hd : AsciiDigits ds) : takeDigits ds = (digitVals ds, []) := by
  have := takeDigits_append hd noDigitHead_nil
  simpa using this

/-! ## Decimal text of integers -/

theorem digitChar_toNat : ∀ d < 10, (Nat.digitChar d).toNat = 48 + d := by decide +kernel

/-- ASCII decimal digits of a natural number (what `toDecimal` writes after the sign) -/
def natDigits (n : Nat) : List Nat := (Nat.toDigits 10 n).map Char.toNat

theorem natDigits_eq_if (n : Nat) :
    natDigits n = if n < 10 then [48 + n] else natDigits (n / 10) ++ [48 + n % 10] := by
  unfold natDigits
  rw [Nat.toDigits_eq_if (by decide)]
  split
  · simp [digitChar_toNat n ‹_›]
  · simp [digitChar_toNat (n % 10) (Nat.mod_lt _ (by decide))]

theorem natDigits_spec (n : Nat) : AsciiDigits (natDigits n) ∧ natDigits n ≠ [] ∧ valOf (natDigits n) = n := by
  induction n using Nat.strongRecOn with
  | _ n ih =>
    rw [natDigits_eq_if]
    split
    · refine ⟨?_, by simp, ?_⟩
      · intro d hd; simp at hd; omega
      · simp [valOf]
    · obtain ⟨h1, _, h3⟩ := ih (n / 10) (by omega)
      refine ⟨?_, by simp, ?_⟩
      · rw [asciiDigits_append]; refine ⟨h1, ?_⟩
        intro d hd; simp at hd; omega
      · rw [valOf_append, h3]; simp [valOf]; omega

theorem natDigits_ascii (n : Nat) : AsciiDigits (natDigits n) := (natDigits_spec n).1
theorem natDigits_ne_nil (n : Nat) : natDigits n ≠ [] := (natDigits_spec n).2.1
theorem valOf_natDigits (n : Nat) : valOf (natDigits n) = n := (natDigits_spec n).2.2

/-- no leading zero except for `0` itself -/
theorem natDigits_head (n : Nat) (hn : 0 < n) : (natDigits n).head? ≠ some 48 := by
  induction n using Nat.strongRecOn with
  | _ n ih =>
    rw [natDigits_eq_if]
    split
    · simp; omega
    · have := ih (n / 10) (by omega) (by omega)
      have hne := natDigits_ne_nil (n / 10)
      cases h : natDigits (n / 10) with
      | nil => exact absurd h hne
      | cons a l => rw [h] at this; simpa using this

theorem natDigits_length_le (n k : Nat) (hk : 0 < k) : (natDigits n).length ≤ k ↔ n < 10 ^ k := by
  unfold natDigits
  rw [List.length_map]
  exact Nat.length_toDigits_le_iff (by decide) hk

/-- `toDecimal x` = optional `-` then the digits of `|x|` -/
theorem toDecimal_eq (x : Int) : toDecimal x = (if x < 0 then [45] else []) ++ natDigits x.natAbs := rfl

theorem toDecimal_nat (n : Nat) : toDecimal (n : Int) = natDigits n := by
  simp [toDecimal_eq]

/-- the sign and digits read back from `toDecimal x` denote `x` -/
theorem expValue_toDecimal (x : Int) :
    (if decide (x < 0) then - (ofDigits (digitVals (natDigits x.natAbs)) : Int)
     else (ofDigits (digitVals (natDigits x.natAbs)) : Int)) = x := by
  have h := valOf_natDigits x.natAbs
  unfold valOf at h
  rw [h]
  by_cases hx : x < 0
  · simp [hx]; omega
  · simp [hx]; omega

/-! ## Signs -/

/-- the bytes of an optional explicit sign -/
def signChars : Option Bool → List Nat
  | none => []
  | some false => [43]
  | some true => [45]

/-- `-` or nothing: what the formatter writes -/
def signText (neg : Bool) : List Nat := if neg then [45] else []

theorem signText_eq (neg : Bool) : signText neg = signChars (if neg then some true else none) := by
  cases neg <;> rfl

/-- the text does not start with `+` or `-` -/
def NoSignHead (cs : List Nat) : Prop := ∀ c r, cs = c :: r → c ≠ 43 ∧ c ≠ 45

theorem takeSign_noSignHead {cs : List Nat} (h : NoSignHead cs) : takeSign cs = (none, cs) := by
  cases cs with
  | nil => rfl
  | cons c r =>
    have := h c r rfl
    unfold takeSign
    split
    · rename_i heq; cases heq; exact absurd rfl this.1
    · rename_i heq; cases heq; exact absurd rfl this.2
    · rfl

theorem takeSign_signChars (s : Option Bool) {cs : List Nat} (h : NoSignHead cs) :
    takeSign (signChars s ++ cs) = (s, cs) := by
  match s with
  | none => simpa [signChars] using takeSign_noSignHead h
  | some false => rfl
  | some true => rfl

theorem noSignHead_of_digit {c : Nat} {cs : List Nat} (h : 48 ≤ c ∧ c ≤ 57) : NoSignHead (c :: cs) := by
  intro c' r e; cases e; omega

theorem noSignHead_of_asciiDigits {ds : List Nat} (rest : List Nat) (hd : AsciiDigits ds) (hne : ds ≠ []) :
    NoSignHead (ds ++ rest) := by
  cases ds with
  | nil => exact absurd rfl hne
  | cons d ds => exact noSignHead_of_digit (asciiDigits_cons.mp hd).1

/-! ## `parse` on finite numerals -/

/-- `.ddd` or nothing -/
def fracChars : Option (List Nat) → List Nat
  | none => []
  | some f => 46 :: f

/-- `e[+-]ddd` (`ec` is `e` or `E`) or nothing -/
def expChars : Option (Nat × Option Bool × List Nat) → List Nat
  | none => []
  | some (ec, es, ed) => ec :: (signChars es ++ ed)

/-- text of a finite numeral: sign, integer digits, optional `.` fraction digits, optional exponent
    (`ec` is `e` or `E`) with optional sign -/
def finiteText (sgn : Option Bool) (i : List Nat) (fr : Option (List Nat)) (ex : Option (Nat × Option Bool × List Nat)) :
    List Nat :=
  signChars sgn ++ (i ++ (fracChars fr ++ expChars ex))

theorem lower_e : lower 101 = 101 := rfl
theorem lower_E : lower 69 = 101 := rfl

private theorem isDigit_46 : isDigit 46 = false := rfl

private theorem isDigit_of_lower_e {c : Nat} (h : lower c = 101) : isDigit c = false := by
  unfold lower at h
  unfold isDigit
  split at h
  · simp; omega
  · subst h; rfl

private theorem ne46_of_lower_e {c : Nat} (h : lower c = 101) : c ≠ 46 := by
  intro e; subst e; revert h; decide

/-- what `parseFiniteBody` does once the integer and fraction digits are read -/
def expTail (neg : Bool) (i fr : List Nat) (r2 : List Nat) : Option Numeral :=
  match r2 with
  | [] => some (.finite neg i fr none)
  | c :: r3 =>
    if lower c = 101 then
      let (es, r4) := takeSign r3
      let (ed, r5) := takeDigits r4
      if ed.isEmpty || !r5.isEmpty then none else some (.finite neg i fr (some (es.getD false, ed)))
    else none

/-- the mantissa part: integer digits, optional fraction, then a tail that starts neither with a digit nor a point -/
theorem parseFiniteBody_mantissa (neg : Bool) {i : List Nat} (fr : Option (List Nat)) (tail : List Nat)
    (hi : AsciiDigits i) (hine : i ≠ [])
    (hfr : ∀ f, fr = some f → AsciiDigits f ∧ f ≠ [])
    (ht : NoDigitHead tail) (ht46 : ∀ r, tail ≠ 46 :: r) :
    parseFiniteBody neg (i ++ (fracChars fr ++ tail)) = expTail neg (digitVals i) (digitVals (fr.getD [])) tail := by
  have hne : (digitVals i).isEmpty = false := by
    cases i with
    | nil => exact absurd rfl hine
    | cons a l => rfl
  match fr with
  | none =>
    simp only [fracChars, List.nil_append, Option.getD_none, digitVals_nil, parseFiniteBody,
      takeDigits_append hi ht, hne, Bool.false_eq_true, if_false]
    cases tail <;> rfl
  | some f =>
    obtain ⟨hf, hfne⟩ := hfr f rfl
    have hfe : (digitVals f).isEmpty = false := by
      cases f with
      | nil => exact absurd rfl hfne
      | cons a l => rfl
    simp only [fracChars, List.cons_append, Option.getD_some, parseFiniteBody,
      takeDigits_append hi (noDigitHead_cons isDigit_46), hne, Bool.false_eq_true, if_false,
      takeDigits_append hf ht, hfe]
    rfl

/-- the exponent part `[e sign digits]` at the end of a finite numeral -/
theorem expTail_expChars (neg : Bool) (i fr : List Nat) (ex : Option (Nat × Option Bool × List Nat))
    (hex : ∀ ec es ed, ex = some (ec, es, ed) → lower ec = 101 ∧ AsciiDigits ed ∧ ed ≠ []) :
    expTail neg i fr (expChars ex) =
      some (.finite neg i fr (ex.map fun (_, es, ed) => (es.getD false, digitVals ed))) := by
  match ex with
  | none => rfl
  | some (ec, es, ed) =>
    obtain ⟨h1, h2, h3⟩ := hex ec es ed rfl
    have hs : takeSign (signChars es ++ ed) = (es, ed) := by
      have := takeSign_signChars es (cs := ed ++ []) (noSignHead_of_asciiDigits [] h2 h3)
      simpa using this
    have : (digitVals ed).isEmpty = false := by
      cases ed with
      | nil => exact absurd rfl h3
      | cons a l => rfl
    simp only [expChars, expTail, h1, if_true, hs, takeDigits_all h2, Option.map_some, this]
    rfl

theorem expChars_noDigitHead (ex : Option (Nat × Option Bool × List Nat))
    (hex : ∀ ec es ed, ex = some (ec, es, ed) → lower ec = 101 ∧ AsciiDigits ed ∧ ed ≠ []) :
    NoDigitHead (expChars ex) ∧ ∀ r, expChars ex ≠ 46 :: r := by
  match ex with
  | none => exact ⟨noDigitHead_nil, by simp [expChars]⟩
  | some (ec, es, ed) =>
    refine ⟨noDigitHead_cons (isDigit_of_lower_e (hex ec es ed rfl).1), ?_⟩
    intro r e; injection e with e1 _
    exact ne46_of_lower_e (hex ec es ed rfl).1 e1

/-- `parse` on a text whose first byte after the optional sign is a digit goes to `parseFiniteBody` -/
theorem parse_sign_digits (sgn : Option Bool) {i : List Nat} (rest : List Nat) (hi : AsciiDigits i) (hine : i ≠ []) :
    parse (signChars sgn ++ (i ++ rest)) = parseFiniteBody (sgn.getD false) (i ++ rest) := by
  unfold parse
  rw [takeSign_signChars sgn (noSignHead_of_asciiDigits _ hi hine)]
  cases i with
  | nil => exact absurd rfl hine
  | cons c i' =>
    have hc := isDigit_of_ascii (asciiDigits_cons.mp hi).1
    simp only [List.cons_append, hc, if_true]

/-- **Main parsing lemma.** The reference recogniser reads back every constructed finite numeral text. -/
theorem parse_finiteText (sgn : Option Bool) (i : List Nat) (fr : Option (List Nat))
    (ex : Option (Nat × Option Bool × List Nat))
    (hi : AsciiDigits i) (hine : i ≠ [])
    (hfr : ∀ f, fr = some f → AsciiDigits f ∧ f ≠ [])
    (hex : ∀ ec es ed, ex = some (ec, es, ed) → lower ec = 101 ∧ AsciiDigits ed ∧ ed ≠ []) :
    parse (finiteText sgn i fr ex) =
      some (.finite (sgn.getD false) (digitVals i) (digitVals (fr.getD []))
        (ex.map fun (_, es, ed) => (es.getD false, digitVals ed))) := by
  unfold finiteText
  rw [parse_sign_digits sgn _ hi hine,
    parseFiniteBody_mantissa _ fr _ hi hine hfr (expChars_noDigitHead ex hex).1 (expChars_noDigitHead ex hex).2,
    expTail_expChars _ _ _ ex hex]

/-! ### Corollaries in the shapes the formatter and the converters produce -/

/-- `[-]ddd` -/
theorem parse_int (neg : Bool) {i : List Nat} (hi : AsciiDigits i) (hine : i ≠ []) :
    parse (signText neg ++ i) = some (.finite neg (digitVals i) [] none) := by
  have := parse_finiteText (if neg then some true else none) i none none hi hine (by simp) (by simp)
  simp only [finiteText, fracChars, expChars, ← signText_eq, List.append_nil, List.nil_append, List.cons_append] at this
  rw [this]; cases neg <;> rfl

/-- `[-]ddd.ddd` -/
theorem parse_frac (neg : Bool) {i f : List Nat} (hi : AsciiDigits i) (hine : i ≠ [])
    (hf : AsciiDigits f) (hfne : f ≠ []) :
    parse (signText neg ++ (i ++ 46 :: f)) = some (.finite neg (digitVals i) (digitVals f) none) := by
  have := parse_finiteText (if neg then some true else none) i (some f) none hi hine
    (by intro f' e; cases e; exact ⟨hf, hfne⟩) (by simp)
  simp only [finiteText, fracChars, expChars, ← signText_eq, List.append_nil, List.nil_append, List.cons_append] at this
  rw [this]; cases neg <;> rfl

/-- `[-]ddde[-]ddd` with the exponent written by `toDecimal` -/
theorem parse_sci_int (neg : Bool) {i : List Nat} (hi : AsciiDigits i) (hine : i ≠ []) (x : Int) :
    parse (signText neg ++ (i ++ 101 :: toDecimal x)) =
      some (.finite neg (digitVals i) [] (some (decide (x < 0), digitVals (natDigits x.natAbs)))) := by
  have := parse_finiteText (if neg then some true else none) i none
    (some (101, (if x < 0 then some true else none), natDigits x.natAbs)) hi hine (by simp)
    (by intro ec es ed e; cases e; exact ⟨rfl, natDigits_ascii _, natDigits_ne_nil _⟩)
  simp only [finiteText, fracChars, expChars, ← signText_eq, List.append_nil, List.nil_append, List.cons_append] at this
  have e : toDecimal x = signChars (if x < 0 then some true else none) ++ natDigits x.natAbs := by
    rw [toDecimal_eq]; split <;> rfl
  rw [e, this]
  cases neg <;> by_cases hx : x < 0 <;> simp [hx]

/-- `[-]ddd.ddde[-]ddd` with the exponent written by `toDecimal` -/
theorem parse_sci_frac (neg : Bool) {i f : List Nat} (hi : AsciiDigits i) (hine : i ≠ [])
    (hf : AsciiDigits f) (hfne : f ≠ []) (x : Int) :
    parse (signText neg ++ (i ++ 46 :: (f ++ 101 :: toDecimal x))) =
      some (.finite neg (digitVals i) (digitVals f) (some (decide (x < 0), digitVals (natDigits x.natAbs)))) := by
  have := parse_finiteText (if neg then some true else none) i (some f)
    (some (101, (if x < 0 then some true else none), natDigits x.natAbs)) hi hine
    (by intro f' e; cases e; exact ⟨hf, hfne⟩)
    (by intro ec es ed e; cases e; exact ⟨rfl, natDigits_ascii _, natDigits_ne_nil _⟩)
  simp only [finiteText, fracChars, expChars, ← signText_eq, List.append_nil, List.nil_append, List.cons_append] at this
  have e : toDecimal x = signChars (if x < 0 then some true else none) ++ natDigits x.natAbs := by
    rw [toDecimal_eq]; split <;> rfl
  rw [e, this]
  cases neg <;> by_cases hx : x < 0 <;> simp [hx]

/-- `toDecimal v` itself is a numeral denoting `v` (used by the integer conversions) -/
theorem parse_toDecimal (v : Int) :
    parse (toDecimal v) = some (.finite (decide (v < 0)) (digitVals (natDigits v.natAbs)) [] none) := by
  have := parse_int (decide (v < 0)) (natDigits_ascii v.natAbs) (natDigits_ne_nil v.natAbs)
  rw [← this, toDecimal_eq]
  by_cases hv : v < 0 <;> simp [hv, signText]

/-- the datum of a finite numeral whose exponent was written by `toDecimal x` -/
theorem datum_sci (neg : Bool) (i fr : List Nat) (x : Int) :
    (Numeral.finite neg (digitVals i) (digitVals fr) (some (decide (x < 0), digitVals (natDigits x.natAbs)))).datum =
      .fin neg (valOf (i ++ fr)) (x - fr.length) := by
  simp only [Numeral.datum, expValue_toDecimal, valOf, digitVals_append, digitVals_length]

theorem datum_plain (neg : Bool) (i fr : List Nat) :
    (Numeral.finite neg (digitVals i) (digitVals fr) none).datum = .fin neg (valOf (i ++ fr)) (0 - fr.length) := by
  simp only [Numeral.datum, valOf, digitVals_append, digitVals_length]

/-! ## `parse` on the special values -/

theorem kw_inf (cs : List Nat) :
    kw "inf" cs = if (cs.take 3).map lower = [105, 110, 102] then some (cs.drop 3) else none := rfl
theorem kw_nan (cs : List Nat) :
    kw "nan" cs = if (cs.take 3).map lower = [110, 97, 110] then some (cs.drop 3) else none := rfl
theorem kw_s (cs : List Nat) :
    kw "s" cs = if (cs.take 1).map lower = [115] then some (cs.drop 1) else none := rfl

/-- `[-]inf` -/
theorem parse_inf (neg : Bool) : parse (signText neg ++ [105, 110, 102]) = some (.inf neg) := by
  cases neg <;> rfl

/-- `[-]nan`, `[-]snan` with no payload -/
theorem parse_nan_bare (neg quiet : Bool) :
    parse (signText neg ++ (if quiet then [110, 97, 110] else [115, 110, 97, 110])) = some (.nan neg (!quiet) none) := by
  cases neg <;> cases quiet <;> rfl

/-- `[-]nan(ddd)`, `[-]snan(ddd)` -/
theorem parse_nan_payload (neg quiet : Bool) {ds : List Nat} (hd : AsciiDigits ds) :
    parse (signText neg ++ ((if quiet then [110, 97, 110] else [115, 110, 97, 110]) ++ ([40] ++ ds ++ [41]))) =
      some (.nan neg (!quiet) (some (digitVals ds))) := by
  have h41 : NoDigitHead [41] := noDigitHead_cons rfl
  have htd : takeDigits (ds ++ [41]) = (digitVals ds, [41]) := takeDigits_append hd h41
  cases neg <;> cases quiet <;>
    simp [signText, parse, takeSign, isDigit, parseSpecialBody, kw_inf, kw_nan, kw_s, lower, htd]

end Decstr.Proofs

#print axioms Decstr.Proofs.parse_finiteText
#print axioms Decstr.Proofs.parse_sci_frac
#print axioms Decstr.Proofs.parse_toDecimal
#print axioms Decstr.Proofs.parse_nan_payload
#print axioms Decstr.Proofs.natDigits_spec
#print axioms Decstr.Proofs.takeDigits_append
