import Decstr.Model.ExecApi
import Decstr.Proofs.ExecSig
/-!
# Proofs.ExecLazy — the digit stream decoded on demand (`Digits`, `nextDigitC`) and its consumers

`toIntC` and `toFloatC` pull the digits of a decimal one at a time, as the Rust consumers of
`decode_significand_trailing_declets` do, and stop where they stop.  Here: whenever the *whole* decoder succeeds
(`decodeDecletsGoC … = .ok L`, the eager run of the same iterator), the stream yields exactly the digits of `L`
(`yields_of_decode`), and every lazy consumer computes what its list counterpart computes on those digits
(`intFromDigitsC_yields`, `allZeroC_yields`, `skipZerosC_yields`, `pushDigitsC_yields`, `floatTextLazyC_yields`) — for
every buffer, well-formed or not: *lazy = eager whenever eager succeeds*.
-/
namespace Decstr.Proofs.Exec
open Decstr.Model Decstr.Model.Exec Decstr.Spec Decstr.Proofs

/-! ## one step of the declet iterator -/

/-- the eager loop is the iteration of `decodeStepC` -/
theorem decodeDecletsGoC_succ (c : Bool) (b : Buf) (k bit : Nat) :
    decodeDecletsGoC c b (k + 1) bit =
      match decodeStepC c b bit with
      | .error e => .error e
      | .ok none => .ok []
      | .ok (some (d, bit')) =>
        match decodeDecletsGoC c b k bit' with
        | .error e => .error e
        | .ok ds => .ok (d :: ds) := by
  rw [decodeDecletsGoC, decodeStepC]
  split
  · rfl
  · cases subUsize c "significand.rs:597 *decimal_bit_index -= 10" bit 10 with
    | error e => rfl
    | ok bit' =>
      simp only []
      cases readDpdC b bit' with
      | error e => rfl
      | ok dpd =>
        simp only []
        cases bcdOfDpdC dpd with
        | error e => rfl
        | ok bcd =>
          simp only []
          cases asciiOfBcdC c bcd with
          | error e => rfl
          | ok d => rfl

/-- a declet has three digits -/
theorem decodeStepC_length (c : Bool) (b : Buf) (bit : Nat) (d : List Nat) (bit' : Nat)
    (h : decodeStepC c b bit = .ok (some (d, bit'))) : d.length = 3 := by
  unfold decodeStepC at h
  split at h
  · cases h
  · cases h1 : subUsize c "significand.rs:597 *decimal_bit_index -= 10" bit 10 with
    | error e => rw [h1] at h; cases h
    | ok x =>
      rw [h1] at h; simp only [] at h
      cases h2 : readDpdC b x with
      | error e => rw [h2] at h; cases h
      | ok dpd =>
        rw [h2] at h; simp only [] at h
        cases h3 : bcdOfDpdC dpd with
        | error e => rw [h3] at h; cases h
        | ok bcd =>
          rw [h3] at h; simp only [] at h
          rw [asciiOfBcdC_eq] at h
          simp only [Except.ok.injEq, Option.some.injEq, Prod.mk.injEq] at h
          rw [← h.1]; rfl

/-! ## what the stream yields -/

/-- the stream yields exactly `ds`, then `None`, and no pull on the way reaches a panic site -/
def Yields (c : Bool) (b : Buf) : Digits → List Nat → Prop
  | it, [] => it.nextC c b = .ok none
  | it, d :: ds => ∃ it', it.nextC c b = .ok (some (d, it')) ∧ Yields c b it' ds

theorem yields_congr {c : Bool} {b : Buf} {it it2 : Digits} (h : it.nextC c b = it2.nextC c b) {xs : List Nat}
    (hy : Yields c b it xs) : Yields c b it2 xs := by
  cases xs with
  | nil => unfold Yields at hy ⊢; rw [← h]; exact hy
  | cons x xs => unfold Yields at hy ⊢; rw [← h]; exact hy

theorem yields_pending (c : Bool) (b : Buf) (p : List Nat) (k bit : Nat) (xs : List Nat)
    (h : Yields c b ⟨[], k, bit⟩ xs) : Yields c b ⟨p, k, bit⟩ (p ++ xs) := by
  induction p with
  | nil => exact h
  | cons x p ih =>
    refine ⟨⟨p, k, bit⟩, ?_, ih⟩
    show nextDigitC c b (x :: p) k bit = _
    rw [nextDigitC]

/-- **lazy = eager, the stream**: if running the declet iterator to the end succeeds, the stream yields its digits -/
theorem yields_of_decode (c : Bool) (b : Buf) (k : Nat) : ∀ (bit : Nat) (L : List (List Nat)),
    decodeDecletsGoC c b k bit = .ok L → Yields c b ⟨[], k, bit⟩ L.flatten := by
  induction k with
  | zero =>
    intro bit L h
    rw [decodeDecletsGoC] at h
    cases h
    rfl
  | succ k ih =>
    intro bit L h
    rw [decodeDecletsGoC_succ] at h
    have hn : Digits.nextC c b ⟨[], k + 1, bit⟩ =
        match decodeStepC c b bit with
        | .error e => .error e
        | .ok none => .ok none
        | .ok (some (ds, bit')) => nextDigitC c b ds k bit' := by
      show nextDigitC c b [] (k + 1) bit = _
      rw [nextDigitC]
      rfl
    cases hs : decodeStepC c b bit with
    | error e => rw [hs] at h; cases h
    | ok o =>
      cases o with
      | none =>
        rw [hs] at h; cases h
        show Digits.nextC c b ⟨[], k + 1, bit⟩ = .ok none
        rw [hn, hs]
      | some db =>
        obtain ⟨d, bit'⟩ := db
        rw [hs] at h; simp only [] at h
        cases hr : decodeDecletsGoC c b k bit' with
        | error e => rw [hr] at h; cases h
        | ok L' =>
          rw [hr] at h; cases h
          have h1 := yields_pending c b d k bit' _ (ih bit' L' hr)
          rw [List.flatten_cons]
          refine yields_congr ?_ h1
          rw [hn, hs]; rfl

/-- the stream at the start of `decimal_to_int` / `decimal_to_binary_float` -/
theorem yields_start (c : Bool) (b : Buf) (front : List Nat) (tb : Nat) (L : List (List Nat))
    (h : decodeDecletsGoC c b ((tb + 9) / 10) tb = .ok L) : Yields c b (Digits.start front tb) (front ++ L.flatten) :=
  yields_pending c b front _ _ _ (yields_of_decode c b _ tb L h)

/-- a pull makes `bound` smaller -/
theorem nextDigitC_bound (c : Bool) (b : Buf) (k : Nat) : ∀ (p : List Nat) (bit d : Nat) (it' : Digits),
    nextDigitC c b p k bit = .ok (some (d, it')) → it'.bound + 1 ≤ p.length + 3 * k := by
  induction k with
  | zero =>
    intro p bit d it' h
    cases p with
    | nil => rw [nextDigitC] at h; cases h
    | cons x r =>
      rw [nextDigitC] at h
      simp only [Except.ok.injEq, Option.some.injEq, Prod.mk.injEq] at h
      rw [← h.2]; simp only [Digits.bound, List.length_cons]; omega
  | succ k ih =>
    intro p bit d it' h
    cases p with
    | cons x r =>
      rw [nextDigitC] at h
      simp only [Except.ok.injEq, Option.some.injEq, Prod.mk.injEq] at h
      rw [← h.2]; simp only [Digits.bound, List.length_cons]; omega
    | nil =>
      rw [nextDigitC] at h
      cases hs : decodeStepC c b bit with
      | error e => rw [hs] at h; cases h
      | ok o =>
        cases o with
        | none => rw [hs] at h; cases h
        | some db =>
          obtain ⟨ds, bit'⟩ := db
          rw [hs] at h; simp only [] at h
          have hl := decodeStepC_length c b bit ds bit' hs
          have := ih ds bit' d it' h
          simp only [List.length_nil]
          omega

theorem yields_length_le (c : Bool) (b : Buf) (ds : List Nat) : ∀ it : Digits, Yields c b it ds → ds.length ≤ it.bound := by
  induction ds with
  | nil => intro it _; exact Nat.zero_le _
  | cons d ds ih =>
    intro it h
    obtain ⟨it', hn, hy⟩ := h
    have h1 := ih it' hy
    have h2 := nextDigitC_bound c b it.fuel it.pending it.bit d it' hn
    simp only [List.length_cons, Digits.bound] at h1 h2 ⊢
    omega

/-! ## the consumers -/

/-- **lazy = eager, `try_from_ascii`**: the loop over `ascii.take(n)` computes what `intFromAsciiC` computes on the first
    `n` digits, and leaves the stream at the digits behind them -/
theorem intFromDigitsC_yields (c : Bool) (b : Buf) (I : IntTy) (neg : Bool) (hs : (neg && !I.signed) = false) (n : Nat) :
    ∀ (ds : List Nat) (it : Digits) (acc : Int), Yields c b it ds →
      ∃ it', intFromDigitsC c b I neg n it acc = (intFromAsciiC c I neg (ds.take n) acc).map (fun r => (r, it')) ∧
        ∀ v, intFromAsciiC c I neg (ds.take n) acc = .ok (some v) → Yields c b it' (ds.drop n) := by
  induction n with
  | zero =>
    intro ds it acc h
    refine ⟨it, ?_, ?_⟩
    · rw [List.take_zero, intFromDigitsC, intFromAsciiC]; rfl
    · intro v _; exact h
  | succ n ih =>
    intro ds it acc h
    cases ds with
    | nil =>
      refine ⟨it, ?_, ?_⟩
      · have hn : it.nextC c b = .ok none := h
        rw [List.take_nil, intFromDigitsC, hn, intFromAsciiC]; rfl
      · intro v _; exact h
    | cons d ds =>
      obtain ⟨it1, hn, hy⟩ := h
      rw [List.take_succ_cons, List.drop_succ_cons, intFromDigitsC, hn, intFromAsciiC]
      simp only [hs, Bool.false_eq_true, if_false]
      by_cases hm : (!I.contains (acc * 10)) = true
      · rw [if_pos hm, if_pos hm]
        exact ⟨it1, rfl, fun v hv => by cases hv⟩
      · rw [if_neg hm, if_neg hm]
        cases hd : subU8 c "num.rs:167 b - b'0'" d 48 with
        | error e => exact ⟨it1, rfl, fun v hv => by cases hv⟩
        | ok dv =>
          simp only []
          generalize (if neg = true then acc * 10 - ((dv : Nat) : Int) else acc * 10 + ((dv : Nat) : Int)) = v
          by_cases hv : (!I.contains v) = true
          · rw [if_pos hv, if_pos hv]
            exact ⟨it1, rfl, fun v hv => by cases hv⟩
          · rw [if_neg hv, if_neg hv]
            exact ih ds it1 v hy

/-- **lazy = eager, `Iterator::all`** -/
theorem allZeroC_yields (c : Bool) (b : Buf) (n : Nat) : ∀ (ds : List Nat) (it : Digits), Yields c b it ds → ds.length < n →
    allZeroC c b n it = .ok (ds.all (· == 48)) := by
  induction n with
  | zero => intro ds it _ hl; omega
  | succ n ih =>
    intro ds it h hl
    cases ds with
    | nil =>
      have hn : it.nextC c b = .ok none := h
      rw [allZeroC, hn]; rfl
    | cons d ds =>
      obtain ⟨it1, hn, hy⟩ := h
      rw [allZeroC, hn]
      simp only [List.all_cons]
      by_cases hd : (d == 48) = true
      · rw [if_pos hd, hd, Bool.true_and]
        exact ih ds it1 hy (by simp only [List.length_cons] at hl; omega)
      · rw [if_neg hd]
        simp only [Bool.not_eq_true] at hd
        rw [hd, Bool.false_and]

/-- **lazy = eager, `skip_while`** -/
theorem skipZerosC_yields (c : Bool) (b : Buf) (n : Nat) : ∀ (ds : List Nat) (it : Digits), Yields c b it ds → ds.length < n →
    match ds.dropWhile (· == 48) with
    | [] => skipZerosC c b n it = .ok none
    | d :: r => ∃ it', skipZerosC c b n it = .ok (some (d, it')) ∧ Yields c b it' r := by
  induction n with
  | zero => intro ds it _ hl; omega
  | succ n ih =>
    intro ds it h hl
    cases ds with
    | nil =>
      have hn : it.nextC c b = .ok none := h
      simp only [List.dropWhile_nil]
      rw [skipZerosC, hn]
    | cons d ds =>
      obtain ⟨it1, hn, hy⟩ := h
      by_cases hd : (d == 48) = true
      · simp only [List.dropWhile_cons, hd, if_true]
        have := ih ds it1 hy (by simp only [List.length_cons] at hl; omega)
        rw [skipZerosC, hn]
        simp only [hd, if_true]
        exact this
      · simp only [List.dropWhile_cons, hd, Bool.false_eq_true, if_false]
        refine ⟨it1, ?_, hy⟩
        rw [skipZerosC, hn]
        simp only [hd, Bool.false_eq_true, if_false]

/-- **lazy = eager, the push loop of `parse_ascii`** -/
theorem pushDigitsC_yields (c : Bool) (b : Buf) (site : String) (n : Nat) : ∀ (ds : List Nat) (it : Digits) (t : List Nat),
    Yields c b it ds → ds.length < n → pushDigitsC c b site n it t = fpushAllC c site t ds := by
  induction n with
  | zero => intro ds it t _ hl; omega
  | succ n ih =>
    intro ds it t h hl
    cases ds with
    | nil =>
      have hn : it.nextC c b = .ok none := h
      rw [pushDigitsC, hn, fpushAllC]
    | cons d ds =>
      obtain ⟨it1, hn, hy⟩ := h
      rw [pushDigitsC, hn, fpushAllC]
      simp only []
      cases fpushC c site t d with
      | error e => rfl
      | ok o =>
        cases o with
        | none => rfl
        | some t' => exact ih ds it1 t' hy (by simp only [List.length_cons] at hl; omega)

/-- **lazy = eager, `parse_ascii`**: on a stream that yields `ds`, the scratch text is the one `floatTextC` builds from `ds` -/
theorem floatTextLazyC_yields (c : Bool) (b : Buf) (neg : Bool) (it : Digits) (ds : List Nat) (exponent : Int)
    (h : Yields c b it ds) : floatTextLazyC c b neg it exponent = floatTextC c neg ds exponent := by
  unfold floatTextLazyC floatTextC
  cases hsgn : (if neg = true then fpushC c "text/buf/array.rs:72 self.buf[self.len] = b'-'" [] 45 else .ok (some [])) with
  | error e => rfl
  | ok o =>
    cases o with
    | none => rfl
    | some t =>
      simp only [bind_ok]
      have hb := yields_length_le c b ds it h
      have hsk := skipZerosC_yields c b (it.bound + 1) ds it h (by omega)
      cases hdw : ds.dropWhile (· == 48) with
      | nil =>
        rw [hdw] at hsk
        simp only [] at hsk
        rw [hsk, bind_ok]
        simp only [List.isEmpty_nil, if_true]
        rw [fpushAllC]
        cases fpushC c "text/buf/array.rs:52 self.buf[self.len] = digit" t 48 with
        | error e => rfl
        | ok o =>
          cases o with
          | none => rfl
          | some t' => simp only [fpushAllC, bind_ok]
      | cons d r =>
        rw [hdw] at hsk
        obtain ⟨it', hsk, hy'⟩ := hsk
        rw [hsk, bind_ok]
        simp only [List.isEmpty_cons, Bool.false_eq_true, if_false]
        rw [fpushAllC]
        cases fpushC c "text/buf/array.rs:52 self.buf[self.len] = digit" t d with
        | error e => rfl
        | ok o =>
          cases o with
          | none => rfl
          | some t' =>
            simp only [bind_ok]
            rw [pushDigitsC_yields c b _ _ r it' t' hy' (by have := yields_length_le c b r it' hy'; omega)]

end Decstr.Proofs.Exec

#print axioms Decstr.Proofs.Exec.yields_of_decode
#print axioms Decstr.Proofs.Exec.intFromDigitsC_yields
#print axioms Decstr.Proofs.Exec.allZeroC_yields
#print axioms Decstr.Proofs.Exec.floatTextLazyC_yields
