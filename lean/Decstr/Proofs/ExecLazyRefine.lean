import Decstr.Proofs.ExecApi2
/-!
# Proofs.ExecLazyRefine — the lazy checked model of `to_<int>` / `to_f32/f64` refines the eager one, on every buffer

`Eager.toIntC` / `Eager.toFloatC` are the definitions the checked model had before the digit stream was made lazy
(`decodeDecletsC` run to the end before anything else is looked at).  For **every** buffer, of any length and content,
and both profiles: if the eager function returns a value, the lazy one returns the same value
(`toIntC_refines`, `toFloatC_refines`).  So the lazy model reaches a panic site only where the eager one did, and the
inclusion is strict (`example`s at the end: the out-of-contract buffers on which the eager model reported a panic that
the Rust code does not have).
-/
namespace Decstr.Proofs.Exec
open Decstr.Model Decstr.Model.Exec Decstr.Spec Decstr.Proofs

namespace Eager

/-- the arms of `decimal_to_int` on the digits decoded in advance (the checked model before the lazy stream) -/
def toIntCoreC (T : Ty) (checks : Bool) (I : Spec.IntTy) (neg : Bool) (digits : List Nat) (exponent : Int) (precision : Nat)
    (fin : Bool) : Chk (Option Int) :=
  let inI32 := T.expIsI32 || (decide (i32Min ≤ exponent) && decide (exponent ≤ i32Max))
  if neg && !I.signed then .ok none
  else if inI32 && exponent = 0 then intFromAsciiC checks I neg digits 0
  else if inI32 && exponent > 0 then
    match intFromAsciiC checks I neg digits 0 with
    | .error e => .error e
    | .ok (some acc) => .ok (intPushZeros I neg exponent.toNat acc)
    | .ok none => .ok none
  else if inI32 && exponent.natAbs < precision then
    match subUsize checks "from_int.rs:68 precision_digits() - exponent.unsigned_abs()" precision exponent.natAbs with
    | .error e => .error e
    | .ok k =>
      match intFromAsciiC checks I neg (digits.take k) 0 with
      | .error e => .error e
      | .ok none => .ok none
      | .ok (some i) => .ok (if (digits.drop k).all (· == 48) then some i else none)
  else
    if fin && digits.all (· == 48) then intFromAsciiC checks I neg [48] 0 else .ok none

/-- `decimal_to_int`, every declet decoded first -/
def toIntC (T : Ty) (checks : Bool) (b : Buf) (I : Spec.IntTy) : Chk (Option Int) := do
  let em ← decodeCombinationFiniteC T.expRep checks b
  let msdA ← bcdToAsciiC checks em.2
  let declets ← decodeDecletsC checks b
  let neg ← isSignNegativeC checks b
  let p ← precisionC checks b
  let fin ← isFiniteC checks b
  toIntCoreC T checks I neg (msdA :: declets.flatten) em.1 p fin

/-- `decimal_to_binary_float`, every declet decoded first -/
def toFloatC (T : Ty) (checks : Bool) (b : Buf) (B : Spec.BinFmt) : Chk (Option Nat) := do
  let fin ← isFiniteC checks b
  let neg ← isSignNegativeC checks b
  if fin then do
    let em ← decodeCombinationFiniteC T.expRep checks b
    let msdA ← bcdToAsciiC checks em.2
    let declets ← decodeDecletsC checks b
    let t ← floatTextC checks neg (msdA :: declets.flatten) em.1
    .ok (match t with
      | none => none
      | some text =>
        match parseFloatBits B text with
        | some bits => if B.isInf bits || B.isNan bits then none else some bits
        | none => none)
  else do
    let inf ← isInfiniteC checks b
    if inf then .ok (some ((if neg then B.signMask else 0) + B.infBits))
    else do
      let isn ← isNanC checks b
      dbg checks "convert/from_binary_float.rs:65 debug_assert!(is_nan(decimal))" (isn = true)
      let declets ← decodeDecletsC checks b
      let _ ← intFromAsciiC checks ⟨true, B.width⟩ false declets.flatten 0
      let _ ← isSignalingNanC checks b
      .ok (some (toFloatNan B neg declets.flatten))

end Eager

/-! ## inversion of `>>=` -/

theorem bind_eq_ok {α β : Type} {a : Chk α} {f : α → Chk β} {r : β} (h : (a >>= f) = .ok r) :
    ∃ x, a = .ok x ∧ f x = .ok r := by
  cases a with
  | error e => cases h
  | ok x => exact ⟨x, rfl, h⟩

theorem decodeDecletsC_inv {c : Bool} {b : Buf} {L : List (List Nat)} (h : decodeDecletsC c b = .ok L) :
    ∃ tb, trailingBitsC c b = .ok tb ∧ decodeDecletsGoC c b ((tb + 9) / 10) tb = .ok L := by
  unfold decodeDecletsC at h
  exact bind_eq_ok h

/-! ## decoded digits are at least `'0'`, whatever the buffer -/

theorem decodeStepC_ge (c : Bool) (b : Buf) (bit : Nat) (d : List Nat) (bit' : Nat)
    (h : decodeStepC c b bit = .ok (some (d, bit'))) : ∀ x ∈ d, 48 ≤ x := by
  unfold decodeStepC at h
  split at h
  · cases h
  · cases h1 : subUsize c "significand.rs:597 *decimal_bit_index -= 10" bit 10 with
    | error e => rw [h1] at h; cases h
    | ok y =>
      rw [h1] at h; simp only [] at h
      cases h2 : readDpdC b y with
      | error e => rw [h2] at h; cases h
      | ok dpd =>
        rw [h2] at h; simp only [] at h
        cases h3 : bcdOfDpdC dpd with
        | error e => rw [h3] at h; cases h
        | ok bcd =>
          rw [h3] at h; simp only [] at h
          rw [asciiOfBcdC_eq] at h
          simp only [Except.ok.injEq, Option.some.injEq, Prod.mk.injEq] at h
          rw [← h.1]
          intro x hx
          simp only [asciiOfBcd, List.mem_cons, List.not_mem_nil, or_false] at hx
          omega

theorem decodeDecletsGoC_ge (c : Bool) (b : Buf) (k : Nat) : ∀ (bit : Nat) (L : List (List Nat)),
    decodeDecletsGoC c b k bit = .ok L → ∀ x ∈ L.flatten, 48 ≤ x := by
  induction k with
  | zero =>
    intro bit L h
    rw [decodeDecletsGoC] at h
    cases h
    intro x hx; cases hx
  | succ k ih =>
    intro bit L h
    rw [decodeDecletsGoC_succ] at h
    cases hs : decodeStepC c b bit with
    | error e => rw [hs] at h; cases h
    | ok o =>
      cases o with
      | none => rw [hs] at h; cases h; intro x hx; cases hx
      | some db =>
        obtain ⟨d, bit'⟩ := db
        rw [hs] at h; simp only [] at h
        cases hr : decodeDecletsGoC c b k bit' with
        | error e => rw [hr] at h; cases h
        | ok L' =>
          rw [hr] at h; cases h
          intro x hx
          rw [List.flatten_cons, List.mem_append] at hx
          rcases hx with hx | hx
          · exact decodeStepC_ge c b bit d bit' hs x hx
          · exact ih bit' L' hr x hx

/-! ## `decimal_to_int` -/

/-- **the lazy `to_<int>` refines the eager one**: every buffer, both profiles -/
theorem toIntC_refines (T : Ty) (c : Bool) (b : Buf) (I : IntTy) (r : Option Int)
    (h : Eager.toIntC T c b I = .ok r) : toIntC T c b I = .ok r := by
  unfold Eager.toIntC at h
  obtain ⟨em, hem, h⟩ := bind_eq_ok h
  obtain ⟨msdA, hmsd, h⟩ := bind_eq_ok h
  obtain ⟨declets, hdec, h⟩ := bind_eq_ok h
  obtain ⟨neg, hneg, h⟩ := bind_eq_ok h
  obtain ⟨p, hp, h⟩ := bind_eq_ok h
  obtain ⟨fin, hfin, h⟩ := bind_eq_ok h
  obtain ⟨tb, htb, hgo⟩ := decodeDecletsC_inv hdec
  have hy : Yields c b (Digits.start [msdA] tb) (msdA :: declets.flatten) := yields_start c b [msdA] tb declets hgo
  have hbound := yields_length_le c b _ _ hy
  unfold toIntC
  rw [hem, bind_ok]
  unfold toIntCoreC
  unfold Eager.toIntCoreC at h
  simp only [htb, hmsd, hneg, hp, hfin, bind_ok]
  simp only [] at h
  generalize (T.expIsI32 || (decide (i32Min ≤ em.1) && decide (em.1 ≤ i32Max))) = inI32 at h ⊢
  generalize em.1 = exponent at h ⊢
  generalize Digits.start [msdA] tb = it0 at hy hbound ⊢
  generalize msdA :: declets.flatten = ds at hy hbound h ⊢
  have hnone : (neg && !I.signed) = true → intFromAsciiC c I neg [48] 0 = .ok none := by
    intro hs; rw [intFromAsciiC, if_pos hs]
  -- the `_` arm, shared by both cases below
  have harm4 : ∀ r', (if (fin && ds.all (· == 48)) = true then intFromAsciiC c I neg [48] 0 else .ok none) = .ok r' →
      (if fin = true then do
          let z ← allZeroC c b (it0.bound + 1) it0
          if z = true then do
              let neg ← (Except.ok neg : Chk Bool)
              intFromAsciiC c I neg [48] 0
            else Except.ok none
        else (Except.ok none : Chk (Option Int))) = .ok r' := by
    intro r' h4
    cases fin with
    | false => simpa using h4
    | true =>
      simp only [if_true, Bool.true_and] at h4 ⊢
      rw [allZeroC_yields c b _ ds it0 hy (by omega), bind_ok]
      cases hz : ds.all (· == 48) with
      | false => rw [hz] at h4; simpa using h4
      | true =>
        rw [hz] at h4
        simp only [if_true, bind_ok] at h4 ⊢
        exact h4
  by_cases hs : (neg && !I.signed) = true
  · -- an unsigned target and a negative sign: `None` in every arm
    rw [if_pos hs] at h
    cases h
    have ht : ∀ n, tryFromDigitsC c b I neg n it0 = .ok (none, it0) := by
      intro n; unfold tryFromDigitsC; rw [if_pos hs]
    by_cases h12 : (inI32 && (decide (exponent = 0) || decide (exponent > 0))) = true
    · rw [if_pos h12, ht, bind_ok]
    · rw [if_neg h12]
      have h4 : (if (fin && ds.all (· == 48)) = true then intFromAsciiC c I neg [48] 0 else .ok none) = .ok none := by
        split
        · exact hnone hs
        · rfl
      cases inI32 with
      | true =>
        simp only [if_true, bind_ok]
        by_cases hlt : exponent.natAbs < p
        · simp only [if_pos hlt]
          rw [subUsize_ok (by omega), bind_ok, ht, bind_ok]
        · simp only [if_neg hlt]
          exact harm4 none h4
      | false =>
        simp only [Bool.false_eq_true, if_false, bind_ok]
        exact harm4 none h4
  · rw [if_neg hs] at h
    have hs' : (neg && !I.signed) = false := by simpa using hs
    have ht : ∀ n, tryFromDigitsC c b I neg n it0 = intFromDigitsC c b I neg n it0 0 := by
      intro n; unfold tryFromDigitsC; rw [if_neg hs]
    by_cases h12 : (inI32 && (decide (exponent = 0) || decide (exponent > 0))) = true
    · -- `Some(0)` and `Some(exponent) if exponent > 0`
      rw [if_pos h12]
      obtain ⟨it', h1, -⟩ := intFromDigitsC_yields c b I neg hs' (it0.bound + 1) ds it0 0 hy
      rw [List.take_of_length_le (by omega)] at h1
      rw [ht, h1]
      simp only [Bool.and_eq_true, Bool.or_eq_true, decide_eq_true_eq] at h12
      obtain ⟨hi, he⟩ := h12
      subst hi
      simp only [Bool.true_and, decide_eq_true_eq] at h
      by_cases he0 : exponent = 0
      · rw [if_pos he0] at h
        rw [h]
        simp only [Except.map, bind_ok, he0, if_true]
        cases r <;> rfl
      · have hpos : exponent > 0 := by omega
        rw [if_neg he0, if_pos hpos] at h
        cases hx : intFromAsciiC c I neg ds 0 with
        | error e => rw [hx] at h; cases h
        | ok o =>
          rw [hx] at h
          cases o with
          | none => simp only [] at h; cases h; rfl
          | some acc =>
            simp only [] at h; cases h
            simp only [Except.map, bind_ok, if_neg he0]
    · rw [if_neg h12]
      have hn1 : ¬ (inI32 && decide (exponent = 0)) = true := by
        intro hh; apply h12
        simp only [Bool.and_eq_true, Bool.or_eq_true, decide_eq_true_eq] at hh ⊢
        exact ⟨hh.1, Or.inl hh.2⟩
      have hn2 : ¬ (inI32 && decide (exponent > 0)) = true := by
        intro hh; apply h12
        simp only [Bool.and_eq_true, Bool.or_eq_true, decide_eq_true_eq] at hh ⊢
        exact ⟨hh.1, Or.inr hh.2⟩
      rw [if_neg hn1, if_neg hn2] at h
      by_cases h3 : (inI32 && decide (exponent.natAbs < p)) = true
      · -- `Some(exponent) if |exponent| < precision`
        rw [if_pos h3] at h
        simp only [Bool.and_eq_true, decide_eq_true_eq] at h3
        obtain ⟨hi, hlt⟩ := h3
        subst hi
        simp only [if_true, bind_ok, if_pos hlt]
        rw [subUsize_ok (by omega)] at h
        rw [subUsize_ok (by omega), bind_ok]
        simp only [] at h
        obtain ⟨it', h1, hrest⟩ := intFromDigitsC_yields c b I neg hs' (p - exponent.natAbs) ds it0 0 hy
        rw [ht, h1]
        cases hx : intFromAsciiC c I neg (List.take (p - exponent.natAbs) ds) 0 with
        | error e => rw [hx] at h; cases h
        | ok o =>
          rw [hx] at h
          cases o with
          | none => simp only [] at h; cases h; rfl
          | some i =>
            simp only [] at h; cases h
            have hy' := hrest i hx
            simp only [Except.map, bind_ok]
            rw [allZeroC_yields c b _ _ it' hy' (by have := yields_length_le c b _ _ hy'; omega), bind_ok]
      · -- `_`
        rw [if_neg h3] at h
        have harm : (if inI32 = true then (Except.ok (if exponent.natAbs < p then some p else none) : Chk (Option Nat))
            else Except.ok none) = Except.ok none := by
          cases inI32 with
          | false => rfl
          | true =>
            simp only [Bool.true_and, decide_eq_true_eq] at h3
            simp only [if_true, if_neg h3]
        rw [harm, bind_ok]
        exact harm4 r h

/-! ## `decimal_to_binary_float` -/

theorem toFloatNan_of (B : BinFmt) (neg : Bool) (ds : List Nat) :
    toFloatNan B neg ds = toFloatNanOf B neg ((intFromAscii ⟨true, B.width⟩ false ds 0).getD 0) := rfl

/-- **the lazy `to_f32` / `to_f64` refines the eager one**: every buffer, both profiles -/
theorem toFloatC_refines (T : Ty) (c : Bool) (b : Buf) (B : BinFmt) (r : Option Nat)
    (h : Eager.toFloatC T c b B = .ok r) : toFloatC T c b B = .ok r := by
  unfold Eager.toFloatC at h
  obtain ⟨fin, hfin, h⟩ := bind_eq_ok h
  obtain ⟨neg, hneg, h⟩ := bind_eq_ok h
  unfold toFloatC
  rw [hfin, bind_ok]
  cases fin with
  | true =>
    simp only [if_true] at h ⊢
    obtain ⟨em, hem, h⟩ := bind_eq_ok h
    obtain ⟨msdA, hmsd, h⟩ := bind_eq_ok h
    obtain ⟨declets, hdec, h⟩ := bind_eq_ok h
    obtain ⟨tb, htb, hgo⟩ := decodeDecletsC_inv hdec
    rw [hem, bind_ok, htb, bind_ok, hneg, bind_ok, hmsd, bind_ok,
      floatTextLazyC_yields c b neg _ _ em.1 (yields_start c b [msdA] tb declets hgo)]
    exact h
  | false =>
    simp only [Bool.false_eq_true, if_false] at h ⊢
    obtain ⟨inf, hinf, h⟩ := bind_eq_ok h
    rw [hinf, bind_ok]
    cases inf with
    | true =>
      simp only [if_true] at h ⊢
      rw [hneg, bind_ok]
      exact h
    | false =>
      simp only [Bool.false_eq_true, if_false] at h ⊢
      obtain ⟨isn, hisn, h⟩ := bind_eq_ok h
      obtain ⟨u, hdbg, h⟩ := bind_eq_ok h
      obtain ⟨declets, hdec, h⟩ := bind_eq_ok h
      obtain ⟨x, hx, h⟩ := bind_eq_ok h
      obtain ⟨sn, hsn, h⟩ := bind_eq_ok h
      obtain ⟨tb, htb, hgo⟩ := decodeDecletsC_inv hdec
      have hy : Yields c b (Digits.start [] tb) declets.flatten := yields_start c b [] tb declets hgo
      have hb := yields_length_le c b _ _ hy
      have hge := decodeDecletsGoC_ge c b _ tb declets hgo
      obtain ⟨it', ht, -⟩ := tryFromDigitsC_eq c b ⟨true, B.width⟩ false ((Digits.start [] tb).bound + 1) _ _ hy hge
      rw [List.take_of_length_le (by omega)] at ht
      rw [hisn, bind_ok, hdbg, bind_ok, htb, bind_ok, ht, bind_ok, hneg, bind_ok, hsn, bind_ok]
      rw [toFloatNan_of] at h
      exact h

/-! ## the inclusion is strict: requests of the site validation on which the eager model reported a panic that the
Rust code does not have (`x_to_int fix3 ffffff u32`, `x_to_float dyn ffffffffffffffffffffff f32`) -/

example : (Eager.toIntC .b32 true (Buf.ofBytes [0xff, 0xff, 0xff]) ⟨false, 32⟩).isOk = false ∧
    (Eager.toIntC .b32 false (Buf.ofBytes [0xff, 0xff, 0xff]) ⟨false, 32⟩).isOk = false ∧
    toIntC .b32 true (Buf.ofBytes [0xff, 0xff, 0xff]) ⟨false, 32⟩ = .ok none ∧
    toIntC .b32 false (Buf.ofBytes [0xff, 0xff, 0xff]) ⟨false, 32⟩ = .ok none := by decide +kernel

example : (Eager.toFloatC .dyn true (Buf.ofBytes (List.replicate 11 0xff)) binary32).isOk = false ∧
    (Eager.toFloatC .dyn false (Buf.ofBytes (List.replicate 11 0xff)) binary32).isOk = false ∧
    toFloatC .dyn true (Buf.ofBytes (List.replicate 11 0xff)) binary32 = .ok (some 0xffc00000) ∧
    toFloatC .dyn false (Buf.ofBytes (List.replicate 11 0xff)) binary32 = .ok (some 0xffc00000) := by decide +kernel

/-- a non-trivial instance of the hypothesis: a valid `decimal32` (`750`, bits `0x225003d0`) -/
example : Eager.toIntC .b32 true (Buf.ofBytes [0xd0, 0x03, 0x50, 0x22]) ⟨true, 16⟩ = .ok (some 750) ∧
    Eager.toFloatC .b32 true (Buf.ofBytes [0xd0, 0x03, 0x50, 0x22]) binary32 = .ok (some 0x443b8000) := by decide +kernel

end Decstr.Proofs.Exec

#print axioms Decstr.Proofs.Exec.toIntC_refines
#print axioms Decstr.Proofs.Exec.toFloatC_refines
