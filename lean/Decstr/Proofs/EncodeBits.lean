import Decstr.Proofs.Basic
/-!
# Proofs.EncodeBits — byte tables and buffer-as-number lemmas used by the encoder proofs

* `dpdOfBcd_spec`: the eight arms of the DPD encoder are IEEE 754-2019 Table 3.4 (1000 digit triples).
Auxiliary lemmas live in `Decstr.Proofs.EncodeAux` (main theorems in `Decstr.Proofs`).
* `writeDpd_eq`: the two byte ORs of `writeDpd` are one 10-bit OR at the bit offset.
* `or_shift_eq_add`: OR-ing into a zero region is adding.
-/
namespace Decstr.Proofs
open Decstr.Model Decstr.Spec

/-! ## DPD tables -/

/-- the eight arms of the DPD encoder = IEEE Table 3.4, for all 1000 digit triples
    (a0 least significant, as the code reads them) -/
theorem dpdOfBcd_spec : ∀ a < 10, ∀ b < 10, ∀ c < 10,
    dpdOfBcd (bcdOfAscii (c + 48) (b + 48) (a + 48)) = dpdEncode (100 * a + 10 * b + c) := by
  decide +kernel

namespace EncodeAux

theorem dpdEncode_lt : ∀ v < 1000, dpdEncode v < 1024 := by decide +kernel

theorem dpdEncode_zero : dpdEncode 0 = 0 := by decide +kernel

theorem dpdEncode_999 : dpdEncode 999 = 0x0FF := by decide +kernel

/-! ## bytes of a number -/

theorem add_eq_or_of_lt (a b : Nat) (ha : a < 256) : a + 256 * b = a ||| (b <<< 8) := by
  have h : a + 256 * b = 2 ^ 8 * b + a := by omega
  rw [h, Nat.two_pow_add_eq_or_of_lt (by simpa using ha)]
  rw [Nat.or_comm, Nat.shiftLeft_eq, Nat.mul_comm]

theorem two_bytes (a b i : Nat) (ha : a < 256) :
    (a <<< (8 * i)) ||| (b <<< (8 * (i + 1))) = (a + 256 * b) <<< (8 * i) := by
  rw [add_eq_or_of_lt a b ha, Nat.shiftLeft_or_distrib, ← Nat.shiftLeft_add]
  congr 2; omega

theorem splice10 (x s : Nat) (hx : x < 1024) (hs : s = 0 ∨ s = 2 ∨ s = 4 ∨ s = 6) :
    ((x <<< s) % 256) + 256 * ((x >>> (8 - s)) % 256) = x <<< s := by
  rcases hs with rfl | rfl | rfl | rfl <;> simp [Nat.shiftLeft_eq, Nat.shiftRight_eq_div_pow] <;> omega

theorem splice8 (x s : Nat) (hx : x < 256) (hs : s < 8) :
    ((x <<< s) % 256) + 256 * ((x >>> (8 - s)) % 256) = x <<< s := by
  have : s = 0 ∨ s = 1 ∨ s = 2 ∨ s = 3 ∨ s = 4 ∨ s = 5 ∨ s = 6 ∨ s = 7 := by omega
  rcases this with rfl | rfl | rfl | rfl | rfl | rfl | rfl | rfl <;>
    simp [Nat.shiftLeft_eq, Nat.shiftRight_eq_div_pow] <;> omega

/-- OR-ing into a zero region equals adding -/
theorem or_shift_eq_add (N x k : Nat) (hN : N < 2 ^ k) : N ||| (x <<< k) = N + x * 2 ^ k := by
  rw [Nat.shiftLeft_eq, Nat.or_comm, Nat.mul_comm, ← Nat.two_pow_add_eq_or_of_lt hN, Nat.add_comm]

/-- the tail of `encode_bcd_declet_to_dpd`: the two byte ORs are one OR of the 10-bit group at `bit` -/
theorem writeDpd_eq (b : Buf) (x bit : Nat) (hx : x < 1024) (hs : bit % 2 = 0) :
    writeDpd b x bit = ⟨b.len, b.bits ||| (x <<< bit)⟩ := by
  have hs' : bit % 8 = 0 ∨ bit % 8 = 2 ∨ bit % 8 = 4 ∨ bit % 8 = 6 := by omega
  unfold writeDpd Buf.orAt
  simp only
  rw [Nat.or_assoc, two_bytes _ _ _ (Nat.mod_lt _ (by decide)), splice10 x _ hx hs', ← Nat.shiftLeft_add]
  congr 3; omega

/-- one trip of the shifted exponent loop: the two byte ORs are one OR of the byte at `8·di + s` -/
theorem writeByteShifted_eq (b : Buf) (x di s : Nat) (hx : x < 256) (hs : s < 8) :
    (b.orAt di (x <<< s)).orAt (di + 1) (x >>> (8 - s)) = ⟨b.len, b.bits ||| (x <<< (8 * di + s))⟩ := by
  unfold Buf.orAt
  simp only
  rw [Nat.or_assoc, two_bytes _ _ _ (Nat.mod_lt _ (by decide)), splice8 x s hx hs, ← Nat.shiftLeft_add]
  congr 3; omega

/-! ## `get`/`setAt` on a byte that is still zero -/

theorem get_eq_div (b : Buf) (i : Nat) (h : b.bits < 2 ^ (8 * (i + 1))) : b.get i = b.bits / 2 ^ (8 * i) := by
  unfold Buf.get
  rw [Nat.shiftRight_eq_div_pow]
  apply Nat.mod_eq_of_lt
  rw [Nat.div_lt_iff_lt_mul (Nat.two_pow_pos _)]
  have : 2 ^ (8 * (i + 1)) = 256 * 2 ^ (8 * i) := by
    rw [Nat.mul_add, Nat.pow_add]; simp [Nat.mul_comm]
  omega

theorem get_zero (b : Buf) (i : Nat) (h : b.bits < 2 ^ (8 * i)) : b.get i = 0 := by
  unfold Buf.get
  rw [Nat.shiftRight_eq_div_pow, Nat.div_eq_of_lt h]

/-- `buf[i] = v` on a buffer whose bytes from `i` upward are zero -/
theorem setAt_fresh (b : Buf) (i v : Nat) (h : b.bits < 2 ^ (8 * i)) :
    b.setAt i v = ⟨b.len, b.bits + (v % 256) * 2 ^ (8 * i)⟩ := by
  unfold Buf.setAt
  rw [get_zero b i h]
  simp [Nat.shiftLeft_eq]

/-- `buf[i] = v` on a buffer whose bytes above `i` are zero: the low part is kept, byte `i` replaced -/
theorem setAt_top (b : Buf) (i v : Nat) (h : b.bits < 2 ^ (8 * (i + 1))) :
    b.setAt i v = ⟨b.len, b.bits % 2 ^ (8 * i) + (v % 256) * 2 ^ (8 * i)⟩ := by
  unfold Buf.setAt
  rw [get_eq_div b i h]
  simp only [Nat.shiftLeft_eq]
  congr 2
  have := Nat.div_add_mod b.bits (2 ^ (8 * i))
  rw [Nat.mul_comm] at this
  omega

end EncodeAux

end Decstr.Proofs

#print axioms Decstr.Proofs.dpdOfBcd_spec
#print axioms Decstr.Proofs.EncodeAux.writeDpd_eq
