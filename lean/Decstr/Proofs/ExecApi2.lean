import Decstr.Proofs.ExecApi
import Decstr.Props.C05
/-!
# Proofs.ExecApi2 — the public operations: decimal → integer, decimal → binary float, integer / binary float → decimal,
`encode_max` / `encode_min`
-/
namespace Decstr.Proofs.Exec
open Decstr.Model Decstr.Model.Exec Decstr.Spec Decstr.Proofs

/-! ## decimal → integer -/

theorem intFromAsciiC_eq (c : Bool) (I : IntTy) (neg : Bool) (ds : List Nat) (hds : ∀ d ∈ ds, 48 ≤ d) (acc : Int) :
    intFromAsciiC c I neg ds acc = .ok (intFromAscii I neg ds acc) := by
  induction ds generalizing acc with
  | nil => rfl
  | cons d ds ih =>
    have hd := hds d (by simp)
    have hds' : ∀ x ∈ ds, 48 ≤ x := fun x hx => hds x (by simp [hx])
    unfold intFromAsciiC intFromAscii
    split
    · rfl
    · simp only []
      split
      · rfl
      · rw [subU8_ok hd]
        simp only []
        generalize (if neg = true then acc * 10 - ((d - 48 : Nat) : Int) else acc * 10 + ((d - 48 : Nat) : Int)) = v
        split
        · rfl
        · exact ih hds' v

theorem toIntCoreC_eq (T : Ty) (c : Bool) (I : IntTy) (neg : Bool) (digits : List Nat) (hds : ∀ d ∈ digits, 48 ≤ d)
    (exponent : Int) (precision : Nat) (fin : Bool) :
    toIntCoreC T c I neg digits exponent precision fin = .ok (toIntCore T I neg digits exponent precision fin) := by
  unfold toIntCoreC toIntCore
  simp only []
  split
  · rfl
  · split
    · exact intFromAsciiC_eq c I neg digits hds 0
    · split
      · rw [intFromAsciiC_eq c I neg digits hds 0]
        cases intFromAscii I neg digits 0 <;> rfl
      · split
        · rename_i hlt
          have hlt' : exponent.natAbs < precision := by simp at hlt; exact hlt.2
          rw [subUsize_ok (by omega)]
          simp only []
          rw [intFromAsciiC_eq c I neg _ (fun d hd => hds d (List.mem_of_mem_take hd)) 0]
          cases intFromAscii I neg (List.take (precision - exponent.natAbs) digits) 0 <;> rfl
        · split
          · exact intFromAsciiC_eq c I neg [48] (by simp) 0
          · rfl

/-- **`to_i8 … to_u128`**: for every well-formed buffer, no panic site in either profile -/
theorem toIntC_eq (T : Ty) (c : Bool) (b : Buf) (n : Nat) (h : WF b n) (hT : T.expIsI32 = true → n ≤ 5) (I : IntTy) :
    toIntC T c b I = .ok (toInt T b I) := by
  have hn := h.pos
  have hl := h.len
  have hlen : 0 < b.len := by omega
  have hr : T.expRep.isI32 = true → n ≤ 5 := by rw [expRep_isI32]; exact hT
  unfold toIntC toInt
  rw [decodeCombinationFiniteC_eq T.expRep c b n h hr, bind_ok, bcdToAsciiC_eq c _ (msd_le b n h), bind_ok,
    decodeDecletsC_eq c b n hn hl, bind_ok, isSignNegativeC_eq c b hlen, bind_ok, precisionC_eq c b n hn hl, bind_ok,
    isFiniteC_eq c b hlen, bind_ok]
  obtain ⟨_, ha⟩ := allDigits_ascii b n h
  exact toIntCoreC_eq T c I _ _ (fun d hd => (ha d hd).1) _ _ _

/-! ## decimal → binary float -/

theorem fpushC_eq (c : Bool) (site : String) (text : List Nat) (x : Nat) (h : text.length ≤ scratchCap) :
    fpushC c site text x = .ok (if text.length < scratchCap then some (text ++ [x]) else none) := by
  unfold fpushC
  rw [subUsize_ok h, bind_ok]
  by_cases hlt : text.length < scratchCap
  · rw [if_neg (by omega), req_pos hlt, bind_ok, if_pos hlt]
  · rw [if_pos (by omega), if_neg hlt]

theorem ite_le_congr {α : Type} (a b cap : Nat) (h : a = b) (x y : α) :
    (if a ≤ cap then x else y) = (if b ≤ cap then x else y) := by rw [h]

theorem fpushAllC_eq (c : Bool) (site : String) (text ds : List Nat) (h : text.length ≤ scratchCap) :
    fpushAllC c site text ds = .ok (if text.length + ds.length ≤ scratchCap then some (text ++ ds) else none) := by
  induction ds generalizing text with
  | nil => simp [fpushAllC, h]
  | cons d ds ih =>
    unfold fpushAllC
    rw [fpushC_eq c site text d h]
    by_cases hlt : text.length < scratchCap
    · simp only [if_pos hlt]
      rw [ih (text ++ [d]) (by simp; omega)]
      simp only [List.append_assoc, List.singleton_append]
      congr 1
      exact ite_le_congr _ _ _ (by simp only [List.length_append, List.length_cons, List.length_nil]; omega) _ _
    · simp only [if_neg hlt]
      rw [if_neg (by simp only [List.length_cons]; omega)]

theorem fstoreAllC_eq (site : String) (text ds : List Nat) (h : text.length + ds.length ≤ scratchCap) :
    fstoreAllC site text ds = .ok (text ++ ds) := by
  induction ds generalizing text with
  | nil => simp [fstoreAllC]
  | cons d ds ih =>
    unfold fstoreAllC
    simp only [List.length_cons] at h
    rw [req_pos (by omega)]
    simp only []
    rw [ih (text ++ [d]) (by simp; omega)]
    simp

theorem ffragC_eq (c : Bool) (text frag : List Nat) (h : text.length ≤ scratchCap) :
    ffragC c text frag = .ok (if text.length + frag.length ≤ scratchCap then some (text ++ frag) else none) := by
  unfold ffragC
  rw [subUsize_ok h, bind_ok]
  by_cases hlt : scratchCap - text.length < frag.length
  · rw [if_pos hlt, if_neg (by omega)]
  · rw [if_neg hlt, fstoreAllC_eq _ _ _ (by omega), bind_ok, if_pos (by omega)]

/-- the scratch text of `num.rs::parse_ascii`: every store into the 25-byte array is preceded by a capacity test -/
theorem floatTextC_eq (c : Bool) (neg : Bool) (digits : List Nat) (exponent : Int) :
    floatTextC c neg digits exponent = .ok (floatText neg digits exponent) := by
  unfold floatTextC floatText
  simp only []
  generalize hsig : (if (List.dropWhile (fun x => x == 48) digits).isEmpty = true then [48]
    else List.dropWhile (fun x => x == 48) digits) = sig
  have hcap : scratchCap = 25 := rfl
  -- the sign
  have h1 : (if neg = true then fpushC c "text/buf/array.rs:72 self.buf[self.len] = b'-'" [] 45 else .ok (some []))
      = .ok (some (if neg = true then [45] else [])) := by
    cases neg with
    | false => rfl
    | true => rw [if_pos rfl, fpushC_eq c _ [] 45 (by simp)]; simp [hcap]
  rw [h1, bind_ok]
  simp only []
  generalize hs : (if neg = true then [45] else ([] : List Nat)) = sgn
  have hsl : sgn.length ≤ 1 := by rw [← hs]; cases neg <;> simp
  rw [fpushAllC_eq c _ sgn sig (by omega), bind_ok]
  by_cases hfit : sgn.length + sig.length ≤ scratchCap
  · rw [if_pos hfit]
    simp only []
    rw [fpushC_eq c _ (sgn ++ sig) 101 (by simpa using hfit), bind_ok]
    by_cases hlt : (sgn ++ sig).length < scratchCap
    · rw [if_pos hlt]
      simp only []
      have hne : ¬ (sgn ++ sig).length + 1 > scratchCap := by omega
      rw [if_neg hne]
      have htd : intToAscii exponent = (if exponent < 0 then [45] else []) ++ (Nat.toDigits 10 exponent.natAbs).map Char.toNat := rfl
      rw [htd]
      generalize (Nat.toDigits 10 exponent.natAbs).map Char.toNat = eds
      have hbl : (sgn ++ sig ++ [101]).length ≤ scratchCap := by simp at hlt ⊢; omega
      by_cases hen : exponent < 0
      · simp only [if_pos hen]
        rw [ffragC_eq c _ [45] hbl, bind_ok]
        by_cases hf1 : (sgn ++ sig ++ [101]).length + [45].length ≤ scratchCap
        · rw [if_pos hf1]
          simp only []
          rw [ffragC_eq c _ eds (by simp only [List.length_append, List.length_cons, List.length_nil] at hf1 ⊢; omega)]
          congr 1
          by_cases hf2 : (sgn ++ sig ++ [101] ++ [45]).length + eds.length ≤ scratchCap
          · rw [if_pos hf2, if_neg (by simp only [List.length_append, List.length_cons, List.length_nil] at hf2 ⊢; omega)]
            simp
          · rw [if_neg hf2, if_pos (by simp only [List.length_append, List.length_cons, List.length_nil] at hf2 ⊢; omega)]
        · rw [if_neg hf1]
          simp only []
          rw [if_pos (by simp only [List.length_append, List.length_cons, List.length_nil] at hf1 ⊢; omega)]
      · simp only [if_neg hen, bind_ok, List.nil_append]
        rw [ffragC_eq c _ eds hbl]
        congr 1
        by_cases hf2 : (sgn ++ sig ++ [101]).length + eds.length ≤ scratchCap
        · rw [if_pos hf2, if_neg (by omega)]
        · rw [if_neg hf2, if_pos (by omega)]
    · rw [if_neg hlt]
      simp only []
      rw [if_pos (by omega)]
  · rw [if_neg hfit]
    simp only []
    rw [if_pos (by simp only [List.length_append]; omega)]

/-- **`to_f32` / `to_f64`**: for every well-formed buffer, no panic site in either profile -/
theorem toFloatC_eq (T : Ty) (c : Bool) (b : Buf) (n : Nat) (h : WF b n) (hT : T.expIsI32 = true → n ≤ 5) (B : BinFmt) :
    toFloatC T c b B = .ok (toFloat b B) := by
  have hn := h.pos
  have hl := h.len
  have hlen : 0 < b.len := by omega
  have hr : T.expRep.isI32 = true → n ≤ 5 := by rw [expRep_isI32]; exact hT
  unfold toFloatC toFloat
  rw [isFiniteC_eq c b hlen, bind_ok, isSignNegativeC_eq c b hlen, bind_ok]
  cases hfin : isFinite b with
  | true =>
    simp only [if_true]
    rw [decodeCombinationFiniteC_eq T.expRep c b n h hr, bind_ok, bcdToAsciiC_eq c _ (msd_le b n h), bind_ok,
      decodeDecletsC_eq c b n hn hl, bind_ok, floatTextC_eq, bind_ok]
    rfl
  | false =>
    simp only [Bool.false_eq_true, if_false]
    rw [isInfiniteC_eq c b hlen, bind_ok]
    cases hinf : isInfinite b with
    | true => simp only [if_true]
    | false =>
      simp only [Bool.false_eq_true, if_false]
      have hnan : isNan b = true := by
        have := Decstr.Props.C08.C08_partition b
        simp_all
      rw [isNanC_eq c b hlen, bind_ok, dbg_pos hnan, bind_ok, decodeDecletsC_eq c b n hn hl, bind_ok,
        intFromAsciiC_eq c _ false _ (fun d hd => (Decstr.Proofs.DecodeAux.decodeDeclets_flatten_ascii b n h d hd).1) 0, bind_ok,
        isSignalingNanC_eq c b hlen, bind_ok]

/-- **`Bitstring32::to_f64`** (the infallible one): the `expect` is unreachable -/
theorem toFloatInfallibleC_b32 (c : Bool) (b : Buf) (h : WF b 1) :
    ∃ bits, toFloatInfallibleC .b32 c b binary64 = .ok bits ∧ toFloat b binary64 = some bits := by
  obtain ⟨bits, hb⟩ := Decstr.Props.C05.C05_b32_to_f64 b h
  refine ⟨bits, ?_, hb⟩
  unfold toFloatInfallibleC
  rw [toFloatC_eq .b32 c b 1 h (by intro _; omega), bind_ok, hb]

end Decstr.Proofs.Exec

#print axioms Decstr.Proofs.Exec.toIntC_eq
#print axioms Decstr.Proofs.Exec.toFloatC_eq
#print axioms Decstr.Proofs.Exec.toFloatInfallibleC_b32
