import Decstr.Proofs.ExecApi
import Decstr.Proofs.ExecLazy
import Decstr.Props.C05
/-!
# Proofs.ExecApi2 — the public operations: decimal → integer, decimal → binary float, integer / binary float → decimal,
`encode_max` / `encode_min`
-/
namespace Decstr.Proofs.Exec
open Decstr.Model Decstr.Model.Exec Decstr.Spec Decstr.Proofs

/-! ## decimal → integer -/

theorem intFromAsciiC_eq (c : Bool) (I : IntTy) (neg : Bool) (ds : List Nat) (hds : ∀ d ∈ ds, 48 ≤ d) (acc : Int) :
    intFromAsciiC c I neg ds acc = .ok (intFromAscii I neg ds acc) := by
  induction ds generalizing acc with
  | nil => rfl
  | cons d ds ih =>
    have hd := hds d (by simp)
    have hds' : ∀ x ∈ ds, 48 ≤ x := fun x hx => hds x (by simp [hx])
    unfold intFromAsciiC intFromAscii
    split
    · rfl
    · simp only []
      split
      · rfl
      · rw [subU8_ok hd]
        simp only []
        generalize (if neg = true then acc * 10 - ((d - 48 : Nat) : Int) else acc * 10 + ((d - 48 : Nat) : Int)) = v
        split
        · rfl
        · exact ih hds' v

/-- the eager run of the declet iterator from the start state of the stream -/
theorem decodeGo_start (c : Bool) (b : Buf) (n : Nat) (hn : 0 < n) (hl : b.len = 4 * n) :
    decodeDecletsGoC c b ((b.trailingBits + 9) / 10) b.trailingBits = .ok (decodeDeclets b) := by
  have h := decodeDecletsC_eq c b n hn hl
  unfold decodeDecletsC at h
  rw [trailingBitsC_eq c b n hn hl, bind_ok] at h
  exact h

/-- on a well-formed buffer the digit stream yields all `precision` digits, and no pull reaches a panic site -/
theorem yields_allDigits (c : Bool) (b : Buf) (n : Nat) (h : WF b n) (m : Nat) :
    Yields c b (Digits.start [m + 48] b.trailingBits) (allDigits b m) :=
  yields_start c b [m + 48] _ _ (decodeGo_start c b n h.pos h.len)

theorem allDigits_ge (b : Buf) (n : Nat) (h : WF b n) (m : Nat) : ∀ d ∈ allDigits b m, 48 ≤ d := by
  intro d hd
  rcases List.mem_cons.1 hd with rfl | hd
  · omega
  · exact (Decstr.Proofs.DecodeAux.decodeDeclets_flatten_ascii b n h d hd).1

/-- `try_from_ascii` on a stream that yields ASCII digits: the pure model's value; the stream is left behind the digits
    taken -/
theorem tryFromDigitsC_eq (c : Bool) (b : Buf) (I : IntTy) (neg : Bool) (n : Nat) (it : Digits) (ds : List Nat)
    (hy : Yields c b it ds) (hds : ∀ d ∈ ds, 48 ≤ d) :
    ∃ it', tryFromDigitsC c b I neg n it =
        .ok (if (neg && !I.signed) = true then none else intFromAscii I neg (ds.take n) 0, it') ∧
      ((neg && !I.signed) = false → ∀ v, intFromAscii I neg (ds.take n) 0 = some v → Yields c b it' (ds.drop n)) := by
  unfold tryFromDigitsC
  by_cases hs : (neg && !I.signed) = true
  · exact ⟨it, by rw [if_pos hs, if_pos hs], fun h => by rw [hs] at h; cases h⟩
  · have hs' : (neg && !I.signed) = false := by simpa using hs
    obtain ⟨it', h1, h2⟩ := intFromDigitsC_yields c b I neg hs' n ds it 0 hy
    have he := intFromAsciiC_eq c I neg (ds.take n) (fun d hd => hds d (List.mem_of_mem_take hd)) 0
    refine ⟨it', ?_, fun _ v hv => h2 v (by rw [he, hv])⟩
    rw [if_neg hs, if_neg hs, h1, he]
    rfl

/-- the arms of `decimal_to_int` on the digit stream of a well-formed buffer -/
theorem toIntCoreC_eq (T : Ty) (c : Bool) (b : Buf) (n : Nat) (h : WF b n) (I : IntTy) (exponent : Int) (msd : Nat)
    (hmsd : msd ≤ 9) :
    toIntCoreC T c b I exponent msd =
      .ok (toIntCore T I (isSignNegative b) (allDigits b msd) exponent b.precision (isFinite b)) := by
  have hn := h.pos
  have hl := h.len
  have hlen : 0 < b.len := by omega
  have hy := yields_allDigits c b n h msd
  have hds := allDigits_ge b n h msd
  have hbound := yields_length_le c b _ _ hy
  unfold toIntCoreC toIntCore
  simp only [trailingBitsC_eq c b n hn hl, bcdToAsciiC_eq c msd hmsd, isSignNegativeC_eq c b hlen, precisionC_eq c b n hn hl,
    isFiniteC_eq c b hlen, bind_ok]
  generalize (T.expIsI32 || (decide (i32Min ≤ exponent) && decide (exponent ≤ i32Max))) = inI32
  generalize isSignNegative b = neg
  generalize isFinite b = fin
  generalize b.precision = p
  generalize Digits.start [msd + 48] b.trailingBits = it0 at hy hbound ⊢
  generalize allDigits b msd = ds at hy hds hbound ⊢
  have hnone : (neg && !I.signed) = true → intFromAscii I neg [48] 0 = none := by
    intro hs; simp [intFromAscii, hs]
  by_cases h12 : (inI32 && (decide (exponent = 0) || decide (exponent > 0))) = true
  · -- `Some(0)` and `Some(exponent) if exponent > 0`
    rw [if_pos h12]
    obtain ⟨it', ht, -⟩ := tryFromDigitsC_eq c b I neg (it0.bound + 1) it0 ds hy hds
    rw [ht, bind_ok, List.take_of_length_le (by omega)]
    simp only [Bool.and_eq_true, Bool.or_eq_true, decide_eq_true_eq] at h12
    obtain ⟨hi, he⟩ := h12
    subst hi
    by_cases hs : (neg && !I.signed) = true
    · simp only [hs, if_true]
    · simp only [hs, Bool.false_eq_true, if_false, Bool.true_and, decide_eq_true_eq]
      by_cases he0 : exponent = 0
      · simp only [he0, if_true]
        cases intFromAscii I neg ds 0 <;> rfl
      · have hpos : exponent > 0 := by omega
        simp only [he0, hpos, if_true, if_false]
        cases intFromAscii I neg ds 0 <;> rfl
  · rw [if_neg h12]
    have h1 : ¬ (inI32 && decide (exponent = 0)) = true := by
      intro hh; apply h12
      simp only [Bool.and_eq_true, Bool.or_eq_true, decide_eq_true_eq] at hh ⊢
      exact ⟨hh.1, Or.inl hh.2⟩
    have h2 : ¬ (inI32 && decide (exponent > 0)) = true := by
      intro hh; apply h12
      simp only [Bool.and_eq_true, Bool.or_eq_true, decide_eq_true_eq] at hh ⊢
      exact ⟨hh.1, Or.inr hh.2⟩
    rw [if_neg h1, if_neg h2]
    by_cases h3 : (inI32 && decide (exponent.natAbs < p)) = true
    · -- `Some(exponent) if |exponent| < precision`
      rw [if_pos h3]
      simp only [Bool.and_eq_true, decide_eq_true_eq] at h3
      obtain ⟨hi, hlt⟩ := h3
      subst hi
      simp only [if_true, bind_ok, if_pos hlt]
      rw [subUsize_ok (by omega), bind_ok]
      obtain ⟨it', ht, hrest⟩ := tryFromDigitsC_eq c b I neg (p - exponent.natAbs) it0 ds hy hds
      rw [ht, bind_ok]
      by_cases hs : (neg && !I.signed) = true
      · simp only [hs, if_true]
      · simp only [hs, Bool.false_eq_true, if_false]
        have hs' : (neg && !I.signed) = false := by simpa using hs
        cases hv : intFromAscii I neg (List.take (p - exponent.natAbs) ds) 0 with
        | none => rfl
        | some i =>
          have hy' := hrest hs' i hv
          simp only []
          rw [allZeroC_yields c b _ _ it' hy' (by have := yields_length_le c b _ _ hy'; omega), bind_ok]
    · -- `_`
      rw [if_neg h3]
      have harm : (if inI32 = true then (Except.ok (if exponent.natAbs < p then some p else none) : Chk (Option Nat))
          else Except.ok none) = Except.ok none := by
        cases inI32 with
        | false => rfl
        | true =>
          simp only [Bool.true_and, decide_eq_true_eq] at h3
          simp only [if_true, if_neg h3]
      rw [harm, bind_ok]
      simp only []
      cases fin with
      | false =>
        simp only [Bool.false_eq_true, if_false, Bool.false_and]
        split <;> rfl
      | true =>
        simp only [if_true, Bool.true_and]
        rw [allZeroC_yields c b _ ds it0 hy (by omega), bind_ok]
        cases hz : ds.all (fun x => x == 48) with
        | false =>
          simp only [Bool.false_eq_true, if_false]
          split <;> rfl
        | true =>
          simp only [if_true]
          rw [intFromAsciiC_eq c I neg [48] (by simp) 0]
          by_cases hs : (neg && !I.signed) = true
          · rw [if_pos hs, hnone hs]
          · rw [if_neg hs]

/-- **`to_i8 … to_u128`**: for every well-formed buffer, no panic site in either profile -/
theorem toIntC_eq (T : Ty) (c : Bool) (b : Buf) (n : Nat) (h : WF b n) (hT : T.expIsI32 = true → n ≤ 5) (I : IntTy) :
    toIntC T c b I = .ok (toInt T b I) := by
  have hr : T.expRep.isI32 = true → n ≤ 5 := by rw [expRep_isI32]; exact hT
  unfold toIntC toInt
  rw [decodeCombinationFiniteC_eq T.expRep c b n h hr, bind_ok]
  exact toIntCoreC_eq T c b n h I _ _ (msd_le b n h)

/-! ## decimal → binary float -/

theorem fpushC_eq (c : Bool) (site : String) (text : List Nat) (x : Nat) (h : text.length ≤ scratchCap) :
    fpushC c site text x = .ok (if text.length < scratchCap then some (text ++ [x]) else none) := by
  unfold fpushC
  rw [subUsize_ok h, bind_ok]
  by_cases hlt : text.length < scratchCap
  · rw [if_neg (by omega), req_pos hlt, bind_ok, if_pos hlt]
  · rw [if_pos (by omega), if_neg hlt]

theorem ite_le_congr {α : Type} (a b cap : Nat) (h : a = b) (x y : α) :
    (if a ≤ cap then x else y) = (if b ≤ cap then x else y) := by rw [h]

theorem fpushAllC_eq (c : Bool) (site : String) (text ds : List Nat) (h : text.length ≤ scratchCap) :
    fpushAllC c site text ds = .ok (if text.length + ds.length ≤ scratchCap then some (text ++ ds) else none) := by
  induction ds generalizing text with
  | nil => simp [fpushAllC, h]
  | cons d ds ih =>
    unfold fpushAllC
    rw [fpushC_eq c site text d h]
    by_cases hlt : text.length < scratchCap
    · simp only [if_pos hlt]
      rw [ih (text ++ [d]) (by simp; omega)]
      simp only [List.append_assoc, List.singleton_append]
      congr 1
      exact ite_le_congr _ _ _ (by simp only [List.length_append, List.length_cons, List.length_nil]; omega) _ _
    · simp only [if_neg hlt]
      rw [if_neg (by simp only [List.length_cons]; omega)]

theorem fstoreAllC_eq (site : String) (text ds : List Nat) (h : text.length + ds.length ≤ scratchCap) :
    fstoreAllC site text ds = .ok (text ++ ds) := by
  induction ds generalizing text with
  | nil => simp [fstoreAllC]
  | cons d ds ih =>
    unfold fstoreAllC
    simp only [List.length_cons] at h
    rw [req_pos (by omega)]
    simp only []
    rw [ih (text ++ [d]) (by simp; omega)]
    simp

theorem ffragC_eq (c : Bool) (text frag : List Nat) (h : text.length ≤ scratchCap) :
    ffragC c text frag = .ok (if text.length + frag.length ≤ scratchCap then some (text ++ frag) else none) := by
  unfold ffragC
  rw [subUsize_ok h, bind_ok]
  by_cases hlt : scratchCap - text.length < frag.length
  · rw [if_pos hlt, if_neg (by omega)]
  · rw [if_neg hlt, fstoreAllC_eq _ _ _ (by omega), bind_ok, if_pos (by omega)]

/-- the scratch text of `num.rs::parse_ascii`: every store into the 25-byte array is preceded by a capacity test -/
theorem floatTextC_eq (c : Bool) (neg : Bool) (digits : List Nat) (exponent : Int) :
    floatTextC c neg digits exponent = .ok (floatText neg digits exponent) := by
  unfold floatTextC floatExpC floatText
  simp only []
  generalize hsig : (if (List.dropWhile (fun x => x == 48) digits).isEmpty = true then [48]
    else List.dropWhile (fun x => x == 48) digits) = sig
  have hcap : scratchCap = 25 := rfl
  -- the sign
  have h1 : (if neg = true then fpushC c "text/buf/array.rs:72 self.buf[self.len] = b'-'" [] 45 else .ok (some []))
      = .ok (some (if neg = true then [45] else [])) := by
    cases neg with
    | false => rfl
    | true => rw [if_pos rfl, fpushC_eq c _ [] 45 (by simp)]; simp [hcap]
  rw [h1, bind_ok]
  simp only []
  generalize hs : (if neg = true then [45] else ([] : List Nat)) = sgn
  have hsl : sgn.length ≤ 1 := by rw [← hs]; cases neg <;> simp
  rw [fpushAllC_eq c _ sgn sig (by omega), bind_ok]
  by_cases hfit : sgn.length + sig.length ≤ scratchCap
  · rw [if_pos hfit]
    simp only []
    rw [fpushC_eq c _ (sgn ++ sig) 101 (by simpa using hfit), bind_ok]
    by_cases hlt : (sgn ++ sig).length < scratchCap
    · rw [if_pos hlt]
      simp only []
      have hne : ¬ (sgn ++ sig).length + 1 > scratchCap := by omega
      rw [if_neg hne]
      have htd : intToAscii exponent = (if exponent < 0 then [45] else []) ++ (Nat.toDigits 10 exponent.natAbs).map Char.toNat := rfl
      rw [htd]
      generalize (Nat.toDigits 10 exponent.natAbs).map Char.toNat = eds
      have hbl : (sgn ++ sig ++ [101]).length ≤ scratchCap := by simp at hlt ⊢; omega
      by_cases hen : exponent < 0
      · simp only [if_pos hen]
        rw [ffragC_eq c _ [45] hbl, bind_ok]
        by_cases hf1 : (sgn ++ sig ++ [101]).length + [45].length ≤ scratchCap
        · rw [if_pos hf1]
          simp only []
          rw [ffragC_eq c _ eds (by simp only [List.length_append, List.length_cons, List.length_nil] at hf1 ⊢; omega)]
          congr 1
          by_cases hf2 : (sgn ++ sig ++ [101] ++ [45]).length + eds.length ≤ scratchCap
          · rw [if_pos hf2, if_neg (by simp only [List.length_append, List.length_cons, List.length_nil] at hf2 ⊢; omega)]
            simp
          · rw [if_neg hf2, if_pos (by simp only [List.length_append, List.length_cons, List.length_nil] at hf2 ⊢; omega)]
        · rw [if_neg hf1]
          simp only []
          rw [if_pos (by simp only [List.length_append, List.length_cons, List.length_nil] at hf1 ⊢; omega)]
      · simp only [if_neg hen, bind_ok, List.nil_append]
        rw [ffragC_eq c _ eds hbl]
        congr 1
        by_cases hf2 : (sgn ++ sig ++ [101]).length + eds.length ≤ scratchCap
        · rw [if_pos hf2, if_neg (by omega)]
        · rw [if_neg hf2, if_pos (by omega)]
    · rw [if_neg hlt]
      simp only []
      rw [if_pos (by omega)]
  · rw [if_neg hfit]
    simp only []
    rw [if_pos (by simp only [List.length_append]; omega)]

/-- **`to_f32` / `to_f64`**: for every well-formed buffer, no panic site in either profile -/
theorem toFloatC_eq (T : Ty) (c : Bool) (b : Buf) (n : Nat) (h : WF b n) (hT : T.expIsI32 = true → n ≤ 5) (B : BinFmt) :
    toFloatC T c b B = .ok (toFloat b B) := by
  have hn := h.pos
  have hl := h.len
  have hlen : 0 < b.len := by omega
  have hr : T.expRep.isI32 = true → n ≤ 5 := by rw [expRep_isI32]; exact hT
  unfold toFloatC toFloat
  rw [isFiniteC_eq c b hlen, bind_ok]
  cases hfin : isFinite b with
  | true =>
    simp only [if_true]
    rw [decodeCombinationFiniteC_eq T.expRep c b n h hr, bind_ok, trailingBitsC_eq c b n hn hl, bind_ok,
      isSignNegativeC_eq c b hlen, bind_ok, bcdToAsciiC_eq c _ (msd_le b n h), bind_ok,
      floatTextLazyC_yields c b _ _ _ _ (yields_allDigits c b n h _), floatTextC_eq, bind_ok]
    rfl
  | false =>
    simp only [Bool.false_eq_true, if_false]
    rw [isInfiniteC_eq c b hlen, bind_ok]
    cases hinf : isInfinite b with
    | true =>
      simp only [if_true]
      rw [isSignNegativeC_eq c b hlen, bind_ok]
    | false =>
      simp only [Bool.false_eq_true, if_false]
      have hnan : isNan b = true := by
        have := Decstr.Props.C08.C08_partition b
        simp_all
      rw [isNanC_eq c b hlen, bind_ok, dbg_pos hnan, bind_ok, trailingBitsC_eq c b n hn hl, bind_ok]
      have hy : Yields c b (Digits.start [] b.trailingBits) (decodeDeclets b).flatten :=
        yields_start c b [] _ _ (decodeGo_start c b n hn hl)
      obtain ⟨it', ht, -⟩ := tryFromDigitsC_eq c b ⟨true, B.width⟩ false ((Digits.start [] b.trailingBits).bound + 1) _ _ hy
        (fun d hd => (Decstr.Proofs.DecodeAux.decodeDeclets_flatten_ascii b n h d hd).1)
      have hb := yields_length_le c b _ _ hy
      rw [ht, bind_ok, isSignNegativeC_eq c b hlen, bind_ok, isSignalingNanC_eq c b hlen, bind_ok,
        List.take_of_length_le (by omega)]
      rfl

/-- **`Bitstring32::to_f64`** (the infallible one): the `expect` is unreachable -/
theorem toFloatInfallibleC_b32 (c : Bool) (b : Buf) (h : WF b 1) :
    ∃ bits, toFloatInfallibleC .b32 c b binary64 = .ok bits ∧ toFloat b binary64 = some bits := by
  obtain ⟨bits, hb⟩ := Decstr.Props.C05.C05_b32_to_f64 b h
  refine ⟨bits, ?_, hb⟩
  unfold toFloatInfallibleC
  rw [toFloatC_eq .b32 c b 1 h (by intro _; omega), bind_ok, hb]

end Decstr.Proofs.Exec

#print axioms Decstr.Proofs.Exec.toIntC_eq
#print axioms Decstr.Proofs.Exec.toFloatC_eq
#print axioms Decstr.Proofs.Exec.toFloatInfallibleC_b32
