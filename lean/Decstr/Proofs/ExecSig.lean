import Decstr.Proofs.ExecBasic
import Decstr.Proofs.EncodeSig
import Decstr.Proofs.DecodeDpd
/-!
# Proofs.ExecSig — `significand.rs`: the checked encoder/decoder of the trailing significand never reaches a panic
site and computes what the pure model computes
-/
namespace Decstr.Proofs.Exec
open Decstr.Model Decstr.Model.Exec Decstr.Spec Decstr.Proofs Decstr.Proofs.EncodeAux

/-! ## digits and declets -/

theorem asciiToBcdC_eq (c : Bool) (a : Nat) (h : 48 ≤ a) : asciiToBcdC c a = .ok (a - 48) := by
  unfold asciiToBcdC; exact subU8_ok h

theorem bcdOfAsciiC_eq (c : Bool) (a0 a1 a2 : Nat) (h0 : 48 ≤ a0) (h1 : 48 ≤ a1) (h2 : 48 ≤ a2) :
    bcdOfAsciiC c a0 a1 a2 = .ok (bcdOfAscii a0 a1 a2) := by
  unfold bcdOfAsciiC
  rw [asciiToBcdC_eq c a0 h0, bind_ok, asciiToBcdC_eq c a1 h1, bind_ok, asciiToBcdC_eq c a2 h2, bind_ok]
  rfl

theorem and_mask12 (x m : Nat) (hm : 4095 &&& m = m) : x &&& m = (x % 4096) &&& m := by
  have : x % 4096 = x &&& 4095 := (Nat.and_two_pow_sub_one_eq_mod x 12).symm
  rw [this, Nat.and_assoc, hm]

theorem sel_table2 : ∀ a < 64, ∀ b < 64, ((64 * a + b) &&& 0x888 = 0 ∨ (64 * a + b) &&& 0x888 = 0x008 ∨
    (64 * a + b) &&& 0x888 = 0x080 ∨ (64 * a + b) &&& 0x888 = 0x800 ∨ (64 * a + b) &&& 0x888 = 0x880 ∨
    (64 * a + b) &&& 0x888 = 0x088 ∨ (64 * a + b) &&& 0x888 = 0x808 ∨ (64 * a + b) &&& 0x888 = 0x888) := by decide +kernel

theorem sel_table : ∀ y < 4096, (y &&& 0x888 = 0 ∨ y &&& 0x888 = 0x008 ∨ y &&& 0x888 = 0x080 ∨ y &&& 0x888 = 0x800 ∨
    y &&& 0x888 = 0x880 ∨ y &&& 0x888 = 0x088 ∨ y &&& 0x888 = 0x808 ∨ y &&& 0x888 = 0x888) := by
  intro y hy
  have h := sel_table2 (y / 64) (by omega) (y % 64) (Nat.mod_lt _ (by decide))
  have e : 64 * (y / 64) + y % 64 = y := Nat.div_add_mod y 64
  rwa [e] at h

/-- the `unreachable!()` arm of `encode_bcd_declet_to_dpd` is unreachable for every `u16` -/
theorem dpdOfBcdC_eq (bcd : Nat) : dpdOfBcdC bcd = .ok (dpdOfBcd bcd) := by
  unfold dpdOfBcdC
  have h := sel_table (bcd % 4096) (Nat.mod_lt _ (by decide))
  rw [← and_mask12 bcd 0x888 (by decide)] at h
  simp only [h, if_true]

theorem writeDpdC_eq (b : Buf) (dpd bit : Nat) (h : bit / 8 + 1 < b.len) : writeDpdC b dpd bit = .ok (writeDpd b dpd bit) := by
  unfold writeDpdC
  rw [orAtC_ok (by omega), bind_ok, orAtC_ok (by simpa using h)]
  rfl

theorem writeDpd_len (b : Buf) (dpd bit : Nat) : (writeDpd b dpd bit).len = b.len := rfl

/-! ## the chunk reader `next_ascii_declet_rev` against the flat reader of the pure model -/

/-- the digits a chunk stack denotes (current chunk first, so the text order is the reverse) -/
def flat (st : List (List Nat)) : List Nat := st.reverse.flatten

/-- no chunk of the stack is empty -/
def NE (st : List (List Nat)) : Prop := ∀ c ∈ st, c ≠ []

theorem flat_cons (c : List Nat) (st : List (List Nat)) : flat (c :: st) = flat st ++ c := by
  simp [flat]
theorem flat_nil : flat [] = [] := rfl

theorem NE.tail {c : List Nat} {st : List (List Nat)} (h : NE (c :: st)) : NE st := fun x hx => h x (by simp [hx])
theorem NE.head {c : List Nat} {st : List (List Nat)} (h : NE (c :: st)) : c ≠ [] := h c (by simp)
theorem NE.cons {c : List Nat} {st : List (List Nat)} (hc : c ≠ []) (h : NE st) : NE (c :: st) := by
  intro x hx
  rcases List.mem_cons.1 hx with rfl | hx
  · exact hc
  · exact h x hx
theorem NE.nil : NE [] := fun _ h => by cases h

theorem flat_ne_nil {st : List (List Nat)} (h : NE st) (hs : st ≠ []) : flat st ≠ [] := by
  cases st with
  | nil => exact absurd rfl hs
  | cons c st =>
    rw [flat_cons]
    intro he
    exact h.head (List.append_eq_nil_iff.1 he).2

theorem flat_reverse (chunks : List (List Nat)) : flat chunks.reverse = chunks.flatten := by
  simp [flat]

/-- `out[i] = v` -/
def setOut (out : Nat × Nat × Nat) (i v : Nat) : Nat × Nat × Nat :=
  if i = 0 then (v, out.2.1, out.2.2) else if i = 1 then (out.1, v, out.2.2) else (out.1, out.2.1, v)

theorem setOutC_eq (out : Nat × Nat × Nat) (i v : Nat) (h : i < 3) : setOutC out i v = .ok (setOut out i v) := by
  unfold setOutC setOut
  have : i = 0 ∨ i = 1 ∨ i = 2 := by omega
  rcases this with rfl | rfl | rfl <;> simp

/-- fill `out[oi..3]` from the digits in reverse text order -/
def fillOut : Nat × Nat × Nat → Nat → List Nat → Nat × Nat × Nat
  | out, _, [] => out
  | out, oi, r :: rs => if oi < 3 then fillOut (setOut out oi r) (oi + 1) rs else out

theorem fillOut_three (out : Nat × Nat × Nat) (R : List Nat) : fillOut out 3 R = out := by
  cases R <;> simp [fillOut]

/-- a list of length `m + 1` is its first `m` elements followed by its last -/
theorem snoc_decomp (l : List Nat) (m : Nat) (h : l.length = m + 1) : l = l.take m ++ [l.getD m 0] := by
  have h1 : l = l.take m ++ l.drop m := (List.take_append_drop m l).symm
  have h2 : (l.drop m).length = 1 := by rw [List.length_drop]; omega
  match hd : l.drop m, h2 with
  | [x], _ =>
    have : l.getD m 0 = x := by
      have := congrArg (fun t => t.getD 0 0) hd
      simpa [List.getD_eq_getElem?_getD] using this
    rw [this]
    conv => lhs; rw [h1, hd]

theorem take_snoc_sub (F : List Nat) (x k : Nat) (hk : 1 ≤ k) :
    (F ++ [x]).take ((F ++ [x]).length - k) = F.take (F.length - (k - 1)) := by
  rw [List.length_append]
  simp only [List.length_singleton]
  have e : F.length + 1 - k = F.length - (k - 1) := by omega
  rw [e, List.take_append_of_le_length (by omega)]

/-- the slow path: it fills the remaining output digits from the end of the text and leaves a stack without empty
    chunks denoting the unread prefix -/
theorem declSlowC_spec (st : List (List Nat)) (out : Nat × Nat × Nat) (oi : Nat) (hne : NE st) (hoi : oi ≤ 3) :
    ∃ st', declSlowC st out oi = .ok (fillOut out oi (flat st).reverse, st') ∧ NE st' ∧
      flat st' = (flat st).take ((flat st).length - (3 - oi)) := by
  induction hm : (st.map (·.length + 1)).sum using Nat.strongRecOn generalizing st out oi with
  | _ m ih =>
    cases st with
    | nil =>
      refine ⟨[], ?_, NE.nil, ?_⟩
      · simp [declSlowC, flat_nil, fillOut]
      · simp [flat_nil]
    | cons chunk rest =>
      rw [declSlowC]
      by_cases h3 : oi = 3
      · subst h3
        refine ⟨chunk :: rest, ?_, hne, ?_⟩
        · simp [fillOut_three]
        · simp
      · simp only [h3, if_false]
        have hc := hne.head
        have hlen : 0 < chunk.length := List.length_pos_iff.mpr hc
        obtain ⟨n, hn⟩ : ∃ n, chunk.length = n + 1 := ⟨chunk.length - 1, by omega⟩
        have hdec := snoc_decomp chunk n hn
        generalize hx : chunk.getD n 0 = x at hdec
        generalize hi : chunk.take n = init at hdec
        have hil : init.length = n := by rw [← hi, List.length_take]; omega
        have hR : (flat (chunk :: rest)).reverse = x :: (flat (init :: rest)).reverse := by
          rw [flat_cons, flat_cons, hdec]; simp
        have hfill : fillOut out oi (flat (chunk :: rest)).reverse
            = fillOut (setOut out oi x) (oi + 1) (flat (init :: rest)).reverse := by
          rw [hR]; simp only [fillOut]; rw [if_pos (by omega)]
        cases n with
        | zero =>
          -- the last byte of the chunk: move on to the next chunk
          have hi0 : init = [] := List.length_eq_zero_iff.mp hil
          subst hi0
          have hfl : flat ([] :: rest) = flat rest := by simp [flat_cons]
          rw [hfl] at hfill hR
          obtain ⟨st', h1, h2, h3'⟩ := ih _ (by rw [← hm]; simp) rest (setOut out oi x) (oi + 1) hne.tail (by omega) rfl
          refine ⟨st', ?_, h2, ?_⟩
          · split
            · omega
            · rw [hx, setOutC_eq _ _ _ (by omega)]; simp only []; rw [h1, hfill]
            · omega
          · rw [h3', flat_cons, hdec]
            simp only [List.nil_append]
            rw [take_snoc_sub _ _ _ (by omega)]
            congr 1
        | succ n =>
          have hine : init ≠ [] := by intro h; rw [h] at hil; simp at hil
          have hne' : NE (init :: rest) := NE.cons hine hne.tail
          obtain ⟨st', h1, h2, h3'⟩ := ih _ (by rw [← hm]; simp [hil, hn]) (init :: rest) (setOut out oi x) (oi + 1) hne' (by omega) rfl
          refine ⟨st', ?_, h2, ?_⟩
          · split
            · omega
            · omega
            · rename_i k hk
              have : k = n := by omega
              subst this
              rw [hx, setOutC_eq _ _ _ (by omega)]; simp only []; rw [hi, h1, hfill]
          · rw [h3']
            have e1 : flat (chunk :: rest) = flat (init :: rest) ++ [x] := by
              rw [flat_cons, flat_cons, hdec, List.append_assoc]
            rw [e1, take_snoc_sub _ _ _ (by omega)]
            congr 1


theorem fillOut_start (R : List Nat) :
    fillOut (48, 48, 48) 0 R = (R.getD 0 48, R.getD 1 48, R.getD 2 48) := by
  match R with
  | [] => rfl
  | [a] => simp [fillOut, setOut]
  | [a, b] => simp [fillOut, setOut]
  | a :: b :: c :: R' => simp [fillOut, setOut, fillOut_three]

/-- the flat reader of the pure model, in terms of the reversed digits -/
theorem nextDeclet_rev (ds : List Nat) :
    nextDeclet ds = (fillOut (48, 48, 48) 0 ds.reverse, ds.take (ds.length - 3)) := by
  rw [fillOut_start]
  rcases Nat.lt_or_ge ds.length 3 with hlt | hge
  · match ds, hlt with
    | [], _ => rfl
    | [c0], _ => simp [nextDeclet]
    | [c1, c0], _ => simp [nextDeclet]
  · obtain ⟨pre, c2, c1, c0, rfl⟩ : ∃ pre c2 c1 c0, ds = pre ++ [c2, c1, c0] := by
      refine ⟨ds.take (ds.length - 3), ?_⟩
      have hl : (ds.drop (ds.length - 3)).length = 3 := by rw [List.length_drop]; omega
      match hd : ds.drop (ds.length - 3), hl with
      | [c2, c1, c0], _ => exact ⟨c2, c1, c0, by rw [← hd, List.take_append_drop]⟩
    simp [nextDeclet, List.getD_eq_getElem?_getD]

theorem take_append_sub (F c : List Nat) (k : Nat) (hk : c.length ≤ k) :
    (F ++ c).take ((F ++ c).length - k) = F.take (F.length - (k - c.length)) := by
  rw [List.length_append]
  have e : F.length + c.length - k = F.length - (k - c.length) := by omega
  rw [e, List.take_append_of_le_length (by omega)]

theorem last3_decomp (l : List Nat) (m : Nat) (h : l.length = m + 3) :
    l = l.take m ++ [l.getD m 0, l.getD (m + 1) 0, l.getD (m + 2) 0] := by
  have h1 : l = l.take m ++ l.drop m := (List.take_append_drop m l).symm
  have h2 : (l.drop m).length = 3 := by rw [List.length_drop]; omega
  match hd : l.drop m, h2 with
  | [x, y, z], _ =>
    have e0 : l.getD m 0 = x := by
      have := congrArg (fun t => t.getD 0 0) hd
      simpa [List.getD_eq_getElem?_getD] using this
    have e1 : l.getD (m + 1) 0 = y := by
      have := congrArg (fun t => t.getD 1 0) hd
      simpa [List.getD_eq_getElem?_getD] using this
    have e2 : l.getD (m + 2) 0 = z := by
      have := congrArg (fun t => t.getD 2 0) hd
      simpa [List.getD_eq_getElem?_getD] using this
    rw [e0, e1, e2]
    conv => lhs; rw [h1, hd]

/-- `next_ascii_declet_rev` on a stack without empty chunks is the flat reader of the pure model: no panic site is
    reached, the declet is the same, and the stack it leaves again has no empty chunk -/
theorem nextDecletC_spec (c : Bool) (st : List (List Nat)) (hne : NE st) (hs : st ≠ []) :
    ∃ st', nextDecletC c st = .ok (some (nextDeclet (flat st)).1, st') ∧ NE st' ∧
      flat st' = (nextDeclet (flat st)).2 := by
  cases st with
  | nil => exact absurd rfl hs
  | cons chunk rest =>
    have hc := hne.head
    rw [nextDeclet_rev, flat_cons]
    simp only [nextDecletC]
    by_cases h1 : chunk.length = 1
    · match chunk, h1 with
      | [x], _ =>
        obtain ⟨st', e1, e2, e3⟩ := declSlowC_spec rest (x, 48, 48) 1 hne.tail (by omega)
        refine ⟨st', ?_, e2, ?_⟩
        · simp only [List.length_singleton, if_true, List.getD_cons_zero]
          rw [e1]
          simp [fillOut, setOut]
        · rw [e3, take_append_sub _ _ _ (by simp)]; rfl
    by_cases h2 : chunk.length = 2
    · match chunk, h2 with
      | [y, x], _ =>
        obtain ⟨st', e1, e2, e3⟩ := declSlowC_spec rest (x, y, 48) 2 hne.tail (by omega)
        refine ⟨st', ?_, e2, ?_⟩
        · simp only [List.length_cons, List.length_nil]
          simp only [Nat.zero_add, Nat.reduceAdd, Nat.reduceEqDiff, if_false, if_true, List.getD_cons_zero, List.getD_cons_succ]
          rw [e1]
          simp [fillOut, setOut]
        · rw [e3, take_append_sub _ _ _ (by simp)]; rfl
    by_cases h3 : chunk.length = 3
    · match chunk, h3 with
      | [z, y, x], _ =>
        refine ⟨rest, ?_, hne.tail, ?_⟩
        · simp [fillOut, setOut, fillOut_three]
        · rw [take_append_sub _ _ _ (by simp)]; simp
    · have hlen : 0 < chunk.length := List.length_pos_iff.mpr hc
      obtain ⟨m, hm⟩ : ∃ m, chunk.length = m + 3 := ⟨chunk.length - 3, by omega⟩
      have hm1 : 1 ≤ m := by omega
      have hdec := last3_decomp chunk m hm
      have hpl : (chunk.take m).length = m := by rw [List.length_take]; omega
      simp only [h1, h2, h3, if_false]
      rw [dbg_pos (by omega), bind_ok, subUsize_ok (by omega), bind_ok, subUsize_ok (by omega), bind_ok,
        subUsize_ok (by omega), bind_ok, idx_ok (by omega), bind_ok, idx_ok (by omega), bind_ok, idx_ok (by omega), bind_ok,
        req_pos (by omega), bind_ok]
      have e1 : chunk.length - 1 = m + 2 := by omega
      have e2 : chunk.length - 2 = m + 1 := by omega
      have e3 : chunk.length - 3 = m := by omega
      rw [e1, e2, e3]
      generalize chunk.getD m 0 = z at hdec ⊢
      generalize chunk.getD (m + 1) 0 = y at hdec ⊢
      generalize chunk.getD (m + 2) 0 = x at hdec ⊢
      generalize chunk.take m = pre at hdec hpl ⊢
      subst hdec
      refine ⟨pre :: rest, ?_, ?_, ?_⟩
      · congr 2
        simp [fillOut, setOut, fillOut_three]
      · refine NE.cons ?_ hne.tail
        intro h
        rw [h] at hpl
        simp at hpl
        omega
      · rw [flat_cons, ← List.append_assoc, take_append_sub _ _ _ (by simp)]
        simp only [List.length_cons, List.length_nil, Nat.sub_self, Nat.sub_zero, List.length_append]
        rw [← List.length_append, List.take_length]


theorem encodeDeclets_len (k : Nat) (ds : List Nat) (bit : Nat) (b : Buf) : (encodeDeclets k ds bit b).1.len = b.len := by
  induction k generalizing ds bit b with
  | zero => rfl
  | succ k ih =>
    unfold encodeDeclets
    split
    · rfl
    · simp only []; rw [ih]; rfl

/-- the encoding loop: with no empty chunk, ASCII digits and room for `k` declets from `bit` on, no panic site is
    reached and the buffer is the pure model's -/
theorem encodeDecletsC_spec (c : Bool) (k : Nat) (st : List (List Nat)) (bit : Nat) (b : Buf) (hne : NE st)
    (hds : AsciiDigits (flat st)) (hroom : bit + 10 * k + 6 ≤ 8 * b.len) :
    ∃ st', encodeDecletsC c k st bit b = .ok ((encodeDeclets k (flat st) bit b).1, st') ∧ NE st' ∧
      flat st' = (encodeDeclets k (flat st) bit b).2 := by
  induction k generalizing st bit b with
  | zero => exact ⟨st, rfl, hne, rfl⟩
  | succ k ih =>
    by_cases hs : st = []
    · subst hs
      refine ⟨[], ?_, NE.nil, ?_⟩
      · simp [encodeDecletsC, nextDecletC, encodeDeclets, flat_nil]
      · simp [encodeDeclets, flat_nil]
    · have hfne := flat_ne_nil hne hs
      obtain ⟨st1, e1, e2, e3⟩ := nextDecletC_spec c st hne hs
      obtain ⟨x, y, z, _, _, _, h1, _, hrest, _⟩ := nextDeclet_spec (flat st) hds hfne
      have hds1 : AsciiDigits (flat st1) := by rw [e3, hrest]; exact asciiDigits_take hds _
      unfold encodeDecletsC encodeDeclets
      have hemp : (flat st).isEmpty = false := by simpa using hfne
      rw [e1, hemp]
      simp only [Bool.false_eq_true, if_false]
      have a0 : 48 ≤ (nextDeclet (flat st)).1.1 := by rw [h1]; simp
      have a1 : 48 ≤ (nextDeclet (flat st)).1.2.1 := by rw [h1]; simp
      have a2 : 48 ≤ (nextDeclet (flat st)).1.2.2 := by rw [h1]; simp
      rw [bcdOfAsciiC_eq c _ _ _ a0 a1 a2]
      simp only []
      rw [dpdOfBcdC_eq]
      simp only []
      rw [writeDpdC_eq _ _ _ (by omega)]
      simp only []
      obtain ⟨st2, f1, f2, f3⟩ := ih st1 (bit + 10)
        (writeDpd b (dpdOfBcd (bcdOfAscii (nextDeclet (flat st)).1.1 (nextDeclet (flat st)).1.2.1 (nextDeclet (flat st)).1.2.2)) bit)
        e2 hds1 (by rw [writeDpd_len]; omega)
      refine ⟨st2, ?_, f2, ?_⟩
      · rw [f1, e3]
      · rw [f3, e3]

theorem flat_head (st : List (List Nat)) (hne : NE st) (hs : st ≠ []) :
    0 < (st.getLast?.getD []).length ∧ (st.getLast?.getD []).getD 0 0 = (flat st).getD 0 0 := by
  induction st with
  | nil => exact absurd rfl hs
  | cons c rest ih =>
    by_cases hr : rest = []
    · subst hr
      have hc := hne.head
      simp [flat, List.length_pos_iff, hc]
    · obtain ⟨i1, i2⟩ := ih hne.tail hr
      have hfl := flat_ne_nil hne.tail hr
      have hgl : (c :: rest).getLast? = rest.getLast? := by
        cases rest with
        | nil => exact absurd rfl hr
        | cons d rest' => simp [List.getLast?_cons_cons]
      rw [hgl, flat_cons]
      refine ⟨i1, ?_⟩
      rw [i2]
      cases hf : flat rest with
      | nil => exact absurd hf hfl
      | cons a t => simp

/-- **`encode_significand_trailing_digits`**: for a buffer of `4n` bytes (`n ≥ 1`) and chunks that are non-empty and
    made of ASCII digits, no panic site is reached in either profile and the result is the pure model's on the
    concatenated digits -/
theorem encodeSignificandC_eq (c : Bool) (b : Buf) (n : Nat) (hn : 0 < n) (hl : b.len = 4 * n)
    (chunks : List (List Nat)) (hne : ∀ ch ∈ chunks, ch ≠ []) (hds : AsciiDigits chunks.flatten) :
    encodeSignificandC c b chunks = .ok (encodeSignificand b chunks.flatten) := by
  unfold encodeSignificandC encodeSignificand
  have htd := trailingDigits_of_len b n hl
  rw [trailingDigitsC_eq c b n hn hl, bind_ok, dbg_pos (by rw [htd]; omega), bind_ok]
  have hk : (b.trailingDigits + 2) / 3 = b.trailingDigits / 3 := by rw [htd]; omega
  have hne' : NE chunks.reverse := fun x hx => hne x (List.mem_reverse.1 hx)
  obtain ⟨st', e1, e2, e3⟩ := encodeDecletsC_spec c (b.trailingDigits / 3) chunks.reverse 0 b hne'
    (by rw [flat_reverse]; exact hds) (by rw [htd, hl]; omega)
  rw [hk, e1, bind_ok, flat_reverse] at *
  simp only []
  by_cases hs : st' = []
  · subst hs
    rw [flat_nil] at e3
    simp [← e3]
  · have hfl := flat_ne_nil e2 hs
    obtain ⟨g1, g2⟩ := flat_head st' e2 hs
    have hemp : st'.isEmpty = false := by simpa using hs
    have hemp2 : (encodeDeclets (b.trailingDigits / 3) chunks.flatten 0 b).2.isEmpty = false := by
      rw [← e3]; simpa using hfl
    rw [hemp, hemp2]
    simp only [Bool.false_eq_true, if_false]
    rw [idx_ok g1, bind_ok, g2, e3, encodeDeclets_rest]
    -- the first unread digit is the first digit of the text
    have hpre : (chunks.flatten.take (chunks.flatten.length - 3 * (b.trailingDigits / 3))) ≠ [] := by
      rw [← encodeDeclets_rest _ _ 0 b, ← e3]; exact hfl
    have hd0 : (chunks.flatten.take (chunks.flatten.length - 3 * (b.trailingDigits / 3))).getD 0 0 = chunks.flatten.getD 0 48 := by
      generalize chunks.flatten.length - 3 * (b.trailingDigits / 3) = m at hpre ⊢
      cases hcf : chunks.flatten with
      | nil => rw [hcf] at hpre; simp at hpre
      | cons a t =>
        cases m with
        | zero => rw [hcf] at hpre; simp at hpre
        | succ m => simp
    rw [hd0]
    have h48 : 48 ≤ chunks.flatten.getD 0 48 := by
      cases hcf : chunks.flatten with
      | nil => simp
      | cons a t => simp; exact (hds a (by rw [hcf]; simp)).1
    rw [asciiToBcdC_eq c _ h48, bind_ok]

/-! ## `encode_significand_trailing_digits_repeat` -/

theorem repeat_go_len (d : Nat) (k bit : Nat) (b : Buf) : (encodeSignificandRepeat.go d k bit b).len = b.len := by
  induction k generalizing bit b with
  | zero => rfl
  | succ k ih => unfold encodeSignificandRepeat.go; rw [ih]; rfl

theorem encodeRepeatGoC_eq (c : Bool) (d : Nat) (hd : 48 ≤ d) (k bit : Nat) (b : Buf) (hroom : bit + 10 * k + 6 ≤ 8 * b.len) :
    encodeRepeatGoC c d k bit b = .ok (encodeSignificandRepeat.go d k bit b) := by
  induction k generalizing bit b with
  | zero => rfl
  | succ k ih =>
    unfold encodeRepeatGoC encodeSignificandRepeat.go
    rw [bcdOfAsciiC_eq c _ _ _ hd hd hd]
    simp only []
    rw [dpdOfBcdC_eq]
    simp only []
    rw [writeDpdC_eq _ _ _ (by omega)]
    simp only []
    exact ih (bit + 10) _ (by rw [writeDpd_len]; omega)

theorem encodeSignificandRepeatC_eq (c : Bool) (b : Buf) (n : Nat) (hn : 0 < n) (hl : b.len = 4 * n) (d : Nat) (hd : 48 ≤ d) :
    encodeSignificandRepeatC c b d = .ok (encodeSignificandRepeat b d) := by
  unfold encodeSignificandRepeatC encodeSignificandRepeat
  have htd := trailingDigits_of_len b n hl
  rw [trailingDigitsC_eq c b n hn hl, bind_ok, dbg_pos (by rw [htd]; omega), bind_ok]
  have hk : (b.trailingDigits + 2) / 3 = b.trailingDigits / 3 := by rw [htd]; omega
  rw [hk, encodeRepeatGoC_eq c d hd _ 0 b (by rw [htd, hl]; omega), bind_ok, asciiToBcdC_eq c d hd, bind_ok]

/-! ## decoding -/

theorem readDpdC_eq (b : Buf) (bit : Nat) (h : bit / 8 + 1 < b.len) : readDpdC b bit = .ok (readDpd b bit) := by
  unfold readDpdC readDpd
  rw [getC_ok (by omega), bind_ok, getC_ok h, bind_ok]

theorem and_mask10 (x m : Nat) (hm : 1023 &&& m = m) : x &&& m = (x % 1024) &&& m := by
  have : x % 1024 = x &&& 1023 := (Nat.and_two_pow_sub_one_eq_mod x 10).symm
  rw [this, Nat.and_assoc, hm]

theorem guard_table : ∀ y < 1024, (y &&& 8 = 0 ∨ y &&& 14 = 8 ∨ y &&& 14 = 10 ∨ y &&& 14 = 12 ∨
     y &&& 110 = 14 ∨ y &&& 110 = 78 ∨ y &&& 110 = 46 ∨ y &&& 110 = 110) := by decide +kernel

/-- the `unreachable!()` arm of `decode_dpd_declet_to_bcd` is unreachable for every `u16` -/
theorem bcdOfDpdC_eq (dpd : Nat) : bcdOfDpdC dpd = .ok (bcdOfDpd dpd) := by
  unfold bcdOfDpdC
  have h := guard_table (dpd % 1024) (Nat.mod_lt _ (by decide))
  rw [← and_mask10 dpd 8 (by decide), ← and_mask10 dpd 14 (by decide), ← and_mask10 dpd 110 (by decide)] at h
  simp only [h, if_true]

theorem nibble_le (x m s : Nat) (hm : m < 16 * 2 ^ s) : (x &&& m) >>> s ≤ 15 := by
  have h1 : x &&& m ≤ m := Nat.and_le_right
  rw [Nat.shiftRight_eq_div_pow]
  have : (x &&& m) / 2 ^ s < 16 := by
    apply Nat.div_lt_of_lt_mul
    rw [Nat.mul_comm]; omega
  omega

/-- `bcd + b'0'` never overflows a `u8`: a BCD nibble is at most 15 -/
theorem asciiOfBcdC_eq (c : Bool) (bcd : Nat) : asciiOfBcdC c bcd = .ok (asciiOfBcd bcd) := by
  unfold asciiOfBcdC asciiOfBcd bcdToAsciiC
  have h2 := nibble_le bcd 0xF00 8 (by decide)
  have h1 := nibble_le bcd 0x0F0 4 (by decide)
  have h0 : bcd &&& 0x00F ≤ 15 := Nat.and_le_right
  rw [addU8_ok (by omega), bind_ok, addU8_ok (by omega), bind_ok, addU8_ok (by omega), bind_ok]

theorem decodeDecletsGoC_eq (c : Bool) (b : Buf) (k : Nat) (hk : 10 * k + 6 ≤ 8 * b.len) :
    decodeDecletsGoC c b k (10 * k) = .ok (decodeDeclets.go b k (10 * k)) := by
  induction k with
  | zero => rfl
  | succ k ih =>
    unfold decodeDecletsGoC decodeDeclets.go
    have e : 10 * (k + 1) - 10 = 10 * k := by omega
    rw [if_neg (by omega), subUsize_ok (by omega)]
    simp only []
    rw [e, readDpdC_eq _ _ (by omega)]
    simp only []
    rw [bcdOfDpdC_eq]
    simp only []
    rw [asciiOfBcdC_eq]
    simp only []
    rw [ih (by omega)]

/-- **`decode_significand_trailing_declets`**: for every buffer of `4n` bytes, whatever its contents -/
theorem decodeDecletsC_eq (c : Bool) (b : Buf) (n : Nat) (hn : 0 < n) (hl : b.len = 4 * n) :
    decodeDecletsC c b = .ok (decodeDeclets b) := by
  unfold decodeDecletsC decodeDeclets
  have htb := trailingBits_of_len b n hl
  rw [trailingBitsC_eq c b n hn hl, bind_ok]
  have e1 : (b.trailingBits + 9) / 10 = 3 * n - 1 := by rw [htb]; omega
  have e2 : b.trailingBits / 10 = 3 * n - 1 := by rw [htb]; omega
  have e3 : b.trailingBits = 10 * (3 * n - 1) := by rw [htb]; omega
  rw [e1, e2, e3]
  exact decodeDecletsGoC_eq c b (3 * n - 1) (by rw [hl]; omega)

end Decstr.Proofs.Exec

#print axioms Decstr.Proofs.Exec.encodeSignificandC_eq
#print axioms Decstr.Proofs.Exec.encodeSignificandRepeatC_eq
#print axioms Decstr.Proofs.Exec.decodeDecletsC_eq
