import Decstr.Proofs.ExecApi3
import Decstr.Proofs.SpecLemmas
/-!
# Proofs.ExecClosure — every decimal the library itself produces is a well-formed buffer its type can hold

The fields of the public types are private: a value is made by `from_le_bytes` (an array of the right length),
`try_from_le_bytes` (length-tested), a parse, a conversion from an integer or a binary float, or is one of the constants.
`Props/C05x.lean` proves the operations safe on every well-formed buffer the type can hold (`Arg`); here: the producers
only produce such buffers, so the safety of one operation carries over to any sequence of operations.
-/
namespace Decstr.Proofs.Exec
open Decstr.Model Decstr.Model.Exec Decstr.Spec Decstr.Proofs Decstr.Proofs.EncodeAux

/-- a well-formed buffer of a width the type `T` can hold -/
def Held (T : Ty) (b : Buf) : Prop := ∃ n, WF b n ∧ (T.expIsI32 = true → n ≤ 5)

theorem encodeFinite_held (T : Ty) (neg : Bool) (ds : List Nat) (hds : AsciiDigits ds) (hne : ds ≠ []) (exp : Int) (b : Buf)
    (h : encodeFinite T neg ds exp = .ok b) : Held T b := by
  have hd : 0 < ds.length := List.length_pos_iff.mpr hne
  unfold encodeFinite at h
  have halloc := Decstr.Props.C07.C07_alloc T ds.length hd (some exp)
  cases hr : T.withPrecision ds.length (some exp) with
  | error e => rw [hr] at h; cases h
  | ok b0 =>
    rw [hr] at h halloc
    obtain ⟨n, hb0, hn, hfit, hcapn, _⟩ := halloc
    subst hb0
    simp only [Fmt.fitsB, Bool.and_eq_true, decide_eq_true_eq] at hfit
    obtain ⟨hlen, hq1, hq2⟩ := hfit
    simp only [] at h
    injection h with h
    have hl : (encodeSignificand (Buf.zero (4 * n)) ds).1.len = 4 * n := encodeSignificand_len _ _
    rw [widthBits_of_len _ n hl, precision_of_len _ n hl] at h
    rw [← h]
    exact ⟨n, encode_finite_WF n hn neg ds hds hne hlen exp ⟨hq1, hq2⟩, le5_of_cap T n hcapn⟩

theorem withAtLeastBytes4_zero (T : Ty) : ∃ n, 0 < n ∧ n ≤ 5 ∧ T.withAtLeastBytes 4 = .ok (Buf.zero (4 * n)) := by
  cases T
  · exact ⟨1, by decide, by decide, rfl⟩
  · exact ⟨2, by decide, by decide, rfl⟩
  · exact ⟨4, by decide, by decide, rfl⟩
  · exact ⟨1, by decide, by decide, rfl⟩
  · exact ⟨1, by decide, by decide, rfl⟩

/-- what `decimal_from_parsed` returns is a well-formed buffer the type can hold -/
theorem fromParsed_held (T : Ty) (p : Parsed) (hp : ParsedOK p) (b : Buf) (h : fromParsed T p = .ok b) : Held T b := by
  cases p with
  | infinity neg =>
    obtain ⟨n, hn, hn5, hw⟩ := withAtLeastBytes4_zero T
    simp only [fromParsed, hw] at h
    injection h with h
    rw [← h, encodeInfinity_spec n hn neg]
    exact ⟨n, ⟨hn, rfl, (decode_encodeInf n hn neg).2⟩, fun _ => hn5⟩
  | nan nn =>
    obtain ⟨tb, signaling, neg, payload⟩ := nn
    simp only [fromParsed] at h
    cases hf : payload.filter (fun s => decide (s.range.stop > s.range.start)) with
    | none =>
      rw [hf] at h
      obtain ⟨n, hn, hn5, hw⟩ := withAtLeastBytes4_zero T
      simp only [hw] at h
      injection h with h
      rw [← h, encodeNan_nopayload n hn neg signaling]
      exact ⟨n, ⟨hn, rfl, (decode_encodeNan n hn neg signaling 0 (Nat.pow_pos (by decide))).2⟩, fun _ => hn5⟩
    | some s =>
      rw [hf] at h
      obtain ⟨hs1, hs2⟩ := Option.filter_eq_some_iff.1 hf
      have hgt : s.range.stop > s.range.start := by simpa using hs2
      obtain ⟨h1, h2, h3⟩ : DigitsNE tb.ascii s.range := hp s hs1 hgt
      have hne := DigitsNE.slice_ne ⟨h1, h2, h3⟩
      simp only [] at h
      have halloc := Decstr.Props.C07.C07_alloc T ((slice tb.ascii s.range).length + 1) (by omega) none
      cases hr : T.withPrecision ((slice tb.ascii s.range).length + 1) none with
      | error e => rw [hr] at h; cases h
      | ok b0 =>
        rw [hr] at h halloc
        obtain ⟨n, hb0, hn, hfit, hcapn, _⟩ := halloc
        subst hb0
        have hlen : (slice tb.ascii s.range).length + 1 ≤ 9 * n - 2 := by
          have := hfit
          simp only [Fmt.fitsB, Fmt.p, Bool.and_true] at this
          exact of_decide_eq_true this
        simp only [] at h
        injection h with h
        rw [← h, encodeNan_spec n hn neg signaling _ h3 hne hlen]
        refine ⟨n, ⟨hn, rfl, (decode_encodeNan n hn neg signaling _ ?_).2⟩, le5_of_cap T n hcapn⟩
        simp only [Fmt.declets]
        rw [pow1000]
        exact Nat.lt_of_lt_of_le (Decstr.Proofs.EncodeAux.valOf_lt _ h3) (Nat.pow_le_pow_right (by decide) (by omega))
  | finite f =>
    obtain ⟨tb, sig, ex⟩ := f
    obtain ⟨hsig, hex⟩ := hp
    simp only at hsig hex
    simp only [fromParsed] at h
    split at h
    · cases h
    · rename_i e0 _
      cases hpt : sig.point with
      | none =>
        rw [hpt] at hsig h
        simp only [] at h
        exact encodeFinite_held T _ _ hsig.2.2 (DigitsNE.slice_ne hsig) _ b h
      | some pt =>
        rw [hpt] at hsig h
        simp only [] at h
        obtain ⟨g, k⟩ := hsig
        refine encodeFinite_held T _ _ ?_ ?_ _ b h
        · intro x hx
          rcases List.mem_append.1 hx with hx | hx
          · exact g.2.2 x hx
          · exact k.2.2 x hx
        · intro he
          exact DigitsNE.slice_ne g (List.append_eq_nil_iff.1 he).1

/-- **closure.** `try_parse_str`, `try_parse`, `from_<int>`, `from_f32/f64` and `try_from_le_bytes` only produce
    well-formed buffers their type can hold -/
theorem tryParseStr_held (T : Ty) (input : List Nat) (b : Buf) (h : tryParseStr T input = .ok b) : Held T b := by
  unfold tryParseStr at h
  cases hp : parseStr input with
  | error e => rw [hp] at h; cases h
  | ok p =>
    rw [hp] at h
    simp only [] at h
    cases hf : fromParsed T p with
    | error e => rw [hf] at h; cases h
    | ok b' =>
      rw [hf] at h
      injection h with h
      subst h
      exact fromParsed_held T p (parseStr_parsedOK input p hp) _ hf

theorem tryParse_held (T : Ty) (frags : List (List Nat)) (fault : Fault) (b : Buf)
    (h : tryParse T frags fault = .ok b) : Held T b := by
  unfold tryParse at h
  cases hp : parseFmt T.textKind frags fault with
  | error e => rw [hp] at h; cases h
  | ok p =>
    rw [hp] at h
    simp only [] at h
    cases hf : fromParsed T p with
    | error e => rw [hf] at h; cases h
    | ok b' =>
      rw [hf] at h
      injection h with h
      subst h
      exact fromParsed_held T p (parseFmt_parsedOK T.textKind (textKind_ok T).1 frags fault p hp) _ hf

theorem fromText_held (T : Ty) (inf : Bool) (text : List Nat) (hstart : startsWithDigitOrMinusDigit text = true) (b : Buf)
    (h : fromText T inf text = .ok b) : Held T b := by
  unfold fromText at h
  have hps := parseFiniteStr_eq_parseStr text hstart
  cases hp : parseFiniteStr text with
  | error e => rw [hp] at h; cases h
  | ok p =>
    rw [hp] at h
    simp only [] at h
    cases hf : fromParsed T p with
    | error e => rw [hf] at h; simp only [] at h; split at h <;> cases h
    | ok b' =>
      rw [hf] at h
      injection h with h
      subst h
      exact fromParsed_held T p (parseStr_parsedOK text p (by rw [← hps]; exact hp)) _ hf

theorem fromInt_held (T : Ty) (I : IntTy) (v : Int) (b : Buf) (h : fromInt T I v = .ok b) : Held T b :=
  fromText_held T _ _ (Decstr.Props.C10.starts v) b h

theorem fromFloat_held (T : Ty) (B : BinFmt) (bits : Nat) (ryu : List Nat)
    (hstart : startsWithDigitOrMinusDigit ryu = true) (b : Buf) (h : fromFloat T B bits ryu = .ok b) : Held T b := by
  unfold fromFloat at h
  simp only [] at h
  split at h
  · cases hf : fromParsed T (.nan ⟨TextBuf.new (.array scratchCap) [], false, decide (bits ≥ B.signMask), none⟩) with
    | error e => rw [hf] at h; simp only [] at h; split at h <;> cases h
    | ok b' =>
      rw [hf] at h
      injection h with h
      subst h
      exact fromParsed_held T _ (by intro s hs; cases hs) _ hf
  · split at h
    · cases hf : fromParsed T (.infinity (decide (bits ≥ B.signMask))) with
      | error e => rw [hf] at h; simp only [] at h; split at h <;> cases h
      | ok b' =>
        rw [hf] at h
        injection h with h
        subst h
        exact fromParsed_held T (.infinity (decide (bits ≥ B.signMask))) trivial _ hf
    · exact fromText_held T _ ryu hstart b h

theorem tryFromLeBytes_held (T : Ty) (bytes : List Nat) (hb : ∀ x ∈ bytes, x < 256) (b : Buf)
    (h : tryFromLeBytes T bytes = .ok b) : Held T b := by
  obtain ⟨n, hwf, _, hT⟩ := tryFromLeBytes_wf T bytes hb b h
  exact ⟨n, hwf, hT⟩

/-- the operations on a decimal, for any `Held` value (in particular any value the library produced) -/
theorem held_ops (T : Ty) (c : Bool) (b : Buf) (h : Held T b) :
    classifyC c b = .ok (classify b) ∧
    (∀ I, toIntC T c b I = .ok (toInt T b I)) ∧
    (∀ B, toFloatC T c b B = .ok (toFloat b B)) ∧
    (9 * b.len ≤ 8589934588 → toTextC T c b = .ok (toText T b)) := by
  obtain ⟨n, hwf, hT⟩ := h
  refine ⟨classifyC_eq c b (by rw [hwf.len]; have := hwf.pos; omega), fun I => toIntC_eq T c b n hwf hT I,
    fun B => toFloatC_eq T c b n hwf hT B, fun hsz => toTextC_eq T c b n hwf hT (by rw [hwf.len] at hsz; omega)⟩

end Decstr.Proofs.Exec

#print axioms Decstr.Proofs.Exec.fromParsed_held
#print axioms Decstr.Proofs.Exec.tryParseStr_held
#print axioms Decstr.Proofs.Exec.tryParse_held
#print axioms Decstr.Proofs.Exec.fromInt_held
#print axioms Decstr.Proofs.Exec.fromFloat_held
#print axioms Decstr.Proofs.Exec.held_ops
