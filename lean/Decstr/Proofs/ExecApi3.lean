import Decstr.Proofs.ExecApi2
/-!
# Proofs.ExecApi3 — integer / binary float → decimal, `encode_max` / `encode_min`
-/
namespace Decstr.Proofs.Exec
open Decstr.Model Decstr.Model.Exec Decstr.Spec Decstr.Proofs Decstr.Proofs.EncodeAux

/-! ## text produced by `itoa` / `ryu` → decimal -/

/-- the codec under `decimal_from_int` / `decimal_from_binary_float`: for a text that starts with a digit (or `-` and a
    digit), the only panics left are the two `expect`s of the API layer, which the pure model reports as `.panic` -/
theorem fromTextC_eq (T : Ty) (c : Bool) (inf : Bool) (text : List Nat) (hstart : startsWithDigitOrMinusDigit text = true)
    (hnp : fromText T inf text ≠ .panic) : fromTextC T c inf text = .ok (fromText T inf text).opt := by
  unfold fromTextC fromText at *
  rw [parseFiniteStrC_eq, bind_ok]
  have hps := parseFiniteStr_eq_parseStr text hstart
  cases hp : parseFiniteStr text with
  | error e => rw [hp] at hnp; exact absurd rfl hnp
  | ok p =>
    rw [hp] at hnp
    simp only [] at hnp ⊢
    rw [fromParsedC_eq T c p (parseStr_parsedOK text p (by rw [← hps]; exact hp)), bind_ok]
    cases hf : fromParsed T p with
    | ok b => rfl
    | error e =>
      rw [hf] at hnp
      simp only [] at hnp ⊢
      cases inf with
      | true => exact absurd rfl hnp
      | false => rfl

/-- **`from_i8 … from_u128`** (both the `From` and the `try_from` flavours): no panic for any value of the integer type -/
theorem fromIntC_eq (T : Ty) (c : Bool) (I : IntTy) (hI : I.bits = 8 ∨ I.bits = 16 ∨ I.bits = 32 ∨ I.bits = 64 ∨ I.bits = 128)
    (v : Int) (hv : I.contains v = true) : fromIntC T c I v = .ok (fromInt T I v).opt :=
  fromTextC_eq T c _ _ (Decstr.Props.C10.starts v) (Decstr.Props.C05.C05_from_int T I hI v hv)

/-- **`from_f32` / `from_f64`**: every site of the codec is unreachable; what remains is the `expect` of the conversions
    offered as infallible, i.e. that the pure model does not answer `.panic` (property C12).  `ryu` is the formatter's
    output for a finite float: it starts with a digit, or `-` and a digit. -/
theorem fromFloatC_eq (T : Ty) (c : Bool) (B : BinFmt) (bits : Nat) (ryu : List Nat)
    (hstart : startsWithDigitOrMinusDigit ryu = true) (hnp : fromFloat T B bits ryu ≠ .panic) :
    fromFloatC T c B bits ryu = .ok (fromFloat T B bits ryu).opt := by
  unfold fromFloatC fromFloat at *
  simp only [] at hnp ⊢
  by_cases hnan : B.isNan bits = true
  · simp only [hnan, if_true] at hnp ⊢
    rw [fromParsedC_eq T c _ (by intro s hs; cases hs)]
    cases hf : fromParsed T (.nan ⟨TextBuf.new (.array scratchCap) [], false, decide (bits ≥ B.signMask), none⟩) with
    | ok b => rfl
    | error e =>
      rw [hf] at hnp
      simp only [] at hnp ⊢
      cases hi : T.floatInfallible B with
      | true => rw [hi] at hnp; exact absurd rfl hnp
      | false => rfl
  · simp only [hnan, Bool.false_eq_true, if_false] at hnp ⊢
    by_cases hinf : B.isInf bits = true
    · simp only [hinf, if_true] at hnp ⊢
      rw [fromParsedC_eq T c (.infinity (decide (bits ≥ B.signMask))) trivial]
      cases hf : fromParsed T (.infinity (decide (bits ≥ B.signMask))) with
      | ok b => rfl
      | error e =>
        rw [hf] at hnp
        simp only [] at hnp ⊢
        cases hi : T.floatInfallible B with
        | true => rw [hi] at hnp; exact absurd rfl hnp
        | false => rfl
    · simp only [hinf, Bool.false_eq_true, if_false] at hnp ⊢
      exact fromTextC_eq T c _ ryu hstart hnp

/-! ## `encode_max` / `encode_min` -/

theorem satI32_small (x : Int) (h1 : -100000 ≤ x) (h2 : x ≤ 100000) : satI32 x = x := by
  unfold satI32 i32Min i32Max
  rw [if_neg (by omega), if_neg (by omega)]

theorem emax_small (n : Nat) (hn5 : n ≤ 5) : 0 < emaxOf (32 * n) ∧ emaxOf (32 * n) ≤ 24576 := by
  unfold emaxOf
  have e : 32 * n / 16 + 3 = 2 * n + 3 := by omega
  rw [e]
  have h1 := pow_le_13 (2 * n + 3) (by omega)
  have h0 := pow_pos_int (2 * n + 3)
  constructor <;> omega

theorem pow24 (n : Nat) : (3 : Int) * 2 ^ (2 * n + 4) = 2 * (3 * 2 ^ (2 * n + 3)) := by
  have : (2 : Int) ^ (2 * n + 4) = 2 * 2 ^ (2 * n + 3) := by rw [pow_succ]; ring
  rw [this]; ring

/-- **`encode_max`** (the `MAX`/`MIN` constants are its outputs) -/
theorem encodeMaxC_eq (r : ExpRep) (c : Bool) (n : Nat) (hn : 0 < n) (hr : r.isI32 = true → n ≤ 5) (neg : Bool) :
    encodeMaxC r c (4 * n) neg = .ok (encodeMax (4 * n) neg) := by
  have hl : (Buf.zero (4 * n)).len = 4 * n := rfl
  have hw := widthBits_of_len _ n hl
  have hp := precision_of_len _ n hl
  unfold encodeMaxC encodeMax
  simp only []
  rw [precisionC_eq c _ n hn hl, bind_ok, subUsize_ok (by rw [hp]; omega), bind_ok, hw, emaxC_eq r c n hr, bind_ok,
    encodeSignificandRepeatC_eq c _ n hn hl 57 (by decide), bind_ok]
  have hmsd : (encodeSignificandRepeat (Buf.zero (4 * n)) 57).2 = 9 := rfl
  have hl1 : (encodeSignificandRepeat (Buf.zero (4 * n)) 57).1.len = 4 * n := repeat_go_len _ _ _ _
  rw [hmsd, bcdToAsciiC_eq c 9 (by omega), bind_ok, dbg_pos (by decide), bind_ok]
  have hexp : (if r.isI32 = true then satI32 (emaxOf (32 * n) - ↑((Buf.zero (4 * n)).precision - 1))
      else emaxOf (32 * n) - ↑((Buf.zero (4 * n)).precision - 1)) = emaxOf (32 * n) - ↑((Buf.zero (4 * n)).precision - 1) := by
    cases hi : r.isI32 with
    | false => simp
    | true =>
      have hn5 := hr hi
      have := emax_small n hn5
      simp only [if_true]
      rw [hp]
      exact satI32_small _ (by omega) (by omega)
  rw [hexp]
  have hw1 := widthBits_of_len _ n hl1
  have hp1 := precision_of_len _ n hl1
  have hb : biasOf (32 * n) (9 * n - 2) + (emaxOf (32 * n) - ↑((Buf.zero (4 * n)).precision - 1)) = 2 * emaxOf (32 * n) - 1 := by
    rw [hp]; unfold biasOf; omega
  have hrange : 0 ≤ 2 * emaxOf (32 * n) - 1 ∧ 2 * emaxOf (32 * n) - 1 < 3 * 2 ^ (2 * n + 4) := by
    rw [pow24]
    unfold emaxOf
    have e : 32 * n / 16 + 3 = 2 * n + 3 := by omega
    rw [e]
    have h0 := pow_pos_int (2 * n + 3)
    constructor <;> omega
  rw [encodeCombinationFiniteC_eq r c _ n hn hl1 hr neg _ 9 (by rw [hw1, hp1, hb]; exact hrange.1)
    (by rw [hw1, hp1, hb]; exact hrange.2)]

/-- **`encode_min`** (the `MIN_POSITIVE` constants are its outputs) -/
theorem encodeMinC_eq (r : ExpRep) (c : Bool) (n : Nat) (hn : 0 < n) (hr : r.isI32 = true → n ≤ 5) (neg : Bool) :
    encodeMinC r c (4 * n) neg = .ok (encodeMin (4 * n) neg) := by
  have hl : (Buf.zero (4 * n)).len = 4 * n := rfl
  have hw := widthBits_of_len _ n hl
  have hp := precision_of_len _ n hl
  unfold encodeMinC encodeMin
  simp only []
  rw [precisionC_eq c _ n hn hl, bind_ok, hw, emaxC_eq r c n hr, bind_ok]
  have hsub : subE r c "exponent.rs:181 1 - emax" 1 (emaxOf (32 * n)) = .ok (1 - emaxOf (32 * n)) := by
    unfold subE
    cases hi : r.isI32 with
    | false => simp
    | true =>
      have := emax_small n (hr hi)
      simp only [if_true]
      exact resI32_ok (by unfold i32Min; omega) (by unfold i32Max; omega)
  rw [hsub, bind_ok,
    encodeSignificandC_eq c _ n hn hl [[49]] (by intro ch hch; simp at hch; subst hch; simp) (by
      intro d hd; simp at hd; subst hd; exact ⟨by decide, by decide⟩), bind_ok]
  simp only [List.flatten_cons, List.flatten_nil, List.append_nil]
  have hl1 : (encodeSignificand (Buf.zero (4 * n)) [49]).1.len = 4 * n := encodeSignificand_len _ _
  have hexp : (if r.isI32 = true then
        satI32 ((if r.isI32 = true then satI32 (1 - emaxOf (32 * n) + 1) else 1 - emaxOf (32 * n) + 1) - ↑(Buf.zero (4 * n)).precision)
      else (if r.isI32 = true then satI32 (1 - emaxOf (32 * n) + 1) else 1 - emaxOf (32 * n) + 1) - ↑(Buf.zero (4 * n)).precision)
      = 1 - emaxOf (32 * n) + 1 - ↑(Buf.zero (4 * n)).precision := by
    cases hi : r.isI32 with
    | false => simp
    | true =>
      have hn5 := hr hi
      have := emax_small n hn5
      simp only [if_true]
      rw [hp, satI32_small (1 - emaxOf (32 * n) + 1) (by omega) (by omega), satI32_small _ (by omega) (by omega)]
  rw [hexp]
  have hw1 := widthBits_of_len _ n hl1
  have hp1 := precision_of_len _ n hl1
  have hb : biasOf (32 * n) (9 * n - 2) + (1 - emaxOf (32 * n) + 1 - ↑(Buf.zero (4 * n)).precision) = 0 := by
    rw [hp]; unfold biasOf; omega
  have hpos : (0 : Int) < 3 * 2 ^ (2 * n + 4) := by
    have := pow_pos_int (2 * n + 4); omega
  rw [encodeCombinationFiniteC_eq r c _ n hn hl1 hr neg _ _ (by rw [hw1, hp1, hb]) (by rw [hw1, hp1, hb]; exact hpos)]

end Decstr.Proofs.Exec

#print axioms Decstr.Proofs.Exec.fromIntC_eq
#print axioms Decstr.Proofs.Exec.fromFloatC_eq
#print axioms Decstr.Proofs.Exec.encodeMaxC_eq
#print axioms Decstr.Proofs.Exec.encodeMinC_eq
