import Decstr.Model.ExecConvert
import Decstr.Proofs.ExecSig
import Decstr.Proofs.ExecComb
import Decstr.Props.C02
/-!
# Proofs.ExecFmt — `decimal_to_fmt`: no panic site is reachable for any well-formed buffer, in either profile
-/
namespace Decstr.Proofs.Exec
open Decstr.Model Decstr.Model.Exec Decstr.Spec Decstr.Proofs

/-! ## `write_decimal_digits` and the loop around it -/

theorem writeDecimalDigitsC_eq (c : Bool) (d : List Nat) (total written : Nat) (h : written ≤ total) :
    writeDecimalDigitsC c d total written = .ok (writeDecimalDigits d total written) := by
  unfold writeDecimalDigitsC writeDecimalDigits
  by_cases h1 : written + d.length ≤ total
  · simp only [if_pos h1]
  · by_cases h2 : written = total
    · simp only [if_neg h1, if_pos h2]
    · simp only [if_neg h1, if_neg h2]
      rw [subUsize_ok h, bind_ok, req_pos (by omega), bind_ok]

theorem writeWithPointC_true (c : Bool) (total : Nat) (groups : List (List Nat)) (w : Nat) :
    writeWithPointC c total groups w true = .ok (writeWithPoint total groups w true) := by
  induction groups generalizing w with
  | nil => rfl
  | cons d rest ih =>
    unfold writeWithPointC writeWithPoint
    simp only [if_true]
    rw [ih]

/-- the `expect("ran out of digits before the decimal point")` is unreachable when there are more digits than
    integer digits to write -/
theorem writeWithPointC_false (c : Bool) (total : Nat) (groups : List (List Nat)) (w : Nat) (hw : w ≤ total)
    (hlt : total < w + groups.flatten.length) :
    writeWithPointC c total groups w false = .ok (writeWithPoint total groups w false) := by
  induction groups generalizing w with
  | nil => simp at hlt; omega
  | cons d rest ih =>
    unfold writeWithPointC writeWithPoint
    simp only [Bool.false_eq_true, if_false]
    rw [writeDecimalDigitsC_eq c d total w hw]
    simp only [List.flatten_cons, List.length_append] at hlt
    unfold writeDecimalDigits
    by_cases h1 : w + d.length ≤ total
    · simp only [if_pos h1]
      rw [ih (w + d.length) h1 (by omega)]
    · by_cases h2 : w = total
      · simp only [if_neg h1, if_pos h2]
        rw [writeWithPointC_true]
      · simp only [if_neg h1, if_neg h2]
        rw [writeWithPointC_true]

theorem writeAllAsScientificC_eq (T : Ty) (c : Bool) (lz : LeadingZeroes) (declets : List (List Nat)) (exponent : Int) :
    writeAllAsScientificC T c lz declets exponent = .ok (writeAllAsScientific T lz declets exponent) := by
  unfold writeAllAsScientificC writeAllAsScientific
  cases hp : lz.partialDeclet with
  | none => simp only [bind_ok]
  | some ds =>
    simp only []
    rw [writeDecimalDigitsC_eq c ds 1 0 (by omega)]
    simp only []
    generalize writeDecimalDigits ds 1 0 = r
    obtain ⟨o, w, wp⟩ := r
    simp only []
    cases wp with
    | true => simp only [if_true, bind_ok]
    | false =>
      simp only [Bool.false_eq_true, if_false]
      cases declets with
      | nil => simp only [bind_ok]
      | cons d rest => simp only [bind_ok]


/-! ## the finite arm -/

/-- the finite arm of `decimal_to_fmt` on the digits of a width-`32n` decimal.  `hexp`: for the `i32` exponent types
    the exponent is an `i32`; `hsz`: the digit count fits an `i32` (`usize → i32` conversion at convert.rs:259). -/
theorem fmtFiniteC_eq (T : Ty) (c : Bool) (n msd : Nat) (declets : List (List Nat)) (h : DigitsOK n msd declets)
    (exponent : Int) (hexp : T.expIsI32 = true → i32Min ≤ exponent ∧ exponent ≤ i32Max) (hsz : 9 * n ≤ 2147483647) :
    fmtFiniteC T c (9 * n - 2) msd declets exponent = .ok (fmtFinite T (9 * n - 2) msd declets exponent) := by
  have hn := h.pos
  have hsk := skip_spec n msd declets h
  unfold fmtFiniteC fmtFinite
  generalize hS : (msd :: declets.flatten).dropWhile (· == 48) = S at hsk
  generalize skipLeadingZeroes msd declets = sk at hsk ⊢
  obtain ⟨lz, rest⟩ := sk
  simp only at hsk ⊢
  have hcount := hsk.count
  by_cases h0 : exponent = 0
  · simp only [if_pos h0]
  · simp only [if_neg h0]
    by_cases hneg : exponent < 0 ∧ (T.expIsI32 || (decide (i32Min ≤ exponent) && decide (exponent ≤ i32Max))) = true
    · simp only [if_pos hneg]
      obtain ⟨hlt0, hin⟩ := hneg
      have hrange : i32Min ≤ exponent ∧ exponent ≤ i32Max := by
        cases hi : T.expIsI32 with
        | true => exact hexp hi
        | false => simpa [hi] using hin
      have e2 : 9 * n - 2 + 2 = 9 * n := by omega
      rw [e2, subUsize_ok (by omega)]
      simp only []
      have hnzI : ((9 * n - lz.skipped : Nat) : Int) ≤ i32Max := by unfold i32Max; omega
      have hcast : (((9 * n : Nat) : Int) - (lz.skipped : Int)) = ((9 * n - lz.skipped : Nat) : Int) := by omega
      rw [if_pos hnzI, resI32_ok (by unfold i32Min i32Max at *; omega) (by unfold i32Min i32Max at *; omega)]
      simp only [hcast]
      by_cases hpos : ((9 * n - lz.skipped : Nat) : Int) + exponent > 0
      · simp only [if_pos hpos]
        apply writeWithPointC_false c _ _ 0 (by omega)
        have hbody := hsk.body
        cases hpd : lz.partialDeclet with
        | none =>
          rw [hpd] at hbody
          simp only [Option.getD_none, List.nil_append] at hbody ⊢
          rw [hbody]; omega
        | some d =>
          rw [hpd] at hbody
          simp only [Option.getD_some] at hbody
          simp only [List.cons_append, List.nil_append, List.flatten_cons]
          rw [hbody]; omega
      · simp only [if_neg hpos]
        rw [dbg_pos (by omega)]
        simp only [Int.toNat_natCast]
        split
        · rename_i hc
          rw [req_pos hc.1]
        · exact writeAllAsScientificC_eq T c lz rest exponent
    · simp only [if_neg hneg]
      exact writeAllAsScientificC_eq T c lz rest exponent

/-! ## `decimal_to_fmt` -/

theorem bcdToAsciiC_eq (c : Bool) (m : Nat) (h : m ≤ 9) : bcdToAsciiC c m = .ok (m + 48) := by
  unfold bcdToAsciiC; exact addU8_ok (by omega)

/-- the most significant digit decoded from any pattern is at most 9 -/
theorem msd_le (b : Buf) (n : Nat) (h : WF b n) : (unbiasedExponent b).2 ≤ 9 := by
  have := (Decstr.Props.C02.digitsOK b n h).msd
  omega

/-- **`decimal_to_fmt`**: for every well-formed buffer (any contents) held by a type that can hold it, no panic site
    is reached in either profile and the text is the pure model's. -/
theorem toTextC_eq (T : Ty) (c : Bool) (b : Buf) (n : Nat) (h : WF b n) (hT : T.expIsI32 = true → n ≤ 5)
    (hsz : 9 * n ≤ 2147483647) : toTextC T c b = .ok (toText T b) := by
  have hn := h.pos
  have hl := h.len
  have hlen : 0 < b.len := by omega
  have hr : T.expRep.isI32 = true → n ≤ 5 := by
    intro hi; apply hT; cases T <;> simp_all [Ty.expRep, ExpRep.isI32, Ty.expIsI32]
  unfold toTextC toText
  rw [isSignNegativeC_eq c b hlen, bind_ok, isFiniteC_eq c b hlen, bind_ok]
  cases hfin : isFinite b with
  | true =>
    simp only [if_true]
    rw [decodeCombinationFiniteC_eq T.expRep c b n h hr, bind_ok, bcdToAsciiC_eq c _ (msd_le b n h), bind_ok,
      decodeDecletsC_eq c b n hn hl, bind_ok, precisionC_eq c b n hn hl, bind_ok, precision_of_len b n hl]
    have hd := Decstr.Props.C02.digitsOK b n h
    have hexp : T.expIsI32 = true → i32Min ≤ (unbiasedExponent b).1 ∧ (unbiasedExponent b).1 ≤ i32Max := by
      intro hi
      obtain ⟨h1, h2, _⟩ := Decstr.Props.C02.exponent_small T b n h hT hfin hi
      unfold i32Min i32Max
      constructor <;> omega
    rw [fmtFiniteC_eq T c n _ _ hd _ hexp hsz, bind_ok]
  | false =>
    simp only [Bool.false_eq_true, if_false]
    rw [isInfiniteC_eq c b hlen, bind_ok]
    cases hinf : isInfinite b with
    | true => simp only [if_true]
    | false =>
      simp only [Bool.false_eq_true, if_false]
      have hnan : isNan b = true := by
        have := Decstr.Props.C08.C08_partition b
        simp_all
      rw [isNanC_eq c b hlen, bind_ok, dbg_pos hnan, bind_ok, isQuietNanC_eq c b hlen, bind_ok,
        decodeDecletsC_eq c b n hn hl, bind_ok]

end Decstr.Proofs.Exec

#print axioms Decstr.Proofs.Exec.toTextC_eq
