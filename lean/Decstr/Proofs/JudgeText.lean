import Decstr.Proofs.JudgeLemmas
import Decstr.Proofs.Grammar
import Decstr.Proofs.Decode
import Decstr.Proofs.Format
import Decstr.Props.C02
import Decstr.Props.C08
/-!
# Proofs.JudgeText — facts about printed text used by the oracle's judgements

* the first token of `toText` (sign, then digit / `inf` / `nan` / `snan`), for `judgeClassify`;
* a decimal with exponent 0 prints as the integer's decimal text, for `judgeFromInt`;
* stripped digit strings versus `digits10` / `sigDigits`, for `judgeToFloat`.
-/
namespace Decstr.Proofs.Judge
open Decstr.Model Decstr.Spec Decstr.Proofs Decstr.Props

theorem matches_finite_inv {t : List Nat} {num : Numeral} (h : Matches t num) (s : Bool) (c : Nat) (q : Int)
    (hd : num.datum = .fin s c q) :
    ∃ sg so i rest, t = sg ++ i ++ rest ∧ IsSign sg so ∧ IsD i := by
  cases h with
  | finite sg i fr ex s f e hs hi hf he => exact ⟨sg, s, i, fr ++ ex, by simp, hs, hi⟩
  | inf sg w s hs hw => simp [Numeral.datum] at hd
  | infinity sg w s hs hw => simp [Numeral.datum] at hd
  | nan sg sn w pl s g p hs hg hw hpl => simp [Numeral.datum] at hd

/-- a text that reads as a finite numeral after a minus sign starts with a digit -/
theorem head_digit_of_parse (body : List Nat) (num : Numeral) (h : parse (45 :: body) = some num)
    (s : Bool) (c : Nat) (q : Int) (hd : num.datum = .fin s c q) :
    ∃ c rest, body = c :: rest ∧ isDigit c = true := by
  obtain ⟨sg, so, i, rest, ht, hs, hi⟩ := matches_finite_inv (Grammar.parse_sound h) s c q hd
  obtain ⟨hne, hdig⟩ := hi
  cases i with
  | nil => exact absurd rfl hne
  | cons a l =>
    have ha := hdig a (by simp)
    cases hs with
    | none =>
      simp only [List.nil_append, List.cons_append] at ht
      injection ht with h1 h2
      subst h1; simp [isDigit] at ha
    | plus =>
      simp only [List.cons_append] at ht
      injection ht with h1 h2
      cases h1
    | minus =>
      simp only [List.cons_append, List.nil_append] at ht
      injection ht with h1 h2
      exact ⟨a, l ++ rest, h2, ha⟩

/-- the token part of `firstTok` -/
def tokOf (r : List Nat) : String :=
  match r with
  | 105 :: _ => "inf"
  | 110 :: _ => "nan"
  | 115 :: _ => "snan"
  | c :: _ => if Spec.isDigit c then "d" else "other"
  | [] => "other"

theorem firstTok_eq (t : List Nat) :
    firstTok t = (t.head? == some 45, tokOf (if t.head? == some 45 then t.drop 1 else t)) := rfl

theorem tokOf_digit (c : Nat) (rest : List Nat) (hc : isDigit c = true) : tokOf (c :: rest) = "d" := by
  have hc' : 48 ≤ c ∧ c ≤ 57 := by simpa [isDigit] using hc
  unfold tokOf
  split
  · rename_i heq; injection heq with h1 _; omega
  · rename_i heq; injection heq with h1 _; omega
  · rename_i heq; injection heq with h1 _; omega
  · rename_i heq; injection heq with h1 _; subst h1; simp [hc]
  · rename_i heq; cases heq

theorem firstTok_digit (neg : Bool) (c : Nat) (rest : List Nat) (hc : isDigit c = true) :
    firstTok (signText neg ++ c :: rest) = (neg, "d") := by
  have hc' : 48 ≤ c ∧ c ≤ 57 := by simpa [isDigit] using hc
  rw [firstTok_eq]
  cases neg
  · have : ((some c : Option Nat) == some 45) = false := by simp; omega
    simp only [signText, Bool.false_eq_true, if_false, List.nil_append, List.head?_cons, this]
    rw [tokOf_digit c rest hc]
  · simp only [signText, if_true, List.cons_append, List.nil_append, List.head?_cons, beq_self_eq_true,
      List.drop_succ_cons, List.drop_zero]
    rw [tokOf_digit c rest hc]

theorem specCls_eq (bytes : List Nat) : specCls bytes = C08.clsOfDatum (decode ⟨bytes.length / 4⟩ (ofLeBytes bytes)) := by
  unfold specCls
  cases decode ⟨bytes.length / 4⟩ (ofLeBytes bytes) <;> rfl

/-- the category word the oracle expects for a datum -/
def tokOfDatum : Datum → String
  | .fin _ _ _ => "d"
  | .inf _ => "inf"
  | .nan _ g _ => if g then "snan" else "nan"

theorem judgeClassify_datum (bytes : List Nat) (d : Datum) (hd : decode ⟨bytes.length / 4⟩ (ofLeBytes bytes) = d)
    (pneg : Bool) (tok : String)
    (hneg : pneg = (C08.clsOfDatum d).neg)
    (htok : tok = tokOfDatum d) :
    judgeClassify bytes (C08.clsOfDatum d) pneg tok = [] := by
  unfold judgeClassify
  rw [specCls_eq, hd, hneg, htok]
  cases d with
  | fin s c e => simp [C08.clsOfDatum, chk, tokOfDatum]
  | inf s => simp [C08.clsOfDatum, chk, tokOfDatum]
  | nan s g p => cases g <;> simp [C08.clsOfDatum, chk, tokOfDatum]

/-- the first token of the printed text: the sign bit, then the category the combination field selects -/
theorem firstTok_toText (T : Ty) (b : Buf) (n : Nat) (hwf : WF b n) (hT : C02.Holds T n) :
    ∃ d, decode ⟨n⟩ b.bits = d ∧ (firstTok (toText T b)).1 = (C08.clsOfDatum d).neg ∧
      (firstTok (toText T b)).2 = tokOfDatum d := by
  by_cases hfin : isFinite b = true
  · refine ⟨_, decode_finite b n hwf hfin, ?_⟩
    rw [toText_finite T b hfin, DecodeAux.precision_eq b n hwf]
    have hd := C02.digitsOK b n hwf
    obtain ⟨num, h1, h2, _⟩ := fmtFinite_spec T n _ _ hd (unbiasedExponent b).1 (C02.exponent_small T b n hwf hT hfin) true
    have h1' : parse (45 :: fmtFinite T (9 * n - 2) ((unbiasedExponent b).2 + 48) (decodeDeclets b) (unbiasedExponent b).1)
        = some num := by simpa [signText] using h1
    obtain ⟨c, rest, hbody, hc⟩ := head_digit_of_parse _ num h1' _ _ _ h2
    rw [hbody, firstTok_digit _ c rest hc]
    exact ⟨rfl, rfl⟩
  · have hfin' : isFinite b = false := by simpa using hfin
    by_cases hinf : isInfinite b = true
    · refine ⟨_, decode_infinite b n hwf hinf, ?_⟩
      rw [toText_infinite T b hfin' hinf]
      cases isSignNegative b <;> exact ⟨rfl, rfl⟩
    · have hinf' : isInfinite b = false := by simpa using hinf
      have hnan : isNan b = true := by
        rcases C08.C08_partition b with ⟨h1, _, _⟩ | ⟨_, h2, _⟩ | ⟨_, _, h3⟩
        · rw [h1] at hfin'; cases hfin'
        · rw [h2] at hinf'; cases hinf'
        · exact h3
      refine ⟨_, decode_nan b n hwf hnan, ?_⟩
      rw [toText_nan T b hfin' hinf']
      have hk := C08.C08_nan_kinds b
      rw [hnan] at hk
      have hq : isQuietNan b = !isSignalingNan b := by
        cases hq : isQuietNan b <;> cases hs : isSignalingNan b <;> simp [hq, hs] at hk ⊢
      rw [hq]
      cases isSignNegative b <;> cases isSignalingNan b <;> exact ⟨rfl, rfl⟩

/-- a negative non-zero decimal has a negative integer value -/
theorem intValue_neg (c : Nat) (e : Int) (v : Int) (hc : c ≠ 0) (h : intValue true c e = some v) : v < 0 := by
  unfold intValue at h
  rw [if_neg hc] at h
  split at h
  · split at h
    · cases h
    · injection h with h
      have : 0 < c * 10 ^ e.toNat := Nat.mul_pos (by omega) (Nat.pow_pos (by decide))
      simp only [if_true] at h
      omega
  · simp only at h
    split at h
    · cases h
    · split at h
      · rename_i hk hm
        injection h with h
        have hpos : 0 < 10 ^ (-e).toNat := Nat.pow_pos (by decide)
        have : 0 < c / 10 ^ (-e).toNat := by
          apply Nat.div_pos _ hpos
          exact Nat.le_of_dvd (by omega) (Nat.dvd_of_mod_eq_zero hm)
        simp only [if_true] at h
        omega
      · cases h

theorem digits10_eq (v : Nat) : digits10 v = (natDigits v).length := by simp [digits10, natDigits]

/-- the significant digits of a digit string are at most those of its value -/
theorem stripped_length_le (ds : List Nat) (hds : AsciiDigits ds) :
    (ds.dropWhile (· == 48)).length ≤ sigDigits (valOf ds) := by
  have hv := valOf_dropWhile_zero ds
  have ha : AsciiDigits (ds.dropWhile (· == 48)) := hds.dropWhile _
  cases hst : ds.dropWhile (· == 48) with
  | nil => simp
  | cons d r =>
    rw [hst] at hv ha
    have hd : d ≠ 48 := by
      have := List.head_dropWhile_not (· == 48) (l := ds) (by rw [hst]; simp)
      simp only [hst, List.head_cons] at this
      simpa using this
    have hdr := ha d (by simp)
    have hlow : 10 ^ r.length ≤ valOf (d :: r) := by
      rw [valOf_cons]
      have : 1 ≤ d - 48 := by omega
      calc 10 ^ r.length = 1 * 10 ^ r.length := by omega
        _ ≤ (d - 48) * 10 ^ r.length := Nat.mul_le_mul_right _ this
        _ ≤ _ := Nat.le_add_right _ _
    rw [hv] at hlow
    have hpos : 0 < 10 ^ r.length := Nat.pow_pos (by decide)
    have hne : valOf ds ≠ 0 := by omega
    simp only [sigDigits, hne, if_false, digits10_eq, List.length_cons]
    apply Nat.succ_le_of_lt
    apply Nat.lt_of_not_le
    intro hle
    by_cases hr0 : r.length = 0
    · have := natDigits_ne_nil (valOf ds)
      have : 0 < (natDigits (valOf ds)).length := List.length_pos_iff.mpr this
      omega
    · have := (natDigits_length_le (valOf ds) r.length (by omega)).1 hle
      omega

/-- digit strings of the same length with the same value are equal -/
theorem valOf_inj_of_length (a b : List Nat) (ha : AsciiDigits a) (hb : AsciiDigits b) (hl : a.length = b.length)
    (hv : valOf a = valOf b) : a = b := by
  induction a generalizing b with
  | nil =>
    cases b with
    | nil => rfl
    | cons y b' => simp at hl
  | cons x a' ih =>
    cases b with
    | nil => simp at hl
    | cons y b' =>
      have hl' : a'.length = b'.length := by simpa using hl
      rw [valOf_cons, valOf_cons, hl'] at hv
      have hP : 0 < 10 ^ b'.length := Nat.pow_pos (by decide)
      have h1 := valOf_lt (asciiDigits_cons.1 ha).2
      have h2 := valOf_lt (asciiDigits_cons.1 hb).2
      rw [hl'] at h1
      have hx := (asciiDigits_cons.1 ha).1
      have hy := (asciiDigits_cons.1 hb).1
      have hq : x - 48 = y - 48 := by
        have e1 : ((x - 48) * 10 ^ b'.length + valOf a') / 10 ^ b'.length = x - 48 := by
          rw [Nat.mul_comm, Nat.mul_add_div hP, Nat.div_eq_of_lt h1]; simp
        have e2 : ((y - 48) * 10 ^ b'.length + valOf b') / 10 ^ b'.length = y - 48 := by
          rw [Nat.mul_comm, Nat.mul_add_div hP, Nat.div_eq_of_lt h2]; simp
        rw [← e1, ← e2, hv]
      have hr : valOf a' = valOf b' := by rw [hq] at hv; omega
      have : x = y := by omega
      subst this
      rw [ih b' (asciiDigits_cons.1 ha).2 (asciiDigits_cons.1 hb).2 hl' hr]

/-- a digit string without its leading zeros is the decimal text of its value -/
theorem stripped_eq_natDigits (ds : List Nat) (hds : AsciiDigits ds) :
    (if 0 + (ds.dropWhile (· == 48)).length = 0 then [48] else ds.dropWhile (· == 48)) = natDigits (valOf ds) := by
  have hv := valOf_dropWhile_zero ds
  have ha : AsciiDigits (ds.dropWhile (· == 48)) := hds.dropWhile _
  have hle := stripped_length_le ds hds
  cases hst : ds.dropWhile (· == 48) with
  | nil =>
    rw [hst] at hv
    simp only [List.length_nil, if_true]
    rw [← hv]; rfl
  | cons d r =>
    rw [hst] at hv ha hle
    simp only [List.length_cons, Nat.zero_add, Nat.add_one_ne_zero, if_false]
    have hlt := valOf_lt ha
    rw [hv] at hlt
    have hne : valOf ds ≠ 0 := by
      intro h0; simp [sigDigits, h0] at hle
    simp only [sigDigits, hne, if_false, digits10_eq] at hle
    have hle2 := (natDigits_length_le (valOf ds) (d :: r).length (by simp)).2 hlt
    apply valOf_inj_of_length _ _ ha (natDigits_ascii _) (by omega)
    rw [hv, valOf_natDigits]

/-- a finite decimal with exponent 0 prints as the integer it is -/
theorem toText_integer (T : Ty) (b : Buf) (n : Nat) (hwf : WF b n) (s : Bool) (c : Nat)
    (hd : decode ⟨n⟩ b.bits = .fin s c 0) : toText T b = signText s ++ natDigits c := by
  have hfin : isFinite b = true := by
    have hc := C08.C08_ieee b n (DecodeAux.toC08 hwf)
    rw [hd] at hc
    have : (C08.modelCls b).fin = true := by rw [hc]; rfl
    exact this
  have hd' := decode_finite b n hwf hfin
  rw [hd] at hd'
  injection hd' with h1 h2 h3
  have hdo := C02.digitsOK b n hwf
  have hsk := skip_spec n _ _ hdo
  obtain ⟨_, ha⟩ := allDigits_ascii b n hwf
  rw [toText_finite T b hfin, ← h1, ← h3, fmtFinite_eq_core]
  simp only [fmtCore, if_true]
  rw [writeAllAsInteger_eq hsk 0, h2]
  exact congrArg _ (stripped_eq_natDigits _ ha)

theorem toDecimal_signText (v : Int) : toDecimal v = signText (decide (v < 0)) ++ natDigits v.natAbs := by
  rw [toDecimal_eq]
  by_cases h : v < 0 <;> simp [h, signText]

end Decstr.Proofs.Judge

#print axioms Decstr.Proofs.Judge.firstTok_toText
#print axioms Decstr.Proofs.Judge.judgeClassify_datum
#print axioms Decstr.Proofs.Judge.toText_integer
#print axioms Decstr.Proofs.Judge.stripped_eq_natDigits
#print axioms Decstr.Proofs.Judge.stripped_length_le
