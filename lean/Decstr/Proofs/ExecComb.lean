import Decstr.Proofs.ExecBasic
import Decstr.Proofs.EncodeComb
import Decstr.Proofs.Decode
/-!
# Proofs.ExecComb — `combination.rs` and `exponent.rs`: the checked combination-field codec and the classifiers
never reach a panic site and compute what the pure model computes
-/
namespace Decstr.Proofs.Exec
open Decstr.Model Decstr.Model.Exec Decstr.Spec Decstr.Proofs Decstr.Proofs.EncodeAux

/-! ## the last byte: classifiers, infinity, NaN — any non-empty buffer -/

theorem lastIndexC_eq (c : Bool) (site : String) (b : Buf) (h : 0 < b.len) : lastIndexC c site b = .ok (b.len - 1) := by
  unfold lastIndexC
  rw [subUsize_ok (by omega), bind_ok, req_pos (by omega), bind_ok]

theorem lastC_eq (c : Bool) (site : String) (b : Buf) (h : 0 < b.len) : lastC c site b = .ok b.last := by
  unfold lastC
  rw [lastIndexC_eq c site b h, bind_ok]; rfl

theorem isFiniteC_eq (c : Bool) (b : Buf) (h : 0 < b.len) : isFiniteC c b = .ok (isFinite b) := by
  unfold isFiniteC; rw [lastC_eq c _ b h, bind_ok]; rfl
theorem isInfiniteC_eq (c : Bool) (b : Buf) (h : 0 < b.len) : isInfiniteC c b = .ok (isInfinite b) := by
  unfold isInfiniteC; rw [lastC_eq c _ b h, bind_ok]; rfl
theorem isNanC_eq (c : Bool) (b : Buf) (h : 0 < b.len) : isNanC c b = .ok (isNan b) := by
  unfold isNanC; rw [lastC_eq c _ b h, bind_ok]; rfl
theorem isQuietNanC_eq (c : Bool) (b : Buf) (h : 0 < b.len) : isQuietNanC c b = .ok (isQuietNan b) := by
  unfold isQuietNanC; rw [lastC_eq c _ b h, bind_ok]; rfl
theorem isSignalingNanC_eq (c : Bool) (b : Buf) (h : 0 < b.len) : isSignalingNanC c b = .ok (isSignalingNan b) := by
  unfold isSignalingNanC; rw [lastC_eq c _ b h, bind_ok]; rfl
theorem isSignNegativeC_eq (c : Bool) (b : Buf) (h : 0 < b.len) : isSignNegativeC c b = .ok (isSignNegative b) := by
  unfold isSignNegativeC; rw [lastC_eq c _ b h, bind_ok]; rfl

theorem encodeInfinityC_eq (c : Bool) (b : Buf) (h : 0 < b.len) (neg : Bool) :
    encodeInfinityC c b neg = .ok (encodeInfinity b neg) := by
  unfold encodeInfinityC; rw [lastIndexC_eq c _ b h, bind_ok]; rfl

theorem encodeNanC_eq (c : Bool) (b : Buf) (h : 0 < b.len) (neg sig : Bool) :
    encodeNanC c b neg sig = .ok (encodeNan b neg sig) := by
  unfold encodeNanC; rw [lastIndexC_eq c _ b h, bind_ok]; rfl

/-! ## exponent arithmetic -/

theorem pow_le_13 (k : Nat) (hk : k ≤ 13) : (2 : Int) ^ k ≤ 8192 := by
  have : (2 : Int) ^ k ≤ 2 ^ 13 := by
    have h := Nat.pow_le_pow_right (by decide : 0 < 2) hk
    exact_mod_cast h
  simpa using this

theorem pow_pos_int (k : Nat) : (0 : Int) < 2 ^ k := by
  have := Nat.two_pow_pos k
  exact_mod_cast this

/-- `emax` in the exponent type: for the `i32` types the width is at most 160 bits -/
theorem emaxC_eq (r : ExpRep) (c : Bool) (n : Nat) (hr : r.isI32 = true → n ≤ 5) :
    emaxC r c (32 * n) = .ok (emaxOf (32 * n)) := by
  unfold emaxC emaxOf mulE
  have e : 32 * n / 16 + 3 = 2 * n + 3 := by omega
  rw [e]
  cases hi : r.isI32 with
  | false => simp [bind_ok]
  | true =>
    have hn := hr hi
    have h1 := pow_le_13 (2 * n + 3) (by omega)
    have h0 := pow_pos_int (2 * n + 3)
    simp only [if_true]
    rw [resI32_ok (by unfold i32Min; omega) (by unfold i32Max; omega), bind_ok,
      resI32_ok (by unfold i32Min; omega) (by unfold i32Max; omega)]

theorem biasC_eq (r : ExpRep) (c : Bool) (n : Nat) (hn : 0 < n) (hr : r.isI32 = true → n ≤ 5) :
    biasC r c (32 * n) (9 * n - 2) = .ok (biasOf (32 * n) (9 * n - 2)) := by
  unfold biasC biasOf
  rw [emaxC_eq r c n hr, bind_ok]
  unfold addE subE emaxOf
  have e : 32 * n / 16 + 3 = 2 * n + 3 := by omega
  rw [e]
  cases hi : r.isI32 with
  | false => simp [bind_ok]
  | true =>
    have hn5 := hr hi
    have h1 := pow_le_13 (2 * n + 3) (by omega)
    have h0 := pow_pos_int (2 * n + 3)
    simp only [if_true]
    rw [resI32_ok (by unfold i32Min; omega) (by unfold i32Max; omega), bind_ok,
      resI32_ok (by unfold i32Min; omega) (by unfold i32Max; omega)]

theorem biasOf_le (n : Nat) (hn : 0 < n) (hn5 : n ≤ 5) : 0 ≤ biasOf (32 * n) (9 * n - 2) ∧ biasOf (32 * n) (9 * n - 2) ≤ 24617 := by
  unfold biasOf emaxOf
  have e : 32 * n / 16 + 3 = 2 * n + 3 := by omega
  rw [e]
  have h1 := pow_le_13 (2 * n + 3) (by omega)
  have h0 := pow_pos_int (2 * n + 3)
  constructor <;> omega

/-- `bias + exp`: no overflow when the sum is a valid biased exponent (`0 ≤ · < 2^31`; in fact `< 3·2^(2n+4)`) -/
theorem addBiasC_eq (r : ExpRep) (c : Bool) (b : Buf) (n : Nat) (hn : 0 < n) (hl : b.len = 4 * n)
    (hr : r.isI32 = true → n ≤ 5) (exp : Int)
    (hlo : 0 ≤ biasOf b.widthBits b.precision + exp)
    (hhi : r.isI32 = true → biasOf b.widthBits b.precision + exp ≤ i32Max) :
    addBiasC r c b exp = .ok (biasOf b.widthBits b.precision + exp) := by
  unfold addBiasC
  rw [precisionC_eq c b n hn hl, bind_ok]
  rw [widthBits_of_len b n hl, precision_of_len b n hl] at *
  rw [biasC_eq r c n hn hr, bind_ok]
  unfold addE
  cases hi : r.isI32 with
  | false => simp
  | true =>
    simp only [if_true]
    rw [resI32_ok (by unfold i32Min; omega) (hhi hi)]

/-- `exp - bias` on a decoded biased exponent `0 ≤ exp < 2^31 - 24617` -/
theorem subBiasC_eq (r : ExpRep) (c : Bool) (b : Buf) (n : Nat) (hn : 0 < n) (hl : b.len = 4 * n)
    (hr : r.isI32 = true → n ≤ 5) (exp : Int) (hlo : 0 ≤ exp) (hhi : r.isI32 = true → exp ≤ i32Max) :
    subBiasC r c b exp = .ok (exp - biasOf b.widthBits b.precision) := by
  unfold subBiasC
  rw [precisionC_eq c b n hn hl, bind_ok]
  rw [widthBits_of_len b n hl, precision_of_len b n hl] at *
  rw [biasC_eq r c n hn hr, bind_ok]
  unfold subE
  cases hi : r.isI32 with
  | false => simp
  | true =>
    have hb := biasOf_le n hn (hr hi)
    have hhi := hhi hi
    simp only [if_true]
    rw [resI32_ok (by unfold i32Min; omega) (by unfold i32Max at *; omega)]


/-! ## the bytes of the biased exponent -/

/-- `exponent[i]` for a non-negative biased exponent: the `[u8; 4]` of the fixed types is only indexed below 4 -/
theorem expByteC_eq (r : ExpRep) (site : String) (E i : Nat) (hE : r.isI32 = true → E < 2 ^ 31)
    (hi : r = .i32Fixed → i < 4) : expByteC r site (E : Int) i = .ok (expByte E i) := by
  unfold expByteC expByte
  cases r with
  | i32Fixed =>
    have hE := hE rfl
    have hm : ((E : Int) % 4294967296).toNat = E := by
      rw [Int.emod_eq_of_lt (by omega) (by omega)]; simp
    simp only [hi rfl, if_true, hm]
  | i32Dyn =>
    have hE := hE rfl
    have hm : ((E : Int) % 4294967296).toNat = E := by
      rw [Int.emod_eq_of_lt (by omega) (by omega)]; simp
    simp only [hm]
    by_cases h4 : i < 4
    · simp only [h4, if_true]
    · simp only [h4, if_false]
      have : E >>> (8 * i) = 0 := by
        rw [Nat.shiftRight_eq_div_pow]
        apply Nat.div_eq_of_lt
        calc E < 2 ^ 31 := hE
          _ ≤ 2 ^ (8 * i) := Nat.pow_le_pow_right (by decide) (by omega)
      rw [this]
  | big =>
    have h0 : (0 : Int) ≤ (E : Int) := by omega
    simp only [h0, if_true, Int.toNat_natCast]

/-! ## the exponent loops of `encode_combination_finite` -/

theorem writeExpAligned_facts (e k di ei : Nat) (b : Buf) :
    (writeExpAligned e k di ei b).1.len = b.len ∧ (writeExpAligned e k di ei b).2 = (di + k, ei + k) := by
  induction k generalizing di ei b with
  | zero => exact ⟨rfl, rfl⟩
  | succ k ih =>
    unfold writeExpAligned
    obtain ⟨h1, h2⟩ := ih (di + 1) (ei + 1) (b.setAt di (expByte e ei))
    refine ⟨by rw [h1]; rfl, ?_⟩
    rw [h2]; congr 1 <;> omega

theorem writeExpShifted_facts (e s k di ei : Nat) (b : Buf) :
    (writeExpShifted e s k di ei b).1.len = b.len ∧ (writeExpShifted e s k di ei b).2 = (di + k, ei + k) := by
  induction k generalizing di ei b with
  | zero => exact ⟨rfl, rfl⟩
  | succ k ih =>
    unfold writeExpShifted
    obtain ⟨h1, h2⟩ := ih (di + 1) (ei + 1) ((b.orAt di (expByte e ei <<< s)).orAt (di + 1) (expByte e ei >>> (8 - s)))
    refine ⟨by rw [h1]; rfl, ?_⟩
    rw [h2]; congr 1 <;> omega

theorem writeExpAlignedC_eq (r : ExpRep) (E : Nat) (hE : r.isI32 = true → E < 2 ^ 31) (k di ei : Nat) (b : Buf)
    (hidx : di + k ≤ b.len) (hfix : r = .i32Fixed → ei + k ≤ 4) :
    writeExpAlignedC r (E : Int) k di ei b = .ok (writeExpAligned E k di ei b) := by
  induction k generalizing di ei b with
  | zero => rfl
  | succ k ih =>
    unfold writeExpAlignedC writeExpAligned
    rw [expByteC_eq r _ E ei hE (fun h => by have := hfix h; omega)]
    simp only []
    rw [setAtC_ok (by omega)]
    simp only []
    exact ih (di + 1) (ei + 1) _ (by simp only [setAt_len]; omega) (fun h => by have := hfix h; omega)

theorem writeExpShiftedC_eq (r : ExpRep) (c : Bool) (E : Nat) (hE : r.isI32 = true → E < 2 ^ 31) (s : Nat) (hs0 : 0 < s) (hs8 : s < 8)
    (k di ei : Nat) (b : Buf) (hidx : di + k + 1 ≤ b.len ∨ k = 0) (hfix : r = .i32Fixed → ei + k ≤ 4) :
    writeExpShiftedC r c (E : Int) s k di ei b = .ok (writeExpShifted E s k di ei b) := by
  induction k generalizing di ei b with
  | zero => rfl
  | succ k ih =>
    unfold writeExpShiftedC writeExpShifted
    rw [expByteC_eq r _ E ei hE (fun h => by have := hfix h; omega)]
    simp only []
    rw [shAmt_ok hs8]
    simp only []
    rw [orAtC_ok (by omega)]
    simp only []
    rw [shAmt_ok (by omega)]
    simp only []
    rw [orAtC_ok (by simp only [orAt_len]; omega)]
    simp only []
    exact ih (di + 1) (ei + 1) _ (by simp only [orAt_len]; omega) (fun h => by have := hfix h; omega)

theorem msExp_facts (n : Nat) : ∃ off idx, msExponentOffset (2 * n + 6) = (off, idx) ∧
    8 * idx + off = 2 * n + 6 ∧ 2 ≤ off ∧ off ≤ 8 := by
  unfold msExponentOffset
  split
  · exact ⟨_, _, rfl, by omega, by omega⟩
  · exact ⟨_, _, rfl, by omega, by omega⟩

theorem msExponentOffsetC_eq (c : Bool) (n : Nat) : msExponentOffsetC c (2 * n + 6) = .ok (msExponentOffset (2 * n + 6)) := by
  unfold msExponentOffsetC msExponentOffset
  split
  · rw [subUsize_ok (by omega), bind_ok]
  · rfl

theorem and8_cases (x : Nat) : x &&& 8 = 0 ∨ x &&& 8 = 8 := by
  have h : ∀ y < 16, y &&& 8 = 0 ∨ y &&& 8 = 8 := by decide
  have e : x &&& 8 = (x % 16) &&& 8 := by
    have : x % 16 = x &&& 15 := (Nat.and_two_pow_sub_one_eq_mod x 4).symm
    rw [this, Nat.and_assoc, (by decide : 15 &&& 8 = 8)]
  rw [e]
  exact h _ (Nat.mod_lt _ (by decide))

/-- **`encode_combination_finite`**: for a buffer of `4n` bytes and an unbiased exponent whose biased value is a valid
    one (`0 ≤ bias + exp < 3·2^(2n+4)`, i.e. the exponent is in the range of the width), no panic site is reached in
    either profile and the result is the pure model's.  For the `i32` exponent types the width is at most 160 bits. -/
theorem encodeCombinationFiniteC_eq (r : ExpRep) (c : Bool) (b : Buf) (n : Nat) (hn : 0 < n) (hl : b.len = 4 * n)
    (hr : r.isI32 = true → n ≤ 5) (neg : Bool) (exp : Int) (msd : Nat)
    (hlo : 0 ≤ biasOf b.widthBits b.precision + exp)
    (hhi : biasOf b.widthBits b.precision + exp < 3 * 2 ^ (2 * n + 4)) :
    encodeCombinationFiniteC r c b neg exp msd =
      .ok (encodeCombinationFinite b neg (biasOf b.widthBits b.precision + exp).toNat msd) := by
  obtain ⟨E, hEq⟩ : ∃ E : Nat, biasOf b.widthBits b.precision + exp = E := ⟨_, (Int.toNat_of_nonneg hlo).symm⟩
  have hE3 : E < 3 * 2 ^ (2 * n + 4) := by rw [hEq] at hhi; exact_mod_cast hhi
  have hE31 : r.isI32 = true → E < 2 ^ 31 := by
    intro hi
    have hn5 := hr hi
    have : 2 ^ (2 * n + 4) ≤ 2 ^ 14 := Nat.pow_le_pow_right (by decide) (by omega)
    omega
  have hE' : E < 2 ^ (2 * n + 6) := by
    have : 2 ^ (2 * n + 6) = 4 * 2 ^ (2 * n + 4) := by rw [pow_split _ 2 (2 * n + 4) (by omega)]; rfl
    omega
  unfold encodeCombinationFiniteC
  rw [addBiasC_eq r c b n hn hl hr exp hlo (by
        intro hi; rw [hEq]; have := hE31 hi; unfold i32Max; omega), bind_ok, hEq, Int.toNat_natCast,
      dbg_pos (by omega), bind_ok, exponentBitsC_eq, bind_ok, trailingBitsC_eq c b n hn hl, bind_ok,
      subUsize_ok (by omega), bind_ok, encodeCombinationFinite_split]
  have htb := trailingBits_of_len b n hl
  have heb := exponentBits_of_len b n hl
  -- the loops
  have hloops : combLoopsC r c (E : Int) b b.trailingBits (b.len - 1) = .ok (combLoops b E) := by
    unfold combLoops combLoopsC
    have hk : r = .i32Fixed → 0 + (b.len - 1 - b.trailingBits / 8) ≤ 4 := by
      intro h
      have := hr (by rw [h]; rfl)
      rw [htb, hl]; omega
    split
    · exact writeExpAlignedC_eq r E hE31 _ _ 0 b (by rw [htb, hl]; omega) hk
    · exact writeExpShiftedC_eq r c E hE31 _ (by omega) (Nat.mod_lt _ (by decide)) _ _ 0 b (by rw [htb, hl]; omega) hk
  rw [hloops, bind_ok]
  -- what the loops leave
  have hfacts : (combLoops b E).1.len = b.len ∧ (combLoops b E).2 = (b.len - 1, b.len - 1 - b.trailingBits / 8) := by
    unfold combLoops
    split
    · obtain ⟨h1, h2⟩ := writeExpAligned_facts E (b.len - 1 - b.trailingBits / 8) (b.trailingBits / 8) 0 b
      refine ⟨h1, ?_⟩
      rw [h2]; congr 1 <;> (rw [htb, hl]; omega)
    · obtain ⟨h1, h2⟩ := writeExpShifted_facts E (b.trailingBits % 8) (b.len - 1 - b.trailingBits / 8) (b.trailingBits / 8) 0 b
      refine ⟨h1, ?_⟩
      rw [h2]; congr 1 <;> (rw [htb, hl]; omega)
  generalize combLoops b E = L at hfacts ⊢
  obtain ⟨b1, di1, ei1⟩ := L
  obtain ⟨hl1, hde⟩ := hfacts
  simp only at hl1 hde
  obtain ⟨hdi, hei⟩ := Prod.mk.inj hde
  simp only []
  have hfix_ei : r = .i32Fixed → ei1 < 4 := by
    intro h
    have := hr (by rw [h]; rfl)
    rw [hei, htb, hl]; omega
  rw [expByteC_eq r _ E ei1 hE31 hfix_ei, bind_ok, orAtC_ok (by rw [hl1, hdi]; omega), bind_ok, heb,
    msExponentOffsetC_eq, bind_ok]
  obtain ⟨off, idx, hmo, h8, hoff2, hoff8⟩ := msExp_facts n
  have hmse := mse_eq n E hE'
  rw [hmo] at hmse ⊢
  simp only [] at hmse ⊢
  have hfix_idx : r = .i32Fixed → idx < 4 := by
    intro h
    have := hr (by rw [h]; rfl)
    omega
  have hmse3 : expByte E idx >>> (off - 2) ≠ 3 := by
    rw [hmse]
    have : E / 2 ^ (2 * n + 4) < 3 := by
      rw [Nat.div_lt_iff_lt_mul (Nat.two_pow_pos _)]; exact hE3
    omega
  rw [expByteC_eq r _ E idx hE31 hfix_idx, bind_ok, subU32_ok hoff2, bind_ok, shAmt_ok (by omega), bind_ok,
    dbg_pos hmse3, bind_ok, req_pos (and8_cases msd), bind_ok, getC_ok (by simp only [orAt_len]; rw [hl1, hdi]; omega), bind_ok,
    setAtC_ok (by simp only [orAt_len]; rw [hl1, hdi]; omega), bind_ok]
  have heb1 : (b1.orAt di1 (expByte E ei1 <<< (b.trailingBits % 8))).exponentBits = 2 * n + 6 :=
    exponentBits_of_len _ n (by simp only [orAt_len]; rw [hl1, hl])
  unfold combTail
  simp only [heb1, hmo]
  cases neg with
  | false => rfl
  | true =>
    simp only [if_true]
    rw [orAtC_ok (by simp only [setAt_len, orAt_len]; rw [hl1, hdi]; omega)]


/-! ## `decode_combination_finite` -/

open Decstr.Proofs.DecodeAux in
theorem readExpAlignedC_eq (b : Buf) (hlen : 0 < b.len) (mse k di : Nat) (h : di + k ≤ b.len) :
    readExpAlignedC b mse (b.len - 1) k di = .ok (readExpAligned b mse k di, k) := by
  induction k generalizing di with
  | zero => rfl
  | succ k ih =>
    unfold readExpAlignedC readExpAligned
    by_cases h1 : di < b.len - 1
    · simp only [h1, if_true]
      rw [getC_ok (by omega)]
      simp only []
      rw [ih (di + 1) (by omega)]
    · have h2 : di = b.len - 1 := by omega
      have hk : k = 0 := by omega
      subst hk
      simp only [if_neg h1, if_pos h2]
      rw [getC_ok (by omega)]
      simp only []
      rfl

theorem readExpShiftedC_eq (c : Bool) (b : Buf) (hlen : 0 < b.len) (mse s maxEi : Nat) (hs0 : 0 < s) (hs8 : s < 8)
    (k di ei : Nat) :
    ∃ cnt, cnt ≤ k ∧ readExpShiftedC c b mse s maxEi (b.len - 1) k di ei = .ok (readExpShifted b mse s maxEi k di ei, cnt) := by
  induction k generalizing di ei with
  | zero => exact ⟨0, Nat.le_refl _, rfl⟩
  | succ k ih =>
    unfold readExpShiftedC readExpShifted
    obtain ⟨cnt, hc, hi⟩ := ih (di + 1) (ei + 1)
    by_cases h1 : di + 1 < b.len - 1
    · refine ⟨cnt + 1, by omega, ?_⟩
      simp only [h1, if_true]
      rw [getC_ok (by omega)]
      simp only []
      rw [shAmt_ok hs8]
      simp only []
      rw [getC_ok (by omega)]
      simp only []
      rw [shAmt_ok (by omega)]
      simp only []
      rw [hi]
    · by_cases h2 : di + 1 = b.len - 1
      · refine ⟨cnt + 1, by omega, ?_⟩
        simp only [if_neg h1, if_pos h2]
        rw [getC_ok (by omega)]
        simp only []
        rw [shAmt_ok hs8]
        simp only []
        rw [getC_ok (by omega)]
        simp only []
        rw [shAmt_ok (by omega)]
        simp only []
        rw [hi]
      · simp only [if_neg h1, if_neg h2]
        by_cases h3 : ei = maxEi
        · exact ⟨1, by omega, by simp only [h3, if_true]⟩
        · exact ⟨0, by omega, by simp only [h3, if_false]⟩

/-- the biased exponent field of any pattern is below `2^(2n+6)` -/
theorem biased_lt_pow (b : Buf) (n : Nat) (h : WF b n) : (decodeCombinationFinite b).1 < 2 ^ (2 * n + 6) := by
  have hs := decodeCombinationFinite_spec b n h
  simp only at hs
  rw [hs]
  have e : 2 ^ (2 * n + 6) = 4 * 2 ^ (2 * n + 4) := by rw [pow_split _ 2 (2 * n + 4) (by omega)]; rfl
  have hm : ∀ X : Nat, X % 2 ^ (2 * n + 4) < 2 ^ (2 * n + 4) := fun X => Nat.mod_lt _ (Nat.two_pow_pos _)
  rw [e]
  split
  · rename_i hg
    simp only []
    have := hm (b.bits / 2 ^ (30 * n - 10) % 2 ^ (2 * n + 4 + 5))
    have h2 := Nat.mul_le_mul_right (2 ^ (2 * n + 4)) (by omega :
      b.bits / 2 ^ (30 * n - 10) % 2 ^ (2 * n + 4 + 5) / 2 ^ (2 * n + 4) / 8 ≤ 3)
    omega
  · simp only []
    have := hm (b.bits / 2 ^ (30 * n - 10) % 2 ^ (2 * n + 4 + 5))
    have h2 := Nat.mul_le_mul_right (2 ^ (2 * n + 4)) (by omega :
      b.bits / 2 ^ (30 * n - 10) % 2 ^ (2 * n + 4 + 5) / 2 ^ (2 * n + 4) / 2 % 4 ≤ 3)
    omega

theorem wrapI32_small (v : Nat) (h : v < 2 ^ 31) : wrapI32 ((v : Int) % 4294967296) = v := by
  unfold wrapI32
  omega

/-- **`decode_combination_finite`**: for EVERY well-formed buffer (any contents: finite, infinite, NaN, non-canonical),
    no panic site is reached in either profile and the result is the pure model's.  For the `i32` exponent types the
    width is at most 160 bits: at most 3 bytes reach `i32::from_le_bytes`. -/
theorem decodeCombinationFiniteC_eq (r : ExpRep) (c : Bool) (b : Buf) (n : Nat) (h : WF b n)
    (hr : r.isI32 = true → n ≤ 5) : decodeCombinationFiniteC r c b = .ok (unbiasedExponent b) := by
  have hn := h.pos
  have hl := h.len
  have htb := trailingBits_of_len b n hl
  have heb := exponentBits_of_len b n hl
  obtain ⟨off, idx, hmo, h8, hoff2, hoff8⟩ := msExp_facts n
  have hblt := biased_lt_pow b n h
  unfold decodeCombinationFiniteC
  rw [exponentBitsC_eq, bind_ok, trailingBitsC_eq c b n hn hl, bind_ok, subUsize_ok (by omega), bind_ok, heb,
    msExponentOffsetC_eq, bind_ok, hmo]
  simp only []
  rw [getC_ok (by omega), bind_ok, subU32_ok hoff2, bind_ok, shAmt_ok (by omega), bind_ok]
  -- the iterator
  have hread : ∃ cnt, (r.isI32 = true → cnt ≤ 4) ∧
      readExpC c b ((mseMsdOf (b.get (b.len - 1))).1 <<< (off - 2) % 256) idx (b.len - 1) b.trailingBits
        = .ok ((decodeCombinationFinite b).1, cnt) := by
    rw [Decstr.Proofs.DecodeAux.dcf_unfold, heb, hmo]
    unfold readExpC
    split
    · refine ⟨b.len - 1 - b.trailingBits / 8 + 1, ?_, ?_⟩
      · intro hi; have := hr hi; rw [htb, hl]; omega
      · exact readExpAlignedC_eq b (by omega) _ _ _ (by rw [htb, hl]; omega)
    · obtain ⟨cnt, h1, h2⟩ := readExpShiftedC_eq c b (by omega) ((mseMsdOf (b.get (b.len - 1))).1 <<< (off - 2) % 256)
        (b.trailingBits % 8) idx (by omega) (Nat.mod_lt _ (by decide)) (b.len - 1 - b.trailingBits / 8 + 2) (b.trailingBits / 8) 0
      refine ⟨cnt, ?_, h2⟩
      intro hi; have := hr hi; rw [htb, hl] at h1; omega
  obtain ⟨cnt, hcnt, hrd⟩ := hread
  rw [hrd, bind_ok]
  simp only []
  have hfrom : fromLeBytesC r (decodeCombinationFinite b).1 cnt = .ok ((decodeCombinationFinite b).1 : Int) := by
    unfold fromLeBytesC
    cases hi : r.isI32 with
    | false => simp
    | true =>
      have hn5 := hr hi
      have : 2 ^ (2 * n + 6) ≤ 2 ^ 16 := Nat.pow_le_pow_right (by decide) (by omega)
      simp only [if_true, hcnt hi]
      rw [wrapI32_small _ (by omega)]
  rw [hfrom, bind_ok, dbg_pos (by omega), bind_ok,
    subBiasC_eq r c b n hn hl hr _ (by omega) (by
      intro hi
      have hn5 := hr hi
      have : 2 ^ (2 * n + 6) ≤ 2 ^ 16 := Nat.pow_le_pow_right (by decide) (by omega)
      unfold i32Max; omega), bind_ok]
  rfl

end Decstr.Proofs.Exec

#print axioms Decstr.Proofs.Exec.encodeCombinationFiniteC_eq
#print axioms Decstr.Proofs.Exec.decodeCombinationFiniteC_eq
