import Decstr.Model.ExecApi
import Decstr.Proofs.ExecFmt
import Decstr.Proofs.ExecParsedOK
import Decstr.Proofs.ExecText
/-!
# Proofs.ExecApi — the public operations: parsing, classification, byte-level construction
-/
namespace Decstr.Proofs.Exec
open Decstr.Model Decstr.Model.Exec Decstr.Spec Decstr.Proofs

/-! ## `try_parse_str` -/

/-- **`T::try_parse_str`**: no panic site is reachable for any input text, in either profile -/
theorem tryParseStrC_eq (T : Ty) (c : Bool) (input : List Nat) :
    tryParseStrC T c input = .ok (tryParseStr T input) := by
  unfold tryParseStrC tryParseStr
  rw [parseStrC_eq, bind_ok]
  cases hp : parseStr input with
  | error e => rfl
  | ok p =>
    simp only []
    rw [fromParsedC_of_parseStr T c input p hp, bind_ok]

/-! ## `try_parse` -/

theorem feed_failAt_beyond (p : DecimalParser) (frs : List (List Nat)) (k i : Nat) (h : i + frs.length < k) :
    feed p frs (.failAt k) i = feed p frs .none i := by
  induction frs generalizing p i with
  | nil =>
    simp only [List.length_nil] at h
    rw [feed_nil, feed_nil]
    have h1 : (Fault.failAt k == Fault.failAt i) = false := by simp; omega
    have h2 : (Fault.none == Fault.failAt i) = false := by simp
    rw [h1, h2]
  | cons f rest ih =>
    simp only [List.length_cons] at h
    have h1 : (Fault.failAt k == Fault.failAt i) = false := by simp; omega
    have h2 : (Fault.none == Fault.failAt i) = false := by simp
    have h3 : (Fault.failAt k == Fault.swallow) = false := by simp
    have h4 : (Fault.none == Fault.swallow) = false := by decide
    cases hf : isFailed p with
    | true =>
      cases p with
      | failed e =>
        rw [feed_cons_failed, feed_cons_failed]
        simp only [h1, h2, h3, h4, Bool.false_eq_true, if_false]
      | _ => simp [isFailed] at hf
    | false =>
      rw [feed_cons_live p f rest _ i hf, feed_cons_live p f rest _ i hf]
      simp only [h1, h2, h3, h4, Bool.false_eq_true, if_false]
      cases p.parseAscii f with
      | error e => rfl
      | ok p' => exact ih p' (i + 1) (by omega)

/-- an accepted streamed parse is also accepted from an honest `Display` -/
theorem parseFmt_ok_none (kind : BufKind) (frs : List (List Nat)) (fault : Fault) (p : Parsed)
    (h : parseFmt kind frs fault = .ok p) : parseFmt kind frs .none = .ok p := by
  cases fault with
  | none => exact h
  | swallow => exact C14_swallow kind frs p h
  | failAt k =>
    by_cases hk : k ≤ frs.length
    · obtain ⟨e, he⟩ := C14_fail kind frs k hk
      rw [he] at h; cases h
    · unfold parseFmt at h ⊢
      rw [feed_failAt_beyond _ frs k 0 (by omega)] at h
      exact h

/-- **the streaming parser** delivers `ParsedOK` results, for the array and vector buffers -/
theorem parseFmt_parsedOK (kind : BufKind) (hk : kind ≠ .str) (frs : List (List Nat)) (fault : Fault) (p : Parsed)
    (h : parseFmt kind frs fault = .ok p) : ParsedOK p := by
  have h0 := parseFmt_ok_none kind frs fault p h
  -- the fields are those of the string parser on the concatenation
  have hF : FieldsGood (asciiFields p) := by
    rcases parseFmt_fields_cases kind hk frs with hb | hf
    · rw [hb] at h0; cases h0
    · rw [h0, ← parseStr_fields] at hf
      cases hq : parseStr frs.flatten with
      | error e => rw [hq] at hf; cases hf
      | ok q =>
        rw [hq] at hf
        simp only [except_map_ok] at hf
        injection hf with hf
        rw [hf]
        exact fieldsGood_of_fieldsOK _ q (parseStr_fields_ascii _ q hq)
  -- the final parser state is in step with its buffer
  rw [parseFmt_none] at h0
  rcases feedM_cases (DecimalParser.begin (TextBuf.new kind [])) frs rfl with hb | hs
  · rw [hb] at h0; cases h0
  · rw [hs] at h0
    cases hd : stepsD (DecimalParser.begin (TextBuf.new kind [])) frs.flatten with
    | error e => rw [hd] at h0; cases h0
    | ok dp =>
      rw [hd] at h0
      have hI := (stepsD_view _ frs.flatten [] (by simpa using invD_begin_copy kind hk frs.flatten)).2 dp hd
      exact parsedOK_of_inv dp p h0 hI hF

theorem textKind_ok (T : Ty) : T.textKind ≠ .str ∧ ∀ cap, T.textKind = .array cap → 2 ≤ cap := by
  cases T <;> simp [Ty.textKind]

/-- **`T::try_parse`**: no panic site is reachable for any fragments and any behaviour of the `Display`, in either profile -/
theorem tryParseC_eq (T : Ty) (c : Bool) (frags : List (List Nat)) (fault : Fault) :
    tryParseC T c frags fault = .ok (tryParse T frags fault) := by
  unfold tryParseC tryParse
  obtain ⟨hk, hcap⟩ := textKind_ok T
  rw [parseFmtC_eq c T.textKind hk hcap, bind_ok]
  cases hp : parseFmt T.textKind frags fault with
  | error e => rfl
  | ok p =>
    simp only []
    rw [fromParsedC_eq T c p (parseFmt_parsedOK T.textKind hk frags fault p hp), bind_ok]

/-! ## classifiers -/

/-- **`is_sign_negative`, `is_finite`, `is_infinite`, `is_nan`, `is_quiet_nan`, `is_signaling_nan`** on any non-empty buffer -/
theorem classifyC_eq (c : Bool) (b : Buf) (h : 0 < b.len) : classifyC c b = .ok (classify b) := by
  unfold classifyC classify
  rw [isSignNegativeC_eq c b h, bind_ok, isFiniteC_eq c b h, bind_ok, isInfiniteC_eq c b h, bind_ok,
    isNanC_eq c b h, bind_ok, isQuietNanC_eq c b h, bind_ok, isSignalingNanC_eq c b h, bind_ok]

/-! ## `try_from_le_bytes` -/

theorem withAtLeastBytes_len (T : Ty) (len : Nat) (b : Buf) (h : T.withAtLeastBytes len = .ok b) : b = Buf.zero b.len := by
  cases T <;> simp only [Ty.withAtLeastBytes] at h <;>
    first
      | (split at h
         · cases h
         · injection h with h; subst h; rfl)
      | (injection h with h; subst h; rfl)

/-- **`try_from_le_bytes`**: no panic site for any byte slice -/
theorem tryFromLeBytesC_eq (T : Ty) (bytes : List Nat) : tryFromLeBytesC T bytes = .ok (tryFromLeBytes T bytes) := by
  unfold tryFromLeBytesC tryFromLeBytes
  simp only []
  split
  · rfl
  · cases hw : T.withAtLeastBytes bytes.length with
    | error e => rfl
    | ok buf =>
      simp only []
      split
      · rfl
      · rename_i hne
        have : buf.len = bytes.length := by simpa using hne
        rw [req_pos this, bind_ok]

/-- what `try_from_le_bytes` accepts is a well-formed buffer of a width the type can hold -/
theorem tryFromLeBytes_wf (T : Ty) (bytes : List Nat) (hb : ∀ x ∈ bytes, x < 256) (b : Buf)
    (h : tryFromLeBytes T bytes = .ok b) :
    ∃ n, WF b n ∧ bytes.length = 4 * n ∧ (T.expIsI32 = true → n ≤ 5) := by
  unfold tryFromLeBytes at h
  simp only [] at h
  split at h
  · cases h
  · rename_i hlen
    cases hw : T.withAtLeastBytes bytes.length with
    | error e => rw [hw] at h; cases h
    | ok buf =>
      rw [hw] at h
      simp only [] at h
      split at h
      · cases h
      · injection h with h
        subst h
        have h0 : bytes.length ≠ 0 := by intro e; apply hlen; simp [e]
        have h4 : bytes.length % 4 = 0 := by
          rcases Nat.eq_zero_or_pos (bytes.length % 4) with e | e
          · exact e
          · exfalso; apply hlen; simp; right; omega
        refine ⟨bytes.length / 4, WF.ofBytes bytes _ (by omega) (by omega) hb, by omega, ?_⟩
        intro hi
        cases T <;> simp [Ty.expIsI32] at hi <;> simp only [Ty.withAtLeastBytes] at hw <;>
          (split at hw
           · cases hw
           · omega)

end Decstr.Proofs.Exec

#print axioms Decstr.Proofs.Exec.tryParseStrC_eq
#print axioms Decstr.Proofs.Exec.tryParseC_eq
#print axioms Decstr.Proofs.Exec.classifyC_eq
#print axioms Decstr.Proofs.Exec.tryFromLeBytesC_eq
