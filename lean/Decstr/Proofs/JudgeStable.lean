import Decstr.Proofs.JudgeText
import Decstr.Proofs.JudgeParse
/-!
# Proofs.JudgeStable — the printed text is a function of the datum and the precision; second round trips

`toText T b` for a well-formed buffer of `4n` bytes depends on the bits only through `Spec.decode ⟨n⟩ b.bits` and on the
width only through the precision `9n − 2` (`toText_eq_textOf`); the precision matters in exactly one place, the choice
between `0.000ddd` and scientific notation.  From this: formatting the buffer a dynamic type read back from its own text
gives the same text again, so a second round trip changes nothing (`reparse_stable`).
-/
namespace Decstr.Proofs.Judge
open Decstr.Model Decstr.Spec Decstr.Proofs Decstr.Props

/-- the significant digits of a coefficient: its decimal text, nothing for zero -/
def sigStr (c : Nat) : List Nat := if c = 0 then [] else natDigits c

theorem stripped_eq_sigStr (ds : List Nat) (hds : AsciiDigits ds) : ds.dropWhile (· == 48) = sigStr (valOf ds) := by
  have h := stripped_eq_natDigits ds hds
  have hv := valOf_dropWhile_zero ds
  unfold sigStr
  cases hst : ds.dropWhile (· == 48) with
  | nil =>
    rw [hst] at hv
    have : valOf ds = 0 := by rw [← hv]; rfl
    simp [this]
  | cons d r =>
    rw [hst] at h
    simp only [List.length_cons, Nat.zero_add, Nat.add_one_ne_zero, if_false] at h
    have hd : d ≠ 48 := by
      have := List.head_dropWhile_not (· == 48) (l := ds) (by rw [hst]; simp)
      simp only [hst, List.head_cons] at this
      simpa using this
    have hne : valOf ds ≠ 0 := by
      intro h0
      rw [h0] at h
      have : natDigits 0 = [48] := by decide
      rw [this] at h
      injection h with h1 _
      exact hd h1
    simp [hne, h]

/-- the finite arm of the formatter on the stripped digit string `S` (the layouts as explicit texts) -/
def fmtS (T : Ty) (P : Nat) (S : List Nat) (e : Int) : List Nat :=
  let inI32 : Bool := T.expIsI32 || (decide (i32Min ≤ e) && decide (e ≤ i32Max))
  if e = 0 then (if 0 + S.length = 0 then [48] else S)
  else if e < 0 ∧ inI32 = true then
    if (S.length : Int) + e > 0 then
      S.take ((S.length : Int) + e).toNat ++ 46 :: S.drop ((S.length : Int) + e).toNat
    else
      if ((S.length : Int) + e).natAbs + 2 ≤ 7 ∧ 1 + ((S.length : Int) + e).natAbs + S.length ≤ P then
        [48, 46] ++ List.replicate ((S.length : Int) + e).natAbs 48 ++
          (if ((S.length : Int) + e).natAbs + S.length = 0 then [48] else S)
      else sciBody S ++ 101 :: toDecimal (T.raise e (S.length - 1))
  else sciBody S ++ 101 :: toDecimal (T.raise e (S.length - 1))

theorem fmtCore_eq_fmtS {n : Nat} {S : List Nat} {lz : LeadingZeroes} {rest : List (List Nat)}
    (hsk : SkipOK n S lz rest) (hn : 0 < n) (T : Ty) (e : Int) :
    fmtCore T (9 * n - 2) lz rest e = fmtS T (9 * n - 2) S e := by
  have hnz : (((9 * n - 2 + 2 : Nat) : Int) - (lz.skipped : Int)) = (S.length : Int) := by
    have := hsk.count; omega
  unfold fmtCore fmtS
  simp only [hnz, writeAllAsInteger_eq hsk, writeAllAsScientific_eq hsk, Int.toNat_natCast]
  by_cases he0 : e = 0
  · simp only [he0, if_true]
  · simp only [he0, if_false]
    split
    · split
      · rename_i hneg hpos
        rw [writeWithPoint_false _ _ _ (Nat.zero_le _), groups_flatten hsk]
        have hc : ¬ (0 + S.length ≤ ((S.length : Int) + e).toNat) := by omega
        simp only [hc, if_false, Nat.sub_zero]
      · rfl
    · rfl

/-- the NaN arm on the stripped payload digits -/
def nanS (signaling : Bool) (S : List Nat) : List Nat :=
  (if signaling then [115, 110, 97, 110] else [110, 97, 110]) ++ (if S.isEmpty then [] else [40] ++ S ++ [41])

/-- the text of a datum at precision `P` -/
def textOf (T : Ty) (P : Nat) : Datum → List Nat
  | .fin s c e => signText s ++ fmtS T P (sigStr c) e
  | .inf s => signText s ++ [105, 110, 102]
  | .nan s g p => signText s ++ nanS g (sigStr p)

/-- **the printed text is a function of the decoded datum and the precision** -/
theorem toText_eq_textOf (T : Ty) (b : Buf) (n : Nat) (hwf : WF b n) :
    toText T b = textOf T (9 * n - 2) (decode ⟨n⟩ b.bits) := by
  by_cases hfin : isFinite b = true
  · rw [decode_finite b n hwf hfin, toText_finite T b hfin, DecodeAux.precision_eq b n hwf, fmtFinite_eq_core]
    have hdo := C02.digitsOK b n hwf
    have hsk := skip_spec n _ _ hdo
    obtain ⟨_, ha⟩ := allDigits_ascii b n hwf
    rw [fmtCore_eq_fmtS hsk hwf.pos]
    simp only [textOf]
    rw [← stripped_eq_sigStr _ ha]
    rfl
  · have hfin' : isFinite b = false := by simpa using hfin
    by_cases hinf : isInfinite b = true
    · rw [decode_infinite b n hwf hinf, toText_infinite T b hfin' hinf]; rfl
    · have hinf' : isInfinite b = false := by simpa using hinf
      have hnan : isNan b = true := by
        rcases C08.C08_partition b with ⟨h1, _, _⟩ | ⟨_, h2, _⟩ | ⟨_, _, h3⟩
        · rw [h1] at hfin'; cases hfin'
        · rw [h2] at hinf'; cases hinf'
        · exact h3
      rw [decode_nan b n hwf hnan, toText_nan T b hfin' hinf']
      have hk := C08.C08_nan_kinds b
      rw [hnan] at hk
      have hq : isQuietNan b = !isSignalingNan b := by
        cases hq : isQuietNan b <;> cases hs : isSignalingNan b <;> simp [hq, hs] at hk ⊢
      simp only [textOf, fmtNan, nanS, hq]
      rw [← stripped_eq_sigStr _ (DecodeAux.decodeDeclets_flatten_ascii b n hwf)]
      cases isSignalingNan b <;> rfl

/-! ## second round trips -/

theorem sigStr_ascii (c : Nat) : AsciiDigits (sigStr c) := by
  unfold sigStr
  split
  · intro d hd; simp at hd
  · exact natDigits_ascii c

/-- the precision enters the finite arm through one test only -/
theorem fmtS_congr (T : Ty) (P P' : Nat) (S : List Nat) (e : Int)
    (h : e < 0 → ¬ ((S.length : Int) + e > 0) → ((S.length : Int) + e).natAbs + 2 ≤ 7 →
      (1 + ((S.length : Int) + e).natAbs + S.length ≤ P ↔ 1 + ((S.length : Int) + e).natAbs + S.length ≤ P')) :
    fmtS T P S e = fmtS T P' S e := by
  unfold fmtS
  simp only
  by_cases he0 : e = 0
  · simp only [he0, if_true]
  · simp only [he0, if_false]
    by_cases h1 : e < 0 ∧ (T.expIsI32 || (decide (i32Min ≤ e) && decide (e ≤ i32Max))) = true
    · simp only [h1, and_self, if_true]
      by_cases h2 : (S.length : Int) + e > 0
      · simp only [h2, if_true]
      · simp only [h2, if_false]
        by_cases h3 : ((S.length : Int) + e).natAbs + 2 ≤ 7
        · have := h h1.1 h2 h3
          simp only [h3, true_and, this]
        · simp only [h3, false_and, if_false]
    · simp only [h1, if_false]

/-- the `0.000ddd` layout as text, and how it is read back -/
theorem parse_zero_point (s : Bool) (k : Nat) (S : List Nat) (hS : AsciiDigits S) (hne : k + S.length ≠ 0) :
    parse (signText s ++ ([48, 46] ++ List.replicate k 48 ++ S)) =
      some (.finite s [0] (digitVals (List.replicate k 48 ++ S)) none) := by
  have hfa : AsciiDigits (List.replicate k 48 ++ S) := asciiDigits_append.mpr ⟨asciiDigits_replicate_zero _, hS⟩
  have hfne : List.replicate k 48 ++ S ≠ [] := by
    intro h; apply hne; have := congrArg List.length h; simpa using this
  have := parse_frac s (i := [48]) (by intro d hd; simp at hd; omega) (by simp) hfa hfne
  simpa using this

/-- **a dynamic type that has read its own text back prints the same text again** (fixed-width types; `Bitstring`;
    `BigBitstring` up to 160 bits) -/
theorem reparse_text_eq (T : Ty) (b : Buf) (n : Nat) (hwf : WF b n) (hT : C02.Holds T n)
    (hfix : ∀ w, T.fixedN = some w → n = w) (hbig : T = .big → n ≤ 5)
    (b' : Buf) (n' : Nat) (hr : tryParseStr T (toText T b) = .ok b') (hwf' : WF b' n')
    (hdec : decode ⟨n'⟩ b'.bits = decode ⟨n⟩ b.bits) : toText T b' = toText T b := by
  have htxt := toText_eq_textOf T b n hwf
  rw [toText_eq_textOf T b' n' hwf', hdec, htxt]
  cases hD : decode ⟨n⟩ b.bits with
  | inf s => rfl
  | nan s g p => rfl
  | fin s c e =>
    simp only [textOf]
    congr 1
    -- what the first round trip did
    obtain ⟨num, hparse, hdatum, _, hcount⟩ := C02.C02_format T b n hwf hT
    rw [hD] at hdatum
    cases num with
    | inf s' => simp [Numeral.datum] at hdatum
    | nan s' g' pl => simp [Numeral.datum] at hdatum
    | finite s' i fr ex =>
      rw [C03.datum_finite] at hdatum
      injection hdatum with hs hc he
      obtain ⟨_, hq1, hq2⟩ := decode_fin_bounds n hwf.pos b.bits _ _ _ hD
      simp only [Numeral.digitCount, C02.nanExtra, Nat.add_zero] at hcount
      have hout := C06.C01_tryParseStr_finite T (toText T b) s' i fr ex hparse
      unfold C06.FiniteOutcome at hout
      rw [hr] at hout
      split at hout
      · cases hout
      · obtain ⟨n'', hn'', hb', hfit, _, _, hcapn, hw⟩ := hout
        have hnn : n'' = n' := by
          have := hwf'.len; rw [hb'] at this; simp only at this; omega
        subst hnn
        rw [he] at hfit hw
        have hfitn : (Fmt.mk n).fitsB (i.length + fr.length) (some e) = true := by
          simp [Fmt.fitsB, Fmt.p, hcount, hq1, hq2]
        have hneed := (need_le_iff _ _ n hwf.pos).2 hfitn
        -- the width read back is at most the original
        have hle : n'' ≤ n := by
          cases hf : T.fixedN with
          | some w => rw [hf] at hw; rw [hw, hfix w hf]
          | none =>
            rw [hf] at hw
            simp only at hw
            by_cases hTb : T = .big
            · have := hbig hTb
              have := hw.2.2 (by omega)
              omega
            · have h5 : n'' ≤ 5 := by
                have : ∃ cap, T.capN = some cap ∧ cap ≤ 5 := by
                  cases T <;> simp [Ty.capN] at hTb ⊢
                obtain ⟨cap, hcap, hc5⟩ := this
                have := hcapn cap hcap
                omega
              have := hw.2.2 (by omega)
              omega
        apply fmtS_congr
        intro hneg hnpos hlz
        constructor
        · intro h; omega
        · intro hcond
          -- the text was the `0.000ddd` layout; its digit count is what the reader had to hold
          have hL : ((sigStr c).length : Int) + e ≠ 0 ∨ (sigStr c).length ≠ 0 := by omega
          have hne : (((sigStr c).length : Int) + e).natAbs + (sigStr c).length ≠ 0 := by omega
          have htext : toText T b = signText s ++ ([48, 46] ++
              List.replicate (((sigStr c).length : Int) + e).natAbs 48 ++ sigStr c) := by
            rw [htxt, hD]
            simp only [textOf, fmtS]
            have he0 : e ≠ 0 := by omega
            have hin : (T.expIsI32 || (decide (i32Min ≤ e) && decide (e ≤ i32Max))) = true := by
              by_cases hi : T.expIsI32 = true
              · simp [hi]
              · have hTb : T = .big := by cases T <;> simp [Ty.expIsI32] at hi ⊢
                obtain ⟨_, r2, _⟩ := C03.small_range n hwf.pos (hbig hTb)
                have : i32Min ≤ e ∧ e ≤ i32Max := by simp only [i32Min, i32Max]; omega
                simp [this.1, this.2]
            simp only [he0, if_false, hneg, hin, and_self, if_true, hnpos, hlz, hcond, hne]
          have hp2 := parse_zero_point s _ _ (sigStr_ascii c) hne
          rw [← htext, hparse] at hp2
          injection hp2 with hp2
          injection hp2 with _ hi hfr _
          have hd : i.length + fr.length = 1 + ((((sigStr c).length : Int) + e).natAbs + (sigStr c).length) := by
            rw [hi, hfr]; simp [digitVals]
          rw [hd] at hfit
          simp only [Fmt.fitsB, Fmt.p, Bool.and_eq_true, decide_eq_true_eq] at hfit
          have := of_decide_eq_true hfit.1
          omega

/-- **a second round trip changes nothing**: the buffer a type reads back from its own text is read back again from
    the text it prints -/
theorem reparse_stable (T : Ty) (b : Buf) (n : Nat) (hwf : WF b n) (hT : C02.Holds T n)
    (hcap : ∀ cap, T.capN = some cap → n ≤ cap)
    (hfix : ∀ w, T.fixedN = some w → n = w) (hbig : T = .big → n ≤ 5) :
    ∃ b', tryParseStr T (toText T b) = .ok b' ∧ tryParseStr T (toText T b') = .ok b' := by
  obtain ⟨b', n', hr, hwf', hdec, _, _⟩ := C03.C03_reparse T b n hwf hT hcap
  refine ⟨b', hr, ?_⟩
  rw [reparse_text_eq T b n hwf hT hfix hbig b' n' hr hwf' hdec]
  exact hr

end Decstr.Proofs.Judge

#print axioms Decstr.Proofs.Judge.toText_eq_textOf
#print axioms Decstr.Proofs.Judge.reparse_text_eq
#print axioms Decstr.Proofs.Judge.reparse_stable
