import Decstr.Proofs.Basic
/-!
# Proofs.Widths — width selection (property C07; used by C04, C17)

The model's width-selection functions (`widthForDigits`, `widthForExponent`, `bytesForPrecision`, with their
closed-form tails `widthForDigitsCalc` / `widthForExponentCalc`) against the specification's smallest sufficient
width `Spec.need`.
-/
namespace Decstr.Proofs
open Decstr.Model Decstr.Spec

/-! ## The format parameters as arithmetic -/

/-- `2^(2n+3)`: `emax n = 3 * pw n` -/
def pw (n : Nat) : Nat := 2 ^ (2 * n + 3)

theorem pw_succ (n : Nat) : pw (n + 1) = 4 * pw n := by
  unfold pw
  have : 2 * (n + 1) + 3 = (2 * n + 3) + 2 := by omega
  rw [this, Nat.pow_add]; omega

theorem pw_zero : pw 0 = 8 := by decide

theorem pw_pos (n : Nat) : 0 < pw n := Nat.pow_pos (by decide)

theorem pw_mono {m n : Nat} (h : m ≤ n) : pw m ≤ pw n :=
  Nat.pow_le_pow_right (by decide) (by omega)

/-- a (very weak, but linear) lower bound that is enough for every estimate below -/
theorem pw_ge (n : Nat) : 16 * n + 8 ≤ pw n := by
  induction n with
  | zero => simp [pw_zero]
  | succ k ih => rw [pw_succ]; omega

theorem fitsB_none (n d : Nat) : (Fmt.mk n).fitsB d none = true ↔ d ≤ 9 * n - 2 := by
  simp only [Fmt.fitsB, Bool.and_true, decide_eq_true_eq]
  simp only [Fmt.p]

theorem fitsB_some (n d : Nat) (e : Int) :
    (Fmt.mk n).fitsB d (some e) = true ↔
      d ≤ 9 * n - 2 ∧ -((3 * pw n + (9 * n - 2) - 2 : Nat) : Int) ≤ e ∧
        e ≤ ((3 * pw n : Nat) : Int) - ((9 * n - 2 : Nat) : Int) + 1 := by
  simp only [Fmt.fitsB, Bool.and_eq_true, decide_eq_true_eq]
  simp only [Fmt.p, Fmt.qmin, Fmt.qmax, Fmt.bias, Fmt.emax, pw]

/-- a fit with an exponent is a fit of the digits and a fit of the exponent -/
theorem fitsB_some_split (n d : Nat) (e : Int) (hn : 0 < n) :
    (Fmt.mk n).fitsB d (some e) = true ↔
      (Fmt.mk n).fitsB d none = true ∧ (Fmt.mk n).fitsB 1 (some e) = true := by
  rw [fitsB_some, fitsB_some, fitsB_none]
  constructor
  · rintro ⟨h1, h2, h3⟩; exact ⟨h1, by omega, h2, h3⟩
  · rintro ⟨h1, _, h2, h3⟩; exact ⟨h1, h2, h3⟩

theorem fitsB_succ (n d : Nat) (q : Option Int) (hn : 0 < n) (h : (Fmt.mk n).fitsB d q = true) :
    (Fmt.mk (n + 1)).fitsB d q = true := by
  cases q with
  | none => rw [fitsB_none] at *; omega
  | some e =>
    rw [fitsB_some] at *
    rw [pw_succ]
    have := pw_pos n
    omega

/-- fitting is monotone in the width -/
theorem fits_mono (m n d : Nat) (q : Option Int) (hm : 0 < m) (hmn : m ≤ n)
    (h : (Fmt.mk m).fitsB d q = true) : (Fmt.mk n).fitsB d q = true := by
  induction hmn with
  | refl => exact h
  | @step k hk ih => exact fitsB_succ k d q (Nat.lt_of_lt_of_le hm hk) ih

/-! ## `need` is the least sufficient width -/

theorem needFrom_spec (d : Nat) (q : Option Int) (fuel n : Nat)
    (hex : ∃ k, n ≤ k ∧ k < n + fuel ∧ (Fmt.mk k).fitsB d q = true) :
    n ≤ needFrom d q fuel n ∧ (Fmt.mk (needFrom d q fuel n)).fitsB d q = true ∧
      ∀ m, n ≤ m → m < needFrom d q fuel n → (Fmt.mk m).fitsB d q = false := by
  induction fuel generalizing n with
  | zero => obtain ⟨k, h1, h2, _⟩ := hex; omega
  | succ f ih =>
    unfold needFrom
    by_cases hn : (Fmt.mk n).fitsB d q = true
    · rw [if_pos hn]; exact ⟨Nat.le_refl _, hn, fun m h1 h2 => by omega⟩
    · rw [if_neg hn]
      obtain ⟨k, h1, h2, h3⟩ := hex
      have hk : k ≠ n := fun h => hn (h ▸ h3)
      obtain ⟨a, b, c⟩ := ih (n + 1) ⟨k, by omega, by omega, h3⟩
      refine ⟨by omega, b, fun m hm1 hm2 => ?_⟩
      by_cases hmn : m = n
      · subst hmn; simpa using hn
      · exact c m (by omega) hm2

/-- the fuel of `need` is enough: width `d + |q| + 1` always fits -/
theorem fits_fuel (d : Nat) (q : Option Int) :
    (Fmt.mk (d + (q.getD 0).natAbs + 1)).fitsB d q = true := by
  cases q with
  | none => rw [fitsB_none]; omega
  | some e =>
    rw [fitsB_some]
    have := pw_ge (d + e.natAbs + 1)
    simp only [Option.getD_some]
    omega

/-- `need` really is the least sufficient width -/
theorem need_spec (d : Nat) (q : Option Int) :
    0 < need d q ∧ (Fmt.mk (need d q)).fitsB d q = true ∧
      ∀ m, 0 < m → m < need d q → (Fmt.mk m).fitsB d q = false := by
  have := needFrom_spec d q (d + (q.getD 0).natAbs + 1) 1
    ⟨d + (q.getD 0).natAbs + 1, by omega, by omega, fits_fuel d q⟩
  unfold need
  exact ⟨by omega, this.2.1, fun m h1 h2 => this.2.2 m h1 h2⟩

/-- `need` as a Galois connection: width `n ≥ 1` is sufficient iff it is at least `need` -/
theorem need_le_iff (d : Nat) (q : Option Int) (n : Nat) (hn : 0 < n) :
    need d q ≤ n ↔ (Fmt.mk n).fitsB d q = true := by
  obtain ⟨h0, h1, h2⟩ := need_spec d q
  constructor
  · intro h; exact fits_mono _ _ d q h0 h h1
  · intro h
    apply Nat.le_of_not_lt
    intro hlt
    have := h2 n hn hlt
    rw [h] at this; exact Bool.noConfusion this

theorem need_pos (d : Nat) (q : Option Int) : 0 < need d q := (need_spec d q).1

/-- uniqueness: a positive width that fits while its predecessor does not (or is 0) is `need` -/
theorem need_eq (d : Nat) (q : Option Int) (n : Nat) (hn : 0 < n) (hfit : (Fmt.mk n).fitsB d q = true)
    (hprev : n = 1 ∨ (Fmt.mk (n - 1)).fitsB d q = false) : need d q = n := by
  have h1 := (need_le_iff d q n hn).2 hfit
  have h0 := need_pos d q
  rcases hprev with h | h
  · omega
  · by_cases hn1 : n - 1 = 0
    · omega
    · have : ¬ need d q ≤ n - 1 := by
        rw [need_le_iff d q (n - 1) (by omega), h]; exact Bool.noConfusion
      omega

/-- with an exponent, the needed width is the larger of what the digits and what the exponent need -/
theorem need_some_eq_max (d : Nat) (e : Int) :
    need d (some e) = max (need d none) (need 1 (some e)) := by
  have hpos : 0 < max (need d none) (need 1 (some e)) := by
    have := need_pos d none; omega
  apply Nat.le_antisymm
  · rw [need_le_iff _ _ _ hpos, fitsB_some_split _ _ _ hpos,
      ← need_le_iff _ _ _ hpos, ← need_le_iff _ _ _ hpos]
    omega
  · have h := (need_spec d (some e)).2.1
    have hp := need_pos d (some e)
    rw [fitsB_some_split _ _ _ hp, ← need_le_iff _ _ _ hp, ← need_le_iff _ _ _ hp] at h
    omega

/-! ## Digits -/

/-- `need d none` in closed form: the least `N ≥ 1` with `d ≤ 9N − 2` -/
theorem need_none_bounds (d : Nat) :
    0 < need d none ∧ d ≤ 9 * need d none - 2 ∧ (need d none = 1 ∨ 9 * (need d none - 1) - 2 < d) := by
  obtain ⟨h0, h1, h2⟩ := need_spec d none
  rw [fitsB_none] at h1
  refine ⟨h0, h1, ?_⟩
  by_cases h : need d none = 1
  · exact Or.inl h
  · right
    have := h2 (need d none - 1) (by omega) (by omega)
    rw [← Bool.not_eq_true, fitsB_none] at this
    omega

theorem need_none_eq (d : Nat) : need d none = if d ≤ 7 then 1 else (d + 2 + 8) / 9 := by
  have := need_none_bounds d
  split <;> omega

/-- the closed-form tail: always one more than `⌊(d+2)/9⌋` words -/
theorem widthForDigitsCalc_eq (d : Nat) : widthForDigitsCalc d = 32 * ((d + 2) / 9 + 1) := by
  unfold widthForDigitsCalc
  simp only
  split <;> omega

/-- C07 for the digit count alone -/
theorem widthForDigits_spec (d : Nat) (hd : 0 < d) :
    ∃ n, widthForDigits d = 32 * n ∧ need d none ≤ n ∧ n ≤ need d none + 1 ∧
      (d ≤ 43 → n = need d none) := by
  have hN := need_none_eq d
  unfold widthForDigits
  by_cases h1 : d ≤ 7
  · exact ⟨1, by simp [h1], by split at hN <;> omega⟩
  by_cases h2 : d ≤ 16
  · exact ⟨2, by simp [h1, h2], by split at hN <;> omega⟩
  by_cases h3 : d ≤ 25
  · exact ⟨3, by simp [h1, h2, h3], by split at hN <;> omega⟩
  by_cases h4 : d ≤ 34
  · exact ⟨4, by simp [h1, h2, h3, h4], by split at hN <;> omega⟩
  by_cases h5 : d ≤ 43
  · exact ⟨5, by simp [h1, h2, h3, h4, h5], by split at hN <;> omega⟩
  · refine ⟨(d + 2) / 9 + 1, ?_, ?_⟩
    · simp only [h1, h2, h3, h4, h5, if_false]; exact widthForDigitsCalc_eq d
    · split at hN <;> omega

/-- the digit width in words, as a function -/
theorem widthForDigits_eq (d : Nat) :
    widthForDigits d = 32 * (if d ≤ 43 then need d none else (d + 2) / 9 + 1) := by
  have hN := need_none_eq d
  unfold widthForDigits
  by_cases h1 : d ≤ 7
  · simp only [h1, if_true] at hN ⊢; split <;> omega
  by_cases h2 : d ≤ 16
  · simp only [h1, h2, if_true, if_false] at hN ⊢; split <;> omega
  by_cases h3 : d ≤ 25
  · simp only [h1, h2, h3, if_true, if_false] at hN ⊢; split <;> omega
  by_cases h4 : d ≤ 34
  · simp only [h1, h2, h3, h4, if_true, if_false] at hN ⊢; split <;> omega
  by_cases h5 : d ≤ 43
  · simp only [h1, h2, h3, h4, h5, if_true, if_false] at hN ⊢; omega
  · simp only [h1, h2, h3, h4, h5, if_false]; exact widthForDigitsCalc_eq d

/-! ## Exponent -/

theorem pw_1 : pw 1 = 32 := by decide
theorem pw_2 : pw 2 = 128 := by decide
theorem pw_3 : pw 3 = 512 := by decide
theorem pw_4 : pw 4 = 2048 := by decide
theorem pw_5 : pw 5 = 8192 := by decide

/-- the exponent range of width `32n` as plain numbers (`n ≥ 1`, one digit) -/
theorem fitsB_one_some (n : Nat) (e : Int) (hn : 0 < n) :
    (Fmt.mk n).fitsB 1 (some e) = true ↔
      -(3 * (pw n : Int) + 9 * n - 4) ≤ e ∧ e ≤ 3 * (pw n : Int) - 9 * n + 3 := by
  rw [fitsB_some]
  have := pw_pos n
  omega

/-- the five table rows of `widthForExponent` are the exact ranges of the first five formats -/
theorem fits_table (e : Int) :
    ((Fmt.mk 1).fitsB 1 (some e) = true ↔ (-101 ≤ e ∧ e ≤ 90)) ∧
    ((Fmt.mk 2).fitsB 1 (some e) = true ↔ (-398 ≤ e ∧ e ≤ 369)) ∧
    ((Fmt.mk 3).fitsB 1 (some e) = true ↔ (-1559 ≤ e ∧ e ≤ 1512)) ∧
    ((Fmt.mk 4).fitsB 1 (some e) = true ↔ (-6176 ≤ e ∧ e ≤ 6111)) ∧
    ((Fmt.mk 5).fitsB 1 (some e) = true ↔ (-24617 ≤ e ∧ e ≤ 24534)) := by
  rw [fitsB_one_some 1 e (by decide), fitsB_one_some 2 e (by decide), fitsB_one_some 3 e (by decide),
    fitsB_one_some 4 e (by decide), fitsB_one_some 5 e (by decide), pw_1, pw_2, pw_3, pw_4, pw_5]
  omega

/-- the window `[6Q, 24Q)`, `Q = 2^(2n−1)`, lies inside the range of width `n` and outside that of `n − 2` -/
theorem exp_window (e : Int) (n : Nat) (hn : 3 ≤ n)
    (hlo : 6 * pw (n - 2) ≤ e.natAbs) (hhi : e.natAbs < 24 * pw (n - 2)) :
    (Fmt.mk n).fitsB 1 (some e) = true ∧ (Fmt.mk (n - 2)).fitsB 1 (some e) = false := by
  have hQ := pw_ge (n - 2)
  have e1 : pw n = 16 * pw (n - 2) := by
    have h1 : n = (n - 2) + 1 + 1 := by omega
    conv => lhs; rw [h1]
    rw [pw_succ, pw_succ]; omega
  constructor
  · rw [fitsB_one_some n e (by omega), e1]; omega
  · rw [← Bool.not_eq_true, fitsB_one_some (n - 2) e (by omega)]; omega

/-- `2^L` in terms of `pw (L/2 − 2)` -/
theorem two_pow_eq (L : Nat) (hL : 4 ≤ L) :
    (L % 2 = 0 ∧ 2 ^ L = 2 * pw (L / 2 - 2)) ∨ (L % 2 = 1 ∧ 2 ^ L = 4 * pw (L / 2 - 2)) := by
  unfold pw
  rcases Nat.mod_two_eq_zero_or_one L with h | h
  · left
    refine ⟨h, ?_⟩
    have : L = (2 * (L / 2 - 2) + 3) + 1 := by omega
    conv => lhs; rw [this]
    rw [Nat.pow_succ]; omega
  · right
    refine ⟨h, ?_⟩
    have : L = (2 * (L / 2 - 2) + 3) + 2 := by omega
    conv => lhs; rw [this]
    rw [Nat.pow_add]; omega

/-- the closed-form tail: `L/2` words, where `L = ⌊log2 (|e|/3)⌋` -/
theorem widthForExponentCalc_eq (a : Nat) (h : 3 ≤ (a / 3).log2) :
    widthForExponentCalc a = 32 * ((a / 3).log2 / 2) := by
  unfold widthForExponentCalc log2Floor
  have h2 : Nat.log2 2 = 1 := by decide
  rw [h2, Nat.div_one]
  simp only
  generalize (a / 3).log2 = L at h ⊢
  split <;> omega

/-- beyond the table: the computed width fits, and two steps less does not -/
theorem exp_tail (e : Int) (h : ¬ (-24617 ≤ e ∧ e ≤ 24534)) :
    ∃ n, 6 ≤ n ∧ widthForExponent e = 32 * n ∧
      (Fmt.mk n).fitsB 1 (some e) = true ∧ (Fmt.mk (n - 2)).fitsB 1 (some e) = false := by
  have ha : 24535 ≤ e.natAbs := by omega
  have ha3 : 8178 ≤ e.natAbs / 3 := by omega
  have hne : e.natAbs / 3 ≠ 0 := by omega
  have hL : 12 ≤ (e.natAbs / 3).log2 := by
    rw [Nat.le_log2 hne]
    have : (2 : Nat) ^ 12 = 4096 := by decide
    omega
  have hlo := Nat.log2_self_le hne
  have hhi := @Nat.lt_log2_self (e.natAbs / 3)
  refine ⟨(e.natAbs / 3).log2 / 2, by omega, ?_, ?_⟩
  · unfold widthForExponent
    have t1 : ¬ (-101 ≤ e ∧ e ≤ 90) := by omega
    have t2 : ¬ (-398 ≤ e ∧ e ≤ 369) := by omega
    have t3 : ¬ (-1559 ≤ e ∧ e ≤ 1512) := by omega
    have t4 : ¬ (-6176 ≤ e ∧ e ≤ 6111) := by omega
    rw [if_neg t1, if_neg t2, if_neg t3, if_neg t4, if_neg h]
    exact widthForExponentCalc_eq _ (by omega)
  · rw [Nat.pow_succ] at hhi
    generalize (e.natAbs / 3).log2 = L at hL hlo hhi ⊢
    apply exp_window e (L / 2) (by omega)
    · rcases two_pow_eq L (by omega) with ⟨_, h2⟩ | ⟨_, h2⟩ <;> rw [h2] at hlo <;> omega
    · rcases two_pow_eq L (by omega) with ⟨_, h2⟩ | ⟨_, h2⟩ <;> rw [h2] at hhi <;> omega

/-- beyond the table the exponent width is `⌊log2 (|e|/3)⌋ / 2` words -/
theorem widthForExponent_tail_eq (e : Int) (h : ¬ (-24617 ≤ e ∧ e ≤ 24534)) :
    widthForExponent e = 32 * ((e.natAbs / 3).log2 / 2) := by
  have hL : 12 ≤ (e.natAbs / 3).log2 := by
    rw [Nat.le_log2 (by omega)]
    have : (2 : Nat) ^ 12 = 4096 := by decide
    omega
  unfold widthForExponent
  have t1 : ¬ (-101 ≤ e ∧ e ≤ 90) := by omega
  have t2 : ¬ (-398 ≤ e ∧ e ≤ 369) := by omega
  have t3 : ¬ (-1559 ≤ e ∧ e ≤ 1512) := by omega
  have t4 : ¬ (-6176 ≤ e ∧ e ≤ 6111) := by omega
  rw [if_neg t1, if_neg t2, if_neg t3, if_neg t4, if_neg h]
  exact widthForExponentCalc_eq _ (by omega)

/-- C07 for the exponent alone (d = 1 always fits) -/
theorem widthForExponent_spec (e : Int) :
    ∃ n, widthForExponent e = 32 * n ∧ need 1 (some e) ≤ n ∧ n ≤ need 1 (some e) + 1 ∧
      (need 1 (some e) ≤ 5 → n = need 1 (some e)) := by
  obtain ⟨f1, f2, f3, f4, f5⟩ := fits_table e
  by_cases h1 : -101 ≤ e ∧ e ≤ 90
  · have := need_eq 1 (some e) 1 (by decide) (f1.2 h1) (Or.inl rfl)
    exact ⟨1, by simp only [widthForExponent, if_pos h1], by omega⟩
  have g1 : (Fmt.mk 1).fitsB 1 (some e) = false := by rw [← Bool.not_eq_true, f1]; exact h1
  by_cases h2 : -398 ≤ e ∧ e ≤ 369
  · have := need_eq 1 (some e) 2 (by decide) (f2.2 h2) (Or.inr g1)
    exact ⟨2, by simp only [widthForExponent, if_neg h1, if_pos h2], by omega⟩
  have g2 : (Fmt.mk 2).fitsB 1 (some e) = false := by rw [← Bool.not_eq_true, f2]; exact h2
  by_cases h3 : -1559 ≤ e ∧ e ≤ 1512
  · have := need_eq 1 (some e) 3 (by decide) (f3.2 h3) (Or.inr g2)
    exact ⟨3, by simp only [widthForExponent, if_neg h1, if_neg h2, if_pos h3], by omega⟩
  have g3 : (Fmt.mk 3).fitsB 1 (some e) = false := by rw [← Bool.not_eq_true, f3]; exact h3
  by_cases h4 : -6176 ≤ e ∧ e ≤ 6111
  · have := need_eq 1 (some e) 4 (by decide) (f4.2 h4) (Or.inr g3)
    exact ⟨4, by simp only [widthForExponent, if_neg h1, if_neg h2, if_neg h3, if_pos h4], by omega⟩
  have g4 : (Fmt.mk 4).fitsB 1 (some e) = false := by rw [← Bool.not_eq_true, f4]; exact h4
  by_cases h5 : -24617 ≤ e ∧ e ≤ 24534
  · have := need_eq 1 (some e) 5 (by decide) (f5.2 h5) (Or.inr g4)
    exact ⟨5, by simp only [widthForExponent, if_neg h1, if_neg h2, if_neg h3, if_neg h4, if_pos h5], by omega⟩
  have g5 : ¬ (Fmt.mk 5).fitsB 1 (some e) = true := by rw [f5]; exact h5
  obtain ⟨n, hn, hw, hfit, hnot⟩ := exp_tail e h5
  have u1 : need 1 (some e) ≤ n := (need_le_iff _ _ n (by omega)).2 hfit
  have u2 : ¬ need 1 (some e) ≤ n - 2 := by
    rw [need_le_iff _ _ (n - 2) (by omega), hnot]; exact Bool.noConfusion
  have u3 : ¬ need 1 (some e) ≤ 5 := by rw [need_le_iff _ _ 5 (by decide)]; exact g5
  exact ⟨n, hw, by omega⟩

/-! ## Digits and exponent together -/

/-- C07: never under-provisions, at most one step above the minimum, exactly minimal up to 160 bits -/
theorem bytesForPrecision_spec (d : Nat) (hd : 0 < d) (e : Option Int) :
    ∃ n, bytesForPrecision d e = 4 * n ∧ 0 < n ∧ (Fmt.mk n).fitsB d e = true ∧
      need d e ≤ n ∧ n ≤ need d e + 1 ∧ (need d e ≤ 5 → n = need d e) := by
  obtain ⟨nd, hwd, d1, d2, d3⟩ := widthForDigits_spec d hd
  have hp := need_pos d none
  have h43 : need d none ≤ 5 → d ≤ 43 := by
    intro h; rw [need_le_iff _ _ 5 (by decide), fitsB_none] at h; omega
  cases e with
  | none =>
    refine ⟨nd, by simp only [bytesForPrecision, hwd]; omega, by omega, ?_, d1, d2, fun h => d3 (h43 h)⟩
    exact (need_le_iff _ _ nd (by omega)).1 d1
  | some e =>
    obtain ⟨ne, hwe, e1, e2, e3⟩ := widthForExponent_spec e
    have hmax := need_some_eq_max d e
    have hn : need d (some e) ≤ max nd ne := by omega
    refine ⟨max nd ne, by simp only [bytesForPrecision, hwd, hwe]; omega, by omega, ?_, hn, by omega, ?_⟩
    · exact (need_le_iff _ _ _ (by omega)).1 hn
    · intro h
      have := d3 (h43 (by omega))
      have := e3 (by omega)
      omega

/-- a width that holds `d'` digits holds fewer -/
theorem fitsB_mono_digits (n d d' : Nat) (q : Option Int) (h : d ≤ d') (h1 : (Fmt.mk n).fitsB d' q = true) :
    (Fmt.mk n).fitsB d q = true := by
  cases q with
  | none => rw [fitsB_none] at *; omega
  | some e => rw [fitsB_some] at *; omega

/-- fewer digits never need more width -/
theorem need_mono_digits (d d' : Nat) (q : Option Int) (h : d ≤ d') : need d q ≤ need d' q := by
  rw [need_le_iff _ _ _ (need_pos d' q)]
  exact fitsB_mono_digits _ d d' q h (need_spec d' q).2.1

/-- up to 160 bits the computed width is exactly the minimum -/
theorem bytesForPrecision_eq_of_need_le (d : Nat) (hd : 0 < d) (e : Option Int) (h : need d e ≤ 5) :
    bytesForPrecision d e = 4 * need d e := by
  obtain ⟨n, h1, _, _, _, _, h6⟩ := bytesForPrecision_spec d hd e
  rw [h1, h6 h]

/-- what the capacity checks of the fixed-size types (capacity at most 160 bits) decide: the request fits the
    capacity iff the smallest sufficient width does -/
theorem bytesForPrecision_le_iff (d : Nat) (hd : 0 < d) (e : Option Int) (cap : Nat) (hcap : cap ≤ 5) :
    bytesForPrecision d e ≤ 4 * cap ↔ need d e ≤ cap := by
  obtain ⟨n, h1, _, _, h4, _, h6⟩ := bytesForPrecision_spec d hd e
  by_cases h : need d e ≤ 5
  · have := h6 h; omega
  · omega

/-- whenever the request fits a capacity of at most 160 bits, it is the exact minimum -/
theorem bytesForPrecision_eq_of_le (d : Nat) (hd : 0 < d) (e : Option Int) (cap : Nat) (hcap : cap ≤ 5)
    (h : bytesForPrecision d e ≤ 4 * cap) : bytesForPrecision d e = 4 * need d e :=
  bytesForPrecision_eq_of_need_le d hd e (by have := (bytesForPrecision_le_iff d hd e cap hcap).1 h; omega)

/-! ## Saturating `i32` exponents -/

theorem pw_13 : pw 13 = 536870912 := by decide
theorem pw_14 : pw 14 = 2147483648 := by decide

/-- every width up to `32·13` bits has its whole exponent range strictly inside `i32`, so saturating the exponent
    does not change whether such a width is sufficient -/
theorem satI32_need_le (e : Int) (d c : Nat) (hc : c ≤ 13) :
    need d (some e) ≤ c ↔ need d (some (satI32 e)) ≤ c := by
  by_cases hc0 : c = 0
  · have := need_pos d (some e); have := need_pos d (some (satI32 e)); omega
  have hc1 : 0 < c := by omega
  rw [need_le_iff _ _ c hc1, need_le_iff _ _ c hc1, fitsB_some, fitsB_some]
  have := pw_mono hc
  rw [pw_13] at this
  unfold satI32 i32Min i32Max
  split
  · omega
  · split <;> omega

/-- an exponent some width up to `32·13` bits can hold is not changed by saturation -/
theorem satI32_eq_of_need_le (e : Int) (d c : Nat) (hc : c ≤ 13) (h : need d (some e) ≤ c) : satI32 e = e := by
  have hc1 : 0 < c := by have := need_pos d (some e); omega
  rw [need_le_iff _ _ c hc1, fitsB_some] at h
  have := pw_mono hc
  rw [pw_13] at this
  unfold satI32 i32Min i32Max
  split
  · omega
  · split <;> omega

/-- the width computed from a saturated exponent is sufficient for the true exponent, as long as the true exponent
    is within `d` of the `i32` range (in `fromParsed` the true exponent is an `i32` lowered by the number of
    fraction digits, which is at most `d`) -/
theorem satI32_sufficient (e : Int) (d : Nat) (hd : 0 < d) (hlo : i32Min - d ≤ e) (hhi : e ≤ i32Max + d)
    (n : Nat) (hn : bytesForPrecision d (some (satI32 e)) = 4 * n) : (Fmt.mk n).fitsB d (some e) = true := by
  obtain ⟨n', h1, h2, h3, -⟩ := bytesForPrecision_spec d hd (some (satI32 e))
  have : n' = n := by omega
  subst this
  rw [fitsB_some] at h3 ⊢
  have hge := pw_ge n'
  have hm13 : n' ≤ 13 → pw n' ≤ 536870912 := fun h => pw_13 ▸ pw_mono h
  have hm14 : 14 ≤ n' → 2147483648 ≤ pw n' := fun h => pw_14 ▸ pw_mono h
  unfold i32Min at hlo
  unfold i32Max at hhi
  revert h3
  unfold satI32 i32Min i32Max
  split
  · intro h3
    by_cases h : n' ≤ 13
    · have := hm13 h; omega
    · have := hm14 (by omega); omega
  · split
    · intro h3
      by_cases h : n' ≤ 13
      · have := hm13 h; omega
      · have := hm14 (by omega); omega
    · intro h3; exact h3

/-- the capacity check of a fixed-size type on the *saturated* exponent decides whether the *true* exponent fits -/
theorem bytesForPrecision_sat_le_iff (d : Nat) (hd : 0 < d) (e : Int) (cap : Nat) (hcap : cap ≤ 5) :
    bytesForPrecision d (some (satI32 e)) ≤ 4 * cap ↔ need d (some e) ≤ cap := by
  rw [bytesForPrecision_le_iff d hd _ cap hcap, ← satI32_need_le e d cap (by omega)]

/-- FULL statement as given in the task (third conjunct for *every* `e`):
```
theorem satI32_width (e : Int) (d : Nat) (hd : 0 < d) :
    (need d (some e) ≤ 5 ↔ need d (some (satI32 e)) ≤ 5) ∧ (need d (some e) ≤ 5 → satI32 e = e) ∧
    (∀ n, bytesForPrecision d (some (satI32 e)) = 4 * n → (Fmt.mk n).fitsB d (some e) = true)
```
The third conjunct is FALSE without a bound on `e` (see `satI32_width_unbounded_false`); it is proved here for every
`e` within `d` of the `i32` range, which is what the saturating arithmetic of the fixed types produces. -/
theorem satI32_width_partial (e : Int) (d : Nat) (hd : 0 < d) :
    (need d (some e) ≤ 5 ↔ need d (some (satI32 e)) ≤ 5) ∧ (need d (some e) ≤ 5 → satI32 e = e) ∧
    (i32Min - d ≤ e → e ≤ i32Max + d →
      ∀ n, bytesForPrecision d (some (satI32 e)) = 4 * n → (Fmt.mk n).fitsB d (some e) = true) :=
  ⟨satI32_need_le e d 5 (by decide), satI32_eq_of_need_le e d 5 (by decide),
    fun hlo hhi n hn => satI32_sufficient e d hd hlo hhi n hn⟩

/-- the unbounded third conjunct of the task's `satI32_width` fails: `d = 1`, `e = 10^10` saturates to `i32::MAX`,
    whose width is `32·14` bits, and `10^10` is beyond the exponent range of that format -/
theorem satI32_width_unbounded_false :
    ¬ ∀ (e : Int) (d : Nat), 0 < d →
        ∀ n, bytesForPrecision d (some (satI32 e)) = 4 * n → (Fmt.mk n).fitsB d (some e) = true := by
  intro h
  have h1 : bytesForPrecision 1 (some (satI32 10000000000)) = 4 * 14 := by decide +kernel
  have h2 := h 10000000000 1 (by decide) 14 h1
  have h3 : (Fmt.mk 14).fitsB 1 (some 10000000000) = false := by decide +kernel
  rw [h3] at h2
  exact Bool.noConfusion h2

/-! ## Instances: the hypotheses are satisfiable and the bounds are attained -/

example : (Fmt.mk 3).fitsB 16 (some 369) = true := fits_mono 2 3 16 (some 369) (by decide) (by decide) (by decide)
example : need 44 (some (-24618)) = 6 := by decide +kernel
-- a digit count where the closed form is exactly minimal, and one where it is one step above
example : widthForDigits 44 = 32 * 6 ∧ need 44 none = 6 := by decide +kernel
example : widthForDigits 52 = 32 * 7 ∧ need 52 none = 6 := by decide +kernel
-- an exponent where the closed form is exactly minimal, and one where it is one step above
example : widthForExponent 24535 = 32 * 6 ∧ need 1 (some 24535) = 6 := by decide +kernel
example : widthForExponent 49152 = 32 * 7 ∧ need 1 (some 49152) = 6 := by decide +kernel
example : ∃ n, bytesForPrecision 30 (some (-7000)) = 4 * n ∧ 0 < n ∧ (Fmt.mk n).fitsB 30 (some (-7000)) = true ∧
    need 30 (some (-7000)) ≤ n ∧ n ≤ need 30 (some (-7000)) + 1 ∧ (need 30 (some (-7000)) ≤ 5 → n = need 30 (some (-7000))) :=
  bytesForPrecision_spec 30 (by decide) (some (-7000))
-- a true exponent below `i32::MIN` (an `i32` lowered by 3 fraction digits out of 5 digits)
example : (Fmt.mk 14).fitsB 5 (some (-2147483651)) = true :=
  satI32_sufficient (-2147483651) 5 (by decide) (by decide) (by decide) 14 (by decide +kernel)

#print axioms fits_mono
#print axioms need_spec
#print axioms need_le_iff
#print axioms need_some_eq_max
#print axioms widthForDigits_spec
#print axioms widthForDigits_eq
#print axioms widthForExponent_spec
#print axioms bytesForPrecision_spec
#print axioms need_mono_digits
#print axioms bytesForPrecision_le_iff
#print axioms bytesForPrecision_eq_of_le
#print axioms bytesForPrecision_sat_le_iff
#print axioms satI32_need_le
#print axioms satI32_eq_of_need_le
#print axioms satI32_sufficient
#print axioms satI32_width_partial
#print axioms satI32_width_unbounded_false

end Decstr.Proofs
