import Decstr.Spec.Judge
/-!
# Proofs.Grammar — the reference recogniser `Spec.parse` is the grammar of C06

Writing `D` for one or more ASCII digits and `?` for optional, C06 says that the text entry points accept
exactly the strings

    [+-]? D (. D)? ((e|E) [+-]? D)?   |   [+-]? inf (inity)?   |   [+-]? s? nan ( \( D? \) )?

with letters case-insensitive and no spaces.  The specification uses the *executable* recogniser
`Spec.parse : List Nat → Option Numeral`.  This file states the grammar *declaratively* (`Matches`, an
inductive relation between a byte list and the `Numeral` it denotes, using only concatenation and existential
decomposition, no recursion over the input) and proves

* `parse_iff_matches : parse txt = some num ↔ Matches txt num` for every byte list;
* `parse_isSome_iff`, `matches_unique`;
* `viable_iff : viable p = true ↔ ∃ q, (parse (p ++ q)).isSome` — the finite list of completions tested by
  `Spec.viable` (Judge.lean, used by C17) decides exactly "some continuation makes `p` a numeral".

Only `Decstr.Spec` is imported: nothing here depends on the model.  Core Lean only.
-/

namespace Decstr.Proofs
open Decstr.Spec

/-! ## The declarative grammar -/

/-- `D`: a non-empty run of ASCII digits -/
def IsD (l : List Nat) : Prop := l ≠ [] ∧ ∀ c ∈ l, isDigit c = true

/-- `[+-]?`: "", "+" or "-", and the sign it denotes -/
inductive IsSign : List Nat → Option Bool → Prop
  | none : IsSign [] none
  | plus : IsSign [43] (some false)
  | minus : IsSign [45] (some true)

/-- `w` spelled in any letter case -/
def IsWord (w : String) (l : List Nat) : Prop := l.map lower = w.toList.map Char.toNat

instance (w : String) (l : List Nat) : Decidable (IsWord w l) := by unfold IsWord; infer_instance

/-- `(. D)?` and the fraction digits it denotes -/
inductive IsFrac : List Nat → List Nat → Prop
  | none : IsFrac [] []
  | some (f : List Nat) : IsD f → IsFrac (46 :: f) (f.map (· - 48))

/-- `((e|E) [+-]? D)?` and the exponent it denotes -/
inductive IsExp : List Nat → Option (Bool × List Nat) → Prop
  | none : IsExp [] none
  | some (m : Nat) (es ed : List Nat) (so : Option Bool) :
      (m = 101 ∨ m = 69) → IsSign es so → IsD ed →
      IsExp (m :: es ++ ed) (some (so.getD false, ed.map (· - 48)))

/-- `s?` and whether the NaN is signalling -/
inductive IsSig : List Nat → Bool → Prop
  | quiet : IsSig [] false
  | signalling (l : List Nat) : IsWord "s" l → IsSig l true

/-- `( \( D? \) )?` and the payload it denotes (`none` without brackets) -/
inductive IsPayload : List Nat → Option (List Nat) → Prop
  | none : IsPayload [] none
  | some (ds : List Nat) : (∀ c ∈ ds, isDigit c = true) → IsPayload (40 :: ds ++ [41]) (some (ds.map (· - 48)))

/-- The grammar of C06, with the numeral each string denotes:
    `[+-]? D (. D)? ((e|E) [+-]? D)?  |  [+-]? inf  |  [+-]? infinity  |  [+-]? s? nan ( \( D? \) )?` -/
inductive Matches : List Nat → Numeral → Prop
  | finite (sg i fr ex : List Nat) (s : Option Bool) (f : List Nat) (e : Option (Bool × List Nat)) :
      IsSign sg s → IsD i → IsFrac fr f → IsExp ex e →
      Matches (sg ++ i ++ fr ++ ex) (.finite (s.getD false) (i.map (· - 48)) f e)
  | inf (sg w : List Nat) (s : Option Bool) :
      IsSign sg s → IsWord "inf" w → Matches (sg ++ w) (.inf (s.getD false))
  | infinity (sg w : List Nat) (s : Option Bool) :
      IsSign sg s → IsWord "infinity" w → Matches (sg ++ w) (.inf (s.getD false))
  | nan (sg sn w pl : List Nat) (s : Option Bool) (g : Bool) (p : Option (List Nat)) :
      IsSign sg s → IsSig sn g → IsWord "nan" w → IsPayload pl p →
      Matches (sg ++ sn ++ w ++ pl) (.nan (s.getD false) g p)

namespace Grammar

/-! ## Bytes -/

theorem word_inf : "inf".toList.map Char.toNat = [105, 110, 102] := by decide
theorem word_inity : "inity".toList.map Char.toNat = [105, 110, 105, 116, 121] := by decide
theorem word_infinity : "infinity".toList.map Char.toNat = [105, 110, 102, 105, 110, 105, 116, 121] := by decide
theorem word_nan : "nan".toList.map Char.toNat = [110, 97, 110] := by decide
theorem word_s : "s".toList.map Char.toNat = [115] := by decide

theorem isWord_inf {l : List Nat} : IsWord "inf" l ↔ l.map lower = [105, 110, 102] := by
  unfold IsWord; rw [word_inf]
theorem isWord_inity {l : List Nat} : IsWord "inity" l ↔ l.map lower = [105, 110, 105, 116, 121] := by
  unfold IsWord; rw [word_inity]
theorem isWord_infinity {l : List Nat} :
    IsWord "infinity" l ↔ l.map lower = [105, 110, 102, 105, 110, 105, 116, 121] := by
  unfold IsWord; rw [word_infinity]
theorem isWord_nan {l : List Nat} : IsWord "nan" l ↔ l.map lower = [110, 97, 110] := by
  unfold IsWord; rw [word_nan]
theorem isWord_s {l : List Nat} : IsWord "s" l ↔ l.map lower = [115] := by
  unfold IsWord; rw [word_s]

/-- a letter is not a digit, a sign, a point or a bracket -/
theorem lower_letter {c : Nat} (h : 97 ≤ lower c ∧ lower c ≤ 122) :
    isDigit c = false ∧ c ≠ 43 ∧ c ≠ 45 ∧ c ≠ 46 ∧ c ≠ 40 ∧ c ≠ 41 := by
  unfold lower at h
  unfold isDigit
  split at h
  · rename_i hc; simp at hc; refine ⟨?_, ?_, ?_, ?_, ?_, ?_⟩ <;> simp <;> omega
  · refine ⟨?_, ?_, ?_, ?_, ?_, ?_⟩ <;> simp <;> omega

/-- what "in any letter case" means: a byte spells the lower-case letter `n` iff it is `n` or its upper-case form -/
theorem lower_eq_letter {c n : Nat} (hn : 97 ≤ n ∧ n ≤ 122) : lower c = n ↔ (c = n ∨ c + 32 = n) := by
  unfold lower
  split
  · rename_i hc; simp at hc; omega
  · rename_i hc; simp at hc; omega

theorem lower_eq_101 {c : Nat} : lower c = 101 ↔ (c = 101 ∨ c = 69) := by
  unfold lower
  split
  · rename_i hc; simp at hc; omega
  · rename_i hc; simp at hc; omega

/-- the text does not start with a digit (it is empty or starts with another byte) -/
def NoDig (r : List Nat) : Prop := ∀ c t, r = c :: t → isDigit c = false
/-- the text does not start with `+` or `-` -/
def NoSgn (r : List Nat) : Prop := ∀ c t, r = c :: t → c ≠ 43 ∧ c ≠ 45

theorem noDig_nil : NoDig [] := by intro c t h; cases h
theorem noSgn_nil : NoSgn [] := by intro c t h; cases h
theorem noDig_cons {c : Nat} {t : List Nat} (h : isDigit c = false) : NoDig (c :: t) := by
  intro c' t' e; cases e; exact h
theorem noSgn_cons {c : Nat} {t : List Nat} (h : c ≠ 43 ∧ c ≠ 45) : NoSgn (c :: t) := by
  intro c' t' e; cases e; exact h

theorem isDigit_iff {c : Nat} : isDigit c = true ↔ 48 ≤ c ∧ c ≤ 57 := by simp [isDigit]
theorem isDigit_false_iff {c : Nat} : isDigit c = false ↔ ¬ (48 ≤ c ∧ c ≤ 57) := by
  rw [← isDigit_iff]; simp

theorem noSgn_of_isD {l : List Nat} (h : IsD l) (r : List Nat) : NoSgn (l ++ r) := by
  obtain ⟨hne, hd⟩ := h
  cases l with
  | nil => exact absurd rfl hne
  | cons a l =>
    have := isDigit_iff.mp (hd a (by simp))
    exact noSgn_cons (by omega)

/-! ## `takeDigits`, `takeSign`, `kw` -/

theorem takeDigits_noDig {r : List Nat} (h : NoDig r) : takeDigits r = ([], r) := by
  cases r with
  | nil => rfl
  | cons c t => simp [takeDigits, h c t rfl]

/-- completeness: a run of digits followed by a non-digit is split off exactly -/
theorem takeDigits_run {run r : List Nat} (hd : ∀ c ∈ run, isDigit c = true) (hr : NoDig r) :
    takeDigits (run ++ r) = (run.map (· - 48), r) := by
  induction run with
  | nil => simpa using takeDigits_noDig hr
  | cons d ds ih =>
    have h1 : isDigit d = true := hd d (by simp)
    have h2 := ih (fun c hc => hd c (by simp [hc]))
    simp only [List.cons_append, takeDigits, h1, if_true, h2, List.map_cons]

/-- soundness: whatever `takeDigits` returns is a split of the input into a (possibly empty) run of digits,
    whose values are returned, and a rest that does not start with a digit -/
theorem takeDigits_sound (cs : List Nat) :
    ∃ run, cs = run ++ (takeDigits cs).2 ∧ (∀ c ∈ run, isDigit c = true) ∧
      (takeDigits cs).1 = run.map (· - 48) ∧ NoDig (takeDigits cs).2 := by
  induction cs with
  | nil => exact ⟨[], rfl, by simp, rfl, noDig_nil⟩
  | cons c cs ih =>
    cases h : isDigit c
    · refine ⟨[], ?_, by simp, ?_, ?_⟩ <;> simp [takeDigits, h, noDig_cons]
    · obtain ⟨run, h1, h2, h3, h4⟩ := ih
      refine ⟨c :: run, ?_, ?_, ?_, ?_⟩
      · simp only [takeDigits, h, if_true, List.cons_append]; rw [← h1]
      · intro x hx; rcases List.mem_cons.mp hx with rfl | hx
        · exact h
        · exact h2 x hx
      · simp only [takeDigits, h, if_true, List.map_cons, h3]
      · simpa only [takeDigits, h, if_true] using h4

theorem takeDigits_sound' {cs ds r : List Nat} (h : takeDigits cs = (ds, r)) :
    ∃ run, cs = run ++ r ∧ (∀ c ∈ run, isDigit c = true) ∧ ds = run.map (· - 48) ∧ NoDig r := by
  have := takeDigits_sound cs
  rw [h] at this
  exact this

theorem takeSign_sound (cs : List Nat) :
    ∃ sg, cs = sg ++ (takeSign cs).2 ∧ IsSign sg (takeSign cs).1 := by
  unfold takeSign
  split
  · exact ⟨[43], rfl, .plus⟩
  · exact ⟨[45], rfl, .minus⟩
  · exact ⟨[], rfl, .none⟩

theorem takeSign_noSgn {r : List Nat} (h : NoSgn r) : takeSign r = (none, r) := by
  cases r with
  | nil => rfl
  | cons c t =>
    have := h c t rfl
    unfold takeSign
    split
    · rename_i heq; cases heq; exact absurd rfl this.1
    · rename_i heq; cases heq; exact absurd rfl this.2
    · rfl

theorem takeSign_complete {sg r : List Nat} {s : Option Bool} (hs : IsSign sg s) (hr : NoSgn r) :
    takeSign (sg ++ r) = (s, r) := by
  cases hs with
  | none => simpa using takeSign_noSgn hr
  | plus => rfl
  | minus => rfl

/-- `kw w` strips exactly a case-insensitive spelling of `w` -/
theorem kw_iff (w : String) (cs r : List Nat) : kw w cs = some r ↔ ∃ pre, cs = pre ++ r ∧ IsWord w pre := by
  unfold kw IsWord
  simp only
  constructor
  · intro h
    split at h
    · rename_i hw
      injection h with h
      exact ⟨cs.take (w.toList.map Char.toNat).length, by rw [← h, List.take_append_drop], hw⟩
    · cases h
  · rintro ⟨pre, rfl, hw⟩
    have hl : (w.toList.map Char.toNat).length = pre.length := by rw [← hw, List.length_map]
    rw [hl, List.take_left', List.drop_left', if_pos hw] <;> rfl

theorem kw_none_iff (w : String) (cs : List Nat) :
    kw w cs = none ↔ (cs.take (w.toList.map Char.toNat).length).map lower ≠ w.toList.map Char.toNat := by
  unfold kw
  simp only
  split <;> simp_all

/-! ## The finite body `D (. D)? ((e|E) [+-]? D)?` -/

/-- the optional fraction, as `parseFiniteBody` reads it -/
def fracPart (r1 : List Nat) : Option (List Nat × List Nat) :=
  match r1 with
  | 46 :: r => let (fr, r2) := takeDigits r; if fr.isEmpty then none else some (fr, r2)
  | _ => some ([], r1)

/-- the optional exponent, as `parseFiniteBody` reads it -/
def expTail (neg : Bool) (i fr : List Nat) (r2 : List Nat) : Option Numeral :=
  match r2 with
  | [] => some (.finite neg i fr none)
  | c :: r3 =>
    if lower c = 101 then
      let (es, r4) := takeSign r3
      let (ed, r5) := takeDigits r4
      if ed.isEmpty || !r5.isEmpty then none else some (.finite neg i fr (some (es.getD false, ed)))
    else none

theorem parseFiniteBody_eq (neg : Bool) (cs : List Nat) :
    parseFiniteBody neg cs =
      if (takeDigits cs).1.isEmpty then none else
      match fracPart (takeDigits cs).2 with
      | none => none
      | some (fr, r2) => expTail neg (takeDigits cs).1 fr r2 := rfl

theorem map_isEmpty {l : List Nat} {f : Nat → Nat} : (l.map f).isEmpty = l.isEmpty := by
  cases l <;> rfl

theorem expTail_iff (neg : Bool) (i f r2 : List Nat) (num : Numeral) :
    expTail neg i f r2 = some num ↔ ∃ e, IsExp r2 e ∧ num = .finite neg i f e := by
  constructor
  · intro h
    unfold expTail at h
    split at h
    · injection h with h; exact ⟨none, .none, h.symm⟩
    · rename_i c r3
      split at h
      · rename_i hc
        obtain ⟨sg, h1, h2⟩ := takeSign_sound r3
        obtain ⟨run, h3, h4, h5, h6⟩ := takeDigits_sound (takeSign r3).2
        simp only at h
        split at h
        · cases h
        · rename_i hne
          injection h with h
          simp only [Bool.or_eq_true, Bool.not_eq_true', not_or, Bool.not_eq_true, Bool.not_eq_false] at hne
          have hr5 : (takeDigits (takeSign r3).2).2 = [] := by simpa using hne.2
          have hrun : run ≠ [] := by
            intro e; rw [h5, e] at hne; simp at hne
          refine ⟨_, ?_, h.symm⟩
          rw [h5]
          have e1 : (takeSign r3).2 = run := by
            have := h3; rw [hr5, List.append_nil] at this; exact this
          have : c :: r3 = c :: sg ++ run := by
            rw [h1, e1]; rfl
          rw [this]
          exact .some c sg run _ (lower_eq_101.mp hc) h2 ⟨hrun, h4⟩
      · cases h
  · rintro ⟨e, he, rfl⟩
    cases he with
    | none => rfl
    | some m es ed so hm hs hd =>
      have h1 : takeSign (es ++ ed) = (so, ed) := by
        have := takeSign_complete hs (noSgn_of_isD hd [])
        simpa using this
      have h2 : takeDigits ed = (ed.map (· - 48), []) := by
        have := takeDigits_run hd.2 noDig_nil
        simpa using this
      have h3 : (ed.map (· - 48)).isEmpty = false := by
        rw [map_isEmpty]; cases ed with
        | nil => exact absurd rfl hd.1
        | cons a l => rfl
      simp only [expTail, List.cons_append, lower_eq_101.mpr hm, if_true, h1, h2, h3, List.isEmpty_nil,
        Bool.not_true, Bool.or_false, Bool.false_eq_true, if_false]

/-- soundness of the fraction reader -/
theorem fracPart_sound {r1 f r2 : List Nat} (h : fracPart r1 = some (f, r2)) :
    ∃ fr, r1 = fr ++ r2 ∧ IsFrac fr f := by
  unfold fracPart at h
  split at h
  · rename_i r
    obtain ⟨run, h3, h4, h5, h6⟩ := takeDigits_sound r
    simp only at h
    split at h
    · cases h
    · rename_i hne
      injection h with h
      injection h with ha hb
      have hrun : run ≠ [] := by
        intro e; rw [h5, e] at hne; simp at hne
      refine ⟨46 :: run, ?_, ?_⟩
      · rw [← hb, List.cons_append, ← h3]
      · rw [← ha, h5]; exact .some run ⟨hrun, h4⟩
  · injection h with h
    injection h with ha hb
    exact ⟨[], by simp [hb], by rw [← ha]; exact .none⟩

/-- completeness of the fraction reader: the rest starts neither with a digit nor a point -/
theorem fracPart_complete {fr f r2 : List Nat} (h : IsFrac fr f) (hr : NoDig r2) (h46 : ∀ t, r2 ≠ 46 :: t) :
    fracPart (fr ++ r2) = some (f, r2) := by
  cases h with
  | none =>
    simp only [List.nil_append]
    unfold fracPart
    split
    · exact absurd rfl (h46 _)
    · rfl
  | some f' hf =>
    have h2 := takeDigits_run hf.2 hr
    have h3 : (f'.map (· - 48)).isEmpty = false := by
      rw [map_isEmpty]; cases f' with
      | nil => exact absurd rfl hf.1
      | cons a l => rfl
    simp only [fracPart, List.cons_append, h2, h3, Bool.false_eq_true, if_false]

theorem isExp_head {ex : List Nat} {e : Option (Bool × List Nat)} (h : IsExp ex e) :
    NoDig ex ∧ (∀ t, ex ≠ 46 :: t) := by
  cases h with
  | none => exact ⟨noDig_nil, by simp⟩
  | some m es ed so hm hs hd =>
    refine ⟨noDig_cons ?_, ?_⟩
    · rw [isDigit_false_iff]; omega
    · intro t e; simp only [List.cons_append] at e; injection e with e _; omega

/-- the finite numerals the recogniser accepts, stated with the grammar's pieces -/
theorem parseFiniteBody_iff (neg : Bool) (cs : List Nat) (num : Numeral) :
    parseFiniteBody neg cs = some num ↔
      ∃ i fr ex f e, cs = i ++ fr ++ ex ∧ IsD i ∧ IsFrac fr f ∧ IsExp ex e ∧
        num = .finite neg (i.map (· - 48)) f e := by
  rw [parseFiniteBody_eq]
  constructor
  · intro h
    obtain ⟨run, h3, h4, h5, h6⟩ := takeDigits_sound cs
    split at h
    · cases h
    · rename_i hne
      have hrun : run ≠ [] := by
        intro e; rw [h5, e] at hne; simp at hne
      split at h
      · cases h
      · rename_i fr r2 hfr
        obtain ⟨frt, hf1, hf2⟩ := fracPart_sound hfr
        obtain ⟨e, he1, he2⟩ := (expTail_iff _ _ _ _ _).mp h
        refine ⟨run, frt, r2, fr, e, ?_, ⟨hrun, h4⟩, hf2, he1, ?_⟩
        · rw [List.append_assoc, ← hf1, ← h3]
        · rw [he2, h5]
  · rintro ⟨i, fr, ex, f, e, rfl, hi, hf, he, rfl⟩
    have hx := isExp_head he
    have hfrx : NoDig (fr ++ ex) := by
      cases hf with
      | none => simpa using hx.1
      | some f' _ => exact noDig_cons rfl
    have h1 : takeDigits (i ++ fr ++ ex) = (i.map (· - 48), fr ++ ex) := by
      rw [List.append_assoc]; exact takeDigits_run hi.2 hfrx
    have h3 : (i.map (· - 48)).isEmpty = false := by
      rw [map_isEmpty]; cases i with
      | nil => exact absurd rfl hi.1
      | cons a l => rfl
    simp only [h1, h3, Bool.false_eq_true, if_false, fracPart_complete hf hx.1 hx.2]
    exact (expTail_iff _ _ _ _ _).mpr ⟨e, he, rfl⟩

/-! ## The special body `inf (inity)? | s? nan ( \( D? \) )?` -/

/-- what `parseSpecialBody` does after the optional `s` -/
def nanTail (neg sig : Bool) (r : List Nat) : Option Numeral :=
  match kw "nan" r with
  | some [] => some (.nan neg sig none)
  | some (40 :: r2) =>
      let (ds, r3) := takeDigits r2
      if r3 = [41] then some (.nan neg sig (some ds)) else none
  | _ => none

theorem parseSpecialBody_eq (neg : Bool) (cs : List Nat) :
    parseSpecialBody neg cs =
      match kw "inf" cs with
      | some [] => some (.inf neg)
      | some r => (match kw "inity" r with | some [] => some (.inf neg) | _ => none)
      | none => match kw "s" cs with
        | some r => nanTail neg true r
        | none => nanTail neg false cs := by
  unfold parseSpecialBody nanTail
  cases kw "s" cs <;> rfl

theorem nanTail_iff (neg g : Bool) (r : List Nat) (num : Numeral) :
    nanTail neg g r = some num ↔
      ∃ w pl p, r = w ++ pl ∧ IsWord "nan" w ∧ IsPayload pl p ∧ num = .nan neg g p := by
  constructor
  · intro h
    unfold nanTail at h
    split at h
    · rename_i heq
      obtain ⟨pre, h1, h2⟩ := (kw_iff _ _ _).mp heq
      injection h with h
      exact ⟨pre, [], none, h1, h2, .none, h.symm⟩
    · rename_i r2 heq
      obtain ⟨pre, h1, h2⟩ := (kw_iff _ _ _).mp heq
      obtain ⟨run, h3, h4, h5, h6⟩ := takeDigits_sound r2
      simp only at h
      split at h
      · rename_i h41
        injection h with h
        refine ⟨pre, 40 :: run ++ [41], some (run.map (· - 48)), ?_, h2, .some run h4, ?_⟩
        · rw [h1, List.cons_append, ← h41, ← h3]
        · rw [← h, h5]
      · cases h
    · cases h
  · rintro ⟨w, pl, p, rfl, hw, hp, rfl⟩
    have hk : kw "nan" (w ++ pl) = some pl := (kw_iff _ _ _).mpr ⟨w, rfl, hw⟩
    unfold nanTail
    rw [hk]
    cases hp with
    | none => rfl
    | some ds hd =>
      have h2 : takeDigits (ds ++ [41]) = (ds.map (· - 48), [41]) := takeDigits_run hd (noDig_cons rfl)
      simp only [List.cons_append, h2, if_true]

/-- a keyword is not found when the first byte is not (a spelling of) its first letter -/
theorem kw_none_of_head (w : String) (c0 : Nat) (w0 : List Nat) (hw : w.toList.map Char.toNat = c0 :: w0)
    {c : Nat} (t : List Nat) (hc : lower c ≠ c0) : kw w (c :: t) = none := by
  rw [kw_none_iff, hw]
  simp only [List.length_cons, List.take_succ_cons, List.map_cons]
  intro e; injection e with e _; exact hc e

theorem isWord_nan_cases {w : List Nat} (h : IsWord "nan" w) :
    ∃ a b c, w = [a, b, c] ∧ lower a = 110 ∧ lower b = 97 ∧ lower c = 110 := by
  rw [isWord_nan] at h
  simp only [List.map_eq_cons_iff, List.map_eq_nil_iff] at h
  obtain ⟨a, _, rfl, ha, b, _, rfl, hb, c, _, rfl, hc, rfl⟩ := h
  exact ⟨a, b, c, rfl, ha, hb, hc⟩

theorem isWord_inf_cases {w : List Nat} (h : IsWord "inf" w) :
    ∃ a b c, w = [a, b, c] ∧ lower a = 105 ∧ lower b = 110 ∧ lower c = 102 := by
  rw [isWord_inf] at h
  simp only [List.map_eq_cons_iff, List.map_eq_nil_iff] at h
  obtain ⟨a, _, rfl, ha, b, _, rfl, hb, c, _, rfl, hc, rfl⟩ := h
  exact ⟨a, b, c, rfl, ha, hb, hc⟩

theorem isWord_s_cases {w : List Nat} (h : IsWord "s" w) : ∃ a, w = [a] ∧ lower a = 115 := by
  rw [isWord_s] at h
  simp only [List.map_eq_cons_iff, List.map_eq_nil_iff] at h
  obtain ⟨a, _, rfl, ha, rfl⟩ := h
  exact ⟨a, rfl, ha⟩

theorem isWord_infinity_cases {w : List Nat} (h : IsWord "infinity" w) :
    ∃ a b c d e f g k, w = [a, b, c, d, e, f, g, k] ∧ lower a = 105 ∧ lower b = 110 ∧ lower c = 102 ∧
      lower d = 105 ∧ lower e = 110 ∧ lower f = 105 ∧ lower g = 116 ∧ lower k = 121 := by
  rw [isWord_infinity] at h
  simp only [List.map_eq_cons_iff, List.map_eq_nil_iff] at h
  obtain ⟨a, _, rfl, ha, b, _, rfl, hb, c, _, rfl, hc, d, _, rfl, hd, e, _, rfl, he, f, _, rfl, hf,
    g, _, rfl, hg, k, _, rfl, hk, rfl⟩ := h
  exact ⟨a, b, c, d, e, f, g, k, rfl, ha, hb, hc, hd, he, hf, hg, hk⟩

/-- the special values the recogniser accepts, stated with the grammar's pieces -/
theorem parseSpecialBody_iff (neg : Bool) (cs : List Nat) (num : Numeral) :
    parseSpecialBody neg cs = some num ↔
      (IsWord "inf" cs ∧ num = .inf neg) ∨ (IsWord "infinity" cs ∧ num = .inf neg) ∨
      ∃ sn w pl g p, cs = sn ++ w ++ pl ∧ IsSig sn g ∧ IsWord "nan" w ∧ IsPayload pl p ∧ num = .nan neg g p := by
  rw [parseSpecialBody_eq]
  constructor
  · intro h
    split at h
    · rename_i heq
      obtain ⟨pre, h1, h2⟩ := (kw_iff _ _ _).mp heq
      injection h with h
      left; rw [h1, List.append_nil]; exact ⟨h2, h.symm⟩
    · rename_i r hne heq
      obtain ⟨pre, h1, h2⟩ := (kw_iff _ _ _).mp heq
      split at h
      · rename_i heq2
        obtain ⟨pre2, h3, h4⟩ := (kw_iff _ _ _).mp heq2
        injection h with h
        right; left
        refine ⟨?_, h.symm⟩
        rw [h1, h3, List.append_nil]
        rw [isWord_inf] at h2
        rw [isWord_inity] at h4
        rw [isWord_infinity, List.map_append, h2, h4]; rfl
      · cases h
    · rename_i heq
      right; right
      split at h
      · rename_i r heq2
        obtain ⟨pre, h1, h2⟩ := (kw_iff _ _ _).mp heq2
        obtain ⟨w, pl, p, h3, h4, h5, h6⟩ := (nanTail_iff _ _ _ _).mp h
        exact ⟨pre, w, pl, true, p, by rw [h1, h3, List.append_assoc], .signalling pre h2, h4, h5, h6⟩
      · obtain ⟨w, pl, p, h3, h4, h5, h6⟩ := (nanTail_iff _ _ _ _).mp h
        exact ⟨[], w, pl, false, p, by rw [h3]; rfl, .quiet, h4, h5, h6⟩
  · rintro (⟨hw, rfl⟩ | ⟨hw, rfl⟩ | ⟨sn, w, pl, g, p, rfl, hs, hw, hp, rfl⟩)
    · have hk : kw "inf" cs = some [] := (kw_iff _ _ _).mpr ⟨cs, by simp, hw⟩
      rw [hk]
    · obtain ⟨a, b, c, d, e, f, g, k, rfl, ha, hb, hc, hd, he, hf, hg, hk⟩ := isWord_infinity_cases hw
      have hk1 : kw "inf" [a, b, c, d, e, f, g, k] = some [d, e, f, g, k] :=
        (kw_iff _ _ _).mpr ⟨[a, b, c], rfl, isWord_inf.mpr (by simp [ha, hb, hc])⟩
      have hk2 : kw "inity" [d, e, f, g, k] = some [] :=
        (kw_iff _ _ _).mpr ⟨[d, e, f, g, k], rfl, isWord_inity.mpr (by simp [hd, he, hf, hg, hk])⟩
      rw [hk1]; simp only [hk2]
    · obtain ⟨a, b, c, rfl, ha, hb, hc⟩ := isWord_nan_cases hw
      cases hs with
      | quiet =>
        have hk1 : kw "inf" ([] ++ [a, b, c] ++ pl) = none :=
          kw_none_of_head "inf" 105 _ word_inf _ (by omega)
        have hk2 : kw "s" ([] ++ [a, b, c] ++ pl) = none :=
          kw_none_of_head "s" 115 _ word_s _ (by omega)
        rw [hk1, hk2]
        exact (nanTail_iff _ _ _ _).mpr ⟨[a, b, c], pl, p, rfl, hw, hp, rfl⟩
      | signalling l hl =>
        obtain ⟨x, rfl, hx⟩ := isWord_s_cases hl
        have hk1 : kw "inf" ([x] ++ [a, b, c] ++ pl) = none :=
          kw_none_of_head "inf" 105 _ word_inf _ (by omega)
        have hk2 : kw "s" ([x] ++ [a, b, c] ++ pl) = some ([a, b, c] ++ pl) :=
          (kw_iff _ _ _).mpr ⟨[x], rfl, hl⟩
        rw [hk1, hk2]
        exact (nanTail_iff _ _ _ _).mpr ⟨[a, b, c], pl, p, rfl, hw, hp, rfl⟩

/-! ## The whole recogniser -/

theorem parse_eq (cs : List Nat) :
    parse cs =
      match (takeSign cs).2 with
      | c :: _ =>
        if isDigit c then parseFiniteBody ((takeSign cs).1.getD false) (takeSign cs).2
        else parseSpecialBody ((takeSign cs).1.getD false) (takeSign cs).2
      | [] => none := rfl

/-- `parse` on an optional sign followed by a body that starts with a byte other than `+`/`-` -/
theorem parse_sign_body {sg : List Nat} {s : Option Bool} (hs : IsSign sg s) (c : Nat) (t : List Nat)
    (hc : c ≠ 43 ∧ c ≠ 45) :
    parse (sg ++ c :: t) =
      if isDigit c then parseFiniteBody (s.getD false) (c :: t) else parseSpecialBody (s.getD false) (c :: t) := by
  rw [parse_eq, takeSign_complete hs (noSgn_cons hc)]

theorem letter_of_eq {c n : Nat} (h : lower c = n) (hn : 97 ≤ n ∧ n ≤ 122) :
    isDigit c = false ∧ c ≠ 43 ∧ c ≠ 45 ∧ c ≠ 46 ∧ c ≠ 40 ∧ c ≠ 41 :=
  lower_letter (by omega)

theorem parse_sound {txt : List Nat} {num : Numeral} (h : parse txt = some num) : Matches txt num := by
  rw [parse_eq] at h
  obtain ⟨sg, h1, h2⟩ := takeSign_sound txt
  split at h
  · rename_i c t heq
    rw [h1]
    split at h
    · obtain ⟨i, fr, ex, f, e, h3, hi, hf, he, rfl⟩ := (parseFiniteBody_iff _ _ _).mp h
      rw [h3, ← List.append_assoc, ← List.append_assoc]
      exact .finite sg i fr ex _ f e h2 hi hf he
    · rcases (parseSpecialBody_iff _ _ _).mp h with ⟨hw, rfl⟩ | ⟨hw, rfl⟩ | ⟨sn, w, pl, g, p, h3, hs, hw, hp, rfl⟩
      · exact .inf sg _ _ h2 hw
      · exact .infinity sg _ _ h2 hw
      · rw [h3, ← List.append_assoc, ← List.append_assoc]
        exact .nan sg sn w pl _ g p h2 hs hw hp
  · cases h

theorem parse_complete {txt : List Nat} {num : Numeral} (h : Matches txt num) : parse txt = some num := by
  cases h with
  | finite sg i fr ex s f e hs hi hf he =>
    obtain ⟨hne, hd⟩ := hi
    cases i with
    | nil => exact absurd rfl hne
    | cons c t =>
      have hc : isDigit c = true := hd c (by simp)
      have hc' := isDigit_iff.mp hc
      have e1 : sg ++ c :: t ++ fr ++ ex = sg ++ c :: (t ++ fr ++ ex) := by simp
      rw [e1, parse_sign_body hs c _ (by omega), if_pos hc]
      exact (parseFiniteBody_iff _ _ _).mpr ⟨c :: t, fr, ex, f, e, by simp, ⟨hne, hd⟩, hf, he, rfl⟩
  | inf sg w s hs hw =>
    obtain ⟨a, b, c, rfl, ha, hb, hc⟩ := isWord_inf_cases hw
    have hl := letter_of_eq ha (by omega)
    rw [parse_sign_body hs a _ ⟨hl.2.1, hl.2.2.1⟩, if_neg (by simp [hl.1])]
    exact (parseSpecialBody_iff _ _ _).mpr (Or.inl ⟨hw, rfl⟩)
  | infinity sg w s hs hw =>
    obtain ⟨a, b, c, d, e, f, g, k, rfl, ha, _⟩ := isWord_infinity_cases hw
    have hl := letter_of_eq ha (by omega)
    rw [parse_sign_body hs a _ ⟨hl.2.1, hl.2.2.1⟩, if_neg (by simp [hl.1])]
    exact (parseSpecialBody_iff _ _ _).mpr (Or.inr (Or.inl ⟨hw, rfl⟩))
  | nan sg sn w pl s g p hs hg hw hp =>
    obtain ⟨a, b, c, rfl, ha, hb, hc⟩ := isWord_nan_cases hw
    have hl := letter_of_eq ha (by omega)
    cases hg with
    | quiet =>
      have e1 : sg ++ [] ++ [a, b, c] ++ pl = sg ++ a :: ([b, c] ++ pl) := by simp
      rw [e1, parse_sign_body hs a _ ⟨hl.2.1, hl.2.2.1⟩, if_neg (by simp [hl.1])]
      exact (parseSpecialBody_iff _ _ _).mpr (Or.inr (Or.inr ⟨[], [a, b, c], pl, false, p, by simp, .quiet, hw, hp, rfl⟩))
    | signalling l hl' =>
      obtain ⟨x, rfl, hx⟩ := isWord_s_cases hl'
      have hlx := letter_of_eq hx (by omega)
      have e1 : sg ++ [x] ++ [a, b, c] ++ pl = sg ++ x :: ([a, b, c] ++ pl) := by simp
      rw [e1, parse_sign_body hs x _ ⟨hlx.2.1, hlx.2.2.1⟩, if_neg (by simp [hlx.1])]
      exact (parseSpecialBody_iff _ _ _).mpr
        (Or.inr (Or.inr ⟨[x], [a, b, c], pl, true, p, by simp, .signalling _ hl', hw, hp, rfl⟩))

end Grammar

/-! ## Main theorems, part 1 -/

/-- **The reference recogniser is the grammar of C06**: for every byte list, `parse` returns `num` exactly when the
    text matches the grammar and denotes `num`. -/
theorem parse_iff_matches (txt : List Nat) (num : Numeral) : parse txt = some num ↔ Matches txt num :=
  ⟨Grammar.parse_sound, Grammar.parse_complete⟩

/-- in particular the recogniser accepts exactly the language -/
theorem parse_isSome_iff (txt : List Nat) : (parse txt).isSome ↔ ∃ num, Matches txt num := by
  rw [Option.isSome_iff_exists]
  exact exists_congr fun num => parse_iff_matches txt num

/-- and the denotation is unique -/
theorem matches_unique (txt : List Nat) (a b : Numeral) : Matches txt a → Matches txt b → a = b := by
  intro ha hb
  have h1 := (parse_iff_matches txt a).mpr ha
  have h2 := (parse_iff_matches txt b).mpr hb
  rw [h1] at h2
  exact Option.some.inj h2

end Decstr.Proofs

/-! ## Part 2: viable prefixes (`Spec.viable`, used by C17) -/

namespace Decstr.Proofs
open Decstr.Spec
namespace Grammar

/-- the unsigned bodies of the grammar (language only, no denotation) -/
inductive Body : List Nat → Prop
  | finite (i fr ex f : List Nat) (e : Option (Bool × List Nat)) :
      IsD i → IsFrac fr f → IsExp ex e → Body (i ++ fr ++ ex)
  | inf (w : List Nat) : IsWord "inf" w → Body w
  | infinity (w : List Nat) : IsWord "infinity" w → Body w
  | nan (sn w pl : List Nat) (g : Bool) (p : Option (List Nat)) :
      IsSig sn g → IsWord "nan" w → IsPayload pl p → Body (sn ++ w ++ pl)

theorem matches_of_body {sg b : List Nat} {s : Option Bool} (hs : IsSign sg s) (hb : Body b) :
    ∃ num, Matches (sg ++ b) num := by
  cases hb with
  | finite i fr ex f e hi hf he =>
    have := Matches.finite sg i fr ex s f e hs hi hf he
    have e1 : sg ++ i ++ fr ++ ex = sg ++ (i ++ fr ++ ex) := by simp only [List.append_assoc]
    rw [e1] at this
    exact ⟨_, this⟩
  | inf w hw => exact ⟨_, .inf sg b s hs hw⟩
  | infinity w hw => exact ⟨_, .infinity sg b s hs hw⟩
  | nan sn w pl g p hg hw hp =>
    have := Matches.nan sg sn w pl s g p hs hg hw hp
    have e1 : sg ++ sn ++ w ++ pl = sg ++ (sn ++ w ++ pl) := by simp only [List.append_assoc]
    rw [e1] at this
    exact ⟨_, this⟩

theorem body_of_matches {txt : List Nat} {num : Numeral} (h : Matches txt num) :
    ∃ sg s b, txt = sg ++ b ∧ IsSign sg s ∧ Body b := by
  cases h with
  | finite sg i fr ex s f e hs hi hf he =>
    exact ⟨sg, s, i ++ fr ++ ex, by simp only [List.append_assoc], hs, .finite i fr ex f e hi hf he⟩
  | inf sg w s hs hw => exact ⟨sg, s, w, rfl, hs, .inf w hw⟩
  | infinity sg w s hs hw => exact ⟨sg, s, w, rfl, hs, .infinity w hw⟩
  | nan sg sn w pl s g p hs hg hw hp =>
    exact ⟨sg, s, sn ++ w ++ pl, by simp only [List.append_assoc], hs, .nan sn w pl g p hg hw hp⟩

theorem completions_eq : completions =
    [[], [48], [41], [105, 110, 102], [110, 102], [102], [110, 105, 116, 121], [105, 116, 121], [116, 121], [121],
     [110, 97, 110], [97, 110], [110], [115, 110, 97, 110]] := by decide

/-- some listed completion makes `p` a numeral -/
def V (p : List Nat) : Prop := ∃ c ∈ completions, ∃ num, Matches (p ++ c) num

theorem viable_iff_V (p : List Nat) : viable p = true ↔ V p := by
  unfold viable V
  rw [List.any_eq_true]
  constructor
  · rintro ⟨c, hc, h⟩; exact ⟨c, hc, (parse_isSome_iff _).mp h⟩
  · rintro ⟨c, hc, h⟩; exact ⟨c, hc, (parse_isSome_iff _).mpr h⟩

theorem isD_zero : IsD [48] := ⟨by simp, by intro c hc; simp at hc; subst hc; rfl⟩

/-- a prefix of a digit run is empty or a digit run -/
theorem isD_prefix {ed c q : List Nat} (h : IsD ed) (e : ed = c ++ q) : c = [] ∨ IsD c := by
  by_cases hc : c = []
  · exact Or.inl hc
  · exact Or.inr ⟨hc, fun x hx => h.2 x (by rw [e]; simp [hx])⟩

theorem allD_prefix {ds c q : List Nat} (h : ∀ x ∈ ds, isDigit x = true) (e : ds = c ++ q) :
    ∀ x ∈ c, isDigit x = true := fun x hx => h x (by rw [e]; simp [hx])

/-- prefixes of `[+-]? D` are completed by "" or "0" -/
theorem sd_prefix {es ed c q : List Nat} {so : Option Bool} (hs : IsSign es so) (hd : IsD ed)
    (e : es ++ ed = c ++ q) :
    ∃ k, (k = [] ∨ k = [48]) ∧ ∃ es' ed' so', c ++ k = es' ++ ed' ∧ IsSign es' so' ∧ IsD ed' := by
  cases hs with
  | none =>
    rcases isD_prefix hd e with rfl | hc
    · exact ⟨[48], Or.inr rfl, [], [48], none, rfl, .none, isD_zero⟩
    · exact ⟨[], Or.inl rfl, [], c, none, by simp, .none, hc⟩
  | plus =>
    rcases List.cons_eq_append_iff.mp e with ⟨rfl, _⟩ | ⟨c', rfl, e'⟩
    · exact ⟨[48], Or.inr rfl, [], [48], none, rfl, .none, isD_zero⟩
    · rcases isD_prefix hd e' with rfl | hc
      · exact ⟨[48], Or.inr rfl, [43], [48], _, rfl, .plus, isD_zero⟩
      · exact ⟨[], Or.inl rfl, [43], c', _, by simp, .plus, hc⟩
  | minus =>
    rcases List.cons_eq_append_iff.mp e with ⟨rfl, _⟩ | ⟨c', rfl, e'⟩
    · exact ⟨[48], Or.inr rfl, [], [48], none, rfl, .none, isD_zero⟩
    · rcases isD_prefix hd e' with rfl | hc
      · exact ⟨[48], Or.inr rfl, [45], [48], _, rfl, .minus, isD_zero⟩
      · exact ⟨[], Or.inl rfl, [45], c', _, by simp, .minus, hc⟩

/-- prefixes of `((e|E) [+-]? D)?` are completed by "" or "0" -/
theorem exp_prefix {ex c q : List Nat} {e : Option (Bool × List Nat)} (h : IsExp ex e) (hx : ex = c ++ q) :
    ∃ k, (k = [] ∨ k = [48]) ∧ ∃ e', IsExp (c ++ k) e' := by
  cases h with
  | none =>
    obtain ⟨rfl, _⟩ := List.nil_eq_append_iff.mp hx
    exact ⟨[], Or.inl rfl, none, .none⟩
  | some m es ed so hm hs hd =>
    rw [List.cons_append] at hx
    rcases List.cons_eq_append_iff.mp hx with ⟨rfl, _⟩ | ⟨c', rfl, e'⟩
    · exact ⟨[], Or.inl rfl, none, .none⟩
    · obtain ⟨k, hk, es', ed', so', h1, h2, h3⟩ := sd_prefix hs hd e'
      refine ⟨k, hk, ?_⟩
      have := IsExp.some m es' ed' so' hm h2 h3
      rw [List.cons_append, ← h1, ← List.cons_append] at this
      exact ⟨_, this⟩

/-- prefixes of `(. D)? ((e|E) [+-]? D)?` are completed by "" or "0" -/
theorem fracexp_prefix {fr f ex c q : List Nat} {e : Option (Bool × List Nat)} (hf : IsFrac fr f) (he : IsExp ex e)
    (h : fr ++ ex = c ++ q) :
    ∃ k, (k = [] ∨ k = [48]) ∧ ∃ fr' f' ex' e', c ++ k = fr' ++ ex' ∧ IsFrac fr' f' ∧ IsExp ex' e' := by
  cases hf with
  | none =>
    obtain ⟨k, hk, e', he'⟩ := exp_prefix he h
    exact ⟨k, hk, [], [], c ++ k, e', rfl, .none, he'⟩
  | some f' hf' =>
    rw [List.cons_append] at h
    rcases List.cons_eq_append_iff.mp h with ⟨rfl, _⟩ | ⟨c', rfl, h'⟩
    · exact ⟨[], Or.inl rfl, [], [], [], none, rfl, .none, .none⟩
    · rcases List.append_eq_append_iff.mp h' with ⟨a, rfl, h''⟩ | ⟨b, hb, _⟩
      · -- `c'` extends the whole fraction into the exponent
        obtain ⟨k, hk, e', he'⟩ := exp_prefix he h''
        exact ⟨k, hk, 46 :: f', _, a ++ k, e', by simp, .some f' hf', he'⟩
      · -- `c'` is a prefix of the fraction digits
        rcases isD_prefix hf' hb with rfl | hc
        · exact ⟨[48], Or.inr rfl, [46, 48], _, [], none, rfl, .some [48] isD_zero, .none⟩
        · exact ⟨[], Or.inl rfl, 46 :: c', _, [], none, by simp, .some c' hc, .none⟩

/-- non-empty prefixes of a finite body are completed by "" or "0" -/
theorem finite_prefix {i fr f ex p q : List Nat} {e : Option (Bool × List Nat)} (hi : IsD i) (hf : IsFrac fr f)
    (he : IsExp ex e) (h : i ++ fr ++ ex = p ++ q) (hp : p ≠ []) :
    ∃ k, (k = [] ∨ k = [48]) ∧ Body (p ++ k) := by
  rw [List.append_assoc] at h
  rcases List.append_eq_append_iff.mp h with ⟨a, rfl, h'⟩ | ⟨b, hb, _⟩
  · obtain ⟨k, hk, fr', f', ex', e', h1, h2, h3⟩ := fracexp_prefix hf he h'
    refine ⟨k, hk, ?_⟩
    rw [List.append_assoc, h1, ← List.append_assoc]
    exact .finite i fr' ex' f' e' hi h2 h3
  · rcases isD_prefix hi hb with rfl | hc
    · exact absurd rfl hp
    · refine ⟨[], Or.inl rfl, ?_⟩
      have := Body.finite p [] [] [] none hc .none .none
      simpa using this

/-- prefixes of `( \( D? \) )?` are completed by "" or ")" -/
theorem payload_prefix {pl c q : List Nat} {pv : Option (List Nat)} (h : IsPayload pl pv) (hx : pl = c ++ q) :
    ∃ k, (k = [] ∨ k = [41]) ∧ ∃ pv', IsPayload (c ++ k) pv' := by
  cases h with
  | none =>
    obtain ⟨rfl, _⟩ := List.nil_eq_append_iff.mp hx
    exact ⟨[], Or.inl rfl, none, .none⟩
  | some ds hd =>
    rw [List.cons_append] at hx
    rcases List.cons_eq_append_iff.mp hx with ⟨rfl, _⟩ | ⟨c', rfl, h'⟩
    · exact ⟨[], Or.inl rfl, none, .none⟩
    · rcases List.append_eq_append_iff.mp h' with ⟨a, rfl, ha⟩ | ⟨b, hb, _⟩
      · -- `c' = ds ++ a` with `a` a prefix of ")"
        rcases List.cons_eq_append_iff.mp ha with ⟨rfl, _⟩ | ⟨a', rfl, ha'⟩
        · exact ⟨[41], Or.inr rfl, _, by simpa using IsPayload.some ds hd⟩
        · obtain ⟨rfl, _⟩ := List.nil_eq_append_iff.mp ha'
          exact ⟨[], Or.inl rfl, _, by simpa using IsPayload.some ds hd⟩
      · exact ⟨[41], Or.inr rfl, _, by simpa using IsPayload.some c' (allD_prefix hd hb)⟩

/-- a prefix `p` of a text that starts with a spelling `w` of a word either contains all of `w`, or is a
    proper prefix of `w` (and so spells the corresponding prefix of the word) -/
theorem word_prefix {w rest p q target : List Nat} (hw : w.map lower = target) (h : w ++ rest = p ++ q) :
    (∃ p3, p = w ++ p3 ∧ rest = p3 ++ q) ∨ (p.length < target.length ∧ p.map lower = target.take p.length) := by
  rcases List.append_eq_append_iff.mp h with ⟨a, ha, ha'⟩ | ⟨b, hb, _⟩
  · exact Or.inl ⟨a, ha, ha'⟩
  · cases b with
    | nil => exact Or.inl ⟨[], by simpa using hb.symm, by simp_all⟩
    | cons x b =>
      right
      subst hb
      rw [← hw, List.map_append]
      constructor
      · simp
      · rw [List.take_left']; simp

/-- the word-completion step: a prefix that spells the first `n` letters, followed by the other letters -/
theorem word_complete {p k target : List Nat} (n : Nat) (hn : p.length = n)
    (hp : p.map lower = target.take p.length) (tgt : List Nat) (hk : target.take n ++ k.map lower = tgt) :
    (p ++ k).map lower = tgt := by
  rw [List.map_append, hp, hn, hk]

theorem body_of_nan {l : List Nat} (h : l.map lower = [110, 97, 110]) : Body l := by
  have := Body.nan [] l [] false none .quiet (isWord_nan.mpr h) .none
  simpa using this

theorem body_of_snan {l : List Nat} (h : l.map lower = [115, 110, 97, 110]) : Body l := by
  simp only [List.map_eq_cons_iff, List.map_eq_nil_iff] at h
  obtain ⟨x, _, rfl, hx, a, _, rfl, ha, b, _, rfl, hb, c, _, rfl, hc, rfl⟩ := h
  exact Body.nan [x] [a, b, c] [] true none (.signalling _ (isWord_s.mpr (by simp [hx])))
    (isWord_nan.mpr (by simp [ha, hb, hc])) .none

theorem body_zero : Body [48] := by
  have := Body.finite [48] [] [] [] none isD_zero .none .none
  simpa using this

theorem mem_completions {k : List Nat}
    (h : k ∈ [[], [48], [41], [105, 110, 102], [110, 102], [102], [110, 105, 116, 121], [105, 116, 121],
      [116, 121], [121], [110, 97, 110], [97, 110], [110], [115, 110, 97, 110]]) : k ∈ completions := by
  rw [completions_eq]; exact h

/-- prefixes of `s? nan ( \( D? \) )?`: the part after the word -/
theorem nan_prefix {sw pl p q target : List Nat} {pv : Option (List Nat)} (hw : sw.map lower = target)
    (hpl : IsPayload pl pv) (h : sw ++ pl = p ++ q)
    (hbody : ∀ pl' pv', IsPayload pl' pv' → Body (sw ++ pl')) :
    (∃ k ∈ completions, Body (p ++ k)) ∨ (p.length < target.length ∧ p.map lower = target.take p.length) := by
  rcases word_prefix hw h with ⟨p3, rfl, h3⟩ | h2
  · left
    obtain ⟨k, hk, pv', hp'⟩ := payload_prefix hpl h3
    refine ⟨k, ?_, ?_⟩
    · rcases hk with rfl | rfl <;> exact mem_completions (by simp)
    · rw [List.append_assoc]; exact hbody _ _ hp'
  · exact Or.inr h2

/-- **every prefix of a body is completed to a body by one of the listed completions** -/
theorem body_prefix (b : List Nat) (hb : Body b) (p q : List Nat) (h : b = p ++ q) :
    ∃ k ∈ completions, Body (p ++ k) := by
  by_cases hp0 : p = []
  · subst hp0; exact ⟨[48], mem_completions (by simp), body_zero⟩
  have hlen : p.length ≠ 0 := by simpa using hp0
  cases hb with
  | finite i fr ex f e hi hf he =>
    obtain ⟨k, hk, hb'⟩ := finite_prefix hi hf he h hp0
    refine ⟨k, ?_, hb'⟩
    rcases hk with rfl | rfl <;> exact mem_completions (by simp)
  | inf w hw =>
    rw [isWord_inf] at hw
    rcases word_prefix (rest := []) hw (by simpa using h) with ⟨p3, rfl, h3⟩ | ⟨h1, h2⟩
    · obtain ⟨rfl, _⟩ := List.nil_eq_append_iff.mp h3
      exact ⟨[], mem_completions (by simp), .inf _ (isWord_inf.mpr (by simpa using hw))⟩
    · simp only [List.length_cons, List.length_nil] at h1
      obtain hn | hn : p.length = 1 ∨ p.length = 2 := by omega
      · exact ⟨[110, 102], mem_completions (by simp),
          .inf _ (isWord_inf.mpr (word_complete 1 hn h2 _ (by decide)))⟩
      · exact ⟨[102], mem_completions (by simp),
          .inf _ (isWord_inf.mpr (word_complete 2 hn h2 _ (by decide)))⟩
  | infinity w hw =>
    rw [isWord_infinity] at hw
    rcases word_prefix (rest := []) hw (by simpa using h) with ⟨p3, rfl, h3⟩ | ⟨h1, h2⟩
    · obtain ⟨rfl, _⟩ := List.nil_eq_append_iff.mp h3
      exact ⟨[], mem_completions (by simp), .infinity _ (isWord_infinity.mpr (by simpa using hw))⟩
    · simp only [List.length_cons, List.length_nil] at h1
      obtain hn | hn | hn | hn | hn | hn | hn :
        p.length = 1 ∨ p.length = 2 ∨ p.length = 3 ∨ p.length = 4 ∨ p.length = 5 ∨ p.length = 6 ∨ p.length = 7 := by
        omega
      · exact ⟨[110, 102], mem_completions (by simp),
          .inf _ (isWord_inf.mpr (word_complete 1 hn h2 _ (by decide)))⟩
      · exact ⟨[102], mem_completions (by simp),
          .inf _ (isWord_inf.mpr (word_complete 2 hn h2 _ (by decide)))⟩
      · exact ⟨[], mem_completions (by simp),
          .inf _ (isWord_inf.mpr (word_complete 3 hn h2 _ (by decide)))⟩
      · exact ⟨[110, 105, 116, 121], mem_completions (by simp),
          .infinity _ (isWord_infinity.mpr (word_complete 4 hn h2 _ (by decide)))⟩
      · exact ⟨[105, 116, 121], mem_completions (by simp),
          .infinity _ (isWord_infinity.mpr (word_complete 5 hn h2 _ (by decide)))⟩
      · exact ⟨[116, 121], mem_completions (by simp),
          .infinity _ (isWord_infinity.mpr (word_complete 6 hn h2 _ (by decide)))⟩
      · exact ⟨[121], mem_completions (by simp),
          .infinity _ (isWord_infinity.mpr (word_complete 7 hn h2 _ (by decide)))⟩
  | nan sn w pl g pv hg hw hpl =>
    cases hg with
    | quiet =>
      rw [List.nil_append] at h
      rcases nan_prefix (isWord_nan.mp hw) hpl h
        (fun pl' pv' hp' => by simpa using Body.nan [] w pl' false pv' .quiet hw hp') with hdone | ⟨h1, h2⟩
      · exact hdone
      · simp only [List.length_cons, List.length_nil] at h1
        obtain hn | hn : p.length = 1 ∨ p.length = 2 := by omega
        · exact ⟨[97, 110], mem_completions (by simp), body_of_nan (word_complete 1 hn h2 _ (by decide))⟩
        · exact ⟨[110], mem_completions (by simp), body_of_nan (word_complete 2 hn h2 _ (by decide))⟩
    | signalling l hl =>
      have hsw : (sn ++ w).map lower = [115, 110, 97, 110] := by
        rw [List.map_append, isWord_s.mp hl, isWord_nan.mp hw]; rfl
      rcases nan_prefix hsw hpl h
        (fun pl' pv' hp' => Body.nan sn w pl' true pv' (.signalling _ hl) hw hp') with hdone | ⟨h1, h2⟩
      · exact hdone
      · simp only [List.length_cons, List.length_nil] at h1
        obtain hn | hn | hn : p.length = 1 ∨ p.length = 2 ∨ p.length = 3 := by omega
        · exact ⟨[110, 97, 110], mem_completions (by simp), body_of_snan (word_complete 1 hn h2 _ (by decide))⟩
        · exact ⟨[97, 110], mem_completions (by simp), body_of_snan (word_complete 2 hn h2 _ (by decide))⟩
        · exact ⟨[110], mem_completions (by simp), body_of_snan (word_complete 3 hn h2 _ (by decide))⟩

/-- **every prefix of a numeral is completed to a numeral by one of the listed completions** -/
theorem matches_prefix {p q : List Nat} {num : Numeral} (h : Matches (p ++ q) num) : V p := by
  obtain ⟨sg, s, b, h1, hs, hb⟩ := body_of_matches h
  have hV0 : V [] := ⟨[48], mem_completions (by simp), matches_of_body .none body_zero⟩
  -- either `p` is empty, or it contains the whole sign
  have key : p = [] ∨ ∃ p2, p = sg ++ p2 ∧ b = p2 ++ q := by
    cases hs with
    | none => exact Or.inr ⟨p, rfl, by simpa using h1.symm⟩
    | plus =>
      rcases List.cons_eq_append_iff.mp h1.symm with ⟨hp, _⟩ | ⟨p2, hp, h2⟩
      · exact Or.inl hp
      · exact Or.inr ⟨p2, hp, h2⟩
    | minus =>
      rcases List.cons_eq_append_iff.mp h1.symm with ⟨hp, _⟩ | ⟨p2, hp, h2⟩
      · exact Or.inl hp
      · exact Or.inr ⟨p2, hp, h2⟩
  rcases key with rfl | ⟨p2, rfl, h2⟩
  · exact hV0
  · obtain ⟨k, hk, hb'⟩ := body_prefix b hb p2 q h2
    refine ⟨k, hk, ?_⟩
    rw [List.append_assoc]
    exact matches_of_body hs hb'

end Grammar

/-! ## Main theorem, part 2 -/

/-- **`Spec.viable` means what it says**: a prefix passes the finite test of `viable` (one of 14 listed
    completions makes it a numeral) iff *some* continuation makes it a numeral. -/
theorem viable_iff (p : List Nat) : viable p = true ↔ ∃ q, (parse (p ++ q)).isSome := by
  rw [Grammar.viable_iff_V]
  constructor
  · rintro ⟨c, _, h⟩; exact ⟨c, (parse_isSome_iff _).mpr h⟩
  · rintro ⟨q, h⟩
    obtain ⟨num, hm⟩ := (parse_isSome_iff _).mp h
    exact Grammar.matches_prefix hm

/-- viable prefixes are closed under taking prefixes -/
theorem viable_of_append {p q : List Nat} (h : viable (p ++ q) = true) : viable p = true := by
  rw [viable_iff] at h ⊢
  obtain ⟨r, hr⟩ := h
  exact ⟨q ++ r, by rwa [← List.append_assoc]⟩

/-- every numeral, and so every prefix of a numeral, is viable -/
theorem viable_of_parse {p q : List Nat} (h : (parse (p ++ q)).isSome) : viable p = true :=
  (viable_iff p).mpr ⟨q, h⟩

/-- a non-viable prefix stays non-viable: no continuation is a numeral -/
theorem parse_none_of_not_viable {p : List Nat} (h : viable p = false) (q : List Nat) : parse (p ++ q) = none := by
  cases hq : parse (p ++ q) with
  | none => rfl
  | some num =>
    have := viable_of_parse (p := p) (q := q) (by rw [hq]; rfl)
    rw [h] at this; cases this

/-! ## Concrete instances (the grammar is neither empty nor everything) -/

/-- `-12.5E+3`, decomposed by hand -/
example : Matches [45, 49, 50, 46, 53, 69, 43, 51] (.finite true [1, 2] [5] (some (false, [3]))) :=
  Matches.finite [45] [49, 50] [46, 53] [69, 43, 51] (some true) [5] (some (false, [3])) .minus
    ⟨by simp, by decide⟩ (.some [53] ⟨by simp, by decide⟩)
    (.some 69 [43] [51] (some false) (Or.inr rfl) .plus ⟨by simp, by decide⟩)

/-- `+Infinity` -/
example : Matches [43, 73, 110, 102, 105, 110, 105, 116, 121] (.inf false) :=
  Matches.infinity [43] [73, 110, 102, 105, 110, 105, 116, 121] (some false) .plus (by decide)

/-- `sNaN(07)` -/
example : Matches [115, 78, 97, 78, 40, 48, 55, 41] (.nan false true (some [0, 7])) :=
  Matches.nan [] [115] [78, 97, 78] [40, 48, 55, 41] none true (some [0, 7]) .none
    (.signalling _ (by decide)) (by decide) (.some [48, 55] (by decide))

/-- `nan()` has the empty payload, `nan` has none -/
example : Matches [110, 97, 110, 40, 41] (.nan false false (some [])) :=
  (parse_iff_matches _ _).mp (by decide)
example : Matches [110, 97, 110] (.nan false false none) :=
  (parse_iff_matches _ _).mp (by decide)

/-- `1.`, `.5`, `1e`, `+`, `in`, `nan(`, `1 ` (trailing space) and the empty text match nothing -/
example : ∀ txt ∈ [[49, 46], [46, 53], [49, 101], [43], [105, 110], [110, 97, 110, 40], [49, 32], []],
    ¬ ∃ num, Matches txt num := by
  intro txt h
  rw [← parse_isSome_iff]
  revert txt
  decide

/-- the denotation of `1e5` is unique, so it is not `1E5`'s mantissa-only reading -/
example (num : Numeral) (h : Matches [49, 101, 53] num) : num = .finite false [1] [] (some (false, [5])) :=
  matches_unique _ _ _ h ((parse_iff_matches _ _).mp (by decide))

/-- `1e+` is a viable prefix: some continuation (here `7`) is a numeral; `1e+-` is not -/
example : ∃ q, (parse ([49, 101, 43] ++ q)).isSome := ⟨[55], by decide⟩
example : viable [49, 101, 43] = true := (viable_iff _).mpr ⟨[55], by decide⟩
example (q : List Nat) : parse ([49, 101, 43, 45] ++ q) = none :=
  parse_none_of_not_viable (by decide) q

end Decstr.Proofs

#print axioms Decstr.Proofs.viable_iff
#print axioms Decstr.Proofs.viable_of_append
#print axioms Decstr.Proofs.parse_none_of_not_viable
#print axioms Decstr.Proofs.parse_iff_matches
#print axioms Decstr.Proofs.parse_isSome_iff
#print axioms Decstr.Proofs.matches_unique
