import Decstr.Model.ExecText
import Decstr.Proofs.ExecBasic
import Decstr.Proofs.Stream
/-!
# Proofs.ExecText — the checked text buffers and parsers never reach a panic site and compute what the pure parsers
compute: an array buffer is only written below its capacity (the per-fragment capacity test; the unchecked bytes of
`DecimalParser::parse_ascii` need a capacity of at least 2), the `debug_assert_eq!`s of the string buffer hold because the
buffer is positioned exactly at the byte being parsed, the `expecting` slices are taken of non-empty remainders.
-/
namespace Decstr.Proofs.Exec
open Decstr.Model Decstr.Model.Exec Decstr.Spec Decstr.Proofs

/-- an array buffer has room for `k` more bytes (the other buffers always have) -/
def Fits (b : TextBuf) (k : Nat) : Prop := ∀ cap, b.kind = .array cap → b.text.length + k ≤ cap

theorem Fits.mono {b : TextBuf} {k j : Nat} (h : Fits b k) (hj : j ≤ k) : Fits b j :=
  fun cap hc => by have := h cap hc; omega

theorem guardPut_ok (site : String) (b : TextBuf) (h : Fits b 1) : guardPut site b = .ok () := by
  unfold guardPut
  cases hk : b.kind with
  | array cap => simp only []; exact req_pos (by have := h cap hk; omega)
  | str => rfl
  | vec => rfl

theorem dbgStr_ok (c : Bool) (site : String) (b : TextBuf) (x : Nat) (rest : List Nat) (hT : Tracks b (x :: rest)) :
    dbgStr c site b x = .ok () := by
  unfold dbgStr
  cases hk : b.kind with
  | array cap => rfl
  | vec => rfl
  | str =>
    obtain ⟨pre, h1, h2⟩ := hT hk
    simp only []
    cases c with
    | false => rfl
    | true =>
      simp only [if_true]
      rw [req_pos (by rw [h1, h2]; simp), bind_ok, req_pos (by rw [h1, h2]; simp)]

theorem remainingC_eq (c : Bool) (b : TextBuf) (h : Fits b 0) : remainingC c b = .ok b.remaining := by
  unfold remainingC TextBuf.remaining
  cases hk : b.kind with
  | array cap =>
    simp only []
    rw [subUsize_ok (by have := h cap hk; omega), bind_ok]
  | str => rfl
  | vec => rfl

theorem chk_map_ok {α β : Type} (f : α → β) (a : α) : (Except.ok a : Chk α).map f = .ok (f a) := rfl

/-! ## FiniteParser -/

theorem finite_stepC_eq (c : Bool) (p : FiniteParser) (ch : Nat) (rest : List Nat)
    (hT : Tracks p.buf (ch :: rest)) (hroom : Fits p.buf 1) :
    FiniteParserC.step c p ch = .ok (p.step ch) := by
  unfold FiniteParserC.step FiniteParser.step
  have hg : ∀ site, guardPut site p.buf = .ok () := fun site => guardPut_ok site p.buf hroom
  cases he : p.exp with
  | none =>
    simp only []
    by_cases h1 : isDigit ch = true
    · simp only [h1, if_true]
      unfold FiniteParserC.pushSignificandDigit pushSignificandDigitC
      rw [dbgStr_ok c _ p.buf ch rest hT, bind_ok, hg, bind_ok, bind_ok, chk_map_ok]
    · simp only [h1, Bool.false_eq_true, if_false]
      split
      · unfold FiniteParserC.significandNegative significandNegativeC
        rw [hg, bind_ok, bind_ok, chk_map_ok]
      · split
        · rename_i h46
          have e46 : ch = 46 := by simp at h46; exact h46.1
          unfold FiniteParserC.pushDecimalPoint pushDecimalPointC
          rw [dbgStr_ok c _ p.buf 46 rest (by rw [← e46]; exact hT), bind_ok, hg, bind_ok, bind_ok, chk_map_ok]
        · split
          · unfold FiniteParserC.beginExponent beginExponentC
            rw [hg, bind_ok, bind_ok, chk_map_ok]
          · split
            · rfl
            · rfl
  | some e =>
    simp only []
    by_cases h1 : isDigit ch = true
    · simp only [h1, if_true]
      unfold pushExponentDigitC
      rw [hg, bind_ok, bind_ok]
    · simp only [h1, Bool.false_eq_true, if_false]
      split
      · rename_i h45
        unfold exponentNegativeC
        rw [hg, bind_ok, bind_ok]
      · rfl

theorem finite_stepsC_eq (c : Bool) (p : FiniteParser) (cs rest : List Nat) (hI : InvF p)
    (hT : Tracks p.buf (cs ++ rest)) (hroom : Fits p.buf cs.length) :
    FiniteParserC.steps c p cs = .ok (p.steps cs) := by
  induction cs generalizing p with
  | nil => rfl
  | cons ch cs ih =>
    unfold FiniteParserC.steps FiniteParser.steps
    rw [finite_stepC_eq c p ch (cs ++ rest) hT (hroom.mono (by simp))]
    cases hs : p.step ch with
    | error e => rfl
    | ok p' =>
      simp only []
      obtain ⟨hI', hT'⟩ := (finite_step_view p ch (cs ++ rest) hI hT).2 p' hs
      obtain ⟨g1, g2⟩ := finite_step_grow p p' ch hs
      exact ih p' hI' hT' (fun cap hc => by
        have := hroom cap (g1 ▸ hc)
        simp only [List.length_cons] at this
        omega)

theorem finite_parseAsciiC_eq (c : Bool) (p : FiniteParser) (frag rest : List Nat) (hI : InvF p)
    (hT : Tracks p.buf (frag ++ rest)) (hroom : Fits p.buf 0) :
    FiniteParserC.parseAscii c p frag = .ok (p.parseAscii frag) := by
  unfold FiniteParserC.parseAscii FiniteParser.parseAscii
  rw [remainingC_eq c p.buf hroom, bind_ok]
  cases hr : p.buf.remaining with
  | none =>
    simp only []
    apply finite_stepsC_eq c p frag rest hI hT
    intro cap hc
    simp [TextBuf.remaining, hc] at hr
  | some r =>
    simp only []
    by_cases hlt : r < frag.length
    · simp only [hlt, if_true]
    · simp only [hlt, if_false]
      apply finite_stepsC_eq c p frag rest hI hT
      intro cap hc
      have h0 := hroom cap hc
      simp only [TextBuf.remaining, hc, Option.some.injEq] at hr
      omega

/-! ## InfinityParser -/

theorem infinity_stepC_eq (p : InfinityParser) (ch : Nat) (hroom : Fits p.buf 1) :
    InfinityParserC.step p ch = .ok (p.step ch) := by
  unfold InfinityParserC.step
  have hg : ∀ site, guardPut site p.buf = .ok () := fun site => guardPut_ok site p.buf hroom
  split
  · unfold advanceSignificandC; rw [hg, bind_ok, bind_ok]
  · split
    · unfold advanceSignificandC; rw [hg, bind_ok, bind_ok]
    · split
      · rename_i e es hex
        split
        · unfold advanceSignificandC
          rw [req_pos (by rw [hex]; simp), bind_ok, hg, bind_ok, bind_ok]
        · rfl
      · rfl

theorem infinity_stepsC_eq (p : InfinityParser) (cs : List Nat) (hroom : Fits p.buf cs.length) :
    InfinityParserC.steps p cs = .ok (p.steps cs) := by
  induction cs generalizing p with
  | nil => rfl
  | cons ch cs ih =>
    unfold InfinityParserC.steps InfinityParser.steps
    rw [infinity_stepC_eq p ch (hroom.mono (by simp))]
    cases hs : p.step ch with
    | error e => rfl
    | ok p' =>
      simp only []
      obtain ⟨g1, g2⟩ := infinity_step_grow p p' ch hs
      exact ih p' (fun cap hc => by
        have := hroom cap (g1 ▸ hc)
        simp only [List.length_cons] at this
        omega)

theorem infinity_parseAsciiC_eq (c : Bool) (p : InfinityParser) (frag : List Nat) (hroom : Fits p.buf 0) :
    InfinityParserC.parseAscii c p frag = .ok (p.parseAscii frag) := by
  unfold InfinityParserC.parseAscii InfinityParser.parseAscii
  rw [remainingC_eq c p.buf hroom, bind_ok]
  cases hr : p.buf.remaining with
  | none =>
    simp only []
    apply infinity_stepsC_eq p frag
    intro cap hc
    simp [TextBuf.remaining, hc] at hr
  | some r =>
    simp only []
    by_cases hlt : r < frag.length
    · simp only [hlt, if_true]
    · simp only [hlt, if_false]
      apply infinity_stepsC_eq p frag
      intro cap hc
      have h0 := hroom cap hc
      simp only [TextBuf.remaining, hc, Option.some.injEq] at hr
      omega

/-! ## NanParser -/

theorem isExpecting_pos (p : NanParser) (x : Nat) (h : p.isExpecting x = true) : 1 ≤ p.expecting.length := by
  unfold NanParser.isExpecting at h
  cases hex : p.expecting with
  | nil => rw [hex] at h; cases h
  | cons e es => simp

theorem nan_stepC_eq (c : Bool) (p : NanParser) (ch : Nat) (rest : List Nat)
    (hT : Tracks p.buf (ch :: rest)) (hroom : Fits p.buf 1) :
    NanParserC.step c p ch = .ok (p.step ch) := by
  unfold NanParserC.step
  have hg : ∀ site, guardPut site p.buf = .ok () := fun site => guardPut_ok site p.buf hroom
  have hAt : p.atStart = true → p.expecting.length = 6 := by
    intro h; simpa [NanParser.atStart, kwSnan] using h
  split
  · rename_i hd
    cases hp : p.payload with
    | none => simp [hp] at hd
    | some s =>
      simp only []
      unfold pushSignificandDigitC
      rw [dbgStr_ok c _ p.buf ch rest hT, bind_ok, hg, bind_ok, bind_ok]
  · rename_i hd
    split
    · unfold NanParserC.nanNegative advanceSignificandC
      rw [hg, bind_ok, bind_ok, chk_map_ok]
      simp only [NanParser.step, hd, Bool.false_eq_true, if_false]
      rename_i h; simp only [h, if_true]
    · rename_i h45
      split
      · unfold NanParserC.nanPositive advanceSignificandC
        rw [hg, bind_ok, bind_ok, chk_map_ok]
        simp only [NanParser.step, hd, Bool.false_eq_true, if_false, h45]
        rename_i h; simp only [h, if_true]
      · rename_i h43
        split
        · rename_i hq
          have hat : p.atStart = true := by simp at hq; exact hq.2
          unfold NanParserC.nanQuiet advanceSignificandC
          rw [req_pos (by have := hAt hat; omega), bind_ok, hg, bind_ok, bind_ok, chk_map_ok]
          simp only [NanParser.step, hd, Bool.false_eq_true, if_false, h45, h43, hq, if_true]
        · rename_i hq
          split
          · rename_i hs
            have hat : p.atStart = true := by simp at hs; exact hs.2
            unfold NanParserC.nanSignaling advanceSignificandC
            rw [req_pos (by have := hAt hat; omega), bind_ok, hg, bind_ok, bind_ok, chk_map_ok]
            simp only [NanParser.step, hd, Bool.false_eq_true, if_false, h45, h43, hq, hs, if_true]
          · rename_i hs
            split
            · rename_i h40
              have hex : p.isExpecting 40 = true := by simp at h40; exact h40.2
              unfold advanceSignificandC
              rw [req_pos (isExpecting_pos p 40 hex), bind_ok, hg, bind_ok, bind_ok]
            · split
              · rename_i h41
                have hex : p.isExpecting 41 = true := by simp at h41; exact h41.2
                unfold advanceSignificandC
                rw [req_pos (isExpecting_pos p 41 hex), bind_ok, hg, bind_ok, bind_ok]
              · split
                · rename_i hex
                  unfold advanceSignificandC
                  rw [req_pos (isExpecting_pos p ch hex), bind_ok, hg, bind_ok, bind_ok]
                · rfl

theorem nan_stepsC_eq (c : Bool) (p : NanParser) (cs rest : List Nat) (hI : InvN p)
    (hT : Tracks p.buf (cs ++ rest)) (hroom : Fits p.buf cs.length) :
    NanParserC.steps c p cs = .ok (p.steps cs) := by
  induction cs generalizing p with
  | nil => rfl
  | cons ch cs ih =>
    unfold NanParserC.steps NanParser.steps
    rw [nan_stepC_eq c p ch (cs ++ rest) hT (hroom.mono (by simp))]
    cases hs : p.step ch with
    | error e => rfl
    | ok p' =>
      simp only []
      obtain ⟨hI', hT'⟩ := (nan_step_view p ch (cs ++ rest) hI hT).2 p' hs
      obtain ⟨g1, g2⟩ := nan_step_grow p p' ch hs
      exact ih p' hI' hT' (fun cap hc => by
        have := hroom cap (g1 ▸ hc)
        simp only [List.length_cons] at this
        omega)

theorem nan_parseAsciiC_eq (c : Bool) (p : NanParser) (frag rest : List Nat) (hI : InvN p)
    (hT : Tracks p.buf (frag ++ rest)) (hroom : Fits p.buf 0) :
    NanParserC.parseAscii c p frag = .ok (p.parseAscii frag) := by
  unfold NanParserC.parseAscii NanParser.parseAscii
  rw [remainingC_eq c p.buf hroom, bind_ok]
  cases hr : p.buf.remaining with
  | none =>
    simp only []
    apply nan_stepsC_eq c p frag rest hI hT
    intro cap hc
    simp [TextBuf.remaining, hc] at hr
  | some r =>
    simp only []
    by_cases hlt : r < frag.length
    · simp only [hlt, if_true]
    · simp only [hlt, if_false]
      apply nan_stepsC_eq c p frag rest hI hT
      intro cap hc
      have h0 := hroom cap hc
      simp only [TextBuf.remaining, hc, Option.some.injEq] at hr
      omega


/-! ## DecimalParser -/

theorem fits_put (b : TextBuf) (x k : Nat) (h : Fits b (k + 1)) : Fits (b.put x) k := by
  intro cap hc
  rw [kind_put] at hc
  have := h cap hc
  have := text_length_put b x
  omega

theorem fits_sigPos (b : TextBuf) (s : PSignificand) (k : Nat) (h : Fits b (k + 1)) : Fits (b.significandPositive s).1 k := by
  obtain ⟨kd, t, i⟩ := b
  cases kd with
  | str => intro cap hc; simp [TextBuf.significandPositive, TextBuf.put] at hc
  | vec => intro cap hc; simp [TextBuf.significandPositive] at hc
  | array cp =>
    intro cap hc
    simp only [TextBuf.significandPositive] at hc ⊢
    have := h cap hc
    simp only at this ⊢
    omega

theorem tracks_sigPos (b : TextBuf) (s : PSignificand) (rest : List Nat) (h : Tracks b (43 :: rest)) :
    Tracks (b.significandPositive s).1 rest := by
  obtain ⟨kd, t, i⟩ := b
  cases kd with
  | str => exact tracks_put ⟨.str, t, i⟩ 43 rest h
  | vec => exact tracks_of_ne_str _ _ (by simp [TextBuf.significandPositive])
  | array cp => exact tracks_of_ne_str _ _ (by simp [TextBuf.significandPositive])

/-- the `AtStart` arm: the bytes stored before a sub-parser exists need room for two -/
theorem startStepC_eq (c : Bool) (b : TextBuf) (neg : Option Bool) (ch : Nat) (rest : List Nat)
    (hT : Tracks b (signByte neg ++ ch :: rest)) (hroom : Fits b 2) :
    DecimalParserC.startStep c b neg ch = .ok (DecimalParser.startStep b neg ch) := by
  have hg1 : ∀ site, guardPut site b = .ok () := fun site => guardPut_ok site b (hroom.mono (by omega))
  have hg2 : ∀ site x, guardPut site (b.put x) = .ok () := fun site x => guardPut_ok site _ (fits_put b x 1 hroom)
  unfold DecimalParserC.startStep DecimalParser.startStep
  by_cases hd : isDigit ch = true
  · simp only [hd, if_true]
    rcases neg with _ | _ | _
    · -- no sign
      simp only [bind_ok]
      unfold FiniteParserC.pushSignificandDigit pushSignificandDigitC
      rw [dbgStr_ok c _ _ ch rest (by simpa [signByte, FiniteParser.begin] using hT), bind_ok]
      simp only [FiniteParser.begin]
      rw [hg1, bind_ok, bind_ok, bind_ok]
    · -- `+`
      simp only [FiniteParserC.significandPositive, bind_ok]
      unfold FiniteParserC.pushSignificandDigit pushSignificandDigitC
      have hT' : Tracks (FiniteParser.begin b).significandPositive.buf (ch :: rest) := by
        simp only [FiniteParser.significandPositive, FiniteParser.begin]
        exact tracks_sigPos b _ _ (by simpa [signByte] using hT)
      rw [dbgStr_ok c _ _ ch rest hT', bind_ok,
        guardPut_ok _ _ (by simp only [FiniteParser.significandPositive, FiniteParser.begin]; exact fits_sigPos b _ 1 hroom),
        bind_ok, bind_ok, bind_ok]
    · -- `-`
      unfold FiniteParserC.significandNegative significandNegativeC
      simp only [FiniteParser.begin]
      rw [hg1, bind_ok, bind_ok, bind_ok]
      unfold FiniteParserC.pushSignificandDigit pushSignificandDigitC
      have hT' : Tracks (b.put 45) (ch :: rest) := tracks_put b 45 _ (by simpa [signByte] using hT)
      simp only [FiniteParser.significandNegative, TextBuf.significandNegative]
      rw [dbgStr_ok c _ _ ch rest hT', bind_ok, hg2, bind_ok, bind_ok, bind_ok]
  · simp only [hd, Bool.false_eq_true, if_false]
    split
    · rfl
    · split
      · rfl
      · split
        · -- signaling NaN
          rcases neg with _ | _ | _
          · simp only [bind_ok]
            unfold NanParserC.nanSignaling advanceSignificandC
            rw [req_pos (Nat.le_of_ble_eq_true rfl), bind_ok, hg1, bind_ok, bind_ok, bind_ok]
          · unfold NanParserC.nanPositive advanceSignificandC
            simp only []
            rw [hg1, bind_ok, bind_ok, bind_ok]
            unfold NanParserC.nanSignaling advanceSignificandC
            rw [req_pos (Nat.le_of_ble_eq_true rfl), bind_ok]
            simp only [NanParser.nanPositive, TextBuf.advanceSignificand]
            rw [hg2, bind_ok, bind_ok, bind_ok]
          · unfold NanParserC.nanNegative advanceSignificandC
            simp only []
            rw [hg1, bind_ok, bind_ok, bind_ok]
            unfold NanParserC.nanSignaling advanceSignificandC
            rw [req_pos (Nat.le_of_ble_eq_true rfl), bind_ok]
            simp only [NanParser.nanNegative, TextBuf.advanceSignificand]
            rw [hg2, bind_ok, bind_ok, bind_ok]
        · split
          · -- quiet NaN
            rcases neg with _ | _ | _
            · simp only [bind_ok]
              unfold NanParserC.nanQuiet advanceSignificandC
              rw [req_pos (Nat.le_of_ble_eq_true rfl), bind_ok, hg1, bind_ok, bind_ok, bind_ok]
            · unfold NanParserC.nanPositive advanceSignificandC
              simp only []
              rw [hg1, bind_ok, bind_ok, bind_ok]
              unfold NanParserC.nanQuiet advanceSignificandC
              rw [req_pos (Nat.le_of_ble_eq_true rfl), bind_ok]
              simp only [NanParser.nanPositive, TextBuf.advanceSignificand]
              rw [hg2, bind_ok, bind_ok, bind_ok]
            · unfold NanParserC.nanNegative advanceSignificandC
              simp only []
              rw [hg1, bind_ok, bind_ok, bind_ok]
              unfold NanParserC.nanQuiet advanceSignificandC
              rw [req_pos (Nat.le_of_ble_eq_true rfl), bind_ok]
              simp only [NanParser.nanNegative, TextBuf.advanceSignificand]
              rw [hg2, bind_ok, bind_ok, bind_ok]
          · split
            · -- infinity
              unfold InfinityParserC.advance advanceSignificandC
              rcases neg with _ | _ <;>
                (simp only []; rw [req_pos (Nat.le_of_ble_eq_true rfl), bind_ok, hg1, bind_ok, bind_ok, bind_ok])
            · rfl

/-- room in the buffer of a `DecimalParser` state: two bytes while at the start, the stored text within the array after -/
def RoomD : DecimalParser → Prop
  | .atStart b _ => Fits b 2
  | .finite f => Fits f.buf 0
  | .infinity i => Fits i.buf 0
  | .nan n => Fits n.buf 0
  | .failed _ => True


/-- what the `AtStart` arm produces has room: the same buffer, or a sub-parser holding at most two bytes more -/
theorem startStep_room (b : TextBuf) (neg : Option Bool) (ch : Nat) (p' : DecimalParser) (hroom : Fits b 2)
    (h : DecimalParser.startStep b neg ch = .ok p') : RoomD p' := by
  rw [startStep_eq] at h
  cases hc : startCase neg ch with
  | digit =>
    rw [hc] at h; simp only [startBranch] at h
    cases hs : (FiniteParser.begin b).steps (signByte neg ++ [ch]) with
    | error e => rw [hs] at h; cases h
    | ok f' =>
      rw [hs] at h; cases h
      obtain ⟨g1, g2⟩ := finite_steps_grow _ f' _ hs
      intro cap hk
      have := hroom cap (g1 ▸ hk)
      have := signByte_length_le neg
      simp only [List.length_append, List.length_singleton, FiniteParser.begin] at g2 this
      omega
  | neg => rw [hc] at h; cases h; exact hroom
  | pos => rw [hc] at h; cases h; exact hroom
  | nan =>
    rw [hc] at h; simp only [startBranch] at h
    cases hs : ({ buf := b } : NanParser).steps (signByte neg ++ [ch]) with
    | error e => rw [hs] at h; cases h
    | ok f' =>
      rw [hs] at h; cases h
      obtain ⟨g1, g2⟩ := nan_steps_grow _ f' _ hs
      intro cap hk
      have := hroom cap (g1 ▸ hk)
      have := signByte_length_le neg
      simp only [List.length_append, List.length_singleton] at g2 this
      omega
  | inf =>
    rw [hc] at h; cases h
    intro cap hk
    simp only [InfinityParser.advance, TextBuf.advanceSignificand] at hk ⊢
    rw [kind_put] at hk
    have := hroom cap hk
    have := text_length_put b ch
    omega
  | bad => rw [hc] at h; cases h

theorem room_of_capOk (b b' : TextBuf) (n : Nat) (hcap : capOk b n = true) (hk : b'.kind = b.kind)
    (hlen : b'.text.length ≤ b.text.length + n) (h0 : Fits b 0) : Fits b' 0 := by
  intro cap hc
  rw [hk] at hc
  have h1 := h0 cap hc
  simp only [capOk, TextBuf.remaining, hc, Bool.not_eq_true', decide_eq_false_iff_not] at hcap
  omega

/-- a consumed fragment leaves a state that is in step with its buffer and has room -/
theorem parseAscii_pres (p p' : DecimalParser) (cs rest : List Nat) (hI : InvD p (cs ++ rest)) (hR : RoomD p)
    (h : p.parseAscii cs = .ok p') : InvD p' rest ∧ RoomD p' ∧ (bufOf p').kind = (bufOf p).kind := by
  induction cs generalizing p with
  | nil =>
    cases p with
    | failed e => exact hI.elim
    | _ => simp [DecimalParser.parseAscii] at h; subst h; exact ⟨by simpa using hI, hR, rfl⟩
  | cons ch cs ih =>
    cases p with
    | failed e => exact hI.elim
    | finite f =>
      rw [parseAscii_finite, finite_parseAscii_eq] at h
      cases hcap : capOk f.buf (ch :: cs).length with
      | false => rw [hcap] at h; cases h
      | true =>
        rw [hcap] at h
        simp only [if_true] at h
        cases hs : f.steps (ch :: cs) with
        | error e => rw [hs] at h; cases h
        | ok f' =>
          rw [hs] at h; cases h
          obtain ⟨g1, g2⟩ := finite_steps_grow f f' _ hs
          exact ⟨(finite_steps_view f (ch :: cs) rest hI.1 hI.2).2 f' hs,
            room_of_capOk f.buf f'.buf _ hcap g1 g2 hR, g1⟩
    | infinity f =>
      rw [parseAscii_infinity, infinity_parseAscii_eq] at h
      cases hcap : capOk f.buf (ch :: cs).length with
      | false => rw [hcap] at h; cases h
      | true =>
        rw [hcap] at h
        simp only [if_true] at h
        cases hs : f.steps (ch :: cs) with
        | error e => rw [hs] at h; cases h
        | ok f' =>
          rw [hs] at h; cases h
          obtain ⟨g1, g2⟩ := infinity_steps_grow f f' _ hs
          exact ⟨trivial, room_of_capOk f.buf f'.buf _ hcap g1 g2 hR, g1⟩
    | nan f =>
      rw [parseAscii_nan, nan_parseAscii_eq] at h
      cases hcap : capOk f.buf (ch :: cs).length with
      | false => rw [hcap] at h; cases h
      | true =>
        rw [hcap] at h
        simp only [if_true] at h
        cases hs : f.steps (ch :: cs) with
        | error e => rw [hs] at h; cases h
        | ok f' =>
          rw [hs] at h; cases h
          obtain ⟨g1, g2⟩ := nan_steps_grow f f' _ hs
          exact ⟨(nan_steps_view f (ch :: cs) rest hI.1 hI.2).2 f' hs,
            room_of_capOk f.buf f'.buf _ hcap g1 g2 hR, g1⟩
    | atStart b neg =>
      rw [parseAscii_atStart] at h
      cases hs : DecimalParser.startStep b neg ch with
      | error e => rw [hs] at h; cases h
      | ok p1 =>
        rw [hs] at h
        simp only at h
        have hI1 := (stepD_view (.atStart b neg) ch (cs ++ rest) hI).2 p1 hs
        have hR1 := startStep_room b neg ch p1 hR hs
        obtain ⟨g0, g1, g2⟩ := stepD_grow (.atStart b neg) p1 ch hs
        obtain ⟨i1, i2, i3⟩ := ih p1 hI1 hR1 h
        exact ⟨i1, i2, i3.trans g1⟩

/-- **`DecimalParser::parse_ascii`** on one fragment -/
theorem parseAsciiC_eq (c : Bool) (p : DecimalParser) (cs rest : List Nat) (hI : InvD p (cs ++ rest)) (hR : RoomD p) :
    DecimalParserC.parseAscii c p cs = .ok (p.parseAscii cs) := by
  induction cs generalizing p with
  | nil =>
    cases p with
    | failed e => exact hI.elim
    | _ => simp [DecimalParserC.parseAscii, DecimalParser.parseAscii]
  | cons ch cs ih =>
    cases p with
    | failed e => exact hI.elim
    | finite f =>
      rw [parseAscii_finite]
      simp only [DecimalParserC.parseAscii]
      rw [finite_parseAsciiC_eq c f (ch :: cs) rest hI.1 hI.2 hR]
      rfl
    | infinity f =>
      rw [parseAscii_infinity]
      simp only [DecimalParserC.parseAscii]
      rw [infinity_parseAsciiC_eq c f (ch :: cs) hR]
      rfl
    | nan f =>
      rw [parseAscii_nan]
      simp only [DecimalParserC.parseAscii]
      rw [nan_parseAsciiC_eq c f (ch :: cs) rest hI.1 hI.2 hR]
      rfl
    | atStart b neg =>
      rw [parseAscii_atStart]
      simp only [DecimalParserC.parseAscii]
      rw [startStepC_eq c b neg ch (cs ++ rest) hI hR]
      cases hs : DecimalParser.startStep b neg ch with
      | error e => rfl
      | ok p1 =>
        simp only []
        exact ih p1 ((stepD_view (.atStart b neg) ch (cs ++ rest) hI).2 p1 hs) (startStep_room b neg ch p1 hR hs)

/-- **`DecimalParser::parse_str`**: no panic site for any input, either profile -/
theorem parseStrC_eq (c : Bool) (input : List Nat) : parseStrC c input = .ok (parseStr input) := by
  unfold parseStrC parseStr
  rw [parseAsciiC_eq c _ input [] (by simpa using invD_begin_str input)
    (by intro cap hc; simp [TextBuf.new] at hc)]
  cases (DecimalParser.begin (TextBuf.new .str input)).parseAscii input <;> rfl

/-- **`FiniteParser::parse_str`** -/
theorem parseFiniteStrC_eq (c : Bool) (input : List Nat) : parseFiniteStrC c input = .ok (parseFiniteStr input) := by
  unfold parseFiniteStrC parseFiniteStr
  rw [finite_parseAsciiC_eq c _ input [] (invF_begin _) (by
      intro _; exact ⟨[], by simp [FiniteParser.begin, TextBuf.new], rfl⟩)
    (by intro cap hc; simp [FiniteParser.begin, TextBuf.new] at hc)]
  cases (FiniteParser.begin (TextBuf.new .str input)).parseAscii input <;> rfl

/-! ## fragments -/

theorem invD_any (p : DecimalParser) (r1 r2 : List Nat) (hk : (bufOf p).kind ≠ .str) (h : InvD p r1) : InvD p r2 := by
  cases p with
  | failed e => exact h.elim
  | atStart b neg => exact tracks_of_ne_str _ _ hk
  | finite f => exact ⟨h.1, tracks_of_ne_str _ _ hk⟩
  | infinity i => trivial
  | nan n => exact ⟨h.1, tracks_of_ne_str _ _ hk⟩

theorem feedC_nil (c : Bool) (p : DecimalParser) (fault : Fault) (i : Nat) :
    feedC c p [] fault i = .ok (p, fault == .failAt i) := by
  simp only [feedC]

theorem feedC_cons_failed (c : Bool) (e : ParseErr) (f : List Nat) (rest : List (List Nat)) (fault : Fault) (i : Nat) :
    feedC c (.failed e) (f :: rest) fault i =
      if fault == .failAt i then .ok (.failed e, true)
      else if fault == .swallow then feedC c (.failed e) rest fault (i + 1) else .ok (.failed e, true) := by
  simp only [feedC]

theorem feedC_cons_live (c : Bool) (p : DecimalParser) (f : List Nat) (rest : List (List Nat)) (fault : Fault) (i : Nat)
    (hf : isFailed p = false) :
    feedC c p (f :: rest) fault i =
      if fault == .failAt i then .ok (p, true)
      else match DecimalParserC.parseAscii c p f with
        | .error s => .error s
        | .ok (.ok p') => feedC c p' rest fault (i + 1)
        | .ok (.error e) => if fault == .swallow then feedC c (.failed e) rest fault (i + 1) else .ok (.failed e, true) := by
  cases p with
  | failed e => simp [isFailed] at hf
  | _ =>
    simp only [feedC]
    split
    · rfl
    · split <;> rename_i h <;> rw [h]

/-- `write!(parser, "{}", display)` over a copying buffer -/
theorem feedC_eq (c : Bool) (p : DecimalParser) (frags : List (List Nat)) (fault : Fault) (i : Nat)
    (hk : isFailed p = false → (bufOf p).kind ≠ .str ∧ InvD p [] ∧ RoomD p) :
    feedC c p frags fault i = .ok (feed p frags fault i) := by
  induction frags generalizing p i with
  | nil => rw [feedC_nil, feed_nil]
  | cons f rest ih =>
    cases hf : isFailed p with
    | true =>
      cases p with
      | failed e =>
        rw [feedC_cons_failed, feed_cons_failed]
        split
        · rfl
        · split
          · exact ih _ _ (fun h => by simp [isFailed] at h)
          · rfl
      | _ => simp [isFailed] at hf
    | false =>
      obtain ⟨h1, h2, h3⟩ := hk hf
      rw [feed_cons_live p f rest fault i hf, feedC_cons_live c p f rest fault i hf,
        parseAsciiC_eq c p f [] (invD_any p [] (f ++ []) h1 h2) h3]
      split
      · rfl
      · cases hp : p.parseAscii f with
        | error e =>
          simp only []
          split
          · exact ih _ _ (fun h => by simp [isFailed] at h)
          · rfl
        | ok p' =>
          simp only []
          obtain ⟨g1, g2, g3⟩ := parseAscii_pres p p' f [] (invD_any p [] (f ++ []) h1 h2) h3 hp
          exact ih p' _ (fun _ => ⟨by rw [g3]; exact h1, g1, g2⟩)

/-- **`decimal_from_fmt`** up to `parser.end()`: for an array buffer of capacity at least 2 (32, 64 and 128 in the crate)
    or a vector buffer, any fragments and any behaviour of the `Display` implementation -/
theorem parseFmtC_eq (c : Bool) (kind : BufKind) (hk : kind ≠ .str) (hcap : ∀ cap, kind = .array cap → 2 ≤ cap)
    (frags : List (List Nat)) (fault : Fault) : parseFmtC c kind frags fault = .ok (parseFmt kind frags fault) := by
  unfold parseFmtC parseFmt
  rw [feedC_eq c _ frags fault 0 (fun _ => by
    refine ⟨?_, invD_begin_copy kind hk [], ?_⟩
    · cases kind <;> simp_all [bufOf, DecimalParser.begin, TextBuf.new]
    · intro cap hc
      cases kind with
      | str => exact absurd rfl hk
      | vec => simp [TextBuf.new] at hc
      | array cp =>
        simp only [TextBuf.new] at hc ⊢
        have := hcap cp rfl
        simp only [BufKind.array.injEq] at hc
        simp only [List.length_nil]; omega)]
  generalize feed (DecimalParser.begin (TextBuf.new kind [])) frags fault 0 = r
  obtain ⟨p, b⟩ := r
  cases b with
  | false => cases p <;> rfl
  | true => cases p <;> rfl

end Decstr.Proofs.Exec

#print axioms Decstr.Proofs.Exec.parseStrC_eq
#print axioms Decstr.Proofs.Exec.parseFiniteStrC_eq
#print axioms Decstr.Proofs.Exec.parseFmtC_eq
