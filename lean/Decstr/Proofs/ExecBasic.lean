import Decstr.Model.Exec
import Decstr.Proofs.Basic
/-!
# Proofs.ExecBasic — the primitive checks of the checked model succeed under their side conditions
-/
namespace Decstr.Proofs.Exec
open Decstr.Model Decstr.Model.Exec Decstr.Spec Decstr.Proofs

theorem bind_ok {α β : Type} (a : α) (f : α → Chk β) : (Except.ok a >>= f) = f a := rfl
theorem bind_error {α β : Type} (e : String) (f : α → Chk β) : ((Except.error e : Chk α) >>= f) = .error e := rfl
theorem pure_eq {α : Type} (a : α) : (pure a : Chk α) = .ok a := rfl

theorem req_pos {site : String} {p : Prop} [Decidable p] (h : p) : req site p = .ok () := by
  simp [req, h]
theorem dbg_pos {c : Bool} {site : String} {p : Prop} [Decidable p] (h : p) : dbg c site p = .ok () := by
  simp [dbg, h]
theorem subUsize_ok {c : Bool} {s : String} {a b : Nat} (h : b ≤ a) : subUsize c s a b = .ok (a - b) := by
  simp [subUsize, h]
theorem subU32_ok {c : Bool} {s : String} {a b : Nat} (h : b ≤ a) : subU32 c s a b = .ok (a - b) := by
  simp [subU32, h]
theorem subU8_ok {c : Bool} {s : String} {a b : Nat} (h : b ≤ a) : subU8 c s a b = .ok (a - b) := by
  simp [subU8, h]
theorem addU8_ok {c : Bool} {s : String} {a b : Nat} (h : a + b < 256) : addU8 c s a b = .ok (a + b) := by
  simp [addU8, h]
theorem resI32_ok {c : Bool} {s : String} {r : Int} (h1 : i32Min ≤ r) (h2 : r ≤ i32Max) : resI32 c s r = .ok r := by
  have h : fitsI32 r := ⟨h1, h2⟩
  simp [resI32, h]
theorem shAmt_ok {c : Bool} {site : String} {bits s : Nat} (h : s < bits) : shAmt c site bits s = .ok s := by
  simp [shAmt, h]
theorem idx_ok {site : String} {l : List Nat} {i : Nat} (h : i < l.length) : idx site l i = .ok (l.getD i 0) := by
  simp [idx, h]
theorem getC_ok {site : String} {b : Buf} {i : Nat} (h : i < b.len) : getC site b i = .ok (b.get i) := by
  simp [getC, h]
theorem orAtC_ok {site : String} {b : Buf} {i v : Nat} (h : i < b.len) : orAtC site b i v = .ok (b.orAt i v) := by
  simp [orAtC, h]
theorem setAtC_ok {site : String} {b : Buf} {i v : Nat} (h : i < b.len) : setAtC site b i v = .ok (b.setAt i v) := by
  simp [setAtC, h]

@[simp] theorem orAt_len (b : Buf) (i v : Nat) : (b.orAt i v).len = b.len := rfl
@[simp] theorem setAt_len (b : Buf) (i v : Nat) : (b.setAt i v).len = b.len := rfl

/-! ## geometry of a buffer of `4n` bytes -/

theorem widthBits_of_len (b : Buf) (n : Nat) (hl : b.len = 4 * n) : b.widthBits = 32 * n := by
  simp only [Buf.widthBits, hl]; omega
theorem precision_of_len (b : Buf) (n : Nat) (hl : b.len = 4 * n) : b.precision = 9 * n - 2 := by
  simp only [Buf.precision, widthBits_of_len b n hl]; omega
theorem trailingDigits_of_len (b : Buf) (n : Nat) (hl : b.len = 4 * n) : b.trailingDigits = 9 * n - 3 := by
  simp only [Buf.trailingDigits, precision_of_len b n hl]; omega
theorem trailingBits_of_len (b : Buf) (n : Nat) (hl : b.len = 4 * n) : b.trailingBits = 30 * n - 10 := by
  simp only [Buf.trailingBits, widthBits_of_len b n hl]; omega
theorem combinationBits_of_len (b : Buf) (n : Nat) (hl : b.len = 4 * n) : b.combinationBits = 2 * n + 9 := by
  simp only [Buf.combinationBits, widthBits_of_len b n hl]; omega
theorem exponentBits_of_len (b : Buf) (n : Nat) (hl : b.len = 4 * n) : b.exponentBits = 2 * n + 6 := by
  simp only [Buf.exponentBits, combinationBits_of_len b n hl]; omega

theorem precisionC_eq (c : Bool) (b : Buf) (n : Nat) (hn : 0 < n) (hl : b.len = 4 * n) :
    precisionC c b = .ok b.precision := by
  unfold precisionC
  rw [subUsize_ok (by rw [widthBits_of_len b n hl]; omega)]
  rfl

theorem trailingDigitsC_eq (c : Bool) (b : Buf) (n : Nat) (hn : 0 < n) (hl : b.len = 4 * n) :
    trailingDigitsC c b = .ok b.trailingDigits := by
  unfold trailingDigitsC
  rw [precisionC_eq c b n hn hl, bind_ok, subUsize_ok (by rw [precision_of_len b n hl]; omega)]
  rfl

theorem trailingBitsC_eq (c : Bool) (b : Buf) (n : Nat) (hn : 0 < n) (hl : b.len = 4 * n) :
    trailingBitsC c b = .ok b.trailingBits := by
  unfold trailingBitsC
  rw [subUsize_ok (by rw [widthBits_of_len b n hl]; omega)]
  rfl

/-- holds for every buffer: `bit_width / 16 + 9 ≥ 3` -/
theorem exponentBitsC_eq (c : Bool) (b : Buf) : exponentBitsC c b = .ok b.exponentBits := by
  unfold exponentBitsC
  rw [subUsize_ok (by simp only [Buf.combinationBits]; omega)]
  rfl

end Decstr.Proofs.Exec
