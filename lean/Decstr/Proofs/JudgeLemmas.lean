import Decstr.Proofs.Basic
import Decstr.Proofs.Widths
import Decstr.Model.Api
/-!
# Proofs.JudgeLemmas — small facts about the run-time oracle (`Spec/Judge.lean`) used by `Props/Judged.lean`

* `chk` of a true condition raises no complaint (the complaint text is never inspected);
* little-endian bytes: `ofLeBytes (leBytes len N) = N` for `N < 2^(8·len)` (the converse of `C16.leBytes_ofLeBytes`);
* `judgeBytes` accepts the bytes of a well-formed buffer holding the expected pattern;
* `stripZeros` only shortens.
-/
namespace Decstr.Proofs
open Decstr.Model Decstr.Spec

theorem chk_true (p w : String) : chk true p w = [] := rfl

theorem chk_of (c : Bool) (p w : String) (h : c = true) : chk c p w = [] := by subst h; rfl

theorem chk_decide (P : Prop) [Decidable P] (p w : String) (h : P) : chk (decide P) p w = [] := by
  simp [chk, h]

theorem leBytes_length (len N : Nat) : (leBytes len N).length = len := by
  induction len generalizing N with
  | zero => rfl
  | succ k ih => simp [leBytes, ih]

theorem leBytes_lt (len N : Nat) : ∀ x ∈ leBytes len N, x < 256 := by
  induction len generalizing N with
  | zero => intro x hx; simp [leBytes] at hx
  | succ k ih =>
    intro x hx
    simp only [leBytes, List.mem_cons] at hx
    rcases hx with rfl | hx
    · exact Nat.mod_lt _ (by decide)
    · exact ih _ x hx

/-- the converse of `C16.leBytes_ofLeBytes` -/
theorem ofLeBytes_leBytes (len N : Nat) (h : N < 2 ^ (8 * len)) : ofLeBytes (leBytes len N) = N := by
  induction len generalizing N with
  | zero => simp at h; subst h; rfl
  | succ k ih =>
    simp only [leBytes, ofLeBytes]
    have e : 2 ^ (8 * (k + 1)) = 256 * 2 ^ (8 * k) := by
      rw [Nat.mul_add, Nat.pow_add]; simp [Nat.mul_comm]
    rw [e] at h
    have : N / 256 < 2 ^ (8 * k) := by omega
    rw [ih _ this]; omega

theorem toBytes_length (b : Buf) : b.toBytes.length = b.len := leBytes_length _ _

theorem toBytes_mk_length (n N : Nat) : (Buf.toBytes ⟨4 * n, N⟩).length = 4 * n := leBytes_length _ _

theorem ofLeBytes_toBytes_mk (n N : Nat) (h : N < 2 ^ (32 * n)) : ofLeBytes (Buf.toBytes ⟨4 * n, N⟩) = N := by
  apply ofLeBytes_leBytes
  have e : 8 * (4 * n) = 32 * n := by omega
  simp only [e]; exact h

theorem ofLeBytes_lt (l : List Nat) (hb : ∀ x ∈ l, x < 256) : ofLeBytes l < 2 ^ (8 * l.length) := by
  induction l with
  | nil => simp [ofLeBytes]
  | cons x xs ih =>
    have hx : x < 256 := hb x (by simp)
    have := ih (fun y hy => hb y (by simp [hy]))
    simp only [ofLeBytes, List.length_cons]
    have e : 2 ^ (8 * (xs.length + 1)) = 256 * 2 ^ (8 * xs.length) := by
      rw [Nat.mul_add, Nat.pow_add]; simp [Nat.mul_comm]
    rw [e]; omega

/-- the oracle's byte comparison accepts a well-formed buffer holding the expected pattern -/
theorem judgeBytes_mk (prop : String) (n N : Nat) (h : N < 2 ^ (32 * n)) :
    judgeBytes prop n N (Buf.toBytes ⟨4 * n, N⟩) = [] := by
  unfold judgeBytes
  rw [toBytes_mk_length, ofLeBytes_toBytes_mk n N h]
  simp [chk]

/-! ## `T.holds` -/

/-- what `T.holds len` says, as arithmetic -/
theorem holds_iff (T : Ty) (len : Nat) :
    T.holds len = true ↔ ∃ n, 0 < n ∧ len = 4 * n ∧ (∀ w, T.fixedN = some w → n = w) ∧ (∀ c, T.capN = some c → n ≤ c) := by
  constructor
  · intro h
    refine ⟨len / 4, ?_⟩
    cases T <;> simp [Ty.holds, Ty.fixedN, Ty.capN] at h ⊢ <;> omega
  · rintro ⟨n, hn, rfl, hw, hc⟩
    cases T <;> simp [Ty.holds, Ty.fixedN, Ty.capN] at hw hc ⊢ <;> omega

theorem holds_expIsI32 (T : Ty) (n : Nat) (hc : ∀ c, T.capN = some c → n ≤ c) : T.expIsI32 = true → n ≤ 5 := by
  cases T <;> simp [Ty.expIsI32, Ty.capN] at hc ⊢ <;> omega

/-- a held byte list is a well-formed buffer -/
theorem WF.ofHolds (T : Ty) (bytes : List Nat) (h : T.holds bytes.length = true) (hb : ∀ x ∈ bytes, x < 256) :
    ∃ n, WF (Buf.ofBytes bytes) n ∧ bytes.length = 4 * n ∧ bytes.length / 4 = n ∧
      (∀ w, T.fixedN = some w → n = w) ∧ (∀ c, T.capN = some c → n ≤ c) := by
  obtain ⟨n, hn, hl, hw, hc⟩ := (holds_iff T _).1 h
  exact ⟨n, WF.ofBytes bytes n hn hl hb, hl, by omega, hw, hc⟩

/-! ## `stripZeros`, `Datum.same` -/

theorem stripZeros_length_le (ds : List Nat) : (stripZeros ds).length ≤ ds.length := by
  induction ds with
  | nil => simp [stripZeros]
  | cons d ds ih =>
    cases d with
    | zero => simp only [stripZeros, List.length_cons]; omega
    | succ k => simp [stripZeros]

theorem Datum.same_self (d : Datum) : d.same d = true := by
  cases d <;> simp [Datum.same]

end Decstr.Proofs

#print axioms Decstr.Proofs.ofLeBytes_leBytes
#print axioms Decstr.Proofs.judgeBytes_mk
#print axioms Decstr.Proofs.holds_iff
