import Decstr.Proofs.Decode
import Decstr.Proofs.Format
import Decstr.Proofs.SpecLemmas
/-!
# Proofs.Print — the exact text of a decimal with exponent 0 (the integer layout)

* `natDigits_valOf` : an ASCII digit string without a leading zero (or the string `"0"`) is the decimal text of its
  value — the uniqueness of decimal notation.
* `dropWhile_zero_eq_natDigits` : stripping the leading zeros of any ASCII digit string of value `c > 0` gives `natDigits c`.
* `fmtFinite_integer` : the formatter on decoded digits with exponent 0 writes `natDigits` of the digits' value.
* `toText_exp_zero` : for every well-formed finite buffer whose decoded exponent is 0, `toText` is the sign followed by
  `natDigits` of the decoded coefficient.
Core Lean only.
-/
namespace Decstr.Proofs
open Decstr.Model Decstr.Spec

/-! ## Uniqueness of decimal notation -/

theorem valOf_snoc (l : List Nat) (d : Nat) : valOf (l ++ [d]) = valOf l * 10 + (d - 48) := by
  rw [valOf_append]
  simp [valOf, digitVals, ofDigits]

/-- a non-empty ASCII digit string whose first digit is not `'0'` has a positive value -/
theorem valOf_pos_of_head {S : List Nat} (hS : AsciiDigits S) (hne : S ≠ []) (hh : S.head? ≠ some 48) : 0 < valOf S := by
  cases S with
  | nil => exact absurd rfl hne
  | cons a l =>
    have ha := (asciiDigits_cons.1 hS).1
    have h48 : a ≠ 48 := by intro e; subst e; exact hh rfl
    rw [valOf_cons]
    have h1 : 1 ≤ a - 48 := by omega
    have h2 : 0 < 10 ^ l.length := Nat.pow_pos (by decide)
    have : 1 * 10 ^ l.length ≤ (a - 48) * 10 ^ l.length := Nat.mul_le_mul_right _ h1
    omega

/-- **Uniqueness of decimal notation.** An ASCII digit string that has no leading `'0'` — or is exactly `"0"` — is the
    decimal text of its value. -/
theorem natDigits_valOf (S : List Nat) (hS : AsciiDigits S) (hne : S ≠ []) (hh : S.head? = some 48 → S = [48]) :
    natDigits (valOf S) = S := by
  generalize hk : S.length = k
  induction k generalizing S with
  | zero => exact absurd (List.length_eq_zero_iff.mp hk) hne
  | succ k ih =>
    obtain ⟨hd, hl⟩ : AsciiDigits S.dropLast ∧ (48 ≤ S.getLast hne ∧ S.getLast hne ≤ 57) := by
      have := List.dropLast_concat_getLast hne
      rw [← this, asciiDigits_append] at hS
      exact ⟨hS.1, hS.2 _ (by simp)⟩
    have hsplit := List.dropLast_concat_getLast hne
    generalize S.dropLast = init at hd hsplit
    generalize S.getLast hne = d at hl hsplit
    subst hsplit
    rw [valOf_snoc, natDigits_eq_if]
    by_cases hi : init = []
    · subst hi
      have : valOf [] = 0 := rfl
      rw [this]
      have h10 : 0 * 10 + (d - 48) < 10 := by omega
      rw [if_pos h10]
      congr 1; omega
    · -- `init` is non-empty; it starts with a non-zero digit (else `S` would be `"0"`, of length 1)
      have hhead : init.head? ≠ some 48 := by
        intro h
        have : (init ++ [d]).head? = some 48 := by
          cases init with
          | nil => exact absurd rfl hi
          | cons a l => simpa using h
        have := congrArg List.length (hh this)
        rw [List.length_append] at this
        have : init.length = 0 := by simpa using this
        exact hi (List.length_eq_zero_iff.mp this)
      have hpos := valOf_pos_of_head hd hi hhead
      have h10 : ¬ (valOf init * 10 + (d - 48) < 10) := by omega
      rw [if_neg h10]
      have e1 : (valOf init * 10 + (d - 48)) / 10 = valOf init := by omega
      have e2 : 48 + (valOf init * 10 + (d - 48)) % 10 = d := by omega
      rw [e1, e2, ih init hd hi (fun h => absurd h hhead) (by simpa using hk)]

/-- the stripped string has no leading `'0'` -/
theorem dropWhile_zero_head (l : List Nat) : (l.dropWhile (· == 48)).head? ≠ some 48 := by
  induction l with
  | nil => simp
  | cons a l ih =>
    by_cases h : a = 48
    · subst h; simpa [List.dropWhile_cons] using ih
    · have : (a == 48) = false := by simp [h]
      simp [this, h]

/-- stripping the leading zeros of an ASCII digit string of positive value gives the decimal text of the value -/
theorem dropWhile_zero_eq_natDigits (l : List Nat) (hl : AsciiDigits l) (hpos : 0 < valOf l) :
    l.dropWhile (· == 48) = natDigits (valOf l) := by
  have hne : l.dropWhile (· == 48) ≠ [] := by
    intro h; have := valOf_eq_zero_of_dropWhile_nil l h; omega
  have := natDigits_valOf (l.dropWhile (· == 48)) (hl.dropWhile _) hne (fun h => absurd h (dropWhile_zero_head l))
  rw [valOf_dropWhile_zero] at this
  exact this.symm

/-- what the integer layout writes: the stripped digits, or `"0"` if nothing is left — in both cases the decimal text
    of the value -/
theorem stripped_or_zero (l : List Nat) (hl : AsciiDigits l) :
    (if 0 + (l.dropWhile (· == 48)).length = 0 then [48] else l.dropWhile (· == 48)) = natDigits (valOf l) := by
  by_cases h0 : valOf l = 0
  · have hnil : l.dropWhile (· == 48) = [] := by
      apply Classical.byContradiction
      intro hne
      have hp := valOf_pos_of_head (hl.dropWhile _) hne (dropWhile_zero_head l)
      rw [valOf_dropWhile_zero] at hp
      omega
    rw [hnil, h0]
    rfl
  · have hp : 0 < valOf l := by omega
    have he := dropWhile_zero_eq_natDigits l hl hp
    have hne := natDigits_ne_nil (valOf l)
    rw [he]
    have : ¬ (0 + (natDigits (valOf l)).length = 0) := by
      intro h
      exact hne (List.length_eq_zero_iff.mp (by omega))
    rw [if_neg this]

/-! ## The formatter with exponent 0 -/

/-- the integer layout: with exponent 0 the formatter writes the decimal text of the digits' value, whatever the type
    and the width -/
theorem fmtFinite_integer (T : Ty) (n msd : Nat) (declets : List (List Nat)) (h : DigitsOK n msd declets) (precision : Nat) :
    fmtFinite T precision msd declets 0 = natDigits (valOf (msd :: declets.flatten)) := by
  have hall : AsciiDigits (msd :: declets.flatten) :=
    asciiDigits_cons.mpr ⟨h.msd, asciiDigits_flatten (fun d hd => (h.each d hd).2)⟩
  rw [fmtFinite_eq_core]
  unfold fmtCore
  simp only [if_true]
  rw [writeAllAsInteger_eq (skip_spec n msd declets h) 0]
  exact stripped_or_zero _ hall

open DecodeAux in
/-- for every well-formed finite buffer with decoded exponent 0, the text is the sign followed by the decimal text of
    the decoded coefficient (any bit pattern, canonical or not) -/
theorem toText_exp_zero (T : Ty) (b : Buf) (n : Nat) (h : WF b n) (hfin : isFinite b = true)
    (he : (unbiasedExponent b).1 = 0) :
    toText T b = signText (isSignNegative b) ++ natDigits (valOf (allDigits b (unbiasedExponent b).2)) := by
  have hd : DigitsOK n ((unbiasedExponent b).2 + 48) (decodeDeclets b) := by
    obtain ⟨hl, hea, _⟩ := decodeDeclets_spec b n h
    obtain ⟨_, ha⟩ := allDigits_ascii b n h
    exact ⟨h.pos, ha _ (by simp [allDigits]), hl, hea⟩
  rw [toText_finite T b hfin, he, fmtFinite_integer T n _ _ hd]
  rfl

/-- a buffer that decodes to a finite datum is classified finite -/
theorem isFinite_of_decode_fin (b : Buf) (n : Nat) (h : WF b n) (s : Bool) (c : Nat) (e : Int)
    (hdec : decode ⟨n⟩ b.bits = .fin s c e) : isFinite b = true := by
  rcases Decstr.Props.C08.C08_partition b with ⟨h1, _, _⟩ | ⟨_, h2, _⟩ | ⟨_, _, h3⟩
  · exact h1
  · rw [decode_infinite b n h h2] at hdec; cases hdec
  · rw [decode_nan b n h h3] at hdec; cases hdec

/-- the text of any well-formed buffer that decodes to `(s, c, 0)` is `[-]` followed by the decimal text of `c` -/
theorem toText_of_decode_int (T : Ty) (b : Buf) (n : Nat) (h : WF b n) (s : Bool) (c : Nat)
    (hdec : decode ⟨n⟩ b.bits = .fin s c 0) : toText T b = signText s ++ natDigits c := by
  have hfin := isFinite_of_decode_fin b n h s c 0 hdec
  rw [decode_finite b n h hfin] at hdec
  injection hdec with hs hc he
  rw [toText_exp_zero T b n h hfin he, hs, hc]

/-! ## Non-vacuity -/

/-- `natDigits_valOf` on `"1200"` and on `"0"` -/
example : natDigits (valOf [49, 50, 48, 48]) = [49, 50, 48, 48] :=
  natDigits_valOf _ (by intro d hd; simp at hd; omega) (by simp) (by simp)
example : natDigits (valOf [48]) = [48] :=
  natDigits_valOf _ (by intro d hd; simp at hd; omega) (by simp) (by simp)

/-- the decimal32 digits `0 001 200`, exponent 0, print as `1200` -/
example : fmtFinite .b32 7 48 [[48, 48, 49], [50, 48, 48]] 0 = natDigits 1200 := by
  have := fmtFinite_integer .b32 1 48 [[48, 48, 49], [50, 48, 48]] ⟨by decide, by decide, rfl, by simp [AsciiDigits]⟩ 7
  rw [this]; rfl

end Decstr.Proofs

#print axioms Decstr.Proofs.natDigits_valOf
#print axioms Decstr.Proofs.dropWhile_zero_eq_natDigits
#print axioms Decstr.Proofs.fmtFinite_integer
#print axioms Decstr.Proofs.toText_exp_zero
#print axioms Decstr.Proofs.toText_of_decode_int
