import Decstr.Proofs.ParserSem
/-!
# Proofs.ParserSpec — the semantic parser equals the reference recogniser: `semParse = Spec.parse`
-/
set_option linter.unusedSimpArgs false
namespace Decstr.Proofs
open Decstr.Model Decstr.Spec

def SFin.run (s : SFin) : List Nat → Option SFin
  | [] => some s
  | c :: cs => (s.step c).bind (·.run cs)

theorem SFin.accept_eq_run (s : SFin) (cs : List Nat) : s.accept cs = (s.run cs).bind SFin.finish := by
  induction cs generalizing s with
  | nil => rfl
  | cons c cs ih =>
    simp only [SFin.accept, SFin.run]
    cases s.step c with
    | none => rfl
    | some s' => simpa using ih s'

/-! ### run over a run of digits -/

theorem takeDigits_cons_digit (c : Nat) (cs : List Nat) (h : isDigit c = true) :
    takeDigits (c :: cs) = ((c - 48) :: (takeDigits cs).1, (takeDigits cs).2) := by
  simp [takeDigits, h]

theorem takeDigits_cons_nondigit (c : Nat) (cs : List Nat) (h : isDigit c = false) :
    takeDigits (c :: cs) = ([], c :: cs) := by
  simp [takeDigits, h]

theorem takeDigits_nil : takeDigits [] = ([], []) := rfl

/-- the remainder after `takeDigits` does not start with a digit -/
theorem takeDigits_rest (cs : List Nat) :
    (takeDigits cs).2 = [] ∨ ∃ c r, (takeDigits cs).2 = c :: r ∧ isDigit c = false := by
  induction cs with
  | nil => left; rfl
  | cons c cs ih =>
    cases h : isDigit c
    · right; exact ⟨c, cs, by simp [takeDigits_cons_nondigit _ _ h], h⟩
    · simpa [takeDigits_cons_digit _ _ h] using ih

/-- integer digits phase -/
theorem run_int (s : SFin) (cs : List Nat) (he : s.exp = none) (hd : s.hasDecimal = false) :
    s.run cs = ({ s with int := s.int ++ (takeDigits cs).1,
                         hasDigits := s.hasDigits || !(takeDigits cs).1.isEmpty } : SFin).run (takeDigits cs).2 := by
  induction cs generalizing s with
  | nil => simp [takeDigits_nil]
  | cons c cs ih =>
    cases h : isDigit c
    · simp [takeDigits_cons_nondigit _ _ h]
    · rw [takeDigits_cons_digit _ _ h]
      simp only [SFin.run, SFin.step, he, h, hd]
      simp only [if_true, Option.bind, Bool.false_eq_true, if_false]
      rw [ih _ (by simp [he]) (by simp [hd])]
      simp [List.append_assoc]

theorem run_frac (s : SFin) (cs : List Nat) (he : s.exp = none) (hd : s.hasDecimal = true) :
    s.run cs = ({ s with frac := s.frac ++ (takeDigits cs).1,
                         hasDigits := s.hasDigits || !(takeDigits cs).1.isEmpty } : SFin).run (takeDigits cs).2 := by
  induction cs generalizing s with
  | nil => simp [takeDigits_nil]
  | cons c cs ih =>
    cases h : isDigit c
    · simp [takeDigits_cons_nondigit _ _ h]
    · rw [takeDigits_cons_digit _ _ h]
      simp only [SFin.run, SFin.step, he, h, hd]
      simp only [if_true, Option.bind]
      rw [ih _ (by simp [he]) (by simp [hd])]
      simp [List.append_assoc]

theorem run_exp (s : SFin) (en : Bool) (ed : List Nat) (cs : List Nat) (he : s.exp = some (en, ed)) :
    s.run cs = ({ s with exp := some (en, ed ++ (takeDigits cs).1),
                         hasDigits := s.hasDigits || !(takeDigits cs).1.isEmpty } : SFin).run (takeDigits cs).2 := by
  induction cs generalizing s ed with
  | nil =>
    obtain ⟨neg, int, frac, exp, hs, hdec, hdig⟩ := s
    simp only at he; subst he
    simp [takeDigits_nil]
  | cons c cs ih =>
    obtain ⟨neg, int, frac, exp, hs, hdec, hdig⟩ := s
    simp only at he; subst he
    cases h : isDigit c
    · simp [takeDigits_cons_nondigit _ _ h]
    · rw [takeDigits_cons_digit _ _ h]
      simp only [SFin.run, SFin.step, h]
      simp only [if_true, Option.bind]
      rw [ih _ (ed ++ [c - 48]) rfl]
      simp [List.append_assoc]

/-! ### the whole finite numeral -/

theorem lower_eq_e (c : Nat) : lower c = 101 ↔ (c = 101 ∨ c = 69) := by
  unfold lower; split <;> simp_all <;> omega

theorem takeDigits_fst_nil (cs : List Nat) (h : (takeDigits cs).1 = []) : (takeDigits cs).2 = cs := by
  cases cs with
  | nil => rfl
  | cons c cs =>
    cases hc : isDigit c
    · simp [takeDigits_cons_nondigit _ _ hc]
    · simp [takeDigits_cons_digit _ _ hc] at h

/-- the spec's exponent tail, written with projections -/
def ps_expTail (neg : Bool) (int frac : List Nat) (r3 : List Nat) : Option Numeral :=
  if (takeDigits (takeSign r3).2).1.isEmpty || !(takeDigits (takeSign r3).2).2.isEmpty then none
  else some (.finite neg int frac (some ((takeSign r3).1.getD false, (takeDigits (takeSign r3).2).1)))

/-- a non-digit in the exponent is rejected unless it is a sign in first position -/
theorem step_exp_reject (neg : Bool) (int frac : List Nat) (en : Bool) (eds : List Nat) (sg hdec dg : Bool) (c : Nat)
    (hnd : isDigit c = false) (h : dg = true ∨ sg = true ∨ (c ≠ 43 ∧ c ≠ 45)) :
    ({ neg := neg, int := int, frac := frac, exp := some (en, eds), hasSign := sg, hasDecimal := hdec, hasDigits := dg } : SFin).step c = none := by
  simp only [SFin.step, hnd]
  rcases h with rfl | rfl | ⟨h1, h2⟩ <;> simp_all

theorem digits_then_end (neg : Bool) (int frac : List Nat) (hdec en sg : Bool) (r4 : List Nat)
    (h : sg = true ∨ ∀ c r, r4 = c :: r → c ≠ 43 ∧ c ≠ 45) :
    ((({ neg := neg, int := int, frac := frac, exp := some (en, []), hasSign := sg, hasDecimal := hdec, hasDigits := false } : SFin).run r4).bind SFin.finish)
      = (if (takeDigits r4).1.isEmpty || !(takeDigits r4).2.isEmpty then none
         else some (.finite neg int frac (some (en, (takeDigits r4).1)))) := by
  rw [run_exp _ en [] r4 rfl]
  have hrest := takeDigits_rest r4
  have hnil := takeDigits_fst_nil r4
  generalize (takeDigits r4).1 = ds at *
  generalize (takeDigits r4).2 = rr at *
  rcases hrest with rfl | ⟨c, r, rfl, hnd⟩
  · cases ds <;> simp [SFin.run, SFin.finish]
  · cases ds with
    | nil =>
      have hr4 : c :: r = r4 := hnil rfl
      have hc : sg = true ∨ (c ≠ 43 ∧ c ≠ 45) := by
        rcases h with h | h
        · exact Or.inl h
        · exact Or.inr (h c r hr4.symm)
      simp only [List.nil_append, List.isEmpty_nil, Bool.not_true, Bool.or_false, SFin.run]
      rw [step_exp_reject _ _ _ _ _ _ _ _ _ hnd (Or.inr hc)]
      simp
    | cons d ds =>
      simp only [List.nil_append, List.isEmpty_cons, Bool.not_false, Bool.or_true, SFin.run]
      rw [step_exp_reject _ _ _ _ _ _ _ _ _ hnd (Or.inl rfl)]
      simp

/-- after the exponent marker: optional sign, digits, end of input -/
theorem ps_exp_tail (neg : Bool) (int frac : List Nat) (hdec : Bool) (r3 : List Nat) :
    ((({ neg := neg, int := int, frac := frac, exp := some (false, []), hasSign := false, hasDecimal := hdec, hasDigits := false } : SFin).run r3).bind SFin.finish)
      = ps_expTail neg int frac r3 := by
  unfold ps_expTail
  cases r3 with
  | nil => simp [takeSign, takeDigits_nil, SFin.run, SFin.finish]
  | cons c r =>
    by_cases h43 : c = 43
    · subst h43
      have : takeSign (43 :: r) = (some false, r) := rfl
      rw [this]
      have hs : ({ neg := neg, int := int, frac := frac, exp := some (false, []), hasSign := false, hasDecimal := hdec, hasDigits := false } : SFin).step 43
          = some { neg := neg, int := int, frac := frac, exp := some (false, []), hasSign := true, hasDecimal := hdec, hasDigits := false } := by
        simp [SFin.step, show isDigit 43 = false by decide]
      rw [SFin.run, hs, Option.bind_some]
      simpa using digits_then_end neg int frac hdec false true r (Or.inl rfl)
    · by_cases h45 : c = 45
      · subst h45
        have : takeSign (45 :: r) = (some true, r) := rfl
        rw [this]
        have hs : ({ neg := neg, int := int, frac := frac, exp := some (false, []), hasSign := false, hasDecimal := hdec, hasDigits := false } : SFin).step 45
            = some { neg := neg, int := int, frac := frac, exp := some (true, []), hasSign := true, hasDecimal := hdec, hasDigits := false } := by
          simp [SFin.step, show isDigit 45 = false by decide]
        rw [SFin.run, hs, Option.bind_some]
        simpa using digits_then_end neg int frac hdec true true r (Or.inl rfl)
      · have : takeSign (c :: r) = (none, c :: r) := by
          unfold takeSign; split <;> simp_all
        rw [this]
        simpa using digits_then_end neg int frac hdec false false (c :: r)
          (Or.inr (by intro c' r' h; cases h; exact ⟨h43, h45⟩))

/-- what may follow the mantissa: end of input, or an exponent -/
def afterMant (neg : Bool) (i fr : List Nat) (r2 : List Nat) : Option Numeral :=
  match r2 with
  | [] => some (.finite neg i fr none)
  | c :: r3 => if lower c = 101 then ps_expTail neg i fr r3 else none

/-- the reference recogniser for a finite body, in projection style -/
def finiteBody (neg : Bool) (cs : List Nat) : Option Numeral :=
  if (takeDigits cs).1.isEmpty then none else
  match (takeDigits cs).2 with
  | 46 :: r => if (takeDigits r).1.isEmpty then none else afterMant neg (takeDigits cs).1 (takeDigits r).1 (takeDigits r).2
  | r1 => afterMant neg (takeDigits cs).1 [] r1

theorem mant_tail (neg : Bool) (int frac : List Nat) (sg hdec : Bool) (r2 : List Nat)
    (hhead : r2 = [] ∨ ∃ c r, r2 = c :: r ∧ isDigit c = false ∧ (hdec = true ∨ c ≠ 46)) :
    ((({ neg := neg, int := int, frac := frac, exp := none, hasSign := sg, hasDecimal := hdec, hasDigits := true } : SFin).run r2).bind SFin.finish)
      = afterMant neg int frac r2 := by
  rcases hhead with rfl | ⟨c, r, rfl, hnd, hdot⟩
  · simp [SFin.run, SFin.finish, afterMant]
  · unfold afterMant
    by_cases he : lower c = 101
    · have he' := (lower_eq_e c).1 he
      have hs : ({ neg := neg, int := int, frac := frac, exp := none, hasSign := sg, hasDecimal := hdec, hasDigits := true } : SFin).step c
          = some { neg := neg, int := int, frac := frac, exp := some (false, []), hasSign := false, hasDecimal := hdec, hasDigits := false } := by
        simp only [SFin.step, hnd]
        rcases he' with rfl | rfl <;> simp
      rw [SFin.run, hs, Option.bind_some, ps_exp_tail]
      simp [he]
    · have he' : ¬ (c = 101 ∨ c = 69) := fun h => he ((lower_eq_e c).2 h)
      have hs : ({ neg := neg, int := int, frac := frac, exp := none, hasSign := sg, hasDecimal := hdec, hasDigits := true } : SFin).step c = none := by
        simp only [SFin.step, hnd]
        rcases hdot with rfl | hdot <;> simp_all
      rw [SFin.run, hs]
      simp [he]

/-- The semantic finite path (sign stashed by `DecimalParser`, first digit creates the FiniteParser)
    computes exactly the reference recogniser. -/
theorem finite_accept_eq (neg hasSign : Bool) (c : Nat) (rest : List Nat) (hc : isDigit c = true) :
    ({ neg := neg, int := [c - 48], hasSign := hasSign, hasDigits := true } : SFin).accept rest
      = finiteBody neg (c :: rest) := by
  rw [SFin.accept_eq_run]
  simp only [finiteBody, takeDigits_cons_digit _ _ hc]
  rw [run_int _ rest rfl rfl]
  have hrest := takeDigits_rest rest
  generalize (takeDigits rest).1 = ids at *
  generalize (takeDigits rest).2 = r1 at *
  simp only [List.isEmpty_cons, Bool.false_eq_true, if_false, List.cons_append, List.nil_append, Bool.true_or]
  rcases hrest with rfl | ⟨c1, r2, rfl, hnd⟩
  · simpa [afterMant] using mant_tail neg ((c - 48) :: ids) [] hasSign false [] (Or.inl rfl)
  · by_cases hdot : c1 = 46
    · subst hdot
      -- the decimal point, then fractional digits
      have hs : ({ neg := neg, int := (c - 48) :: ids, frac := [], exp := none, hasSign := hasSign, hasDecimal := false, hasDigits := true } : SFin).step 46
          = some { neg := neg, int := (c - 48) :: ids, frac := [], exp := none, hasSign := hasSign, hasDecimal := true, hasDigits := false } := by
        simp [SFin.step, show isDigit 46 = false by decide]
      rw [SFin.run, hs, Option.bind_some, run_frac _ r2 rfl rfl]
      show _ = (if (takeDigits r2).1.isEmpty then none
                else afterMant neg ((c - 48) :: ids) (takeDigits r2).1 (takeDigits r2).2)
      have hrest2 := takeDigits_rest r2
      generalize (takeDigits r2).1 = fds at *
      generalize (takeDigits r2).2 = r3 at *
      cases fds with
      | nil =>
        -- no fractional digit: rejected, whatever follows
        simp only [List.nil_append, List.isEmpty_nil, Bool.not_true, Bool.or_false, if_true]
        rcases hrest2 with rfl | ⟨c3, r4, rfl, hnd3⟩
        · simp [SFin.run, SFin.finish]
        · have : ({ neg := neg, int := (c - 48) :: ids, frac := [], exp := none, hasSign := hasSign, hasDecimal := true, hasDigits := false } : SFin).step c3 = none := by
            simp [SFin.step, hnd3]
          simp [SFin.run, this]
      | cons fd fds =>
        simp only [List.nil_append, List.isEmpty_cons, Bool.not_false, Bool.or_true, Bool.false_eq_true, if_false]
        refine mant_tail neg ((c - 48) :: ids) (fd :: fds) hasSign true r3 ?_
        rcases hrest2 with rfl | ⟨c3, r4, rfl, hnd3⟩
        · exact Or.inl rfl
        · exact Or.inr ⟨c3, r4, rfl, hnd3, Or.inl rfl⟩
    · have := mant_tail neg ((c - 48) :: ids) [] hasSign false (c1 :: r2) (Or.inr ⟨c1, r2, rfl, hnd, Or.inr hdot⟩)
      rw [this]
      split
      · rename_i r h; cases h; exact absurd rfl hdot
      · rfl


end Decstr.Proofs

namespace Decstr.Proofs
open Decstr.Model Decstr.Spec

theorem parseFiniteBody_eq (neg : Bool) (cs : List Nat) : parseFiniteBody neg cs = finiteBody neg cs := by
  unfold parseFiniteBody finiteBody
  rcases h : takeDigits cs with ⟨i, r1⟩
  simp only []
  by_cases hi : i.isEmpty = true
  · simp [hi]
  · rw [if_neg hi, if_neg hi]
    rcases r1 with _ | ⟨c, r⟩
    · simp [afterMant]
    · by_cases hc : c = 46
      · subst hc
        by_cases hf : (takeDigits r).fst = []
        · simp [hf]
        · simp [hf, afterMant, ps_expTail]
          generalize (takeDigits r).snd = r2
          cases r2 <;> rfl
      · simp [hc, afterMant, ps_expTail]

/-! ## infinities and NaNs -/

theorem ps_kw_inf (cs : List Nat) : kw "inf" cs = if (cs.take 3).map lower = [105,110,102] then some (cs.drop 3) else none := rfl
theorem kw_inity (cs : List Nat) : kw "inity" cs = if (cs.take 5).map lower = [105,110,105,116,121] then some (cs.drop 5) else none := rfl
theorem ps_kw_s (cs : List Nat) : kw "s" cs = if (cs.take 1).map lower = [115] then some (cs.drop 1) else none := rfl
theorem ps_kw_nan (cs : List Nat) : kw "nan" cs = if (cs.take 3).map lower = [110,97,110] then some (cs.drop 3) else none := rfl

/-- a keyword test that consumes the whole text -/
theorem take_drop_all (l w : List Nat) (n : Nat) (hn : w.length = n) :
    ((l.take n).map lower = w ∧ l.drop n = []) ↔ l.map lower = w := by
  constructor
  · rintro ⟨h1, h2⟩
    have : l.take n = l := by
      have := List.take_append_drop n l
      rw [h2, List.append_nil] at this; exact this
    rw [← this]; exact h1
  · intro h
    have hl : l.length = n := by rw [← hn, ← h, List.length_map]
    refine ⟨?_, ?_⟩
    · rw [List.take_of_length_le (by omega)]; exact h
    · exact List.drop_eq_nil_of_le (by omega)

/-- the `InfinityParser` automaton, closed form -/
theorem SInf.accept_eq (w : List Nat) (neg : Bool) (cs : List Nat) (hw : ∀ e ∈ w, lower e = e) :
    SInf.accept ⟨w, neg⟩ cs =
      if cs.map lower = w ∨ cs.map lower ++ [105, 110, 105, 116, 121] = w then some (.inf neg) else none := by
  induction cs generalizing w with
  | nil =>
    simp only [SInf.accept, SInf.finish, kwInfinity, List.drop, List.map_nil, List.nil_append, Bool.or_eq_true,
      decide_eq_true_eq]
    simp only [eq_comm]
  | cons c cs ih =>
    rcases w with _ | ⟨e, es⟩
    · simp [SInf.accept, SInf.step]
    · have he : lower e = e := hw e (by simp)
      simp only [SInf.accept, SInf.step, eqIgnoreCase, he]
      by_cases h : e = lower c
      · subst h
        simp only [beq_self_eq_true, if_true, Option.bind_some]
        rw [ih es (fun x hx => hw x (by simp [hx]))]
        simp
      · have h' : ¬ lower c = e := fun h2 => h h2.symm
        simp [h, h']

theorem map_lower_split (l : List Nat) (n : Nat) (a b : List Nat) (ha : a.length = n) :
    l.map lower = a ++ b ↔ ((l.take n).map lower = a ∧ (l.drop n).map lower = b) := by
  constructor
  · intro h
    have h1 : (l.map lower).take n = a := by rw [h, List.take_left' ha]
    have h2 : (l.map lower).drop n = b := by rw [h, List.drop_left' ha]
    rw [List.map_take, List.map_drop]; exact ⟨h1, h2⟩
  · rintro ⟨h1, h2⟩
    rw [← List.take_append_drop n l, List.map_append, h1, h2]

theorem special_i (neg : Bool) (c : Nat) (rest : List Nat) (hc : lower c = 105) :
    parseSpecialBody neg (c :: rest) =
      if rest.map lower = [110, 102] ∨ rest.map lower = [110, 102, 105, 110, 105, 116, 121] then some (.inf neg)
      else none := by
  unfold parseSpecialBody
  rw [ps_kw_inf]
  have e1 : (List.map lower (List.take 3 (c :: rest)) = [105, 110, 102]) ↔ (rest.take 2).map lower = [110, 102] := by
    simp [hc]
  have e2 : List.drop 3 (c :: rest) = rest.drop 2 := rfl
  have e3 := map_lower_split rest 2 [110, 102] [] rfl
  have e4 := map_lower_split rest 2 [110, 102] [105, 110, 105, 116, 121] rfl
  simp only [List.cons_append, List.nil_append, List.append_nil] at e3 e4
  rw [e2]
  simp only [e3, e4]
  by_cases h3 : (rest.take 2).map lower = [110, 102]
  · rw [if_pos (e1.2 h3)]
    simp only [h3, true_and]
    rcases hd : rest.drop 2 with _ | ⟨x, xs⟩
    · simp
    · simp only [kw_inity]
      have this := take_drop_all (x :: xs) [105, 110, 105, 116, 121] 5 rfl
      have hne : ¬ List.map lower (x :: xs) = [] := by simp
      by_cases h6 : List.map lower (x :: xs) = [105, 110, 105, 116, 121]
      · obtain ⟨h5, hd5⟩ := this.2 h6
        rw [if_pos (Or.inr h6), if_pos h5, hd5]
      · have hor : ¬ (List.map lower (x :: xs) = [] ∨ List.map lower (x :: xs) = [105, 110, 105, 116, 121]) := by
          rintro (h | h)
          · exact hne h
          · exact h6 h
        rw [if_neg hor]
        by_cases h5 : List.map lower (List.take 5 (x :: xs)) = [105, 110, 105, 116, 121]
        · rw [if_pos h5]
          rcases hd5 : List.drop 5 (x :: xs) with _ | ⟨y, ys⟩
          · exact absurd (this.1 ⟨h5, hd5⟩) h6
          · rfl
        · rw [if_neg h5]
  · rw [if_neg (fun h => h3 (e1.1 h))]
    rw [if_neg (by simp only [h3, false_and, or_self, not_false_eq_true])]
    simp [ps_kw_s, ps_kw_nan, hc]

theorem special_i_sem (neg : Bool) (c : Nat) (rest : List Nat) (hc : lower c = 105) :
    parseSpecialBody neg (c :: rest) = SInf.accept ⟨kwInfinity.drop 1, neg⟩ rest := by
  rw [special_i neg c rest hc, SInf.accept_eq _ _ _ (by decide)]
  have : ∀ m : List Nat, m ++ [105, 110, 105, 116, 121] = List.drop 1 kwInfinity ↔ m = [110, 102] := by
    intro m
    have : List.drop 1 kwInfinity = [110, 102] ++ [105, 110, 105, 116, 121] := rfl
    rw [this, List.append_left_inj]
  simp only [this]
  have e : List.drop 1 kwInfinity = [110, 102, 105, 110, 105, 116, 121] := rfl
  rw [e]
  simp only [or_comm]

/-- the spec's NaN tail after the optional `s` -/
def nanTail (neg sig : Bool) (r : List Nat) : Option Numeral :=
  match kw "nan" r with
  | some [] => some (.nan neg sig none)
  | some (40 :: r2) => if (takeDigits r2).2 = [41] then some (.nan neg sig (some (takeDigits r2).1)) else none
  | _ => none

theorem special_s (neg : Bool) (c : Nat) (rest : List Nat) (hc : lower c = 115) :
    parseSpecialBody neg (c :: rest) = nanTail neg true rest := by
  unfold parseSpecialBody nanTail
  simp [ps_kw_inf, ps_kw_s, hc]
  rfl

theorem special_n (neg : Bool) (c : Nat) (rest : List Nat) (hc : lower c = 110) :
    parseSpecialBody neg (c :: rest) = nanTail neg false (c :: rest) := by
  unfold parseSpecialBody nanTail
  simp [ps_kw_inf, ps_kw_s, hc]
  rfl

theorem special_other (neg : Bool) (c : Nat) (rest : List Nat) (h1 : lower c ≠ 105) (h2 : lower c ≠ 115)
    (h3 : lower c ≠ 110) : parseSpecialBody neg (c :: rest) = none := by
  unfold parseSpecialBody
  simp [ps_kw_inf, ps_kw_s, ps_kw_nan, h1, h2, h3]

theorem lower_eq_40 (c : Nat) : lower c = 40 ↔ c = 40 := by
  unfold lower; split <;> simp_all <;> omega
theorem lower_eq_41 (c : Nat) : lower c = 41 ↔ c = 41 := by
  unfold lower; split <;> simp_all <;> omega

theorem SNan.step_nil (sig neg : Bool) (pl : Option (List Nat)) (c : Nat) : SNan.step ⟨[], sig, neg, pl⟩ c = none := by
  simp [SNan.step, SNan.isExpecting]

theorem SNan.step_close_nondigit (sig neg : Bool) (pl : Option (List Nat)) (c : Nat) (hc : isDigit c = false) :
    SNan.step ⟨[41], sig, neg, pl⟩ c = if c = 41 then some ⟨[], sig, neg, pl⟩ else none := by
  have h1 : lower 41 = 41 := by decide
  have h2 : lower 40 = 40 := by decide
  by_cases h : c = 41
  · subst h; simp [SNan.step, SNan.isExpecting, eqIgnoreCase, hc]
  · have : ¬ 41 = lower c := fun h' => h ((lower_eq_41 c).1 h'.symm)
    simp [SNan.step, SNan.isExpecting, eqIgnoreCase, hc, h, h1, h2, this]

theorem SNan.step_close_digit (sig neg : Bool) (ds : List Nat) (c : Nat) (hc : isDigit c = true) :
    SNan.step ⟨[41], sig, neg, some ds⟩ c = some ⟨[41], sig, neg, some (ds ++ [c - 48])⟩ := by
  simp [SNan.step, SNan.isExpecting, eqIgnoreCase, hc]

theorem SNan.step_open (sig neg : Bool) (c : Nat) :
    SNan.step ⟨[40, 41], sig, neg, none⟩ c = if c = 40 then some ⟨[41], sig, neg, some []⟩ else none := by
  have h2 : lower 40 = 40 := by decide
  by_cases h : c = 40
  · subst h; simp [SNan.step, SNan.isExpecting, eqIgnoreCase]
  · have : ¬ 40 = lower c := fun h' => h ((lower_eq_40 c).1 h'.symm)
    simp [SNan.step, SNan.isExpecting, eqIgnoreCase, h, h2, this]

theorem SNan.step_letter (e : Nat) (es : List Nat) (sig neg : Bool) (c : Nat) (he : lower e = e) (h40 : e ≠ 40) :
    SNan.step ⟨e :: es, sig, neg, none⟩ c = if lower c = e then some ⟨es, sig, neg, none⟩ else none := by
  have h2 : lower 40 = 40 := by decide
  by_cases h : lower c = e
  · have : c ≠ 40 := by rintro rfl; exact h40 (by rw [← h, h2])
    simp [SNan.step, SNan.isExpecting, eqIgnoreCase, he, h, this]
  · have : ¬ e = lower c := fun h' => h h'.symm
    simp [SNan.step, SNan.isExpecting, eqIgnoreCase, he, h, h2, h40, this]

/-- payload digits, the closing parenthesis, end of input -/
theorem nan_digits (neg sig : Bool) (ds r2 : List Nat) :
    SNan.accept ⟨[41], sig, neg, some ds⟩ r2 =
      if (takeDigits r2).2 = [41] then some (.nan neg sig (some (ds ++ (takeDigits r2).1))) else none := by
  induction r2 generalizing ds with
  | nil => simp [SNan.accept, SNan.finish, takeDigits_nil]
  | cons c cs ih =>
    cases hc : isDigit c
    · rw [takeDigits_cons_nondigit _ _ hc, SNan.accept, SNan.step_close_nondigit _ _ _ _ hc]
      by_cases h41 : c = 41
      · subst h41
        rcases cs with _ | ⟨c', cs'⟩
        · simp [SNan.accept, SNan.finish]
        · simp [SNan.accept, SNan.step_nil]
      · simp [h41]
    · rw [takeDigits_cons_digit _ _ hc, SNan.accept, SNan.step_close_digit _ _ _ _ hc, Option.bind_some, ih]
      simp [List.append_assoc]

/-- after `nan`: end of input, or a parenthesised payload -/
theorem nan_open (neg sig : Bool) (r : List Nat) :
    SNan.accept ⟨[40, 41], sig, neg, none⟩ r =
      match r with
      | [] => some (.nan neg sig none)
      | 40 :: r2 => if (takeDigits r2).2 = [41] then some (.nan neg sig (some (takeDigits r2).1)) else none
      | _ => none := by
  rcases r with _ | ⟨c, r2⟩
  · simp [SNan.accept, SNan.finish]
  · rw [SNan.accept, SNan.step_open]
    by_cases h : c = 40
    · subst h; simp [nan_digits]
    · simp [h]

theorem nan_sem (neg sig : Bool) (r : List Nat) :
    SNan.accept ⟨kwSnan.drop 1, sig, neg, none⟩ r = nanTail neg sig r := by
  have hk : kwSnan.drop 1 = [110, 97, 110, 40, 41] := rfl
  rw [hk]
  unfold nanTail
  rw [ps_kw_nan]
  have l1 : lower 110 = 110 := by decide
  have l2 : lower 97 = 97 := by decide
  rcases r with _ | ⟨c1, _ | ⟨c2, _ | ⟨c3, r'⟩⟩⟩
  · simp [SNan.accept, SNan.finish]
  · simp only [SNan.accept, SNan.step_letter _ _ _ _ _ l1 (by decide)]
    by_cases h1 : lower c1 = 110 <;> simp [h1, SNan.finish]
  · simp only [SNan.accept, SNan.step_letter _ _ _ _ _ l1 (by decide)]
    by_cases h1 : lower c1 = 110
    · simp only [h1, if_true, Option.bind_some, SNan.step_letter _ _ _ _ _ l2 (by decide)]
      by_cases h2 : lower c2 = 97 <;> simp [h1, h2, SNan.finish]
    · simp [h1]
  · simp only [SNan.accept, SNan.step_letter _ _ _ _ _ l1 (by decide)]
    by_cases h1 : lower c1 = 110
    · simp only [h1, if_true, Option.bind_some, SNan.step_letter _ _ _ _ _ l2 (by decide)]
      by_cases h2 : lower c2 = 97
      · simp only [h2, if_true, Option.bind_some, SNan.step_letter _ _ _ _ _ l1 (by decide)]
        by_cases h3 : lower c3 = 110
        · simp only [h3, if_true, Option.bind_some]
          rw [nan_open neg sig r']
          simp [h1, h2, h3]
          rcases r' with _ | ⟨c4, r2⟩
          · rfl
          · by_cases h4 : c4 = 40
            · subst h4; rfl
            · simp [h4]
        · simp [h1, h2, h3]
      · simp [h1, h2]
    · simp [h1]

theorem lower_eq_i (c : Nat) : lower c = 105 ↔ (c = 105 ∨ c = 73) := by
  unfold lower; split <;> simp_all <;> omega
theorem lower_eq_s (c : Nat) : lower c = 115 ↔ (c = 115 ∨ c = 83) := by
  unfold lower; split <;> simp_all <;> omega
theorem lower_eq_n (c : Nat) : lower c = 110 ↔ (c = 110 ∨ c = 78) := by
  unfold lower; split <;> simp_all <;> omega

/-- the first byte after the optional sign selects the sub-parser, as the grammar does -/
theorem start_accept (neg : Option Bool) (c : Nat) (rest : List Nat)
    (hs : neg.isSome = true ∨ (c ≠ 43 ∧ c ≠ 45)) :
    (Sem.start neg).accept (c :: rest) =
      if isDigit c then parseFiniteBody (neg.getD false) (c :: rest) else parseSpecialBody (neg.getD false) (c :: rest) := by
  cases hd : isDigit c
  · have h45 : (c = 45 && neg.isNone) = false := by
      rcases hs with h | h
      · cases neg <;> simp_all
      · simp [h.2]
    have h43 : (c = 43 && neg.isNone) = false := by
      rcases hs with h | h
      · cases neg <;> simp_all
      · simp [h.1]
    simp only [Sem.accept, Sem.step, hd, h45, h43, Bool.false_eq_true, if_false]
    by_cases hS : c = 115 ∨ c = 83
    · have : (c = 115 || c = 83) = true := by simpa using hS
      rw [if_pos this, Option.bind_some, Sem.accept_nan, nan_sem, special_s _ _ _ ((lower_eq_s c).2 hS)]
    · have : ¬ (c = 115 || c = 83) = true := by simpa using hS
      rw [if_neg this]
      by_cases hN : c = 110 ∨ c = 78
      · have : (c = 110 || c = 78) = true := by simpa using hN
        have hl := (lower_eq_n c).2 hN
        rw [if_pos this, Option.bind_some, Sem.accept_nan, special_n _ _ _ hl, ← nan_sem]
        have hk : kwSnan.drop 1 = [110, 97, 110, 40, 41] := rfl
        rw [hk, SNan.accept, SNan.step_letter _ _ _ _ _ (by decide) (by decide), if_pos hl]
        rfl
      · have : ¬ (c = 110 || c = 78) = true := by simpa using hN
        rw [if_neg this]
        by_cases hI : c = 105 ∨ c = 73
        · have : (c = 105 || c = 73) = true := by simpa using hI
          rw [if_pos this, Option.bind_some, Sem.accept_inf, special_i_sem _ _ _ ((lower_eq_i c).2 hI)]
        · have : ¬ (c = 105 || c = 73) = true := by simpa using hI
          rw [if_neg this, special_other _ _ _ (fun h => hI ((lower_eq_i c).1 h)) (fun h => hS ((lower_eq_s c).1 h))
            (fun h => hN ((lower_eq_n c).1 h))]
          rfl
  · simp only [Sem.accept, Sem.step, hd, if_true, Option.bind_some]
    rw [Sem.accept_fin, finite_accept_eq _ _ _ _ hd, parseFiniteBody_eq]

/-- **The semantic parser is the reference recogniser.** -/
theorem semParse_eq_parse (txt : List Nat) : semParse txt = Spec.parse txt := by
  unfold semParse Spec.parse
  rcases txt with _ | ⟨c, r⟩
  · rfl
  · by_cases h43 : c = 43
    · subst h43
      have : takeSign (43 :: r) = (some false, r) := rfl
      rw [this]
      have hs : (Sem.start none).step 43 = some (Sem.start (some false)) := by simp [Sem.step, isDigit]
      rw [Sem.accept, hs, Option.bind_some]
      rcases r with _ | ⟨c2, r2⟩
      · rfl
      · rw [start_accept _ _ _ (Or.inl rfl)]
    · by_cases h45 : c = 45
      · subst h45
        have : takeSign (45 :: r) = (some true, r) := rfl
        rw [this]
        have hs : (Sem.start none).step 45 = some (Sem.start (some true)) := by simp [Sem.step, isDigit]
        rw [Sem.accept, hs, Option.bind_some]
        rcases r with _ | ⟨c2, r2⟩
        · rfl
        · rw [start_accept _ _ _ (Or.inl rfl)]
      · have : takeSign (c :: r) = (none, c :: r) := by
          unfold takeSign; split <;> simp_all
        rw [this, start_accept _ _ _ (Or.inr ⟨h43, h45⟩)]

end Decstr.Proofs

#print axioms Decstr.Proofs.semParse_eq_parse
