import Decstr.Proofs.Basic
/-!
# Proofs.Numeral — the numeral denoted by a parse result (shared by the parser and the streaming proofs)
-/
namespace Decstr.Proofs
open Decstr.Model Decstr.Spec

/-- the numeral a successful parse denotes: the recorded ranges sliced out of the stored text, digits as values -/
def numeralOfFinite (f : FiniteParser.ParsedFinite) : Numeral :=
  let text := f.buf.ascii
  let dv (r : Range) := digitVals (slice text r)
  let ex := f.exp.map fun e => (e.neg, dv e.range)
  match f.sig.point with
  | some pt => .finite f.sig.neg (dv ⟨f.sig.range.start, pt.start⟩) (dv ⟨pt.stop, f.sig.range.stop⟩) ex
  | none => .finite f.sig.neg (dv f.sig.range) [] ex

def numeralOf : Parsed → Numeral
  | .finite f => numeralOfFinite f
  | .infinity neg => .inf neg
  | .nan n => .nan n.neg n.signaling (n.payload.map fun s => digitVals (slice n.buf.ascii s.range))

end Decstr.Proofs
