import Decstr.Proofs.DecodeDpd
/-!
# Proofs.DecodeComb — `decode_combination_finite`: closed forms of the two byte iterators
-/
namespace Decstr.Proofs.DecodeAux
open Decstr.Model Decstr.Spec

/-- peel the lowest byte off a `8(j+1)`-bit window -/
theorem chunk_succ (M j : Nat) : M % 2 ^ (8 * (j + 1)) = M % 256 + 256 * (M / 256 % 2 ^ (8 * j)) := by
  have : (2:Nat) ^ (8 * (j + 1)) = 256 * 2 ^ (8 * j) := by
    rw [Nat.mul_add, Nat.pow_add]; simp [Nat.mul_comm]
  rw [this, Nat.mod_mul]

theorem pow8_succ (j : Nat) : (2:Nat) ^ (8 * (j + 1)) = 256 * 2 ^ (8 * j) := by
  rw [Nat.mul_add, Nat.pow_add]; simp [Nat.mul_comm]

theorem div_pow8_succ (N di : Nat) : N / 2 ^ (8 * (di + 1)) = N / 2 ^ (8 * di) / 256 := by
  rw [Nat.mul_add, Nat.pow_add, ← Nat.div_div_eq_div_mul]

/-- aligned iterator: `j` whole bytes, then the two low bits of the last byte joined with `mse` -/
theorem readExpAligned_closed (b : Buf) (mse : Nat) (j : Nat) :
    ∀ di, di + j = b.len - 1 →
      readExpAligned b mse (j + 1) di =
        b.bits / 2 ^ (8 * di) % 2 ^ (8 * j) + 2 ^ (8 * j) * (((b.get (b.len - 1) &&& 3) ||| mse) % 256) := by
  induction j with
  | zero =>
    intro di h
    have h' : di = b.len - 1 := by omega
    subst h'
    simp [readExpAligned, Nat.mod_one]
  | succ j ih =>
    intro di h
    rw [readExpAligned]
    have hlt : di < b.len - 1 := by omega
    simp only [hlt, if_true]
    rw [ih (di + 1) (by omega), chunk_succ, get_eq, div_pow8_succ, pow8_succ]
    generalize b.bits / 2 ^ (8 * di) = M
    generalize ((b.get (b.len - 1) &&& 3 ||| mse) % 256) = Z
    rw [Nat.mul_add, Nat.add_assoc, Nat.mul_assoc]

/-- the byte an unaligned iterator yields while two whole bytes are available -/
theorem window_byte (N di s : Nat) (hs : s < 8) :
    (((N / 2 ^ (8 * di) % 256) >>> s) ||| ((N / 2 ^ (8 * di) / 256 % 256) <<< (8 - s))) % 256
      = N / 2 ^ (8 * di) / 2 ^ s % 256 := by
  rw [window _ _ hs]
  have : 16 - s = 8 + (8 - s) := by omega
  rw [this, Nat.pow_add]
  exact Nat.mod_mul_right_mod _ _ _

/-- the last-but-one byte of the unaligned iterator (as a function of the exponent index reached) -/
def lastByte (b : Buf) (mse s maxEi ei : Nat) : Nat :=
  ((b.get (b.len - 2) >>> s) |||
    (if ei = maxEi then ((b.get (b.len - 1) &&& 3) <<< (8 - s)) % 256 ||| mse else ((b.get (b.len - 1) &&& 3) <<< (8 - s)) % 256)) % 256

def finByte (mse maxEi ei : Nat) : Nat := if ei = maxEi then mse % 256 else 0

/-- unaligned iterator: `j` whole bytes read at offset `s`, then `lastByte`, then `finByte` -/
theorem readExpShifted_closed (b : Buf) (mse s maxEi : Nat) (hs : s < 8) (j : Nat) :
    ∀ di ei x, di + 1 + j = b.len - 1 →
      readExpShifted b mse s maxEi (j + 2 + x) di ei =
        b.bits / 2 ^ (8 * di) / 2 ^ s % 2 ^ (8 * j) +
          2 ^ (8 * j) * (lastByte b mse s maxEi (ei + j) + 256 * finByte mse maxEi (ei + j + 1)) := by
  induction j with
  | zero =>
    intro di ei x h
    have hL : b.len - 1 = di + 1 := by omega
    have hL2 : b.len - 2 = di := by omega
    have h3 : ¬ (di + 1 + 1 < di + 1) := by omega
    have h4 : ¬ (di + 1 + 1 = di + 1) := by omega
    rw [show 0 + 2 + x = (x + 1) + 1 by omega, readExpShifted]
    simp only [hL, Nat.lt_irrefl, if_false, if_true]
    rw [readExpShifted]
    simp only [hL, h3, h4, if_false]
    simp only [lastByte, finByte, hL, hL2, Nat.mul_zero, Nat.pow_zero, Nat.mod_one, Nat.zero_add, Nat.one_mul, Nat.add_zero]
  | succ j ih =>
    intro di ei x h
    have h1 : di + 1 < b.len - 1 := by omega
    rw [show j + 1 + 2 + x = (j + 2 + x) + 1 by omega, readExpShifted]
    simp only [h1, if_true]
    rw [ih (di + 1) (ei + 1) x (by omega), get_succ, get_eq, window_byte _ _ _ hs, chunk_succ, div_pow8_succ,
      pow8_succ]
    have e1 : ei + 1 + j = ei + (j + 1) := by omega
    rw [e1]
    generalize lastByte b mse s maxEi (ei + (j + 1)) + 256 * finByte mse maxEi (ei + (j + 1) + 1) = Z
    generalize b.bits / 2 ^ (8 * di) = M
    have e2 : M / 256 / 2 ^ s = M / 2 ^ s / 256 := by
      rw [Nat.div_div_eq_div_mul, Nat.div_div_eq_div_mul, Nat.mul_comm]
    rw [e2, Nat.mul_add, Nat.add_assoc, Nat.mul_assoc]

/-- the first step of `decode_combination_finite`: the two leading exponent bits and the leading digit, from the last byte -/
def mseMsd (c : Nat) : Nat × Nat :=
  if c &&& 0x60 = 0x60 then
    ((((c &&& 0x10) >>> 3) ||| ((c &&& 0x08) >>> 3)), 8 ||| ((c &&& 0x04) >>> 2))
  else
    ((((c &&& 0x40) >>> 5) ||| ((c &&& 0x20) >>> 5)), ((c &&& 0x10) >>> 2) ||| ((c &&& 0x08) >>> 2) ||| ((c &&& 0x04) >>> 2))

theorem mseMsd_table : ∀ c < 256,
    mseMsd c = (if c / 4 % 32 / 8 < 3 then (c / 4 % 32 / 8, c / 4 % 32 % 8) else (c / 4 % 32 / 2 % 4, 8 + c / 4 % 32 % 2)) ∧
    (mseMsd c).1 < 4 := by
  decide +kernel

theorem dcf_unfold (b : Buf) :
    decodeCombinationFinite b =
      (if b.trailingBits % 8 = 0 then
          readExpAligned b (((mseMsd b.last).1 <<< ((msExponentOffset b.exponentBits).1 - 2)) % 256)
            (b.len - 1 - b.trailingBits / 8 + 1) (b.trailingBits / 8)
        else
          readExpShifted b (((mseMsd b.last).1 <<< ((msExponentOffset b.exponentBits).1 - 2)) % 256)
            (b.trailingBits % 8) (msExponentOffset b.exponentBits).2
            (b.len - 1 - b.trailingBits / 8 + 2) (b.trailingBits / 8) 0,
       (mseMsd b.last).2) := by
  rfl


theorem and3 (c : Nat) : c &&& 3 = c % 4 := Nat.and_two_pow_sub_one_eq_mod c 2

/-- final bytes, offset 4 (`n % 4 = 1`): four bits of the last-but-one byte, two of the last, the two exponent bits at 6 -/
theorem tail4 : ∀ x < 256, ∀ c3 < 4, ∀ e < 4,
    ((x >>> 4) ||| ((c3 <<< (8 - 4)) % 256 ||| (e <<< (8 - 2)) % 256)) % 256 = x / 16 + 16 * c3 + 64 * e := by
  decide +kernel

/-- offset 2 (`n % 4 = 2`): six bits and two bits fill the byte, the exponent bits are the next byte -/
theorem tail2 : ∀ x < 256, ∀ c3 < 4, ∀ e < 4,
    ((x >>> 2) ||| (c3 <<< (8 - 2)) % 256) % 256 + 256 * ((e <<< (2 - 2)) % 256 % 256) = x / 4 + 64 * c3 + 256 * e := by
  decide +kernel

/-- offset 6 (`n % 4 = 0`) -/
theorem tail6 : ∀ x < 256, ∀ c3 < 4, ∀ e < 4,
    ((x >>> 6) ||| ((c3 <<< (8 - 6)) % 256 ||| (e <<< (6 - 2)) % 256)) % 256 = x / 64 + 4 * c3 + 16 * e := by
  decide +kernel

/-- aligned (`n % 4 = 3`) -/
theorem tail0 : ∀ c3 < 4, ∀ e < 4, (c3 ||| (e <<< (4 - 2)) % 256) % 256 = c3 + 4 * e := by
  decide +kernel

/-- putting the pieces of the continuation back together -/
theorem assemble (P A K Z e : Nat) (hZ : Z = P / A % K + K * e) :
    P % A + A * Z = e * (A * K) + P % (A * K) := by
  rw [hZ, Nat.mod_mul, Nat.mul_add]
  have : A * (K * e) = e * (A * K) := by ac_rfl
  omega

theorem div_right_comm (a x y : Nat) : a / x / y = a / y / x := by
  rw [Nat.div_div_eq_div_mul, Nat.mul_comm, ← Nat.div_div_eq_div_mul]

theorem get_lt (b : Buf) (i : Nat) : b.get i < 256 := Nat.mod_lt _ (by decide)

theorem msExp_r1 (m : Nat) : msExponentOffset (8 * m + 8) = (8, m) := by
  unfold msExponentOffset
  have h1 : (8 * m + 8) % 8 = 0 := by omega
  have h2 : (8 * m + 8) / 8 - 1 = m := by omega
  simp only [h1, h2, if_true]

theorem dcf_r1 (b : Buf) (m : Nat) (hl : b.len = 16 * m + 4) :
    decodeCombinationFinite b =
      ((mseMsd b.last).1 * 2 ^ (8 * m + 6) + b.bits / 2 ^ (120 * m + 20) % 2 ^ (8 * m + 6), (mseMsd b.last).2) := by
  have htb : b.trailingBits = 120 * m + 20 := by simp only [Buf.trailingBits, Buf.widthBits, hl]; omega
  have heb : b.exponentBits = 8 * m + 8 := by
    simp only [Buf.exponentBits, Buf.combinationBits, Buf.widthBits, hl]; omega
  have he := (mseMsd_table b.last (Nat.mod_lt _ (by decide))).2
  rw [dcf_unfold, htb, heb, hl, msExp_r1]
  generalize (mseMsd b.last).1 = e at he ⊢
  have h1 : (120 * m + 20) % 8 = 4 := by omega
  have h2 : (120 * m + 20) / 8 = 15 * m + 2 := by omega
  have h3 : 16 * m + 4 - 1 - (15 * m + 2) + 2 = m + 2 + 1 := by omega
  simp only [h1, h2, h3, (by decide : ¬ (4 = 0)), if_false]
  rw [readExpShifted_closed b _ 4 m (by decide) m (15 * m + 2) 0 1 (by omega)]
  congr 1
  have e1 : (2:Nat) ^ (8 * m + 6) = 2 ^ (8 * m) * 64 := by rw [Nat.pow_add]
  have e2 : b.bits / 2 ^ (120 * m + 20) = b.bits / 2 ^ (8 * (15 * m + 2)) / 2 ^ 4 := by
    rw [← div_pow_add]; congr 2; omega
  rw [e1, e2]
  apply assemble
  simp only [lastByte, finByte, Nat.zero_add, if_true, and3]
  have hx : b.get (b.len - 2) = b.bits / 2 ^ (8 * (15 * m + 2)) / 2 ^ (8 * m) % 256 := by
    rw [get_eq, ← div_pow_add]; congr 3; omega
  have hc : b.get (b.len - 1) = b.bits / 2 ^ (8 * (15 * m + 2)) / 2 ^ (8 * m) / 256 % 256 := by
    rw [get_eq, ← div_pow_add, show (256:Nat) = 2 ^ 8 from rfl, ← div_pow_add]; congr 3; omega
  have hP : b.bits / 2 ^ (8 * (15 * m + 2)) / 2 ^ 4 / 2 ^ (8 * m) = b.bits / 2 ^ (8 * (15 * m + 2)) / 2 ^ (8 * m) / 2 ^ 4 := by
    exact div_right_comm _ _ _
  rw [if_neg (by omega : ¬ (m + 1 = m))]
  rw [tail4 _ (get_lt b _) _ (Nat.mod_lt _ (by decide)) e he, hx, hc, hP]
  generalize b.bits / 2 ^ (8 * (15 * m + 2)) / 2 ^ (8 * m) = R
  omega

theorem msExp_r2 (m : Nat) : msExponentOffset (8 * m + 10) = (2, m + 1) := by
  unfold msExponentOffset
  have h1 : (8 * m + 10) % 8 = 2 := by omega
  have h2 : (8 * m + 10) / 8 = m + 1 := by omega
  simp only [h1, h2, (by decide : ¬ (2 = 0)), if_false]

theorem dcf_r2 (b : Buf) (m : Nat) (hl : b.len = 16 * m + 8) :
    decodeCombinationFinite b =
      ((mseMsd b.last).1 * 2 ^ (8 * m + 8) + b.bits / 2 ^ (120 * m + 50) % 2 ^ (8 * m + 8), (mseMsd b.last).2) := by
  have htb : b.trailingBits = 120 * m + 50 := by simp only [Buf.trailingBits, Buf.widthBits, hl]; omega
  have heb : b.exponentBits = 8 * m + 10 := by
    simp only [Buf.exponentBits, Buf.combinationBits, Buf.widthBits, hl]; omega
  have he := (mseMsd_table b.last (Nat.mod_lt _ (by decide))).2
  rw [dcf_unfold, htb, heb, hl, msExp_r2]
  generalize (mseMsd b.last).1 = e at he ⊢
  have h1 : (120 * m + 50) % 8 = 2 := by omega
  have h2 : (120 * m + 50) / 8 = 15 * m + 6 := by omega
  have h3 : 16 * m + 8 - 1 - (15 * m + 6) + 2 = m + 2 + 1 := by omega
  simp only [h1, h2, h3, (by decide : ¬ (2 = 0)), if_false]
  rw [readExpShifted_closed b _ 2 (m + 1) (by decide) m (15 * m + 6) 0 1 (by omega)]
  congr 1
  have e1 : (2:Nat) ^ (8 * m + 8) = 2 ^ (8 * m) * 256 := by rw [Nat.pow_add]
  have e2 : b.bits / 2 ^ (120 * m + 50) = b.bits / 2 ^ (8 * (15 * m + 6)) / 2 ^ 2 := by
    rw [← div_pow_add]; congr 2; omega
  rw [e1, e2]
  apply assemble
  simp only [lastByte, finByte, Nat.zero_add, if_true, and3]
  have hx : b.get (b.len - 2) = b.bits / 2 ^ (8 * (15 * m + 6)) / 2 ^ (8 * m) % 256 := by
    rw [get_eq, ← div_pow_add]; congr 3; omega
  have hc : b.get (b.len - 1) = b.bits / 2 ^ (8 * (15 * m + 6)) / 2 ^ (8 * m) / 256 % 256 := by
    rw [get_eq, ← div_pow_add, show (256:Nat) = 2 ^ 8 from rfl, ← div_pow_add]; congr 3; omega
  have hP : b.bits / 2 ^ (8 * (15 * m + 6)) / 2 ^ 2 / 2 ^ (8 * m) = b.bits / 2 ^ (8 * (15 * m + 6)) / 2 ^ (8 * m) / 2 ^ 2 := by
    exact div_right_comm _ _ _
  rw [if_neg (by omega : ¬ (m = m + 1))]
  rw [tail2 _ (get_lt b _) _ (Nat.mod_lt _ (by decide)) e he, hx, hc, hP]
  generalize b.bits / 2 ^ (8 * (15 * m + 6)) / 2 ^ (8 * m) = R
  omega

theorem msExp_r0 (m : Nat) : msExponentOffset (8 * m + 14) = (6, m + 1) := by
  unfold msExponentOffset
  have h1 : (8 * m + 14) % 8 = 6 := by omega
  have h2 : (8 * m + 14) / 8 = m + 1 := by omega
  simp only [h1, h2, (by decide : ¬ (6 = 0)), if_false]

theorem dcf_r0 (b : Buf) (m : Nat) (hl : b.len = 16 * m + 16) :
    decodeCombinationFinite b =
      ((mseMsd b.last).1 * 2 ^ (8 * m + 12) + b.bits / 2 ^ (120 * m + 110) % 2 ^ (8 * m + 12), (mseMsd b.last).2) := by
  have htb : b.trailingBits = 120 * m + 110 := by simp only [Buf.trailingBits, Buf.widthBits, hl]; omega
  have heb : b.exponentBits = 8 * m + 14 := by
    simp only [Buf.exponentBits, Buf.combinationBits, Buf.widthBits, hl]; omega
  have he := (mseMsd_table b.last (Nat.mod_lt _ (by decide))).2
  rw [dcf_unfold, htb, heb, hl, msExp_r0]
  generalize (mseMsd b.last).1 = e at he ⊢
  have h1 : (120 * m + 110) % 8 = 6 := by omega
  have h2 : (120 * m + 110) / 8 = 15 * m + 13 := by omega
  have h3 : 16 * m + 16 - 1 - (15 * m + 13) + 2 = (m + 1) + 2 + 1 := by omega
  simp only [h1, h2, h3, (by decide : ¬ (6 = 0)), if_false]
  rw [readExpShifted_closed b _ 6 (m + 1) (by decide) (m + 1) (15 * m + 13) 0 1 (by omega)]
  congr 1
  have e1 : (2:Nat) ^ (8 * m + 12) = 2 ^ (8 * (m + 1)) * 16 := by
    rw [show 8 * m + 12 = 8 * (m + 1) + 4 by omega, Nat.pow_add]
  have e2 : b.bits / 2 ^ (120 * m + 110) = b.bits / 2 ^ (8 * (15 * m + 13)) / 2 ^ 6 := by
    rw [← div_pow_add]; congr 2; omega
  rw [e1, e2]
  apply assemble
  simp only [lastByte, finByte, Nat.zero_add, if_true, and3]
  have hx : b.get (b.len - 2) = b.bits / 2 ^ (8 * (15 * m + 13)) / 2 ^ (8 * (m + 1)) % 256 := by
    rw [get_eq, ← div_pow_add]; congr 3; omega
  have hc : b.get (b.len - 1) = b.bits / 2 ^ (8 * (15 * m + 13)) / 2 ^ (8 * (m + 1)) / 256 % 256 := by
    rw [get_eq, ← div_pow_add, show (256:Nat) = 2 ^ 8 from rfl, ← div_pow_add]; congr 3; omega
  have hP : b.bits / 2 ^ (8 * (15 * m + 13)) / 2 ^ 6 / 2 ^ (8 * (m + 1)) =
      b.bits / 2 ^ (8 * (15 * m + 13)) / 2 ^ (8 * (m + 1)) / 2 ^ 6 := by
    exact div_right_comm _ _ _
  rw [if_neg (by omega : ¬ (m + 1 + 1 = m + 1))]
  rw [tail6 _ (get_lt b _) _ (Nat.mod_lt _ (by decide)) e he, hx, hc, hP]
  generalize b.bits / 2 ^ (8 * (15 * m + 13)) / 2 ^ (8 * (m + 1)) = R
  omega

theorem msExp_r3 (m : Nat) : msExponentOffset (8 * m + 12) = (4, m + 1) := by
  unfold msExponentOffset
  have h1 : (8 * m + 12) % 8 = 4 := by omega
  have h2 : (8 * m + 12) / 8 = m + 1 := by omega
  simp only [h1, h2, (by decide : ¬ (4 = 0)), if_false]

theorem dcf_r3 (b : Buf) (m : Nat) (hl : b.len = 16 * m + 12) :
    decodeCombinationFinite b =
      ((mseMsd b.last).1 * 2 ^ (8 * m + 10) + b.bits / 2 ^ (120 * m + 80) % 2 ^ (8 * m + 10), (mseMsd b.last).2) := by
  have htb : b.trailingBits = 120 * m + 80 := by simp only [Buf.trailingBits, Buf.widthBits, hl]; omega
  have heb : b.exponentBits = 8 * m + 12 := by
    simp only [Buf.exponentBits, Buf.combinationBits, Buf.widthBits, hl]; omega
  have he := (mseMsd_table b.last (Nat.mod_lt _ (by decide))).2
  rw [dcf_unfold, htb, heb, hl, msExp_r3]
  generalize (mseMsd b.last).1 = e at he ⊢
  have h1 : (120 * m + 80) % 8 = 0 := by omega
  have h2 : (120 * m + 80) / 8 = 15 * m + 10 := by omega
  have h3 : 16 * m + 12 - 1 - (15 * m + 10) + 1 = (m + 1) + 1 := by omega
  simp only [h1, h2, h3, if_true]
  rw [readExpAligned_closed b _ (m + 1) (15 * m + 10) (by omega)]
  congr 1
  have e1 : (2:Nat) ^ (8 * m + 10) = 2 ^ (8 * (m + 1)) * 4 := by
    rw [show 8 * m + 10 = 8 * (m + 1) + 2 by omega, Nat.pow_add]
  have e2 : b.bits / 2 ^ (120 * m + 80) = b.bits / 2 ^ (8 * (15 * m + 10)) := by
    congr 2; omega
  rw [e1, e2]
  apply assemble
  simp only [and3]
  have hc : b.get (b.len - 1) = b.bits / 2 ^ (8 * (15 * m + 10)) / 2 ^ (8 * (m + 1)) % 256 := by
    rw [get_eq, ← div_pow_add]; congr 3; omega
  rw [tail0 _ (Nat.mod_lt _ (by decide)) e he, hc]
  generalize b.bits / 2 ^ (8 * (15 * m + 10)) / 2 ^ (8 * (m + 1)) = R
  omega

/-- **closed form of `decode_combination_finite`** for every width `32n`: the two leading exponent bits (taken from
the last byte) on top of the `w = 2n+4` continuation bits that sit above the trailing significand -/
theorem dcf_closed (b : Buf) (n : Nat) (h : WF b n) :
    decodeCombinationFinite b =
      ((mseMsd b.last).1 * 2 ^ (2 * n + 4) + b.bits / 2 ^ (30 * n - 10) % 2 ^ (2 * n + 4), (mseMsd b.last).2) := by
  have hp := h.pos
  have hl := h.len
  have : n % 4 = 1 ∨ n % 4 = 2 ∨ n % 4 = 3 ∨ n % 4 = 0 := by omega
  rcases this with r | r | r | r
  · obtain ⟨m, rfl⟩ : ∃ m, n = 4 * m + 1 := ⟨n / 4, by omega⟩
    rw [dcf_r1 b m (by omega), (by omega : 2 * (4 * m + 1) + 4 = 8 * m + 6), (by omega : 30 * (4 * m + 1) - 10 = 120 * m + 20)]
  · obtain ⟨m, rfl⟩ : ∃ m, n = 4 * m + 2 := ⟨n / 4, by omega⟩
    rw [dcf_r2 b m (by omega), (by omega : 2 * (4 * m + 2) + 4 = 8 * m + 8), (by omega : 30 * (4 * m + 2) - 10 = 120 * m + 50)]
  · obtain ⟨m, rfl⟩ : ∃ m, n = 4 * m + 3 := ⟨n / 4, by omega⟩
    rw [dcf_r3 b m (by omega), (by omega : 2 * (4 * m + 3) + 4 = 8 * m + 10), (by omega : 30 * (4 * m + 3) - 10 = 120 * m + 80)]
  · obtain ⟨m, rfl⟩ : ∃ m, n = 4 * m + 4 := ⟨n / 4 - 1, by omega⟩
    rw [dcf_r0 b m (by omega), (by omega : 2 * (4 * m + 4) + 4 = 8 * m + 12), (by omega : 30 * (4 * m + 4) - 10 = 120 * m + 110)]


end Decstr.Proofs.DecodeAux

#print axioms Decstr.Proofs.DecodeAux.readExpAligned_closed
#print axioms Decstr.Proofs.DecodeAux.readExpShifted_closed
#print axioms Decstr.Proofs.DecodeAux.dcf_closed
