import Decstr.Proofs.Basic
import Decstr.Proofs.ParseLemmas
import Mathlib.Tactic.Linarith
import Mathlib.Tactic.Positivity
import Mathlib.Tactic.Ring
/-!
# Proofs.ToInt — `Integer::try_from_ascii` and `decimal_to_int` on digit strings (property C11)
-/
namespace Decstr.Proofs
open Decstr.Model Decstr.Spec

/-- `(−1)^neg · c` -/
def sgnVal (neg : Bool) (c : Nat) : Int := if neg then -(c : Int) else c

theorem ofDigits_append_single (ds : List Nat) (d : Nat) : ofDigits (ds ++ [d]) = 10 * ofDigits ds + d := by
  simp [ofDigits, List.foldl_append]

theorem ofDigits_foldl (ds : List Nat) (a : Nat) :
    ds.foldl (fun a d => 10 * a + d) a = a * 10 ^ ds.length + ofDigits ds := by
  induction ds generalizing a with
  | nil => simp [ofDigits]
  | cons d ds ih =>
    simp only [List.foldl_cons, List.length_cons, ofDigits]
    rw [ih, ih (10 * 0 + d)]
    ring

theorem ti_ofDigits_cons (d : Nat) (ds : List Nat) : ofDigits (d :: ds) = d * 10 ^ ds.length + ofDigits ds := by
  simp only [ofDigits, List.foldl_cons]
  rw [ofDigits_foldl]; simp [ofDigits]

theorem ti_valOf_nil : valOf [] = 0 := rfl
theorem ti_valOf_cons (d : Nat) (ds : List Nat) : valOf (d :: ds) = (d - 48) * 10 ^ ds.length + valOf ds := by
  simp [valOf, digitVals, ti_ofDigits_cons]

theorem IntTy.min_le_zero (I : IntTy) : I.min ≤ 0 := by
  unfold IntTy.min; split <;> simp
theorem IntTy.zero_le_max (I : IntTy) : 0 ≤ I.max := by
  unfold IntTy.max
  have : (1 : Int) ≤ ((2 ^ (I.bits - 1) : Nat) : Int) := by exact_mod_cast Nat.one_le_two_pow
  have : (1 : Int) ≤ ((2 ^ I.bits : Nat) : Int) := by exact_mod_cast Nat.one_le_two_pow
  split <;> omega

theorem contains_iff (I : IntTy) (v : Int) : I.contains v = true ↔ I.min ≤ v ∧ v ≤ I.max := by
  simp [IntTy.contains]

/-- the value `try_from_ascii` builds from accumulator `acc` and remaining digits `ds` -/
def finalVal (neg : Bool) (acc : Int) (ds : List Nat) : Int :=
  acc * 10 ^ ds.length + sgnVal neg (valOf ds)

theorem finalVal_cons (neg : Bool) (acc : Int) (d : Nat) (ds : List Nat) :
    finalVal neg acc (d :: ds) = finalVal neg (if neg then acc * 10 - ((d - 48 : Nat) : Int) else acc * 10 + ((d - 48 : Nat) : Int)) ds := by
  unfold finalVal sgnVal
  rw [ti_valOf_cons]
  cases neg <;> simp only [List.length_cons, Bool.false_eq_true, if_false, if_true] <;> push_cast <;> ring

/-- soundness of `try_from_ascii`: a returned value is the exact value and lies in the target's range -/
theorem intFromAscii_sound (I : IntTy) (neg : Bool) (ds : List Nat) (acc v : Int) (hacc : I.contains acc = true)
    (h : intFromAscii I neg ds acc = some v) : v = finalVal neg acc ds ∧ I.contains v = true := by
  induction ds generalizing acc with
  | nil => simp [intFromAscii] at h; subst h; simp [finalVal, sgnVal, ti_valOf_nil, hacc]
  | cons d ds ih =>
    rw [finalVal_cons]
    simp only [intFromAscii] at h
    by_cases h0 : (neg && !I.signed) = true
    · simp [h0] at h
    · simp only [h0] at h
      by_cases h1 : I.contains (acc * 10) = true
      · simp only [h1, Bool.not_true, Bool.false_eq_true, if_false] at h
        by_cases h2 : I.contains (if neg = true then acc * 10 - ((d - 48 : Nat) : Int) else acc * 10 + ((d - 48 : Nat) : Int)) = true
        · simp only [h2, Bool.not_true, Bool.false_eq_true, if_false] at h
          exact ih _ h2 h
        · simp [h2] at h
      · simp [h1] at h

/-- completeness: when the sign is admissible and the exact value is in range, it is returned -/
theorem intFromAscii_complete (I : IntTy) (neg : Bool) (ds : List Nat) (acc : Int)
    (hsign : ¬ (neg = true ∧ I.signed = false))
    (hs : if neg then acc ≤ 0 else 0 ≤ acc)
    (hfin : I.contains (finalVal neg acc ds) = true) :
    intFromAscii I neg ds acc = some (finalVal neg acc ds) := by
  induction ds generalizing acc with
  | nil => simp [intFromAscii, finalVal, sgnVal, ti_valOf_nil]
  | cons d ds ih =>
    rw [finalVal_cons] at hfin ⊢
    have hmin := IntTy.min_le_zero I
    have hmax := IntTy.zero_le_max I
    have hp : (1 : Int) ≤ 10 ^ ds.length := by
      have : (1 : Nat) ≤ 10 ^ ds.length := Nat.one_le_pow _ _ (by decide)
      exact_mod_cast this
    have hv : (0 : Int) ≤ ((valOf ds : Nat) : Int) := Int.natCast_nonneg _
    have hd : (0 : Int) ≤ ((d - 48 : Nat) : Int) := Int.natCast_nonneg _
    rw [contains_iff] at hfin
    simp only [intFromAscii]
    have hns : (neg && !I.signed) = false := by
      cases hn : neg <;> cases hsg : I.signed <;> simp_all
    simp only [hns, Bool.false_eq_true, if_false]
    cases neg
    · -- non-negative accumulation
      simp only [Bool.false_eq_true, if_false] at hs hfin ⊢
      unfold finalVal sgnVal at hfin
      simp only [Bool.false_eq_true, if_false] at hfin
      have h1 : acc * 10 + ((d - 48 : Nat) : Int) ≤ (acc * 10 + ((d - 48 : Nat) : Int)) * 10 ^ ds.length := by
        nlinarith
      have hm : I.contains (acc * 10) = true := by rw [contains_iff]; constructor <;> omega
      have hv' : I.contains (acc * 10 + ((d - 48 : Nat) : Int)) = true := by rw [contains_iff]; constructor <;> omega
      simp only [hm, hv', Bool.not_true, Bool.false_eq_true, if_false]
      exact ih _ (by simp; omega) (by rw [contains_iff]; exact hfin)
    · simp only [if_true] at hs hfin ⊢
      unfold finalVal sgnVal at hfin
      simp only [if_true] at hfin
      have h1 : (acc * 10 - ((d - 48 : Nat) : Int)) * 10 ^ ds.length ≤ acc * 10 - ((d - 48 : Nat) : Int) := by
        nlinarith
      have hm : I.contains (acc * 10) = true := by rw [contains_iff]; constructor <;> omega
      have hv' : I.contains (acc * 10 - ((d - 48 : Nat) : Int)) = true := by rw [contains_iff]; constructor <;> omega
      simp only [hm, hv', Bool.not_true, Bool.false_eq_true, if_false]
      exact ih _ (by simp; omega) (by rw [contains_iff]; exact hfin)

/-! ## Digit-string arithmetic -/

theorem ti_ofDigits_append (a b : List Nat) : ofDigits (a ++ b) = ofDigits a * 10 ^ b.length + ofDigits b := by
  unfold ofDigits
  rw [List.foldl_append, ofDigits_foldl]
  rfl

theorem ti_valOf_append (a b : List Nat) : valOf (a ++ b) = valOf a * 10 ^ b.length + valOf b := by
  simp [valOf, digitVals, ti_ofDigits_append]

theorem AsciiDigits.tail {d : Nat} {ds : List Nat} (h : AsciiDigits (d :: ds)) : AsciiDigits ds :=
  fun x hx => h x (List.mem_cons_of_mem _ hx)
theorem AsciiDigits.head {d : Nat} {ds : List Nat} (h : AsciiDigits (d :: ds)) : 48 ≤ d ∧ d ≤ 57 :=
  h d (List.mem_cons_self)

theorem ti_valOf_lt (ds : List Nat) (h : AsciiDigits ds) : valOf ds < 10 ^ ds.length := by
  induction ds with
  | nil => simp [ti_valOf_nil]
  | cons d ds ih =>
    have := ih h.tail
    have hd := h.head
    rw [ti_valOf_cons, List.length_cons, Nat.pow_succ]
    have : (d - 48) * 10 ^ ds.length ≤ 9 * 10 ^ ds.length := Nat.mul_le_mul_right _ (by omega)
    omega

theorem all_zero_iff (ds : List Nat) (h : AsciiDigits ds) : ds.all (· == 48) = true ↔ valOf ds = 0 := by
  induction ds with
  | nil => simp [ti_valOf_nil]
  | cons d ds ih =>
    have hd := h.head
    have hp : 0 < 10 ^ ds.length := Nat.pow_pos (by decide)
    rw [ti_valOf_cons, List.all_cons, Bool.and_eq_true, ih h.tail]
    constructor
    · rintro ⟨h1, h2⟩
      have : d = 48 := by simpa using h1
      subst this; simp [h2]
    · intro h0
      have h1 : (d - 48) * 10 ^ ds.length = 0 := by omega
      have h2 : valOf ds = 0 := by omega
      have h3 : d - 48 = 0 := by
        rcases Nat.mul_eq_zero.mp h1 with h | h
        · exact h
        · omega
      refine ⟨?_, h2⟩
      have : d = 48 := by omega
      simp [this]

/-! ## Closed forms of `try_from_ascii` and of the zero-pushing continuation -/

theorem sgnVal_zero (neg : Bool) : sgnVal neg 0 = 0 := by cases neg <;> simp [sgnVal]
theorem sgnVal_mul (neg : Bool) (a b : Nat) : sgnVal neg (a * b) = sgnVal neg a * (b : Int) := by
  cases neg <;> simp [sgnVal]
theorem sgnVal_eq_zero_iff (neg : Bool) (a : Nat) : sgnVal neg a = 0 ↔ a = 0 := by
  cases neg <;> simp [sgnVal]

theorem contains_zero (I : IntTy) : I.contains 0 = true := by
  rw [contains_iff]; exact ⟨IntTy.min_le_zero I, IntTy.zero_le_max I⟩

/-- `I.contains` is monotone towards zero -/
theorem contains_of_mul (I : IntTy) (m p : Int) (hp : 1 ≤ p) (h : I.contains (m * p) = true) : I.contains m = true := by
  rw [contains_iff] at h ⊢
  have hmin := IntTy.min_le_zero I
  have hmax := IntTy.zero_le_max I
  rcases Int.le_total 0 m with hm | hm
  · have : m ≤ m * p := by nlinarith
    omega
  · have : m * p ≤ m := by nlinarith
    omega

theorem finalVal_zero (neg : Bool) (ds : List Nat) : finalVal neg 0 ds = sgnVal neg (valOf ds) := by
  simp [finalVal]

/-- `try_from_ascii` from a zero accumulator, admissible sign: the exact value iff in range -/
theorem intFromAscii_eq (I : IntTy) (neg : Bool) (ds : List Nat) (hsign : ¬ (neg = true ∧ I.signed = false)) :
    intFromAscii I neg ds 0
      = if I.contains (sgnVal neg (valOf ds)) then some (sgnVal neg (valOf ds)) else none := by
  by_cases hc : I.contains (sgnVal neg (valOf ds)) = true
  · rw [if_pos hc, ← finalVal_zero]
    exact intFromAscii_complete I neg ds 0 hsign (by cases neg <;> simp) (by rw [finalVal_zero]; exact hc)
  · rw [if_neg hc]
    cases hr : intFromAscii I neg ds 0 with
    | none => rfl
    | some v =>
      have := intFromAscii_sound I neg ds 0 v (contains_zero I) hr
      rw [finalVal_zero] at this
      rw [this.1] at this
      exact absurd this.2 hc

theorem pow_ge_one_int (k : Nat) : (1 : Int) ≤ 10 ^ k := by
  have : (1 : Nat) ≤ 10 ^ k := Nat.one_le_pow _ _ (by decide)
  exact_mod_cast this

/-- the zeros fed after the digits multiply by `10^k`, checked at every step -/
theorem intPushZeros_eq (I : IntTy) (neg : Bool) (k : Nat) (acc : Int) (hsign : ¬ (neg = true ∧ I.signed = false))
    (hacc : I.contains acc = true) :
    intPushZeros I neg k acc = if I.contains (acc * 10 ^ k) then some (acc * 10 ^ k) else none := by
  have hns : (neg && !I.signed) = false := by
    cases hn : neg <;> cases hsg : I.signed <;> simp_all
  induction k generalizing acc with
  | zero => simp [intPushZeros, hacc]
  | succ k ih =>
    simp only [intPushZeros, hns, Bool.false_eq_true, if_false]
    by_cases h0 : acc = 0
    · subst h0; simp [contains_zero]
    · simp only [h0, if_false]
      have e : acc * 10 ^ (k + 1) = acc * 10 * 10 ^ k := by ring
      by_cases hm : I.contains (acc * 10) = true
      · simp only [hm, Bool.not_true, Bool.false_eq_true, if_false]
        rw [ih _ hm, e]
      · have : ¬ I.contains (acc * 10 ^ (k + 1)) = true := by
          intro h; rw [e] at h
          exact hm (contains_of_mul I _ _ (pow_ge_one_int k) h)
        simp [hm, this]

/-! ## The specification and the main equality -/

/-- decimal → integer as the property states it: the exact value, when it is an integer inside the target's range
    (a negative sign is never admissible for an unsigned target — the property leaves negative zero unspecified;
    the code says None) -/
def exactInt (I : IntTy) (neg : Bool) (c : Nat) (e : Int) : Option Int :=
  if neg && !I.signed then none
  else if 0 ≤ e then (if I.contains (sgnVal neg (c * 10 ^ e.toNat)) then some (sgnVal neg (c * 10 ^ e.toNat)) else none)
  else if c % 10 ^ (-e).toNat = 0 then
    (if I.contains (sgnVal neg (c / 10 ^ (-e).toNat)) then some (sgnVal neg (c / 10 ^ (-e).toNat)) else none)
  else none

theorem two_pow_128_lt : (2 : Nat) ^ 128 < 10 ^ 39 := by decide

theorem IntTy.max_lt (I : IntTy) (hI : I.bits ≤ 128) : I.max < (10 : Int) ^ 39 := by
  have h1 : (2 : Nat) ^ I.bits ≤ 2 ^ 128 := Nat.pow_le_pow_right (by decide) hI
  have h2 : (2 : Nat) ^ (I.bits - 1) ≤ 2 ^ 128 := Nat.pow_le_pow_right (by decide) (by omega)
  have h3 : ((2 : Nat) ^ 128 : Int) < 10 ^ 39 := by decide
  have h1' : ((2 ^ I.bits : Nat) : Int) ≤ (2 : Nat) ^ 128 := by exact_mod_cast h1
  have h2' : ((2 ^ (I.bits - 1) : Nat) : Int) ≤ (2 : Nat) ^ 128 := by exact_mod_cast h2
  unfold IntTy.max; split <;> omega

theorem IntTy.min_gt (I : IntTy) (hI : I.bits ≤ 128) : -((10 : Int) ^ 39) < I.min := by
  have h2 : (2 : Nat) ^ (I.bits - 1) ≤ 2 ^ 128 := Nat.pow_le_pow_right (by decide) (by omega)
  have h3 : ((2 : Nat) ^ 128 : Int) < 10 ^ 39 := by decide
  have h2' : ((2 ^ (I.bits - 1) : Nat) : Int) ≤ (2 : Nat) ^ 128 := by exact_mod_cast h2
  unfold IntTy.min; split <;> omega

/-- a non-zero coefficient followed by at least 39 zeros overflows every target of at most 128 bits -/
theorem not_contains_big (I : IntTy) (hI : I.bits ≤ 128) (neg : Bool) (c k : Nat) (hc : 0 < c) (hk : 39 ≤ k) :
    I.contains (sgnVal neg (c * 10 ^ k)) = false := by
  have hmax := IntTy.max_lt I hI
  have hmin := IntTy.min_gt I hI
  have h1 : (10 : Nat) ^ 39 ≤ 10 ^ k := Nat.pow_le_pow_right (by decide) hk
  have h2 : (10 : Nat) ^ 39 ≤ c * 10 ^ k := by nlinarith
  have h3 : ((10 : Int) ^ 39) ≤ ((c * 10 ^ k : Nat) : Int) := by exact_mod_cast h2
  cases hcon : I.contains (sgnVal neg (c * 10 ^ k)) with
  | false => rfl
  | true =>
    rw [contains_iff] at hcon
    cases neg <;> simp only [sgnVal, Bool.false_eq_true, if_false, if_true] at hcon <;> omega

theorem hns_of (I : IntTy) (neg : Bool) (hsign : ¬ (neg = true ∧ I.signed = false)) : (neg && !I.signed) = false := by
  cases hn : neg <;> cases hsg : I.signed <;> simp_all

theorem intFromAscii_zero (I : IntTy) (neg : Bool) (hsign : ¬ (neg = true ∧ I.signed = false)) :
    intFromAscii I neg [48] 0 = some 0 := by
  rw [intFromAscii_eq I neg [48] hsign]
  have : valOf [48] = 0 := by decide
  simp [this, sgnVal_zero, contains_zero]

/-- arm `exponent = 0` -/
theorem arm_zero (I : IntTy) (neg : Bool) (digits : List Nat) (hsign : ¬ (neg = true ∧ I.signed = false)) :
    intFromAscii I neg digits 0 = exactInt I neg (valOf digits) 0 := by
  rw [intFromAscii_eq I neg digits hsign]
  simp [exactInt, hns_of I neg hsign]

/-- arm `exponent > 0`: the digits, then that many zeros -/
theorem arm_pos (I : IntTy) (neg : Bool) (digits : List Nat) (e : Int) (he : 0 < e)
    (hsign : ¬ (neg = true ∧ I.signed = false)) :
    (match intFromAscii I neg digits 0 with
      | some acc => intPushZeros I neg e.toNat acc
      | none => none) = exactInt I neg (valOf digits) e := by
  rw [intFromAscii_eq I neg digits hsign]
  have e1 : sgnVal neg (valOf digits * 10 ^ e.toNat) = sgnVal neg (valOf digits) * 10 ^ e.toNat := by
    rw [sgnVal_mul]; push_cast; rfl
  simp only [exactInt, hns_of I neg hsign, Bool.false_eq_true, if_false, if_pos (Int.le_of_lt he), e1]
  by_cases hc : I.contains (sgnVal neg (valOf digits)) = true
  · simp only [if_pos hc]
    rw [intPushZeros_eq I neg _ _ hsign hc]
  · have : ¬ I.contains (sgnVal neg (valOf digits) * 10 ^ e.toNat) = true :=
      fun h => hc (contains_of_mul I _ _ (pow_ge_one_int _) h)
    simp only [if_neg hc, if_neg this]

/-- last arm, finite, exponent at least 39 (in particular beyond `i32`) -/
theorem arm_pos_big (I : IntTy) (hI : I.bits ≤ 128) (neg : Bool) (digits : List Nat) (e : Int) (he : 39 ≤ e)
    (hds : AsciiDigits digits) (hsign : ¬ (neg = true ∧ I.signed = false)) :
    (if (true && digits.all (· == 48)) = true then intFromAscii I neg [48] 0 else none)
      = exactInt I neg (valOf digits) e := by
  simp only [exactInt, hns_of I neg hsign, Bool.false_eq_true, if_false, if_pos (show (0 : Int) ≤ e by omega),
    Bool.true_and, all_zero_iff digits hds, intFromAscii_zero I neg hsign]
  by_cases h0 : valOf digits = 0
  · simp [h0, sgnVal_zero, contains_zero]
  · have := not_contains_big I hI neg (valOf digits) e.toNat (by omega) (by omega)
    simp [h0, this]

/-- last arm, finite, negative exponent of magnitude at least the number of digits -/
theorem arm_neg_big (I : IntTy) (neg : Bool) (digits : List Nat) (e : Int) (he : e < 0)
    (hlen : digits.length ≤ e.natAbs)
    (hds : AsciiDigits digits) (hsign : ¬ (neg = true ∧ I.signed = false)) :
    (if (true && digits.all (· == 48)) = true then intFromAscii I neg [48] 0 else none)
      = exactInt I neg (valOf digits) e := by
  simp only [exactInt, hns_of I neg hsign, Bool.false_eq_true, if_false, if_neg (show ¬ (0 : Int) ≤ e by omega),
    Bool.true_and, all_zero_iff digits hds, intFromAscii_zero I neg hsign]
  have hk : (-e).toNat = e.natAbs := by omega
  rw [hk]
  have hlt : valOf digits < 10 ^ e.natAbs :=
    Nat.lt_of_lt_of_le (ti_valOf_lt digits hds) (Nat.pow_le_pow_right (by decide) hlen)
  rw [Nat.mod_eq_of_lt hlt, Nat.div_eq_of_lt hlt]
  by_cases h0 : valOf digits = 0
  · simp [h0, sgnVal_zero, contains_zero]
  · simp [h0]

/-- arm `−precision < exponent < 0`: the leading digits, provided the dropped ones are all `'0'` -/
theorem arm_neg_small (I : IntTy) (neg : Bool) (digits : List Nat) (e : Int) (he : e < 0)
    (hlen : e.natAbs < digits.length)
    (hds : AsciiDigits digits) (hsign : ¬ (neg = true ∧ I.signed = false)) :
    (match intFromAscii I neg (digits.take (digits.length - e.natAbs)) 0 with
      | none => none
      | some i => if (digits.drop (digits.length - e.natAbs)).all (· == 48) = true then some i else none)
      = exactInt I neg (valOf digits) e := by
  have hk : (-e).toNat = e.natAbs := by omega
  simp only [exactInt, hns_of I neg hsign, Bool.false_eq_true, if_false, if_neg (show ¬ (0 : Int) ≤ e by omega), hk]
  rw [intFromAscii_eq I neg _ hsign]
  simp only [all_zero_iff _ (hds.drop _)]
  have hsplit := ti_valOf_append (digits.take (digits.length - e.natAbs)) (digits.drop (digits.length - e.natAbs))
  rw [List.take_append_drop] at hsplit
  have hdl : (digits.drop (digits.length - e.natAbs)).length = e.natAbs := by
    rw [List.length_drop]; omega
  have hlt := ti_valOf_lt _ (hds.drop (digits.length - e.natAbs))
  rw [hdl] at hsplit hlt
  have hpos : 0 < 10 ^ e.natAbs := Nat.pow_pos (by decide)
  have hmod : valOf digits % 10 ^ e.natAbs = valOf (digits.drop (digits.length - e.natAbs)) := by
    rw [hsplit, Nat.mul_comm, Nat.mul_add_mod, Nat.mod_eq_of_lt hlt]
  have hdiv : valOf digits / 10 ^ e.natAbs = valOf (digits.take (digits.length - e.natAbs)) := by
    rw [hsplit, Nat.mul_comm, Nat.mul_add_div hpos, Nat.div_eq_of_lt hlt, Nat.add_zero]
  rw [hmod, hdiv]
  by_cases hc : I.contains (sgnVal neg (valOf (digits.take (digits.length - e.natAbs)))) = true
  · simp only [if_pos hc]
  · simp only [if_neg hc]; split <;> rfl

/-- **`decimal_to_int` is the exact conversion** (no hypothesis on the exponent is needed) -/
theorem toIntCore_eq' (T : Ty) (I : IntTy) (neg : Bool) (digits : List Nat) (e : Int)
    (hds : AsciiDigits digits) (hI : I.bits ≤ 128) (hp : digits.length < 2 ^ 31) :
    toIntCore T I neg digits e digits.length true = exactInt I neg (valOf digits) e := by
  by_cases hs : (neg && !I.signed) = true
  · simp [toIntCore, exactInt, hs]
  · have hns : (neg && !I.signed) = false := by simpa using hs
    have hsign : ¬ (neg = true ∧ I.signed = false) := by
      cases hn : neg <;> cases hsg : I.signed <;> simp_all
    unfold toIntCore
    simp only [hns, Bool.false_eq_true, if_false]
    cases hb : (T.expIsI32 || (decide (i32Min ≤ e) && decide (e ≤ i32Max)))
    · simp only [Bool.false_and, Bool.false_eq_true, if_false]
      have hr : e < i32Min ∨ i32Max < e := by
        simp only [Bool.or_eq_false_iff, Bool.and_eq_false_iff, decide_eq_false_iff_not] at hb
        omega
      unfold i32Min i32Max at hr
      rcases hr with h | h
      · exact arm_neg_big I neg digits e (by omega) (by omega) hds hsign
      · exact arm_pos_big I hI neg digits e (by omega) hds hsign
    · simp only [Bool.true_and, decide_eq_true_eq]
      rcases Int.lt_trichotomy e 0 with h | h | h
      · rw [if_neg (by omega), if_neg (by omega)]
        by_cases hl : e.natAbs < digits.length
        · rw [if_pos hl]; exact arm_neg_small I neg digits e h hl hds hsign
        · rw [if_neg hl]; exact arm_neg_big I neg digits e h (by omega) hds hsign
      · subst h; rw [if_pos rfl]; exact arm_zero I neg digits hsign
      · rw [if_neg (by omega), if_pos h]; exact arm_pos I neg digits e h hsign

theorem toIntCore_eq (T : Ty) (I : IntTy) (neg : Bool) (digits : List Nat) (e : Int)
    (hds : AsciiDigits digits) (_hne : digits ≠ []) (hI : I.bits ≤ 128) (hp : digits.length < 2 ^ 31)
    (_hT : T.expIsI32 = true → i32Min ≤ e ∧ e ≤ i32Max) :
    toIntCore T I neg digits e digits.length true = exactInt I neg (valOf digits) e :=
  toIntCore_eq' T I neg digits e hds hI hp

/-! ## Soundness and completeness (C11) -/

/-- `v` is exactly (−1)^neg · c · 10^e -/
def IsValue (neg : Bool) (c : Nat) (e : Int) (v : Int) : Prop :=
  if 0 ≤ e then v = sgnVal neg (c * 10 ^ e.toNat) else v * 10 ^ (-e).toNat = sgnVal neg c

instance (neg : Bool) (c : Nat) (e : Int) (v : Int) : Decidable (IsValue neg c e v) := by
  unfold IsValue; infer_instance

theorem isValue_neg_iff (neg : Bool) (c P : Nat) (hP : 0 < P) (v : Int) :
    v * (P : Int) = sgnVal neg c ↔ c % P = 0 ∧ v = sgnVal neg (c / P) := by
  constructor
  · intro h
    have hd : (P : Int) ∣ (c : Int) := by
      have : (P : Int) ∣ sgnVal neg c := ⟨v, by rw [← h, Int.mul_comm]⟩
      cases neg
      · simpa [sgnVal] using this
      · simpa [sgnVal] using this
    obtain ⟨q, rfl⟩ := Int.natCast_dvd_natCast.mp hd
    refine ⟨Nat.mul_mod_right _ _, ?_⟩
    rw [Nat.mul_div_cancel_left _ hP]
    have hP' : (P : Int) ≠ 0 := by omega
    apply Int.eq_of_mul_eq_mul_right hP'
    rw [h, Nat.mul_comm, sgnVal_mul]
  · rintro ⟨hm, rfl⟩
    rw [← sgnVal_mul, Nat.div_mul_cancel (Nat.dvd_of_mod_eq_zero hm)]

theorem cast_ten_pow (k : Nat) : ((10 ^ k : Nat) : Int) = 10 ^ k := by norm_cast

/-- the specification returns `v` exactly when `v` is the value, is in range, and the sign is admissible -/
theorem exactInt_eq_some_iff (I : IntTy) (neg : Bool) (c : Nat) (e : Int) (v : Int) :
    exactInt I neg c e = some v ↔
      (IsValue neg c e v ∧ I.contains v = true ∧ ¬ (neg = true ∧ I.signed = false)) := by
  by_cases hs : (neg && !I.signed) = true
  · have : neg = true ∧ I.signed = false := by simpa using hs
    simp [exactInt, this]
  · have hns : (neg && !I.signed) = false := by simpa using hs
    have hsign : ¬ (neg = true ∧ I.signed = false) := by
      cases hn : neg <;> cases hsg : I.signed <;> simp_all
    simp only [exactInt, hns, Bool.false_eq_true, if_false, IsValue, hsign, not_false_eq_true, and_true]
    by_cases he : 0 ≤ e
    · simp only [if_pos he]
      constructor
      · intro h
        split at h
        · rename_i hc
          have : sgnVal neg (c * 10 ^ e.toNat) = v := by simpa using h
          subst this; exact ⟨rfl, hc⟩
        · exact absurd h (by simp)
      · rintro ⟨rfl, hc⟩
        rw [if_pos hc]
    · simp only [if_neg he]
      rw [← cast_ten_pow, isValue_neg_iff neg c _ (Nat.pow_pos (by decide)) v]
      constructor
      · intro h
        split at h
        · rename_i hm
          split at h
          · rename_i hc
            have : sgnVal neg (c / 10 ^ (-e).toNat) = v := by simpa using h
            subst this; exact ⟨⟨hm, rfl⟩, hc⟩
          · exact absurd h (by simp)
        · exact absurd h (by simp)
      · rintro ⟨⟨hm, rfl⟩, hc⟩
        rw [if_pos hm, if_pos hc]

/-- C11 never lies -/
theorem C11_sound_core (T : Ty) (I : IntTy) (neg : Bool) (digits : List Nat) (e : Int)
    (hds : AsciiDigits digits) (hne : digits ≠ []) (hI : I.bits ≤ 128) (hp : digits.length < 2 ^ 31)
    (hT : T.expIsI32 = true → i32Min ≤ e ∧ e ≤ i32Max)
    (v : Int) (h : toIntCore T I neg digits e digits.length true = some v) :
    IsValue neg (valOf digits) e v ∧ I.contains v = true := by
  rw [toIntCore_eq T I neg digits e hds hne hI hp hT, exactInt_eq_some_iff] at h
  exact ⟨h.1, h.2.1⟩

/-- C11 finds every in-range integer, whatever cohort member encodes it (17e1, 170e-1, zero with any exponent) -/
theorem C11_complete_core (T : Ty) (I : IntTy) (neg : Bool) (digits : List Nat) (e : Int)
    (hds : AsciiDigits digits) (hne : digits ≠ []) (hI : I.bits ≤ 128) (hp : digits.length < 2 ^ 31)
    (hT : T.expIsI32 = true → i32Min ≤ e ∧ e ≤ i32Max)
    (v : Int) (hv : IsValue neg (valOf digits) e v) (hr : I.contains v = true)
    (hs : ¬ (neg = true ∧ I.signed = false)) :
    toIntCore T I neg digits e digits.length true = some v := by
  rw [toIntCore_eq T I neg digits e hds hne hI hp hT, exactInt_eq_some_iff]
  exact ⟨hv, hr, hs⟩

/-- the answer is `None` exactly when no in-range integer with an admissible sign is the value -/
theorem C11_none_core (T : Ty) (I : IntTy) (neg : Bool) (digits : List Nat) (e : Int)
    (hds : AsciiDigits digits) (hne : digits ≠ []) (hI : I.bits ≤ 128) (hp : digits.length < 2 ^ 31)
    (hT : T.expIsI32 = true → i32Min ≤ e ∧ e ≤ i32Max) :
    toIntCore T I neg digits e digits.length true = none ↔
      ∀ v, ¬ (IsValue neg (valOf digits) e v ∧ I.contains v = true ∧ ¬ (neg = true ∧ I.signed = false)) := by
  rw [toIntCore_eq T I neg digits e hds hne hI hp hT]
  constructor
  · intro h v hv
    rw [← exactInt_eq_some_iff, h] at hv
    exact absurd hv (by simp)
  · intro h
    cases hx : exactInt I neg (valOf digits) e with
    | none => rfl
    | some v => exact absurd ((exactInt_eq_some_iff _ _ _ _ _).mp hx) (h v)

/-! ## Non-finite patterns -/

/-- non-finite patterns: decoded through the finite path they have a most significant digit 8 or 9 and an exponent above the
    finite range, hence many trailing zeros — every target of at most 128 bits overflows; beyond i32 the last arm says None.
    (The `precision` argument is irrelevant here, so it is universally quantified.) -/
theorem toIntCore_nonfinite' (T : Ty) (I : IntTy) (neg : Bool) (digits : List Nat) (e : Int) (precision : Nat)
    (hI : I.bits ≤ 128)
    (hmsd : ∃ d rest, digits = d :: rest ∧ d ≥ 56) (he : e ≥ 39) :
    toIntCore T I neg digits e precision false = none := by
  by_cases hs : (neg && !I.signed) = true
  · simp [toIntCore, hs]
  · have hns : (neg && !I.signed) = false := by simpa using hs
    have hsign : ¬ (neg = true ∧ I.signed = false) := by
      cases hn : neg <;> cases hsg : I.signed <;> simp_all
    have hpos : 0 < valOf digits := by
      obtain ⟨d, rest, rfl, hd⟩ := hmsd
      rw [ti_valOf_cons]
      have : 0 < 10 ^ rest.length := Nat.pow_pos (by decide)
      have : 8 * 10 ^ rest.length ≤ (d - 48) * 10 ^ rest.length := Nat.mul_le_mul_right _ (by omega)
      omega
    unfold toIntCore
    simp only [hns, Bool.false_eq_true, if_false]
    cases hb : (T.expIsI32 || (decide (i32Min ≤ e) && decide (e ≤ i32Max)))
    · simp
    · simp only [Bool.true_and, decide_eq_true_eq]
      rw [if_neg (by omega), if_pos (by omega)]
      refine (arm_pos I neg digits e (by omega) hsign).trans ?_
      have := not_contains_big I hI neg (valOf digits) e.toNat hpos (by omega)
      simp [exactInt, hns, this, show (0 : Int) ≤ e by omega]

theorem toIntCore_nonfinite (T : Ty) (I : IntTy) (neg : Bool) (digits : List Nat) (e : Int)
    (_hds : AsciiDigits digits) (hI : I.bits ≤ 128)
    (hmsd : ∃ d rest, digits = d :: rest ∧ d ≥ 56) (he : e ≥ 40) :
    toIntCore T I neg digits e digits.length false = none :=
  toIntCore_nonfinite' T I neg digits e digits.length hI hmsd (by omega)

/-! ## The run-time judgement agrees with the specification -/

theorem sgn_mul_eq (s : Bool) (n : Nat) : (if s then -1 else 1) * (n : Int) = sgnVal s n := by
  cases s <;> simp [sgnVal]

theorem lt_pow_digits10 (c : Nat) : c < 10 ^ digits10 c := by
  unfold digits10
  exact (Nat.length_toDigits_le_iff (b := 10) (by decide) Nat.length_toDigits_pos).mp (Nat.le_refl _)

theorem exactInt_zero (I : IntTy) (neg : Bool) (e : Int) (hsign : ¬ (neg = true ∧ I.signed = false)) :
    exactInt I neg 0 e = some 0 := by
  rw [exactInt_eq_some_iff]
  refine ⟨?_, contains_zero I, hsign⟩
  unfold IsValue; split <;> simp [sgnVal_zero]

/-- the judgement used at run time (`Spec.intValue` with its cut-offs at 41 zeros and at `digits10 c`), filtered by
    the target's range and sign rule, is the exact specification for every target of at most 128 bits -/
theorem intValue_exact (I : IntTy) (hI : I.bits ≤ 128) (neg : Bool) (c : Nat) (e : Int) :
    (match Spec.intValue neg c e with
      | some v => (if I.contains v ∧ ¬ (neg = true ∧ I.signed = false) then some v else none)
      | none => none)
      = exactInt I neg c e := by
  by_cases hs : (neg && !I.signed) = true
  · have h1 : neg = true ∧ I.signed = false := by simpa using hs
    have h2 : exactInt I neg c e = none := by simp [exactInt, h1]
    rw [h2]
    cases Spec.intValue neg c e <;> simp [h1]
  · have hns : (neg && !I.signed) = false := by simpa using hs
    have hsign : ¬ (neg = true ∧ I.signed = false) := by
      cases hn : neg <;> cases hsg : I.signed <;> simp_all
    by_cases hc : c = 0
    · subst hc
      rw [exactInt_zero I neg e hsign]
      simp [Spec.intValue, contains_zero, hsign]
    · unfold Spec.intValue
      simp only [hc, if_false, ge_iff_le, gt_iff_lt, sgn_mul_eq, hsign, not_false_eq_true, and_true]
      by_cases he : 0 ≤ e
      · simp only [if_pos he, exactInt, hns, Bool.false_eq_true, if_false]
        by_cases h41 : 41 < e
        · have := not_contains_big I hI neg c e.toNat (by omega) (by omega)
          simp [h41, this]
        · simp only [if_neg h41]
      · simp only [if_neg he, exactInt, hns, Bool.false_eq_true, if_false]
        by_cases hk : digits10 c < (-e).toNat
        · have hlt : c < 10 ^ (-e).toNat :=
            Nat.lt_of_lt_of_le (lt_pow_digits10 c) (Nat.pow_le_pow_right (by decide) (Nat.le_of_lt hk))
          simp [hk, Nat.mod_eq_of_lt hlt, hc]
        · simp only [if_neg hk]
          by_cases hm : c % 10 ^ (-e).toNat = 0
          · simp only [if_pos hm]
          · simp only [if_neg hm]

/-! ## C10, "converting back": the digits of an in-range integer with exponent 0 give that integer -/

theorem C10_back_core (T : Ty) (I : IntTy) (v : Int) (digits : List Nat)
    (hds : AsciiDigits digits) (hI : I.bits ≤ 128) (hp : digits.length < 2 ^ 31)
    (hval : valOf digits = v.natAbs) (hr : I.contains v = true) :
    toIntCore T I (decide (v < 0)) digits 0 digits.length true = some v := by
  rw [toIntCore_eq' T I _ digits 0 hds hI hp, exactInt_eq_some_iff]
  refine ⟨?_, hr, ?_⟩
  · simp only [IsValue, Int.le_refl, if_true, Int.toNat_zero, Nat.pow_zero, Nat.mul_one, hval, sgnVal]
    by_cases h : v < 0
    · simp only [h, decide_true, if_true]; omega
    · simp only [h, decide_false, Bool.false_eq_true, if_false]; omega
  · rintro ⟨h1, h2⟩
    rw [contains_iff] at hr
    have : I.min = 0 := by simp [IntTy.min, h2]
    have h1 : v < 0 := by simpa using h1
    omega

/-! ## Bridge to the buffer-level `toInt` (the facts about the decoded digits are supplied by the decoding package) -/

theorem toInt_eq_exactInt (T : Ty) (b : Buf) (I : IntTy)
    (hfin : isFinite b = true)
    (hds : AsciiDigits (allDigits b (unbiasedExponent b).2))
    (hlen : (allDigits b (unbiasedExponent b).2).length = b.precision)
    (hI : I.bits ≤ 128) (hp : b.precision < 2 ^ 31) :
    toInt T b I = exactInt I (isSignNegative b) (valOf (allDigits b (unbiasedExponent b).2)) (unbiasedExponent b).1 := by
  unfold toInt
  simp only [hfin]
  rw [← hlen]
  exact toIntCore_eq' T I _ _ _ hds hI (by rw [hlen]; exact hp)

theorem toInt_nonfinite (T : Ty) (b : Buf) (I : IntTy)
    (hfin : isFinite b = false) (hI : I.bits ≤ 128)
    (hmsd : (unbiasedExponent b).2 ≥ 8) (he : (unbiasedExponent b).1 ≥ 39) :
    toInt T b I = none := by
  unfold toInt
  simp only [hfin]
  exact toIntCore_nonfinite' T I _ _ _ _ hI ⟨_, _, rfl, by omega⟩ he

/-! ## Concrete instances: the hypotheses of each main theorem are satisfiable by real inputs -/

/-- `-0001200E-1` (decimal32, 7 digits) into `i8` is `-120` -/
example : toIntCore .b32 ⟨true, 8⟩ true [48, 48, 48, 49, 50, 48, 48] (-1) 7 true = some (-120) :=
  (toIntCore_eq .b32 ⟨true, 8⟩ true [48, 48, 48, 49, 50, 48, 48] (-1) (by unfold AsciiDigits; decide) (by decide)
    (by decide) (by decide) (by intro _; decide)).trans (by decide)

/-- `0001205E-1` is not an integer: `None` -/
example : toIntCore .b32 ⟨true, 8⟩ false [48, 48, 48, 49, 50, 48, 53] (-1) 7 true = none :=
  (toIntCore_eq .b32 ⟨true, 8⟩ false [48, 48, 48, 49, 50, 48, 53] (-1) (by unfold AsciiDigits; decide) (by decide)
    (by decide) (by decide) (by intro _; decide)).trans (by decide)

/-- soundness instance: whatever `0000017E1` into `u8` answers is the value 170, in range -/
example (v : Int) (h : toIntCore .b32 ⟨false, 8⟩ false [48, 48, 48, 48, 48, 49, 55] 1 7 true = some v) :
    IsValue false (valOf [48, 48, 48, 48, 48, 49, 55]) 1 v ∧ (⟨false, 8⟩ : IntTy).contains v = true :=
  C11_sound_core .b32 ⟨false, 8⟩ false [48, 48, 48, 48, 48, 49, 55] 1 (by unfold AsciiDigits; decide) (by decide)
    (by decide) (by decide) (by intro _; decide) v h

/-- completeness instance: the cohort member `0001700E-1` of 170 is found for `u8` -/
example : toIntCore .b32 ⟨false, 8⟩ false [48, 48, 48, 49, 55, 48, 48] (-1) 7 true = some 170 :=
  C11_complete_core .b32 ⟨false, 8⟩ false [48, 48, 48, 49, 55, 48, 48] (-1) (by unfold AsciiDigits; decide) (by decide)
    (by decide) (by decide) (by intro _; decide) 170 (by decide) (by decide) (by decide)

/-- completeness instance for the arbitrary-precision type with an exponent outside `i32`: zero is still zero -/
example : toIntCore .big ⟨true, 128⟩ true [48, 48, 48, 48, 48, 48, 48] (-5000000000) 7 true = some 0 :=
  C11_complete_core .big ⟨true, 128⟩ true [48, 48, 48, 48, 48, 48, 48] (-5000000000) (by unfold AsciiDigits; decide)
    (by decide) (by decide) (by decide) (by intro h; exact absurd h (by decide)) 0
    (by unfold IsValue; rw [if_neg (by decide), Int.zero_mul]; decide) (by decide) (by decide)

/-- non-finite instance: the decimal32 infinity pattern read through the finite path (msd `8`, exponent 96−101+… ≥ 40) -/
example : toIntCore .b32 ⟨false, 128⟩ false [56, 48, 48, 48, 48, 48, 48] 91 7 false = none :=
  toIntCore_nonfinite .b32 ⟨false, 128⟩ false [56, 48, 48, 48, 48, 48, 48] 91 (by unfold AsciiDigits; decide) (by decide)
    ⟨56, [48, 48, 48, 48, 48, 48], rfl, by decide⟩ (by decide)

/-- judgement instance: `intValue` on 1200·10⁻² filtered for `i8` is the specification's `some 12` -/
example : exactInt ⟨true, 8⟩ false 1200 (-2) = some 12 :=
  (intValue_exact ⟨true, 8⟩ (by decide) false 1200 (-2)).symm.trans (by decide)

/-- converting back instance: the digits `0000300` of 300 give 300 for `u16` -/
example : toIntCore .b32 ⟨false, 16⟩ (decide ((300 : Int) < 0)) [48, 48, 48, 48, 51, 48, 48] 0 7 true = some 300 :=
  C10_back_core .b32 ⟨false, 16⟩ 300 [48, 48, 48, 48, 51, 48, 48] (by unfold AsciiDigits; decide) (by decide) (by decide)
    (by decide) (by decide)

end Decstr.Proofs

#print axioms Decstr.Proofs.intFromAscii_sound
#print axioms Decstr.Proofs.intFromAscii_complete
#print axioms Decstr.Proofs.intFromAscii_eq
#print axioms Decstr.Proofs.intPushZeros_eq
#print axioms Decstr.Proofs.toIntCore_eq'
#print axioms Decstr.Proofs.toIntCore_eq
#print axioms Decstr.Proofs.exactInt_eq_some_iff
#print axioms Decstr.Proofs.C11_sound_core
#print axioms Decstr.Proofs.C11_complete_core
#print axioms Decstr.Proofs.C11_none_core
#print axioms Decstr.Proofs.toIntCore_nonfinite'
#print axioms Decstr.Proofs.toIntCore_nonfinite
#print axioms Decstr.Proofs.intValue_exact
#print axioms Decstr.Proofs.C10_back_core
#print axioms Decstr.Proofs.toInt_eq_exactInt
#print axioms Decstr.Proofs.toInt_nonfinite
