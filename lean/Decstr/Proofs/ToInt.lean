import Decstr.Proofs.Basic
import Mathlib.Tactic.Linarith
import Mathlib.Tactic.Positivity
import Mathlib.Tactic.Ring
/-!
# Proofs.ToInt — `Integer::try_from_ascii` and `decimal_to_int` on digit strings (property C11)
-/
namespace Decstr.Proofs
open Decstr.Model Decstr.Spec

/-- `(−1)^neg · c` -/
def sgnVal (neg : Bool) (c : Nat) : Int := if neg then -(c : Int) else c

theorem ofDigits_append_single (ds : List Nat) (d : Nat) : ofDigits (ds ++ [d]) = 10 * ofDigits ds + d := by
  simp [ofDigits, List.foldl_append]

theorem ofDigits_foldl (ds : List Nat) (a : Nat) :
    ds.foldl (fun a d => 10 * a + d) a = a * 10 ^ ds.length + ofDigits ds := by
  induction ds generalizing a with
  | nil => simp [ofDigits]
  | cons d ds ih =>
    simp only [List.foldl_cons, List.length_cons, ofDigits]
    rw [ih, ih (10 * 0 + d)]
    ring

theorem ofDigits_cons (d : Nat) (ds : List Nat) : ofDigits (d :: ds) = d * 10 ^ ds.length + ofDigits ds := by
  simp only [ofDigits, List.foldl_cons]
  rw [ofDigits_foldl]; simp [ofDigits]

theorem valOf_nil : valOf [] = 0 := rfl
theorem valOf_cons (d : Nat) (ds : List Nat) : valOf (d :: ds) = (d - 48) * 10 ^ ds.length + valOf ds := by
  simp [valOf, digitVals, ofDigits_cons]

theorem IntTy.min_le_zero (I : IntTy) : I.min ≤ 0 := by
  unfold IntTy.min; split <;> simp
theorem IntTy.zero_le_max (I : IntTy) : 0 ≤ I.max := by
  unfold IntTy.max
  have : (1 : Int) ≤ ((2 ^ (I.bits - 1) : Nat) : Int) := by exact_mod_cast Nat.one_le_two_pow
  have : (1 : Int) ≤ ((2 ^ I.bits : Nat) : Int) := by exact_mod_cast Nat.one_le_two_pow
  split <;> omega

theorem contains_iff (I : IntTy) (v : Int) : I.contains v = true ↔ I.min ≤ v ∧ v ≤ I.max := by
  simp [IntTy.contains]

/-- the value `try_from_ascii` builds from accumulator `acc` and remaining digits `ds` -/
def finalVal (neg : Bool) (acc : Int) (ds : List Nat) : Int :=
  acc * 10 ^ ds.length + sgnVal neg (valOf ds)

theorem finalVal_cons (neg : Bool) (acc : Int) (d : Nat) (ds : List Nat) :
    finalVal neg acc (d :: ds) = finalVal neg (if neg then acc * 10 - ((d - 48 : Nat) : Int) else acc * 10 + ((d - 48 : Nat) : Int)) ds := by
  unfold finalVal sgnVal
  rw [valOf_cons]
  cases neg <;> simp only [List.length_cons, Bool.false_eq_true, if_false, if_true] <;> push_cast <;> ring

/-- soundness of `try_from_ascii`: a returned value is the exact value and lies in the target's range -/
theorem intFromAscii_sound (I : IntTy) (neg : Bool) (ds : List Nat) (acc v : Int) (hacc : I.contains acc = true)
    (h : intFromAscii I neg ds acc = some v) : v = finalVal neg acc ds ∧ I.contains v = true := by
  induction ds generalizing acc with
  | nil => simp [intFromAscii] at h; subst h; simp [finalVal, sgnVal, valOf_nil, hacc]
  | cons d ds ih =>
    rw [finalVal_cons]
    simp only [intFromAscii] at h
    by_cases h0 : (neg && !I.signed) = true
    · simp [h0] at h
    · simp only [h0, if_false] at h
      by_cases h1 : I.contains (acc * 10) = true
      · simp only [h1, Bool.not_true, Bool.false_eq_true, if_false] at h
        by_cases h2 : I.contains (if neg = true then acc * 10 - ((d - 48 : Nat) : Int) else acc * 10 + ((d - 48 : Nat) : Int)) = true
        · simp only [h2, Bool.not_true, Bool.false_eq_true, if_false] at h
          exact ih _ h2 h
        · simp [h2] at h
      · simp [h1] at h

/-- completeness: when the sign is admissible and the exact value is in range, it is returned -/
theorem intFromAscii_complete (I : IntTy) (neg : Bool) (ds : List Nat) (acc : Int)
    (hsign : ¬ (neg = true ∧ I.signed = false))
    (hs : if neg then acc ≤ 0 else 0 ≤ acc)
    (hfin : I.contains (finalVal neg acc ds) = true) :
    intFromAscii I neg ds acc = some (finalVal neg acc ds) := by
  induction ds generalizing acc with
  | nil => simp [intFromAscii, finalVal, sgnVal, valOf_nil]
  | cons d ds ih =>
    rw [finalVal_cons] at hfin ⊢
    have hmin := IntTy.min_le_zero I
    have hmax := IntTy.zero_le_max I
    have hp : (1 : Int) ≤ 10 ^ ds.length := by
      have : (1 : Nat) ≤ 10 ^ ds.length := Nat.one_le_pow _ _ (by decide)
      exact_mod_cast this
    have hv : (0 : Int) ≤ ((valOf ds : Nat) : Int) := Int.natCast_nonneg _
    have hd : (0 : Int) ≤ ((d - 48 : Nat) : Int) := Int.natCast_nonneg _
    rw [contains_iff] at hfin
    simp only [intFromAscii]
    have hns : (neg && !I.signed) = false := by
      cases hn : neg <;> cases hsg : I.signed <;> simp_all
    simp only [hns, Bool.false_eq_true, if_false]
    cases neg
    · -- non-negative accumulation
      simp only [Bool.false_eq_true, if_false] at hs hfin ⊢
      unfold finalVal sgnVal at hfin
      simp only [Bool.false_eq_true, if_false] at hfin
      have h1 : acc * 10 + ((d - 48 : Nat) : Int) ≤ (acc * 10 + ((d - 48 : Nat) : Int)) * 10 ^ ds.length := by
        nlinarith
      have hm : I.contains (acc * 10) = true := by rw [contains_iff]; constructor <;> omega
      have hv' : I.contains (acc * 10 + ((d - 48 : Nat) : Int)) = true := by rw [contains_iff]; constructor <;> omega
      simp only [hm, hv', Bool.not_true, Bool.false_eq_true, if_false]
      exact ih _ (by simp; omega) (by rw [contains_iff]; exact hfin)
    · simp only [if_true] at hs hfin ⊢
      unfold finalVal sgnVal at hfin
      simp only [if_true] at hfin
      have h1 : (acc * 10 - ((d - 48 : Nat) : Int)) * 10 ^ ds.length ≤ acc * 10 - ((d - 48 : Nat) : Int) := by
        nlinarith
      have hm : I.contains (acc * 10) = true := by rw [contains_iff]; constructor <;> omega
      have hv' : I.contains (acc * 10 - ((d - 48 : Nat) : Int)) = true := by rw [contains_iff]; constructor <;> omega
      simp only [hm, hv', Bool.not_true, Bool.false_eq_true, if_false]
      exact ih _ (by simp; omega) (by rw [contains_iff]; exact hfin)

end Decstr.Proofs
