import Decstr.Proofs.RneCorrect
import Mathlib.Algebra.Order.Field.Rat
import Mathlib.Algebra.Order.Ring.Abs
import Mathlib.Algebra.Order.Ring.Cast
import Mathlib.Tactic.FieldSimp
/-!
# Proofs.RneCorrectRat — the theorems of `Proofs.RneCorrect` restated over `ℚ`

`RneCorrect` states "nearest" by cross-multiplication (`err`, a natural number).  Here the same theorems are stated with
the value `valQ B bits = mantOf · 2^qexpOf : ℚ` (IEEE 754-2019 §3.4) and the ordinary distance `|num/den − valQ|`, so that
nothing about the cross-multiplication has to be trusted: `err_rat` is the bridge.
-/
namespace Decstr.Proofs.Rne
open Decstr.Spec Decstr.Proofs

/-- the rational value of a finite non-negative pattern -/
def valQ (B : BinFmt) (bits : Nat) : ℚ := (mantOf B bits : ℚ) * (2 : ℚ) ^ (qexpOf B bits)

/-- `err` is the distance between the rationals `num/den` and `valQ bits`, times the positive constant `den·2^shiftOf B` -/
theorem err_rat (B : BinFmt) (hb : 2 ≤ B.ebits) (num den bits : Nat) (hd : 0 < den) :
    ((err B num den bits : Nat) : ℚ) = |(num : ℚ) / den - valQ B bits| * (den * 2 ^ shiftOf B) := by
  rw [err_eq B hb]
  unfold valQ
  have hq : qexpOf B bits = ((fieldOf B bits - 1 : Nat) : Int) - (shiftOf B : Int) := by
    have := qexp_shift B hb bits; omega
  rw [hq, zpow_sub₀ (by norm_num), zpow_natCast, zpow_natCast]
  unfold valN
  have hden : (0 : ℚ) < den := by exact_mod_cast hd
  have hS : (0 : ℚ) < 2 ^ shiftOf B := by positivity
  have hpos : (0 : ℚ) ≤ den * 2 ^ shiftOf B := by positivity
  rw [Nat.cast_natAbs, Int.cast_abs, ← abs_of_nonneg hpos, ← abs_mul]
  congr 1
  push_cast
  field_simp

theorem scale_pos (B : BinFmt) (den : Nat) (hd : 0 < den) : (0 : ℚ) < (den : ℚ) * 2 ^ shiftOf B := by
  have hden : (0 : ℚ) < den := by exact_mod_cast hd
  positivity

theorem err_le_iff (B : BinFmt) (hb : 2 ≤ B.ebits) (num den x y : Nat) (hd : 0 < den) :
    err B num den x ≤ err B num den y ↔ |(num : ℚ) / den - valQ B x| ≤ |(num : ℚ) / den - valQ B y| := by
  rw [← Nat.cast_le (α := ℚ), err_rat B hb _ _ _ hd, err_rat B hb _ _ _ hd]
  exact mul_le_mul_iff_of_pos_right (scale_pos B den hd)

theorem err_eq_iff (B : BinFmt) (hb : 2 ≤ B.ebits) (num den x y : Nat) (hd : 0 < den) :
    err B num den x = err B num den y ↔ |(num : ℚ) / den - valQ B x| = |(num : ℚ) / den - valQ B y| := by
  rw [← Nat.cast_inj (R := ℚ), err_rat B hb _ _ _ hd, err_rat B hb _ _ _ hd]
  exact mul_left_inj' (ne_of_gt (scale_pos B den hd))

/-- 2 over `ℚ`: the answer of `rneRat` is a finite pattern whose value is nearest to `num/den` -/
theorem rneRat_nearest_rat (B : BinFmt) (hp : 1 ≤ B.prec) (hb : 2 ≤ B.ebits) (num den : Nat) (hn : 0 < num)
    (hd : 0 < den) (bits : Nat) (h : rneRat B num den = some bits) (b' : Nat) (hb' : b' < B.infBits) :
    |(num : ℚ) / den - valQ B bits| ≤ |(num : ℚ) / den - valQ B b'| :=
  (err_le_iff B hb num den bits b' hd).mp (rneRat_nearest B hp hb num den hn hd bits h b' hb')

/-- 3 over `ℚ`: ties go to the even pattern -/
theorem rneRat_tie_even_rat (B : BinFmt) (hp : 2 ≤ B.prec) (hb : 2 ≤ B.ebits) (num den : Nat) (hn : 0 < num)
    (hd : 0 < den) (bits : Nat) (h : rneRat B num den = some bits) (b' : Nat) (hb' : b' < B.infBits)
    (hne : b' ≠ bits) (he : |(num : ℚ) / den - valQ B b'| = |(num : ℚ) / den - valQ B bits|) : bits % 2 = 0 :=
  rneRat_tie_even B hp hb num den hn hd bits h b' hb' hne ((err_eq_iff B hb num den b' bits hd).mpr he)

/-- 4 over `ℚ`: overflow exactly from `(2^prec − 1/2)·2^(emax − prec + 1)` on, `emax = 2^(ebits−1) − 1` -/
theorem rneRat_overflow_rat (B : BinFmt) (hp : 1 ≤ B.prec) (hb : 2 ≤ B.ebits) (num den : Nat) (hn : 0 < num)
    (hd : 0 < den) :
    rneRat B num den = none ↔
      ((2 : ℚ) ^ B.prec - 1 / 2) * (2 : ℚ) ^ (((2 ^ (B.ebits - 1) - 1 : Nat) : Int) - B.prec + 1) ≤ (num : ℚ) / den := by
  rw [rneRat_overflow B hp hb num den hn hd, ← Nat.cast_le (α := ℚ)]
  have hden : (0 : ℚ) < den := by exact_mod_cast hd
  have h1 : 1 ≤ 2 ^ (B.prec + 1) := Nat.one_le_two_pow
  have hz : (2 : ℚ) ^ (((2 ^ (B.ebits - 1) - 1 : Nat) : Int) - B.prec + 1) =
      2 ^ (2 ^ (B.ebits - 1) - 1 : Nat) * 2 / 2 ^ B.prec := by
    rw [zpow_add₀ (by norm_num), zpow_sub₀ (by norm_num), zpow_natCast, zpow_natCast, zpow_one]
    ring
  rw [hz, le_div_iff₀ hden]
  generalize (2 ^ (B.ebits - 1) - 1 : Nat) = emax
  push_cast [Nat.cast_sub h1]
  have hP : (0 : ℚ) < 2 ^ B.prec := by positivity
  rw [show ((2 : ℚ) ^ B.prec - 1 / 2) * (2 ^ emax * 2 / 2 ^ B.prec) * (den : ℚ) =
      ((den : ℚ) * ((2 ^ (B.prec + 1) - 1) * 2 ^ emax)) / 2 ^ B.prec by rw [pow_succ]; field_simp,
    div_le_iff₀ hP]

/-- 5 over `ℚ`: the rounding is monotone -/
theorem rneRat_monotone_rat (B : BinFmt) (hp : 2 ≤ B.prec) (hb : 2 ≤ B.ebits) (a b c d : Nat) (ha : 0 < a)
    (hb0 : 0 < b) (hc : 0 < c) (hd : 0 < d) (h : (a : ℚ) / b ≤ (c : ℚ) / d) :
    optLe (rneRat B a b) (rneRat B c d) := by
  apply rneRat_monotone B hp hb a b c d ha hb0 hc hd
  have hb' : (0 : ℚ) < b := by exact_mod_cast hb0
  have hd' : (0 : ℚ) < d := by exact_mod_cast hd
  rw [div_le_div_iff₀ hb' hd'] at h
  exact_mod_cast h

/-- instances: `1/3` in binary32 (nearest), `2^24 + 1` (tie to even), `f32::MAX + ulp/2` (overflow) -/
example : ∀ b' < binary32.infBits, |(1 : ℚ) / 3 - valQ binary32 0x3eaaaaab| ≤ |(1 : ℚ) / 3 - valQ binary32 b'| := by
  intro b' h
  have := rneRat_nearest_rat binary32 (by decide) (by decide) 1 3 (by decide) (by decide) 0x3eaaaaab
    (by decide +kernel) b' h
  simpa using this
example : rneRat binary32 ((2 ^ 25 - 1) * 2 ^ 103) 1 = none :=
  (rneRat_overflow_rat binary32 (by decide) (by decide) _ 1 (by decide) (by decide)).mpr (by
    have : ((2 ^ (binary32.ebits - 1) - 1 : Nat) : Int) - binary32.prec + 1 = 104 := by decide
    rw [this]
    norm_num [binary32])

/-- the value map is strictly increasing (over `ℚ`) -/
theorem valQ_strictMono (B : BinFmt) (hb : 2 ≤ B.ebits) {b1 b2 : Nat} (h : b1 < b2) : valQ B b1 < valQ B b2 := by
  have key : ∀ b, valQ B b = (valN B b : ℚ) / 2 ^ shiftOf B := by
    intro b
    unfold valQ valN
    have hq : qexpOf B b = ((fieldOf B b - 1 : Nat) : Int) - (shiftOf B : Int) := by
      have := qexp_shift B hb b; omega
    rw [hq, zpow_sub₀ (by norm_num), zpow_natCast, zpow_natCast]
    push_cast; ring
  rw [key, key]
  have hS : (0 : ℚ) < 2 ^ shiftOf B := by positivity
  exact div_lt_div_of_pos_right (by exact_mod_cast val_strictMono B h) hS

/-- sanity: binary32 `0x3f800000 = 1`, `0x00000001 = 2^-149`, `0x7f7fffff = (2^24 − 1)·2^104`; binary64 `0x3ff8… = 1.5` -/
example : valQ binary32 0x3f800000 = 1 ∧ valQ binary32 0x00000001 = 1 / 2 ^ 149 ∧
    valQ binary32 0x7f7fffff = (2 ^ 24 - 1) * 2 ^ 104 ∧ valQ binary64 0x3ff8000000000000 = 3 / 2 := by
  have a1 : mantOf binary32 0x3f800000 = 2 ^ 23 ∧ qexpOf binary32 0x3f800000 = -23 := by decide
  have a2 : mantOf binary32 0x00000001 = 1 ∧ qexpOf binary32 0x00000001 = -149 := by decide
  have a3 : mantOf binary32 0x7f7fffff = 2 ^ 24 - 1 ∧ qexpOf binary32 0x7f7fffff = 104 := by decide
  have a4 : mantOf binary64 0x3ff8000000000000 = 3 * 2 ^ 51 ∧ qexpOf binary64 0x3ff8000000000000 = -52 := by
    decide +kernel
  unfold valQ
  rw [a1.1, a1.2, a2.1, a2.2, a3.1, a3.2, a4.1, a4.2]
  norm_num [zpow_neg]

end Decstr.Proofs.Rne

#print axioms Decstr.Proofs.Rne.err_rat
#print axioms Decstr.Proofs.Rne.rneRat_nearest_rat
#print axioms Decstr.Proofs.Rne.rneRat_tie_even_rat
#print axioms Decstr.Proofs.Rne.rneRat_overflow_rat
#print axioms Decstr.Proofs.Rne.rneRat_monotone_rat
#print axioms Decstr.Proofs.Rne.valQ_strictMono
