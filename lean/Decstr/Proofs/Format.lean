import Decstr.Proofs.ParseLemmas
/-!
# Proofs.Format — the formatter (`decimal_to_fmt`) against the numeral grammar (C02, side lemma of C03)

`fmtFinite`, `fmtNan` and the infinity text of `Model.Convert` produce texts which the reference recogniser
`Spec.parse` accepts and which denote exactly the sign, coefficient and exponent that were formatted.
Lists of ASCII digits only — no bits.  Core Lean only.
-/
set_option linter.unusedSimpArgs false
namespace Decstr.Proofs
open Decstr.Model Decstr.Spec

/-- the decoded digits of a width-`32n` decimal: the most significant digit and `3n−1` declets of three
    ASCII digits each -/
structure DigitsOK (n : Nat) (msd : Nat) (declets : List (List Nat)) : Prop where
  pos : 0 < n
  msd : 48 ≤ msd ∧ msd ≤ 57
  len : declets.length = 3 * n - 1
  each : ∀ d ∈ declets, d.length = 3 ∧ AsciiDigits d

/-! ## List helpers -/

theorem drop_takeWhile_length (p : Nat → Bool) (l : List Nat) : l.drop (l.takeWhile p).length = l.dropWhile p := by
  induction l with
  | nil => rfl
  | cons a l ih =>
    by_cases h : p a = true
    · simp [List.takeWhile_cons, List.dropWhile_cons, h, ih]
    · simp [List.takeWhile_cons, List.dropWhile_cons, h]

theorem takeWhile_length_add_dropWhile_length (p : Nat → Bool) (l : List Nat) :
    (l.takeWhile p).length + (l.dropWhile p).length = l.length := by
  rw [← List.length_append, List.takeWhile_append_dropWhile]

theorem dropWhile_append_of_ne_nil (p : Nat → Bool) (l r : List Nat) (h : l.dropWhile p ≠ []) :
    (l ++ r).dropWhile p = l.dropWhile p ++ r := by
  induction l with
  | nil => exact absurd rfl h
  | cons a l ih =>
    by_cases hp : p a = true
    · simp only [List.cons_append, List.dropWhile_cons, hp, if_true] at h ⊢
      exact ih h
    · simp [List.dropWhile_cons, hp]

theorem flatten_length_three (dl : List (List Nat)) (h : ∀ d ∈ dl, d.length = 3) : dl.flatten.length = 3 * dl.length := by
  induction dl with
  | nil => rfl
  | cons d dl ih =>
    have h1 := h d (by simp)
    have h2 := ih (fun x hx => h x (by simp [hx]))
    simp only [List.flatten_cons, List.length_append, List.length_cons, h1, h2]
    omega

theorem dropWhile_ne_nil_of_three (d : List Nat) (h3 : d.length = 3) (hne : d ≠ [48, 48, 48]) :
    d.dropWhile (· == 48) ≠ [] := by
  match d, h3 with
  | [a, b, c], _ =>
    by_cases ha : a = 48
    · by_cases hb : b = 48
      · by_cases hc : c = 48
        · subst ha hb hc; exact absurd rfl hne
        · simp [List.dropWhile_cons, ha, hb, hc]
      · simp [List.dropWhile_cons, ha, hb]
    · simp [List.dropWhile_cons, ha]

/-! ## `skip_leading_zeroes` -/

/-- what the rest of the formatter needs to know about the result of `skipLeadingZeroes`: `S` is the digit
    string from the first non-zero digit on -/
structure SkipOK (n : Nat) (S : List Nat) (lz : LeadingZeroes) (rest : List (List Nat)) : Prop where
  body : lz.partialDeclet.getD [] ++ rest.flatten = S
  count : lz.skipped + S.length = 9 * n
  none_rest : lz.partialDeclet = none → rest = []
  some_ne : ∀ ds, lz.partialDeclet = some ds → ds ≠ []
  rest3 : ∀ d ∈ rest, d.length = 3

theorem skip_go_spec (dl : List (List Nat)) (h3 : ∀ d ∈ dl, d.length = 3) (k : Nat) :
    ((skipLeadingZeroes.go k dl).1.partialDeclet.getD [] ++ (skipLeadingZeroes.go k dl).2.flatten
        = dl.flatten.dropWhile (· == 48)) ∧
    ((skipLeadingZeroes.go k dl).1.skipped + (dl.flatten.dropWhile (· == 48)).length = k + dl.flatten.length) ∧
    ((skipLeadingZeroes.go k dl).1.partialDeclet = none → (skipLeadingZeroes.go k dl).2 = []) ∧
    (∀ ds, (skipLeadingZeroes.go k dl).1.partialDeclet = some ds → ds ≠ []) ∧
    (∀ d ∈ (skipLeadingZeroes.go k dl).2, d.length = 3) := by
  induction dl generalizing k with
  | nil => simp [skipLeadingZeroes.go]
  | cons d rest ih =>
    have hd3 := h3 d (by simp)
    have hrest : ∀ x ∈ rest, x.length = 3 := fun x hx => h3 x (by simp [hx])
    by_cases hz : d = [48, 48, 48]
    · subst hz
      have := ih hrest (k + 3)
      simp only [skipLeadingZeroes.go, if_true, List.flatten_cons, List.cons_append, List.nil_append,
        List.dropWhile_cons, beq_self_eq_true, List.length_cons]
      refine ⟨this.1, ?_, this.2.2.1, this.2.2.2.1, this.2.2.2.2⟩
      have := this.2.1
      omega
    · have hne := dropWhile_ne_nil_of_three d hd3 hz
      have hlen := takeWhile_length_add_dropWhile_length (· == 48) d
      simp only [skipLeadingZeroes.go, hz, if_false, List.flatten_cons, Option.getD_some,
        drop_takeWhile_length, dropWhile_append_of_ne_nil _ d rest.flatten hne, List.length_append]
      refine ⟨trivial, by omega, by simp, ?_, hrest⟩
      intro ds e; injection e with e; subst e; exact hne

theorem skip_spec (n msd : Nat) (declets : List (List Nat)) (h : DigitsOK n msd declets) :
    SkipOK n ((msd :: declets.flatten).dropWhile (· == 48))
      (skipLeadingZeroes msd declets).1 (skipLeadingZeroes msd declets).2 := by
  have h3 : ∀ d ∈ declets, d.length = 3 := fun d hd => (h.each d hd).1
  have hfl : declets.flatten.length = 3 * (3 * n - 1) := by rw [flatten_length_three _ h3, h.len]
  have hn := h.pos
  by_cases hm : msd = 48
  · subst hm
    have hg := skip_go_spec declets h3 3
    have e : skipLeadingZeroes 48 declets = skipLeadingZeroes.go 3 declets := by
      simp [skipLeadingZeroes]
    rw [e]
    simp only [List.dropWhile_cons, beq_self_eq_true, if_true]
    exact ⟨hg.1, by have := hg.2.1; omega, hg.2.2.1, hg.2.2.2.1, hg.2.2.2.2⟩
  · have e : skipLeadingZeroes msd declets = (⟨2, some [msd]⟩, declets) := by
      simp [skipLeadingZeroes, hm]
    rw [e]
    have hb : (msd == 48) = false := by simp [hm]
    simp only [List.dropWhile_cons, hb, Bool.false_eq_true, if_false]
    refine ⟨rfl, by simp only [List.length_cons]; omega, by simp, by simp, h3⟩

/-- the stripped digit string: ASCII digits, same value, at most `9n−2` of them -/
theorem stripped_facts (n msd : Nat) (declets : List (List Nat)) (h : DigitsOK n msd declets) :
    AsciiDigits ((msd :: declets.flatten).dropWhile (· == 48)) ∧
    valOf ((msd :: declets.flatten).dropWhile (· == 48)) = valOf (msd :: declets.flatten) ∧
    ((msd :: declets.flatten).dropWhile (· == 48)).length ≤ 9 * n - 2 := by
  have h3 : ∀ d ∈ declets, d.length = 3 := fun d hd => (h.each d hd).1
  have hfl : declets.flatten.length = 3 * (3 * n - 1) := by rw [flatten_length_three _ h3, h.len]
  have hn := h.pos
  have hall : AsciiDigits (msd :: declets.flatten) :=
    asciiDigits_cons.mpr ⟨h.msd, asciiDigits_flatten (fun d hd => (h.each d hd).2)⟩
  refine ⟨hall.dropWhile _, valOf_dropWhile_zero _, ?_⟩
  have := (List.dropWhile_sublist (· == 48) (l := msd :: declets.flatten)).length_le
  simp only [List.length_cons] at this
  omega

/-! ## `write_decimal_digits` in a loop -/

theorem writeWithPoint_true (total : Nat) (groups : List (List Nat)) (w : Nat) :
    writeWithPoint total groups w true = groups.flatten := by
  induction groups generalizing w with
  | nil => rfl
  | cons d rest ih => simp [writeWithPoint, ih]

theorem writeWithPoint_false (total : Nat) (groups : List (List Nat)) (w : Nat) (hw : w ≤ total) :
    writeWithPoint total groups w false =
      if w + groups.flatten.length ≤ total then groups.flatten
      else groups.flatten.take (total - w) ++ 46 :: groups.flatten.drop (total - w) := by
  induction groups generalizing w with
  | nil => simp [writeWithPoint, hw]
  | cons d rest ih =>
    simp only [writeWithPoint, writeDecimalDigits, Bool.false_eq_true, if_false, List.flatten_cons,
      List.length_append]
    by_cases h1 : w + d.length ≤ total
    · simp only [h1, if_true]
      rw [ih (w + d.length) h1]
      by_cases h2 : w + d.length + rest.flatten.length ≤ total
      · have h2' : w + (d.length + rest.flatten.length) ≤ total := by omega
        simp only [h2, h2', if_true]
      · have h2' : ¬ w + (d.length + rest.flatten.length) ≤ total := by omega
        simp only [h2, h2', if_false]
        rw [List.take_append, List.drop_append]
        have e1 : d.take (total - w) = d := List.take_of_length_le (by omega)
        have e2 : d.drop (total - w) = [] := List.drop_of_length_le (by omega)
        have e3 : total - w - d.length = total - (w + d.length) := by omega
        simp [e1, e2, e3]
    · have h2' : ¬ w + (d.length + rest.flatten.length) ≤ total := by omega
      simp only [h1, h2', if_false]
      by_cases h3 : w = total
      · subst h3
        simp [writeWithPoint_true]
      · simp only [h3, if_false, writeWithPoint_true]
        rw [List.take_append, List.drop_append]
        have e1 : total - w - d.length = 0 := by omega
        simp [e1]

/-! ## The layouts as explicit texts -/

theorem writeAllAsInteger_eq {n : Nat} {S : List Nat} {lz : LeadingZeroes} {rest : List (List Nat)}
    (h : SkipOK n S lz rest) (written : Nat) :
    writeAllAsInteger lz rest written = if written + S.length = 0 then [48] else S := by
  simp only [writeAllAsInteger, h.body]

theorem groups_flatten {n : Nat} {S : List Nat} {lz : LeadingZeroes} {rest : List (List Nat)}
    (h : SkipOK n S lz rest) :
    ((match lz.partialDeclet with | some d => [d] | none => []) ++ rest).flatten = S := by
  rw [← h.body]
  cases lz.partialDeclet <;> simp

/-- the digits part of the scientific layout: `0`, `d`, or `d.ddd` -/
def sciBody (S : List Nat) : List Nat :=
  if S = [] then [48] else if S.length = 1 then S else S.take 1 ++ 46 :: S.drop 1

theorem writeAllAsScientific_eq {n : Nat} {S : List Nat} {lz : LeadingZeroes} {rest : List (List Nat)}
    (h : SkipOK n S lz rest) (T : Ty) (e : Int) :
    writeAllAsScientific T lz rest e = sciBody S ++ 101 :: toDecimal (T.raise e (S.length - 1)) := by
  obtain ⟨sk, pd⟩ := lz
  cases pd with
  | none =>
    have hr : rest = [] := h.none_rest rfl
    subst hr
    have hS : S = [] := by rw [← h.body]; rfl
    subst hS
    simp [writeAllAsScientific, sciBody, intToAscii]
  | some ds =>
    have hne : ds ≠ [] := h.some_ne ds rfl
    have hb : ds ++ rest.flatten = S := h.body
    have hSne : S ≠ [] := by rw [← hb]; simp [hne]
    by_cases h1 : ds.length ≤ 1
    · -- a single digit in the partial declet: the point comes with the next declet
      obtain ⟨a, rfl⟩ : ∃ a, ds = [a] := by
        match ds, hne, h1 with
        | [a], _, _ => exact ⟨a, rfl⟩
      cases rest with
      | nil =>
        have hS : S = [a] := by rw [← hb]; rfl
        subst hS
        simp [writeAllAsScientific, writeDecimalDigits, sciBody, intToAscii]
      | cons d rest' =>
        have hd3 : d.length = 3 := h.rest3 d (by simp)
        have hS : S = a :: (d ++ rest'.flatten) := by rw [← hb]; rfl
        subst hS
        have hlen : (a :: (d ++ rest'.flatten)).length ≠ 1 := by simp [hd3]
        have hw : 0 + [a].length + 3 + rest'.flatten.length - 1 = (a :: (d ++ rest'.flatten)).length - 1 := by
          simp [hd3] <;> omega
        simp only [writeAllAsScientific, writeDecimalDigits, sciBody, intToAscii, hSne, hlen, if_false]
        simp only [List.length_cons, List.length_nil, Nat.zero_add, Nat.le_refl, if_true, Bool.false_eq_true,
          if_false] at hw ⊢
        have hz : ¬ (1 + 3 + rest'.flatten.length = 0) := by omega
        simp only [hz, if_false, hw]
        simp
    · -- at least two digits: the point goes after the first
      have h0 : ¬ (0 + ds.length ≤ 1) := by omega
      have hlen : S.length ≠ 1 := by rw [← hb, List.length_append]; omega
      have hz : ¬ (0 + ds.length + rest.flatten.length = 0) := by omega
      have hl : 0 + ds.length + rest.flatten.length = S.length := by rw [← hb, List.length_append]; omega
      simp only [writeAllAsScientific, writeDecimalDigits, sciBody, intToAscii, hSne, hlen, if_false, h0,
        show ¬ (0 = 1) by omega, if_true, hz, hl]
      rw [← hb, List.take_append, List.drop_append]
      have e1 : 1 - ds.length = 0 := by omega
      simp [e1, hne]

/-! ## Texts that are good numerals -/

/-- the text (after the sign) is a numeral denoting `(neg, c, q)` with at most `P` written digits and a
    proper scientific layout -/
def Good (neg : Bool) (c : Nat) (q : Int) (P : Nat) (text : List Nat) : Prop :=
  ∃ num, parse (signText neg ++ text) = some num ∧ num.datum = .fin neg c q ∧ layoutOk num = true ∧
    num.digitCount ≤ P

theorem good_int (neg : Bool) {i : List Nat} (hi : AsciiDigits i) (hine : i ≠ []) (P : Nat) (hP : i.length ≤ P) :
    Good neg (valOf i) 0 P i := by
  refine ⟨_, parse_int neg hi hine, ?_, rfl, ?_⟩
  · have := datum_plain neg i []
    simpa using this
  · simpa [Numeral.digitCount] using hP

theorem good_frac (neg : Bool) {i f : List Nat} (hi : AsciiDigits i) (hine : i ≠ [])
    (hf : AsciiDigits f) (hfne : f ≠ []) (P : Nat) (hP : i.length + f.length ≤ P) :
    Good neg (valOf (i ++ f)) (-(f.length : Int)) P (i ++ 46 :: f) := by
  refine ⟨_, parse_frac neg hi hine hf hfne, ?_, rfl, ?_⟩
  · have := datum_plain neg i f
    simpa using this
  · simpa [Numeral.digitCount] using hP

theorem good_sci_int (neg : Bool) {i : List Nat} (hi : AsciiDigits i) (h1 : i.length = 1) (x : Int)
    (P : Nat) (hP : 1 ≤ P) :
    Good neg (valOf i) x P (i ++ 101 :: toDecimal x) := by
  have hine : i ≠ [] := by intro e; subst e; simp at h1
  refine ⟨_, parse_sci_int neg hi hine x, ?_, ?_, ?_⟩
  · have := datum_sci neg i [] x
    simpa using this
  · simp [layoutOk, h1]
  · simpa [Numeral.digitCount, h1] using hP

theorem good_sci_frac (neg : Bool) {i f : List Nat} (hi : AsciiDigits i) (hine : i ≠ [])
    (hf : AsciiDigits f) (hfne : f ≠ []) (x : Int) (P : Nat) (hP : i.length + f.length ≤ P) :
    Good neg (valOf (i ++ f)) (x - f.length) P (i ++ 46 :: (f ++ 101 :: toDecimal x)) := by
  refine ⟨_, parse_sci_frac neg hi hine hf hfne x, datum_sci neg i f x, ?_, ?_⟩
  · have : (digitVals f).isEmpty = false := by
      cases f with
      | nil => exact absurd rfl hfne
      | cons a l => rfl
    simp [layoutOk, this]
  · simpa [Numeral.digitCount] using hP

theorem Good.congr {neg : Bool} {c c' : Nat} {q q' : Int} {P : Nat} {t t' : List Nat}
    (h : Good neg c q P t) (hc : c = c') (hq : q = q') (ht : t = t') : Good neg c' q' P t' := by
  subst hc hq ht; exact h

/-! ## The exponent arithmetic does not saturate -/

theorem satI32_id (x : Int) (h1 : -2147483648 ≤ x) (h2 : x ≤ 2147483647) : satI32 x = x := by
  have e1 : i32Min = -2147483648 := rfl
  have e2 : i32Max = 2147483647 := rfl
  unfold satI32
  split
  · omega
  · split
    · omega
    · rfl

theorem raise_eq (T : Ty) (e : Int) (by_ : Nat)
    (hT : T.expIsI32 = true → (-(2:Int)^30 ≤ e ∧ e ≤ 2^30 ∧ by_ ≤ 9 * 2^20)) : T.raise e by_ = e + by_ := by
  unfold Ty.raise
  cases hI : T.expIsI32 with
  | false => simp
  | true =>
    obtain ⟨h1, h2, h3⟩ := hT hI
    have e30 : (2:Int)^30 = 1073741824 := by decide
    rw [e30] at h1 h2
    have h3' : by_ ≤ 9437184 := h3
    simp only [if_true]
    exact satI32_id _ (by omega) (by omega)

/-! ## The scientific layout -/

theorem sci_good (neg : Bool) {S : List Nat} (hSa : AsciiDigits S) (P : Nat) (hP : S.length ≤ P) (hP1 : 1 ≤ P)
    (T : Ty) (e : Int) (hT : T.expIsI32 = true → (-(2:Int)^30 ≤ e ∧ e ≤ 2^30 ∧ S.length - 1 ≤ 9 * 2^20)) :
    Good neg (valOf S) e P (sciBody S ++ 101 :: toDecimal (T.raise e (S.length - 1))) := by
  rw [raise_eq T e _ hT]
  unfold sciBody
  by_cases h0 : S = []
  · subst h0
    have := good_sci_int neg (i := [48]) (by intro d hd; simp at hd; omega) rfl e P hP1
    exact this.congr rfl rfl (by simp)
  · by_cases h1 : S.length = 1
    · have := good_sci_int neg hSa h1 e P hP1
      exact this.congr rfl rfl (by simp [h0, h1])
    · have hlen : 2 ≤ S.length := by
        have : S.length ≠ 0 := by intro h; exact h0 (List.length_eq_zero_iff.mp h)
        omega
      have hi : (S.take 1) ≠ [] := by
        match S, hlen with
        | a :: b :: l, _ => simp
      have hf : (S.drop 1) ≠ [] := by
        match S, hlen with
        | a :: b :: l, _ => simp
      have := good_sci_frac neg (hSa.take 1) hi (hSa.drop 1) hf (e + ((S.length - 1 : Nat) : Int)) P
        (by rw [List.length_take, List.length_drop]; omega)
      refine this.congr (by rw [List.take_append_drop]) ?_ (by simp [h0, h1])
      rw [List.length_drop]; omega

/-! ## The finite arm -/

/-- `fmtFinite` with the result of `skipLeadingZeroes` made a parameter -/
def fmtCore (T : Ty) (precision : Nat) (lz : LeadingZeroes) (rest : List (List Nat)) (exponent : Int) : List Nat :=
  let inI32 : Bool := T.expIsI32 || (decide (i32Min ≤ exponent) && decide (exponent ≤ i32Max))
  if exponent = 0 then writeAllAsInteger lz rest 0
  else if exponent < 0 ∧ inI32 = true then
    let nonZero : Int := ((precision + 2 : Nat) : Int) - lz.skipped
    let integerDigits := nonZero + exponent
    if integerDigits > 0 then
      let groups := (match lz.partialDeclet with | some d => [d] | none => []) ++ rest
      writeWithPoint integerDigits.toNat groups 0 false
    else
      let leadingZeroes := integerDigits.natAbs
      if leadingZeroes + 2 ≤ 7 ∧ 1 + leadingZeroes + nonZero.toNat ≤ precision then
        [48, 46] ++ List.replicate leadingZeroes 48 ++ writeAllAsInteger lz rest leadingZeroes
      else writeAllAsScientific T lz rest exponent
  else writeAllAsScientific T lz rest exponent

theorem fmtFinite_eq_core (T : Ty) (precision msd : Nat) (declets : List (List Nat)) (exponent : Int) :
    fmtFinite T precision msd declets exponent =
      fmtCore T precision (skipLeadingZeroes msd declets).1 (skipLeadingZeroes msd declets).2 exponent := by
  unfold fmtFinite fmtCore
  cases skipLeadingZeroes msd declets with
  | mk lz rest => rfl

theorem fmtCore_good {n : Nat} {S : List Nat} {lz : LeadingZeroes} {rest : List (List Nat)}
    (hsk : SkipOK n S lz rest) (hn : 0 < n) (hSa : AsciiDigits S) (hSl : S.length ≤ 9 * n - 2)
    (T : Ty) (e : Int) (hT : T.expIsI32 = true → (-(2:Int)^30 ≤ e ∧ e ≤ 2^30 ∧ n ≤ 2^20)) (neg : Bool) :
    Good neg (valOf S) e (9 * n - 2) (fmtCore T (9 * n - 2) lz rest e) := by
  have hP1 : 1 ≤ 9 * n - 2 := by omega
  have hT' : T.expIsI32 = true → (-(2:Int)^30 ≤ e ∧ e ≤ 2^30 ∧ S.length - 1 ≤ 9 * 2^20) := by
    intro h; obtain ⟨h1, h2, h3⟩ := hT h; exact ⟨h1, h2, by omega⟩
  have hsci := sci_good neg hSa (9 * n - 2) hSl hP1 T e hT'
  have hnz : (((9 * n - 2 + 2 : Nat) : Int) - (lz.skipped : Int)) = (S.length : Int) := by
    have := hsk.count; omega
  unfold fmtCore
  simp only [hnz, writeAllAsInteger_eq hsk, writeAllAsScientific_eq hsk, Int.toNat_natCast]
  by_cases he0 : e = 0
  · -- integer layout
    subst he0
    simp only [if_true, Nat.zero_add]
    by_cases hS : S.length = 0
    · have hS' : S = [] := List.length_eq_zero_iff.mp hS
      subst hS'
      have := good_int neg (i := [48]) (by intro d hd; simp at hd; omega) (by simp) (9 * n - 2) hP1
      exact this.congr rfl rfl (by simp)
    · have hne : S ≠ [] := by intro h; subst h; exact hS rfl
      have := good_int neg hSa hne (9 * n - 2) hSl
      exact this.congr rfl rfl (by simp [hS])
  · simp only [he0, if_false]
    split
    · rename_i hneg
      have hlt : e < 0 := hneg.1
      split
      · -- ddd.ddd
        rename_i hpos
        have hk1 : 0 < ((S.length : Int) + e).toNat := by omega
        have hk2 : ((S.length : Int) + e).toNat < S.length := by omega
        rw [writeWithPoint_false _ _ _ (Nat.zero_le _), groups_flatten hsk]
        have hc : ¬ (0 + S.length ≤ ((S.length : Int) + e).toNat) := by omega
        simp only [hc, if_false, Nat.sub_zero]
        have hi : S.take ((S.length : Int) + e).toNat ≠ [] := by
          intro h; have := congrArg List.length h
          rw [List.length_take] at this; simp only [List.length_nil] at this; omega
        have hf : S.drop ((S.length : Int) + e).toNat ≠ [] := by
          intro h; have := congrArg List.length h
          rw [List.length_drop] at this; simp only [List.length_nil] at this; omega
        have := good_frac neg (hSa.take _) hi (hSa.drop _) hf (9 * n - 2)
          (by rw [List.length_take, List.length_drop]; omega)
        refine this.congr (by rw [List.take_append_drop]) ?_ rfl
        rw [List.length_drop]; omega
      · rename_i hnpos
        split
        · -- 0.000ddd
          rename_i hcond
          have hL : ((S.length : Int) + e).natAbs + S.length ≠ 0 := by omega
          simp only [hL, if_false]
          have hfa : AsciiDigits (List.replicate ((S.length : Int) + e).natAbs 48 ++ S) :=
            asciiDigits_append.mpr ⟨asciiDigits_replicate_zero _, hSa⟩
          have hfl : (List.replicate ((S.length : Int) + e).natAbs 48 ++ S).length =
              ((S.length : Int) + e).natAbs + S.length := by simp
          have hfne : List.replicate ((S.length : Int) + e).natAbs 48 ++ S ≠ [] := by
            intro h; have := congrArg List.length h; rw [hfl] at this; exact hL this
          have := good_frac neg (i := [48]) (by intro d hd; simp at hd; omega) (by simp) hfa hfne (9 * n - 2)
            (by rw [hfl]; simp only [List.length_cons, List.length_nil]; omega)
          refine this.congr ?_ ?_ (by simp)
          · rw [show [48] ++ (List.replicate ((S.length : Int) + e).natAbs 48 ++ S) =
              48 :: (List.replicate ((S.length : Int) + e).natAbs 48 ++ S) from rfl,
              valOf_zero_cons, valOf_replicate_zero_append]
          · rw [hfl]; omega
        · exact hsci
    · exact hsci

/-- **C02, finite arm, with the digit count.** -/
theorem fmtFinite_good (T : Ty) (n : Nat) (msd : Nat) (declets : List (List Nat)) (h : DigitsOK n msd declets)
    (exponent : Int) (hT : T.expIsI32 = true → (-(2:Int)^30 ≤ exponent ∧ exponent ≤ 2^30 ∧ n ≤ 2^20)) (neg : Bool) :
    Good neg (valOf (msd :: declets.flatten)) exponent (9 * n - 2) (fmtFinite T (9 * n - 2) msd declets exponent) := by
  obtain ⟨hSa, hSv, hSl⟩ := stripped_facts n msd declets h
  rw [fmtFinite_eq_core, ← hSv]
  exact fmtCore_good (skip_spec n msd declets h) h.pos hSa hSl T exponent hT neg

/-- **C02 (finite).** The text is a numeral of the grammar denoting exactly (sign, coefficient, exponent);
    scientific output with more than one digit has a decimal point; the printed exponent is adjusted by exactly
    the digits after the point (that is what "denotes" says). -/
theorem fmtFinite_spec (T : Ty) (n : Nat) (msd : Nat) (declets : List (List Nat)) (h : DigitsOK n msd declets)
    (exponent : Int) (hT : T.expIsI32 = true → (-(2:Int)^30 ≤ exponent ∧ exponent ≤ 2^30 ∧ n ≤ 2^20)) (neg : Bool) :
    ∃ num, parse (signText neg ++ fmtFinite T (9 * n - 2) msd declets exponent) = some num ∧
           num.datum = .fin neg (valOf (msd :: declets.flatten)) exponent ∧ layoutOk num = true := by
  obtain ⟨num, h1, h2, h3, _⟩ := fmtFinite_good T n msd declets h exponent hT neg
  exact ⟨num, h1, h2, h3⟩

/-- **Side lemma for C03.** The text never has more written digits than the precision, so the same width
    can always read it back. -/
theorem fmtFinite_digitCount (T : Ty) (n : Nat) (msd : Nat) (declets : List (List Nat)) (h : DigitsOK n msd declets)
    (exponent : Int) (hT : T.expIsI32 = true → (-(2:Int)^30 ≤ exponent ∧ exponent ≤ 2^30 ∧ n ≤ 2^20)) (neg : Bool)
    (num : Numeral) (hnum : parse (signText neg ++ fmtFinite T (9 * n - 2) msd declets exponent) = some num) :
    num.digitCount ≤ 9 * n - 2 := by
  obtain ⟨num', h1, _, _, h4⟩ := fmtFinite_good T n msd declets h exponent hT neg
  rw [h1] at hnum; injection hnum with hnum; subst hnum; exact h4

/-! ## NaN and infinity -/

/-- **C02 (NaN).** `[-][s]nan` or `[-][s]nan(payload)`: the keyword says quiet/signaling, the payload is the
    trailing digits' value, and no more than the `9n−3` trailing digits are written. -/
theorem fmtNan_spec (n : Nat) (declets : List (List Nat)) (hlen : declets.length = 3 * n - 1)
    (heach : ∀ d ∈ declets, d.length = 3 ∧ AsciiDigits d) (quiet neg : Bool) :
    ∃ num, parse (signText neg ++ fmtNan quiet declets) = some num ∧
           num.datum = .nan neg (!quiet) (valOf declets.flatten) ∧ num.digitCount ≤ 9 * n - 3 := by
  have h3 : ∀ d ∈ declets, d.length = 3 := fun d hd => (heach d hd).1
  have hfl : declets.flatten.length = 3 * (3 * n - 1) := by rw [flatten_length_three _ h3, hlen]
  have hall : AsciiDigits declets.flatten := asciiDigits_flatten (fun d hd => (heach d hd).2)
  unfold fmtNan
  by_cases hp : declets.flatten.dropWhile (· == 48) = []
  · refine ⟨.nan neg (!quiet) none, ?_, ?_, ?_⟩
    · simp only [hp, List.isEmpty_nil, if_true, List.append_nil]
      exact parse_nan_bare neg quiet
    · simp [Numeral.datum, valOf_eq_zero_of_dropWhile_nil _ hp]
    · simp [Numeral.digitCount]
  · have hpe : (declets.flatten.dropWhile (· == 48)).isEmpty = false := by
      cases h : declets.flatten.dropWhile (· == 48) with
      | nil => exact absurd h hp
      | cons a l => rfl
    refine ⟨.nan neg (!quiet) (some (digitVals (declets.flatten.dropWhile (· == 48)))), ?_, ?_, ?_⟩
    · simp only [hpe, Bool.false_eq_true, if_false]
      exact parse_nan_payload neg quiet (hall.dropWhile _)
    · have := valOf_dropWhile_zero declets.flatten
      simp only [Numeral.datum, Option.getD_some]
      unfold valOf at this
      rw [this]; rfl
    · have := (List.dropWhile_sublist (· == 48) (l := declets.flatten)).length_le
      simp only [Numeral.digitCount, Option.getD_some, digitVals_length]
      omega

/-- **C02 (infinity).** -/
theorem fmtInf_spec (neg : Bool) : parse (signText neg ++ [105, 110, 102]) = some (.inf neg) := parse_inf neg

/-! ## Glue: `toText` is the sign followed by one of the three arms -/

theorem toText_finite (T : Ty) (b : Buf) (hfin : isFinite b = true) :
    toText T b = signText (isSignNegative b) ++
      fmtFinite T b.precision ((unbiasedExponent b).2 + 48) (decodeDeclets b) (unbiasedExponent b).1 := by
  simp only [toText, hfin, if_true, signText]

theorem toText_infinite (T : Ty) (b : Buf) (hfin : isFinite b = false) (hinf : isInfinite b = true) :
    toText T b = signText (isSignNegative b) ++ [105, 110, 102] := by
  simp only [toText, hfin, hinf, if_true, signText, Bool.false_eq_true, if_false]

theorem toText_nan (T : Ty) (b : Buf) (hfin : isFinite b = false) (hinf : isInfinite b = false) :
    toText T b = signText (isSignNegative b) ++ fmtNan (isQuietNan b) (decodeDeclets b) := by
  simp only [toText, hfin, hinf, signText, Bool.false_eq_true, if_false]

/-! ## The hypotheses are satisfiable: concrete instances -/

/-- decimal32 digits `1 234 567` -/
example : DigitsOK 1 49 [[50, 51, 52], [53, 54, 55]] :=
  ⟨by decide, by decide, rfl, by simp [AsciiDigits]⟩

/-- `1234567 · 10^-3` in decimal32 prints as `1234.567`, and the theorem applies to it -/
example : fmtFinite .b32 7 49 [[50, 51, 52], [53, 54, 55]] (-3) = [49, 50, 51, 52, 46, 53, 54, 55] := by decide
example : ∃ num, parse (signText true ++ fmtFinite .b32 (9 * 1 - 2) 49 [[50, 51, 52], [53, 54, 55]] (-3)) = some num ∧
    num.datum = .fin true 1234567 (-3) ∧ layoutOk num = true :=
  fmtFinite_spec .b32 1 49 [[50, 51, 52], [53, 54, 55]] ⟨by decide, by decide, rfl, by simp [AsciiDigits]⟩ (-3)
    (by intro _; decide) true

/-- leading zeros and a large exponent: `0 001 200 · 10^90` prints as `1.200e93` -/
example : fmtFinite .b32 7 48 [[48, 48, 49], [50, 48, 48]] 90 = [49, 46, 50, 48, 48, 101, 57, 51] := by decide
example : ∀ num, parse (signText false ++ fmtFinite .b32 (9 * 1 - 2) 48 [[48, 48, 49], [50, 48, 48]] 90) = some num →
    num.digitCount ≤ 9 * 1 - 2 :=
  fmtFinite_digitCount .b32 1 48 [[48, 48, 49], [50, 48, 48]] ⟨by decide, by decide, rfl, by simp [AsciiDigits]⟩ 90
    (by intro _; decide) false

/-- a signaling NaN with payload 42 -/
example : fmtNan false [[48, 48, 48], [48, 52, 50]] = [115, 110, 97, 110, 40, 52, 50, 41] := by decide
example : ∃ num, parse (signText false ++ fmtNan false [[48, 48, 48], [48, 52, 50]]) = some num ∧
    num.datum = .nan false true 42 ∧ num.digitCount ≤ 9 * 1 - 3 :=
  fmtNan_spec 1 [[48, 48, 48], [48, 52, 50]] rfl (by simp [AsciiDigits]) false false

end Decstr.Proofs

#print axioms Decstr.Proofs.fmtFinite_good
#print axioms Decstr.Proofs.fmtFinite_spec
#print axioms Decstr.Proofs.fmtFinite_digitCount
#print axioms Decstr.Proofs.fmtNan_spec
#print axioms Decstr.Proofs.fmtInf_spec
