import Decstr.Model.ExecConvert
import Decstr.Proofs.ExecSig
import Decstr.Proofs.ExecComb
import Decstr.Proofs.StreamBuf
import Decstr.Props.C07
import Decstr.Proofs.Encode
/-!
# Proofs.ExecParsed — `decimal_from_parsed`: for a parse result whose ranges lie inside the text and cover digit strings
(`ParsedOK`: what the parsers guarantee), no panic site is reachable in either profile and the bytes are the pure model's.
No condition on the magnitude of the exponent or the number of digits: the allocation test guards the encoders.
-/
namespace Decstr.Proofs.Exec
open Decstr.Model Decstr.Model.Exec Decstr.Spec Decstr.Proofs Decstr.Proofs.EncodeAux

/-- the range is a valid slice of a non-empty run of ASCII digits -/
def DigitsNE (l : List Nat) (r : Range) : Prop :=
  r.start < r.stop ∧ r.stop ≤ l.length ∧ AsciiDigits (slice l r)

/-- what `decimal_from_parsed` needs of a parse result: every range it slices is inside the text, the integer,
    fractional and exponent digit runs are non-empty ASCII digits, a non-empty NaN payload is ASCII digits -/
def ParsedOK : Parsed → Prop
  | .finite f =>
      (match f.sig.point with
       | some pt => DigitsNE f.buf.ascii ⟨f.sig.range.start, pt.start⟩ ∧ DigitsNE f.buf.ascii ⟨pt.stop, f.sig.range.stop⟩
       | none => DigitsNE f.buf.ascii f.sig.range) ∧
      (∀ e, f.exp = some e → DigitsNE f.buf.ascii e.range)
  | .infinity _ => True
  | .nan n => ∀ s, n.payload = some s → s.range.stop > s.range.start → DigitsNE n.buf.ascii s.range

theorem sliceC_eq (site : String) (l : List Nat) (r : Range) (h1 : r.start ≤ r.stop) (h2 : r.stop ≤ l.length) :
    sliceC site l r = .ok (slice l r) := by
  simp [sliceC, h1, h2]

theorem DigitsNE.slice_ne {l : List Nat} {r : Range} (h : DigitsNE l r) : slice l r ≠ [] := by
  intro he
  have := congrArg List.length he
  rw [slice_length l r h.2.1] at this
  simp at this
  have := h.1
  omega

/-! ## the exponent text -/

theorem i32FromAsciiC_eq (c : Bool) (neg : Bool) (ds : List Nat) (hds : AsciiDigits ds) (acc : Int) :
    i32FromAsciiC c neg ds acc = .ok (i32FromAscii neg ds acc) := by
  induction ds generalizing acc with
  | nil => rfl
  | cons d ds ih =>
    have hd := (hds d (by simp)).1
    have hds' : AsciiDigits ds := fun x hx => hds x (by simp [hx])
    unfold i32FromAsciiC i32FromAscii
    simp only []
    split
    · rfl
    · rw [subU8_ok hd]
      simp only []
      generalize (if neg = true then acc * 10 - ((d - 48 : Nat) : Int) else acc * 10 + ((d - 48 : Nat) : Int)) = v
      split
      · rfl
      · exact ih hds' v

theorem exponentFromAsciiC_eq (T : Ty) (c : Bool) (neg : Bool) (ds : List Nat) (hds : AsciiDigits ds) (hne : ds ≠ []) :
    exponentFromAsciiC T c neg ds = .ok (T.exponentFromAscii neg ds) := by
  unfold exponentFromAsciiC Ty.exponentFromAscii
  cases hi : T.expIsI32 with
  | true =>
    simp only [if_true]
    rw [i32FromAsciiC_eq c neg ds hds]
    cases i32FromAscii neg ds 0 <;> rfl
  | false =>
    simp only [Bool.false_eq_true, if_false]
    have hall : ds.all Spec.isDigit = true := by
      rw [List.all_eq_true]
      intro x hx
      have := hds x hx
      simp [Spec.isDigit]; omega
    rw [if_pos ⟨hne, hall⟩]

/-! ## allocation and the finite encoder -/

theorem withPrecisionC_eq (T : Ty) (c : Bool) (d : Nat) (hd : d ≠ 0) (e : Option Int) :
    withPrecisionC T c d e = .ok (T.withPrecision d e) := by
  unfold withPrecisionC
  rw [dbg_pos hd, bind_ok]

theorem encodeSignificand_len (b : Buf) (ds : List Nat) : (encodeSignificand b ds).1.len = b.len := by
  unfold encodeSignificand
  exact encodeDeclets_len _ _ _ _

theorem expRep_isI32 (T : Ty) : T.expRep.isI32 = T.expIsI32 := by cases T <;> rfl

theorem le5_of_cap (T : Ty) (n : Nat) (h : ∀ cap, T.capN = some cap → n ≤ cap) : T.expIsI32 = true → n ≤ 5 := by
  intro hi
  cases T <;> simp [Ty.expIsI32] at hi <;> simp [Ty.capN] at h <;> omega

/-- a representable exponent has a biased value in `[0, 3·2^(2n+4))` -/
theorem biased_range (n : Nat) (hn : 0 < n) (q : Int) (hq : (Fmt.mk n).qmin ≤ q ∧ q ≤ (Fmt.mk n).qmax) :
    0 ≤ biasOf (32 * n) (9 * n - 2) + q ∧ biasOf (32 * n) (9 * n - 2) + q < 3 * 2 ^ (2 * n + 4) := by
  have hlt := biased_lt n hn q hq
  rw [biasOf_eq n hn]
  have h0 : 0 ≤ ((Fmt.mk n).bias : Int) + q := by
    have := hq.1; unfold Fmt.qmin at this; omega
  refine ⟨h0, ?_⟩
  have e : ((Fmt.mk n).bias : Int) + q = (((q + ((Fmt.mk n).bias : Int)).toNat : Nat) : Int) := by
    rw [Int.toNat_of_nonneg (by omega)]; omega
  rw [e]
  exact_mod_cast hlt

/-- the finite encoder behind `decimal_from_parsed`, for ANY exponent and ANY number of digits: a refused allocation is
    an error value, a granted one makes both encoders safe -/
theorem encodeFiniteC_eq (T : Ty) (c : Bool) (neg : Bool) (chunks : List (List Nat)) (exp : Int)
    (hne : ∀ ch ∈ chunks, ch ≠ []) (hc : chunks ≠ []) (hds : AsciiDigits chunks.flatten) :
    encodeFiniteC T c neg chunks exp = .ok (encodeFinite T neg chunks.flatten exp) := by
  have hd : 0 < chunks.flatten.length := by
    cases chunks with
    | nil => exact absurd rfl hc
    | cons ch rest =>
      have := hne ch (by simp)
      have : 0 < ch.length := List.length_pos_iff.mpr this
      simp; omega
  unfold encodeFiniteC encodeFinite
  rw [withPrecisionC_eq T c _ (by omega), bind_ok]
  have halloc := Decstr.Props.C07.C07_alloc T chunks.flatten.length hd (some exp)
  cases hr : T.withPrecision chunks.flatten.length (some exp) with
  | error e => rfl
  | ok b0 =>
    rw [hr] at halloc
    obtain ⟨n, hb0, hn, hfit, hcapn, _⟩ := halloc
    subst hb0
    simp only [Fmt.fitsB, Bool.and_eq_true, decide_eq_true_eq] at hfit
    obtain ⟨_, hq1, hq2⟩ := hfit
    simp only []
    rw [encodeSignificandC_eq c _ n hn rfl chunks hne hds, bind_ok]
    have hl : (encodeSignificand (Buf.zero (4 * n)) chunks.flatten).1.len = 4 * n := encodeSignificand_len _ _
    have hbr := biased_range n hn exp ⟨hq1, hq2⟩
    rw [← widthBits_of_len _ n hl, ← precision_of_len _ n hl] at hbr
    rw [encodeCombinationFiniteC_eq T.expRep c _ n hn hl (by rw [expRep_isI32]; exact le5_of_cap T n hcapn) neg exp _ hbr.1 hbr.2,
      bind_ok]

theorem withAtLeastBytes4 (T : Ty) : ∃ b, T.withAtLeastBytes 4 = .ok b ∧ 0 < b.len := by
  cases T <;> exact ⟨_, rfl, by decide⟩

theorem fromParsedExpC_eq (T : Ty) (c : Bool) (text : List Nat) (ex : Option PExponent) :
    (∀ e, ex = some e → DigitsNE text e.range) →
    fromParsedExpC T c text ex = .ok (match ex with
      | some e => T.exponentFromAscii e.neg (slice text e.range)
      | none => .ok 0) := by
  intro hex
  cases ex with
  | none => rfl
  | some e =>
    obtain ⟨g1, g2, g3⟩ := hex e rfl
    simp only [fromParsedExpC]
    rw [sliceC_eq _ _ _ (by omega) g2, bind_ok, exponentFromAsciiC_eq T c e.neg _ g3 (DigitsNE.slice_ne ⟨g1, g2, g3⟩)]

theorem fromParsedSigC_eq (T : Ty) (c : Bool) (text : List Nat) (sig : PSignificand) (e0 : Int)
    (hsig : match sig.point with
       | some pt => DigitsNE text ⟨sig.range.start, pt.start⟩ ∧ DigitsNE text ⟨pt.stop, sig.range.stop⟩
       | none => DigitsNE text sig.range) :
    fromParsedSigC T c text sig e0 = .ok (match sig.point with
      | some pt =>
        encodeFinite T sig.neg (slice text ⟨sig.range.start, pt.start⟩ ++ slice text ⟨pt.stop, sig.range.stop⟩)
          (T.lower e0 (slice text ⟨pt.stop, sig.range.stop⟩).length)
      | none => encodeFinite T sig.neg (slice text sig.range) e0) := by
  unfold fromParsedSigC
  cases hpt : sig.point with
  | none =>
    rw [hpt] at hsig
    obtain ⟨g1, g2, g3⟩ := hsig
    simp only []
    rw [sliceC_eq _ _ _ (by omega) g2, bind_ok,
      encodeFiniteC_eq T c sig.neg [slice text sig.range] e0
        (by intro ch hch; simp at hch; subst hch; exact DigitsNE.slice_ne ⟨g1, g2, g3⟩) (by simp) (by simpa using g3)]
    simp only [List.flatten_cons, List.flatten_nil, List.append_nil]
  | some pt =>
    rw [hpt] at hsig
    obtain ⟨⟨g1, g2, g3⟩, ⟨k1, k2, k3⟩⟩ := hsig
    simp only at g1 g2 g3 k1 k2 k3
    simp only []
    rw [sliceC_eq _ text ⟨sig.range.start, pt.start⟩ (Nat.le_of_lt g1) g2, bind_ok,
      sliceC_eq _ text ⟨pt.stop, sig.range.stop⟩ (Nat.le_of_lt k1) k2, bind_ok,
      encodeFiniteC_eq T c sig.neg [slice text ⟨sig.range.start, pt.start⟩, slice text ⟨pt.stop, sig.range.stop⟩] _
        (by
          intro ch hch
          simp at hch
          rcases hch with rfl | rfl
          · exact DigitsNE.slice_ne ⟨g1, g2, g3⟩
          · exact DigitsNE.slice_ne ⟨k1, k2, k3⟩)
        (by simp)
        (by
          simp only [List.flatten_cons, List.flatten_nil, List.append_nil]
          intro x hx
          rcases List.mem_append.1 hx with hx | hx
          · exact g3 x hx
          · exact k3 x hx)]
    simp only [List.flatten_cons, List.flatten_nil, List.append_nil]

/-- **`decimal_from_parsed`** -/
theorem fromParsedC_eq (T : Ty) (c : Bool) (p : Parsed) (h : ParsedOK p) : fromParsedC T c p = .ok (fromParsed T p) := by
  cases p with
  | infinity neg =>
    obtain ⟨b, hb, hl⟩ := withAtLeastBytes4 T
    simp only [fromParsedC, fromParsed, hb]
    rw [encodeInfinityC_eq c b (by omega), bind_ok]
  | nan n =>
    obtain ⟨tb, signaling, neg, payload⟩ := n
    simp only [fromParsedC, fromParsed]
    cases hf : payload.filter (fun s => decide (s.range.stop > s.range.start)) with
    | none =>
      obtain ⟨b, hb, hl⟩ := withAtLeastBytes4 T
      simp only [hb]
      rw [encodeNanC_eq c b (by omega), bind_ok]
    | some s =>
      obtain ⟨hs1, hs2⟩ := Option.filter_eq_some_iff.1 hf
      have hgt : s.range.stop > s.range.start := by simpa using hs2
      obtain ⟨h1, h2, h3⟩ := h s hs1 hgt
      simp only []
      have hlen : (slice tb.ascii s.range).length = s.range.stop - s.range.start := slice_length _ _ h2
      rw [withPrecisionC_eq T c _ (by omega), bind_ok, hlen]
      have halloc := Decstr.Props.C07.C07_alloc T (s.range.stop - s.range.start + 1) (by omega) none
      cases hr : T.withPrecision (s.range.stop - s.range.start + 1) none with
      | error e => rfl
      | ok b0 =>
        rw [hr] at halloc
        obtain ⟨n, hb0, hn, _, _, _⟩ := halloc
        subst hb0
        simp only []
        rw [sliceC_eq _ _ _ (by omega) h2, bind_ok,
          encodeSignificandC_eq c _ n hn rfl [slice tb.ascii s.range]
            (by intro ch hch; simp at hch; subst hch; exact DigitsNE.slice_ne ⟨h1, h2, h3⟩)
            (by simpa using h3), bind_ok]
        simp only [List.flatten_cons, List.flatten_nil, List.append_nil]
        rw [encodeNanC_eq c _ (by rw [encodeSignificand_len]; simp [Buf.zero]; omega), bind_ok]
  | finite f =>
    obtain ⟨tb, sig, ex⟩ := f
    obtain ⟨hsig, hex⟩ := h
    simp only at hsig hex
    simp only [fromParsedC, fromParsed]
    rw [fromParsedExpC_eq T c tb.ascii ex hex, bind_ok]
    cases ex with
    | none => exact fromParsedSigC_eq T c tb.ascii sig 0 hsig
    | some e =>
      simp only []
      cases hE : T.exponentFromAscii e.neg (slice tb.ascii e.range) with
      | error err => rfl
      | ok e0 => exact fromParsedSigC_eq T c tb.ascii sig e0 hsig

end Decstr.Proofs.Exec

#print axioms Decstr.Proofs.Exec.fromParsedC_eq
