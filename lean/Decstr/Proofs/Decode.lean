import Decstr.Proofs.DecodeComb
import Decstr.Props.C08
/-!
# Proofs.Decode — the decoder of the model against `Spec.decode`, for every bit pattern of every width `32n`
-/
namespace Decstr.Proofs.DecodeAux
open Decstr.Model Decstr.Spec
open Decstr.Props

theorem toC08 {b : Buf} {n : Nat} (h : WF b n) : C08.WF b n := ⟨h.pos, h.len, h.lt⟩

/-- the five leading combination bits are bits 6..2 of the last byte -/
theorem g5_last (b : Buf) (n : Nat) (h : WF b n) :
    b.bits / 2 ^ (30 * n - 10) % 2 ^ (2 * n + 4 + 5) / 2 ^ (2 * n + 4) = b.last / 4 % 32 :=
  C08.g5_eq b n (toC08 h)

theorem G_low (N t w : Nat) : N / 2 ^ t % 2 ^ (w + 5) % 2 ^ w = N / 2 ^ t % 2 ^ w := by
  rw [Nat.pow_add]; exact Nat.mod_mul_right_mod _ _ _

/-- combination field: biased exponent and most significant digit, for EVERY pattern (also the 1111x headers) -/
theorem _root_.Decstr.Proofs.decodeCombinationFinite_spec (b : Buf) (n : Nat) (h : WF b n) :
    let w := 2 * n + 4
    let G := b.bits / 2 ^ (30 * n - 10) % 2 ^ (w + 5)
    let g5 := G / 2 ^ w
    decodeCombinationFinite b =
      (if g5 / 8 < 3 then (g5 / 8 * 2 ^ w + G % 2 ^ w, g5 % 8) else (g5 / 2 % 4 * 2 ^ w + G % 2 ^ w, 8 + g5 % 2)) := by
  intro w G g5
  have hg : g5 = b.last / 4 % 32 := g5_last b n h
  have hG : G % 2 ^ w = b.bits / 2 ^ (30 * n - 10) % 2 ^ w := G_low _ _ _
  rw [dcf_closed b n h, hG, hg, (mseMsd_table b.last (C08.last_lt b)).1]
  split <;> rfl

/-- the classifiers as functions of the last byte, against the five combination bits -/
theorem cls_table : ∀ x < 256,
    ((x &&& FINITE_COMBINATION != FINITE_COMBINATION) = true ↔ (x / 4 % 32 ≠ 30 ∧ x / 4 % 32 ≠ 31)) ∧
    ((x &&& INFINITY_COMBINATION == INFINITY) = true ↔ x / 4 % 32 = 30) ∧
    ((x &&& NAN == NAN) = true ↔ x / 4 % 32 = 31) ∧
    ((x &&& SIGN_NEGATIVE == SIGN_NEGATIVE) = decide (x / 128 % 2 = 1)) ∧
    (x / 4 % 32 = 31 → (x &&& NAN_COMBINATION == NAN_COMBINATION) = decide (x / 2 % 2 = 1)) := by
  decide +kernel

theorem isFinite_iff (b : Buf) : isFinite b = true ↔ (b.last / 4 % 32 ≠ 30 ∧ b.last / 4 % 32 ≠ 31) :=
  (cls_table b.last (C08.last_lt b)).1
theorem isInfinite_iff (b : Buf) : isInfinite b = true ↔ b.last / 4 % 32 = 30 :=
  (cls_table b.last (C08.last_lt b)).2.1
theorem isNan_iff (b : Buf) : isNan b = true ↔ b.last / 4 % 32 = 31 :=
  (cls_table b.last (C08.last_lt b)).2.2.1
theorem isSignNegative_eq (b : Buf) : isSignNegative b = decide (b.last / 128 % 2 = 1) :=
  (cls_table b.last (C08.last_lt b)).2.2.2.1
theorem isSignalingNan_eq (b : Buf) (h : b.last / 4 % 32 = 31) : isSignalingNan b = decide (b.last / 2 % 2 = 1) :=
  (cls_table b.last (C08.last_lt b)).2.2.2.2 h

theorem sign_eq (b : Buf) (n : Nat) (h : WF b n) :
    decide (b.bits / 2 ^ (32 * n - 1) % 2 = 1) = isSignNegative b := by
  rw [isSignNegative_eq, ← C08.sign_eq b n (toC08 h)]; rfl

theorem precision_eq (b : Buf) (n : Nat) (h : WF b n) : b.precision = 9 * n - 2 := by
  simp only [Buf.precision, Buf.widthBits, h.len]; omega

theorem bias_eq (b : Buf) (n : Nat) (h : WF b n) : biasOf b.widthBits b.precision = ((Fmt.mk n).bias : Int) := by
  have hp := h.pos
  rw [precision_eq b n h]
  simp only [biasOf, emaxOf, Buf.widthBits, h.len, Fmt.bias, Fmt.emax, Fmt.p]
  have e : 8 * (4 * n) / 16 + 3 = 2 * n + 3 := by omega
  rw [e]
  have : ((2 ^ (2 * n + 3) : Nat) : Int) = (2 : Int) ^ (2 * n + 3) := by simp
  generalize (2 : Int) ^ (2 * n + 3) = Y at this ⊢
  generalize (2 : Nat) ^ (2 * n + 3) = X at this ⊢
  omega

theorem unbiasedExponent_eq (b : Buf) :
    unbiasedExponent b = (((decodeCombinationFinite b).1 : Int) - biasOf b.widthBits b.precision, (decodeCombinationFinite b).2) := rfl


theorem valOf_allDigits (b : Buf) (n : Nat) (h : WF b n) (msd : Nat) :
    valOf (allDigits b msd) = msd * 1000 ^ (3 * n - 1) + trailingDecode (3 * n - 1) (b.bits % 2 ^ (30 * n - 10)) := by
  unfold allDigits
  rw [valOf_cons, decodeDeclets_flatten_length b n h, (decodeDeclets_spec b n h).2.2, Nat.add_sub_cancel,
    Nat.pow_mul]

/-- the pair (two leading exponent bits, leading digit) IEEE 754 assigns to the five combination bits -/
def topPair (g5 : Nat) : Nat × Nat := if g5 / 8 < 3 then (g5 / 8, g5 % 8) else (g5 / 2 % 4, 8 + g5 % 2)

/-- `Spec.decode` with the format parameters written out -/
theorem decode_unfold (n N : Nat) :
    decode ⟨n⟩ N =
      (if N / 2 ^ (30 * n - 10) % 2 ^ (2 * n + 4 + 5) / 2 ^ (2 * n + 4) = 30 then .inf (decide (N / 2 ^ (32 * n - 1) % 2 = 1))
       else if N / 2 ^ (30 * n - 10) % 2 ^ (2 * n + 4 + 5) / 2 ^ (2 * n + 4) = 31 then
         .nan (decide (N / 2 ^ (32 * n - 1) % 2 = 1))
           (decide (N / 2 ^ (30 * n - 10) % 2 ^ (2 * n + 4 + 5) / 2 ^ (2 * n + 4 - 1) % 2 = 1))
           (trailingDecode (3 * n - 1) (N % 2 ^ (30 * n - 10)))
       else
         .fin (decide (N / 2 ^ (32 * n - 1) % 2 = 1))
           ((topPair (N / 2 ^ (30 * n - 10) % 2 ^ (2 * n + 4 + 5) / 2 ^ (2 * n + 4))).2 * 1000 ^ (3 * n - 1) +
              trailingDecode (3 * n - 1) (N % 2 ^ (30 * n - 10)))
           (((topPair (N / 2 ^ (30 * n - 10) % 2 ^ (2 * n + 4 + 5) / 2 ^ (2 * n + 4))).1 * 2 ^ (2 * n + 4) +
              N / 2 ^ (30 * n - 10) % 2 ^ (2 * n + 4 + 5) % 2 ^ (2 * n + 4) : Nat) - ((Fmt.mk n).bias : Int))) := by
  rfl

theorem dcf_topPair (b : Buf) (n : Nat) (h : WF b n) :
    decodeCombinationFinite b =
      ((topPair (b.last / 4 % 32)).1 * 2 ^ (2 * n + 4) + b.bits / 2 ^ (30 * n - 10) % 2 ^ (2 * n + 4 + 5) % 2 ^ (2 * n + 4),
       (topPair (b.last / 4 % 32)).2) := by
  have := decodeCombinationFinite_spec b n h
  simp only [] at this
  rw [this, g5_last b n h]
  unfold topPair
  split <;> rfl

/-- C02 core: what the formatter and the conversions read is what IEEE 754 assigns to the pattern -/
theorem _root_.Decstr.Proofs.decode_finite (b : Buf) (n : Nat) (h : WF b n) (hfin : isFinite b = true) :
    decode ⟨n⟩ b.bits = .fin (isSignNegative b) (valOf (allDigits b (unbiasedExponent b).2)) (unbiasedExponent b).1 := by
  obtain ⟨h30, h31⟩ := (isFinite_iff b).1 hfin
  rw [unbiasedExponent_eq, valOf_allDigits b n h, bias_eq b n h, decode_unfold, sign_eq b n h, g5_last b n h,
    if_neg h30, if_neg h31, dcf_topPair b n h]

theorem _root_.Decstr.Proofs.decode_infinite (b : Buf) (n : Nat) (h : WF b n) (hinf : isInfinite b = true) :
    decode ⟨n⟩ b.bits = .inf (isSignNegative b) := by
  have h30 := (isInfinite_iff b).1 hinf
  rw [decode_unfold, sign_eq b n h, g5_last b n h, if_pos h30]

theorem sig_last (b : Buf) (n : Nat) (h : WF b n) :
    b.bits / 2 ^ (30 * n - 10) % 2 ^ (2 * n + 4 + 5) / 2 ^ (2 * n + 4 - 1) % 2 = b.last / 2 % 2 :=
  C08.sig_eq b n (toC08 h)

theorem _root_.Decstr.Proofs.decode_nan (b : Buf) (n : Nat) (h : WF b n) (hnan : isNan b = true) :
    decode ⟨n⟩ b.bits = .nan (isSignNegative b) (isSignalingNan b) (valOf (decodeDeclets b).flatten) := by
  have h31 := (isNan_iff b).1 hnan
  have h30 : b.last / 4 % 32 ≠ 30 := by omega
  rw [decode_unfold, sign_eq b n h, g5_last b n h, if_neg h30, if_pos h31, sig_last b n h, isSignalingNan_eq b h31,
    (decodeDeclets_spec b n h).2.2]


theorem topPair_table : ∀ g < 32, (topPair g).1 < 4 ∧ (topPair g).2 ≤ 9 ∧ (g ≥ 30 → topPair g = (3, 8 + g % 2)) ∧
    (g < 30 → (topPair g).1 < 3) := by
  decide +kernel

theorem g5_lt (b : Buf) : b.last / 4 % 32 < 32 := Nat.mod_lt _ (by decide)

theorem unbiasedExponent_msd (b : Buf) (n : Nat) (h : WF b n) : (unbiasedExponent b).2 = (topPair (b.last / 4 % 32)).2 := by
  rw [unbiasedExponent_eq, dcf_topPair b n h]

/-- digits are digits: the most significant digit is 0..9 and `allDigits` has exactly p ASCII digits -/
theorem _root_.Decstr.Proofs.allDigits_ascii (b : Buf) (n : Nat) (h : WF b n) :
    (allDigits b (unbiasedExponent b).2).length = 9 * n - 2 ∧ AsciiDigits (allDigits b (unbiasedExponent b).2) := by
  have hp := h.pos
  have hm := (topPair_table _ (g5_lt b)).2.1
  rw [unbiasedExponent_msd b n h]
  unfold allDigits
  refine ⟨?_, ?_⟩
  · rw [List.length_cons, decodeDeclets_flatten_length b n h]; omega
  · intro d hd
    rcases List.mem_cons.1 hd with rfl | hd
    · omega
    · exact decodeDeclets_flatten_ascii b n h d hd

/-- used by C11: a non-finite header decodes (through the finite path) to MSD 8 or 9 and an exponent above the finite range -/
theorem _root_.Decstr.Proofs.nonfinite_through_finite_path (b : Buf) (n : Nat) (h : WF b n) (hnf : isFinite b = false) :
    (unbiasedExponent b).2 ≥ 8 ∧ (unbiasedExponent b).1 ≥ (Fmt.mk n).qmax + 1 := by
  have hp := h.pos
  have hg : b.last / 4 % 32 ≥ 30 := by
    have : ¬ (b.last / 4 % 32 ≠ 30 ∧ b.last / 4 % 32 ≠ 31) := fun hh => by
      have := (isFinite_iff b).2 hh
      rw [hnf] at this
      exact Bool.noConfusion this
    omega
  have ht := (topPair_table _ (g5_lt b)).2.2.1 hg
  rw [unbiasedExponent_eq, dcf_topPair b n h, bias_eq b n h, ht]
  refine ⟨by simp only; omega, ?_⟩
  simp only [Fmt.qmax, Fmt.bias, Fmt.emax, Fmt.p]
  have e : (2:Nat) ^ (2 * n + 4) = 2 * 2 ^ (2 * n + 3) := by rw [Nat.pow_succ]; omega
  rw [e]
  generalize b.bits / 2 ^ (30 * n - 10) % 2 ^ (2 * n + 4 + 5) % (2 * 2 ^ (2 * n + 3)) = X
  generalize (2:Nat) ^ (2 * n + 3) = Y
  omega


/-- bonus (for C11/C13): a finite pattern always decodes to an exponent inside the format's range -/
theorem _root_.Decstr.Proofs.finite_exponent_range (b : Buf) (n : Nat) (h : WF b n) (hfin : isFinite b = true) :
    (Fmt.mk n).qmin ≤ (unbiasedExponent b).1 ∧ (unbiasedExponent b).1 ≤ (Fmt.mk n).qmax := by
  have hp := h.pos
  obtain ⟨h30, h31⟩ := (isFinite_iff b).1 hfin
  have hg : b.last / 4 % 32 < 30 := by have := g5_lt b; omega
  have ht := (topPair_table _ (g5_lt b)).2.2.2 hg
  rw [unbiasedExponent_eq, dcf_topPair b n h, bias_eq b n h]
  simp only [Fmt.qmin, Fmt.qmax, Fmt.bias, Fmt.emax, Fmt.p]
  have e : (2:Nat) ^ (2 * n + 4) = 2 * 2 ^ (2 * n + 3) := by rw [Nat.pow_succ]; omega
  have hX : b.bits / 2 ^ (30 * n - 10) % 2 ^ (2 * n + 4 + 5) % 2 ^ (2 * n + 4) < 2 ^ (2 * n + 4) :=
    Nat.mod_lt _ (Nat.two_pow_pos _)
  rw [e] at hX ⊢
  generalize b.bits / 2 ^ (30 * n - 10) % 2 ^ (2 * n + 4 + 5) % (2 * 2 ^ (2 * n + 3)) = X at hX ⊢
  generalize (topPair (b.last / 4 % 32)).1 = T at ht ⊢
  generalize hY : (2:Nat) ^ (2 * n + 3) = Y at hX ⊢
  have hTY : T * (2 * Y) ≤ 2 * (2 * Y) := Nat.mul_le_mul_right _ (by omega)
  constructor <;> omega

/-! ### non-vacuity: concrete, non-canonical instances at 32, 64, 96 (aligned iterator) and 128 bits -/

/-- 32 bits, non-canonical declets (0x3FF = 999 again) and a "large digit" combination `11 00 1` -/
example : WF ⟨4, 0x65ffffff⟩ 1 ∧ isFinite ⟨4, 0x65ffffff⟩ = true ∧
    unbiasedExponent ⟨4, 0x65ffffff⟩ = (-70, 9) ∧ valOf (allDigits ⟨4, 0x65ffffff⟩ 9) = 9999999 := by
  refine ⟨⟨by decide, rfl, by decide⟩, by decide +kernel, by decide +kernel, by decide +kernel⟩

/-- 64 bits (shift 2), 96 bits (aligned), 128 bits (shift 6): finite patterns with all payload bits set -/
example : WF ⟨8, 0x5dffffffffffffff⟩ 2 ∧ isFinite ⟨8, 0x5dffffffffffffff⟩ = true ∧
    unbiasedExponent ⟨8, 0x5dffffffffffffff⟩ = (241, 7) :=
  ⟨⟨by decide, rfl, by decide⟩, by decide +kernel, by decide +kernel⟩
example : WF ⟨12, 0x5dffffffffffffffffffffff⟩ 3 ∧ isFinite ⟨12, 0x5dffffffffffffffffffffff⟩ = true ∧
    unbiasedExponent ⟨12, 0x5dffffffffffffffffffffff⟩ = (1000, 7) :=
  ⟨⟨by decide, rfl, by decide⟩, by decide +kernel, by decide +kernel⟩
example : WF ⟨16, 0x5dffffffffffffffffffffffffffffff⟩ 4 ∧ isFinite ⟨16, 0x5dffffffffffffffffffffffffffffff⟩ = true ∧
    unbiasedExponent ⟨16, 0x5dffffffffffffffffffffffffffffff⟩ = (4063, 7) :=
  ⟨⟨by decide, rfl, by decide⟩, by decide +kernel, by decide +kernel⟩

/-- a non-canonical infinity (reserved and trailing bits set) and a signaling NaN with a non-canonical payload, 64 bits -/
example : WF ⟨8, 0x7Bffffffffffffff⟩ 2 ∧ isInfinite ⟨8, 0x7Bffffffffffffff⟩ = true ∧ isFinite ⟨8, 0x7Bffffffffffffff⟩ = false :=
  ⟨⟨by decide, rfl, by decide⟩, by decide +kernel, by decide +kernel⟩
example : WF ⟨8, 0xFfffffffffffffff⟩ 2 ∧ isNan ⟨8, 0xFfffffffffffffff⟩ = true ∧ isSignalingNan ⟨8, 0xFfffffffffffffff⟩ = true :=
  ⟨⟨by decide, rfl, by decide⟩, by decide +kernel, by decide +kernel⟩

/-- the declet theorems on a non-canonical code point read at an odd byte offset -/
example : readDpd ⟨4, 0x000ffc00⟩ 10 % 1024 = 0x3ff ∧ valOf (asciiOfBcd (bcdOfDpd 0x3ff)) = 999 ∧ dpdDecode 0x3ff = 999 := by
  decide +kernel

end Decstr.Proofs.DecodeAux

#print axioms Decstr.Proofs.bcdOfDpd_spec
#print axioms Decstr.Proofs.bcdOfDpd_low
#print axioms Decstr.Proofs.readDpd_spec
#print axioms Decstr.Proofs.decodeDeclets_spec
#print axioms Decstr.Proofs.decodeCombinationFinite_spec
#print axioms Decstr.Proofs.decode_finite
#print axioms Decstr.Proofs.decode_infinite
#print axioms Decstr.Proofs.decode_nan
#print axioms Decstr.Proofs.allDigits_ascii
#print axioms Decstr.Proofs.nonfinite_through_finite_path
#print axioms Decstr.Proofs.finite_exponent_range
