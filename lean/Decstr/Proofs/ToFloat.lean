import Decstr.Proofs.ParseLemmas
/-!
# Proofs.ToFloat — decimal → binary float (`to_f32` / `to_f64`), property C13 and the "converts back" half of C12

Subject: `floatText`, `parseFloatBits`, `toFloatFinite`, `toFloatNan` in `Decstr/Model/Convert.lean`
(Rust: `src/num.rs` `parse_ascii`, `src/convert/from_binary_float.rs` `decimal_to_binary_float`).
`str::parse::<f32|f64>` is modelled as exact round-to-nearest-even (`Spec.rneDecSafe`): trusted base.

Core Lean only (on top of `Proofs.ParseLemmas`).
-/
namespace Decstr.Proofs
open Decstr.Model Decstr.Spec

/-! ## The significant digits `floatText` writes -/

/-- the coefficient as `floatText` writes it: leading zeros dropped, but at least one digit -/
def sigText (digits : List Nat) : List Nat :=
  if (digits.dropWhile (· == 48)).isEmpty then [48] else digits.dropWhile (· == 48)

theorem sigText_length (digits : List Nat) :
    (sigText digits).length = max 1 (digits.dropWhile (· == 48)).length := by
  unfold sigText
  cases h : digits.dropWhile (· == 48) with
  | nil => rfl
  | cons a l => simp

theorem sigText_ne_nil (digits : List Nat) : sigText digits ≠ [] := by
  unfold sigText
  cases h : digits.dropWhile (· == 48) with
  | nil => simp
  | cons a l => simp

theorem sigText_ascii {digits : List Nat} (hds : AsciiDigits digits) : AsciiDigits (sigText digits) := by
  unfold sigText
  split
  · intro d hd; simp at hd; omega
  · exact hds.dropWhile _

theorem valOf_sigText (digits : List Nat) : valOf (sigText digits) = valOf digits := by
  unfold sigText
  split
  · rename_i h
    rw [List.isEmpty_iff] at h
    rw [valOf_eq_zero_of_dropWhile_nil digits h]; rfl
  · exact valOf_dropWhile_zero digits

theorem signText_length (neg : Bool) : (signText neg).length = if neg then 1 else 0 := by
  cases neg <;> rfl

theorem toDecimal_length_pos (e : Int) : 1 ≤ (toDecimal e).length := by
  rw [toDecimal_eq, List.length_append]
  have := natDigits_ne_nil e.natAbs
  have : 0 < (natDigits e.natAbs).length := List.length_pos_iff.mpr this
  omega

/-- `floatText` in closed form: the text is `[-] sig e toDecimal(exponent)`, produced exactly when it fits 25 bytes -/
theorem floatText_eq (neg : Bool) (digits : List Nat) (e : Int) :
    floatText neg digits e =
      if (if neg then 1 else 0) + (sigText digits).length + 1 + (toDecimal e).length ≤ 25
      then some (signText neg ++ (sigText digits ++ 101 :: toDecimal e)) else none := by
  have hpos := toDecimal_length_pos e
  have hs := signText_length neg
  unfold floatText
  simp only [scratchCap, intToAscii]
  change (if (signText neg ++ sigText digits).length + 1 > 25 then none
    else if (signText neg ++ sigText digits ++ [101]).length + (toDecimal e).length > 25 then none
    else some (signText neg ++ sigText digits ++ [101] ++ toDecimal e)) = _
  simp only [List.length_append, List.length_cons, List.length_nil, hs]
  by_cases h : (if neg then 1 else 0) + (sigText digits).length + 1 + (toDecimal e).length ≤ 25
  · rw [if_pos h, if_neg (by omega), if_neg (by omega)]
    simp
  · rw [if_neg h]
    by_cases h1 : (if neg = true then 1 else 0) + (sigText digits).length + 1 > 25
    · rw [if_pos h1]
    · rw [if_neg h1, if_pos (by omega)]

/-! ## Main theorems about the text -/

/-- the re-serialised text denotes exactly (sign, coefficient, exponent) -/
theorem floatText_denotes (neg : Bool) (digits : List Nat) (hds : AsciiDigits digits) (e : Int) (t : List Nat)
    (h : floatText neg digits e = some t) :
    ∃ num, parse t = some num ∧ num.datum = .fin neg (valOf digits) e := by
  rw [floatText_eq] at h
  by_cases hc : (if neg then 1 else 0) + (sigText digits).length + 1 + (toDecimal e).length ≤ 25
  · rw [if_pos hc] at h
    injection h with h
    subst h
    refine ⟨_, parse_sci_int neg (sigText_ascii hds) (sigText_ne_nil digits) e, ?_⟩
    have := datum_sci neg (sigText digits) [] e
    simp only [digitVals_nil, List.append_nil, List.length_nil] at this
    rw [this, valOf_sigText]
    simp
  · rw [if_neg hc] at h; cases h

/-- it fits the scratch buffer exactly when sign + significant digits (at least one) + 'e' + exponent text is at
    most 25 bytes -/
theorem floatText_some_iff (neg : Bool) (digits : List Nat) (e : Int) :
    (floatText neg digits e).isSome ↔
      (if neg then 1 else 0) + max 1 (digits.dropWhile (· == 48)).length + 1 + (toDecimal e).length ≤ 25 := by
  rw [floatText_eq, sigText_length]
  split <;> simp [*]

/-! ## The rounding oracle never returns the infinity pattern -/

theorem ite_none_some {K bits m : Nat} (h : (if bits ≥ K then none else some bits) = some m) : m < K := by
  by_cases hc : bits ≥ K
  · rw [if_pos hc] at h; cases h
  · rw [if_neg hc] at h; injection h with h; omega

theorem rneRat_lt (B : BinFmt) (n d m : Nat) (h : rneRat B n d = some m) : m < B.infBits := by
  unfold rneRat at h
  simp only at h
  exact ite_none_some h

theorem rneDec_lt (B : BinFmt) (c : Nat) (e : Int) (m : Nat) (h : rneDec B c e = some m) : m < B.infBits := by
  unfold rneDec at h
  split at h <;> exact rneRat_lt _ _ _ _ h

theorem infBits_pos (B : BinFmt) (hB : 1 ≤ B.ebits) : 0 < B.infBits := by
  unfold BinFmt.infBits
  have : 2 ≤ 2 ^ B.ebits := by
    calc 2 = 2 ^ 1 := rfl
      _ ≤ 2 ^ B.ebits := Nat.pow_le_pow_right (by decide) hB
  exact Nat.mul_pos (by omega) (Nat.pow_pos (by decide))

/-- a `some` answer of the oracle is zero or below the infinity pattern (any `B`) -/
theorem rneDecSafe_cases (B : BinFmt) (c : Nat) (e : Int) (m : Nat) (h : rneDecSafe B c e = some m) :
    m = 0 ∨ m < B.infBits := by
  unfold rneDecSafe at h
  split at h
  · injection h with h; exact Or.inl h.symm
  · split at h
    · cases h
    · split at h
      · injection h with h; exact Or.inl h.symm
      · exact Or.inr (rneDec_lt _ _ _ _ h)

/-- `rneDecSafe` never returns the infinity pattern (or anything above it) -/
theorem rneDecSafe_lt' (B : BinFmt) (hB : 1 ≤ B.ebits) (c : Nat) (e : Int) (m : Nat)
    (h : rneDecSafe B c e = some m) : m < B.infBits := by
  rcases rneDecSafe_cases B c e m h with h0 | h0
  · subst h0; exact infBits_pos B hB
  · exact h0

theorem rneDecSafe_lt (B : BinFmt) (hB : B = binary32 ∨ B = binary64) (c : Nat) (e : Int) (m : Nat)
    (h : rneDecSafe B c e = some m) : m < B.infBits := by
  refine rneDecSafe_lt' B ?_ c e m h
  rcases hB with rfl | rfl <;> decide

/-! ## `parseFloatBits` on the re-serialised text -/

/-- the sign bit of the float -/
def sgnBits (B : BinFmt) (neg : Bool) : Nat := if neg then B.signMask else 0

/-- `str::parse` (as modelled) applied to the scratch text: the rounding of `valOf digits · 10^e`, or infinity -/
theorem parseFloatBits_floatText (B : BinFmt) (neg : Bool) (digits : List Nat) (hds : AsciiDigits digits) (e : Int)
    (t : List Nat) (h : floatText neg digits e = some t) :
    parseFloatBits B t = some (sgnBits B neg + (rneDecSafe B (valOf digits) e).getD B.infBits) := by
  rw [floatText_eq] at h
  by_cases hc : (if neg then 1 else 0) + (sigText digits).length + 1 + (toDecimal e).length ≤ 25
  · rw [if_pos hc] at h
    injection h with h
    subst h
    have hp := parse_sci_int neg (sigText_ascii hds) (sigText_ne_nil digits) e
    have hx := expValue_toDecimal e
    have hv : ofDigits (digitVals (sigText digits) ++ []) = valOf digits := by
      rw [List.append_nil, ← valOf_sigText digits]; rfl
    unfold parseFloatBits
    rw [hp]
    simp only [expValue, hx, hv, List.length_nil, Int.natCast_zero, Int.sub_zero, sgnBits]
    cases rneDecSafe B (valOf digits) e <;> rfl
  · rw [if_neg hc] at h; cases h

/-! ## Bit-pattern classification -/

theorem signMask_pos (B : BinFmt) : 0 < B.signMask := Nat.pow_pos (by decide)

theorem infBits_lt_signMask (B : BinFmt) (hp : 1 ≤ B.prec) : B.infBits < B.signMask := by
  unfold BinFmt.infBits BinFmt.signMask BinFmt.width
  have e : B.prec + B.ebits - 1 = B.ebits + (B.prec - 1) := by omega
  rw [e, Nat.pow_add]
  have h1 : 0 < 2 ^ B.ebits := Nat.pow_pos (by decide)
  have h2 : 0 < 2 ^ (B.prec - 1) := Nat.pow_pos (by decide)
  exact Nat.mul_lt_mul_of_pos_right (by omega) h2

theorem sgnBits_add_mod (B : BinFmt) (neg : Bool) (x : Nat) : (sgnBits B neg + x) % B.signMask = x % B.signMask := by
  cases neg
  · simp [sgnBits]
  · simp [sgnBits]

/-- a sign plus a magnitude below the infinity pattern is neither infinite nor NaN -/
theorem not_inf_nan_of_lt (B : BinFmt) (hp : 1 ≤ B.prec) (neg : Bool) (m : Nat) (hm : m < B.infBits) :
    (B.isInf (sgnBits B neg + m) || B.isNan (sgnBits B neg + m)) = false := by
  have h1 := infBits_lt_signMask B hp
  have h2 : m % B.signMask = m := Nat.mod_eq_of_lt (by omega)
  simp only [BinFmt.isInf, BinFmt.isNan, sgnBits_add_mod, h2, Bool.or_eq_false_iff, beq_eq_false_iff_ne,
    decide_eq_false_iff_not]
  omega

/-- a sign plus the infinity pattern is recognised as infinite (and so refused by `toFloatFinite`) -/
theorem inf_of_eq (B : BinFmt) (hp : 1 ≤ B.prec) (neg : Bool) :
    (B.isInf (sgnBits B neg + B.infBits) || B.isNan (sgnBits B neg + B.infBits)) = true := by
  have h1 := infBits_lt_signMask B hp
  have h2 : B.infBits % B.signMask = B.infBits := Nat.mod_eq_of_lt h1
  simp [BinFmt.isInf, sgnBits_add_mod, h2]

/-- `toFloatFinite` in closed form (any binary format with at least one significand bit) -/
theorem toFloatFinite_eq (B : BinFmt) (hp : 1 ≤ B.prec) (neg : Bool) (digits : List Nat) (hds : AsciiDigits digits)
    (e : Int) :
    toFloatFinite B neg digits e =
      if (floatText neg digits e).isSome then
        match rneDecSafe B (valOf digits) e with
        | some m => if m < B.infBits then some (sgnBits B neg + m) else none
        | none => none
      else none := by
  unfold toFloatFinite
  cases ht : floatText neg digits e with
  | none => rfl
  | some t =>
    simp only [parseFloatBits_floatText B neg digits hds e t ht, Option.isSome_some, if_true]
    cases hr : rneDecSafe B (valOf digits) e with
    | none =>
      simp only [Option.getD_none, inf_of_eq B hp neg, if_true]
    | some m =>
      simp only [Option.getD_some]
      rcases rneDecSafe_cases B _ _ _ hr with h0 | h0
      · subst h0
        by_cases hi : 0 < B.infBits
        · rw [not_inf_nan_of_lt B hp neg 0 hi, if_pos hi]; rfl
        · have : B.infBits = 0 := by omega
          have h2 := inf_of_eq B hp neg
          rw [this] at h2
          rw [h2, if_neg hi]; rfl
      · rw [not_inf_nan_of_lt B hp neg m h0, if_pos h0]; rfl

/-! ## C13 -/

/-- C13 never wrong: a returned float is the correctly rounded value, finite, with the decimal's sign.
    (`1 ≤ B.prec` is needed: with `prec = 0` the "infinity pattern" is not below the sign mask and the model's
    infinity test misfires; it holds for binary32 and binary64, see `toFloatFinite_sound`.) -/
theorem toFloatFinite_sound' (B : BinFmt) (hp : 1 ≤ B.prec) (neg : Bool) (digits : List Nat) (hds : AsciiDigits digits)
    (e : Int) (bits : Nat) (h : toFloatFinite B neg digits e = some bits) :
    ∃ m, rneDecSafe B (valOf digits) e = some m ∧ m < B.infBits ∧ bits = (if neg then B.signMask else 0) + m := by
  rw [toFloatFinite_eq B hp neg digits hds e] at h
  by_cases hs : (floatText neg digits e).isSome
  · rw [if_pos hs] at h
    cases hr : rneDecSafe B (valOf digits) e with
    | none => rw [hr] at h; cases h
    | some m =>
      rw [hr] at h
      simp only at h
      by_cases hm : m < B.infBits
      · rw [if_pos hm] at h
        injection h with h
        exact ⟨m, rfl, hm, h.symm⟩
      · rw [if_neg hm] at h; cases h
  · rw [if_neg hs] at h; cases h

/-- C13: None whenever the correctly rounded result would be infinite -/
theorem toFloatFinite_overflow' (B : BinFmt) (hp : 1 ≤ B.prec) (neg : Bool) (digits : List Nat)
    (hds : AsciiDigits digits) (e : Int) (h : rneDecSafe B (valOf digits) e = none) :
    toFloatFinite B neg digits e = none := by
  rw [toFloatFinite_eq B hp neg digits hds e, h]
  split <;> rfl

theorem prec_pos_of_std {B : BinFmt} (hB : B = binary32 ∨ B = binary64) : 1 ≤ B.prec := by
  rcases hB with rfl | rfl <;> decide

theorem toFloatFinite_sound (B : BinFmt) (hB : B = binary32 ∨ B = binary64) (neg : Bool) (digits : List Nat)
    (hds : AsciiDigits digits) (e : Int) (bits : Nat) (h : toFloatFinite B neg digits e = some bits) :
    ∃ m, rneDecSafe B (valOf digits) e = some m ∧ m < B.infBits ∧ bits = (if neg then B.signMask else 0) + m :=
  toFloatFinite_sound' B (prec_pos_of_std hB) neg digits hds e bits h

theorem toFloatFinite_overflow (B : BinFmt) (hB : B = binary32 ∨ B = binary64) (neg : Bool) (digits : List Nat)
    (hds : AsciiDigits digits) (e : Int) (h : rneDecSafe B (valOf digits) e = none) :
    toFloatFinite B neg digits e = none :=
  toFloatFinite_overflow' B (prec_pos_of_std hB) neg digits hds e h

/-- exponent texts: at most 6 bytes for `-99999 … 999999` -/
theorem toDecimal_length_le_six (e : Int) (he : -99999 ≤ e ∧ e ≤ 999999) : (toDecimal e).length ≤ 6 := by
  rw [toDecimal_eq, List.length_append]
  by_cases hneg : e < 0
  · have : (natDigits e.natAbs).length ≤ 5 := (natDigits_length_le _ 5 (by decide)).mpr (by omega)
    simp [hneg]; omega
  · have : (natDigits e.natAbs).length ≤ 6 := (natDigits_length_le _ 6 (by decide)).mpr (by omega)
    simp [hneg]; omega

/-- the scratch buffer suffices for at most 17 significant digits and an exponent text of at most 6 bytes -/
theorem floatText_isSome_of_small (neg : Bool) (digits : List Nat) (e : Int)
    (hsig : (digits.dropWhile (· == 48)).length ≤ 17) (he : (toDecimal e).length ≤ 6) :
    (floatText neg digits e).isSome := by
  rw [floatText_some_iff]
  have : (if neg then 1 else 0) ≤ 1 := by cases neg <;> decide
  omega

/-- C13 (general form): `Some` whenever the text fits and the rounding is finite -/
theorem toFloatFinite_some' (B : BinFmt) (hp : 1 ≤ B.prec) (hb : 1 ≤ B.ebits) (neg : Bool) (digits : List Nat)
    (hds : AsciiDigits digits) (e : Int) (hfit : (floatText neg digits e).isSome)
    (m : Nat) (hm : rneDecSafe B (valOf digits) e = some m) :
    toFloatFinite B neg digits e = some ((if neg then B.signMask else 0) + m) := by
  rw [toFloatFinite_eq B hp neg digits hds e, if_pos hfit, hm]
  simp only
  rw [if_pos (rneDecSafe_lt' B hb _ _ _ hm)]; rfl

/-- C13: `Some` at least for at most 17 significant digits with an exponent of at most 6 characters and a finite
    rounding; the finiteness hypothesis `m < B.infBits` of the task statement is not needed (`rneDecSafe_lt`) -/
theorem toFloatFinite_some_strong (B : BinFmt) (hB : B = binary32 ∨ B = binary64) (neg : Bool) (digits : List Nat)
    (hds : AsciiDigits digits) (e : Int) (hsig : (digits.dropWhile (· == 48)).length ≤ 17)
    (he : -99999 ≤ e ∧ e ≤ 999999) (m : Nat) (hm : rneDecSafe B (valOf digits) e = some m) :
    toFloatFinite B neg digits e = some ((if neg then B.signMask else 0) + m) := by
  refine toFloatFinite_some' B (prec_pos_of_std hB) ?_ neg digits hds e
    (floatText_isSome_of_small neg digits e hsig (toDecimal_length_le_six e he)) m hm
  rcases hB with rfl | rfl <;> decide

set_option linter.unusedVariables false in
/-- C13, exactly as stated in the task (the hypothesis `hfin` is redundant) -/
theorem toFloatFinite_some (B : BinFmt) (hB : B = binary32 ∨ B = binary64) (neg : Bool) (digits : List Nat)
    (hds : AsciiDigits digits) (e : Int) (hsig : (digits.dropWhile (· == 48)).length ≤ 17)
    (he : -99999 ≤ e ∧ e ≤ 999999) (m : Nat) (hm : rneDecSafe B (valOf digits) e = some m) (hfin : m < B.infBits) :
    toFloatFinite B neg digits e = some ((if neg then B.signMask else 0) + m) :=
  toFloatFinite_some_strong B hB neg digits hds e hsig he m hm

/-! ## NaN -/

/-- the magnitude bits `toFloatNan` produces -/
def nanMagnitude (B : BinFmt) (payload : Int) : Nat :=
  if payload = 0 then quietNanBits B else quietNanBits B ||| (payload.toNat % 2 ^ B.width &&& nanPayloadMask B)

theorem toFloatNan_eq (B : BinFmt) (neg : Bool) (ds : List Nat) :
    toFloatNan B neg ds = sgnBits B neg + nanMagnitude B ((intFromAscii ⟨true, B.width⟩ false ds 0).getD 0) := rfl

theorem nanMagnitude_bounds (B : BinFmt) (hB : B = binary32 ∨ B = binary64) (p : Int) :
    B.infBits < nanMagnitude B p ∧ nanMagnitude B p < B.signMask := by
  have hq : B.infBits < quietNanBits B ∧ quietNanBits B < 2 ^ (B.width - 1) ∧ nanPayloadMask B < 2 ^ (B.width - 1) := by
    rcases hB with rfl | rfl <;> decide
  unfold nanMagnitude
  split
  · exact ⟨hq.1, hq.2.1⟩
  · constructor
    · exact Nat.lt_of_lt_of_le hq.1 Nat.left_le_or
    · exact Nat.or_lt_two_pow hq.2.1 (Nat.lt_of_le_of_lt Nat.and_le_right hq.2.2)

theorem two_signMask (B : BinFmt) (hB : B = binary32 ∨ B = binary64) : 2 ^ B.width = 2 * B.signMask := by
  rcases hB with rfl | rfl <;> decide

/-- NaN maps to a NaN of the same sign, whatever the payload -/
theorem toFloatNan_isNan (B : BinFmt) (hB : B = binary32 ∨ B = binary64) (neg : Bool) (ds : List Nat) :
    B.isNan (toFloatNan B neg ds) = true ∧ (toFloatNan B neg ds ≥ B.signMask ↔ neg = true) ∧
      toFloatNan B neg ds < 2 ^ B.width := by
  rw [toFloatNan_eq, two_signMask B hB]
  generalize (intFromAscii ⟨true, B.width⟩ false ds 0).getD 0 = p
  obtain ⟨h1, h2⟩ := nanMagnitude_bounds B hB p
  refine ⟨?_, ?_, ?_⟩
  · simp only [BinFmt.isNan, sgnBits_add_mod, Nat.mod_eq_of_lt h2, decide_eq_true_eq]
    exact h1
  · cases neg
    · simp [sgnBits]; omega
    · simp [sgnBits]
  · cases neg
    · simp [sgnBits]; omega
    · simp [sgnBits]; omega

/-! ## Corollaries: converting back (C12), and the three arms of `toFloat` -/

/-- C12 "converts back", digit level: if the decimal holds digits and exponent that round to the float `bits`
    (the float formatter's contract, as checked by `judgeFromFloat`), the decimal converts back to exactly `bits` -/
theorem toFloatFinite_back (B : BinFmt) (hB : B = binary32 ∨ B = binary64) (bits : Nat) (hbits : bits < 2 ^ B.width)
    (digits : List Nat) (hds : AsciiDigits digits) (e : Int) (hsig : (digits.dropWhile (· == 48)).length ≤ 17)
    (he : -99999 ≤ e ∧ e ≤ 999999) (hryu : rneDecSafe B (valOf digits) e = some (bits % B.signMask)) :
    toFloatFinite B (decide (bits ≥ B.signMask)) digits e = some bits := by
  rw [toFloatFinite_some_strong B hB _ digits hds e hsig he _ hryu]
  rw [two_signMask B hB] at hbits
  have hpos := signMask_pos B
  by_cases h : bits ≥ B.signMask
  · simp only [h, decide_true, if_true]
    rw [Nat.mod_eq_sub_mod h, Nat.mod_eq_of_lt (by omega)]
    congr 1; omega
  · simp only [h, decide_false]
    rw [Nat.mod_eq_of_lt (by omega)]
    simp

theorem toFloat_finite (b : Buf) (B : BinFmt) (h : isFinite b = true) :
    toFloat b B = toFloatFinite B (isSignNegative b) (allDigits b (unbiasedExponent b).2) (unbiasedExponent b).1 := by
  unfold toFloat
  simp only [h, if_true]

theorem toFloat_infinite (b : Buf) (B : BinFmt) (h : isFinite b = false) (hi : isInfinite b = true) :
    toFloat b B = some (sgnBits B (isSignNegative b) + B.infBits) := by
  unfold toFloat
  simp only [h, hi, if_true, Bool.false_eq_true, if_false, sgnBits]

theorem toFloat_nan (b : Buf) (B : BinFmt) (h : isFinite b = false) (hi : isInfinite b = false) :
    toFloat b B = some (toFloatNan B (isSignNegative b) (decodeDeclets b).flatten) := by
  unfold toFloat
  simp only [h, hi, Bool.false_eq_true, if_false]

/-- the infinity the second arm returns is the same-signed infinity and nothing else -/
theorem infinity_bits (B : BinFmt) (hB : B = binary32 ∨ B = binary64) (neg : Bool) :
    B.isInf (sgnBits B neg + B.infBits) = true ∧ (sgnBits B neg + B.infBits ≥ B.signMask ↔ neg = true) ∧
      sgnBits B neg + B.infBits < 2 ^ B.width := by
  have h1 := infBits_lt_signMask B (prec_pos_of_std hB)
  rw [two_signMask B hB]
  refine ⟨?_, ?_, ?_⟩
  · simp [BinFmt.isInf, sgnBits_add_mod, Nat.mod_eq_of_lt h1]
  · cases neg
    · simp [sgnBits]; omega
    · simp [sgnBits]
  · cases neg
    · simp [sgnBits]; omega
    · simp [sgnBits]; omega

/-- a returned finite float is a `width`-bit pattern -/
theorem toFloatFinite_lt (B : BinFmt) (hB : B = binary32 ∨ B = binary64) (neg : Bool) (digits : List Nat)
    (hds : AsciiDigits digits) (e : Int) (bits : Nat) (h : toFloatFinite B neg digits e = some bits) :
    bits < 2 ^ B.width ∧ (neg = true → bits ≥ B.signMask) ∧ (neg = false → bits < B.signMask) := by
  obtain ⟨m, _, hm, rfl⟩ := toFloatFinite_sound B hB neg digits hds e bits h
  have h1 := infBits_lt_signMask B (prec_pos_of_std hB)
  rw [two_signMask B hB]
  cases neg
  · simp; omega
  · simp; omega

/-! ## Instances: the hypotheses are satisfiable, and `1 ≤ prec` cannot be dropped -/

/-- `1.5e0` as `[49,53] e -1`: text `15e-1`, binary32 bits of 1.5 -/
example : toFloatFinite binary32 false [48, 48, 49, 53] (-1) = some 0x3FC00000 := by decide +kernel
example : floatText true [48, 48, 49, 53] (-1) = some [45, 49, 53, 101, 45, 49] := by decide +kernel
example : AsciiDigits [48, 48, 49, 53] := by intro d hd; simp at hd; omega
example : rneDecSafe binary32 (valOf [48, 48, 49, 53]) (-1) = some 0x3FC00000 := by decide +kernel
example : ([48, 48, 49, 53].dropWhile (· == 48)).length ≤ 17 ∧ (-99999 : Int) ≤ -1 ∧ (-1 : Int) ≤ 999999 := by decide
/-- instance of `toFloatFinite_back`: the float 1.5f32 written as `15e-1` -/
example : toFloatFinite binary32 (decide (0x3FC00000 ≥ binary32.signMask)) [49, 53] (-1) = some 0x3FC00000 :=
  toFloatFinite_back binary32 (Or.inl rfl) 0x3FC00000 (by decide) [49, 53] (by intro d hd; simp at hd; omega) (-1)
    (by decide) (by decide) (by decide +kernel)
/-- a negative NaN with a payload -/
example : toFloatNan binary32 true [49, 50, 51] = 0xFFC0007B := by decide +kernel
/-- overflow instance: `1e39` does not fit binary32 -/
example : rneDecSafe binary32 (valOf [49]) 39 = none := by decide +kernel
/-- with `prec = 0` the general statements fail: the oracle says "infinite" yet the model answers `some` -/
example : rneDecSafe ⟨0, 2⟩ (valOf [49]) 401 = none ∧ toFloatFinite ⟨0, 2⟩ false [49] 401 = some 3 := by
  decide +kernel

end Decstr.Proofs

#print axioms Decstr.Proofs.floatText_denotes
#print axioms Decstr.Proofs.floatText_some_iff
#print axioms Decstr.Proofs.rneDecSafe_lt
#print axioms Decstr.Proofs.toFloatFinite_eq
#print axioms Decstr.Proofs.toFloatFinite_sound'
#print axioms Decstr.Proofs.toFloatFinite_sound
#print axioms Decstr.Proofs.toFloatFinite_overflow'
#print axioms Decstr.Proofs.toFloatFinite_overflow
#print axioms Decstr.Proofs.toFloatFinite_some_strong
#print axioms Decstr.Proofs.toFloatFinite_some
#print axioms Decstr.Proofs.toFloatNan_isNan
#print axioms Decstr.Proofs.toFloatFinite_back
#print axioms Decstr.Proofs.infinity_bits
#print axioms Decstr.Proofs.toFloatFinite_lt
