import Decstr.Spec.Basic
/-!
# Decstr.Spec.Judge

The 18 properties as *executable judgements*: for every public operation, given the request and
an answer (the implementation's, or the model's), decide whether the answer is one the
properties permit.  Each complaint names the property it is a violation of.

Nothing here mentions how decstr computes anything; the only inputs are the request, the answer
and the definitions of `Decstr.Spec.Basic`.  The theorems in `Decstr/Props` show that the model's
answers are always accepted by these judgements; the check runs the same judgements on the
implementation's answers.
-/
namespace Decstr.Spec

/-! ## The five public types -/

inductive Ty where
  | b32 | b64 | b128 | dyn | big
deriving DecidableEq, Repr, Inhabited

namespace Ty
/-- capacity in 32-bit words (`none` = unbounded) -/
def capN : Ty → Option Nat
  | b32 => some 1 | b64 => some 2 | b128 => some 4 | dyn => some 5 | big => none
/-- the width of a fixed-width type, in 32-bit words -/
def fixedN : Ty → Option Nat
  | b32 => some 1 | b64 => some 2 | b128 => some 4 | _ => none
def name : Ty → String
  | b32 => "b32" | b64 => "b64" | b128 => "b128" | dyn => "dyn" | big => "big"
def ofName : String → Option Ty
  | "b32" => some b32 | "b64" => some b64 | "b128" => some b128 | "dyn" => some dyn | "big" => some big
  | _ => none
/-- can a buffer of `len` bytes be held by this type -/
def holds (T : Ty) (len : Nat) : Bool :=
  len > 0 && len % 4 == 0 &&
    (match T.fixedN with
     | some n => len == 4 * n
     | none => match T.capN with | some c => len ≤ 4 * c | none => true)
end Ty

/-! ## Smallest sufficient width (C07) -/

def Fmt.fitsB (f : Fmt) (d : Nat) (q : Option Int) : Bool :=
  d ≤ f.p && (match q with | none => true | some q => f.qmin ≤ q && q ≤ f.qmax)

def needFrom (d : Nat) (q : Option Int) : Nat → Nat → Nat
  | 0, n => n
  | fuel + 1, n => if (Fmt.mk n).fitsB d q then n else needFrom d q fuel (n + 1)

/-- least `n ≥ 1` such that the `32n`-bit format holds `d` digits and (if given) exponent `q` -/
def need (d : Nat) (q : Option Int) : Nat := needFrom d q (d + (q.getD 0).natAbs + 1) 1

/-! ## Numerals: helper quantities -/

def stripZeros : List Nat → List Nat
  | 0 :: ds => stripZeros ds
  | ds => ds

def expValue : Option (Bool × List Nat) → Int
  | none => 0
  | some (en, ds) => if en then - (ofDigits ds : Int) else ofDigits ds

def digits10 (v : Nat) : Nat := (Nat.toDigits 10 v).length

def inI32 (x : Int) : Bool := -2147483648 ≤ x && x ≤ 2147483647

/-! ## Viable prefixes (C17) -/

/-- Suffixes that complete every viable prefix of the grammar. -/
def completions : List (List Nat) :=
  ["", "0", ")", "inf", "nf", "f", "nity", "ity", "ty", "y", "nan", "an", "n", "snan"].map
    fun s => s.toList.map Char.toNat

/-- some grammatical numeral starts with `p` -/
def viable (p : List Nat) : Bool := completions.any fun c => (parse (p ++ c)).isSome

/-- index of the first byte after which no grammatical completion exists -/
def firstBadFrom (txt : List Nat) : Nat → Nat → Option Nat
  | 0, _ => none
  | fuel + 1, i => if i < txt.length then
      (if viable (txt.take (i + 1)) then firstBadFrom txt fuel (i + 1) else some i) else none
def firstBad (txt : List Nat) : Option Nat := firstBadFrom txt (txt.length + 1) 0

/-! ## Answers -/

/-- facts stated by an error, extracted from its text -/
structure ErrFacts where
  kind : String          -- char | end | buffer | source | overflow | expoverflow | size | other
  a : Nat := 0           -- char: the byte; overflow/expoverflow/size: the first figure (capacity or length)
  b : Nat := 0           -- overflow/size: the needed width in bytes
  big : Nat := 0         -- overflow: byte length BigBitstring chose for the same input (0 = not measured)
deriving Repr, DecidableEq, Inhabited

inductive PAns where
  | ok (bytes : List Nat)
  | err (f : ErrFacts)
  | none
  | panic
deriving Repr, DecidableEq, Inhabited

abbrev Complaints := List (String × String)

def chk (c : Bool) (prop why : String) : Complaints := if c then [] else [(prop, why)]

/-! ## Parsing (C01, C04, C06, C07, C09, C17) -/

def judgeSyntaxErr (txt : List Nat) (f : ErrFacts) : Complaints :=
  match firstBad txt with
  | some i => chk (f.kind == "char" && f.a == txt.getD i 0) "C17"
      s!"syntax error should name byte {txt.getD i 0} at index {i}, got {f.kind} {f.a}"
  | none => chk (f.kind == "end") "C17" s!"syntax error should be unexpected end, got {f.kind} {f.a}"

/-- judge an overflow error: capacity named, needed width larger, multiple of 4, sufficient -/
def judgeOverflowErr (capBytes : Nat) (d : Nat) (q : Option Int) (xInI32 : Bool) (f : ErrFacts) : Complaints :=
  if !xInI32 then
    chk (f.kind == "expoverflow") "C17" s!"exponent beyond i32 should be an exponent overflow without a width, got {f.kind}"
  else
    chk (f.kind == "overflow") "C17" s!"expected a width overflow error, got {f.kind}" ++
    (if f.kind == "overflow" then
      chk (f.a == capBytes) "C17" s!"error names capacity {f.a}, type has {capBytes}" ++
      chk (f.b > f.a) "C17" s!"needed width {f.b} not larger than capacity {f.a}" ++
      chk (f.b % 4 == 0) "C17" s!"needed width {f.b} not a multiple of 4" ++
      chk ((Fmt.mk (f.b / 4)).fitsB d q) "C17" s!"needed width {f.b} bytes is not sufficient" ++
      chk (f.big == 0 || f.big ≤ f.b) "C17" s!"BigBitstring needs {f.big} bytes, error says {f.b}"
    else [])

def judgeBytes (prop : String) (n : Nat) (expect : Nat) (bytes : List Nat) : Complaints :=
  chk (bytes.length == 4 * n) "C07" s!"wrong width {bytes.length} bytes, expected {4*n}" ++
  chk (bytes.length != 4 * n || ofLeBytes bytes == expect) prop
    s!"bytes differ from the IEEE encoding at {32*n} bits"

/-- Judge the answer to parsing `txt` with type `T` through the string entry point. -/
def judgeParse (T : Ty) (txt : List Nat) (a : PAns) : Complaints :=
  match a with
  | .panic => [("C05", "panic")]
  | .none => [("C05", "no answer")]
  | _ =>
  match parse txt with
  | none =>
    (match a with
     | .ok _ => [("C06", "accepted a string outside the grammar")]
     | .err f => judgeSyntaxErr txt f
     | _ => [])
  | some (.finite s i fr ex) =>
    let ds := i ++ fr
    let d := ds.length
    let c := ofDigits ds
    let x := expValue ex
    let q : Int := x - fr.length
    let sd := max 1 (stripZeros ds).length
    let nmax := need d (some q)      -- smallest width for the digits as written
    let nmin := need sd (some q)     -- smallest width with redundant leading zeros removed
    (match T.capN, a with
     | some cap, .ok bytes =>
        let n := bytes.length / 4
        chk (nmin ≤ cap) "C04" "accepted a numeral that cannot fit" ++
        (match T.fixedN with
         | some w => judgeBytes "C01" w (encodeFin ⟨w⟩ s c q) bytes
         | none =>
            chk (nmin ≤ n && n ≤ nmax) "C07" s!"width {32*n} bits, smallest sufficient is {32*nmax}" ++
            judgeBytes "C01" n (encodeFin ⟨n⟩ s c q) bytes)
     | some cap, .err f =>
        chk (nmax > cap) "C04" "rejected a numeral that fits exactly" ++
        (if nmax > cap then judgeOverflowErr (4 * cap) d (some q) (inI32 x) f else [])
     | none, .ok bytes =>
        let n := bytes.length / 4
        chk (nmin ≤ n && n ≤ nmax + 1 && (nmax ≤ 5 → n ≤ nmax)) "C07"
          s!"width {32*n} bits, smallest sufficient is {32*nmax}" ++
        chk ((Fmt.mk n).fitsB sd (some q)) "C07" s!"under-provisioned: {32*n} bits" ++
        judgeBytes "C01" n (encodeFin ⟨n⟩ s c q) bytes
     | none, .err _ => [("C07", "BigBitstring rejected a grammatical numeral")]
     | _, _ => [])
  | some (.inf s) =>
    (match a with
     | .ok bytes => let w := (T.fixedN).getD 1; judgeBytes "C09" w (encodeInf ⟨w⟩ s) bytes
     | _ => [("C09", "infinity rejected")])
  | some (.nan s g pl) =>
    let ds := pl.getD []
    let d := ds.length
    let sd := (stripZeros ds).length
    let pay := ofDigits ds
    let nmax := need (d + 1) none
    let nmin := need (sd + 1) none
    (match T.capN, a with
     | some cap, .ok bytes =>
        let n := bytes.length / 4
        chk (nmin ≤ cap) "C09" "accepted a NaN payload that cannot fit" ++
        (match T.fixedN with
         | some w => judgeBytes "C09" w (encodeNan ⟨w⟩ s g pay) bytes
         | none =>
            chk (nmin ≤ n && n ≤ nmax) "C09" s!"NaN width {32*n} bits, expected {32*nmin}..{32*nmax}" ++
            judgeBytes "C09" n (encodeNan ⟨n⟩ s g pay) bytes)
     | some cap, .err f =>
        chk (nmax > cap) "C09" "rejected a NaN whose payload fits" ++
        (if nmax > cap then judgeOverflowErr (4 * cap) (d + 1) none true f else [])
     | none, .ok bytes =>
        let n := bytes.length / 4
        chk (nmin ≤ n && n ≤ nmax + 1 && (nmax ≤ 5 → n ≤ nmax)) "C09"
          s!"NaN width {32*n} bits, expected {32*nmin}..{32*nmax}" ++
        judgeBytes "C09" n (encodeNan ⟨n⟩ s g pay) bytes
     | none, .err _ => [("C09", "BigBitstring rejected a NaN")]
     | _, _ => [])

/-- the longest spelling without redundant characters of a numeral that fits the type's largest width:
    sign, `p` digits, point, `e`, sign, the digits of the largest exponent magnitude (`bias + p`) -/
def reqTextCap (T : Ty) : Nat :=
  match T.capN with
  | some n => 1 + (Fmt.mk n).p + 1 + 2 + digits10 ((Fmt.mk n).bias + (Fmt.mk n).p)
  | none => 0

/-- text capacity: the streaming entry point may additionally fail with "buffer too small"
    only when the text is longer than `cap` (`none` = unbounded). -/
def judgeParseFmt (T : Ty) (cap : Option Nat) (frags : List (List Nat)) (fault : String) (a : PAns) : Complaints :=
  let txt := frags.flatten
  match a with
  | .panic => [("C05", "panic")]
  | _ =>
  if fault.startsWith "fail" then
    (match a with
     | .err _ => []
     | _ => [("C14", "a failing Display produced a value")])
  else
    match a, cap with
    | .err ⟨"buffer", _, _, _⟩, some c =>
        chk (txt.length > c) "C14" s!"buffer-too-small for a text of {txt.length} ≤ {c} bytes" ++
        -- C04 is observed at try_parse too: a numeral that fits the type, written without redundant characters
        -- (sign, p digits, point, e, sign, exponent digits), must not be refused for lack of buffer space
        chk (txt.length > reqTextCap T) "C04" s!"the text buffer ({c} bytes) is too small for a numeral of canonical length {txt.length}"
    | .err ⟨"buffer", _, _, _⟩, none => [("C14", "buffer-too-small from an unbounded buffer")]
    | _, _ =>
      (judgeParse T txt a).map fun (p, w) =>
        -- a wrong outcome here is a difference from the string entry point's contract
        (if p == "C05" then p else "C14", s!"[{p}] {w}")

/-! ## Formatting (C02) and round trips (C03) -/

def Datum.same : Datum → Datum → Bool
  | .fin s c e, .fin s' c' e' => s == s' && c == c' && e == e'
  | .inf s, .inf s' => s == s'
  | .nan s g p, .nan s' g' p' => s == s' && g == g' && p == p'
  | _, _ => false

/-- scientific notation showing more than one significant digit must have a decimal point -/
def layoutOk : Numeral → Bool
  | .finite _ i fr (some _) => i.length + fr.length ≤ 1 || !fr.isEmpty
  | _ => true

def judgeFormat (bytes : List Nat) (txt : Option (List Nat)) : Complaints :=
  match txt with
  | none => [("C05", "panic")]
  | some t =>
    let n := bytes.length / 4
    match parse t with
    | none => [("C02", "formatted text is not a numeral of the grammar")]
    | some num =>
      chk (num.datum.same (decode ⟨n⟩ (ofLeBytes bytes))) "C02" "formatted text denotes a different datum" ++
      chk (layoutOk num) "C02" "scientific notation with several digits but no decimal point"

/-- `bytes --format--> txt --parse(T)--> back`; `stable` = a second round trip changed nothing -/
def judgeRoundtripCore (T : Ty) (bytes : List Nat) (txt : Option (List Nat)) (back : PAns) (stable : Bool) : Complaints :=
  judgeFormat bytes txt ++
  (match txt, back with
   | none, _ => []
   | some _, .ok b2 =>
      let n := bytes.length / 4
      let N := ofLeBytes bytes
      (match T.fixedN with
       | some _ => chk (b2.length == bytes.length && ofLeBytes b2 == canon ⟨n⟩ N) "C03"
            "reparsed bytes are not the canonical form of the original"
       | none => chk ((decode ⟨b2.length / 4⟩ (ofLeBytes b2)).same (decode ⟨n⟩ N)) "C03"
            "reparsed value differs from the original") ++
      chk stable "C03" "a second round trip changed the value"
   | some _, .panic => [("C05", "panic")]
   | some _, _ => [("C03", "the type rejected its own formatted text")])

/-- C02 + C03 on a bit pattern; for an infinity or NaN pattern the same complaints are also complaints about C09
    ("sign, quiet/signaling kind and payload are reproduced by formatting and reparsing") -/
def judgeRoundtrip (T : Ty) (bytes : List Nat) (txt : Option (List Nat)) (back : PAns) (stable : Bool) : Complaints :=
  let cs := judgeRoundtripCore T bytes txt back stable
  match decode ⟨bytes.length / 4⟩ (ofLeBytes bytes) with
  | .fin _ _ _ => cs
  | _ => cs ++ cs.map fun (p, w) => (if p == "C05" then p else "C09", w)

/-- The reparse step of a round trip is itself a parse of a known text, so everything C01/C07/C09 say about parsing
    applies to it: in particular the bytes read back are the *canonical* encoding at their width, also for the dynamic
    types, where `judgeRoundtripCore` only compares the datum.  Complaints are re-tagged C03 with the parse property in
    brackets (`C03:[C09] reparse: …`). -/
def judgeReparse (T : Ty) (txt : List Nat) (back : PAns) : Complaints :=
  match back with
  | .ok _ => (judgeParse T txt back).map fun (p, w) => (if p == "C05" then p else "C03", s!"[{p}] reparse: {w}")
  | _ => []

/-- text → bits → text: the text printed for a parsed numeral denotes the same datum -/
def judgeReprint (txt : List Nat) (printed : List Nat) : Complaints :=
  match parse txt, parse printed with
  | some a, some b => chk (a.datum.same b.datum) "C03" "printed text of a parsed numeral denotes a different datum"
  | some _, none => [("C03", "printed text of a parsed numeral is not grammatical")]
  | none, _ => []

/-! ## Classification (C08) -/

structure Cls where
  neg : Bool
  fin : Bool
  inf : Bool
  nan : Bool
  qnan : Bool
  snan : Bool
deriving Repr, DecidableEq

def specCls (bytes : List Nat) : Cls :=
  match decode ⟨bytes.length / 4⟩ (ofLeBytes bytes) with
  | .fin s _ _ => ⟨s, true, false, false, false, false⟩
  | .inf s => ⟨s, false, true, false, false, false⟩
  | .nan s g _ => ⟨s, false, false, true, !g, g⟩

/-- `tok` = first token of the printed text after the sign: "d" (digit), "inf", "nan", "snan" -/
def judgeClassify (bytes : List Nat) (c : Cls) (printedNeg : Bool) (tok : String) : Complaints :=
  let e := specCls bytes
  let one := (if c.fin then 1 else 0) + (if c.inf then 1 else 0) + (if c.nan then 1 else 0)
  chk (one == 1) "C08" "not exactly one of is_finite / is_infinite / is_nan" ++
  chk (c.nan == (c.qnan != c.snan)) "C08" "is_nan is not (exactly one of quiet / signaling)" ++
  chk (c == e) "C08" "classification differs from the combination field" ++
  chk (printedNeg == e.neg) "C08" "printed sign differs from the sign bit" ++
  chk (tok == (if e.fin then "d" else if e.inf then "inf" else if e.snan then "snan" else "nan")) "C08"
    s!"formatting prints category {tok}"

/-! ## Integers (C10, C11) -/

structure IntTy where
  signed : Bool
  bits : Nat
deriving Repr, DecidableEq

def IntTy.ofName : String → Option IntTy
  | "i8" => some ⟨true, 8⟩ | "i16" => some ⟨true, 16⟩ | "i32" => some ⟨true, 32⟩
  | "i64" => some ⟨true, 64⟩ | "i128" => some ⟨true, 128⟩
  | "u8" => some ⟨false, 8⟩ | "u16" => some ⟨false, 16⟩ | "u32" => some ⟨false, 32⟩
  | "u64" => some ⟨false, 64⟩ | "u128" => some ⟨false, 128⟩
  | _ => none
def IntTy.min (I : IntTy) : Int := if I.signed then - (2 ^ (I.bits - 1) : Nat) else 0
def IntTy.max (I : IntTy) : Int := if I.signed then (2 ^ (I.bits - 1) : Nat) - 1 else (2 ^ I.bits : Nat) - 1
def IntTy.contains (I : IntTy) (v : Int) : Bool := I.min ≤ v && v ≤ I.max

/-- exact integer value of a finite datum, if it is an integer of magnitude below `10^41` -/
def intValue (s : Bool) (c : Nat) (e : Int) : Option Int :=
  if c = 0 then some 0
  else if e ≥ 0 then
    (if e > 41 then none else some ((if s then -1 else 1) * (c * 10 ^ e.toNat : Nat)))
  else
    let k := (-e).toNat
    if k > digits10 c then none          -- c < 10^k, so c/10^k is not an integer
    else if c % 10 ^ k = 0 then some ((if s then -1 else 1) * (c / 10 ^ k : Nat)) else none

inductive OAns where          -- answer of an Option-returning conversion
  | some (v : Int)
  | none
  | panic
deriving Repr, DecidableEq, Inhabited

def judgeToInt (bytes : List Nat) (I : IntTy) (a : OAns) : Complaints :=
  match a with
  | .panic => [("C05", "panic")]
  | _ =>
  match decode ⟨bytes.length / 4⟩ (ofLeBytes bytes) with
  | .fin s c e =>
    (match intValue s c e with
     | some v =>
        if I.contains v then
          (if !I.signed && s && c = 0 then
             chk (a == .none || a == .some 0) "C11" "negative zero into unsigned gave a non-zero value"
           else chk (a == .some v) "C11" s!"in-range integer value {v} not returned")
        else chk (a == .none) "C11" s!"value {v} outside the target range but Some returned"
     | none => chk (a == .none) "C11" "non-integer or huge value but Some returned")
  | _ => chk (a == .none) "C11" "NaN or infinity converted to an integer"

/-- decimal text of an integer -/
def toDecimal (v : Int) : List Nat :=
  (if v < 0 then [45] else []) ++ (Nat.toDigits 10 v.natAbs).map Char.toNat

/-- `from_<int>`: answer bytes (or none), printed text, and the value converted back -/
def judgeFromInt (T : Ty) (I : IntTy) (v : Int) (a : PAns) (printed : List Nat) (back : OAns) : Complaints :=
  let d := digits10 v.natAbs
  let nn := need d (some 0)
  match a with
  | .panic => [("C05", "panic")]
  | .err _ => [("C10", "unexpected error answer")]
  | .none =>
    (match T.capN with
     | some cap => chk (nn > cap) "C10" s!"{v} has {d} digits, fits, but None returned"
     | none => [("C10", "BigBitstring returned None")])
  | .ok bytes =>
    let w := (T.fixedN).getD nn
    chk ((T.capN).all (nn ≤ ·)) "C10" s!"{v} has more digits than the precision but was converted" ++
    judgeBytes "C10" w (encodeFin ⟨w⟩ (v < 0) v.natAbs 0) bytes ++
    chk (printed == toDecimal v) "C10" "does not print like the integer" ++
    chk (back == .some v || !I.contains v) "C10" "converting back does not return the integer" ++
    chk (back != .panic) "C05" "panic converting back"

/-! ## Binary floats (C12, C13) -/

def BinFmt.ofName : String → Option BinFmt
  | "f32" => some binary32 | "f64" => some binary64 | _ => none
def BinFmt.width (B : BinFmt) : Nat := B.prec + B.ebits
def BinFmt.signMask (B : BinFmt) : Nat := 2 ^ (B.width - 1)
def BinFmt.infBits (B : BinFmt) : Nat := (2 ^ B.ebits - 1) * 2 ^ (B.prec - 1)
def BinFmt.isNan (B : BinFmt) (bits : Nat) : Bool := bits % B.signMask > B.infBits
def BinFmt.isInf (B : BinFmt) (bits : Nat) : Bool := bits % B.signMask == B.infBits

/-- correctly rounded magnitude of `c·10^e`; `none` = overflows to infinity. Shortcuts keep huge exponents cheap. -/
def rneDecSafe (B : BinFmt) (c : Nat) (e : Int) : Option Nat :=
  if c = 0 then some 0
  else if e > 400 then none
  else if e + (digits10 c : Int) < -400 then some 0
  else rneDec B c e

def sigDigits (c : Nat) : Nat := if c = 0 then 0 else digits10 c

/-- `to_f32/to_f64`; `a = some bits` -/
def judgeToFloat (T : Ty) (bytes : List Nat) (B : BinFmt) (a : OAns) : Complaints :=
  match a with
  | .panic => [("C05", "panic")]
  | _ =>
  match decode ⟨bytes.length / 4⟩ (ofLeBytes bytes) with
  | .fin s c e =>
    let sgn := if s then B.signMask else 0
    (match rneDecSafe B c e, a with
     | some m, .some v => chk (v == ((sgn + m : Nat) : Int)) "C13" s!"wrong float: got {v}, correctly rounded is {sgn + m}"
     | some _, .none => chk (!(T != .big && sigDigits c ≤ 17)) "C13" "None for a value with at most 17 significant digits and a finite rounding"
     | none, .some v => [("C13", s!"overflowing value converted to {v}")]
     | none, .none => []
     | _, .panic => [])
  | .inf s => chk (a == .some (((if s then B.signMask else 0) + B.infBits : Nat) : Int)) "C13" "infinity not mapped to the same-signed infinity"
  | .nan s _ _ =>
    (match a with
     | .some v => chk (v ≥ 0 && B.isNan v.toNat && (v.toNat ≥ B.signMask) == s) "C13" "NaN not mapped to a NaN of the same sign"
     | _ => [("C13", "NaN not mapped to a NaN")])

/-- the text begins `D…` or `-D…` -/
def startsDigitOrMinusDigit : List Nat → Bool
  | c :: rest => isDigit c || (c == 45 && (match rest with | d :: _ => isDigit d | [] => false))
  | [] => false

/-- `from_f32/from_f64`. `ryu` is the text the float formatter produced for the same float (the assumed
    contract of the external crate); `printed` the Display text of the result; `back` the result converted back. -/
def judgeFromFloat (T : Ty) (B : BinFmt) (bits : Nat) (ryu : List Nat) (a : PAns) (printed : List Nat) (back : OAns) : Complaints :=
  let s := bits ≥ B.signMask
  match a with
  | .panic => [("C05", "panic")]
  | .err _ => [("C12", "unexpected error answer")]
  | _ =>
  if B.isNan bits then
    (match a with
     | .ok bytes => let w := (T.fixedN).getD 1; judgeBytes "C12" w (encodeNan ⟨w⟩ s false 0) bytes
     | _ => [("C12", "NaN not converted")])
  else if B.isInf bits then
    (match a with
     | .ok bytes => let w := (T.fixedN).getD 1
                    judgeBytes "C12" w (encodeInf ⟨w⟩ s) bytes ++
                    chk (back == .some (bits : Int)) "C12" "infinity does not convert back"
     | _ => [("C12", "infinity not converted")])
  else
    match parse ryu with
    | some (.finite s' i fr ex) =>
      let ds := i ++ fr
      let d := ds.length
      let c := ofDigits ds
      let q : Int := expValue ex - fr.length
      let nn := need d (some q)
      chk (s' == s && rneDecSafe B c q == some (bits % B.signMask)) "RYU" "float formatter contract: text does not round to the float" ++
      -- the rest of the contract the C12 theorems assume (`Props.C12.RyuContractWide`), monitored on every request
      chk (d ≤ 34 && c < 10 ^ 17 && -400 ≤ expValue ex && expValue ex ≤ 400) "RYU" "float formatter contract: more than 17 significant / 34 written digits or a huge exponent" ++
      chk (startsDigitOrMinusDigit ryu) "RYU" "float formatter contract: text does not start with a digit or a minus sign and a digit" ++
      (match a with
       | .none =>
         (match T.capN with
          | some cap => chk (nn > cap) "C12" "None although the shortest digits fit"
          | none => [("C12", "BigBitstring returned None")])
       | .ok bytes =>
         let w := (T.fixedN).getD (bytes.length / 4)
         chk ((T.capN).all (nn ≤ ·)) "C12" "converted although the shortest digits do not fit" ++
         chk (T.fixedN.isSome || (nn ≤ w && (w ≤ nn || (T == .big && nn > 5 && w ≤ nn + 1)))) "C07" s!"width {32*w} bits, smallest sufficient is {32*nn}" ++
         judgeBytes "C12" w (encodeFin ⟨w⟩ s c q) bytes ++
         (match parse printed with
          | some num => chk (num.datum.same (.fin s c q)) "C12" "printed text denotes a different value"
          | none => [("C12", "printed text not grammatical")]) ++
         chk (back == .some (bits : Int)) "C12" "does not convert back to the identical float" ++
         chk (back != .panic) "C05" "panic converting back"
       | _ => [])
    | _ => [("RYU", "float formatter contract: text is not a finite numeral")]

/-- `TryFrom<int>` / `TryFrom<float>` report their refusal as an `Err` whose text must be a truthful width overflow (C17):
    the integer or the float formatter's text is a numeral of `d` written digits and exponent `q` -/
def judgeConvErr (T : Ty) (d : Nat) (q : Int) (f : ErrFacts) : Complaints :=
  match T.capN with
  | some cap => if need d (some q) > cap then judgeOverflowErr (4 * cap) d (some q) true f else []
  | none => []

/-- the same for a float, through the formatter's text -/
def judgeConvErrFloat (T : Ty) (ryu : List Nat) (f : ErrFacts) : Complaints :=
  match parse ryu with
  | some (.finite _ i fr ex) => judgeConvErr T (i ++ fr).length (expValue ex - fr.length) f
  | _ => []

/-! ## Byte-level API (C16, C17) -/

def judgeBytesApi (bytes le be frombe : List Nat) : Complaints :=
  chk (le == bytes) "C16" "as_le_bytes(from_le_bytes(b)) ≠ b" ++
  chk (be == bytes.reverse) "C16" "to_be_bytes is not the byte reversal" ++
  chk (frombe == bytes.reverse) "C16" "from_be_bytes is not the byte reversal"

def judgeTryLe (T : Ty) (bytes : List Nat) (a : PAns) : Complaints :=
  let len := bytes.length
  match a with
  | .panic => [("C05", "panic")]
  | .none => [("C16", "no answer")]
  | .ok b => chk (T.holds len) "C16" s!"accepted length {len}" ++ chk (b == bytes) "C16" "bytes not stored verbatim"
  | .err f =>
    chk (!T.holds len) "C16" s!"rejected valid length {len}" ++
    (if len == 0 || len % 4 != 0 then
       chk (f.kind == "size" && f.a == len && f.b == len + 4 - len % 4) "C17"
         s!"length error should name {len} and {len + 4 - len % 4}, got {f.kind} {f.a} {f.b}"
     else if !T.holds len then
       chk (f.kind == "overflow" && (T.capN).all (f.a == 4 * ·) && f.b == len) "C17"
         s!"length error should name the capacity and {len}, got {f.kind} {f.a} {f.b}"
     else [])

/-! ## Published limits (C18) -/

structure Consts where
  max : List Nat
  min : List Nat
  minPos : List Nat
  fmax : List Nat
  fmin : List Nat
  fminPos : List Nat
  digits : Nat
  minExp : Int
  maxExp : Int
deriving Repr

def judgeConsts (T : Ty) (k : Consts) : Complaints :=
  match T.fixedN with
  | none => []
  | some n =>
    let f : Fmt := ⟨n⟩
    chk (ofLeBytes k.max == encodeFin f false (10 ^ f.p - 1) f.qmax && k.max.length == 4 * n) "C18" "MAX is not the largest finite value" ++
    chk (ofLeBytes k.min == encodeFin f true (10 ^ f.p - 1) f.qmax && k.min.length == 4 * n) "C18" "MIN is not the most negative finite value" ++
    chk (ofLeBytes k.minPos == encodeFin f false 1 f.qmin && k.minPos.length == 4 * n) "C18" "MIN_POSITIVE is not the smallest positive value" ++
    chk (k.fmax == k.max) "C18" "max() ≠ MAX" ++ chk (k.fmin == k.min) "C18" "min() ≠ MIN" ++
    chk (k.fminPos == k.minPos) "C18" "min_positive() ≠ MIN_POSITIVE" ++
    chk (k.digits == f.p) "C18" "DIGITS ≠ p" ++ chk (k.minExp == f.qmin) "C18" "MIN_10_EXP ≠ -bias" ++
    chk (k.maxExp == f.qmax) "C18" "MAX_10_EXP ≠ emax-p+1"

/-! ## Additional judgements (each tags a clause of a property that the rules above judge under another property's tag) -/

/-- C06, "accept exactly": a grammatical string answered with a syntax-class error is a wrongful rejection.  `streaming`:
    the streaming entry point may also answer "buffer too small" (C14), the string entry point may not. -/
def judgeGrammarReject (txt : List Nat) (streaming : Bool) (a : PAns) : Complaints :=
  match parse txt, a with
  | some _, .err f =>
    chk (!(f.kind == "char" || f.kind == "end" || f.kind == "source" || f.kind == "other" || (f.kind == "buffer" && !streaming)))
      "C06" s!"rejected a string of the grammar with a syntax error ({f.kind})"
  | _, _ => []

/-- C08, "agrees with the category the numeric conversions act on": any complaint about the conversion of an infinity or
    a NaN is also a disagreement with the class IEEE assigns to the pattern -/
def judgeClassAgree (bytes : List Nat) (cs : Complaints) : Complaints :=
  match decode ⟨bytes.length / 4⟩ (ofLeBytes bytes) with
  | .fin _ _ _ => []
  | _ => if (cs.filter fun c => c.1 != "C05").isEmpty then [] else
           [("C08", "the conversion does not act on the class IEEE assigns: " ++ (cs.headD ("", "")).2)]

/-- exact test `c·10^e ≤ m·10^q` for naturals `c, m` and integers `e, q`, without building huge powers when the exponents
    are far apart -/
def leScaled (c : Nat) (e : Int) (m : Nat) (q : Int) : Bool :=
  if c = 0 then true
  else if m = 0 then false
  else if e ≥ q then
    let k := (e - q).toNat
    if k > digits10 m then false else c * 10 ^ k ≤ m
  else
    let k := (q - e).toNat
    if k > digits10 c then true else c ≤ m * 10 ^ k

/-- C18, "every finite value of the type lies between MIN and MAX and, if non-zero, is at least MIN_POSITIVE in
    magnitude": judged on the value the type's own `Display` prints for a bit pattern -/
def judgeWithinLimits (T : Ty) (txt : List Nat) : Complaints :=
  match T.fixedN, parse txt with
  | some n, some (.finite _ i fr ex) =>
    let f : Fmt := ⟨n⟩
    let c := ofDigits (i ++ fr)
    let e : Int := expValue ex - fr.length
    chk (leScaled c e (10 ^ f.p - 1) f.qmax) "C18" "a finite value of the type prints as a magnitude above MAX" ++
    chk (c == 0 || leScaled 1 f.qmin c e) "C18" "a non-zero finite value of the type prints as a magnitude below MIN_POSITIVE"
  | _, _ => []

/-- `try_from_le_bytes` on a slice given by its length only (half-gigabyte slices do not travel through the line protocol):
    the same judgement as `judgeTryLe`, which looks at the length and at "stored verbatim" only.
    `ok = some (n, verbatim)`: accepted, `as_le_bytes()` has `n` bytes and equals the input. -/
def judgeTryLeLen (T : Ty) (len : Nat) (ok : Option (Nat × Bool)) (err : Option ErrFacts) : Complaints :=
  match ok, err with
  | some (n, v), _ => chk (T.holds len) "C16" s!"accepted length {len}" ++ chk (n == len && v) "C16" "bytes not stored verbatim"
  | none, some f =>
    chk (!T.holds len) "C16" s!"rejected valid length {len}" ++
    (if len == 0 || len % 4 != 0 then
       chk (f.kind == "size" && f.a == len && f.b == len + 4 - len % 4) "C17"
         s!"length error should name {len} and {len + 4 - len % 4}, got {f.kind} {f.a} {f.b}"
     else if !T.holds len then
       chk (f.kind == "overflow" && (T.capN).all (f.a == 4 * ·) && f.b == len) "C17"
         s!"length error should name the capacity and {len}, got {f.kind} {f.a} {f.b}"
     else [])
  | none, none => [("C16", "no answer")]

end Decstr.Spec
