/-!
# Decstr.Spec.Basic

What the 18 properties talk about, independent of how decstr works.
IEEE 754-2019 §3.5 (decimal interchange formats) for every storage width k = 32·n, the numeral
grammar of property C06, numeral denotation, exact round-to-nearest-even to binary32/binary64.
Core Lean only.  Bytes are `Nat`s `< 256`; a `k`-bit pattern is the natural number whose
little-endian bytes are the buffer; text is a list of byte values.
-/
namespace Decstr.Spec

/-! ## Format parameters (Table 3.6) -/

/-- A decimal interchange format of width `k = 32·n` bits (`n ≥ 1`). -/
structure Fmt where
  n : Nat
deriving DecidableEq, Repr

namespace Fmt
def k (f : Fmt) : Nat := 32 * f.n
/-- precision in digits: `p = 9k/32 − 2` -/
def p (f : Fmt) : Nat := 9 * f.n - 2
/-- `emax = 3·2^(k/16+3)` -/
def emax (f : Fmt) : Nat := 3 * 2 ^ (2 * f.n + 3)
/-- `bias = emax + p − 2` -/
def bias (f : Fmt) : Nat := f.emax + f.p - 2
/-- exponent continuation width `w = k/16 + 4` (the combination field is `w + 5` bits) -/
def w (f : Fmt) : Nat := 2 * f.n + 4
/-- trailing significand width `t = 15k/16 − 10` bits = `declets` groups of 10 -/
def t (f : Fmt) : Nat := 30 * f.n - 10
def declets (f : Fmt) : Nat := 3 * f.n - 1
/-- number of biased exponents: the two leading exponent bits are never `11` -/
def elimit (f : Fmt) : Nat := 3 * 2 ^ f.w
/-- smallest / largest exponent `q` of a finite member `c·10^q` -/
def qmin (f : Fmt) : Int := - (f.bias : Int)
def qmax (f : Fmt) : Int := (f.emax : Int) - f.p + 1
/-- `(digit count, exponent)` is representable exactly -/
def fits (f : Fmt) (digits : Nat) (q : Int) : Prop := digits ≤ f.p ∧ f.qmin ≤ q ∧ q ≤ f.qmax
instance (f : Fmt) (d : Nat) (q : Int) : Decidable (f.fits d q) := by unfold fits; infer_instance
end Fmt

/-! ## Densely packed decimal (Tables 3.3 and 3.4) -/

/-- bit `i` of the 10-bit group, numbered as in the standard: `b 0` is the most significant. -/
def dbit (x i : Nat) : Nat := (x >>> (9 - i)) % 2

/-- Table 3.3: decode any of the 1024 code points to three digits `d1 d2 d3`, as `100·d1+10·d2+d3`. -/
def dpdDecode (x : Nat) : Nat :=
  let b := dbit x
  let (d1, d2, d3) :=
    match b 6, b 7, b 8, b 3, b 4 with
    | 0, _, _, _, _ => (4*b 0 + 2*b 1 + b 2, 4*b 3 + 2*b 4 + b 5, 4*b 7 + 2*b 8 + b 9)
    | _, 0, 0, _, _ => (4*b 0 + 2*b 1 + b 2, 4*b 3 + 2*b 4 + b 5, 8 + b 9)
    | _, 0, _, _, _ => (4*b 0 + 2*b 1 + b 2, 8 + b 5,             4*b 3 + 2*b 4 + b 9)
    | _, _, 0, _, _ => (8 + b 2,             4*b 3 + 2*b 4 + b 5, 4*b 0 + 2*b 1 + b 9)
    | _, _, _, 0, 0 => (8 + b 2,             8 + b 5,             4*b 0 + 2*b 1 + b 9)
    | _, _, _, 0, _ => (8 + b 2,             4*b 0 + 2*b 1 + b 5, 8 + b 9)
    | _, _, _, _, 0 => (4*b 0 + 2*b 1 + b 2, 8 + b 5,             8 + b 9)
    | _, _, _, _, _ => (8 + b 2,             8 + b 5,             8 + b 9)
  100 * d1 + 10 * d2 + d3

/-- Table 3.4: the canonical code point of three digits given as `v = 100·d1+10·d2+d3 < 1000`. -/
def dpdEncode (v : Nat) : Nat :=
  let d1 := v / 100; let d2 := v / 10 % 10; let d3 := v % 10
  let hi (d : Nat) := d / 8                      -- d(0)
  let m  (d : Nat) := d / 2 % 4                  -- d(1:2) as a 2-bit number
  let lo (d : Nat) := d % 2                      -- d(3)
  let mk (g1 g2 g3 : Nat) : Nat := g1 * 128 + g2 * 16 + 8 + g3   -- b0..2, b3..5, b6 = 1, b7..9
  match hi d1, hi d2, hi d3 with
  | 0, 0, 0 => (d1 % 8) * 128 + (d2 % 8) * 16 + (d3 % 8)
  | 0, 0, _ => mk (d1 % 8)            (d2 % 8)            (lo d3)
  | 0, _, 0 => mk (d1 % 8)            (2 * m d3 + lo d2)  (2 + lo d3)
  | 0, _, _ => mk (d1 % 8)            (4 + lo d2)         (6 + lo d3)
  | _, 0, 0 => mk (2 * m d3 + lo d1)  (d2 % 8)            (4 + lo d3)
  | _, 0, _ => mk (2 * m d2 + lo d1)  (2 + lo d2)         (6 + lo d3)
  | _, _, 0 => mk (2 * m d3 + lo d1)  (lo d2)             (6 + lo d3)
  | _, _, _ => mk (lo d1)             (6 + lo d2)         (6 + lo d3)

/-! ## Data and the encoding of a whole bitstring (§3.5.2) -/

/-- What a bit pattern (or a numeral) denotes. -/
inductive Datum where
  | fin (neg : Bool) (coeff : Nat) (exp : Int)
  | inf (neg : Bool)
  | nan (neg : Bool) (signaling : Bool) (payload : Nat)
deriving DecidableEq, Repr

/-- `j` declets of the trailing significand `T`, most significant last, as an integer. -/
def trailingDecode : Nat → Nat → Nat
  | 0, _ => 0
  | j + 1, T => dpdDecode (T % 1024) + 1000 * trailingDecode j (T / 1024)

def trailingEncode : Nat → Nat → Nat
  | 0, _ => 0
  | j + 1, c => dpdEncode (c % 1000) + 1024 * trailingEncode j (c / 1000)

/-- Meaning of **every** `k`-bit pattern `N < 2^k` (little-endian bytes read as a number). -/
def decode (f : Fmt) (N : Nat) : Datum :=
  let neg := N / 2 ^ (f.k - 1) % 2 = 1
  let G := N / 2 ^ f.t % 2 ^ (f.w + 5)             -- combination field
  let g5 := G / 2 ^ f.w                              -- its five leading bits
  let T := N % 2 ^ f.t
  if g5 = 30 then .inf neg
  else if g5 = 31 then .nan neg (G / 2 ^ (f.w - 1) % 2 = 1) (trailingDecode f.declets T)
  else
    let (etop, msd) := if g5 / 8 < 3 then (g5 / 8, g5 % 8) else (g5 / 2 % 4, 8 + g5 % 2)
    let E := etop * 2 ^ f.w + G % 2 ^ f.w
    .fin neg (msd * 1000 ^ f.declets + trailingDecode f.declets T) ((E : Int) - f.bias)

def signBit (f : Fmt) (neg : Bool) : Nat := if neg then 2 ^ (f.k - 1) else 0

/-- Canonical encoding of a finite member; meaningful when `coeff < 10^p` and `qmin ≤ exp ≤ qmax`. -/
def encodeFin (f : Fmt) (neg : Bool) (coeff : Nat) (exp : Int) : Nat :=
  let E := (exp + f.bias).toNat
  let msd := coeff / 1000 ^ f.declets
  let etop := E / 2 ^ f.w
  let g5 := if msd < 8 then etop * 8 + msd else 24 + etop * 2 + (msd - 8)
  signBit f neg + (g5 * 2 ^ f.w + E % 2 ^ f.w) * 2 ^ f.t + trailingEncode f.declets (coeff % 1000 ^ f.declets)

def encodeInf (f : Fmt) (neg : Bool) : Nat := signBit f neg + (30 * 2 ^ f.w) * 2 ^ f.t

def encodeNan (f : Fmt) (neg sig : Bool) (payload : Nat) : Nat :=
  signBit f neg + ((62 + if sig then 1 else 0) * 2 ^ (f.w - 1)) * 2 ^ f.t + trailingEncode f.declets payload

def encode (f : Fmt) : Datum → Nat
  | .fin s c e => encodeFin f s c e
  | .inf s => encodeInf f s
  | .nan s g p => encodeNan f s g p

/-- The canonical pattern with the same meaning. -/
def canon (f : Fmt) (N : Nat) : Nat := encode f (decode f N)

/-- Little-endian bytes of a `k`-bit pattern. -/
def leBytes : Nat → Nat → List Nat
  | 0, _ => []
  | len + 1, N => N % 256 :: leBytes len (N / 256)

def ofLeBytes : List Nat → Nat
  | [] => 0
  | x :: xs => x + 256 * ofLeBytes xs

/-! ### Compiled replacements for the two conversions (no logical content beyond the equalities)

`ofLeBytes` and `leBytes` are the obvious structural recursions; run on a megabyte they are quadratic (one big-number
operation per byte) and recurse a million frames deep.  The divide-and-conquer versions below are proved equal and installed
with `@[csimp]`, so that *compiled* code (the driver) uses them while every theorem keeps talking about the simple definitions. -/

theorem ofLeBytes_append (a b : List Nat) : ofLeBytes (a ++ b) = ofLeBytes a + 256 ^ a.length * ofLeBytes b := by
  induction a with
  | nil => simp [ofLeBytes]
  | cons x xs ih =>
    simp only [List.cons_append, ofLeBytes, ih, List.length_cons, Nat.pow_succ]
    rw [Nat.mul_add, ← Nat.mul_assoc, Nat.mul_comm 256 (256 ^ xs.length), Nat.add_assoc]

def ofLeBytesDC : Nat → List Nat → Nat
  | 0, l => ofLeBytes l
  | f + 1, l =>
    if l.length ≤ 32 then ofLeBytes l
    else
      let h := l.length / 2
      ofLeBytesDC f (l.take h) + 256 ^ h * ofLeBytesDC f (l.drop h)

theorem ofLeBytesDC_eq (f : Nat) (l : List Nat) : ofLeBytesDC f l = ofLeBytes l := by
  induction f generalizing l with
  | zero => rfl
  | succ f ih =>
    unfold ofLeBytesDC
    split
    · rfl
    · simp only [ih]
      have h1 : (l.take (l.length / 2)).length = l.length / 2 := by
        rw [List.length_take]; omega
      conv => rhs; rw [← List.take_append_drop (l.length / 2) l]
      rw [ofLeBytes_append, h1]

def ofLeBytesFast (l : List Nat) : Nat := ofLeBytesDC 64 l

@[csimp] theorem ofLeBytes_eq_fast : @ofLeBytes = @ofLeBytesFast := by
  funext l; exact (ofLeBytesDC_eq 64 l).symm

theorem leBytes_mod (len N : Nat) : leBytes len (N % 256 ^ len) = leBytes len N := by
  induction len generalizing N with
  | zero => rfl
  | succ n ih =>
    simp only [leBytes]
    have h1 : N % 256 ^ (n + 1) % 256 = N % 256 := by
      rw [Nat.pow_succ, Nat.mul_comm]; exact Nat.mod_mul_right_mod N 256 (256 ^ n)
    have h2 : N % 256 ^ (n + 1) / 256 = N / 256 % 256 ^ n := by
      rw [Nat.pow_succ, Nat.mul_comm]; exact Nat.mod_mul_right_div_self N 256 (256 ^ n)
    rw [h1, h2, ih]

theorem leBytes_add (a b N : Nat) : leBytes (a + b) N = leBytes a (N % 256 ^ a) ++ leBytes b (N / 256 ^ a) := by
  induction a generalizing N with
  | zero => simp [leBytes]
  | succ n ih =>
    have e : n + 1 + b = (n + b) + 1 := by omega
    rw [e]
    simp only [leBytes, List.cons_append]
    have h1 : N % 256 ^ (n + 1) % 256 = N % 256 := by
      rw [Nat.pow_succ, Nat.mul_comm]; exact Nat.mod_mul_right_mod N 256 (256 ^ n)
    have h2 : N % 256 ^ (n + 1) / 256 = N / 256 % 256 ^ n := by
      rw [Nat.pow_succ, Nat.mul_comm]; exact Nat.mod_mul_right_div_self N 256 (256 ^ n)
    have h3 : N / 256 ^ (n + 1) = N / 256 / 256 ^ n := by
      rw [Nat.pow_succ, Nat.mul_comm, Nat.div_div_eq_div_mul]
    rw [h1, h2, h3, ih (N / 256)]

def leBytesDC : Nat → Nat → Nat → List Nat
  | 0, len, N => leBytes len N
  | f + 1, len, N =>
    if len ≤ 32 then leBytes len N
    else
      let h := len / 2
      leBytesDC f h (N % 256 ^ h) ++ leBytesDC f (len - h) (N / 256 ^ h)

theorem leBytesDC_eq (f len N : Nat) : leBytesDC f len N = leBytes len N := by
  induction f generalizing len N with
  | zero => rfl
  | succ f ih =>
    unfold leBytesDC
    split
    · rfl
    · simp only [ih]
      have e : len = len / 2 + (len - len / 2) := by omega
      conv => rhs; rw [e]
      rw [leBytes_add]

def leBytesFast (len N : Nat) : List Nat := leBytesDC 64 len N

@[csimp] theorem leBytes_eq_fast : @leBytes = @leBytesFast := by
  funext len N; exact (leBytesDC_eq 64 len N).symm


/-! ## Numerals -/

def ofDigits (ds : List Nat) : Nat := ds.foldl (fun a d => 10 * a + d) 0

/-- A numeral of the grammar of C06, as its fields. Digits are values 0–9, most significant first. -/
inductive Numeral where
  | finite (neg : Bool) (int frac : List Nat) (exp : Option (Bool × List Nat))
  | inf (neg : Bool)
  | nan (neg sig : Bool) (payload : Option (List Nat))
deriving DecidableEq, Repr

def Numeral.datum : Numeral → Datum
  | .finite s i fr ex =>
      let x : Int := match ex with
        | none => 0
        | some (en, ds) => if en then - (ofDigits ds : Int) else ofDigits ds
      .fin s (ofDigits (i ++ fr)) (x - fr.length)
  | .inf s => .inf s
  | .nan s g pl => .nan s g (ofDigits (pl.getD []))

/-- written digit count, the quantity the width/precision rules are about -/
def Numeral.digitCount : Numeral → Nat
  | .finite _ i fr _ => i.length + fr.length
  | .inf _ => 0
  | .nan _ _ pl => (pl.getD []).length

/-! ### Reference recogniser: `[+-]? D (. D)? ((e|E) [+-]? D)? | [+-]? inf(inity)? | [+-]? s? nan ( \( D? \) )?` -/

def isDigit (c : Nat) : Bool := 48 ≤ c && c ≤ 57
def lower (c : Nat) : Nat := if 65 ≤ c && c ≤ 90 then c + 32 else c

def takeDigits : List Nat → List Nat × List Nat
  | c :: cs => if isDigit c then let (d, r) := takeDigits cs; ((c - 48) :: d, r) else ([], c :: cs)
  | [] => ([], [])

def takeSign : List Nat → Option Bool × List Nat
  | 43 :: cs => (some false, cs)
  | 45 :: cs => (some true, cs)
  | cs => (none, cs)

def kw (word : String) (cs : List Nat) : Option (List Nat) :=
  let wl := word.toList.map Char.toNat
  if (cs.take wl.length).map lower = wl then some (cs.drop wl.length) else none

def parseFiniteBody (neg : Bool) (cs : List Nat) : Option Numeral :=
  let (i, r1) := takeDigits cs
  if i.isEmpty then none else
  let fracPart : Option (List Nat × List Nat) :=
    match r1 with
    | 46 :: r => let (fr, r2) := takeDigits r; if fr.isEmpty then none else some (fr, r2)
    | _ => some ([], r1)
  match fracPart with
  | none => none
  | some (fr, r2) =>
    match r2 with
    | [] => some (.finite neg i fr none)
    | c :: r3 =>
      if lower c = 101 then
        let (es, r4) := takeSign r3
        let (ed, r5) := takeDigits r4
        if ed.isEmpty || !r5.isEmpty then none else some (.finite neg i fr (some (es.getD false, ed)))
      else none

def parseSpecialBody (neg : Bool) (cs : List Nat) : Option Numeral :=
  match kw "inf" cs with
  | some [] => some (.inf neg)
  | some r => (match kw "inity" r with | some [] => some (.inf neg) | _ => none)
  | none =>
    let (sig, r) := match kw "s" cs with | some r => (true, r) | none => (false, cs)
    match kw "nan" r with
    | some [] => some (.nan neg sig none)
    | some (40 :: r2) =>
        let (ds, r3) := takeDigits r2
        if r3 = [41] then some (.nan neg sig (some ds)) else none
    | _ => none

def parse (cs : List Nat) : Option Numeral :=
  let (s, r) := takeSign cs
  let neg := s.getD false
  match r with
  | c :: _ => if isDigit c then parseFiniteBody neg r else parseSpecialBody neg r
  | [] => none

/-! ## Exact value and correctly rounded binary floats (for C11–C13, C18) -/

/-- binary interchange format: `prec` significand bits (with the hidden one), `ebits` exponent bits -/
structure BinFmt where
  prec : Nat
  ebits : Nat
def binary32 : BinFmt := ⟨24, 8⟩
def binary64 : BinFmt := ⟨53, 11⟩

/-- `⌊log2 x⌋` for `x > 0` -/
def ilog2 (x : Nat) : Nat := x.log2

/-- Round-to-nearest-even of `±num/den` (`num, den > 0`) to `B`; `none` = overflow to infinity.
    Result is the bit pattern without the sign. -/
def rneRat (B : BinFmt) (num den : Nat) : Option Nat :=
  let ebias := 2 ^ (B.ebits - 1) - 1
  let emin : Int := 1 - ebias                       -- exponent of the smallest normal
  -- e2 = ⌊log2 (num/den)⌋ (exact)
  let e0 : Int := (ilog2 num : Int) - ilog2 den
  let ge (e : Int) : Bool := if e ≥ 0 then num ≥ den * 2 ^ e.toNat else num * 2 ^ (-e).toNat ≥ den
  let e2 : Int := if ge e0 then e0 else e0 - 1
  -- quantum exponent: value = m · 2^q with m < 2^prec
  let q : Int := (max e2 emin) - (B.prec - 1)
  let (a, d) := if q ≥ 0 then (num, den * 2 ^ q.toNat) else (num * 2 ^ (-q).toNat, den)
  let m := a / d; let r := a % d
  let m := if 2 * r > d || (2 * r = d && m % 2 = 1) then m + 1 else m
  -- `field` is 0 in the subnormal binade; for normals `m` carries the hidden bit, which adds 1 to the field
  let field : Int := (q + (B.prec - 1)) - emin
  let bits := field.toNat * 2 ^ (B.prec - 1) + m
  if bits ≥ (2 ^ B.ebits - 1) * 2 ^ (B.prec - 1) then none else some bits

/-- value `c·10^e`, `c > 0` -/
def rneDec (B : BinFmt) (c : Nat) (e : Int) : Option Nat :=
  if e ≥ 0 then rneRat B (c * 10 ^ e.toNat) 1 else rneRat B c (10 ^ (-e).toNat)

end Decstr.Spec
