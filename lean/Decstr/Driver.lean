import Decstr.Spec.Judge
import Decstr.Model.Api
import Decstr.Model.ExecHooks
/-!
# Line-protocol driver

One line in: `<request> => <implementation's answer>`; one line out:
`OK|VIOL <prop>:<why>;… ## <model's answer or -> ## OK|VIOL … (judgement of the model's answer)`.
See `DESIGN.md` §3 for the request and answer formats.  Core Lean only, so that this links as a
native executable.
-/
namespace Decstr.Driver
open Decstr.Spec

def hexVal (c : Char) : Option Nat :=
  if '0' ≤ c && c ≤ '9' then some (c.toNat - 48)
  else if 'a' ≤ c && c ≤ 'f' then some (c.toNat - 87)
  else if 'A' ≤ c && c ≤ 'F' then some (c.toNat - 55)
  else none

def unhexList : List Char → Option (List Nat)
  | [] => some []
  | a :: b :: r => do
      let x ← hexVal a; let y ← hexVal b; let rest ← unhexList r
      pure ((16 * x + y) :: rest)
  | _ => none

/-- `-` is the empty byte string -/
def unhex (s : String) : Option (List Nat) := if s == "-" then some [] else unhexList s.toList

def hexDigit (n : Nat) : Char := if n < 10 then Char.ofNat (48 + n) else Char.ofNat (87 + n)
def hex (bs : List Nat) : String :=
  if bs.isEmpty then "-" else String.ofList (bs.flatMap fun b => [hexDigit (b / 16 % 16), hexDigit (b % 16)])

def parseInt (s : String) : Option Int :=
  if s.startsWith "-" then (s.drop 1).toNat?.map fun n => - (n : Int) else s.toNat?.map Int.ofNat

def hexNat (s : String) : Option Nat := s.toList.foldlM (fun acc c => (hexVal c).map (16 * acc + ·)) 0

def natHex (n w : Nat) : String :=      -- `w` hex digits, big-endian
  String.ofList ((List.range w).reverse.map fun i => hexDigit (n / 16 ^ i % 16))

/-- `ok:<hex>` | `err:<kind>:<a>:<b>:<big>` | `none` | `panic` -/
def parsePAns (s : String) : Option PAns :=
  match s.splitOn ":" with
  | ["ok", h] => (unhex h).map .ok
  | ["err", k, a, b, g] => do pure (.err ⟨k, ← a.toNat?, ← b.toNat?, ← g.toNat?⟩)
  | ["none"] => some .none
  | ["panic"] => some .panic
  | _ => none

def showPAns : PAns → String
  | .ok b => s!"ok:{hex b}"
  | .err f => s!"err:{f.kind}:{f.a}:{f.b}:{f.big}"
  | .none => "none"
  | .panic => "panic"

/-- `some:<int>` | `none` | `panic` -/
def parseOAns (s : String) : Option OAns :=
  match s.splitOn ":" with
  | ["some", v] => (parseInt v).map .some
  | ["none"] => some .none
  | ["panic"] => some .panic
  | _ => none

def showOAns : OAns → String
  | .some v => s!"some:{v}"
  | .none => "none"
  | .panic => "panic"

/-- float answers carry bit patterns in hex: `some:<hex>` -/
def parseFAns (s : String) : Option OAns :=
  match s.splitOn ":" with
  | ["some", v] => (hexNat v).map fun n => .some n
  | ["none"] => some .none
  | ["panic"] => some .panic
  | _ => none

def showFAns (w : Nat) : OAns → String
  | .some v => s!"some:{natHex v.toNat w}"
  | .none => "none"
  | .panic => "panic"

def bit (s : String) : Bool := s == "1"
def showBit (b : Bool) : String := if b then "1" else "0"

/-- fragments are comma separated; an odd-length token starting with `c` is a `write_char` call -/
def parseFrags (s : String) : Option (List (List Nat)) :=
  if s == "." then some []
  else (s.splitOn ",").mapM fun f => if f.length % 2 == 1 && f.startsWith "c" then unhex (f.drop 1).toString else unhex f

def showComplaints (cs : Complaints) : String :=
  if cs.isEmpty then "OK" else "VIOL " ++ ";".intercalate (cs.map fun (p, w) => s!"{p}:{w.replace " " "_"}")

def parseCap (s : String) : Option Nat := if s == "-" then none else s.toNat?

open Decstr.Model in
/-- Judge `ans` for request `req`; `none` = malformed line. -/
def judge (req ans : List String) : Option Complaints :=
  match req, ans with
  | ["parse_str", t, txt], a :: rest => do
      let T ← Ty.ofName t; let txt ← unhex txt; let a ← parsePAns a
      let extra ← (match a, rest with
        | .ok _, [p] => (unhex p).map (judgeReprint txt)
        | _, _ => some [])
      -- BigBitstring has no largest width: for it "accepts exactly the grammar" (C06) has no overflow exception, so the
      -- C07 complaint about a rejected grammatical numeral is a C06 complaint as well
      let big6 := if (judgeParse T txt a).any (fun c => c.1 == "C07" && c.2 == "BigBitstring rejected a grammatical numeral")
                  then [("C06", "BigBitstring rejected a string of the grammar")] else []
      pure (judgeParse T txt a ++ extra ++ judgeGrammarReject txt false a ++ big6)
  | ["parse_fmt", t, cap, frs, fault], [a] => do
      let T ← Ty.ofName t; let frs ← parseFrags frs; let a ← parsePAns a
      pure (judgeParseFmt T (parseCap cap) frs fault a ++
            (if fault.startsWith "fail" then [] else
              (judgeGrammarReject frs.flatten true a).map fun (_, w) => ("C14", s!"[C06] {w}")))
  | ["format", _, b], ["panic"] => do let b ← unhex b; pure (judgeFormat b none)
  | ["format", t, b], ["ok", txt, same] => do
      let b ← unhex b; let txt ← unhex txt
      -- `same` is `1` (Debug text identical to the Display text) or `d<hex>`: the Debug text, judged like the Display text
      -- (C02 asks both to denote the pattern's value, not to be the same text)
      let dbg ← (if same == "1" then some [] else if same.startsWith "d" then
                   (unhex (same.drop 1).toString).map (fun d => (judgeFormat b (some d)).map fun (p, w) => (p, "Debug: " ++ w))
                 else some [("C02", "Debug text missing")])
      pure (judgeFormat b (some txt) ++ dbg ++ (match Ty.ofName t with | some T => judgeWithinLimits T txt | none => []))
  | ["roundtrip", _, b], ["panic"] => do let b ← unhex b; pure (judgeFormat b none)
  | ["roundtrip", t, b], ["ok", txt, back, stable] => do
      let T ← Ty.ofName t; let b ← unhex b; let txt ← unhex txt; let back ← parsePAns back
      pure (judgeRoundtrip T b (some txt) back (bit stable) ++ judgeReparse T txt back)
  | ["classify", _, _], ["panic"] => some [("C05", "panic")]
  | ["classify", _, b], ["cls", bits, neg, tok] => do
      let b ← unhex b
      match bits.toList with
      | [c0, c1, c2, c3, c4, c5] =>
        let f := fun (c : Char) => c == '1'
        pure (judgeClassify b ⟨f c0, f c1, f c2, f c3, f c4, f c5⟩ (bit neg) tok)
      | _ => none
  | ["to_int", _, b, i], [a] => do
      let b ← unhex b; let I ← IntTy.ofName i; let a ← parseOAns a
      pure (judgeToInt b I a ++ judgeClassAgree b (judgeToInt b I a))
  | ["from_int", t, i, v], a :: rest => do
      let T ← Ty.ofName t; let I ← IntTy.ofName i; let v ← parseInt v; let a ← parsePAns a
      match a, rest with
      | .ok _, [p, back] => do
          let p ← unhex p; let back ← parseOAns back
          pure (judgeFromInt T I v a p back)
      -- an `Err` of the `TryFrom` impl is the inherent method's `None` plus the facts its text states (C17)
      | .err f, _ => pure (judgeFromInt T I v .none [] .none ++ judgeConvErr T (digits10 v.natAbs) 0 f)
      | _, _ => pure (judgeFromInt T I v a [] .none)
  | ["to_float", t, b, f], [a] => do
      let T ← Ty.ofName t; let b ← unhex b; let B ← BinFmt.ofName f; let a ← parseFAns a
      pure (judgeToFloat T b B a ++ judgeClassAgree b (judgeToFloat T b B a))
  | ["from_float", t, f, bits, ryu], a :: rest => do
      let T ← Ty.ofName t; let B ← BinFmt.ofName f; let bits ← hexNat bits; let ryu ← unhex ryu
      let a ← parsePAns a
      match a, rest with
      | .ok _, [p, back] => do
          let p ← unhex p; let back ← parseFAns back
          pure (judgeFromFloat T B bits ryu a p back)
      | .err f, _ => pure (judgeFromFloat T B bits ryu .none [] .none ++ judgeConvErrFloat T ryu f)
      | _, _ => pure (judgeFromFloat T B bits ryu a [] .none)
  | ["bytes", _, _], ["panic"] => some [("C05", "panic")]
  | ["bytes", _, b], ["api", le, be, fb] => do
      pure (judgeBytesApi (← unhex b) (← unhex le) (← unhex be) (← unhex fb))
  | ["try_le", t, b], [a] => do
      let T ← Ty.ofName t; pure (judgeTryLe T (← unhex b) (← parsePAns a))
  | ["try_le_fill", _, _, _], ["panic"] => some [("C05", "panic")]
  | ["try_le_fill", t, len, _], ["okfill", n, v] => do
      let T ← Ty.ofName t; pure (judgeTryLeLen T (← len.toNat?) (some (← n.toNat?, v == "1")) none)
  | ["try_le_fill", t, len, _], [a] => do
      let T ← Ty.ofName t
      match ← parsePAns a with
      | .err f => pure (judgeTryLeLen T (← len.toNat?) none (some f))
      | _ => none
  | ["consts", _], ["panic"] => some [("C05", "panic")]
  | ["consts", t], ["consts", mx, mn, mp, fmx, fmn, fmp, dg, e0, e1] => do
      let T ← Ty.ofName t
      pure (judgeConsts T ⟨← unhex mx, ← unhex mn, ← unhex mp, ← unhex fmx, ← unhex fmn, ← unhex fmp,
                            ← dg.toNat?, ← parseInt e0, ← parseInt e1⟩)
  | _, _ => none

def splitArrow (toks : List String) : List String × List String :=
  (toks.takeWhile (· != "=>"), (toks.dropWhile (· != "=>")).drop 1)

/-- Work package HOOKS: `x_<name> <dbg|rel> <args…> => <ok:…|panic|skip>`.  The checked model (`Model/Exec*.lean`) answers
    the same call; the first field is `OK` when both sides agree (value or panic), `SKIP` when the harness could not shape
    the request, else `VIOL X05:<model's site or "value"> model=<…> impl=<…>`.  The third field carries the site the model
    stopped at (`OK site=<site>`), so that the sites exercised by a run can be listed. -/
def answerHookLine (req ans : List String) : String :=
  match req with
  | name :: prof :: args =>
    if prof != "dbg" && prof != "rel" then "BAD ## - ## -"
    else
      match Decstr.Model.Exec.Hooks.answerHookC name (prof == "dbg") args with
      | none => "BAD ## - ## -"
      | some r =>
        let impl := " ".intercalate ans
        let (model, site) := match r with
          | .ok s => (s!"ok:{s}", none)
          | .error site => ("panic", some (site.replace " " "_"))
        let third := match site with
          | some s => s!"OK site={s}"
          | none => "OK"
        if impl == "skip" then s!"SKIP ## {model} ## {third}"
        else if impl == model then s!"OK ## {model} ## {third}"
        else s!"VIOL X05:{site.getD "value"} model={model} impl={impl} ## {model} ## {third}"
  | _ => "BAD ## - ## -"

def answerLine (line : String) : String :=
  let toks := (line.trimAscii.toString.splitOn " ").filter (· != "")
  let (req, ans) := splitArrow toks
  if (req.head?.getD "").startsWith "x_" then answerHookLine req ans else
  -- `op@fromstr`, `op@tryfrom`, `op@t`: the same operation through the crate's conversion-trait impls (`FromStr`,
  -- `TryFrom<&str>`, `From`/`TryFrom` between decimals and primitives); one operation in the model and for the oracle
  let toksOp := req.head?
  let req := match req with
    | op :: rest => ((op.splitOn "@").head?.getD op) :: rest
    | [] => []
  -- `zero()` is `from(0u8)`: the same request for the model and the oracle
  let req := match req with
    | ["zero", t] => ["from_int", t, "u8", "0"]
    | r => r
  -- an error text that names a figure beyond 2^28 bytes (a wrapped subtraction, say) is untruthful on its face (C17), and
  -- the sufficiency test `10^p` for such a width would exhaust the oracle's memory: judged here, not passed on
  let absurd := !(req.head? == some "try_le" || req.head? == some "try_le_fill") && ans.any fun t =>
    t.startsWith "err:" && ((t.splitOn ":").drop 2).any fun f => match f.toNat? with | some n => n > 2 ^ 28 | none => false
  let verdict := if absurd then "VIOL C17:the_error_names_a_width_beyond_2^28_bytes" else match judge req ans with
    | some cs => showComplaints cs
    | none => "BAD"
  let io : Decstr.Model.Io := ⟨unhex, hex, showPAns, showOAns, showFAns, parseFrags, parseInt, hexNat⟩
  -- the model distinguishes the `TryFrom<int|float>` impls (their refusal is an error with facts, not `None`)
  let mreq := match toksOp with
    | some op => if op == "from_int@t" || op == "from_float@t" then op :: req.drop 1 else req
    | none => req
  let (m, mv) := match Decstr.Model.answerWith io mreq with
    | some ma => (" ".intercalate ma, match judge req ma with | some cs => showComplaints cs | none => "BAD")
    | none => ("-", "-")
  s!"{verdict} ## {m} ## {mv}"

end Decstr.Driver
