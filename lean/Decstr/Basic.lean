def hello := "world"
