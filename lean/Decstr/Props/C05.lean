import Decstr.Props.C10
import Decstr.Props.C13
/-!
# C05 — no public operation panics (what the model can say about it)

The model is total and pure: slice indexing, integer overflow and `debug_assert!` inside the codec are **not** modelled
as panic outcomes (DESIGN §10.2), so for those C05 rests on executing every request under `catch_unwind` in both build
profiles and three feature sets.  What *is* modelled are the `expect`s of the API layer, where a `Result` from inside
the library is turned into a panic; these are proved unreachable:

* `C10.C10_infallible` — the integer conversions offered as `From` never fail;
* `C12.C12_infallible` — the float conversions offered as `From` never fail (relative to the formatter's contract);
* `C13.C13_b32_total`  — `Bitstring32::to_f64` always has a value;
* `parseFiniteStr (toDecimal v)` never fails — "primitive integers can always be parsed" (inside `C10.C10_from`:
  the `.panic` answer there is only ever the overflow of an infallible conversion).
The fallible entry points return `Except`/`Option` in the model by construction.
-/
namespace Decstr.Props.C05
open Decstr.Model Decstr.Spec Decstr.Proofs

/-- integer conversions: the only panic the model can produce is the `expect` of a conversion offered as infallible,
    and that is unreachable for every value of the integer type -/
theorem C05_from_int (T : Ty) (I : IntTy) (hI : I.bits = 8 ∨ I.bits = 16 ∨ I.bits = 32 ∨ I.bits = 64 ∨ I.bits = 128)
    (v : Int) (hv : I.contains v = true) : fromInt T I v ≠ .panic := by
  intro hp
  have h := C10.C10_from T I v
  simp only at h
  rw [hp] at h
  obtain ⟨hinf, _⟩ := h
  obtain ⟨b, hb⟩ := C10.C10_infallible T I hI hinf v hv
  rw [hp] at hb; cases hb

/-- `Bitstring32::to_f64` (the one infallible decimal → float conversion) -/
theorem C05_b32_to_f64 (b : Buf) (h : WF b 1) : ∃ bits, toFloat b binary64 = some bits := C13.C13_b32_total b h

end Decstr.Props.C05
