import Decstr.Proofs.Encode
import Decstr.Proofs.SpecLemmas
import Decstr.Proofs.ParseLemmas
import Decstr.Props.C07
/-!
# C01 / C04 / C09 / C17 — what the encoder produces from the parsed fields

`encodeFinite T neg digits exp` is everything `decimal_from_parsed` does after the text has been tokenised: allocate
the buffer (`try_with_at_least_precision`), encode the trailing significand, the combination field, the exponent and
the sign.  `digits` are the written digits (ASCII, leading zeros kept), `q` the written exponent minus the number of
fractional digits; for the `i32`-exponent types the model passes the *saturated* exponent, as the code does.
The link from a text to these fields is the parser (property C06, `Decstr/Props/C06.lean`).
-/
namespace Decstr.Props.C01
open Decstr.Model Decstr.Spec Decstr.Proofs

/-- the exponent the code hands on: saturated `i32` arithmetic for the four bounded types, exact for `BigBitstring` -/
def passed (T : Ty) (q : Int) : Int := if T.expIsI32 then satI32 q else q

theorem widthBits_zero (n : Nat) : (Buf.zero (4 * n)).widthBits = 32 * n := by simp [Buf.zero, Buf.widthBits]; omega
theorem precision_zero (n : Nat) (hn : 0 < n) : (Buf.zero (4 * n)).precision = 9 * n - 2 := by
  simp only [Buf.precision, widthBits_zero]; omega

theorem alloc_err_bytes (T : Ty) (bytes : Nat) (err : OverflowErr) (h : T.withAtLeastBytes bytes = .error err) :
    ∃ cap, err = .wouldOverflow cap bytes := by
  cases T <;> simp only [Ty.withAtLeastBytes] at h <;>
    first
      | (split at h
         · injection h with h; exact ⟨_, h.symm⟩
         · cases h)
      | cases h

theorem capN_le_five (T : Ty) (cap : Nat) (h : T.capN = some cap) : cap ≤ 5 := by
  cases T <;> simp [Ty.capN] at h <;> omega
theorem expIsI32_of_cap (T : Ty) (cap : Nat) (h : T.capN = some cap) : T.expIsI32 = true := by
  cases T <;> simp [Ty.capN, Ty.expIsI32] at h ⊢

/-- **C01 / C04 / C07 / C17 (finite numerals, all types, all widths).**
Let `d` be the written digit count and `q` the exponent of the integer coefficient.

* If the type gives a buffer, its width `32n` is the type's own (fixed types), the smallest sufficient (`Bitstring`),
  or at most one step above the smallest sufficient and exactly minimal up to 160 bits (`BigBitstring`); in every case
  `d ≤ p(n)` and `q` lies in the exponent range of `n`, and the bytes are **exactly** `Spec.encodeFin` of the written sign,
  the written digit string read as an integer and `q` — nothing rounded, dropped, reordered or normalised.
* Otherwise the answer is an overflow error (never a panic, an infinity or a clamped value): the smallest sufficient
  width exceeds the type's capacity, and the error names that capacity and a needed width that is larger, a multiple of
  4 bytes and sufficient.

`hq` is what `decimal_from_parsed` guarantees for the bounded types: the written exponent is an `i32` and at most `d`
fractional digits are subtracted from it. -/
theorem C01_encodeFinite (T : Ty) (neg : Bool) (ds : List Nat) (hds : AsciiDigits ds) (hne : ds ≠ []) (q : Int)
    (hq : T.expIsI32 = true → i32Min - ds.length ≤ q ∧ q ≤ i32Max + ds.length) :
    match encodeFinite T neg ds (passed T q) with
    | .ok b => ∃ n, 0 < n ∧ b = ⟨4 * n, encodeFin ⟨n⟩ neg (valOf ds) q⟩ ∧ (Fmt.mk n).fitsB ds.length (some q) = true ∧
        b.bits < 2 ^ (32 * n) ∧ valOf ds < 10 ^ (Fmt.mk n).p ∧ (∀ cap, T.capN = some cap → n ≤ cap) ∧
        (match T.fixedN with
         | some w => n = w
         | none => need ds.length (some q) ≤ n ∧ n ≤ need ds.length (some q) + 1 ∧
                   (need ds.length (some q) ≤ 5 → n = need ds.length (some q)))
    | .error err => ∃ cap n, T.capN = some cap ∧ cap < need ds.length (some q) ∧
        err = .wouldOverflow (4 * cap) (4 * n) ∧ cap < n ∧ (Fmt.mk n).fitsB ds.length (some q) = true := by
  have hd : 0 < ds.length := List.length_pos_iff.mpr hne
  have halloc := C07.C07_alloc T ds.length hd (some (passed T q))
  unfold encodeFinite
  cases hr : T.withPrecision ds.length (some (passed T q)) with
  | error err =>
    rw [hr] at halloc
    obtain ⟨cap, n, hc, hlt, he, hcn, hfit⟩ := halloc
    have hi := expIsI32_of_cap T cap hc
    have hc5 := capN_le_five T cap hc
    simp only [passed, hi, if_true] at hlt hfit hr
    obtain ⟨hlo, hhi⟩ := hq hi
    refine ⟨cap, n, hc, ?_, he, hcn, ?_⟩
    · have := (satI32_need_le q ds.length cap (by omega))
      omega
    · -- the width named is the one computed from the saturated exponent; it is sufficient for the true exponent
      have hb : bytesForPrecision ds.length (some (satI32 q)) = 4 * n := by
        simp only [Ty.withPrecision] at hr
        obtain ⟨c', hc'⟩ := alloc_err_bytes T _ err hr
        rw [he] at hc'
        injection hc' with _ h2
        exact h2.symm
      exact satI32_sufficient q ds.length hd hlo hhi n hb
  | ok b0 =>
    rw [hr] at halloc
    obtain ⟨n, hb0, hn, hfit, hcapn, hw⟩ := halloc
    subst hb0
    -- the exponent passed on equals the true exponent whenever a buffer was given
    have hqq : passed T q = q := by
      unfold passed
      by_cases hi : T.expIsI32 = true
      · simp only [hi, if_true]
        have hn5 : n ≤ 5 := by
          cases T <;> simp [Ty.expIsI32] at hi <;> simp only [Ty.fixedN] at hw <;>
            (first
              | omega
              | (simp only [Ty.withPrecision, Ty.withAtLeastBytes] at hr
                 split at hr
                 · cases hr
                 · injection hr with hr; simp [Buf.zero] at hr; omega))
        have hns : need ds.length (some (satI32 q)) ≤ n := by
          simp only [passed, hi, if_true] at hfit
          exact (need_le_iff _ _ n hn).2 hfit
        exact satI32_eq_of_need_le q ds.length n (by omega) ((satI32_need_le q ds.length n (by omega)).2 hns)
      · simp only [hi]; rfl
    rw [hqq] at hfit hw ⊢
    have hfit' := hfit
    simp only [Fmt.fitsB, Bool.and_eq_true, decide_eq_true_eq] at hfit'
    obtain ⟨hlen, hq1, hq2⟩ := hfit'
    have hbits := encode_finite_bits n hn neg ds hds hne hlen q ⟨hq1, hq2⟩
    have hs := (encodeSignificand_spec n hn ds hds hne hlen).1
    have hwb : (encodeSignificand (Buf.zero (4 * n)) ds).1.widthBits = 32 * n := by
      rw [hs]; simp only [Buf.widthBits]; omega
    have hpr : (encodeSignificand (Buf.zero (4 * n)) ds).1.precision = 9 * n - 2 := by
      simp only [Buf.precision, hwb]; omega
    simp only [hwb, hpr]
    have hval : valOf ds < 10 ^ (Fmt.mk n).p := Nat.lt_of_lt_of_le (valOf_lt hds) (Nat.pow_le_pow_right (by decide) hlen)
    refine ⟨n, hn, hbits, hfit, ?_, hval, hcapn, hw⟩
    rw [hbits]
    exact encodeFin_lt n hn neg _ (by simpa [Fmt.p] using hval) q ⟨hq1, hq2⟩

end Decstr.Props.C01
