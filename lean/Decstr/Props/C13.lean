import Decstr.Proofs.Decode
import Decstr.Proofs.ToFloat
import Decstr.Proofs.RneBounds
/-!
# C13 — decimal → binary float is `None` or the correctly rounded value, never wrong

`toFloat b B` is the model of `to_f32`/`to_f64`/`TryFrom` (`decimal_to_binary_float`).  `str::parse::<f32|f64>` is
modelled as exact round-to-nearest-even (`Spec.rneDecSafe`) — an assumption of the trusted base that the
correspondence check compares against the real `str::parse` on every request.
-/
namespace Decstr.Props.C13
open Decstr.Model Decstr.Spec Decstr.Proofs Decstr.Proofs.DecodeAux

/-- **C13 (never wrong).** A `Some` for a finite decimal is the round-to-nearest-even float of its exact value,
    finite, with the decimal's sign (tiny values round to a subnormal or a zero of the same sign). -/
theorem C13_sound (b : Buf) (n : Nat) (h : WF b n) (B : BinFmt) (hB : B = binary32 ∨ B = binary64)
    (hfin : isFinite b = true) (bits : Nat) (hv : toFloat b B = some bits) :
    ∃ s c e m, decode ⟨n⟩ b.bits = .fin s c e ∧ rneDecSafe B c e = some m ∧ m < B.infBits ∧
      bits = (if s then B.signMask else 0) + m := by
  rw [toFloat_finite b B hfin] at hv
  obtain ⟨_, ha⟩ := allDigits_ascii b n h
  obtain ⟨m, h1, h2, h3⟩ := toFloatFinite_sound B hB _ _ ha _ bits hv
  exact ⟨_, _, _, m, decode_finite b n h hfin, h1, h2, h3⟩

/-- **C13 (overflow).** `None` whenever the correctly rounded result would be infinite. -/
theorem C13_overflow (b : Buf) (n : Nat) (h : WF b n) (B : BinFmt) (hB : B = binary32 ∨ B = binary64)
    (s : Bool) (c : Nat) (e : Int) (hd : decode ⟨n⟩ b.bits = .fin s c e) (ho : rneDecSafe B c e = none) :
    toFloat b B = none := by
  have hfin : isFinite b = true := by
    have hc := C08.C08_ieee b n (toC08 h)
    rw [hd] at hc
    have : (C08.modelCls b).fin = true := by rw [hc]; rfl
    exact this
  rw [toFloat_finite b B hfin]
  obtain ⟨_, ha⟩ := allDigits_ascii b n h
  have hd' := decode_finite b n h hfin
  rw [hd] at hd'
  injection hd' with _ h2 h3
  apply toFloatFinite_overflow B hB _ _ ha
  rw [← h2, ← h3]; exact ho

/-- **C13 (specials).** Infinities map to the infinity of the same sign, NaNs to a NaN of the same sign. -/
theorem C13_infinity (b : Buf) (B : BinFmt) (hB : B = binary32 ∨ B = binary64) (hnf : isFinite b = false) (hi : isInfinite b = true) :
    ∃ bits, toFloat b B = some bits ∧ B.isInf bits = true ∧ (bits ≥ B.signMask ↔ isSignNegative b = true) := by
  obtain ⟨h1, h2, _⟩ := infinity_bits B hB (isSignNegative b)
  exact ⟨_, toFloat_infinite b B hnf hi, h1, h2⟩

theorem C13_nan (b : Buf) (B : BinFmt) (hB : B = binary32 ∨ B = binary64) (hnf : isFinite b = false) (hi : isInfinite b = false) :
    ∃ bits, toFloat b B = some bits ∧ B.isNan bits = true ∧ (bits ≥ B.signMask ↔ isSignNegative b = true) := by
  obtain ⟨h1, h2, _⟩ := toFloatNan_isNan B hB (isSignNegative b) (decodeDeclets b).flatten
  exact ⟨_, toFloat_nan b B hnf hi, h1, h2⟩

/-- **C13 (Some, fixed-capacity types).** At most 17 significant digits, a width of at most 160 bits and a finite
    rounding give `Some`. -/
theorem C13_some (b : Buf) (n : Nat) (h : WF b n) (hn : n ≤ 5) (B : BinFmt) (hB : B = binary32 ∨ B = binary64)
    (hfin : isFinite b = true)
    (hsig : ((allDigits b (unbiasedExponent b).2).dropWhile (· == 48)).length ≤ 17)
    (m : Nat) (hm : rneDecSafe B (valOf (allDigits b (unbiasedExponent b).2)) (unbiasedExponent b).1 = some m) :
    toFloat b B = some ((if isSignNegative b then B.signMask else 0) + m) := by
  rw [toFloat_finite b B hfin]
  obtain ⟨_, ha⟩ := allDigits_ascii b n h
  obtain ⟨h1, h2⟩ := finite_exponent_range b n h hfin
  have hp := h.pos
  have hb : (Fmt.mk n).qmax ≤ 24534 ∧ -24617 ≤ (Fmt.mk n).qmin := by
    have : n = 1 ∨ n = 2 ∨ n = 3 ∨ n = 4 ∨ n = 5 := by omega
    rcases this with rfl | rfl | rfl | rfl | rfl <;> decide
  exact toFloatFinite_some_strong B hB _ _ ha _ hsig ⟨by omega, by omega⟩ m hm

/-- **C13 (Bitstring32::to_f64 is total).** Every finite 32-bit pattern converts to an `f64`, so the infallible
    `to_f64` cannot panic. -/
theorem C13_b32_total (b : Buf) (h : WF b 1) : ∃ bits, toFloat b binary64 = some bits := by
  by_cases hfin : isFinite b = true
  · rw [toFloat_finite b _ hfin]
    obtain ⟨hl, ha⟩ := allDigits_ascii b 1 h
    obtain ⟨h1, h2⟩ := finite_exponent_range b 1 h hfin
    exact toFloatFinite_b32_f64 _ _ ha hl _ ⟨by simpa [Fmt.qmin, Fmt.bias, Fmt.emax, Fmt.p] using h1,
      by simpa [Fmt.qmax, Fmt.emax, Fmt.p] using h2⟩
  · have hfin' : isFinite b = false := by simpa using hfin
    by_cases hi : isInfinite b = true
    · exact ⟨_, toFloat_infinite b _ hfin' hi⟩
    · exact ⟨_, toFloat_nan b _ hfin' (by simpa using hi)⟩

/-- non-vacuity: `1.5` at 32 bits is `0x3FF8000000000000` -/
example : toFloat (Buf.ofBytes [0x15, 0x00, 0x40, 0x22]) binary64 = some 0x3FF8000000000000 := by decide +kernel

end Decstr.Props.C13
