import Decstr.Model.Convert
/-!
# C08 — classification is a partition that follows the IEEE combination field

The six classifiers of the model are functions of the most significant byte; the facts are decided
over all 256 byte values by kernel evaluation and lifted to every buffer of every width `32n`.
-/
namespace Decstr.Props.C08
open Decstr.Model Decstr.Spec

/-- classification as a function of the last byte -/
def clsOfByte (x : Nat) : Cls :=
  ⟨x &&& SIGN_NEGATIVE == SIGN_NEGATIVE, x &&& FINITE_COMBINATION != FINITE_COMBINATION,
   x &&& INFINITY_COMBINATION == INFINITY, x &&& NAN == NAN, x &&& NAN_COMBINATION == NAN,
   x &&& NAN_COMBINATION == NAN_COMBINATION⟩

def modelCls (b : Buf) : Cls :=
  ⟨isSignNegative b, isFinite b, isInfinite b, isNan b, isQuietNan b, isSignalingNan b⟩

theorem modelCls_eq (b : Buf) : modelCls b = clsOfByte b.last := rfl

/-- what IEEE 754 assigns to the five combination bits `x[6:2]`, the signaling bit `x[1]` and the sign `x[7]` -/
def ieeeOfByte (x : Nat) : Cls :=
  let g5 := x / 4 % 32
  let s := x / 128 % 2 = 1
  let g := x / 2 % 2 = 1
  if g5 = 30 then ⟨s, false, true, false, false, false⟩
  else if g5 = 31 then ⟨s, false, false, true, !g, g⟩
  else ⟨s, true, false, false, false, false⟩

theorem byte_table : ∀ x < 256, clsOfByte x = ieeeOfByte x := by decide +kernel

theorem last_lt (b : Buf) : b.last < 256 := Nat.mod_lt _ (by decide)

/-- **C08 (partition).** Exactly one of `is_finite`, `is_infinite`, `is_nan` holds, for every buffer. -/
theorem C08_partition (b : Buf) :
    (isFinite b = true ∧ isInfinite b = false ∧ isNan b = false) ∨
    (isFinite b = false ∧ isInfinite b = true ∧ isNan b = false) ∨
    (isFinite b = false ∧ isInfinite b = false ∧ isNan b = true) := by
  have h : ∀ x < 256,
      ((clsOfByte x).fin = true ∧ (clsOfByte x).inf = false ∧ (clsOfByte x).nan = false) ∨
      ((clsOfByte x).fin = false ∧ (clsOfByte x).inf = true ∧ (clsOfByte x).nan = false) ∨
      ((clsOfByte x).fin = false ∧ (clsOfByte x).inf = false ∧ (clsOfByte x).nan = true) := by
    decide +kernel
  exact h b.last (last_lt b)

/-- **C08 (NaN kinds).** `is_nan` holds iff exactly one of `is_quiet_nan` / `is_signaling_nan` holds. -/
theorem C08_nan_kinds (b : Buf) : isNan b = (isQuietNan b != isSignalingNan b) := by
  have h : ∀ x < 256, (clsOfByte x).nan = ((clsOfByte x).qnan != (clsOfByte x).snan) := by decide +kernel
  exact h b.last (last_lt b)

/-! ### lifting to the specification's decoder, for every width -/

/-- a well-formed buffer of `4n` bytes -/
structure WF (b : Buf) (n : Nat) : Prop where
  pos : 0 < n
  len : b.len = 4 * n
  lt : b.bits < 2 ^ (32 * n)

theorem last_eq (b : Buf) (n : Nat) (h : WF b n) : b.last = b.bits / 2 ^ (32 * n - 8) := by
  unfold Buf.last Buf.get
  have hp := h.pos
  rw [h.len, Nat.shiftRight_eq_div_pow]
  have e : 8 * (4 * n - 1) = 32 * n - 8 := by omega
  rw [e]
  apply Nat.mod_eq_of_lt
  rw [Nat.div_lt_iff_lt_mul (Nat.two_pow_pos _)]
  calc b.bits < 2 ^ (32 * n) := h.lt
    _ = 256 * 2 ^ (32 * n - 8) := by
        have : 32 * n = 8 + (32 * n - 8) := by omega
        conv => lhs; rw [this, Nat.pow_add]

theorem fmt_sum (n : Nat) (hp : 0 < n) : (Fmt.mk n).t + (Fmt.mk n).w = 32 * n - 6 := by
  simp only [Fmt.t, Fmt.w]; omega

theorem div_div_pow (a x y : Nat) : a / 2 ^ x / 2 ^ y = a / 2 ^ (x + y) := by
  rw [Nat.div_div_eq_div_mul, ← Nat.pow_add]

/-- the five leading combination bits are bits 6..2 of the last byte -/
theorem g5_eq (b : Buf) (n : Nat) (h : WF b n) :
    b.bits / 2 ^ (Fmt.mk n).t % 2 ^ ((Fmt.mk n).w + 5) / 2 ^ (Fmt.mk n).w = b.last / 4 % 32 := by
  have hp := h.pos
  rw [Nat.pow_add, Nat.mod_mul_right_div_self, div_div_pow, fmt_sum n hp, last_eq b n h]
  have : (4 : Nat) = 2 ^ 2 := rfl
  rw [this, div_div_pow]
  have e : 32 * n - 8 + 2 = 32 * n - 6 := by omega
  rw [e]

theorem sig_eq (b : Buf) (n : Nat) (h : WF b n) :
    b.bits / 2 ^ (Fmt.mk n).t % 2 ^ ((Fmt.mk n).w + 5) / 2 ^ ((Fmt.mk n).w - 1) % 2 = b.last / 2 % 2 := by
  have hp := h.pos
  have hw : (Fmt.mk n).w + 5 = ((Fmt.mk n).w - 1) + 6 := by simp only [Fmt.w]; omega
  rw [hw, Nat.pow_add, Nat.mod_mul_right_div_self, div_div_pow, last_eq b n h]
  have e1 : (Fmt.mk n).t + ((Fmt.mk n).w - 1) = 32 * n - 7 := by simp only [Fmt.t, Fmt.w]; omega
  rw [e1]
  have : (2 : Nat) = 2 ^ 1 := rfl
  rw [show b.bits / 2 ^ (32 * n - 8) / 2 = b.bits / 2 ^ (32 * n - 8) / 2 ^ 1 from rfl, div_div_pow]
  have e : 32 * n - 8 + 1 = 32 * n - 7 := by omega
  rw [e]
  rw [Nat.mod_mod_of_dvd _ (by decide : 2 ∣ 2 ^ 6)]

theorem sign_eq (b : Buf) (n : Nat) (h : WF b n) :
    b.bits / 2 ^ ((Fmt.mk n).k - 1) % 2 = b.last / 128 % 2 := by
  have hp := h.pos
  rw [last_eq b n h]
  have : (128 : Nat) = 2 ^ 7 := rfl
  rw [this, div_div_pow]
  have e : 32 * n - 8 + 7 = (Fmt.mk n).k - 1 := by simp only [Fmt.k]; omega
  rw [e]

/-- the class `Spec.decode` assigns to a bit pattern -/
def clsOfDatum : Datum → Cls
  | .fin s _ _ => ⟨s, true, false, false, false, false⟩
  | .inf s => ⟨s, false, true, false, false, false⟩
  | .nan s g _ => ⟨s, false, false, true, !g, g⟩

theorem decode_cls (b : Buf) (n : Nat) (h : WF b n) :
    clsOfDatum (decode ⟨n⟩ b.bits) = ieeeOfByte b.last := by
  unfold decode ieeeOfByte
  simp only [g5_eq b n h, sig_eq b n h, sign_eq b n h]
  split
  · simp [clsOfDatum]
  · split
    · simp [clsOfDatum]
    · simp [clsOfDatum]

/-- **C08 (IEEE).** For every width `32n` and every bit pattern, the six classifiers give exactly the answers
IEEE 754 assigns to the combination field (`11110` infinity, `11111` NaN with the next bit selecting
signaling, anything else finite) and the sign is the most significant bit — reserved and payload bits are ignored. -/
theorem C08_ieee (b : Buf) (n : Nat) (h : WF b n) : modelCls b = clsOfDatum (decode ⟨n⟩ b.bits) := by
  rw [decode_cls b n h, modelCls_eq]
  exact byte_table _ (last_lt b)

/-- non-vacuity: a concrete non-canonical infinity (reserved bit set, payload bits set) at 64 bits -/
example : WF ⟨8, 0x7Bffffffffffffff⟩ 2 ∧ modelCls ⟨8, 0x7Bffffffffffffff⟩ = ⟨false, false, true, false, false, false⟩ := by
  refine ⟨⟨by decide, rfl, by decide⟩, by decide +kernel⟩

end Decstr.Props.C08
