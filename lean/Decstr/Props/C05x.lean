import Decstr.Proofs.ExecApi3
import Decstr.Proofs.ExecClosure
/-!
# C05x — no public operation panics: every panic site of the codec, explicit and proved unreachable

The *checked* model (`Decstr/Model/Exec*.lean`) mirrors the Rust code function by function and returns
`.error "file:line what"` exactly where the Rust code would panic: slice/array indexing and slicing, `expect`/`unwrap`,
`unreachable!()`, and — with `checks = true`, the debug profile — `debug_assert*!`, integer overflow and over-long shifts
(with `checks = false`, the release profile, those wrap / are masked, as the hardware does).

For each public operation `op` and **both** profiles, `opC checks x = .ok (op x)`: no panic site is reached and the value
is the pure model's.  Hypotheses are only what the type system of the crate guarantees about an argument:

* a decimal argument is a buffer of `4n` bytes (`n ≥ 1`) that the type can hold (`n ≤ 5` for the four `i32`-exponent
  types) — `[u8; N]` by construction for the fixed types, the length test of `try_from_le_bytes` for the others
  (`tryFromLeBytes_wf`);
* an integer argument is a value of its type;
* for `from_f32/from_f64` the text is what `ryu` prints (starts with a digit or `-` and a digit), and the API-level
  `expect("infallible conversion")` is the pure model's `.panic` answer, excluded by property C12 (not re-proved here);
* sizes: `usize → i32` casts are not modelled; `toTextC` needs the digit count `9n` to fit an `i32` (a buffer below ~950 MB).
-/
namespace Decstr.Props.C05x
open Decstr.Model Decstr.Model.Exec Decstr.Spec Decstr.Proofs Decstr.Proofs.Exec

/-- a byte string of `4n` bytes as an argument of type `T` -/
structure Arg (T : Ty) (n : Nat) (bytes : List Nat) : Prop where
  pos : 0 < n
  len : bytes.length = 4 * n
  byte : ∀ x ∈ bytes, x < 256
  holds : T.expIsI32 = true → n ≤ 5

theorem Arg.wf {T : Ty} {n : Nat} {bytes : List Nat} (h : Arg T n bytes) : WF (Buf.ofBytes bytes) n :=
  WF.ofBytes bytes n h.pos h.len h.byte

/-- `T::from_le_bytes` of a fixed-width type is an `Arg` -/
theorem arg_fixed (T : Ty) (w : Nat) (hw : T.fixedN = some w) (bytes : List Nat) (hl : bytes.length = 4 * w)
    (hb : ∀ x ∈ bytes, x < 256) : Arg T w bytes := by
  refine ⟨?_, hl, hb, ?_⟩ <;> cases T <;> simp [Ty.fixedN] at hw <;> omega

/-- what `try_from_le_bytes` accepts is an `Arg` -/
theorem arg_tryFromLeBytes (T : Ty) (bytes : List Nat) (hb : ∀ x ∈ bytes, x < 256) (b : Buf)
    (h : tryFromLeBytes T bytes = .ok b) : ∃ n, Arg T n bytes ∧ b = Buf.ofBytes bytes := by
  obtain ⟨n, hwf, hl, hT⟩ := tryFromLeBytes_wf T bytes hb b h
  refine ⟨n, ⟨hwf.pos, hl, hb, hT⟩, ?_⟩
  unfold tryFromLeBytes at h
  simp only [] at h
  split at h
  · cases h
  · split at h
    · cases h
    · split at h
      · cases h
      · injection h with h; exact h.symm

/-- **C05x.** No public operation reaches a panic site, in the debug profile (`checks = true`: `debug_assert!`s and
overflow checks on) or the release profile (`checks = false`), for every input. -/
theorem C05x_no_panic (checks : Bool) :
    -- parsing: any text, any fragments, any `Display` behaviour
    (∀ T input, tryParseStrC T checks input = .ok (tryParseStr T input)) ∧
    (∀ T frags fault, tryParseC T checks frags fault = .ok (tryParse T frags fault)) ∧
    -- construction from bytes: any byte slice
    (∀ T bytes, tryFromLeBytesC T bytes = .ok (tryFromLeBytes T bytes)) ∧
    -- classification, formatting, conversion of any decimal argument
    (∀ T n bytes, Arg T n bytes → classifyC checks (Buf.ofBytes bytes) = .ok (classify (Buf.ofBytes bytes))) ∧
    (∀ T n bytes, Arg T n bytes → 9 * n ≤ 2147483647 →
      toTextC T checks (Buf.ofBytes bytes) = .ok (toText T (Buf.ofBytes bytes))) ∧
    (∀ T n bytes I, Arg T n bytes → toIntC T checks (Buf.ofBytes bytes) I = .ok (toInt T (Buf.ofBytes bytes) I)) ∧
    (∀ T n bytes B, Arg T n bytes → toFloatC T checks (Buf.ofBytes bytes) B = .ok (toFloat (Buf.ofBytes bytes) B)) ∧
    (∀ bytes, Arg .b32 1 bytes → ∃ bits, toFloatInfallibleC .b32 checks (Buf.ofBytes bytes) binary64 = .ok bits) ∧
    -- conversion from integers and binary floats
    (∀ T I v, (I.bits = 8 ∨ I.bits = 16 ∨ I.bits = 32 ∨ I.bits = 64 ∨ I.bits = 128) → I.contains v = true →
      fromIntC T checks I v = .ok (fromInt T I v).opt) ∧
    (∀ T B bits ryu, startsWithDigitOrMinusDigit ryu = true → fromFloat T B bits ryu ≠ .panic →
      fromFloatC T checks B bits ryu = .ok (fromFloat T B bits ryu).opt) ∧
    -- the constants
    (∀ (T : Ty) n, 0 < n → (T.expIsI32 = true → n ≤ 5) →
      ∀ neg, encodeMaxC T.expRep checks (4 * n) neg = .ok (encodeMax (4 * n) neg) ∧
             encodeMinC T.expRep checks (4 * n) neg = .ok (encodeMin (4 * n) neg)) := by
  refine ⟨fun T input => tryParseStrC_eq T checks input, fun T frags fault => tryParseC_eq T checks frags fault,
    fun T bytes => tryFromLeBytesC_eq T bytes, ?_, ?_, ?_, ?_, ?_, ?_, ?_, ?_⟩
  · intro T n bytes h
    exact classifyC_eq checks _ (by rw [h.wf.len]; have := h.pos; omega)
  · intro T n bytes h hsz
    exact toTextC_eq T checks _ n h.wf h.holds hsz
  · intro T n bytes I h
    exact toIntC_eq T checks _ n h.wf h.holds I
  · intro T n bytes B h
    exact toFloatC_eq T checks _ n h.wf h.holds B
  · intro bytes h
    obtain ⟨bits, hb, _⟩ := toFloatInfallibleC_b32 checks _ h.wf
    exact ⟨bits, hb⟩
  · intro T I v hI hv
    exact fromIntC_eq T checks I hI v hv
  · intro T B bits ryu hs hnp
    exact fromFloatC_eq T checks B bits ryu hs hnp
  · intro T n hn hT neg
    have hr : T.expRep.isI32 = true → n ≤ 5 := by rw [expRep_isI32]; exact hT
    exact ⟨encodeMaxC_eq T.expRep checks n hn hr neg, encodeMinC_eq T.expRep checks n hn hr neg⟩

/-! ## The codec functions themselves (work package items (a)–(d)), restated -/

/-- the binary codec: `encode_significand_trailing_digits`, `encode_combination_finite`,
    `decode_significand_trailing_declets`, `decode_combination_finite` -/
theorem C05x_codec (checks : Bool) (n : Nat) (hn : 0 < n) (b : Buf) (hl : b.len = 4 * n) :
    (∀ chunks : List (List Nat), (∀ ch ∈ chunks, ch ≠ []) → AsciiDigits chunks.flatten →
      encodeSignificandC checks b chunks = .ok (encodeSignificand b chunks.flatten)) ∧
    (∀ (r : ExpRep) neg (exp : Int) msd, (r.isI32 = true → n ≤ 5) →
      0 ≤ biasOf b.widthBits b.precision + exp → biasOf b.widthBits b.precision + exp < 3 * 2 ^ (2 * n + 4) →
      encodeCombinationFiniteC r checks b neg exp msd =
        .ok (encodeCombinationFinite b neg (biasOf b.widthBits b.precision + exp).toNat msd)) ∧
    decodeDecletsC checks b = .ok (decodeDeclets b) ∧
    (∀ r : ExpRep, (r.isI32 = true → n ≤ 5) → b.bits < 2 ^ (32 * n) →
      decodeCombinationFiniteC r checks b = .ok (unbiasedExponent b)) :=
  ⟨fun chunks h1 h2 => encodeSignificandC_eq checks b n hn hl chunks h1 h2,
   fun r neg exp msd hr h1 h2 => encodeCombinationFiniteC_eq r checks b n hn hl hr neg exp msd h1 h2,
   decodeDecletsC_eq checks b n hn hl,
   fun r hr hlt => decodeCombinationFiniteC_eq r checks b n ⟨hn, hl, hlt⟩ hr⟩

/-- `decimal_from_parsed` on whatever the parsers deliver -/
theorem C05x_fromParsed (checks : Bool) (T : Ty) :
    (∀ txt p, parseStr txt = .ok p → fromParsedC T checks p = .ok (fromParsed T p)) ∧
    (∀ kind frs fault p, kind ≠ .str → parseFmt kind frs fault = .ok p → fromParsedC T checks p = .ok (fromParsed T p)) :=
  ⟨fun txt p h => fromParsedC_of_parseStr T checks txt p h,
   fun kind frs fault p hk h => fromParsedC_eq T checks p (parseFmt_parsedOK kind hk frs fault p h)⟩

/-- **closure**: every decimal the library produces is again a well-formed buffer its type can hold, and every operation
    on such a value is panic-free — so is any sequence of public operations -/
theorem C05x_closed (checks : Bool) (T : Ty) :
    (∀ input b, tryParseStr T input = .ok b → Held T b) ∧
    (∀ frags fault b, tryParse T frags fault = .ok b → Held T b) ∧
    (∀ I v b, fromInt T I v = .ok b → Held T b) ∧
    (∀ B bits ryu b, startsWithDigitOrMinusDigit ryu = true → fromFloat T B bits ryu = .ok b → Held T b) ∧
    (∀ bytes b, (∀ x ∈ bytes, x < 256) → tryFromLeBytes T bytes = .ok b → Held T b) ∧
    (∀ b, Held T b →
      classifyC checks b = .ok (classify b) ∧ (∀ I, toIntC T checks b I = .ok (toInt T b I)) ∧
      (∀ B, toFloatC T checks b B = .ok (toFloat b B)) ∧
      (9 * b.len ≤ 8589934588 → toTextC T checks b = .ok (toText T b))) :=
  ⟨fun input b h => tryParseStr_held T input b h, fun frags fault b h => tryParse_held T frags fault b h,
   fun I v b h => fromInt_held T I v b h, fun B bits ryu b hs h => fromFloat_held T B bits ryu hs b h,
   fun bytes b hb h => tryFromLeBytes_held T bytes hb b h, fun b h => held_ops T checks b h⟩

/-! ## Non-vacuity: concrete arguments meet the hypotheses -/

/-- `Bitstring32::ONE` is an argument of `Bitstring32` and of `Bitstring` -/
example : Arg .b32 1 [1, 0, 80, 34] := ⟨by decide, rfl, by decide, by intro _; decide⟩
example : Arg .dyn 1 [1, 0, 80, 34] := ⟨by decide, rfl, by decide, by intro _; decide⟩
/-- a 256-bit pattern for `BigBitstring` -/
example : Arg .big 8 (List.replicate 32 255) := ⟨by decide, rfl, by decide, by intro h; cases h⟩
example : toTextC .b32 true (Buf.ofBytes [1, 0, 80, 34]) = .ok (toText .b32 (Buf.ofBytes [1, 0, 80, 34])) :=
  (C05x_no_panic true).2.2.2.2.1 .b32 1 _ ⟨by decide, rfl, by decide, by intro _; decide⟩ (by decide)
/-- the codec hypotheses: seven ASCII digits in two chunks into a 32-bit buffer, exponent −3 -/
example : (∀ ch ∈ [[49, 50, 51, 52], [53, 54, 55]], ch ≠ []) ∧ AsciiDigits [[49, 50, 51, 52], [53, 54, 55]].flatten ∧
    0 ≤ biasOf (Buf.zero 4).widthBits (Buf.zero 4).precision + (-3) ∧
    biasOf (Buf.zero 4).widthBits (Buf.zero 4).precision + (-3) < 3 * 2 ^ (2 * 1 + 4) := by
  refine ⟨by decide, by unfold AsciiDigits; decide, by decide, by decide⟩

/-- an integer argument: `-5 : i32` -/
example : (⟨true, 32⟩ : IntTy).bits = 32 ∧ (⟨true, 32⟩ : IntTy).contains (-5) = true := by decide
/-- a float argument: `ryu` prints `1.5e-7` for the `f32` with these bits, and the pure model does not answer `.panic` -/
example : startsWithDigitOrMinusDigit [49, 46, 53, 101, 45, 55] = true ∧
    fromFloat .b64 binary32 0x34210FB0 [49, 46, 53, 101, 45, 55] ≠ .panic := ⟨by decide, by decide +kernel⟩
/-- a `Held` value -/
example : Held .b32 (Buf.ofBytes [1, 0, 80, 34]) := ⟨1, WF.ofBytes _ 1 (by decide) rfl (by decide), fun _ => by decide⟩

/-! ## The checked model does report panics where the code has them (it is not vacuously `.ok`) -/

/-- an empty integer chunk (the text `.123`, which no public parser lets through) panics in both profiles -/
example : encodeSignificandC true (Buf.zero 4) [[], [49, 50, 51]] =
    .error "significand.rs:170 debug_assert_ne!(0, chunk.len())" := rfl
example : encodeSignificandC false (Buf.zero 4) [[], [49, 50, 51]] =
    .error "significand.rs:173 chunk[chunk.len() - 1]" := rfl
/-- an `i32` exponent in a 512-bit buffer (not a public type) overflows `i32::from_le_bytes`' array -/
example : decodeCombinationFiniteC .i32Fixed false (Buf.zero 64) = .error "num.rs:183 buf[i] = b" := rfl
/-- an empty buffer (not constructible through the API) -/
example : isFiniteC true (Buf.zero 0) = .error "combination.rs:479 buf.len() - 1" := rfl
example : isFiniteC false (Buf.zero 0) = .error "combination.rs:479 buf[buf.len() - 1]" := rfl
/-- a full one-byte array text buffer -/
example : FiniteParserC.pushSignificandDigit true (FiniteParser.begin ⟨.array 1, [45], 1⟩) 49 =
    .error "text/buf/array.rs:52 self.buf[self.len] = digit" := rfl

end Decstr.Props.C05x

#print axioms Decstr.Props.C05x.C05x_no_panic
#print axioms Decstr.Props.C05x.C05x_codec
#print axioms Decstr.Props.C05x.C05x_fromParsed
#print axioms Decstr.Props.C05x.C05x_closed
#print axioms Decstr.Props.C05x.arg_tryFromLeBytes
