import Decstr.Props.C13
import Decstr.Proofs.RneCorrect
/-!
# C13, end to end: a `Some` is the binary float nearest to the decimal's exact value

`C13_sound` says `to_f32/to_f64` return `Spec.rneDecSafe` of the decoded (sign, coefficient, exponent);
`Proofs.Rne.rneDecSafe_correct` says `rneDecSafe` is IEEE round-to-nearest-even over exact rationals.  Composed: for every
bit pattern of every width, a `Some` answer is a finite pattern with the decimal's sign whose magnitude is at least as close
to `c·10^e` as any other finite pattern's, the even one on a tie; and a value at or beyond the overflow threshold gives `None`
(`C13_overflow_threshold`).  `Rne.err B num den bits` is the distance
`|num/den − value(bits)|` scaled by the positive constant `den·2^shiftOf B` (`Proofs/RneCorrectRat.lean: err_rat`).
-/
namespace Decstr.Props.C13
open Decstr.Model Decstr.Spec Decstr.Proofs Decstr.Proofs.Rne

theorem safe_of (B : BinFmt) (hB : B = binary32 ∨ B = binary64) : SafeFmt B ∧ 2 ≤ B.prec := by
  rcases hB with h | h <;> subst h
  · exact ⟨safe32, by decide⟩
  · exact ⟨safe64, by decide⟩

/-- **C13 (nearest).** For a finite decimal with non-zero coefficient `c`, a `Some bits` answer splits into the decimal's
    sign and a finite magnitude `m` that is nearest to the exact value `c·10^e` among all finite patterns, and even on a tie. -/
theorem C13_nearest (b : Buf) (n : Nat) (h : WF b n) (B : BinFmt) (hB : B = binary32 ∨ B = binary64)
    (hfin : isFinite b = true) (bits : Nat) (hv : toFloat b B = some bits) :
    ∃ s c e m, decode ⟨n⟩ b.bits = .fin s c e ∧ bits = (if s then B.signMask else 0) + m ∧ m < B.infBits ∧
      (0 < c →
        (∀ m', m' < B.infBits → err B (decNum c e) (decDen e) m ≤ err B (decNum c e) (decDen e) m') ∧
        (∀ m', m' < B.infBits → m' ≠ m → err B (decNum c e) (decDen e) m' = err B (decNum c e) (decDen e) m → m % 2 = 0)) := by
  obtain ⟨s, c, e, m, hd, hr, hm, hb⟩ := C13_sound b n h B hB hfin bits hv
  obtain ⟨hs, hp⟩ := safe_of B hB
  refine ⟨s, c, e, m, hd, hb, hm, fun hc => ?_⟩
  obtain ⟨_, h2, h3⟩ := (rneDecSafe_correct B hs hp c hc e).1 m hr
  exact ⟨h2, h3⟩

/-- **C13 (overflow, exactly).** For a finite decimal with non-zero coefficient the answer is `None` as soon as the exact
    value is at least half an ulp above the largest finite float: `c·10^e ≥ (2^prec − 1/2)·2^(emax − prec + 1)`. -/
theorem C13_overflow_threshold (b : Buf) (n : Nat) (h : WF b n) (B : BinFmt) (hB : B = binary32 ∨ B = binary64)
    (s : Bool) (c : Nat) (hc : 0 < c) (e : Int) (hd : decode ⟨n⟩ b.bits = .fin s c e)
    (hbig : decDen e * ((2 ^ (B.prec + 1) - 1) * 2 ^ (2 ^ (B.ebits - 1) - 1)) ≤ decNum c e * 2 ^ B.prec) :
    toFloat b B = none := by
  obtain ⟨hs, hp⟩ := safe_of B hB
  exact C13_overflow b n h B hB s c e hd ((rneDecSafe_correct B hs hp c hc e).2.mpr hbig)

/-- non-vacuity: the 32-bit decimal `1E-1` converts to the double nearest to 0.1 -/
example : toFloat (Buf.ofBytes [0x01, 0x00, 0x40, 0x22]) binary64 = some 0x3fb999999999999a := by decide +kernel

end Decstr.Props.C13

#print axioms Decstr.Props.C13.C13_nearest
#print axioms Decstr.Props.C13.C13_overflow_threshold
