import Decstr.Proofs.Encode
import Decstr.Proofs.SpecLemmas
import Decstr.Props.C07
/-!
# C18 — published limits are the true extremes of each fixed-width format

`encodeMax`/`encodeMin` are the model of `max()`/`min()`/`min_positive()` (`encode_max`, `encode_min`); the byte constants
`MAX`, `MIN`, `MIN_POSITIVE` and `DIGITS`, `MIN_10_EXP`, `MAX_10_EXP` of the implementation are compared with them by the
correspondence check (`consts` requests).  Numeric comparison is exact: both sides are scaled by `10^bias`.
-/
namespace Decstr.Props.C18
open Decstr.Model Decstr.Spec Decstr.Proofs

/-- `|value| · 10^bias` of a finite datum of the format — a natural number, so comparisons are exact -/
def scaled (f : Fmt) (c : Nat) (e : Int) : Nat := c * 10 ^ (e + f.bias).toNat

/-- **C18 (functions).** `max()`, `min()`, `min_positive()` are the canonical encodings of `±(10^p − 1)·10^qmax`
    and `1·10^qmin`, for every width. -/
theorem C18_fns (n : Nat) (hn : 0 < n) :
    encodeMax (4 * n) false = ⟨4 * n, encodeFin ⟨n⟩ false (10 ^ (Fmt.mk n).p - 1) (Fmt.mk n).qmax⟩ ∧
    encodeMax (4 * n) true = ⟨4 * n, encodeFin ⟨n⟩ true (10 ^ (Fmt.mk n).p - 1) (Fmt.mk n).qmax⟩ ∧
    encodeMin (4 * n) false = ⟨4 * n, encodeFin ⟨n⟩ false 1 (Fmt.mk n).qmin⟩ :=
  ⟨encodeMax_spec n hn false, encodeMax_spec n hn true, encodeMin_spec n hn false⟩

theorem qmin_le_qmax (n : Nat) (hn : 0 < n) : (Fmt.mk n).qmin ≤ (Fmt.mk n).qmax := by
  simp only [Fmt.qmin, Fmt.qmax, Fmt.bias, Fmt.emax, Fmt.p]
  have hX : 0 < 2 ^ (2 * n + 3) := Nat.two_pow_pos _
  generalize 2 ^ (2 * n + 3) = X at hX
  omega

/-- the limits decode to what they are meant to be -/
theorem C18_decode_limits (n : Nat) (hn : 0 < n) :
    decode ⟨n⟩ (encodeMax (4 * n) false).bits = .fin false (10 ^ (Fmt.mk n).p - 1) (Fmt.mk n).qmax ∧
    decode ⟨n⟩ (encodeMax (4 * n) true).bits = .fin true (10 ^ (Fmt.mk n).p - 1) (Fmt.mk n).qmax ∧
    decode ⟨n⟩ (encodeMin (4 * n) false).bits = .fin false 1 (Fmt.mk n).qmin := by
  have hpos : 0 < 10 ^ (Fmt.mk n).p := Nat.pow_pos (by decide)
  have h1 : (1 : Nat) < 10 ^ (Fmt.mk n).p := by
    have : (Fmt.mk n).p ≥ 1 := by simp only [Fmt.p]; omega
    calc (1 : Nat) < 10 ^ 1 := by decide
      _ ≤ 10 ^ (Fmt.mk n).p := Nat.pow_le_pow_right (by decide) this
  obtain ⟨a, b, c⟩ := C18_fns n hn
  rw [a, b, c]
  exact ⟨(decode_encodeFin n hn false _ _ (by omega) ⟨qmin_le_qmax n hn, Int.le_refl _⟩).1,
         (decode_encodeFin n hn true _ _ (by omega) ⟨qmin_le_qmax n hn, Int.le_refl _⟩).1,
         (decode_encodeFin n hn false 1 _ h1 ⟨Int.le_refl _, qmin_le_qmax n hn⟩).1⟩

/-- **C18 (extremes).** Every finite value of the format — any bit pattern, canonical or not — has magnitude at most
    that of `MAX` (`MIN = −MAX`), and every non-zero one has magnitude at least that of `MIN_POSITIVE`. -/
theorem C18_extremes (n : Nat) (hn : 0 < n) (N : Nat) (s : Bool) (c : Nat) (e : Int) (h : decode ⟨n⟩ N = .fin s c e) :
    scaled ⟨n⟩ c e ≤ scaled ⟨n⟩ (10 ^ (Fmt.mk n).p - 1) (Fmt.mk n).qmax ∧
    (c ≠ 0 → scaled ⟨n⟩ 1 (Fmt.mk n).qmin ≤ scaled ⟨n⟩ c e) := by
  obtain ⟨hc, h1, h2⟩ := decode_fin_bounds n hn N s c e h
  unfold scaled
  constructor
  · apply Nat.mul_le_mul (by omega)
    apply Nat.pow_le_pow_right (by decide)
    simp only [Fmt.qmin] at h1; omega
  · intro hc0
    have : (Fmt.mk n).qmin + ((Fmt.mk n).bias : Int) = 0 := by simp only [Fmt.qmin]; omega
    rw [this]
    simp only [Int.toNat_zero, Nat.pow_zero, Nat.mul_one]
    have : 0 < 10 ^ (e + ((Fmt.mk n).bias : Int)).toNat := Nat.pow_pos (by decide)
    calc 1 ≤ c := by omega
      _ = c * 1 := by omega
      _ ≤ c * 10 ^ (e + ((Fmt.mk n).bias : Int)).toNat := Nat.mul_le_mul_left _ this

/-- **C18 (exponent limits).** An integer numeral of `DIGITS = p` digits is given a buffer by a fixed-width type
    exactly when its exponent lies in `[MIN_10_EXP, MAX_10_EXP] = [qmin, qmax]`: the constants describe the boundary
    the parser enforces. -/
theorem C18_exp (T : Ty) (w : Nat) (hw : T.fixedN = some w) (e : Int) :
    (∃ b, T.withPrecision (Fmt.mk w).p (some e) = .ok b) ↔ ((Fmt.mk w).qmin ≤ e ∧ e ≤ (Fmt.mk w).qmax) := by
  have hwp : 0 < w ∧ w ≤ 4 ∧ T.capN = some w := by
    cases T <;> simp [Ty.fixedN] at hw <;> subst hw <;> simp [Ty.capN]
  have hd : 0 < (Fmt.mk w).p := by simp only [Fmt.p]; omega
  have hfit : (Fmt.mk w).fitsB (Fmt.mk w).p (some e) = true ↔ ((Fmt.mk w).qmin ≤ e ∧ e ≤ (Fmt.mk w).qmax) := by
    simp [Fmt.fitsB]
  rw [← hfit, ← need_le_iff _ _ w hwp.1]
  have h := C07.C07_alloc T (Fmt.mk w).p hd (some e)
  constructor
  · rintro ⟨b, hb⟩
    rw [hb] at h
    obtain ⟨n, _, hn0, hf, _, hm⟩ := h
    rw [hw] at hm
    subst hm
    exact (need_le_iff _ _ n hn0).2 hf
  · intro hle
    cases hr : T.withPrecision (Fmt.mk w).p (some e) with
    | ok b => exact ⟨b, rfl⟩
    | error err =>
      rw [hr] at h
      obtain ⟨cap, m, hc, hlt, _⟩ := h
      rw [hwp.2.2] at hc
      injection hc with hc
      omega

/-- non-vacuity: decimal32 `MAX = 9999999e90`, bytes `FF FC F3 77` -/
example : (encodeMax 4 false).toBytes = [0xFF, 0xFC, 0xF3, 0x77] := by decide +kernel

end Decstr.Props.C18
