import Decstr.Props.C16
import Decstr.Props.Judged
/-!
# `try_from_le_bytes` by length

`Model.tryFromLeLen` (used for slices that are given to the harness by their length only, `try_le_fill`) is the outcome of
`Model.tryFromLeBytes` with the bytes forgotten.
-/
namespace Decstr.Props.C16len
open Decstr.Spec Decstr.Model

/-- the outcome of `try_from_le_bytes` depends on the length of the slice only -/
theorem tryFromLeLen_eq (T : Ty) (bytes : List Nat) :
    tryFromLeLen T bytes.length = (tryFromLeBytes T bytes).map (fun _ => ()) := by
  unfold tryFromLeLen tryFromLeBytes
  simp only
  split
  · rfl
  · cases h : T.withAtLeastBytes bytes.length with
    | error e => rfl
    | ok buf =>
      simp only
      split <;> rfl

/-- **C16/C17: the oracle's judgement by length accepts the model's answer** to a `try_le_fill` request, for every length -/
theorem judgeTryLeLen_model (T : Ty) (hT : T = .dyn ∨ T = .big) (len : Nat) :
    (match tryFromLeLen T len with
     | .ok () => judgeTryLeLen T len (some (len, true)) none
     | .error e => judgeTryLeLen T len none (some (errFacts (.overflow e)))) = [] := by
  have hlen : (List.replicate len 0).length = len := List.length_replicate
  have hb : ∀ x ∈ List.replicate len 0, x < 256 := by
    intro x hx; rw [List.eq_of_mem_replicate hx]; decide
  have hm := Judged.judgeTryLe_model T hT (List.replicate len 0) hb
  have he := tryFromLeLen_eq T (List.replicate len 0)
  rw [hlen] at he
  cases hr : tryFromLeBytes T (List.replicate len 0) with
  | ok b =>
    rw [hr] at he hm
    simp only [Except.map] at he
    rw [he]
    simp only [liftOverflow, pans, judgeTryLe, hlen] at hm
    have h1 := (List.append_eq_nil_iff.mp hm).1
    simp only [judgeTryLeLen, h1, List.nil_append]
    simp [chk]
  | error e =>
    rw [hr] at he hm
    simp only [Except.map] at he
    rw [he]
    simp only [liftOverflow, pans, judgeTryLe, hlen] at hm
    simpa only [judgeTryLeLen] using hm

end Decstr.Props.C16len
