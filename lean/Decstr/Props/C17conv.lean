import Decstr.Props.C04
import Decstr.Props.C10
import Decstr.Props.C12
import Decstr.Proofs.JudgeLemmas
import Decstr.Proofs.JudgeText
import Decstr.Proofs.ParserFiniteStr
import Decstr.Proofs.Grammar
/-!
# C17 for the `TryFrom<int>` / `TryFrom<f32|f64>` impls: the refusal is a truthful width overflow

`fromIntT` / `fromFloatT` (Model/Convert.lean) are the trait impls: the same pipeline as the inherent `from_<int>` /
`from_f32|f64` methods (`fromInt` / `fromFloat`), except that the `OverflowError` of `decimal_from_parsed` is returned
instead of being dropped.

* `fromInt_of_fromIntT`, `fromFloat_of_fromFloatT` — the inherent method is the trait impl with the error dropped;
* `C17_conv_int`, `C17_conv_int_never_panics`, `judgeConvErr_model` — integers;
* `C17_conv_float`, `judgeConvErrFloat_model`, `C17_conv_float_specials` (+ `C17_conv_float_never_panics` under the
  float formatter's contract) — binary floats;
* non-vacuity examples at the end.
-/
set_option linter.unusedSimpArgs false
namespace Decstr.Props.C17conv
open Decstr.Model Decstr.Spec Decstr.Proofs Decstr.Proofs.Judge

/-! ## 1. the inherent method is the trait impl with the error dropped -/

/-- the common tail -/
theorem fromText_of_fromTextT (T : Ty) (inf : Bool) (txt : List Nat) :
    fromText T inf txt = match fromTextT T inf txt with
      | none => .panic
      | some (.ok b) => .ok b
      | some (.error _) => .none := by
  unfold fromText fromTextT
  cases parseFiniteStr txt with
  | error e => rfl
  | ok p =>
    simp only []
    cases fromParsed T p with
    | ok b => rfl
    | error e => cases inf <;> rfl

theorem fromInt_of_fromIntT (T : Ty) (I : IntTy) (v : Int) :
    fromInt T I v = match fromIntT T I v with
      | none => .panic
      | some (.ok b) => .ok b
      | some (.error _) => .none :=
  fromText_of_fromTextT T _ _

theorem fromFloat_of_fromFloatT (T : Ty) (B : BinFmt) (bits : Nat) (ryu : List Nat) :
    fromFloat T B bits ryu = match fromFloatT T B bits ryu with
      | none => .panic
      | some (.ok b) => .ok b
      | some (.error _) => .none := by
  unfold fromFloat fromFloatT
  by_cases hn : B.isNan bits = true
  · simp only [hn, if_true]
    cases fromParsed T _ with
    | ok b => rfl
    | error e => cases T.floatInfallible B <;> rfl
  · simp only [hn, Bool.false_eq_true, if_false]
    by_cases hi : B.isInf bits = true
    · simp only [hi, if_true]
      cases fromParsed T _ with
      | ok b => rfl
      | error e => cases T.floatInfallible B <;> rfl
    · simp only [hi, Bool.false_eq_true, if_false]
      exact fromText_of_fromTextT T _ _

/-! ## the trait impl in terms of the string entry point -/

/-- `fromTextT` in terms of `try_parse_str`, whenever the finite-only parser agrees with the full one on the text -/
theorem fromTextT_eq_of (T : Ty) (inf : Bool) (txt : List Nat) (hs : parseFiniteStr txt = parseStr txt) :
    fromTextT T inf txt = match tryParseStr T txt with
      | .ok b => some (.ok b)
      | .error (.parse _) => none
      | .error (.overflow e) => if inf then none else some (.error e) := by
  unfold fromTextT tryParseStr
  rw [hs]
  cases parseStr txt with
  | error e => rfl
  | ok p => cases h : fromParsed T p <;> simp [liftOverflow, h]

/-- what an `Err` of the trait impl says about the string entry point -/
theorem tryParseStr_of_fromTextT_error (T : Ty) (inf : Bool) (txt : List Nat) (hs : parseFiniteStr txt = parseStr txt)
    (e : OverflowErr) (h : fromTextT T inf txt = some (.error e)) :
    inf = false ∧ tryParseStr T txt = .error (.overflow e) := by
  rw [fromTextT_eq_of T inf txt hs] at h
  cases hr : tryParseStr T txt with
  | ok b => rw [hr] at h; cases h
  | error er =>
    rw [hr] at h
    cases er with
    | parse pe => cases h
    | overflow oe =>
      simp only at h
      cases inf with
      | true => simp at h
      | false =>
        simp only [Bool.false_eq_true, if_false] at h
        injection h with h; injection h with h
        subst h
        exact ⟨rfl, rfl⟩

/-- **the overflow error of the string entry point on a finite numeral whose exponent text fits an `i32`** (the
    `wouldOverflow` arm of `C06.FiniteOutcome`, which is `C04.C17_overflow` plus `cap < need d (some q)`) -/
theorem overflow_truthful (T : Ty) (txt : List Nat) (s : Bool) (i fr : List Nat) (ex : Option (Bool × List Nat))
    (hp : Spec.parse txt = some (.finite s i fr ex)) (hx : inI32 (expValue ex) = true) (e : OverflowErr)
    (he : tryParseStr T txt = .error (.overflow e)) :
    ∃ cap n, T.capN = some cap ∧ e = .wouldOverflow (4 * cap) (4 * n) ∧ cap < n ∧
      cap < need (i ++ fr).length (some (expValue ex - fr.length)) ∧
      (Fmt.mk n).fitsB (i ++ fr).length (some (expValue ex - fr.length)) = true := by
  have hout := C12.text_outcome T txt s i fr ex hp hx
  rw [he] at hout
  rw [List.length_append]
  cases e with
  | wouldOverflow mx rq =>
    obtain ⟨cap, n, hc, hlt, h1, h2, hcn, hf⟩ := hout
    subst h1 h2
    exact ⟨cap, n, hc, rfl, hcn, hlt, hf⟩
  | exponentOutOfRange m => exact hout.elim
  | sizeMismatch g r => exact hout.elim

/-- the oracle accepts a truthful width overflow -/
theorem judgeConvErr_truthful (T : Ty) (d : Nat) (q : Int) (cap n : Nat) (hcap : T.capN = some cap) (hcn : cap < n)
    (hfit : (Fmt.mk n).fitsB d (some q) = true) :
    judgeConvErr T d q (errFacts (.overflow (.wouldOverflow (4 * cap) (4 * n)))) = [] := by
  have e4 : 4 * n / 4 = n := by omega
  have h1 : 4 * n > 4 * cap := by omega
  have h2 : (4 * n % 4 == 0) = true := by simp
  simp only [judgeConvErr, errFacts, hcap, judgeOverflowErr, e4, hfit]
  split
  · simp [chk, h1]
  · rfl

/-! ## 2./3. integers -/

theorem parse_agree_int (v : Int) : parseFiniteStr (toDecimal v) = parseStr (toDecimal v) :=
  parseFiniteStr_eq_parseStr _ (C10.starts v)

/-- **C17 (`TryFrom<int>`).** For every type, every primitive integer type and every value of it: when the trait impl
    answers `Err(e)`, `e` names the type's capacity in bytes and a needed width that is strictly larger, a multiple of 4
    bytes and genuinely sufficient for the `d` decimal digits of `v` at exponent 0; and the refusal is justified — the
    smallest sufficient width exceeds the capacity (C04/C10). (`hI`, `hv` are not needed for this direction; they are
    kept so that the statement is the one asked for, and are used by `C17_conv_int_never_panics`.) -/
theorem C17_conv_int (T : Ty) (I : IntTy)
    (_hI : I.bits = 8 ∨ I.bits = 16 ∨ I.bits = 32 ∨ I.bits = 64 ∨ I.bits = 128) (v : Int) (_hv : I.contains v = true)
    (e : OverflowErr) (he : fromIntT T I v = some (.error e)) :
    ∃ cap n, T.capN = some cap ∧ e = .wouldOverflow (4 * cap) (4 * n) ∧ cap < n ∧
      cap < need (digits10 v.natAbs) (some 0) ∧ (Fmt.mk n).fitsB (digits10 v.natAbs) (some 0) = true := by
  obtain ⟨_, hr⟩ := tryParseStr_of_fromTextT_error T _ _ (parse_agree_int v) e he
  have h := overflow_truthful T (toDecimal v) _ _ [] none (parse_toDecimal v) (by decide) e hr
  simpa [expValue, digitVals, digits10_eq] using h

/-- the same without the (unused) range hypotheses: every `Err` of `fromIntT`, for any integer whatever -/
theorem C17_conv_int' (T : Ty) (I : IntTy) (v : Int) (e : OverflowErr) (he : fromIntT T I v = some (.error e)) :
    T.intInfallible I = false ∧
    ∃ cap n, T.capN = some cap ∧ e = .wouldOverflow (4 * cap) (4 * n) ∧ cap < n ∧
      cap < need (digits10 v.natAbs) (some 0) ∧ (Fmt.mk n).fitsB (digits10 v.natAbs) (some 0) = true := by
  obtain ⟨hinf, hr⟩ := tryParseStr_of_fromTextT_error T _ _ (parse_agree_int v) e he
  have h := overflow_truthful T (toDecimal v) _ _ [] none (parse_toDecimal v) (by decide) e hr
  exact ⟨hinf, by simpa [expValue, digitVals, digits10_eq] using h⟩

/-- **C05 (`TryFrom<int>` never panics)** on the values of the integer type: the `expect` on the parse cannot fire, and
    for the pairs where `TryFrom` is the blanket impl over `From` the conversion succeeds. -/
theorem C17_conv_int_never_panics (T : Ty) (I : IntTy)
    (hI : I.bits = 8 ∨ I.bits = 16 ∨ I.bits = 32 ∨ I.bits = 64 ∨ I.bits = 128) (v : Int) (hv : I.contains v = true) :
    fromIntT T I v ≠ none := by
  intro hnone
  have hpanic : fromInt T I v = .panic := by rw [fromInt_of_fromIntT, hnone]
  have hfrom := C10.C10_from T I v
  simp only at hfrom
  rw [hpanic] at hfrom
  obtain ⟨b, hb⟩ := C10.C10_infallible T I hI hfrom.1 v hv
  rw [hpanic] at hb
  cases hb

/-- **the oracle accepts the error facts of the model's `TryFrom<int>` refusal** -/
theorem judgeConvErr_model (T : Ty) (I : IntTy)
    (hI : I.bits = 8 ∨ I.bits = 16 ∨ I.bits = 32 ∨ I.bits = 64 ∨ I.bits = 128) (v : Int) (hv : I.contains v = true)
    (e : OverflowErr) (he : fromIntT T I v = some (.error e)) :
    judgeConvErr T (digits10 v.natAbs) 0 (errFacts (.overflow e)) = [] := by
  obtain ⟨cap, n, hcap, rfl, hcn, _, hfit⟩ := C17_conv_int T I hI v hv e he
  exact judgeConvErr_truthful T _ 0 cap n hcap hcn hfit

/-! ## 4. binary floats -/

/-- a `+` and a digit first: the finite-only parser and the full parser are in the same state after the digit
    (the companion of `parseFiniteStr_eq_parseStr`, which covers a digit first and `-` and a digit) -/
theorem parseFiniteStr_eq_parseStr_plus (d : Nat) (rest : List Nat) (h2 : isDigit d = true) :
    parseFiniteStr (43 :: d :: rest) = parseStr (43 :: d :: rest) := by
  unfold parseFiniteStr parseStr
  have hb : (TextBuf.new .str (43 :: d :: rest)) = ⟨.str, 43 :: d :: rest, 0⟩ := rfl
  rw [hb]
  simp only [FiniteParser.parseAscii, TextBuf.remaining, FiniteParser.begin, DecimalParser.begin]
  have h1 : DecimalParser.startStep ⟨.str, 43 :: d :: rest, 0⟩ none 43 =
      .ok (.atStart ⟨.str, 43 :: d :: rest, 0⟩ (some false)) := by
    simp [DecimalParser.startStep, isDigit]
  have h1' : DecimalParser.startStep ⟨.str, 43 :: d :: rest, 0⟩ (some false) d =
      .ok (.finite ((FiniteParser.begin ⟨.str, 43 :: d :: rest, 0⟩).significandPositive.pushSignificandDigit d)) := by
    simp [DecimalParser.startStep, h2]
  have h3 : (FiniteParser.begin ⟨.str, 43 :: d :: rest, 0⟩).step 43 =
      .ok (FiniteParser.begin ⟨.str, 43 :: d :: rest, 0⟩).significandPositive := by
    simp [FiniteParser.step, FiniteParser.begin, isDigit]
  have h4 : (FiniteParser.begin ⟨.str, 43 :: d :: rest, 0⟩).significandPositive.step d =
      .ok ((FiniteParser.begin ⟨.str, 43 :: d :: rest, 0⟩).significandPositive.pushSignificandDigit d) := by
    simp [FiniteParser.step, FiniteParser.begin, FiniteParser.significandPositive, TextBuf.significandPositive, h2]
  rw [DecimalParser.parseAscii.eq_6, h1]
  simp only []
  rw [DecimalParser.parseAscii.eq_6, h1']
  simp only []
  rw [parseAscii_finite_str _ _ (by simp [FiniteParser.pushSignificandDigit, TextBuf.pushSignificandDigit,
    FiniteParser.significandPositive, TextBuf.significandPositive, FiniteParser.begin, TextBuf.put])]
  simp only [FiniteParser.begin] at h3 h4
  simp only [FiniteParser.steps, h3, h4, FiniteParser.begin]
  generalize FiniteParser.steps _ rest = r
  cases r <;> rfl

/-- on every text that is a finite numeral of the grammar, the finite-only parser agrees with the full parser -/
theorem parse_agree_finite (txt : List Nat) (s : Bool) (i fr : List Nat) (ex : Option (Bool × List Nat))
    (hp : Spec.parse txt = some (.finite s i fr ex)) : parseFiniteStr txt = parseStr txt := by
  have hm := Grammar.parse_sound hp
  cases hm with
  | finite sg i' fr' ex' s' f e hs hi hf he =>
    obtain ⟨hne, hd⟩ := hi
    cases i' with
    | nil => exact absurd rfl hne
    | cons c t =>
      have hc : isDigit c = true := hd c (by simp)
      cases hs with
      | none => exact parseFiniteStr_eq_parseStr _ (by simp [startsWithDigitOrMinusDigit, hc])
      | minus => exact parseFiniteStr_eq_parseStr _ (by simp [startsWithDigitOrMinusDigit, hc])
      | plus => exact parseFiniteStr_eq_parseStr_plus c _ hc

theorem fromFloatT_finite (T : Ty) (B : BinFmt) (bits : Nat) (ryu : List Nat)
    (hn : B.isNan bits = false) (hi : B.isInf bits = false) :
    fromFloatT T B bits ryu = fromTextT T (T.floatInfallible B) ryu := by
  unfold fromFloatT
  simp only [hn, hi, Bool.false_eq_true, if_false]

/-- **C17 (`TryFrom<f32|f64>`).** For a finite float whose formatter text is a finite numeral of the grammar with an
    exponent text inside the `i32` range (nothing else of the formatter's contract is needed — not even that the text
    starts with a digit or a minus sign): when the trait impl answers `Err(e)`, `e` names the type's capacity in bytes and
    a needed width that is strictly larger, a multiple of 4 bytes and genuinely sufficient for the written digits and
    `q = exponent − fraction digits`; and the refusal is justified — the smallest sufficient width exceeds the capacity. -/
theorem C17_conv_float (T : Ty) (B : BinFmt) (bits : Nat) (ryu : List Nat) (s : Bool) (i fr : List Nat)
    (ex : Option (Bool × List Nat)) (hn : B.isNan bits = false) (hi : B.isInf bits = false)
    (hp : Spec.parse ryu = some (.finite s i fr ex)) (hx : inI32 (expValue ex) = true)
    (e : OverflowErr) (he : fromFloatT T B bits ryu = some (.error e)) :
    ∃ cap n, T.capN = some cap ∧ e = .wouldOverflow (4 * cap) (4 * n) ∧ cap < n ∧
      cap < need (i ++ fr).length (some (expValue ex - fr.length)) ∧
      (Fmt.mk n).fitsB (i ++ fr).length (some (expValue ex - fr.length)) = true := by
  rw [fromFloatT_finite T B bits ryu hn hi] at he
  obtain ⟨_, hr⟩ := tryParseStr_of_fromTextT_error T _ _ (parse_agree_finite ryu s i fr ex hp) e he
  exact overflow_truthful T ryu s i fr ex hp hx e hr

/-- the same under the float formatter's contract of `Props/C12.lean` (which implies that the float is finite) -/
theorem C17_conv_float_contract (T : Ty) (B : BinFmt) (hB : B = binary32 ∨ B = binary64) (bits : Nat) (ryu : List Nat)
    (s : Bool) (i fr : List Nat) (ex : Option (Bool × List Nat)) (hc : C12.RyuContractWide B bits ryu s i fr ex)
    (e : OverflowErr) (he : fromFloatT T B bits ryu = some (.error e)) :
    T.floatInfallible B = false ∧
    ∃ cap n, T.capN = some cap ∧ e = .wouldOverflow (4 * cap) (4 * n) ∧ cap < n ∧
      cap < need (i ++ fr).length (some (expValue ex - fr.length)) ∧
      (Fmt.mk n).fitsB (i ++ fr).length (some (expValue ex - fr.length)) = true := by
  obtain ⟨hn, hi⟩ := C12.finite_of_rounds B hB bits _ _ hc.rounds
  refine ⟨?_, C17_conv_float T B bits ryu s i fr ex hn hi hc.parses (C12.inI32_of_expo hc.expo) e he⟩
  rw [fromFloatT_finite T B bits ryu hn hi] at he
  exact (tryParseStr_of_fromTextT_error T _ _ (parse_agree_finite ryu s i fr ex hc.parses) e he).1

/-- **the oracle accepts the error facts of the model's `TryFrom<f32|f64>` refusal** -/
theorem judgeConvErrFloat_model (T : Ty) (B : BinFmt) (bits : Nat) (ryu : List Nat) (s : Bool) (i fr : List Nat)
    (ex : Option (Bool × List Nat)) (hn : B.isNan bits = false) (hi : B.isInf bits = false)
    (hp : Spec.parse ryu = some (.finite s i fr ex)) (hx : inI32 (expValue ex) = true)
    (e : OverflowErr) (he : fromFloatT T B bits ryu = some (.error e)) :
    judgeConvErrFloat T ryu (errFacts (.overflow e)) = [] := by
  obtain ⟨cap, n, hcap, rfl, hcn, _, hfit⟩ := C17_conv_float T B bits ryu s i fr ex hn hi hp hx e he
  simp only [judgeConvErrFloat, hp]
  exact judgeConvErr_truthful T _ _ cap n hcap hcn hfit

/-- **NaN and infinity: `TryFrom<f32|f64>` never answers `Err`** (nor panics) — it returns the canonical quiet NaN /
    infinity with the float's sign at the type's width, for every type, also the fallible ones. -/
theorem C17_conv_float_specials (T : Ty) (B : BinFmt) (bits : Nat) (ryu : List Nat) :
    (B.isNan bits = true → fromFloatT T B bits ryu =
      some (.ok ⟨4 * C09.baseN T, Spec.encodeNan ⟨C09.baseN T⟩ (decide (bits ≥ B.signMask)) false 0⟩)) ∧
    (B.isInf bits = true → fromFloatT T B bits ryu =
      some (.ok ⟨4 * C09.baseN T, encodeInf ⟨C09.baseN T⟩ (decide (bits ≥ B.signMask))⟩)) ∧
    (B.isNan bits = true ∨ B.isInf bits = true → ∀ e, fromFloatT T B bits ryu ≠ some (.error e)) := by
  have key : ∀ b, fromFloat T B bits ryu = .ok b → fromFloatT T B bits ryu = some (.ok b) := by
    intro b hb
    rw [fromFloat_of_fromFloatT] at hb
    cases hr : fromFloatT T B bits ryu with
    | none => rw [hr] at hb; cases hb
    | some r =>
      rw [hr] at hb
      cases r with
      | ok b' => simp only at hb; injection hb with hb; rw [hb]
      | error e => cases hb
  have h1 := fun h => key _ (C12.C12_nan T B bits ryu h)
  have h2 := fun h => key _ (C12.C12_inf T B bits ryu h)
  refine ⟨h1, h2, ?_⟩
  rintro (h | h) e he
  · rw [h1 h] at he; cases he
  · rw [h2 h] at he; cases he

/-- **C05 (`TryFrom<f32|f64>` never panics)** under the float formatter's contract (for `Bitstring64`, offered as
    infallible from `f32` only, with the sharpening of `C12.C12_infallible`) -/
theorem C17_conv_float_never_panics (T : Ty) (B : BinFmt) (hB : B = binary32 ∨ B = binary64) (bits : Nat)
    (ryu : List Nat) (s : Bool) (i fr : List Nat) (ex : Option (Bool × List Nat))
    (hc : C12.RyuContractWide B bits ryu s i fr ex)
    (h64 : T.floatInfallible B = true → T = .b64 → i.length + fr.length ≤ 16 ∧ -60 ≤ expValue ex ∧ expValue ex ≤ 60) :
    fromFloatT T B bits ryu ≠ none := by
  intro hnone
  have hpanic : fromFloat T B bits ryu = .panic := by rw [fromFloat_of_fromFloatT, hnone]
  have ho := C12.C12_finite_wide T B hB bits ryu s i fr ex hc
  rw [hpanic] at ho
  obtain ⟨b, hb⟩ := C12.C12_infallible_wide T B hB bits ryu s i fr ex hc ho.1 (h64 ho.1)
  rw [hpanic] at hb
  cases hb

/-! ## 5. non-vacuity -/

/-- `Bitstring32::try_from(12345678u64)`: 8 digits need 64 bits -/
theorem ex_int : fromIntT .b32 ⟨false, 64⟩ 12345678 = some (.error (.wouldOverflow 4 8)) := by decide +kernel

example : ∃ cap n, Ty.b32.capN = some cap ∧ OverflowErr.wouldOverflow 4 8 = .wouldOverflow (4 * cap) (4 * n) ∧ cap < n ∧
    cap < need (digits10 (12345678 : Int).natAbs) (some 0) ∧
    (Fmt.mk n).fitsB (digits10 (12345678 : Int).natAbs) (some 0) = true :=
  C17_conv_int .b32 ⟨false, 64⟩ (by decide) 12345678 (by decide) _ ex_int
example : fromIntT .b32 ⟨false, 64⟩ 12345678 ≠ none :=
  C17_conv_int_never_panics .b32 ⟨false, 64⟩ (by decide) 12345678 (by decide)
example : judgeConvErr .b32 (digits10 (12345678 : Int).natAbs) 0 (errFacts (.overflow (.wouldOverflow 4 8))) = [] :=
  judgeConvErr_model .b32 ⟨false, 64⟩ (by decide) 12345678 (by decide) _ ex_int
/-- `i128::MIN` into `Bitstring128` (39 digits need 160 bits), and `Bitstring32::try_from(7u8)` succeeding -/
example : fromIntT .b128 ⟨true, 128⟩ (-170141183460469231731687303715884105728) = some (.error (.wouldOverflow 16 20)) := by
  decide +kernel
example : fromIntT .b32 ⟨false, 8⟩ 7 = some (.ok ⟨4, encodeFin ⟨1⟩ false 7 0⟩) := by decide +kernel

/-- `Bitstring32::try_from(1e12f32)`: the formatter writes `1000000000000.0`, 14 digits need 64 bits -/
theorem ex_float : fromFloatT .b32 binary32 0x5368D4A5 [49, 48, 48, 48, 48, 48, 48, 48, 48, 48, 48, 48, 48, 46, 48] =
    some (.error (.wouldOverflow 4 8)) := by decide +kernel

example : ∃ cap n, Ty.b32.capN = some cap ∧ OverflowErr.wouldOverflow 4 8 = .wouldOverflow (4 * cap) (4 * n) ∧ cap < n ∧
    cap < need ([1, 0, 0, 0, 0, 0, 0, 0, 0, 0, 0, 0, 0] ++ [0]).length (some (expValue none - ([0] : List Nat).length)) ∧
    (Fmt.mk n).fitsB ([1, 0, 0, 0, 0, 0, 0, 0, 0, 0, 0, 0, 0] ++ [0]).length
      (some (expValue none - ([0] : List Nat).length)) = true :=
  C17_conv_float .b32 binary32 0x5368D4A5 _ false _ _ none (by decide) (by decide) C12.ryu_f32_1e12.parses (by decide) _ ex_float
example : judgeConvErrFloat .b32 [49, 48, 48, 48, 48, 48, 48, 48, 48, 48, 48, 48, 48, 46, 48]
    (errFacts (.overflow (.wouldOverflow 4 8))) = [] :=
  judgeConvErrFloat_model .b32 binary32 0x5368D4A5 _ false _ _ none (by decide) (by decide) C12.ryu_f32_1e12.parses (by decide) _
    ex_float
example : fromFloatT .b32 binary32 0x5368D4A5 [49, 48, 48, 48, 48, 48, 48, 48, 48, 48, 48, 48, 48, 46, 48] ≠ none :=
  C17_conv_float_never_panics .b32 binary32 (Or.inl rfl) _ _ false _ _ none C12.ryu_f32_1e12.wide (fun h => nomatch h)
/-- specials: `-inf` (`f32`) into `Bitstring32` -/
example : fromFloatT .b32 binary32 0xFF800000 [] = some (.ok ⟨4, encodeInf ⟨1⟩ true⟩) :=
  (C17_conv_float_specials .b32 binary32 0xFF800000 []).2.1 (by decide)

/-- **why `inI32 (expValue ex)` is a hypothesis of the float theorems.** A (hypothetical) formatter text whose exponent
    does not fit an `i32` makes the trait impl answer the exponent overflow, which names no width: the conclusion of
    `C17_conv_float` fails, and the oracle — which expects a width overflow from a float conversion — complains. -/
example : fromFloatT .b32 binary32 0 [49, 101, 57, 57, 57, 57, 57, 57, 57, 57, 57, 57] =
    some (.error (.exponentOutOfRange 4)) := by decide +kernel
example : judgeConvErrFloat .b32 [49, 101, 57, 57, 57, 57, 57, 57, 57, 57, 57, 57]
    (errFacts (.overflow (.exponentOutOfRange 4))) ≠ [] := by
  have hp : Spec.parse [49, 101, 57, 57, 57, 57, 57, 57, 57, 57, 57, 57] =
      some (.finite false [1] [] (some (false, [9, 9, 9, 9, 9, 9, 9, 9, 9, 9]))) := by decide +kernel
  have hcap : Ty.b32.capN = some 1 := rfl
  have hneed : need ([1] ++ ([] : List Nat)).length
      (some (expValue (some (false, [9, 9, 9, 9, 9, 9, 9, 9, 9, 9])) - (([] : List Nat).length : Nat))) > 1 := by
    apply Nat.lt_of_not_le
    intro hle
    rw [need_le_iff _ _ 1 (by decide)] at hle
    revert hle
    decide +kernel
  simp only [judgeConvErrFloat, hp, judgeConvErr, hcap, if_pos hneed, judgeOverflowErr, errFacts]
  simp [chk]

end Decstr.Props.C17conv

