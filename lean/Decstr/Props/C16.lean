import Decstr.Model.Convert
/-!
# C16 — byte-level API: verbatim little-endian storage, exact reversal, length checks

In the model `from_le_bytes` stores the bytes as a little-endian number and `as_le_bytes` reads them back;
the big-endian accessors are list reversal by definition (the implementation's literal index lists are tied
to this by the correspondence check, which is where the substance of C16 lies).
-/
namespace Decstr.Props.C16
open Decstr.Model Decstr.Spec

theorem leBytes_ofLeBytes (l : List Nat) (h : ∀ x ∈ l, x < 256) : leBytes l.length (ofLeBytes l) = l := by
  induction l with
  | nil => rfl
  | cons x xs ih =>
    have hx : x < 256 := h x (by simp)
    have hxs : ∀ y ∈ xs, y < 256 := fun y hy => h y (by simp [hy])
    simp only [List.length_cons, leBytes, ofLeBytes]
    have h1 : (x + 256 * ofLeBytes xs) % 256 = x := by omega
    have h2 : (x + 256 * ofLeBytes xs) / 256 = ofLeBytes xs := by omega
    rw [h1, h2, ih hxs]

/-- **C16 (verbatim).** `as_le_bytes(from_le_bytes(b)) = b` for every byte string. -/
theorem C16_le_roundtrip (l : List Nat) (h : ∀ x ∈ l, x < 256) : (Buf.ofBytes l).toBytes = l := by
  simp [Buf.ofBytes, Buf.toBytes, leBytes_ofLeBytes l h]

/-- **C16 (reversal).** The big-endian view is the byte reversal and the two directions are inverse. -/
theorem C16_be_inverse (l : List Nat) : l.reverse.reverse = l := List.reverse_reverse l

/-- **C16 (lengths).** `try_from_le_bytes` accepts exactly the positive multiples of 4 (at most 20 bytes for
`Bitstring`), never panics, and stores the bytes verbatim. -/
theorem C16_try_accepts (T : Ty) (hT : T = .dyn ∨ T = .big) (l : List Nat) :
    (∃ b, tryFromLeBytes T l = .ok b) ↔ T.holds l.length = true := by
  rcases hT with rfl | rfl <;>
  · simp only [tryFromLeBytes, Ty.withAtLeastBytes, Ty.holds, Ty.fixedN, Ty.capN, Buf.zero]
    by_cases h0 : l.length = 0
    · simp [h0]
    · by_cases h4 : l.length % 4 = 0
      · by_cases h20 : l.length > 20 <;> simp [h0, h4, h20] <;> omega
      · simp [h0, h4]

theorem C16_try_verbatim (T : Ty) (l : List Nat) (b : Buf) (h : tryFromLeBytes T l = .ok b) : b = Buf.ofBytes l := by
  simp only [tryFromLeBytes] at h
  split at h
  · cases h
  · split at h
    · cases h
    · split at h
      · cases h
      · injection h with h; exact h.symm

/-- **C17 (length errors).** A rejected length is reported with that length and the next multiple of 4, or,
for a multiple of 4 beyond the capacity, with the capacity and the length. -/
theorem C17_len_error (T : Ty) (hT : T = .dyn ∨ T = .big) (l : List Nat) (e : OverflowErr)
    (h : tryFromLeBytes T l = .error e) :
    (l.length = 0 ∨ l.length % 4 ≠ 0) ∧ e = .sizeMismatch l.length (l.length + 4 - l.length % 4) ∨
    (T = .dyn ∧ l.length > 20 ∧ l.length % 4 = 0 ∧ e = .wouldOverflow 20 l.length) := by
  rcases hT with rfl | rfl <;>
  · simp only [tryFromLeBytes, Ty.withAtLeastBytes, Buf.zero] at h
    by_cases h0 : l.length = 0
    · simp [h0] at h; left; exact ⟨Or.inl h0, by simp [h0, ← h]⟩
    · by_cases h4 : l.length % 4 = 0
      · first
        | (by_cases h20 : l.length > 20
           · simp [h0, h4, h20] at h; right; exact ⟨rfl, h20, h4, h.symm⟩
           · simp [h0, h4, h20] at h)
        | simp [h0, h4] at h
      · simp [h0, h4] at h; left; exact ⟨Or.inr h4, h.symm⟩

example : tryFromLeBytes .dyn [1, 2, 3, 4, 5] = .error (.sizeMismatch 5 8) := by rfl
example : tryFromLeBytes .dyn (List.replicate 24 7) = .error (.wouldOverflow 20 24) := by rfl

/-- reading a list through a literal index list, as the `[b[15], b[14], …]` array expressions of `to_be_bytes` /
    `from_be_bytes` do -/
def gather (idx l : List Nat) : List Nat := idx.map (fun i => l.getD i 0)

/-- **C16 (index lists).** Reading through the descending index list is the byte reversal. The literal index lists of
    the source are translated on every run (`tools/gen_be.py`) and proved equal to `(List.range N).reverse`. -/
theorem C16_be_gather (l : List Nat) : gather (List.range l.length).reverse l = l.reverse := by
  unfold gather
  apply List.ext_getElem
  · simp
  · intro i h1 h2
    simp only [List.length_map, List.length_reverse, List.length_range] at h1
    simp only [List.getElem_map, List.getElem_reverse, List.getElem_range, List.length_range]
    have : l.length - 1 - i < l.length := by omega
    simp [List.getD_eq_getElem?_getD, List.getElem?_eq_getElem this]

/-- `from_be_bytes ∘ to_be_bytes` and `to_be_bytes ∘ from_be_bytes` are the identity on arrays of the type's length. -/
theorem C16_be_gather_inverse (l : List Nat) :
    gather (List.range l.length).reverse (gather (List.range l.length).reverse l) = l := by
  have h := C16_be_gather l
  have hl : (gather (List.range l.length).reverse l).length = l.length := by simp [gather]
  have h2 := C16_be_gather (gather (List.range l.length).reverse l)
  rw [hl] at h2
  rw [h2, h, List.reverse_reverse]


end Decstr.Props.C16
