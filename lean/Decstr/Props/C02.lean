import Decstr.Proofs.Decode
import Decstr.Proofs.Format
/-!
# C02 — every bit pattern formats as text denoting exactly its IEEE 754 value

`toText T b` is the model of `Display`/`Debug` (`decimal_to_fmt`).  For every width `32n`, every bit pattern
(canonical or not) and every type able to hold it, the text is a numeral of the grammar whose datum is exactly
`Spec.decode`'s; scientific output with several digits has a decimal point; and the text never has more written
digits than the precision (so the same width can always read it back — the side lemma of C03).
-/
namespace Decstr.Props.C02
open Decstr.Model Decstr.Spec Decstr.Proofs Decstr.Proofs.DecodeAux

/-- the type can hold a buffer of `n` words: the `i32`-exponent types stop at 160 bits -/
def Holds (T : Ty) (n : Nat) : Prop := T.expIsI32 = true → n ≤ 5

theorem digitsOK (b : Buf) (n : Nat) (h : WF b n) :
    DigitsOK n ((unbiasedExponent b).2 + 48) (decodeDeclets b) := by
  obtain ⟨hl, he, _⟩ := decodeDeclets_spec b n h
  obtain ⟨_, ha⟩ := allDigits_ascii b n h
  refine ⟨h.pos, ?_, hl, he⟩
  exact ha _ (by simp [allDigits])

theorem exponent_small (T : Ty) (b : Buf) (n : Nat) (h : WF b n) (hT : Holds T n) (hfin : isFinite b = true) :
    T.expIsI32 = true → (-(2:Int)^30 ≤ (unbiasedExponent b).1 ∧ (unbiasedExponent b).1 ≤ 2^30 ∧ n ≤ 2^20) := by
  intro hi
  have hn := hT hi
  obtain ⟨h1, h2⟩ := finite_exponent_range b n h hfin
  have hp := h.pos
  have hb : (Fmt.mk n).qmax ≤ 24534 ∧ -24617 ≤ (Fmt.mk n).qmin := by
    have : n = 1 ∨ n = 2 ∨ n = 3 ∨ n = 4 ∨ n = 5 := by omega
    rcases this with rfl | rfl | rfl | rfl | rfl <;> decide
  refine ⟨by omega, by omega, by omega⟩

/-- a NaN payload needs one digit of headroom (the most significant digit position is not available to it) -/
def nanExtra : Numeral → Nat
  | .nan _ _ _ => 1
  | _ => 0

/-- **C02.** For every well-formed buffer of every width and every type able to hold it, the formatted text is a
numeral of the grammar whose sign, coefficient and exponent (or: infinity; or NaN kind, sign and payload) are exactly
those IEEE 754 assigns to the bit pattern; scientific notation with more than one digit has a decimal point (and the
printed exponent is adjusted accordingly, which is what denoting the same datum means); and the written digit count is
at most the precision. -/
theorem C02_format (T : Ty) (b : Buf) (n : Nat) (h : WF b n) (hT : Holds T n) :
    ∃ num, parse (toText T b) = some num ∧ num.datum = decode ⟨n⟩ b.bits ∧ layoutOk num = true ∧
           num.digitCount + nanExtra num ≤ 9 * n - 2 := by
  by_cases hfin : isFinite b = true
  · rw [toText_finite T b hfin, precision_eq b n h, decode_finite b n h hfin]
    have hd := digitsOK b n h
    have hg := fmtFinite_good T n _ _ hd (unbiasedExponent b).1 (exponent_small T b n h hT hfin) (isSignNegative b)
    obtain ⟨num, h1, h2, h3⟩ := fmtFinite_spec T n _ _ hd (unbiasedExponent b).1 (exponent_small T b n h hT hfin) (isSignNegative b)
    refine ⟨num, h1, ?_, h3, ?_⟩
    · rw [h2]; rfl
    · have hc := fmtFinite_digitCount T n _ _ hd (unbiasedExponent b).1 (exponent_small T b n h hT hfin) (isSignNegative b) num h1
      cases num with
      | finite _ _ _ _ => simpa [nanExtra] using hc
      | inf _ => simp [Numeral.datum] at h2
      | nan _ _ _ => simp [Numeral.datum] at h2
  · have hfin' : isFinite b = false := by simpa using hfin
    by_cases hinf : isInfinite b = true
    · rw [toText_infinite T b hfin' hinf, decode_infinite b n h hinf]
      exact ⟨.inf (isSignNegative b), fmtInf_spec _, rfl, rfl, by simp [Numeral.digitCount, nanExtra]⟩
    · have hinf' : isInfinite b = false := by simpa using hinf
      have hnan : isNan b = true := by
        rcases C08.C08_partition b with ⟨h1, _, _⟩ | ⟨_, h2, _⟩ | ⟨_, _, h3⟩
        · rw [h1] at hfin'; cases hfin'
        · rw [h2] at hinf'; cases hinf'
        · exact h3
      obtain ⟨hl, he, _⟩ := decodeDeclets_spec b n h
      rw [toText_nan T b hfin' hinf', decode_nan b n h hnan]
      obtain ⟨num, h1, h2, h3⟩ := fmtNan_spec n (decodeDeclets b) hl he (isQuietNan b) (isSignNegative b)
      have hp := h.pos
      refine ⟨num, h1, ?_, ?_, ?_⟩
      · rw [h2]
        have hk := C08.C08_nan_kinds b
        rw [hnan] at hk
        have : (!isQuietNan b) = isSignalingNan b := by
          cases hq : isQuietNan b <;> cases hs : isSignalingNan b <;> simp [hq, hs] at hk ⊢
        rw [this]
      · cases num with
        | finite s i fr ex => simp [Numeral.datum] at h2
        | inf s => rfl
        | nan s g pl => rfl
      · cases num with
        | finite s i fr ex => simp [Numeral.datum] at h2
        | inf s => simp [Numeral.datum] at h2
        | nan s g pl => simp only [nanExtra]; omega

/-- `{:?}` and `{}` are the same function of the bytes in the model (both call `decimal_to_fmt`); the
    correspondence check compares the two on the implementation. -/
theorem C02_bytes_only (T₁ T₂ : Ty) (b : Buf) (n : Nat) (h : WF b n) (h1 : Holds T₁ n) (h2 : Holds T₂ n) :
    ∃ num₁ num₂, parse (toText T₁ b) = some num₁ ∧ parse (toText T₂ b) = some num₂ ∧ num₁.datum = num₂.datum := by
  obtain ⟨a, ha, hda, _⟩ := C02_format T₁ b n h h1
  obtain ⟨c, hc, hdc, _⟩ := C02_format T₂ b n h h2
  exact ⟨a, c, ha, hc, by rw [hda, hdc]⟩

/-- non-vacuity: a non-canonical 64-bit pattern (all-ones declets, large-digit combination) -/
example : WF ⟨8, 0x6fffffffffffffff⟩ 2 ∧ Holds .b64 2 := ⟨⟨by decide, rfl, by decide⟩, fun _ => by decide⟩

end Decstr.Props.C02
