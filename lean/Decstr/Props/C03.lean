import Decstr.Props.C02
import Decstr.Props.C06
/-!
# C03 — text ↔ bitstring round trip is lossless and canonicalising

Corollaries of C02 (formatter), C06/C01/C09 (parser + encoder at the API) and the specification-level round trip
(`Proofs.decode_encodeFin`, `decode_canon`, `canon_idem`).
-/
namespace Decstr.Props.C03
open Decstr.Model Decstr.Spec Decstr.Proofs

theorem datum_finite (s : Bool) (i fr : List Nat) (ex : Option (Bool × List Nat)) :
    (Numeral.finite s i fr ex).datum = .fin s (ofDigits (i ++ fr)) (expValue ex - fr.length) := by
  cases ex with
  | none => rfl
  | some p => obtain ⟨en, ds⟩ := p; rfl

theorem fitsB_of (n d : Nat) (q : Int) (hd : d ≤ (Fmt.mk n).p) (h1 : (Fmt.mk n).qmin ≤ q) (h2 : q ≤ (Fmt.mk n).qmax) :
    (Fmt.mk n).fitsB d (some q) = true := by
  simp [Fmt.fitsB, hd, h1, h2]

theorem small_range (n : Nat) (hn : 0 < n) (h5 : n ≤ 5) : (Fmt.mk n).qmax ≤ 24534 ∧ -24617 ≤ (Fmt.mk n).qmin ∧ (Fmt.mk n).p ≤ 43 := by
  have : n = 1 ∨ n = 2 ∨ n = 3 ∨ n = 4 ∨ n = 5 := by omega
  rcases this with rfl | rfl | rfl | rfl | rfl <;> decide

/-- the datum of a re-read pattern: what `try_parse_str (to_string b)` decodes to, for every type able to hold `b` -/
theorem C03_reparse (T : Ty) (b : Buf) (n : Nat) (h : WF b n) (hT : C02.Holds T n)
    (hcap : ∀ cap, T.capN = some cap → n ≤ cap) :
    ∃ b' n', tryParseStr T (toText T b) = .ok b' ∧ WF b' n' ∧ decode ⟨n'⟩ b'.bits = decode ⟨n⟩ b.bits ∧
      (∀ w, T.fixedN = some w → n' = w) ∧ b'.bits = encode ⟨n'⟩ (decode ⟨n⟩ b.bits) := by
  obtain ⟨num, hparse, hdatum, _, hcount⟩ := C02.C02_format T b n h hT
  have hn := h.pos
  cases num with
  | finite s i fr ex =>
    have hout := C06.C01_tryParseStr_finite T (toText T b) s i fr ex hparse
    rw [datum_finite] at hdatum
    obtain ⟨hc, hq1, hq2⟩ := decode_fin_bounds n hn b.bits _ _ _ hdatum.symm
    simp only [Numeral.digitCount, C02.nanExtra, Nat.add_zero] at hcount
    have hd : i.length + fr.length ≤ (Fmt.mk n).p := by simpa [Fmt.p] using hcount
    have hfit := fitsB_of n _ _ hd hq1 hq2
    -- the written exponent fits an i32 for the bounded types
    have hx : (T.expIsI32 && !inI32 (expValue ex)) = false := by
      by_cases hi : T.expIsI32 = true
      · have h5 := hT hi
        obtain ⟨r1, r2, r3⟩ := small_range n hn h5
        have : inI32 (expValue ex) = true := by
          simp only [inI32, Bool.and_eq_true, decide_eq_true_eq]
          constructor <;> omega
        simp [this]
      · simp [hi]
    unfold C06.FiniteOutcome at hout
    rw [hx] at hout
    simp only [Bool.false_eq_true, if_false] at hout
    cases hr : tryParseStr T (toText T b) with
    | ok b' =>
      rw [hr] at hout
      obtain ⟨n', hn', hb', hfit', hlt, hc', _, hw⟩ := hout
      have hfit'' := hfit'
      simp only [Fmt.fitsB, Bool.and_eq_true, decide_eq_true_eq] at hfit''
      have hdec := (decode_encodeFin n' hn' s _ _ hc' ⟨hfit''.2.1, hfit''.2.2⟩).1
      refine ⟨b', n', rfl, ⟨hn', by rw [hb'], hlt⟩, ?_, ?_, ?_⟩
      · rw [hb', hdec, hdatum]
      · intro w hw'; rw [hw'] at hw; exact hw
      · rw [hb', ← hdatum]; rfl
    | error e =>
      rw [hr] at hout
      exfalso
      cases e with
      | parse pe => exact hout
      | overflow oe =>
        cases oe with
        | wouldOverflow mx rq =>
          obtain ⟨cap, m, hc', hlt, _⟩ := hout
          have := hcap cap hc'
          have hle := (need_le_iff _ _ n hn).2 hfit
          omega
        | exponentOutOfRange m => exact hout
        | sizeMismatch g r => exact hout
  | inf s =>
    have hout := C06.C09_tryParseStr_inf T (toText T b) s hparse
    have hbp := C09.baseN_pos T
    obtain ⟨hdec, hlt⟩ := decode_encodeInf (C09.baseN T) hbp s
    refine ⟨_, C09.baseN T, hout, ⟨hbp, rfl, hlt⟩, ?_, ?_, ?_⟩
    · rw [hdec, ← hdatum]; rfl
    · intro w hw; simp [C09.baseN, hw]
    · show encodeInf _ s = _; rw [← hdatum]; rfl
  | nan s g pl =>
    have hout := C06.C09_tryParseStr_nan T (toText T b) s g pl hparse
    simp only [Numeral.datum] at hdatum
    simp only [Numeral.digitCount, C02.nanExtra] at hcount
    unfold C06.NanOutcome at hout
    cases hr : tryParseStr T (toText T b) with
    | ok b' =>
      rw [hr] at hout
      obtain ⟨n', hn', hb', hpay, h0, h1⟩ := hout
      obtain ⟨hdec, hlt⟩ := decode_encodeNan n' hn' s g _ hpay
      refine ⟨b', n', rfl, ⟨hn', by rw [hb'], by rw [hb']; exact hlt⟩, ?_, ?_, ?_⟩
      · rw [hb', hdec, ← hdatum]
      · intro w hw
        by_cases he : pl.getD [] = []
        · rw [h0 he]; simp [C09.baseN, hw]
        · have := (h1 he).2; rw [hw] at this; exact this
      · rw [hb', ← hdatum]; rfl
    | error e =>
      rw [hr] at hout
      exfalso
      cases e with
      | parse pe => exact hout
      | overflow oe =>
        cases oe with
        | wouldOverflow mx rq =>
          obtain ⟨hne, cap, m, hc', hlt, _⟩ := hout
          have := hcap cap hc'
          have hfit : (Fmt.mk n).fitsB ((pl.getD []).length + 1) none = true := by
            simp only [Fmt.fitsB, Fmt.p, Bool.and_true]
            exact decide_eq_true hcount
          have hle := (need_le_iff _ _ n hn).2 hfit
          omega
        | exponentOutOfRange m => exact hout
        | sizeMismatch g r => exact hout

/-- **C03 (bits → text → bits, fixed-width types).** Formatting any pattern and parsing the text back with the same
    fixed-width type gives exactly the canonical form of the pattern (the pattern itself when it was canonical). -/
theorem C03_bits_text_bits (T : Ty) (w : Nat) (hw : T.fixedN = some w) (b : Buf) (h : WF b w) :
    tryParseStr T (toText T b) = .ok ⟨4 * w, canon ⟨w⟩ b.bits⟩ := by
  have hw4 : w ≤ 4 ∧ T.capN = some w := by cases T <;> simp [Ty.fixedN] at hw <;> subst hw <;> simp [Ty.capN]
  obtain ⟨b', n', hr, hwf, _, hfix, hbits⟩ := C03_reparse T b w h (fun _ => by omega)
    (fun cap hc => by rw [hw4.2] at hc; injection hc with hc; omega)
  have hn' := hfix w hw
  subst hn'
  rw [hr]
  congr 1
  obtain ⟨len, bits⟩ := b'
  simp only at hbits
  have := hwf.len
  simp only at this
  subst this
  rw [hbits]; rfl

/-- **C03 (dynamic types).** `Bitstring` and `BigBitstring` read their own text back to the same sign, coefficient and
    exponent (same kind, sign and payload for the specials), possibly in a different width. -/
theorem C03_dyn (T : Ty) (b : Buf) (n : Nat) (h : WF b n) (hT : C02.Holds T n) (hcap : ∀ cap, T.capN = some cap → n ≤ cap) :
    ∃ b' n', tryParseStr T (toText T b) = .ok b' ∧ WF b' n' ∧ decode ⟨n'⟩ b'.bits = decode ⟨n⟩ b.bits := by
  obtain ⟨b', n', h1, h2, h3, _⟩ := C03_reparse T b n h hT hcap
  exact ⟨b', n', h1, h2, h3⟩

/-- **C03 (idempotent).** A second round trip changes nothing (fixed-width types). -/
theorem C03_idem (T : Ty) (w : Nat) (hw : T.fixedN = some w) (b : Buf) (h : WF b w) :
    tryParseStr T (toText T ⟨4 * w, canon ⟨w⟩ b.bits⟩) = .ok ⟨4 * w, canon ⟨w⟩ b.bits⟩ := by
  have hwf : WF ⟨4 * w, canon ⟨w⟩ b.bits⟩ w := ⟨h.pos, rfl, canon_lt w h.pos b.bits⟩
  rw [C03_bits_text_bits T w hw _ hwf]
  simp only [canon_idem w h.pos]

/-- **C03 (text → bits → text).** Parsing an accepted finite numeral and formatting the result gives text that denotes
    the same sign, coefficient and exponent as the input. -/
theorem C03_text_bits_text (T : Ty) (txt : List Nat) (s : Bool) (i fr : List Nat) (ex : Option (Bool × List Nat))
    (hp : Spec.parse txt = some (.finite s i fr ex)) (b : Buf) (hb : tryParseStr T txt = .ok b) :
    ∃ num, Spec.parse (toText T b) = some num ∧ num.datum = (Numeral.finite s i fr ex).datum := by
  have hout := C06.C01_tryParseStr_finite T txt s i fr ex hp
  unfold C06.FiniteOutcome at hout
  rw [hb] at hout
  by_cases hx : (T.expIsI32 && !inI32 (expValue ex)) = true
  · rw [hx] at hout; simp at hout
  · have hx' : (T.expIsI32 && !inI32 (expValue ex)) = false := by simpa using hx
    rw [hx'] at hout
    simp only [Bool.false_eq_true, if_false] at hout
    obtain ⟨n, hn, hbb, hfit, hlt, hc, hcapn, hw⟩ := hout
    have hwf : WF b n := ⟨hn, by rw [hbb], hlt⟩
    have hT : C02.Holds T n := by
      intro hi
      cases T <;> simp [Ty.expIsI32] at hi <;> first | exact (hcapn _ rfl).trans (by decide)
    obtain ⟨num, h1, h2, _⟩ := C02.C02_format T b n hwf hT
    refine ⟨num, h1, ?_⟩
    rw [h2, hbb]
    have hfit' := hfit
    simp only [Fmt.fitsB, Bool.and_eq_true, decide_eq_true_eq] at hfit'
    rw [(decode_encodeFin n hn s _ _ hc ⟨hfit'.2.1, hfit'.2.2⟩).1]
    rw [datum_finite]

end Decstr.Props.C03
