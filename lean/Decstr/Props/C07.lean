import Decstr.Proofs.Widths
/-!
# C07 — dynamic types pick the smallest sufficient width; never under-provision
(and the width facts behind C04 and C17)

`Ty.withPrecision T d e` is the buffer allocation every constructor goes through
(`D::try_with_at_least_precision`): it decides the width of the result, or the overflow error.
-/
namespace Decstr.Props.C07
open Decstr.Model Decstr.Spec Decstr.Proofs

/-- **C07 / C04 / C17 (allocation).** For every digit count `d ≥ 1` and every exponent (or none, for NaN payloads):

* a fixed-width type allocates its own width iff the smallest sufficient width `need d e` is within it;
* `Bitstring` allocates exactly `need d e` words iff `need d e ≤ 5` (160 bits);
* `BigBitstring` always allocates, a width that is sufficient, at most one 32-bit step above `need d e`,
  and exactly `need d e` up to 160 bits;
* a refusal names the type's capacity and a needed width that is larger, a multiple of 4 bytes and sufficient. -/
theorem C07_alloc (T : Ty) (d : Nat) (hd : 0 < d) (e : Option Int) :
    match T.withPrecision d e with
    | .ok b => ∃ n, b = Buf.zero (4 * n) ∧ 0 < n ∧ (Fmt.mk n).fitsB d e = true ∧ (∀ cap, T.capN = some cap → n ≤ cap) ∧
        (match T.fixedN with
         | some w => n = w
         | none => need d e ≤ n ∧ n ≤ need d e + 1 ∧ (need d e ≤ 5 → n = need d e))
    | .error err => ∃ cap n, T.capN = some cap ∧ cap < need d e ∧ err = .wouldOverflow (4 * cap) (4 * n) ∧
        cap < n ∧ (Fmt.mk n).fitsB d e = true := by
  obtain ⟨n, h1, h2, h3, h4, h5, h6⟩ := bytesForPrecision_spec d hd e
  have hnp := need_pos d e
  cases T <;> simp only [Ty.withPrecision, Ty.withAtLeastBytes, h1]
  · -- Bitstring32
    by_cases h : 4 * n > 4
    · simp only [h, if_true]
      refine ⟨1, n, rfl, ?_, rfl, by omega, h3⟩
      by_cases h' : need d e ≤ 5
      · have := h6 h'; omega
      · omega
    · simp only [h, if_false]
      exact ⟨1, rfl, by decide, fits_mono n 1 d e h2 (by omega) h3, by intro cap hc; simp [Ty.capN] at hc; omega, rfl⟩
  · by_cases h : 4 * n > 8
    · simp only [h, if_true]
      refine ⟨2, n, rfl, ?_, rfl, by omega, h3⟩
      by_cases h' : need d e ≤ 5
      · have := h6 h'; omega
      · omega
    · simp only [h, if_false]
      exact ⟨2, rfl, by decide, fits_mono n 2 d e h2 (by omega) h3, by intro cap hc; simp [Ty.capN] at hc; omega, rfl⟩
  · by_cases h : 4 * n > 16
    · simp only [h, if_true]
      refine ⟨4, n, rfl, ?_, rfl, by omega, h3⟩
      by_cases h' : need d e ≤ 5
      · have := h6 h'; omega
      · omega
    · simp only [h, if_false]
      exact ⟨4, rfl, by decide, fits_mono n 4 d e h2 (by omega) h3, by intro cap hc; simp [Ty.capN] at hc; omega, rfl⟩
  · by_cases h : 4 * n > 20
    · simp only [h, if_true]
      refine ⟨5, n, rfl, ?_, rfl, by omega, h3⟩
      by_cases h' : need d e ≤ 5
      · have := h6 h'; omega
      · omega
    · simp only [h, if_false]
      exact ⟨n, rfl, h2, h3, by intro cap hc; simp [Ty.capN] at hc; omega, h4, h5, h6⟩
  · exact ⟨n, rfl, h2, h3, by intro cap hc; simp [Ty.capN] at hc, h4, h5, h6⟩

/-- **C07 (Bitstring).** `Bitstring` fails only when 160 bits do not suffice. -/
theorem C07_bitstring_ok_iff (d : Nat) (hd : 0 < d) (e : Option Int) :
    (∃ b, Ty.dyn.withPrecision d e = .ok b) ↔ need d e ≤ 5 := by
  have h := C07_alloc .dyn d hd e
  constructor
  · rintro ⟨b, hb⟩
    rw [hb] at h
    obtain ⟨n, hn, _, _, _, h4⟩ := h
    simp only [Ty.fixedN] at h4
    have : n ≤ 5 := by
      simp only [Ty.withPrecision, Ty.withAtLeastBytes] at hb
      split at hb
      · cases hb
      · injection hb with hb; rw [hn] at hb; simp [Buf.zero] at hb; omega
    omega
  · intro hle
    cases hr : Ty.dyn.withPrecision d e with
    | ok b => exact ⟨b, rfl⟩
    | error err =>
      rw [hr] at h
      obtain ⟨cap, n, hc, hlt, _⟩ := h
      simp only [Ty.capN] at hc
      injection hc with hc; omega

/-- **C07 (BigBitstring).** `BigBitstring` never refuses. -/
theorem C07_big_total (d : Nat) (e : Option Int) : ∃ b, Ty.big.withPrecision d e = .ok b :=
  ⟨_, rfl⟩

/-- the two outcomes are attained: exactly minimal (1e24534 → 160 bits) and one step above (44 digits → 224 bits, need 192) -/
example : Ty.big.withPrecision 1 (some 24534) = .ok (Buf.zero 20) ∧ need 1 (some 24534) = 5 := ⟨by rfl, by decide⟩
example : Ty.big.withPrecision 44 (some 0) = .ok (Buf.zero 24) ∧ need 44 (some 0) = 6 := ⟨by rfl, by decide⟩
example : Ty.big.withPrecision 52 (some 0) = .ok (Buf.zero 28) ∧ need 52 (some 0) = 6 := ⟨by rfl, by decide⟩
example : Ty.dyn.withPrecision 1 (some 24535) = .error (.wouldOverflow 20 24) := by rfl

end Decstr.Props.C07
