import Decstr.Props.C10
import Decstr.Proofs.Print
/-!
# C10 (print) — a decimal made from an integer prints exactly like the integer

`C10_from` (in `Props/C10`) says that `from_<int>(v)` is the canonical encoding of (sign of `v`, `|v|`, exponent 0);
`C02_format` says that the text of any bit pattern *denotes* its datum.  This file gives the exact text:

* `toText_integer` — for every width `32n`, sign `s` and coefficient `c < 10^p(n)`, the canonical encoding of `(s, c, 0)`
  is displayed as `[-]` followed by the decimal digits of `c` (no leading zeros; `0` and `-0` for zero);
* `C10_print` — `Display` of `from_<int>(v)` is the integer's own decimal text `toDecimal v` (the model of `itoa`).
-/
namespace Decstr.Props.C10
open Decstr.Model Decstr.Spec Decstr.Proofs

/-- exponent 0 is an exponent of every format -/
theorem zero_in_range (n : Nat) (hn : 0 < n) : (Fmt.mk n).qmin ≤ 0 ∧ (0 : Int) ≤ (Fmt.mk n).qmax := by
  have h1 := C11.qmax_ge_90 n hn
  simp only [Fmt.qmin]; omega

/-- **The text of an integer-valued decimal.** For every width `32n` (`n ≥ 1`), sign `s` and coefficient `c < 10^p(n)`:
    the canonical encoding of `(s, c, 0)` is displayed — by every type — as the sign (`-` or nothing) followed by the
    decimal digits of `c`; `natDigits 0 = "0"`, so negative zero prints `-0`. -/
theorem toText_integer (T : Ty) (n : Nat) (hn : 0 < n) (s : Bool) (c : Nat) (hc : c < 10 ^ (Fmt.mk n).p) :
    toText T ⟨4 * n, encodeFin ⟨n⟩ s c 0⟩ = signText s ++ natDigits c := by
  obtain ⟨hdec, hlt⟩ := decode_encodeFin n hn s c 0 hc (zero_in_range n hn)
  have hwf : WF ⟨4 * n, encodeFin ⟨n⟩ s c 0⟩ n := ⟨hn, rfl, hlt⟩
  exact toText_of_decode_int T _ n hwf s c hdec

/-- `C10_print` without the range hypotheses (they are not needed: `fromInt … = .ok b` already bounds the digits) -/
theorem C10_print' (T : Ty) (I : IntTy) (v : Int) (b : Buf) (hb : fromInt T I v = .ok b) : toText T b = toDecimal v := by
  have h := C10_from T I v
  simp only at h
  rw [hb] at h
  obtain ⟨n, hn, hbb, hd, _⟩ := h
  have hc : v.natAbs < 10 ^ (Fmt.mk n).p :=
    (natDigits_length_le v.natAbs (Fmt.mk n).p (by simp only [Fmt.p]; omega)).1 hd
  rw [hbb, toText_integer T n hn _ _ hc, toDecimal_eq]
  by_cases h0 : v < 0 <;> simp [signText, h0]

set_option linter.unusedVariables false in
/-- **C10 (prints exactly like the integer).** The `Display` text of `from_<int>(v)` is the integer's decimal text.
    (`hI`, `hv` are part of the property's statement; the proof does not need them — see `C10_print'`.) -/
theorem C10_print (T : Ty) (I : IntTy) (hI : I.bits ≤ 128) (v : Int) (hv : I.contains v = true) (b : Buf)
    (hb : fromInt T I v = .ok b) : toText T b = toDecimal v :=
  C10_print' T I v b hb

/-- with `C10_infallible`: for the conversions the crate offers as infallible, a result exists and prints like the integer -/
theorem C10_print_infallible (T : Ty) (I : IntTy) (hI : I.bits = 8 ∨ I.bits = 16 ∨ I.bits = 32 ∨ I.bits = 64 ∨ I.bits = 128)
    (hinf : T.intInfallible I = true) (v : Int) (hv : I.contains v = true) :
    ∃ b, fromInt T I v = .ok b ∧ toText T b = toDecimal v := by
  obtain ⟨b, hb⟩ := C10_infallible T I hI hinf v hv
  exact ⟨b, hb, C10_print' T I v b hb⟩

/-! ## Non-vacuity -/

/-- decimal64, `-0`, and the largest coefficient of decimal32 -/
example : toText .b64 ⟨4 * 2, encodeFin ⟨2⟩ true 0 0⟩ = [45, 48] := by
  rw [toText_integer .b64 2 (by decide) true 0 (by decide)]; rfl
example : toText .b32 ⟨4 * 1, encodeFin ⟨1⟩ false 9999999 0⟩ = [57, 57, 57, 57, 57, 57, 57] := by
  rw [toText_integer .b32 1 (by decide) false 9999999 (by decide)]; decide +kernel

/-- `i16 → decimal32`: `-1200` satisfies every hypothesis of `C10_print` and prints as `-1200` -/
example : ∃ b, fromInt .b32 ⟨true, 16⟩ (-1200) = .ok b ∧ toText .b32 b = [45, 49, 50, 48, 48] := by
  obtain ⟨b, hb⟩ := C10_infallible .b32 ⟨true, 16⟩ (by decide) (by decide) (-1200) (by decide +kernel)
  refine ⟨b, hb, ?_⟩
  rw [C10_print .b32 ⟨true, 16⟩ (by decide) (-1200) (by decide +kernel) b hb]
  decide +kernel

end Decstr.Props.C10

#print axioms Decstr.Props.C10.toText_integer
#print axioms Decstr.Props.C10.C10_print'
#print axioms Decstr.Props.C10.C10_print
#print axioms Decstr.Props.C10.C10_print_infallible
